(* C19, mirror clause: a listener that only replays announcements holds an exact mirror of
   containment, wire membership, references, top instances and data after every call. *)
From Coq Require Import List Arith Bool Lia.
From RecordUpdate Require Import RecordSet.
From SV Require Import Base.Base IR.State IR.NS IR.Ops IR.Shadow Proofs.AssocX Proofs.Frame Proofs.Inv1a
  Proofs.Inv2a Proofs.InvP Proofs.InvW Proofs.Refused Proofs.Fresh Proofs.RefusedFull.
Import ListNotations RecordSetNotations.

Definition sim (pre s : state) (sh : shadow) (r : R) : Prop :=
  exists evs, log (fst r) = log s ++ evs /\
    (snd r <> Some XStuck -> mirror (fst r) (feed_all pre sh evs)).

Lemma feed_all_app pre sh a b : feed_all pre sh (a ++ b) = feed_all pre (feed_all pre sh a) b.
Proof. unfold feed_all. apply fold_left_app. Qed.

Lemma sim_bind pre s sh r f :
  sim pre s sh r ->
  (forall sh1, snd r = None -> mirror (fst r) sh1 -> sim pre (fst r) sh1 (f (fst r))) ->
  sim pre s sh (r >>= f).
Proof.
  intros [e1 [L1 M1]] H. destruct r as [s1 [x|]]; cbn [bindR fst snd] in *.
  - exists e1. split; assumption.
  - destruct (H (feed_all pre sh e1) eq_refl (M1 ltac:(discriminate))) as [e2 [L2 M2]].
    exists (e1 ++ e2). split; [rewrite L2, L1, app_assoc; reflexivity|]. rewrite feed_all_app. exact M2.
Qed.

Lemma sim_guard pre b x s sh k : x <> XStuck \/ True ->
  mirror s sh -> (b = true -> sim pre s sh (k s)) -> sim pre s sh (guard b x s k).
Proof.
  intros _ M H. unfold guard. destruct b; [apply H; reflexivity|].
  exists []. split; [rewrite app_nil_r; reflexivity|intros _; exact M].
Qed.

(* the mirror looks at five fields only *)
Lemma mirror_ext s s' sh :
  kids s' = kids s -> wpins s' = wpins s -> iref s' = iref s -> top s' = top s -> data s' = data s ->
  mirror s sh -> mirror s' sh.
Proof. intros A B C D E [M1 M2 M3 M4 M5]. constructor; intros; rewrite ?A, ?B, ?C, ?D, ?E; auto. Qed.

Lemma sim_quiet pre s sh (r : R) :
  mirror s sh -> log (fst r) = log s ->
  kids (fst r) = kids s -> wpins (fst r) = wpins s -> iref (fst r) = iref s -> top (fst r) = top s ->
  data (fst r) = data s -> sim pre s sh r.
Proof.
  intros M L A B C D E. exists []. split; [rewrite app_nil_r; exact L|]. intros _. apply (mirror_ext s); assumption.
Qed.

Lemma sim_refused pre s sh x : mirror s sh -> sim pre s sh (raise s x).
Proof. intro M. apply sim_quiet; try reflexivity. exact M. Qed.

Lemma sim_ret pre s sh : mirror s sh -> sim pre s sh (ret s).
Proof. intro M. apply sim_quiet; try reflexivity. exact M. Qed.

(* one announcement followed at once by the change it announces *)
Lemma sim_event pre s sh ev s' :
  log s' = log s ++ [ev] -> mirror s' (feed pre sh ev) -> sim pre s sh (ret s').
Proof. intros L M. exists [ev]. split; [exact L|intros _; exact M]. Qed.

(* ---- data ---- *)
Lemma mirror_data_write pre s sh e k v :
  mirror s sh -> mirror (data_write (emit s (EDictSet e k v)) e k v) (feed pre sh (EDictSet e k v)).
Proof.
  intros [M1 M2 M3 M4 M5]. constructor; try assumption. intros e0 k0. cbn. unfold upd.
  destruct (Nat.eqb e0 e) eqn:E; [|apply M5]. apply Nat.eqb_eq in E. subst e0.
  destruct (str_eqb k0 k) eqn:Ek.
  - apply str_eqb_spec in Ek. subst k0. rewrite !sassoc_set_same. reflexivity.
  - assert (k0 <> k) by (intro; subst; rewrite str_eqb_refl in Ek; discriminate).
    rewrite !sassoc_set_other by assumption. apply M5.
Qed.

Lemma mirror_data_erase pre s sh e k ev :
  ev = EDictDel e k \/ ev = EDictPop e k ->
  mirror s sh -> mirror (data_erase (emit s ev) e k) (feed pre sh ev).
Proof.
  intros Hev [M1 M2 M3 M4 M5].
  assert (Hf : feed pre sh ev = set_sd sh (upd (sd sh) e (sassoc_del k (sd sh e)))) by (destruct Hev; subst; reflexivity).
  rewrite Hf. constructor; try assumption. intros e0 k0. cbn. unfold upd.
  destruct (Nat.eqb e0 e) eqn:E; [|apply M5]. apply Nat.eqb_eq in E. subst e0.
  destruct (str_eqb k0 k) eqn:Ek.
  - apply str_eqb_spec in Ek. subst k0. rewrite !sassoc_del_same. reflexivity.
  - assert (k0 <> k) by (intro; subst; rewrite str_eqb_refl in Ek; discriminate).
    rewrite !sassoc_del_other by assumption. apply M5.
Qed.

(* state transformers that cannot fail *)
Definition simS (pre s : state) (sh : shadow) (s' : state) : Prop :=
  exists evs, log s' = log s ++ evs /\ mirror s' (feed_all pre sh evs).

Lemma simS_refl pre s sh : mirror s sh -> simS pre s sh s.
Proof. intro M. exists []. split; [rewrite app_nil_r; reflexivity|exact M]. Qed.

Lemma simS_trans pre a sh b c :
  simS pre a sh b -> (forall sh1, mirror b sh1 -> simS pre b sh1 c) -> simS pre a sh c.
Proof.
  intros [e1 [L1 M1]] H. destruct (H _ M1) as [e2 [L2 M2]].
  exists (e1 ++ e2). split; [rewrite L2, L1, app_assoc; reflexivity|rewrite feed_all_app; exact M2].
Qed.

Lemma simS_sim pre s sh s' : simS pre s sh s' -> sim pre s sh (ret s').
Proof. intros [e [L M]]. exists e. split; [exact L|intros _; exact M]. Qed.

Lemma simS_quiet pre s sh s' :
  mirror s sh -> log s' = log s ->
  kids s' = kids s -> wpins s' = wpins s -> iref s' = iref s -> top s' = top s -> data s' = data s -> simS pre s sh s'.
Proof.
  intros M L A B C D E. exists []. split; [rewrite app_nil_r; exact L|]. apply (mirror_ext s); assumption.
Qed.

Lemma simS_event pre s sh ev s' :
  log s' = log s ++ [ev] -> mirror s' (feed pre sh ev) -> simS pre s sh s'.
Proof. intros L M. exists [ev]. split; assumption. Qed.

Lemma simS_fold {A} pre (f : state -> A -> state) :
  (forall s sh x, mirror s sh -> simS pre s sh (f s x)) ->
  forall l s sh, mirror s sh -> simS pre s sh (fold_left f l s).
Proof.
  intro H. induction l as [|x l IH]; intros s sh M; cbn; [apply simS_refl; exact M|].
  eapply simS_trans; [apply H; exact M|]. intros sh1 M1. apply IH; exact M1.
Qed.

Lemma simS_apply_namespace pre p s sh e : mirror s sh -> simS pre s sh (apply_namespace p s e).
Proof.
  intro M. unfold apply_namespace. apply simS_fold; [|exact M]. clear. intros s sh x M.
  set (ev := EDictSet x str_NS (VStr (pol_name p))).
  set (s1 := data_write (emit s ev) x str_NS (VStr (pol_name p))).
  assert (H1 : simS pre s sh s1) by (apply (simS_event _ _ _ ev); [reflexivity|apply mirror_data_write; exact M]).
  destruct (fresh_table p s1 x); [|exact H1].
  eapply simS_trans; [exact H1|]. intros sh1 M1. apply simS_quiet; try reflexivity. exact M1.
Qed.

Lemma simS_drop_namespace pre s sh e : mirror s sh -> simS pre s sh (drop_namespace s e).
Proof.
  intro M. unfold drop_namespace. apply simS_fold; [|exact M]. clear. intros s sh x M.
  assert (H1 : simS pre s sh (set_nstab s x None)) by (apply simS_quiet; try reflexivity; exact M).
  destruct (_ && _); [|exact H1].
  eapply simS_trans; [exact H1|]. intros sh1 M1.
  apply (simS_event _ _ _ (EDictDel x str_NS)); [reflexivity|apply mirror_data_erase; [left; reflexivity|exact M1]].
Qed.

Lemma log_fst_quiet_ns_dictionary_set_cases pre s sh e k v :
  mirror s sh -> sim pre s sh (ns_dictionary_set s e k v).
Proof.
  intro M. unfold ns_dictionary_set.
  destruct (str_eqb k str_NS).
  - destruct (match sassoc k (data s e) with Some v0 => val_eqb v0 v | None => false end); [apply sim_ret; exact M|].
    destruct (ns_parent s e); [apply sim_refused; exact M|].
    destruct (pol_of_val v) as [p|]; [|apply sim_refused; exact M].
    destruct (is_compliant p s e); [|apply sim_refused; exact M].
    apply simS_sim, simS_apply_namespace. exact M.
  - destruct (is_name_key k); [|apply sim_ret; exact M].
    destruct v; try (apply sim_refused; exact M).
    destruct (negb _); [apply sim_refused; exact M|].
    destruct (ns_parent s e) as [p|]; [|apply sim_ret; exact M].
    destruct (kind_of s e); [|apply sim_ret; exact M].
    destruct (nstab s p); [|apply sim_ret; exact M].
    destruct (ns_no_conflict _ _ _ _ _); [|apply sim_refused; exact M].
    apply sim_quiet; try reflexivity. exact M.
Qed.

Lemma sim_dict_set pre s sh e k v : mirror s sh -> sim pre s sh (dict_set s e k v).
Proof.
  intro M. unfold dict_set. apply sim_bind; [apply log_fst_quiet_ns_dictionary_set_cases; exact M|].
  intros sh1 _ M1. apply (sim_event _ _ _ (EDictSet e k v)); [reflexivity|apply mirror_data_write; exact M1].
Qed.

Lemma sim_ns_dictionary_delete pre s sh e k : mirror s sh -> sim pre s sh (ns_dictionary_delete s e k).
Proof.
  intro M. unfold ns_dictionary_delete. destruct (str_eqb k str_NS).
  - destruct (ns_parent s e); [apply sim_refused; exact M|].
    destruct (has_key s e str_NS); [apply simS_sim, simS_drop_namespace; exact M|apply sim_ret; exact M].
  - destruct (is_name_key k); [|apply sim_ret; exact M].
    apply sim_quiet; try reflexivity; try exact M; unfold ns_remove_key;
      destruct (ns_parent s e); try reflexivity; destruct (kind_of s e); try reflexivity; destruct (nstab s _); reflexivity.
Qed.

(* del element[k] with a missing key announces and then raises KeyError: the mirror is unaffected *)
Lemma mirror_erase_absent pre s sh e k ev :
  ev = EDictDel e k \/ ev = EDictPop e k -> has_key (emit s ev) e k = false ->
  mirror s sh -> mirror (emit s ev) (feed pre sh ev).
Proof.
  intros Hev Hk M. pose proof (mirror_data_erase pre s sh e k ev Hev M) as [M1 M2 M3 M4 M5].
  constructor; try assumption. intros e0 k0. rewrite M5. cbn. unfold upd.
  destruct (Nat.eqb e0 e) eqn:E; [|reflexivity]. apply Nat.eqb_eq in E. subst e0.
  destruct (str_eqb k0 k) eqn:Ek.
  - apply str_eqb_spec in Ek. subst k0. rewrite sassoc_del_same. unfold has_key in Hk. cbn in Hk.
    destruct (sassoc k (data s e)); [discriminate|reflexivity].
  - apply sassoc_del_other. intro; subst; rewrite str_eqb_refl in Ek; discriminate.
Qed.

Lemma sim_dict_del pre s sh e k : mirror s sh -> sim pre s sh (dict_del s e k).
Proof.
  intro M. unfold dict_del. apply sim_bind; [apply sim_ns_dictionary_delete; exact M|].
  intros sh1 _ M1. set (s1 := fst (ns_dictionary_delete s e k)) in *.
  destruct (has_key (emit s1 (EDictDel e k)) e k) eqn:Hk.
  - apply (sim_event _ _ _ (EDictDel e k)); [reflexivity|apply mirror_data_erase; [left; reflexivity|exact M1]].
  - exists [EDictDel e k]. split; [reflexivity|]. intros _. apply (mirror_erase_absent pre s1 sh1 e k); [left; reflexivity|exact Hk|exact M1].
Qed.

Lemma sim_dict_pop pre s sh e k : mirror s sh -> sim pre s sh (dict_pop s e k).
Proof.
  intro M. unfold dict_pop. apply sim_bind; [apply sim_ns_dictionary_delete; exact M|].
  intros sh1 _ M1. set (s1 := fst (ns_dictionary_delete s e k)) in *.
  destruct (has_key (emit s1 (EDictPop e k)) e k) eqn:Hk.
  - apply (sim_event _ _ _ (EDictPop e k)); [reflexivity|apply mirror_data_erase; [right; reflexivity|exact M1]].
  - exists [EDictPop e k]. split; [reflexivity|]. intros _. apply (mirror_erase_absent pre s1 sh1 e k); [right; reflexivity|exact Hk|exact M1].
Qed.

Lemma sim_ns_add pre s sh p c ck : mirror s sh -> sim pre s sh (ns_add s p c ck).
Proof.
  intro M. unfold ns_add.
  destruct (match nstab s p with Some _ => _ | None => _ end); [apply sim_refused; exact M|].
  apply sim_bind.
  - destruct (sassoc str_NS (data s p)).
    + destruct (match sassoc str_NS (data s c) with Some _ => _ | None => _ end); [apply sim_ret; exact M|apply sim_dict_set; exact M].
    + destruct (has_key s c str_NS); [apply sim_dict_del; exact M|apply sim_ret; exact M].
  - intros sh1 _ M1. destruct (nstab _ p); [|apply sim_ret; exact M1].
    apply sim_quiet; try reflexivity. exact M1.
Qed.

Lemma sim_set_props pre e props : forall s sh, mirror s sh -> sim pre s sh (set_props s e props).
Proof.
  induction props as [|[k v] ps IH]; intros s sh M; cbn [set_props]; [apply sim_ret; exact M|].
  apply sim_bind; [apply sim_dict_set; exact M|]. intros sh1 _ M1. apply IH. exact M1.
Qed.

Lemma sim_construct pre s sh k nm props : mirror s sh -> sim pre s sh (fst (construct s k nm props)).
Proof.
  intro M. unfold construct, alloc. cbn zeta beta iota.
  set (s0 := s <| next := S (next s) |> <| kind_of ::= fun f => upd f (next s) (Some k) |>).
  assert (M0 : mirror s0 sh) by (apply (mirror_ext s); try reflexivity; exact M).
  assert (L0 : log s0 = log s) by reflexivity.
  destruct (has_data k); cbn [fst].
  - assert (H : sim pre s0 sh (ns_create s0 (next s) >>= fun s1 =>
                  (match nm with Some n => dict_set (emit s1 (ECreate k (next s))) (next s) str_NAME (VStr n)
                               | None => ret (emit s1 (ECreate k (next s))) end) >>= fun s3 => set_props s3 (next s) props)).
    { apply sim_bind; [apply sim_dict_set; exact M0|]. intros sh1 _ M1.
      set (s1 := fst (ns_create s0 (next s))) in *.
      assert (M2 : mirror (emit s1 (ECreate k (next s))) (feed pre sh1 (ECreate k (next s)))).
      { cbn [feed]. apply (mirror_ext s1); try reflexivity. exact M1. }
      apply sim_bind.
      - destruct nm.
        + destruct (sim_dict_set pre _ _ (next s) str_NAME (VStr s2) M2) as [e2 [L2 Hm2]].
          exists (ECreate k (next s) :: e2). split; [rewrite L2; cbn; rewrite <- app_assoc; reflexivity|exact Hm2].
        + exists [ECreate k (next s)]. split; [reflexivity|intros _; exact M2].
      - intros sh3 _ M3. apply sim_set_props. exact M3. }
    destruct H as [evs [L Hm]]. exists evs. split; [rewrite L, L0; reflexivity|exact Hm].
  - apply sim_quiet; try reflexivity. exact M.
Qed.

Lemma sim_op_set_name pre s sh e nm : mirror s sh -> sim pre s sh (op_set_name s e nm).
Proof.
  intro M. unfold op_set_name. destruct nm; [apply sim_dict_set; exact M|].
  destruct (has_key s e str_NAME); [apply sim_dict_del; exact M|apply sim_ret; exact M].
Qed.

Lemma sim_op_del_name pre s sh e : mirror s sh -> sim pre s sh (op_del_name s e).
Proof.
  intro M. unfold op_del_name.
  destruct (has_key s e str_NAME); [apply sim_dict_del; exact M|apply sim_ret; exact M].
Qed.

(* ---- containers ---- *)
Lemma upd3_true f r p c r' p' c' :
  upd3 f r p c true r' p' c' = true <-> (r' = r /\ p' = p /\ c' = c) \/ f r' p' c' = true.
Proof.
  unfold upd3. destruct (rel_eqb r' r) eqn:Er; cbn [andb]; [|split; [auto|intros [[-> _]|H]; [rewrite rel_eqb_refl in Er; discriminate|exact H]]].
  apply rel_eqb_spec in Er. subst r'.
  destruct (Nat.eqb_spec p' p) as [->|Hp]; cbn [andb]; [|split; [auto|intros [[_ [H _]]|H]; [contradiction|exact H]]].
  destruct (Nat.eqb_spec c' c) as [->|Hc]; [split; auto|split; [auto|intros [[_ [_ H]]|H]; [contradiction|exact H]]].
Qed.

Lemma upd3_false f r p c r' p' c' :
  upd3 f r p c false r' p' c' = true <-> ~ (r' = r /\ p' = p /\ c' = c) /\ f r' p' c' = true.
Proof.
  unfold upd3. destruct (rel_eqb r' r) eqn:Er; cbn [andb].
  2:{ split; [intro H; split; [intros [-> _]; rewrite rel_eqb_refl in Er; discriminate|exact H]|tauto]. }
  apply rel_eqb_spec in Er. subst r'.
  destruct (Nat.eqb_spec p' p) as [->|Hp]; cbn [andb]; [|split; [intro H; split; [tauto|exact H]|tauto]].
  destruct (Nat.eqb_spec c' c) as [->|Hc]; [split; [discriminate|intros [H _]; exfalso; apply H; auto]|split; [intro H; split; [tauto|exact H]|tauto]].
Qed.

Lemma kids_upd2 s r p l r' p' :
  upd2 (kids s) r p l r' p' = if rel_eqb r' r && Nat.eqb p' p then l else kids s r' p'.
Proof.
  unfold upd2, upd. destruct (rel_eqb r' r); cbn [andb]; [|reflexivity]. destruct (Nat.eqb p' p); reflexivity.
Qed.

(* the announcement of an add followed by the insertion *)
Lemma mirror_add pre s sh r p c l :
  (forall x, In x l <-> x = c \/ In x (kids s r p)) ->
  mirror s sh -> mirror (set_kids (emit s (EAdd r p c)) r p l) (feed pre sh (EAdd r p c)).
Proof.
  intros Hl [M1 M2 M3 M4 M5]. constructor; try assumption. intros r' p' c'. cbn.
  rewrite upd3_true, kids_upd2, M1.
  destruct (rel_eqb r' r) eqn:Er; cbn [andb].
  - apply rel_eqb_spec in Er. subst r'. destruct (Nat.eqb_spec p' p) as [->|Hp].
    + rewrite Hl. split; [intros [[_ [_ ->]]|H]; auto|intros [->|H]; auto].
    + split; [intros [[_ [H _]]|H]; [contradiction|exact H]|auto].
  - split; [intros [[-> _]|H]; [rewrite rel_eqb_refl in Er; discriminate|exact H]|auto].
Qed.

Lemma mirror_remove pre s sh r p l (gone : id -> Prop) evs :
  (forall x, In x l <-> In x (kids s r p) /\ ~ gone x) ->
  (forall e, In e evs -> exists c, e = ERemove r p c /\ gone c) ->
  (forall c, gone c -> In (ERemove r p c) evs) ->
  mirror s sh -> mirror (set_kids s r p l) (feed_all pre sh evs).
Proof.
  intros Hl He Hg M.
  assert (Hsk : forall r' p' c', sk (feed_all pre sh evs) r' p' c' = true <->
                 sk sh r' p' c' = true /\ ~ (r' = r /\ p' = p /\ In (ERemove r p c') evs)).
  { clear Hl Hg M. revert sh. induction evs as [|e evs IH]; intros sh r' p' c'; cbn [feed_all fold_left].
    - split; [intro H; split; [exact H|intros [_ [_ []]]]|tauto].
    - destruct (He e (or_introl eq_refl)) as [c [-> Hc]].
      fold (feed_all pre (feed pre sh (ERemove r p c)) evs). rewrite IH by (intros e' He'; apply He; right; exact He').
      cbn [feed set_sk sk]. rewrite upd3_false. cbn [In]. split.
      + intros [[H1 H2] H3]. split; [exact H2|]. intros [-> [-> [H|H]]]; [injection H as <-; apply H1; auto|apply H3; auto].
      + intros [H1 H2]. split; [split; [|exact H1]|]; [intros [-> [-> ->]]; apply H2; auto|intros [-> [-> H]]; apply H2; auto]. }
  assert (Hother : sw (feed_all pre sh evs) = sw sh /\ sr (feed_all pre sh evs) = sr sh /\ st (feed_all pre sh evs) = st sh /\ sd (feed_all pre sh evs) = sd sh).
  { clear Hl Hg M Hsk. revert sh. induction evs as [|e evs IH]; intro sh; [repeat split|].
    destruct (He e (or_introl eq_refl)) as [c [-> _]]. cbn [feed_all fold_left]. fold (feed_all pre (feed pre sh (ERemove r p c)) evs).
    destruct (IH ltac:(intros e' He'; apply He; right; exact He') (feed pre sh (ERemove r p c))) as [A [B [C D]]].
    rewrite A, B, C, D. repeat split. }
  destruct Hother as [A [B [C D]]]. destruct M as [M1 M2 M3 M4 M5].
  constructor; rewrite ?A, ?B, ?C, ?D; try assumption.
  intros r' p' c'. rewrite Hsk, M1. cbn. rewrite kids_upd2.
  destruct (rel_eqb r' r) eqn:Er; cbn [andb].
  - apply rel_eqb_spec in Er. subst r'. destruct (Nat.eqb_spec p' p) as [->|Hp].
    + rewrite Hl. split; intros [H1 H2]; (split; [exact H1|]).
      * intro Hgc. apply H2. repeat split. apply Hg. exact Hgc.
      * intros [_ [_ Hin]]. destruct (He _ Hin) as [c0 [E Hc0]]. injection E as <-. contradiction.
    + split; [tauto|intro H; split; [exact H|tauto]].
  - split; [tauto|intro H; split; [exact H|intros [-> _]; rewrite rel_eqb_refl in Er; discriminate]].
Qed.

(* ---- wires ---- *)
Lemma updw_true f w p w' q : updw f w p true w' q = true <-> (w' = w /\ q = p) \/ f w' q = true.
Proof.
  unfold updw. destruct (Nat.eqb_spec w' w) as [->|Hw]; cbn [andb].
  - destruct (pin_eqb q p) eqn:E; [apply pin_eqb_spec in E; subst; split; auto|].
    split; [auto|intros [[_ ->]|H]; [rewrite pin_eqb_refl in E; discriminate|exact H]].
  - split; [auto|intros [[H _]|H]; [contradiction|exact H]].
Qed.

Lemma updw_false f w p w' q : updw f w p false w' q = true <-> ~ (w' = w /\ q = p) /\ f w' q = true.
Proof.
  unfold updw. destruct (Nat.eqb_spec w' w) as [->|Hw]; cbn [andb].
  - destruct (pin_eqb q p) eqn:E.
    + apply pin_eqb_spec in E; subst. split; [discriminate|intros [H _]; exfalso; apply H; auto].
    + split; [intro H; split; [intros [_ ->]; rewrite pin_eqb_refl in E; discriminate|exact H]|tauto].
  - split; [intro H; split; [tauto|exact H]|tauto].
Qed.

Lemma wpins_upd s w l w' : upd (wpins s) w l w' = if Nat.eqb w' w then l else wpins s w'.
Proof. reflexivity. Qed.

Lemma mirror_connect pre s sh w p l :
  (forall x, In x l <-> x = p \/ In x (wpins s w)) ->
  mirror s sh -> mirror (set_wpins (emit s (EConnect w p)) w l) (feed pre sh (EConnect w p)).
Proof.
  intros Hl [M1 M2 M3 M4 M5]. constructor; try assumption. intros w' q. cbn.
  rewrite updw_true, wpins_upd, M2. destruct (Nat.eqb_spec w' w) as [->|Hw].
  - rewrite Hl. split; [intros [[_ ->]|H]; auto|intros [->|H]; auto].
  - split; [intros [[H _]|H]; [contradiction|exact H]|auto].
Qed.

(* pins leave the wire w: any number of disconnect announcements, each for a pin that goes *)
Lemma mirror_wire_remove pre s sh w l (gone : pin -> Prop) evs :
  (forall x, In x l <-> In x (wpins s w) /\ ~ gone x) ->
  (forall e, In e evs -> exists q, e = EDisconnect w q /\ gone q) ->
  (forall q, gone q -> In q (wpins s w) -> In (EDisconnect w q) evs) ->
  mirror s sh -> mirror (set_wpins s w l) (feed_all pre sh evs).
Proof.
  intros Hl He Hg M.
  assert (Hsw : forall w' q, sw (feed_all pre sh evs) w' q = true <->
                 sw sh w' q = true /\ ~ (w' = w /\ In (EDisconnect w q) evs)).
  { clear Hl Hg M. revert sh. induction evs as [|e evs IH]; intros sh w' q; cbn [feed_all fold_left].
    - split; [intro H; split; [exact H|intros [_ []]]|tauto].
    - destruct (He e (or_introl eq_refl)) as [c [-> Hc]].
      fold (feed_all pre (feed pre sh (EDisconnect w c)) evs). rewrite IH by (intros e' He'; apply He; right; exact He').
      cbn [feed set_sw sw]. rewrite updw_false. cbn [In]. split.
      + intros [[H1 H2] H3]. split; [exact H2|]. intros [-> [H|H]]; [injection H as <-; apply H1; auto|apply H3; auto].
      + intros [H1 H2]. split; [split; [|exact H1]|]; [intros [-> ->]; apply H2; auto|intros [-> H]; apply H2; auto]. }
  assert (Hother : sk (feed_all pre sh evs) = sk sh /\ sr (feed_all pre sh evs) = sr sh /\ st (feed_all pre sh evs) = st sh /\ sd (feed_all pre sh evs) = sd sh).
  { clear Hl Hg M Hsw. revert sh. induction evs as [|e evs IH]; intro sh; [repeat split|].
    destruct (He e (or_introl eq_refl)) as [c [-> _]]. cbn [feed_all fold_left]. fold (feed_all pre (feed pre sh (EDisconnect w c)) evs).
    destruct (IH ltac:(intros e' He'; apply He; right; exact He') (feed pre sh (EDisconnect w c))) as [A [B [C D]]].
    rewrite A, B, C, D. repeat split. }
  destruct Hother as [A [B [C D]]]. destruct M as [M1 M2 M3 M4 M5].
  constructor; rewrite ?A, ?B, ?C, ?D; try assumption.
  intros w' q. rewrite Hsw, M2. cbn. rewrite wpins_upd.
  destruct (Nat.eqb_spec w' w) as [->|Hw].
  - rewrite Hl. split; intros [H1 H2]; (split; [exact H1|]).
    + intro Hgc. apply H2. split; [reflexivity|]. apply Hg; assumption.
    + intros [_ Hin]. destruct (He _ Hin) as [c0 [E Hc0]]. injection E as <-. contradiction.
  - split; [tauto|intro H; split; [exact H|tauto]].
Qed.

Definition WND (s : state) : Prop := forall w, NoDup (wpins s w).

Lemma mirror_set_pin_wire s sh p v : mirror s sh -> mirror (set_pin_wire s p v) sh.
Proof. intro M. apply (mirror_ext s); try (destruct p; reflexivity). exact M. Qed.

Lemma sim_op_connect pre s sh w p pos : mirror s sh -> sim pre s sh (op_connect s w p pos).
Proof.
  intro M. unfold op_connect. apply sim_guard; [right; exact I|exact M|]. intros _.
  assert (Hgo : sim pre s sh (ret (set_pin_wire (set_wpins (emit s (EConnect w p)) w
                   (py_insert pos p (wpins (emit s (EConnect w p)) w))) p (Some w)))).
  { apply (sim_event _ _ _ (EConnect w p)); [destruct p; reflexivity|].
    apply mirror_set_pin_wire. apply mirror_connect; [|exact M]. intro x. apply py_insert_In. }
  destruct p as [i|n i|]; [| |apply sim_refused; exact M].
  - destruct (ipwire s i); [apply sim_refused; exact M|exact Hgo].
  - destruct (assoc i (ipins s n)) as [[w0|]|]; [apply sim_refused; exact M|exact Hgo|apply sim_refused; exact M].
Qed.

Lemma sim_op_disconnect pre s sh w p : WND s -> mirror s sh -> sim pre s sh (op_disconnect s w p).
Proof.
  intros Hnd M. unfold op_disconnect. apply sim_guard; [right; exact I|exact M|]. intros _.
  apply sim_guard; [right; exact I|exact M|]. intros _.
  set (ev := EDisconnect w p).
  assert (Hm : forall evs, evs = [ev] \/ evs = [ev; ev] ->
               mirror (set_wpins s w (pin_remove_first p (wpins s w))) (feed_all pre sh evs)).
  { intros evs Hevs. apply (mirror_wire_remove pre s sh w _ (fun q => q = p)); [| | |exact M].
    - intro x. apply pin_remove_first_In. apply Hnd.
    - intros e He. exists p. split; [|reflexivity]. unfold ev in *. destruct Hevs as [->| ->]; cbn in He; intuition auto.
    - intros q -> _. destruct Hevs as [->| ->]; left; reflexivity. }
  destruct p as [i|n i|].
  - exists [ev]. split; [reflexivity|]. intros _. apply mirror_set_pin_wire.
    apply (mirror_ext (set_wpins s w (pin_remove_first (PIn i) (wpins s w)))); try reflexivity. apply Hm. left; reflexivity.
  - exists [ev; ev]. split; [cbn; rewrite <- app_assoc; reflexivity|]. intros _. apply mirror_set_pin_wire.
    apply (mirror_ext (set_wpins s w (pin_remove_first (POut n i) (wpins s w)))); try reflexivity. apply Hm. right; reflexivity.
  - exists [ev]. split; [reflexivity|]. intros _. apply mirror_set_pin_wire.
    apply (mirror_ext (set_wpins s w (pin_remove_first PDet (wpins s w)))); try reflexivity. apply Hm. left; reflexivity.
Qed.

Definition disc_events (w : id) (p : pin) : list event :=
  match p with POut _ _ => [EDisconnect w p; EDisconnect w p] | _ => [EDisconnect w p] end.

Lemma fold_unset_fields w : forall l s,
  let s' := fold_left (fun s p =>
              match p with
              | POut _ _ => set_pin_wire (emit (emit s (EDisconnect w p)) (EDisconnect w p)) p None
              | _ => set_pin_wire (emit s (EDisconnect w p)) p None
              end) l s in
  log s' = log s ++ flat_map (disc_events w) l /\
  kids s' = kids s /\ wpins s' = wpins s /\ iref s' = iref s /\ top s' = top s /\ data s' = data s.
Proof.
  induction l as [|p l IH]; intro s; cbn [fold_left flat_map]; [rewrite app_nil_r; repeat split|].
  match goal with |- context [fold_left ?f l ?s1] => destruct (IH s1) as [L [A [B [C [D E]]]]] end.
  cbn zeta. rewrite L, A, B, C, D, E. destruct p; cbn; rewrite <- ?app_assoc; repeat split.
Qed.

Lemma sim_op_disconnect_from pre s sh w ps : mirror s sh -> sim pre s sh (op_disconnect_from s w ps).
Proof.
  intro M. unfold op_disconnect_from. apply sim_guard; [right; exact I|exact M|]. intros _.
  apply sim_guard; [right; exact I|exact M|]. intros _.
  destruct (fold_unset_fields w (pins_dedup ps) s) as [L [A [B [C [D E]]]]]. cbn zeta in *.
  match goal with |- context [fold_left ?f (pins_dedup ps) s] => set (s1 := fold_left f (pins_dedup ps) s) in * end.
  exists (flat_map (disc_events w) (pins_dedup ps)). split; [exact L|]. intros _.
  apply (mirror_ext (set_wpins s w (filter (fun x => negb (pin_memb x ps)) (wpins s w)))); cbn; rewrite ?A, ?B, ?C, ?D, ?E; try reflexivity.
  apply (mirror_wire_remove pre s sh w _ (fun q => In q ps)); [| | |exact M].
  - intro x. rewrite filter_In, negb_true_iff. split; intros [H1 H2]; (split; [exact H1|]).
    + intro Hin. apply pin_memb_In in Hin. congruence.
    + destruct (pin_memb x ps) eqn:E0; [apply pin_memb_In in E0; contradiction|reflexivity].
  - intros e He. apply in_flat_map in He as [q [Hq He]]. exists q. split.
    + destruct q; cbn in He; intuition congruence.
    + apply In_pins_dedup. exact Hq.
  - intros q Hq _. apply in_flat_map. exists q. split; [|destruct q; left; reflexivity].
    apply pin_memb_In. rewrite pin_memb_dedup. apply pin_memb_In. exact Hq.
Qed.

(* ---- fields the announcements never speak of ---- *)
Record quiet (s s' : state) : Prop := mkQuiet {
  q_log : log s' = log s; q_kids : kids s' = kids s; q_wpins : wpins s' = wpins s;
  q_iref : iref s' = iref s; q_top : top s' = top s; q_data : data s' = data s
}.
Lemma quiet_refl s : quiet s s. Proof. constructor; reflexivity. Qed.
Lemma quiet_trans a b c : quiet a b -> quiet b c -> quiet a c.
Proof. intros [] []. constructor; congruence. Qed.
Lemma quiet_fold_ids f l : (forall s x, quiet s (f s x)) -> forall s, quiet s (fold_ids f l s).
Proof. intro H. induction l as [|x l IH]; intro s; cbn; [apply quiet_refl|]. eapply quiet_trans; [apply H|apply IH]. Qed.
Lemma quiet_simS pre s sh s' : quiet s s' -> mirror s sh -> simS pre s sh s'.
Proof. intros [] M. apply simS_quiet; assumption. Qed.
Lemma quiet_mirror s s' sh : quiet s s' -> mirror s sh -> mirror s' sh.
Proof. intros [] M. apply (mirror_ext s); assumption. Qed.

Lemma quiet_add_post s r p c : quiet s (add_post s r p c).
Proof.
  unfold add_post. destruct r; try apply quiet_refl.
  - apply quiet_fold_ids. intros s0 n. apply quiet_fold_ids. intros; constructor; reflexivity.
  - destruct (par s RPorts p); [|apply quiet_refl]. apply quiet_fold_ids. intros; constructor; reflexivity.
Qed.

Lemma sim_op_add pre s sh r p c pos : mirror s sh -> sim pre s sh (op_add s r p c pos).
Proof.
  intro M. unfold op_add. repeat (apply sim_guard; [right; exact I|exact M|]; intros _).
  apply sim_bind; [destruct (ns_rel r); [apply sim_ns_add; exact M|apply sim_ret; exact M]|].
  intros sh1 _ M1. match goal with |- sim _ ?s1 _ _ => set (s1' := s1) in * end.
  apply (sim_event _ _ _ (EAdd r p c)).
  - rewrite (q_log _ _ (quiet_add_post _ r p c)). reflexivity.
  - apply (quiet_mirror _ _ _ (quiet_add_post _ r p c)).
    apply (mirror_ext (set_kids (emit s1' (EAdd r p c)) r p (py_insert pos c (kids s1' r p)))); try reflexivity.
    apply mirror_add; [|exact M1]. intro x. apply py_insert_In.
Qed.

Lemma sim_op_reorder pre s sh r p l : mirror s sh -> sim pre s sh (op_reorder s r p l).
Proof.
  intro M. unfold op_reorder, guard. destruct (is_kind s p (rel_parent r)); [|apply sim_refused; exact M].
  destruct (nodupb l && seteqb (kids s r p) l) eqn:Hg; [|apply sim_refused; exact M].
  apply andb_true_iff in Hg as [_ Hs]. rewrite seteqb_spec in Hs.
  exists []. split; [rewrite app_nil_r; reflexivity|]. intros _. destruct M as [M1 M2 M3 M4 M5].
  constructor; try assumption. intros r' p' c'. rewrite M1. cbn. rewrite kids_upd2.
  destruct (rel_eqb r' r) eqn:Er; cbn [andb]; [|tauto]. apply rel_eqb_spec in Er. subst r'.
  destruct (Nat.eqb_spec p' p) as [->|]; [apply Hs|tauto].
Qed.

Lemma sim_op_reorder_wire pre s sh w l : mirror s sh -> sim pre s sh (op_reorder_wire s w l).
Proof.
  intro M. unfold op_reorder_wire, guard. destruct (is_kind s w KWire); [|apply sim_refused; exact M].
  destruct (pins_nodupb l && pins_subsetb l (wpins s w) && pins_subsetb (wpins s w) l) eqn:Hg; [|apply sim_refused; exact M].
  apply andb_true_iff in Hg as [Hg H2]. apply andb_true_iff in Hg as [_ H1].
  rewrite pins_subsetb_spec in H1, H2.
  exists []. split; [rewrite app_nil_r; reflexivity|]. intros _. destruct M as [M1 M2 M3 M4 M5].
  constructor; try assumption. intros w' q. rewrite M2. cbn. rewrite wpins_upd.
  destruct (Nat.eqb_spec w' w) as [->|]; [split; [apply H2|apply H1]|tauto].
Qed.

(* ---- implicit disconnections (outer pins that go away) ---- *)
Definition is_wire_ev (e : event) : bool := match e with EDisconnect _ _ => true | _ => false end.

Definition simW (pre s : state) (sh : shadow) (res : R) : Prop :=
  exists evs, log (fst res) = log s ++ evs /\ forallb is_wire_ev evs = true /\
    (snd res <> Some XStuck ->
     mirror (fst res) (feed_all pre sh evs) /\ WND (fst res) /\ kids (fst res) = kids s /\
     iref (fst res) = iref s /\ top (fst res) = top s /\ data (fst res) = data s).

Lemma simW_ret pre s sh : WND s -> mirror s sh -> simW pre s sh (ret s).
Proof. intros W M. exists []. split; [rewrite app_nil_r; reflexivity|]. split; [reflexivity|]. intros _. split; [exact M|split; [exact W|repeat split]]. Qed.

Lemma simW_bind pre s sh r f :
  simW pre s sh r ->
  (forall sh1, snd r = None -> WND (fst r) -> mirror (fst r) sh1 -> simW pre (fst r) sh1 (f (fst r))) ->
  simW pre s sh (r >>= f).
Proof.
  intros [e1 [L1 [F1 M1]]] H. destruct r as [s1 [x|]]; cbn [bindR fst snd] in *.
  - exists e1. split; [exact L1|split; [exact F1|exact M1]].
  - destruct (M1 ltac:(discriminate)) as [Ma [Wa [Ka [Ia [Ta Da]]]]].
    destruct (H (feed_all pre sh e1) eq_refl Wa Ma) as [e2 [L2 [F2 M2]]].
    exists (e1 ++ e2). split; [rewrite L2, L1, app_assoc; reflexivity|].
    split; [rewrite forallb_app, F1, F2; reflexivity|]. intro Hs. rewrite feed_all_app.
    destruct (M2 Hs) as [Mb [Wb [Kb [Ib [Tb Db]]]]]. split; [exact Mb|split; [exact Wb|split; [congruence|split; [congruence|split; congruence]]]].
Qed.

Lemma simW_fold_idsR pre f l :
  (forall s sh x, WND s -> mirror s sh -> simW pre s sh (f s x)) ->
  forall s sh, WND s -> mirror s sh -> simW pre s sh (fold_idsR f l s).
Proof.
  intro H. induction l as [|x l IH]; intros s sh W M; cbn [fold_idsR]; [apply simW_ret; assumption|].
  apply simW_bind; [apply H; assumption|]. intros sh1 _ W1 M1. apply IH; assumption.
Qed.

Lemma simW_drop_outer pre s sh n i : WND s -> mirror s sh -> simW pre s sh (drop_outer s n i).
Proof.
  intros W M. unfold drop_outer. destruct (assoc i (ipins s n)) as [[w|]|].
  - set (ev := EDisconnect w (POut n i)). exists [ev; ev]. split; [cbn; rewrite <- app_assoc; reflexivity|].
    split; [reflexivity|]. intros _. cbn [fst ret].
    assert (Hm : mirror (set_wpins s w (pin_remove_first (POut n i) (wpins s w))) (feed_all pre sh [ev; ev])).
    { apply (mirror_wire_remove pre s sh w _ (fun q => q = POut n i)); [| | |exact M].
      - intro x. apply pin_remove_first_In. apply W.
      - intros e He. exists (POut n i). split; [|reflexivity]. unfold ev in *. cbn in He. intuition auto.
      - intros q -> _. left; reflexivity. }
    split; [apply (mirror_ext (set_wpins s w (pin_remove_first (POut n i) (wpins s w)))); try reflexivity; exact Hm|].
    split; [|repeat split].
    intro w'. cbn. unfold upd. destruct (Nat.eqb w' w); [apply pin_remove_first_NoDup; apply W|apply W].
  - exists []. split; [rewrite app_nil_r; reflexivity|]. split; [reflexivity|]. intros _. cbn [fst ret].
    split; [apply (mirror_ext s); try reflexivity; exact M|]. split; [exact W|repeat split].
  - exists []. split; [rewrite app_nil_r; reflexivity|]. split; [reflexivity|]. intros Hs. exfalso. apply Hs. reflexivity.
Qed.

(* announcements of different kinds commute *)
Definition side_ev (e : event) : Prop :=
  match e with ERemove _ _ _ => True | EReference _ None => True | _ => False end.

Lemma feed_comm pre sh e e' : is_wire_ev e = true -> side_ev e' ->
  feed pre (feed pre sh e') e = feed pre (feed pre sh e) e'.
Proof.
  destruct e; try discriminate. intros _. destruct e'; try contradiction; cbn; [reflexivity|].
  destruct d; [contradiction|]. intros _. cbn. destruct (sr sh n); reflexivity.
Qed.

Lemma feed_all_comm pre e' : side_ev e' -> forall evs sh, forallb is_wire_ev evs = true ->
  feed_all pre (feed pre sh e') evs = feed pre (feed_all pre sh evs) e'.
Proof.
  intro He'. induction evs as [|e evs IH]; intros sh F; [reflexivity|].
  cbn in F. apply andb_true_iff in F as [Fe F]. cbn [feed_all fold_left].
  fold (feed_all pre (feed pre (feed pre sh e') e) evs). rewrite (feed_comm pre sh e e' Fe He').
  fold (feed_all pre (feed pre sh e) evs). apply IH. exact F.
Qed.

Lemma filter_all {A} (f : A -> bool) l : forallb f l = true -> filter f l = l.
Proof. induction l as [|x l IH]; cbn; [reflexivity|]. intro H. apply andb_true_iff in H as [H1 H2]. rewrite H1, IH; auto. Qed.

Lemma filter_none {A} (f : A -> bool) l : forallb f l = true -> filter (fun x => negb (f x)) l = [].
Proof. induction l as [|x l IH]; cbn; [reflexivity|]. intro H. apply andb_true_iff in H as [H1 H2]. rewrite H1, IH; auto. Qed.

Lemma feed_split pre : forall evs sh,
  (forall e, In e evs -> is_wire_ev e = true \/ side_ev e) ->
  feed_all pre sh evs =
  feed_all pre (feed_all pre sh (filter is_wire_ev evs)) (filter (fun e => negb (is_wire_ev e)) evs).
Proof.
  induction evs as [|e evs IH]; intros sh H; [reflexivity|].
  assert (H' : forall e0, In e0 evs -> is_wire_ev e0 = true \/ side_ev e0) by (intros; apply H; right; assumption).
  cbn [filter]. destruct (is_wire_ev e) eqn:E; cbn [negb].
  - cbn [feed_all fold_left]. fold (feed_all pre (feed pre sh e) evs). fold (feed_all pre (feed pre sh e) (filter is_wire_ev evs)).
    apply IH. exact H'.
  - destruct (H e (or_introl eq_refl)) as [Hw|Hs]; [congruence|].
    cbn [feed_all fold_left]. fold (feed_all pre (feed pre sh e) evs). rewrite (IH _ H').
    match goal with |- _ = fold_left _ ?l (feed pre ?x e) => fold (feed_all pre (feed pre x e) l) end.
    rewrite (feed_all_comm pre e Hs).
    + reflexivity.
    + clear. induction evs as [|x l IHl]; cbn; [reflexivity|]. destruct (is_wire_ev x) eqn:Ex; cbn; [rewrite Ex; exact IHl|exact IHl].
Qed.

(* ---- removal: the announcement comes first, the implicit disconnections follow, the container
   is edited last ---- *)
Record pend (pre : state) (r : rel) (p : id) (cs : list id) (s : state) (sh : shadow) (res : R) (evs : list event) : Prop := mkPend {
  pd_log : log (fst res) = log s ++ evs;
  pd_shape : forall e, In e evs -> is_wire_ev e = true \/ (exists c, e = ERemove r p c /\ In c cs);
  pd_all : snd res = None -> forall c, In c cs -> In (ERemove r p c) evs;
  pd_mirror : snd res <> Some XStuck ->
              mirror (fst res) (feed_all pre sh (filter is_wire_ev evs)) /\ WND (fst res) /\ kids (fst res) = kids s
}.

Lemma quiet_ns_remove_child s p c ck : quiet s (ns_remove_child s p c ck).
Proof. unfold ns_remove_child. destruct (nstab s p); constructor; reflexivity. Qed.

Lemma pend_remove_core pre s sh r p c : WND s -> mirror s sh ->
  exists evs, pend pre r p [c] s sh (remove_core s r p c) evs.
Proof.
  intros W M. unfold remove_core.
  set (s1 := if ns_rel r then ns_remove_child s p c (rel_child r) else s).
  assert (Q1 : quiet s s1) by (unfold s1; destruct (ns_rel r); [apply quiet_ns_remove_child|apply quiet_refl]).
  set (s2 := emit s1 (ERemove r p c)).
  assert (M2 : mirror s2 sh) by (apply (mirror_ext s); try apply Q1; exact M).
  assert (W2 : WND s2) by (intro w; unfold s2; cbn; rewrite (q_wpins _ _ Q1); apply W).
  set (drops := match r with
   | RPorts => fold_idsR (fun s n => fold_idsR (fun s i => drop_outer s n i) (kids s RPins c) s) (drefs s2 p) s2
   | RPins => match par s2 RPorts p with
              | Some d => fold_idsR (fun s n => drop_outer s n c) (drefs s2 d) s2
              | None => ret s2 end
   | _ => ret s2 end).
  assert (HW : simW pre s2 sh drops).
  { unfold drops. destruct r; try (apply simW_ret; assumption).
    - apply simW_fold_idsR; [|assumption|assumption]. intros s0 sh0 n W0 M0.
      apply simW_fold_idsR; [|assumption|assumption]. intros; apply simW_drop_outer; assumption.
    - destruct (par s2 RPorts p); [|apply simW_ret; assumption].
      apply simW_fold_idsR; [|assumption|assumption]. intros; apply simW_drop_outer; assumption. }
  destruct HW as [evw [Lw [Fw Mw]]].
  exists (ERemove r p c :: evw). fold drops. destruct drops as [s3 [x|]]; cbn [bindR fst snd ret] in *.
  - constructor; cbn [fst snd].
    + rewrite Lw. unfold s2. cbn. rewrite (q_log _ _ Q1), <- app_assoc. reflexivity.
    + intros e [<-|He]; [right; exists c; split; [reflexivity|left; reflexivity]|left].
      rewrite forallb_forall in Fw. apply Fw. exact He.
    + discriminate.
    + intro Hs. destruct (Mw Hs) as [Ma [Wa [Ka _]]]. cbn [filter is_wire_ev]. rewrite (filter_all _ _ Fw).
      split; [exact Ma|split; [exact Wa|]]. rewrite Ka. unfold s2. cbn. apply (q_kids _ _ Q1).
  - destruct (Mw ltac:(discriminate)) as [Ma [Wa [Ka _]]].
    constructor; cbn [fst snd].
    + cbn. rewrite Lw. unfold s2. cbn. rewrite (q_log _ _ Q1), <- app_assoc. reflexivity.
    + intros e [<-|He]; [right; exists c; split; [reflexivity|left; reflexivity]|left].
      rewrite forallb_forall in Fw. apply Fw. exact He.
    + intros _ c0 [<-|[]]. left. reflexivity.
    + intros _. cbn [filter is_wire_ev]. rewrite (filter_all _ _ Fw).
      split; [apply (mirror_ext s3); try reflexivity; exact Ma|split; [exact Wa|]].
      cbn. rewrite Ka. unfold s2. cbn. apply (q_kids _ _ Q1).
Qed.

Lemma filter_app_ev (f : event -> bool) a b : filter f (a ++ b) = filter f a ++ filter f b.
Proof. apply filter_app. Qed.

Lemma pend_fold pre r p : forall l s sh, WND s -> mirror s sh ->
  exists evs, pend pre r p l s sh (fold_idsR (fun s c => remove_core s r p c) l s) evs.
Proof.
  induction l as [|c l IH]; intros s sh W M; cbn [fold_idsR].
  - exists []. constructor; cbn.
    + rewrite app_nil_r. reflexivity.
    + intros e [].
    + intros _ c [].
    + intros _. split; [exact M|split; [exact W|reflexivity]].
  - destruct (pend_remove_core pre s sh r p c W M) as [e1 [L1 S1 A1 M1]].
    destruct (remove_core s r p c) as [s1 [x|]]; cbn [bindR fst snd] in *.
    + exists e1. constructor; cbn [fst snd].
      * exact L1.
      * intros e He. destruct (S1 e He) as [H|[c0 [H1 [<-|[]]]]]; [left; exact H|right; exists c; split; [exact H1|left; reflexivity]].
      * discriminate.
      * exact M1.
    + destruct (M1 ltac:(discriminate)) as [Ma [Wa Ka]].
      destruct (IH s1 _ Wa Ma) as [e2 [L2 S2 A2 M2]].
      exists (e1 ++ e2). constructor.
      * rewrite L2, L1, app_assoc. reflexivity.
      * intros e He. apply in_app_or in He as [He|He].
        -- destruct (S1 e He) as [H|[c0 [H1 [<-|[]]]]]; [left; exact H|right; exists c; split; [exact H1|left; reflexivity]].
        -- destruct (S2 e He) as [H|[c0 [H1 H2]]]; [left; exact H|right; exists c0; split; [exact H1|right; exact H2]].
      * intros Hn c0 [<-|Hc0]; apply in_or_app; [left; apply A1; [reflexivity|left; reflexivity]|right; apply A2; assumption].
      * intro Hs. rewrite filter_app_ev, feed_all_app. destruct (M2 Hs) as [Mb [Wb Kb]].
        split; [exact Mb|split; [exact Wb|congruence]].
Qed.

(* the pending removals are applied when the container is finally edited *)
Lemma pend_finish pre r p cs s sh (res : R) evs l (gone : id -> Prop) :
  pend pre r p cs s sh res evs -> snd res = None ->
  (forall c, gone c <-> In c cs) ->
  (forall x, In x l <-> In x (kids s r p) /\ ~ gone x) ->
  mirror (set_kids (fst res) r p l) (feed_all pre sh evs).
Proof.
  intros [L S A Mp] Hn Hg Hl. destruct (Mp ltac:(rewrite Hn; discriminate)) as [M [W K]].
  rewrite (feed_split pre evs sh).
  2:{ intros e He. destruct (S e He) as [H|[c [-> _]]]; [left; exact H|right; exact I]. }
  apply (mirror_remove pre (fst res) _ r p l gone); [| | |exact M].
  - intro x. rewrite K. apply Hl.
  - intros e He. apply filter_In in He as [He Hw]. destruct (S e He) as [H|[c [-> Hc]]]; [rewrite H in Hw; discriminate|].
    exists c. split; [reflexivity|apply Hg; exact Hc].
  - intros c Hc. apply filter_In. split; [apply (A Hn); apply Hg; exact Hc|reflexivity].
Qed.

Lemma sim_op_remove pre s sh r p c : WND s -> NoDup (kids s r p) -> mirror s sh -> sim pre s sh (op_remove s r p c).
Proof.
  intros W ND M. unfold op_remove. repeat (apply sim_guard; [right; exact I|exact M|]; intros _).
  destruct (pend_remove_core pre s sh r p c W M) as [evs P].
  pose proof P as [L S A Mp].
  destruct (remove_core s r p c) as [s1 [x|]] eqn:Erc; cbn [bindR fst snd ret] in *.
  - (* remove_core can only get stuck *)
    exists evs. split; [exact L|]. intro Hs. exfalso.
    pose proof (only_stuck_remove_core s r p c) as Ho. unfold only_stuck in Ho. rewrite Erc in Ho. cbn in Ho. subst x. apply Hs. reflexivity.
  - exists evs. split; [exact L|]. intros _.
    destruct (Mp ltac:(discriminate)) as [_ [_ K]]. rewrite K.
    apply (pend_finish pre r p [c] s sh (s1, None) evs _ (fun x => x = c) P eq_refl).
    + intro c0. cbn. split; [intros ->; left; reflexivity|intros [<-|[]]; reflexivity].
    + intro x. apply remove_first_In. exact ND.
Qed.

Lemma sim_op_remove_from pre s sh r p cs : WND s -> mirror s sh -> sim pre s sh (op_remove_from s r p cs).
Proof.
  intros W M. unfold op_remove_from. repeat (apply sim_guard; [right; exact I|exact M|]; intros _).
  set (order := if walks_container r then filter (fun x => memb x cs) (kids s r p) else dedup cs).
  destruct (pend_fold pre r p order s sh W M) as [evs P]. pose proof P as [L S A Mp].
  destruct (fold_idsR (fun s0 c => remove_core s0 r p c) order s) as [s1 [x|]] eqn:Ef; cbn [bindR fst snd ret] in *.
  - exists evs. split; [exact L|]. intro Hs. exfalso.
    assert (Ho : only_stuck (fold_idsR (fun s0 c => remove_core s0 r p c) order s))
      by (apply only_stuck_fold_idsR; intros; apply only_stuck_remove_core).
    unfold only_stuck in Ho. rewrite Ef in Ho. cbn in Ho. subst x. apply Hs. reflexivity.
  - exists evs. split; [exact L|]. intros _.
    destruct (Mp ltac:(discriminate)) as [_ [_ K]]. rewrite K.
    apply (mirror_ext (set_kids s1 r p (remove_all_in order (kids s r p)))); try reflexivity.
    + cbn. f_equal. unfold remove_all_in. apply filter_ext_in. intros x Hx. f_equal.
      unfold order. destruct (walks_container r).
      * destruct (memb x cs) eqn:E.
        -- symmetry. apply memb_In. apply filter_In. split; [exact Hx|exact E].
        -- symmetry. apply memb_false. intro H. apply filter_In in H as [_ H]. congruence.
      * symmetry. apply memb_dedup.
    + apply (pend_finish pre r p order s sh (s1, None) evs _ (fun x => In x order) P eq_refl).
      * intro; tauto.
      * intro x. apply remove_all_in_In.
Qed.

(* ---- re-pointing: one outer pin is re-keyed ---- *)
Lemma in_map_rename a b q l :
  In q (map (rename_pin a b) l) <-> (q = b /\ In a l) \/ (In q l /\ q <> a) \/ (q = a /\ a = b /\ In a l).
Proof.
  rewrite in_map_iff. unfold rename_pin. split.
  - intros [q0 [E Hq0]]. destruct (pin_eqb q0 a) eqn:Ea.
    + apply pin_eqb_spec in Ea. subst. left. auto.
    + subst q0. right. left. split; [exact Hq0|]. intros ->. rewrite pin_eqb_refl in Ea. discriminate.
  - intros [[-> H]|[[H1 H2]|[-> [<- H]]]].
    + exists a. rewrite pin_eqb_refl. auto.
    + exists q. destruct (pin_eqb q a) eqn:Ea; [apply pin_eqb_spec in Ea; contradiction|auto].
    + exists a. rewrite pin_eqb_refl. auto.
Qed.

Lemma mirror_rekey s sh x c n :
  InvP s -> In c (keys s x) -> mirror s sh ->
  mirror (fst (rekey s x (c, n))) (set_sw sh (rename_on_wires (sw sh) (POut x c) (POut x n))).
Proof.
  intros Hp Hc [M1 M2 M3 M4 M5]. unfold rekey.
  apply assoc_In_fst in Hc as [ow Hc]. rewrite Hc. cbn [fst ret].
  set (a := POut x c). set (b := POut x n).
  assert (Ha : forall w', In a (wpins s w') <-> ow = Some w').
  { intro w'. rewrite (p_pins s Hp). unfold a. cbn. rewrite Hc. reflexivity. }
  assert (Hfin : forall s', kids s' = kids s -> iref s' = iref s -> top s' = top s -> data s' = data s ->
                 (forall w0, wpins s' w0 = match ow with
                                           | Some w => if Nat.eqb w0 w then map (rename_pin a b) (wpins s w) else wpins s w0
                                           | None => wpins s w0 end) ->
                 mirror s' (set_sw sh (rename_on_wires (sw sh) a b))).
  { intros s' E1 E2 E3 E4 Hw. constructor; cbn [sk sw sr st sd set_sw]; intros; rewrite ?E1, ?E2, ?E3, ?E4; auto.
    rewrite Hw. unfold rename_on_wires.
    assert (Hcase : In q (match ow with Some w0 => if Nat.eqb w w0 then map (rename_pin a b) (wpins s w0) else wpins s w | None => wpins s w end)
                    <-> (q = b /\ In a (wpins s w)) \/ (In q (wpins s w) /\ q <> a) \/ (q = a /\ a = b /\ In a (wpins s w))).
    { destruct ow as [w0|].
      - destruct (Nat.eqb_spec w w0) as [->|Hne]; [apply in_map_rename|].
        assert (Hna : ~ In a (wpins s w)) by (rewrite Ha; intro H; injection H as ->; contradiction).
        split; [intro H; right; left; split; [exact H|intros ->; contradiction]|].
        intros [[_ H]|[[H _]|[_ [_ H]]]]; [contradiction|exact H|contradiction].
      - assert (Hna : ~ In a (wpins s w)) by (rewrite Ha; discriminate).
        split; [intro H; right; left; split; [exact H|intros ->; contradiction]|].
        intros [[_ H]|[[H _]|[_ [_ H]]]]; [contradiction|exact H|contradiction]. }
    rewrite Hcase. clear Hcase.
    destruct (pin_eqb q b) eqn:Eb.
    - apply pin_eqb_spec in Eb. subst q. rewrite orb_true_iff, !M2. split.
      + intros [H|H]; [left; auto|]. destruct (pin_eqb b a) eqn:Eba.
        * apply pin_eqb_spec in Eba. left. split; [reflexivity|]. rewrite <- Eba. exact H.
        * right. left. split; [exact H|]. intros E. rewrite E, pin_eqb_refl in Eba. discriminate.
      + intros [[_ H]|[[H _]|[E [_ H]]]]; [left; exact H|right; exact H|left; exact H].
    - destruct (pin_eqb q a) eqn:Ea.
      + apply pin_eqb_spec in Ea. subst q. split; [discriminate|].
        intros [[E _]|[[_ H]|[_ [E _]]]]; [rewrite E, pin_eqb_refl in Eb; discriminate|contradiction|rewrite E, pin_eqb_refl in Eb; discriminate].
      + rewrite M2. split.
        * intro H. right. left. split; [exact H|]. intros ->. rewrite pin_eqb_refl in Ea. discriminate.
        * intros [[E _]|[[H _]|[E _]]]; [subst; rewrite pin_eqb_refl in Eb; discriminate|exact H|subst; rewrite pin_eqb_refl in Ea; discriminate]. }
  destruct ow as [w|].
  - apply Hfin; try reflexivity.
  - apply Hfin; try reflexivity.
Qed.

Definition rename_pairs (x : id) (ps : list (id * id)) (f : id -> pin -> bool) : id -> pin -> bool :=
  fold_left (fun f ab => rename_on_wires f (POut x (fst ab)) (POut x (snd ab))) ps f.

Lemma fold_rekey_fresh_mirror x : forall ps s sh,
  InvP s -> NoDup (keys s x) -> NoDup (map fst ps) -> NoDup (map snd ps) ->
  (forall c, In c (map fst ps) -> In c (keys s x)) ->
  (forall n, In n (map snd ps) -> ~ In n (keys s x) /\ ~ In n (map fst ps)) ->
  mirror s sh ->
  mirror (fst (fold_pairsR (fun s cn => rekey s x cn) ps s)) (set_sw sh (rename_pairs x ps (sw sh))).
Proof.
  induction ps as [|[c n] ps IH]; intros s sh Hp Hnd Hf Hs Hck Hnk M; cbn [fold_pairsR].
  - destruct sh. exact M.
  - cbn [map fst snd] in *. inversion Hf as [|? ? Hcf Hf']; subst. inversion Hs as [|? ? Hns Hs']; subst.
    destruct (Hnk n (or_introl eq_refl)) as [Hn1 Hn2].
    pose proof (mirror_rekey s sh x c n Hp (Hck c (or_introl eq_refl)) M) as M1.
    destruct (rekey_spec s x c n Hp Hnd (Hck c (or_introl eq_refl)) (or_intror Hn1)) as [Hr [Hp1 [Hf1 [Hw1 [Hk1 [Hnd1 Ho1]]]]]].
    destruct (rekey s x (c, n)) as [s1 [e|]]; cbn [fst snd] in *; [discriminate|]. cbn [bindR].
    assert (Hck' : forall c', In c' (map fst ps) -> In c' (keys s1 x)).
    { intros c' Hc'. apply Hk1. right. split; [apply Hck; right; exact Hc'|]. intros ->. contradiction. }
    assert (Hnk' : forall n', In n' (map snd ps) -> ~ In n' (keys s1 x) /\ ~ In n' (map fst ps)).
    { intros n' Hn'. destruct (Hnk n' (or_intror Hn')) as [A B]. split.
      - intro Hin. apply Hk1 in Hin as [->|[Hin _]]; [contradiction|contradiction].
      - intro Hin. apply B. right. exact Hin. }
    apply (IH s1 _ Hp1 Hnd1 Hf' Hs' Hck' Hnk' M1).
Qed.

Lemma fold_rekey_id_mirror x : forall l s sh,
  InvP s -> NoDup (keys s x) -> (forall c, In c l -> In c (keys s x)) -> mirror s sh ->
  mirror (fst (fold_pairsR (fun s cn => rekey s x cn) (map (fun i => (i, i)) l) s))
         (set_sw sh (rename_pairs x (map (fun i => (i, i)) l) (sw sh))).
Proof.
  induction l as [|c l IH]; intros s sh Hp Hnd Hck M; cbn [fold_pairsR map].
  - destruct sh. exact M.
  - pose proof (mirror_rekey s sh x c c Hp (Hck c (or_introl eq_refl)) M) as M1.
    destruct (rekey_spec s x c c Hp Hnd (Hck c (or_introl eq_refl)) (or_introl eq_refl)) as [Hr [Hp1 [Hf1 [Hw1 [Hk1 [Hnd1 Ho1]]]]]].
    destruct (rekey s x (c, c)) as [s1 [e|]]; cbn [fst snd] in *; [discriminate|]. cbn [bindR].
    assert (Hsame : forall i, In i (keys s1 x) <-> In i (keys s x)).
    { intro i. rewrite Hk1. split; [intros [->|[H _]]; [apply Hck; left; reflexivity|exact H]|].
      intro H. destruct (Nat.eq_dec i c) as [->|Hne]; [left; reflexivity|right; auto]. }
    assert (Hck' : forall c', In c' l -> In c' (keys s1 x)) by (intros c' Hc'; apply Hsame, Hck; right; exact Hc').
    apply (IH s1 _ Hp1 Hnd1 Hck' M1).
Qed.

(* ---- Instance.reference = ... ---- *)
Lemma mirror_set_iref s sh x v : mirror s sh -> mirror (set_iref s x v) (set_sr sh (upd (sr sh) x v)).
Proof.
  intros [M1 M2 M3 M4 M5]. constructor; try assumption. intro n. cbn. unfold upd. rewrite M3. reflexivity.
Qed.

Lemma log_rekey s x cn : log (fst (rekey s x cn)) = log s.
Proof. unfold rekey. destruct cn. destruct (assoc _ _) as [[w|]|]; reflexivity. Qed.

Lemma log_fold_rekey x : forall ps s, log (fst (fold_pairsR (fun s cn => rekey s x cn) ps s)) = log s.
Proof.
  induction ps as [|cn ps IH]; intro s; cbn [fold_pairsR]; [reflexivity|].
  pose proof (log_rekey s x cn) as H. destruct (rekey s x cn) as [s1 [e|]]; cbn [bindR fst] in *; [exact H|].
  rewrite IH. exact H.
Qed.

Lemma sim_op_set_reference pre s sh x v :
  Inv s -> (iref s x = None \/ kids pre = kids s) -> mirror s sh -> sim pre s sh (op_set_reference s x v).
Proof.
  intros HI Hpre M. pose proof HI as [Ha Hr Hp Hk].
  unfold op_set_reference, guard.
  destruct (_ && _); [|apply sim_refused; exact M].
  destruct (match v, iref s x with Some d', Some d => same_shape s d d' | _, _ => true end) eqn:Hshape; [|apply sim_refused; exact M].
  set (s1 := emit s (EReference x v)).
  assert (M1 : mirror s1 sh) by (apply (mirror_ext s); try reflexivity; exact M).
  destruct v as [d'|].
  - change (iref s1 x) with (iref s x). destruct (iref s x) as [d|] eqn:Hrx.
    + (* re-pointing *)
      assert (Hm : memb x (drefs s1 d) = true) by (apply memb_In; apply (i2_ref s Hr); exact Hrx).
      rewrite Hm. cbn [bindR ret].
      set (s2 := set_drefs s1 d (remove_first x (drefs s1 d))).
      assert (M2 : mirror s2 sh) by (apply (mirror_ext s); try reflexivity; exact M).
      assert (Hp2 : InvP s2) by (apply (invp_of_fields s); [reflexivity|reflexivity|reflexivity|exact Hp]).
      assert (Hnd2 : NoDup (keys s2 x)) by apply (k_nodup s Hk).
      change (pin_pairs s2 d d') with (pin_pairs s d d').
      assert (Hpp : pin_pairs pre d d' = pin_pairs s d d').
      { destruct Hpre as [H|H]; [congruence|]. unfold pin_pairs. rewrite H. reflexivity. }
      assert (Hfeed : forall s3, log s3 = log s1 -> mirror s3 (set_sw sh (rename_pairs x (pin_pairs s d d') (sw sh))) ->
                sim pre s sh (ret (set_iref (set_drefs s3 d' (set_add x (drefs s3 d'))) x (Some d')))).
      { intros s3 L3 M3. exists [EReference x (Some d')]. split; [cbn; rewrite L3; reflexivity|]. intros _.
        cbn [feed_all fold_left feed]. rewrite (m_r _ _ M x), Hrx, Hpp.
        apply mirror_set_iref. apply (mirror_ext s3); try reflexivity. exact M3. }
      pose proof (log_fold_rekey x (pin_pairs s d d') s2) as L3.
      destruct (Nat.eq_dec d d') as [<-|Hdd].
      * rewrite pin_pairs_self in *.
        pose proof (fold_rekey_id_mirror x (port_pins s d) s2 sh Hp2 Hnd2) as M3.
        destruct (fold_rekey_id x (port_pins s d) s2 Hp2 Hnd2) as [Hs _].
        { intros c Hc. apply (keys_port_pins s x d c Ha Hk Hrx). exact Hc. }
        destruct (fold_pairsR _ _ s2) as [s3 [e|]]; cbn [fst snd] in *; [discriminate|]. cbn [bindR].
        apply Hfeed; [exact L3|]. apply M3; [|exact M2].
        intros c Hc. apply (keys_port_pins s x d c Ha Hk Hrx). exact Hc.
      * destruct (pin_pairs_spec s d d' Hshape) as [Hfst Hsnd].
        assert (Hfresh : forall n, In n (port_pins s d') -> ~ In n (port_pins s d)).
        { intros n H1 H2. apply (port_pins_spec s d' n Ha) in H1 as [p [A B]].
          apply (port_pins_spec s d n Ha) in H2 as [p' [A' B']]. congruence. }
        assert (C1 : NoDup (map fst (pin_pairs s d d'))) by (rewrite Hfst; apply port_pins_nodup, Ha).
        assert (C2 : NoDup (map snd (pin_pairs s d d'))) by (rewrite Hsnd; apply port_pins_nodup, Ha).
        assert (C3 : forall c, In c (map fst (pin_pairs s d d')) -> In c (keys s2 x)).
        { intros c Hc. rewrite Hfst in Hc. apply (keys_port_pins s x d c Ha Hk Hrx). exact Hc. }
        assert (C4 : forall n, In n (map snd (pin_pairs s d d')) -> ~ In n (keys s2 x) /\ ~ In n (map fst (pin_pairs s d d'))).
        { intros n Hn. rewrite Hsnd in Hn. rewrite Hfst. split; [|apply Hfresh; exact Hn].
          intro H. apply (keys_port_pins s x d n Ha Hk Hrx) in H. apply (Hfresh n Hn H). }
        pose proof (fold_rekey_fresh_mirror x (pin_pairs s d d') s2 sh Hp2 Hnd2 C1 C2 C3 C4 M2) as M3.
        destruct (fold_rekey_fresh x (pin_pairs s d d') s2 Hp2 Hnd2 C1 C2 C3 C4) as [Hs _].
        destruct (fold_pairsR _ _ s2) as [s3 [e|]]; cbn [fst snd] in *; [discriminate|]. cbn [bindR].
        apply Hfeed; [exact L3|exact M3].
    + (* first assignment *)
      cbn [bindR ret]. exists [EReference x (Some d')].
      set (s3 := fold_ids (fun s i => new_outer s x i) (port_pins s1 d') s1).
      assert (Q3 : quiet s1 s3) by (apply quiet_fold_ids; intros; constructor; reflexivity).
      split; [change (log s3 = log s ++ [EReference x (Some d')]); rewrite (q_log _ _ Q3); reflexivity|]. intros _.
      cbn [feed_all fold_left feed]. rewrite (m_r _ _ M x), Hrx.
      apply mirror_set_iref. apply (mirror_ext s3); try reflexivity. apply (quiet_mirror _ _ _ Q3 M1).
  - (* reference = None *)
    assert (W1 : WND s1) by (intro w; apply (p_nodup s Hp)).
    assert (HW : simW pre s1 sh (fold_idsR (fun s i => drop_outer s x i) (map fst (ipins s1 x)) s1)).
    { apply simW_fold_idsR; [|exact W1|exact M1]. intros; apply simW_drop_outer; assumption. }
    destruct HW as [evw [Lw [Fw Mw]]].
    pose proof (fold_drop_outer_only_stuck x (map fst (ipins s1 x)) s1) as Ho.
    destruct (fold_idsR _ (map fst (ipins s1 x)) s1) as [s2 [e|]]; cbn [bindR fst snd] in *.
    + exists (EReference x None :: evw). split; [cbn [fst]; rewrite Lw; cbn; rewrite <- app_assoc; reflexivity|].
      intro Hs. exfalso. apply Hs. cbn [snd]. rewrite Ho. reflexivity.
    + destruct (Mw ltac:(discriminate)) as [Ma [Wa [Ka [Ia [Ta Da]]]]].
      set (s3 := set_ipins s2 x []).
      assert (Hfin : forall s4, log s4 = log s3 -> kids s4 = kids s3 -> wpins s4 = wpins s3 -> iref s4 = iref s3 ->
                     top s4 = top s3 -> data s4 = data s3 -> sim pre s sh (ret (set_iref s4 x None))).
      { intros s4 E0 E1 E2 E3 E4 E5. exists (EReference x None :: evw).
        split; [cbn; rewrite E0; cbn; rewrite Lw; cbn; rewrite <- app_assoc; reflexivity|]. intros _.
        cbn [feed_all fold_left]. fold (feed_all pre (feed pre sh (EReference x None)) evw).
        rewrite (feed_all_comm pre (EReference x None) I evw sh Fw).
        cbn [feed]. replace (match sr (feed_all pre sh evw) x with Some _ => feed_all pre sh evw | None => feed_all pre sh evw end)
          with (feed_all pre sh evw) by (destruct (sr (feed_all pre sh evw) x); reflexivity).
        apply mirror_set_iref. apply (mirror_ext s2); assumption. }
      change (iref s3 x) with (iref s2 x).
      destruct (iref s2 x) as [d|].
      * destruct (memb x (drefs s3 d)); cbn [bindR ret].
        -- apply Hfin; reflexivity.
        -- exists (EReference x None :: evw). split; [change (log s2 = log s ++ EReference x None :: evw); rewrite Lw; cbn; rewrite <- app_assoc; reflexivity|].
           intro Hs. exfalso. apply Hs. reflexivity.
      * cbn [bindR ret]. apply Hfin; reflexivity.
Qed.

(* ---- Netlist.top_instance = ... ---- *)
Lemma quiet_clear_old_top s n : quiet s (clear_old_top s n).
Proof. unfold clear_old_top. destruct (top s n); constructor; reflexivity. Qed.

Lemma mirror_set_top s sh n v : mirror s sh -> mirror (s <| top ::= fun f => upd f n v |>) (set_st sh (upd (st sh) n v)).
Proof.
  intros [M1 M2 M3 M4 M5]. constructor; try assumption. intro m. cbn. unfold upd. rewrite M4. reflexivity.
Qed.

Lemma sim_create_items pre r p : forall n s sh, mirror s sh -> sim pre s sh (create_items s r p n).
Proof.
  induction n as [|n IH]; intros s sh M; cbn [create_items]; [apply sim_ret; exact M|].
  unfold alloc. cbn zeta.
  set (s0 := s <| next := S (next s) |> <| kind_of ::= fun f => upd f (next s) (Some (rel_child r)) |>).
  assert (M0 : mirror s0 sh) by (apply (mirror_ext s); try reflexivity; exact M).
  assert (H : sim pre s0 sh (op_add s0 r p (next s) None >>= fun s1 => create_items s1 r p n)).
  { apply sim_bind; [apply sim_op_add; exact M0|]. intros sh1 _ M1. apply IH. exact M1. }
  destruct H as [evs [L Hm]]. exists evs. split; [exact L|exact Hm].
Qed.

Lemma sim_op_set_top pre s sh n a : pre = s -> Inv s -> mirror s sh -> sim pre s sh (op_set_top s n a).
Proof.
  intros -> HI M. unfold op_set_top. apply sim_guard; [right; exact I|exact M|]. intros _.
  set (s1 := clear_old_top (emit s (ETop n a)) n).
  assert (Q1 : kids s1 = kids s /\ wpins s1 = wpins s /\ iref s1 = iref s /\ top s1 = top s /\ data s1 = data s /\ log s1 = log s ++ [ETop n a]).
  { unfold s1, clear_old_top. destruct (top _ n); repeat split; reflexivity. }
  destruct Q1 as [E1 [E2 [E3 [E4 [E5 E6]]]]].
  assert (M1 : mirror s1 sh) by (apply (mirror_ext s); assumption).
  destruct a as [x|d|].
  - apply (sim_event _ _ _ (ETop n (TopInst x))); [exact E6|].
    apply (mirror_ext (s1 <| top ::= fun f => upd f n (Some x) |>)); try reflexivity. apply mirror_set_top. exact M1.
  - (* a definition: an instance is made for it *)
    assert (H0 : Inv s1).
    { apply (inv_of_fields s); try (unfold s1, clear_old_top; destruct (top _ n); reflexivity). exact HI. }
    match goal with |- sim _ _ _ ?t => assert (Hrest : sim s s1 sh t) end.
    { pose proof (sim_construct s s1 sh KInstance None [] M1) as Hc.
      pose proof (construct_rinv s1 KInstance None [] H0) as [Hci _].
      destruct (construct_frame s1 KInstance None []) as [Hk _].
      destruct (construct s1 KInstance None []) as [res t]. cbn [fst] in *.
      apply sim_bind; [exact Hc|]. intros sh2 _ M2.
      apply sim_bind; [apply sim_op_set_reference; [exact Hci|right; rewrite Hk, E1; reflexivity|exact M2]|].
      intros sh3 _ M3. set (s3 := fst (op_set_reference (fst res) t (Some d))) in *.
      apply (sim_event _ _ _ (ETop n (TopInst t))).
      - unfold clear_old_top. cbn. destruct (top _ n); reflexivity.
      - cbn [feed].
        apply (mirror_ext (s3 <| top ::= fun f => upd f n (Some t) |>)); try (unfold clear_old_top; cbn; destruct (top _ n); reflexivity).
        apply mirror_set_top. exact M3. }
    destruct Hrest as [evs [L Hm]]. exists (ETop n (TopDef d) :: evs).
    split; [rewrite L, E6, <- app_assoc; reflexivity|]. exact Hm.
  - apply (sim_event _ _ _ (ETop n TopNone)); [exact E6|].
    apply (mirror_ext (s1 <| top ::= fun f => upd f n None |>)); try reflexivity. apply mirror_set_top. exact M1.
Qed.

(* ---- every call ---- *)
Theorem step_sim s o sh : Inv s -> Fresh s -> mirror s sh -> sim s s sh (step s o).
Proof.
  intros HI F M. pose proof HI as [Ha Hr Hp Hk].
  assert (W : WND s) by (intro w; apply (p_nodup s Hp)).
  destruct o; cbn [step].
  - apply sim_construct; exact M.
  - apply sim_guard; [right; exact I|exact M|]. intro HG.
    apply andb_true_iff in HG as [HG Href]. 
    unfold create_and_add.
    pose proof (sim_construct s s sh (rel_child r) nm props M) as Hc.
    pose proof (construct_rinv s (rel_child r) nm props HI) as [Hci _].
    pose proof (fresh_construct s (rel_child r) nm props F) as Fc.
    pose proof (construct_id s (rel_child r) nm props) as Hx.
    destruct (construct_frame s (rel_child r) nm props) as [_ [_ [Hir _]]].
    destruct (construct s (rel_child r) nm props) as [res x]. cbn [fst snd] in *. subst x.
    apply sim_bind.
    + apply sim_bind; [exact Hc|]. intros sh1 _ M1. apply sim_op_add; exact M1.
    + intros sh2 Hn M2.
      destruct res as [s1 [e|]]; cbn [bindR fst snd] in *; [discriminate|].
      pose proof (op_add_inv s1 r p (next s) None Hci) as [Hai _].
      destruct (kf_op_add s1 r p (next s) None) as [_ Hi2].
      destruct r; try (apply sim_ret; exact M2).
      * apply sim_create_items; exact M2.
      * apply sim_create_items; exact M2.
      * apply sim_op_set_reference; [exact Hai| |exact M2].
        left. rewrite Hi2, Hir. apply (f_iref s F). apply Nat.le_refl.
  - apply sim_guard; [right; exact I|exact M|]. intros _. apply sim_create_items; exact M.
  - apply sim_op_add; exact M.
  - apply sim_op_remove; [exact W|apply (i1_nodup s Ha)|exact M].
  - apply sim_op_remove_from; assumption.
  - apply sim_op_reorder; exact M.
  - apply sim_op_reorder_wire; exact M.
  - apply sim_op_connect; exact M.
  - apply sim_op_disconnect; assumption.
  - apply sim_op_disconnect_from; exact M.
  - apply sim_op_set_reference; [exact HI|right; reflexivity|exact M].
  - apply sim_op_set_top; [reflexivity|exact HI|exact M].
  - apply sim_guard; [right; exact I|exact M|]. intros _. apply sim_op_set_name; exact M.
  - apply sim_guard; [right; exact I|exact M|]. intros _. apply sim_op_del_name; exact M.
  - apply sim_guard; [right; exact I|exact M|]. intros _. apply sim_dict_set; exact M.
  - apply sim_guard; [right; exact I|exact M|]. intros _. apply sim_dict_del; exact M.
  - apply sim_guard; [right; exact I|exact M|]. intros _. apply sim_dict_pop; exact M.
  - apply sim_guard; [right; exact I|exact M|]. intros _. apply sim_quiet; try reflexivity; exact M.
  - apply sim_guard; [right; exact I|exact M|]. intros _. apply sim_guard; [right; exact I|exact M|]. intros _. apply sim_quiet; try reflexivity; exact M.
  - apply sim_guard; [right; exact I|exact M|]. intros _. apply sim_quiet; try reflexivity; exact M.
  - apply sim_guard; [right; exact I|exact M|]. intros _. apply sim_quiet; try reflexivity; exact M.
  - apply sim_quiet; try reflexivity; exact M.
Qed.

(* ---- histories ---- *)
Definition new_events (s s' : state) : list event := skipn (length (log s)) (log s').

Fixpoint run_mirror (ops : list op) (s : state) (sh : shadow) : state * shadow :=
  match ops with
  | [] => (s, sh)
  | o :: ops' => let s' := fst (step s o) in run_mirror ops' s' (feed_all s sh (new_events s s'))
  end.

Lemma skipn_app_exact {A} (l evs : list A) : skipn (length l) (l ++ evs) = evs.
Proof. induction l as [|x l IH]; cbn; [reflexivity|exact IH]. Qed.

Lemma mirror_init : mirror init sh_init.
Proof. constructor; cbn; intros; try reflexivity; split; (discriminate || tauto). Qed.

Theorem step_mirror s o sh : Inv s -> Fresh s -> mirror s sh ->
  mirror (fst (step s o)) (feed_all s sh (new_events s (fst (step s o)))).
Proof.
  intros HI F M. destruct (step_sim s o sh HI F M) as [evs [L Hm]].
  unfold new_events. rewrite L, skipn_app_exact. apply Hm. apply (step_inv s o HI).
Qed.

Theorem run_mirror_spec : forall ops s sh, Inv s -> Fresh s -> mirror s sh ->
  fst (run_mirror ops s sh) = run ops s /\ mirror (fst (run_mirror ops s sh)) (snd (run_mirror ops s sh)).
Proof.
  induction ops as [|o ops IH]; intros s sh HI F M; cbn [run_mirror run fold_left]; [split; [reflexivity|exact M]|].
  apply IH; [apply (step_inv s o HI)|apply step_fresh; exact F|apply step_mirror; assumption].
Qed.
