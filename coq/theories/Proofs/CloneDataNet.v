(* C07, "same names and data" for Library.clone, Netlist.clone and the small roots: the pair invariant of
   CloneData.v carried through Library._clone, the libraries loop of Netlist._clone, the top-instance
   stage and the redirect / filter passes (which touch no dictionary and no bundle attribute); the
   re-applied naming policy of the root is again the only difference. *)
From Coq Require Import List Arith Bool Lia ZArith.
From RecordUpdate Require Import RecordSet.
From SV Require Import Base.Base IR.State IR.NS IR.Ops Xform.Clone Proofs.AssocX Proofs.Frame Proofs.Inv1a
  Proofs.InvW Proofs.Fresh Proofs.Refused Proofs.RefusedFull Proofs.NsInv Proofs.CloneFrame Proofs.CloneInv Proofs.CloneRef Proofs.CloneNs
  Proofs.CloneFaith Proofs.CloneFull Proofs.CloneNetInv Proofs.CloneDefStruct Proofs.CloneData.
Import ListNotations RecordSetNotations.

(* the re-applied policy without the parent hypothesis: a completed call implies the root is parentless *)
Lemma reapply_data_c s c : snd (reapply s c) = None ->
  forall y, data (fst (reapply s c)) y =
    match sassoc str_NS (data s c) with
    | Some v => if memb y (subtree s c) then renorm v (data s y) else data s y
    | None => data s y
    end.
Proof.
  intro Hc. destruct (ns_parent s c) as [p|] eqn:Ep; [|apply reapply_data; assumption].
  revert Hc. unfold reapply. destruct (sassoc str_NS (data s c)) as [v|]; [|intros _ y; reflexivity].
  unfold dict_del, ns_dictionary_delete. rewrite str_eqb_refl, Ep. cbn. discriminate.
Qed.

(* ---- writes that keep kinds, dictionaries, bundle attributes, containers, parents and the counter ---- *)
Definition rsame (s s' : state) : Prop := qsame s s' /\ kpsame s s'.
Lemma rs_refl s : rsame s s. Proof. split; [apply qs_refl|apply kpsame_refl]. Qed.
Lemma rs_trans a b c : rsame a b -> rsame b c -> rsame a c.
Proof. intros [A1 A2] [B1 B2]. split; [eapply qs_trans; eassumption|eapply kpsame_trans; eassumption]. Qed.
Lemma rs_bind (r : R) f s : rsame s (fst r) -> (forall s1, rsame s1 (fst (f s1))) -> rsame s (fst (r >>= f)).
Proof. destruct r as [s1 [x|]]; cbn; intros H1 H2; [exact H1|]. eapply rs_trans; [exact H1|apply H2]. Qed.
Lemma rs_fold_idsR f l : (forall s x, rsame s (fst (f s x))) -> forall s, rsame s (fst (fold_idsR f l s)).
Proof. intro H. induction l as [|x l IH]; intro s; cbn; [apply rs_refl|]. apply rs_bind; [apply H|apply IH]. Qed.
Lemma rs_fold_pairsR f l : (forall s x, rsame s (fst (f s x))) -> forall s, rsame s (fst (fold_pairsR f l s)).
Proof. intro H. induction l as [|x l IH]; intro s; cbn; [apply rs_refl|]. apply rs_bind; [apply H|apply IH]. Qed.
Lemma rs_fold_ids f l : (forall s x, rsame s (f s x)) -> forall s, rsame s (fold_ids f l s).
Proof. intro H. induction l as [|x l IH]; intro s; cbn; [apply rs_refl|]. eapply rs_trans; [apply H|apply IH]. Qed.
Ltac rs_triv := split; [apply qs_fields; reflexivity|repeat split].

Lemma rs_rekey s n cn : rsame s (fst (rekey s n cn)).
Proof. unfold rekey. destruct cn. destruct (assoc _ _) as [[w|]|]; cbn; rs_triv. Qed.
Lemma rs_rekey_all m s x : rsame s (fst (rekey_all m s x)).
Proof. unfold rekey_all. apply rs_fold_pairsR. intros s1 kv. destruct (mget m (fst kv)); [apply rs_rekey|rs_triv]. Qed.
Lemma rs_def_rr m s d : rsame s (fst (def_rr m s d)).
Proof.
  unfold def_rr. eapply rs_trans; [|apply rs_fold_idsR]. { rs_triv. }
  intros s1 x. destruct (iref s1 x) as [e|]; [|apply rs_refl]. destruct (mget m e) as [e'|]; [|apply rs_refl].
  eapply rs_trans; [|apply rs_rekey_all]. rs_triv.
Qed.
Lemma rs_inst_rr_def m s x : rsame s (fst (inst_rr_def m s x)).
Proof. unfold inst_rr_def. destruct (map_opt _ _); rs_triv. Qed.
Lemma rs_register_child s x : rsame s (fst (register_child s x)).
Proof. unfold register_child. destruct (iref s x); rs_triv. Qed.

(* attributes through a change of the library/definition/netlist pointers only *)
Lemma qs_set_kids s r p l : qsame s (set_kids s r p l). Proof. apply qs_fields; reflexivity. Qed.
Lemma qs_set_par s r c v : qsame s (set_par s r c v). Proof. apply qs_fields; reflexivity. Qed.

(* ---- allocation bounds ---- *)
Lemma ab_kpsame s s' : kpsame s s' -> Above s /\ ParLt s -> Above s' /\ ParLt s'.
Proof.
  intros [A [B C]] [Hab Hpl]. split.
  - intros r y Hy. rewrite A, B. apply Hab. lia.
  - intros r y q. rewrite B, C. apply Hpl.
Qed.
Lemma ab_set_kids s r p l : p < next s -> Above s /\ ParLt s -> Above (set_kids s r p l) /\ ParLt (set_kids s r p l).
Proof.
  intros Hp [Hab Hpl]. split; [|exact Hpl]. intros r0 y Hy. split; [|apply Hab; exact Hy].
  cbn. rewrite upd2_other_id by (cbn in Hy; lia). apply Hab. exact Hy.
Qed.
Lemma ab_set_par s r c p : c < next s -> p < next s -> Above s /\ ParLt s -> Above (set_par s r c (Some p)) /\ ParLt (set_par s r c (Some p)).
Proof.
  intros Hc Hp [Hab Hpl]. split.
  - intros r0 y Hy. split; [apply Hab; exact Hy|]. cbn. rewrite upd2_other_id by (cbn in Hy; lia). apply Hab. exact Hy.
  - intros r0 y q. cbn. unfold upd2, upd. destruct (rel_eqb r0 r); [|apply Hpl]. destruct (Nat.eqb y c); [|apply Hpl].
    intro H. injection H as <-. exact Hp.
Qed.

(* ---- Library._clone ---- *)
Lemma defs_clone1_dd : forall l n0 s0 s m s' m' l',
  Above s -> ParLt s -> n0 <= next s -> LB n0 s0 s -> defs_clone1 l (s, m) = (((s', m'), l'), None) ->
  LB (next s) s s' /\ next s <= next s' /\ (exists mn, m' = mn ++ m /\ DD n0 s0 s' (next s) mn) /\
  Above s' /\ ParLt s' /\ (forall d', In d' l' -> d' < next s') /\ kpframe (next s) s s'.
Proof.
  induction l as [|d l IH]; intros n0 s0 s m s' m' l' Hab Hpl Hn L E; cbn [defs_clone1] in E.
  - injection E as <- <- <-. split; [apply lb_refl|]. split; [apply Nat.le_refl|]. split; [exists []; split; [reflexivity|intros a b []]|].
    split; [exact Hab|]. split; [exact Hpl|]. split; [intros d' []|apply kpframe_refl].
  - destruct (def_clone1 (s, m) d) as [[[s1 m1] d1] e1] eqn:E1. destruct e1 as [x|]; [discriminate|].
    destruct (defs_clone1 l (s1, m1)) as [[[s2 m2] r] e2] eqn:E2. injection E as <- <- <- ->.
    destruct (def_clone1_dd n0 s0 s m d s1 m1 d1 None Hab Hn L E1) as [L1 [N1 [mn1 [-> D1]]]].
    destruct (def_clone1_kp s m d s1 (mn1 ++ m) d1 Hab Hpl E1) as [Hd1 [Hlt1 [KF1 [_ [_ [Ab1 Pl1]]]]]].
    assert (L01 : LB n0 s0 s1) by (eapply lb_trans; [exact L|apply (lb_mono (next s)); [exact Hn|exact L1]]).
    destruct (IH n0 s0 s1 (mn1 ++ m) s2 m2 r Ab1 Pl1 ltac:(lia) L01 E2) as [L2 [N2 [[mn2 [-> D2]] [Ab2 [Pl2 [Hr KF2]]]]]].
    split; [eapply lb_trans; [exact L1|apply (lb_mono (next s1)); [exact N1|exact L2]]|]. split; [lia|].
    split.
    { exists (mn2 ++ mn1). split; [apply app_assoc|]. apply dd_app.
      - apply (dd_lo n0 s0 s2 (next s1)); [exact N1|exact D2].
      - apply (dd_keep n0 s0 s1 s2 (next s) mn1 D1); [|exact N2]. intros b _ Hb. apply L2. exact Hb. }
    split; [exact Ab2|]. split; [exact Pl2|]. split.
    + intros d' [<-|H]; [lia|apply Hr; exact H].
    + intros r0 y Hy. destruct (KF1 r0 y Hy) as [A B]. destruct (KF2 r0 y ltac:(lia)) as [A' B']. split; congruence.
Qed.

Lemma fold_def_rr_par_rs m l' : forall defs s, (forall d', In d' defs -> d' < next s) -> l' < next s -> Above s /\ ParLt s ->
  let s' := fst (fold_idsR (fun s d' => def_rr m (set_par s RDefs d' (Some l')) d') defs s) in
  qsame s s' /\ next s' = next s /\ Above s' /\ ParLt s'.
Proof.
  induction defs as [|d defs IH]; intros s Hd Hl HA; cbn [fold_idsR]; [split; [apply qs_refl|split; [reflexivity|exact HA]]|].
  pose proof (rs_def_rr m (set_par s RDefs d (Some l')) d) as [Q1 K1].
  pose proof (ab_kpsame _ _ K1 (ab_set_par s RDefs d l' (Hd d (or_introl eq_refl)) Hl HA)) as HA1.
  assert (Q01 : qsame s (fst (def_rr m (set_par s RDefs d (Some l')) d))) by (eapply qs_trans; [apply qs_set_par|exact Q1]).
  assert (N1 : next (fst (def_rr m (set_par s RDefs d (Some l')) d)) = next s) by (destruct K1 as [_ [_ H]]; exact H).
  destruct (def_rr m (set_par s RDefs d (Some l')) d) as [s1 [x|]]; cbn [bindR fst] in *; [split; [exact Q01|split; [exact N1|exact HA1]]|].
  destruct (IH s1) as [Q2 [N2 HA2]]; [intros d' Hd'; rewrite N1; apply Hd; right; exact Hd'|rewrite N1; exact Hl|exact HA1|].
  split; [eapply qs_trans; eassumption|]. split; [congruence|exact HA2].
Qed.

Lemma lib_clone1_dd n0 s0 s m l s' m' l' :
  Above s -> ParLt s -> n0 <= next s -> LB n0 s0 s -> lib_clone1 (s, m) l = ((s', m', l'), None) ->
  LB (next s) s s' /\ next s <= next s' /\ (exists mn, m' = mn ++ m /\ DD n0 s0 s' (next s) mn) /\
  Above s' /\ ParLt s' /\ l' = next s /\ l' < next s' /\ kind_of s' l' = Some KLibrary /\ In (l, l') m'.
Proof.
  intros Hab Hpl Hn L E. unfold lib_clone1 in E. destruct (clone_alloc s KLibrary) as [s1 x] eqn:Ea.
  destruct (clone_alloc_attrs s KLibrary s1 x Ea (or_intror Hab)) as [Hx [Hn1 [L1 [Hk _]]]].
  destruct (above_alloc s KLibrary s1 x Hab Hpl Ea) as [Ab1 Pl1].
  set (s1c := copy_data s1 l x) in E.
  assert (L1c : LB (next s) s s1c).
  { intros y Hy. unfold s1c. rewrite attrs_copy_data. replace (Nat.eqb y x) with false by (symmetry; apply Nat.eqb_neq; lia). apply L1. exact Hy. }
  assert (Hn1c : next s1c = S (next s)) by exact Hn1.
  assert (L01 : LB n0 s0 s1c) by (eapply lb_trans; [exact L|apply (lb_mono (next s)); [exact Hn|exact L1c]]).
  destruct (defs_clone1 (kids s1c RDefs l) (s1c, (l, x) :: m)) as [[[s2 m2] defs'] e] eqn:E2.
  destruct e as [ex|]; [discriminate|].
  destruct (defs_clone1_dd _ n0 s0 s1c _ s2 m2 defs' Ab1 Pl1 ltac:(lia) L01 E2) as [L2 [N2 [[mn2 [-> D2]] [Ab2 [Pl2 [Hdefs _]]]]]].
  set (s3 := set_kids s2 RDefs x defs') in E.
  assert (HA3 : Above s3 /\ ParLt s3) by (apply ab_set_kids; [lia|split; assumption]).
  pose proof (fold_def_rr_par_rs (mn2 ++ (l, x) :: m) x defs' s3 Hdefs ltac:(cbn; lia) HA3) as H4. cbn zeta in H4.
  match type of E with context [fold_idsR ?f defs' s3] => change (fold_idsR _ defs' s3) with (fold_idsR f defs' s3) in H4 end.
  revert E H4.
  match goal with |- context [fold_idsR ?f defs' s3] => destruct (fold_idsR f defs' s3) as [s4 e4] end.
  cbn [fst snd]. intros E [Q4 [N4 [Ab4 Pl4]]]. injection E as <- <- <- ->.
  assert (Q24 : forall y, attrs s4 y = attrs s2 y) by (intro y; rewrite (proj1 Q4 y); apply (proj1 (qs_set_kids s2 RDefs x defs'))).
  assert (N24 : next s4 = next s2) by (rewrite N4; reflexivity).
  split; [|split; [rewrite N24; lia|]].
  - intros y Hy. rewrite Q24, (L2 y ltac:(lia)). apply L1c. exact Hy.
  - split.
    { exists (mn2 ++ [(l, x)]). split; [rewrite <- app_assoc; reflexivity|]. apply dd_app.
      - apply (dd_lo n0 s0 s4 (next s1c)); [lia|]. apply (dd_keep n0 s0 s2 s4 (next s1c) mn2 D2); [|rewrite N24; apply Nat.le_refl].
        intros b _ _. apply Q24.
      - intros a b [H|[]]. injection H as <- <-. split; [lia|]. split; [rewrite N24; lia|].
        intros Hl k0 Hkb. rewrite (attrs_kind _ _ _ (Q24 x)), (attrs_kind _ _ _ (L2 x ltac:(lia))) in Hkb.
        change (kind_of s1c x) with (kind_of s1 x) in Hkb. rewrite Hk in Hkb. injection Hkb as <-.
        split; [|intros [H|H]; discriminate]. intros _.
        rewrite (attrs_data _ _ _ (Q24 x)), (attrs_data _ _ _ (L2 x ltac:(lia))).
        pose proof (attrs_copy_data s1 l x x) as H. rewrite Nat.eqb_refl in H. apply attrs_eq3 in H as [_ [H _]]. fold s1c in H. rewrite H.
        rewrite (attrs_data _ _ _ (L1 l ltac:(lia))). apply (attrs_data _ _ _ (L l Hl)). }
    split; [exact Ab4|]. split; [exact Pl4|]. split; [exact Hx|]. split; [rewrite N24; lia|]. split.
    + rewrite (attrs_kind _ _ _ (Q24 x)), (attrs_kind _ _ _ (L2 x ltac:(lia))). exact Hk.
    + apply in_or_app. right. left. reflexivity.
Qed.

Lemma libs_clone1_dd : forall ls n0 s0 s m s' m' ls',
  Above s -> ParLt s -> n0 <= next s -> LB n0 s0 s -> libs_clone1 ls (s, m) = (((s', m'), ls'), None) ->
  LB (next s) s s' /\ next s <= next s' /\ (exists mn, m' = mn ++ m /\ DD n0 s0 s' (next s) mn) /\ Above s' /\ ParLt s'.
Proof.
  induction ls as [|l ls IH]; intros n0 s0 s m s' m' ls' Hab Hpl Hn L E; cbn [libs_clone1] in E.
  - injection E as <- <- <-. split; [apply lb_refl|]. split; [apply Nat.le_refl|]. split; [exists []; split; [reflexivity|intros a b []]|].
    split; assumption.
  - destruct (lib_clone1 (s, m) l) as [[[s1 m1] l1] e1] eqn:E1. destruct e1 as [x|]; [discriminate|].
    destruct (libs_clone1 ls (s1, m1)) as [[[s2 m2] r] e2] eqn:E2. injection E as <- <- <- ->.
    destruct (lib_clone1_dd n0 s0 s m l s1 m1 l1 Hab Hpl Hn L E1) as [L1 [N1 [[mn1 [-> D1]] [Ab1 [Pl1 _]]]]].
    assert (L01 : LB n0 s0 s1) by (eapply lb_trans; [exact L|apply (lb_mono (next s)); [exact Hn|exact L1]]).
    destruct (IH n0 s0 s1 (mn1 ++ m) s2 m2 r Ab1 Pl1 ltac:(lia) L01 E2) as [L2 [N2 [[mn2 [-> D2]] [Ab2 Pl2]]]].
    split; [eapply lb_trans; [exact L1|apply (lb_mono (next s1)); [exact N1|exact L2]]|]. split; [lia|].
    split; [|split; assumption].
    exists (mn2 ++ mn1). split; [apply app_assoc|]. apply dd_app.
    + apply (dd_lo n0 s0 s2 (next s1)); [exact N1|exact D2].
    + apply (dd_keep n0 s0 s1 s2 (next s) mn1 D1); [|exact N2]. intros b _ Hb. apply L2. exact Hb.
Qed.

(* ---- the statement for one pair, and its transport ---- *)
Definition PairData (s0 : state) (root : id) (sF : state) (root' : id) (a b : id) : Prop :=
  forall k, kind_of sF b = Some k ->
    (has_data k = true -> data sF b = if memb b (subtree sF root') then cdict s0 root (data s0 a) else data s0 a) /\
    ((k = KPort \/ k = KCable) -> bflags sF b = bflags s0 a).

(* from the pair invariant before the policy is re-applied to the statement after it *)
Lemma pairs_after_reapply n0 s0 sR lo M root root' :
  DD n0 s0 sR lo M -> data sR root' = data s0 root -> snd (reapply sR root') = None ->
  forall a b, In (a, b) M -> a < n0 -> PairData s0 root (fst (reapply sR root')) root' a b.
Proof.
  intros D Hroot Hc a b Hab Ha k Hk. pose proof (se_reapply sR root') as Hse. rewrite (se_kind _ _ Hse) in Hk.
  destruct (D a b Hab) as [_ [_ P]]. destruct (P Ha k Hk) as [P1 P2]. split.
  - intro Hd. rewrite (reapply_data_c sR root' Hc b), Hroot.
    rewrite (subtree_ext sR _ root' (se_kids _ _ Hse) (se_kind _ _ Hse)). unfold cdict.
    destruct (sassoc str_NS (data s0 root)) as [v|]; [|rewrite (P1 Hd); destruct (memb b (subtree sR root')); reflexivity].
    rewrite (P1 Hd). reflexivity.
  - intro Hp. unfold bflags. rewrite (se_bdownto _ _ Hse), (se_bscalar _ _ Hse), (se_blower _ _ Hse), (se_pdir _ _ Hse). apply (P2 Hp).
Qed.

Lemma dd_qsame n0 s0 s s' lo M : qsame s s' -> DD n0 s0 s lo M -> DD n0 s0 s' lo M.
Proof. intros [Q N] D. apply (dd_keep n0 s0 s s' lo M D); [intros b _ _; apply Q|rewrite N; apply Nat.le_refl]. Qed.

(* ---- Library.clone ---- *)
Definition library_memo (s : state) (l : id) : memo := snd (fst (fst (lib_clone1 (s, []) l))).

Lemma qs_lib_rip m s l' : qsame s (fst (lib_rip m s l')).
Proof.
  unfold lib_rip. apply qs_fold_idsR. intros s1 d'. apply qs_bind; [apply qs_fold_idsR; intros; apply qs_register_child|].
  intro s2. apply qs_fields; reflexivity.
Qed.

Theorem clone_library_data s0 l :
  Fresh s0 -> Inv1a s0 -> l < next s0 -> snd (fst (clone_library s0 l)) = None ->
  forall a b, In (a, b) (library_memo s0 l) -> a < next s0 ->
    PairData s0 l (fst (fst (clone_library s0 l))) (snd (clone_library s0 l)) a b.
Proof.
  intros F0 I1 Hl. pose proof (above_of_fresh s0 F0) as Ab. pose proof (parlt_of_inv1a s0 I1 Ab) as Pl.
  unfold clone_library, library_memo. destruct (lib_clone1 (s0, []) l) as [[[s1 m] l'] [e|]] eqn:E; cbn [fst snd]; [discriminate|].
  destruct (lib_clone1_dd (next s0) s0 s0 [] l s1 m l' Ab Pl (Nat.le_refl _) (lb_refl _ _) E) as [_ [_ [[mn [EM D]] [_ [_ [_ [_ [Hkl Hin]]]]]]]].
  rewrite app_nil_r in EM. subst mn.
  pose proof (qs_lib_rip m s1 l') as Q2. destruct (lib_rip m s1 l') as [s2 [e|]]; cbn [bindR fst snd] in *; [discriminate|].
  intro Hc. apply (pairs_after_reapply (next s0) s0 s2 (next s0) m l l' (dd_qsame _ _ _ _ _ _ Q2 D)); [|exact Hc].
  rewrite (attrs_data _ _ _ (proj1 Q2 l')). destruct (D l l' Hin) as [_ [_ P]]. apply (P Hl KLibrary Hkl). reflexivity.
Qed.

(* ---- Netlist.clone ---- *)
Definition net_tail (m : memo) (libs' : list id) (n' : id) (r : R) : R :=
  r >>= fun s8 =>
  let s8 := match top s8 n' with Some t' => s8 <| istop ::= fun f => upd f t' true |> | None => s8 end in
  fold_idsR (fun s l' => fold_idsR (def_rr m) (kids s RDefs l') (set_par s RLibs l' (Some n'))) libs' s8 >>= fun s9 =>
  reapply (fold_ids (fun s l' => fold_ids (fun s d' => set_drefs s d' (filter (mval m) (drefs s d'))) (kids s RDefs l') s) libs' s9) n'.

Lemma clone_netlist_eq s n :
  clone_netlist s n =
  let '(s1, n') := clone_alloc s KNetlist in
  let s1 := copy_data s1 n n' in
  let '(((s2, m2), libs'), e) := libs_clone1 (kids s1 RLibs n) (s1, [(n, n')]) in
  match e with
  | Some x => (raise s2 x, n')
  | None => let s3 := set_kids s2 RLibs n' libs' in
            let '(r, m) := top_stage s3 m2 n n' in (net_tail m libs' n' r, n')
  end.
Proof. reflexivity. Qed.

Lemma top_stage_dd n0 s0 s3 m2 n n' :
  n0 <= next s3 -> LB n0 s0 s3 -> snd (fst (top_stage s3 m2 n n')) = None ->
  let sT := fst (fst (top_stage s3 m2 n n')) in
  LB (next s3) s3 sT /\ next s3 <= next sT /\ exists mn, snd (top_stage s3 m2 n n') = mn ++ m2 /\ DD n0 s0 sT (next s3) mn.
Proof.
  intros Hn L. unfold top_stage. destruct (top s3 n) as [t|].
  2:{ intros _. cbn. split; [apply lb_refl|]. split; [apply Nat.le_refl|]. exists []. split; [reflexivity|intros a b []]. }
  destruct (mget m2 t) as [t'|].
  { intros _. cbn [fst snd ret]. split; [apply qs_lb; apply qs_fields; reflexivity|]. split; [apply Nat.le_refl|].
    exists []. split; [reflexivity|intros a b []]. }
  destruct (inst_clone1 (s3, m2) t) as [[s4 m4] t'] eqn:E4.
  destruct (np_inst_clone1 n0 s0 s3 m2 t s4 m4 t' Hn L E4) as [L4 [N4 [mn [-> D4]]]]. cbn [fst snd].
  set (m4 := mn ++ m2).
  assert (Q : forall rr : R, rr = (inst_rr_def m4 s4 t' >>= fun s5 =>
           let s6 := match iref s5 t' with
                     | Some e => match mget m4 e with Some e' => set_iref s5 t' (Some e') | None => s5 end
                     | None => s5 end in
           rekey_all m4 s6 t' >>= fun s7 => ret (s7 <| top ::= fun f => upd f n' (Some t') |>)) -> qsame s4 (fst rr)).
  { intros rr ->. apply qs_bind; [apply qs_inst_rr_def|]. intro s5.
    apply qs_bind.
    - eapply qs_trans; [|apply (proj1 (rs_rekey_all m4 _ t'))].
      destruct (iref s5 t') as [e|]; [|apply qs_refl]. destruct (mget m4 e); [apply qs_fields; reflexivity|apply qs_refl].
    - intro s7. apply qs_fields; reflexivity. }
  match goal with |- snd ?rr = None -> _ => specialize (Q rr eq_refl); destruct rr as [sT eT] end. cbn [fst snd] in *.
  intros _. destruct Q as [Q QN].
  split; [intros y Hy; rewrite Q; apply L4; exact Hy|]. split; [rewrite QN; exact N4|].
  exists mn. split; [reflexivity|]. apply (dd_keep n0 s0 s4 sT (next s3) mn D4); [intros b _ _; apply Q|rewrite QN; apply Nat.le_refl].
Qed.

Lemma net_tail_spec m libs' n' (r : R) : snd (net_tail m libs' n' r) = None ->
  exists sR, qsame (fst r) sR /\ snd r = None /\ net_tail m libs' n' r = reapply sR n'.
Proof.
  unfold net_tail. destruct r as [s8 [e|]]; cbn [bindR fst snd]; [discriminate|].
  set (s8' := match top s8 n' with Some t' => s8 <| istop ::= fun f => upd f t' true |> | None => s8 end).
  assert (Q8 : qsame s8 s8') by (unfold s8'; destruct (top s8 n'); [apply qs_fields; reflexivity|apply qs_refl]).
  pose proof (qs_fold_idsR (fun s l' => fold_idsR (def_rr m) (kids s RDefs l') (set_par s RLibs l' (Some n'))) libs'
                (fun s l' => qs_trans _ _ _ (qs_set_par s RLibs l' (Some n')) (qs_fold_idsR (def_rr m) _ (fun s1 d => proj1 (rs_def_rr m s1 d)) _)) s8') as Q9.
  destruct (fold_idsR _ libs' s8') as [s9 [e|]]; cbn [bindR fst snd] in *; [discriminate|]. intros Hc.
  eexists. split; [|split; [reflexivity|reflexivity]].
  eapply qs_trans; [exact Q8|]. eapply qs_trans; [exact Q9|].
  apply qs_fold_ids. intros s l'. apply qs_fold_ids. intros s1 d'. apply qs_fields; reflexivity.
Qed.

Theorem clone_netlist_data s0 n :
  Fresh s0 -> Inv1a s0 -> n < next s0 -> snd (fst (clone_netlist s0 n)) = None ->
  forall a b, In (a, b) (netlist_memo s0 n) -> a < next s0 ->
    PairData s0 n (fst (fst (clone_netlist s0 n))) (snd (clone_netlist s0 n)) a b.
Proof.
  intros F0 I1 Hn. pose proof (above_of_fresh s0 F0) as Ab. pose proof (parlt_of_inv1a s0 I1 Ab) as Pl.
  rewrite clone_netlist_eq. unfold netlist_memo.
  destruct (clone_alloc s0 KNetlist) as [sa n'] eqn:Ea.
  destruct (clone_alloc_attrs s0 KNetlist sa n' Ea (or_intror Ab)) as [Hn' [Hna [La [Hka _]]]].
  destruct (above_alloc s0 KNetlist sa n' Ab Pl Ea) as [Aba Pla].
  set (s1 := copy_data sa n n').
  assert (L1 : LB (next s0) s0 s1).
  { intros y Hy. unfold s1. rewrite attrs_copy_data. replace (Nat.eqb y n') with false by (symmetry; apply Nat.eqb_neq; lia). apply La. exact Hy. }
  assert (N1 : next s1 = S (next s0)) by exact Hna.
  assert (D1 : data s1 n' = data s0 n).
  { pose proof (attrs_copy_data sa n n' n') as H. rewrite Nat.eqb_refl in H. apply attrs_eq3 in H as [_ [H _]]. fold s1 in H. rewrite H.
    apply (attrs_data _ _ _ (La n Hn)). }
  change (kids sa RLibs n) with (kids s1 RLibs n).
  match goal with |- context [libs_clone1 ?a ?b] => destruct (libs_clone1 a b) as [[[s2 m2] libs'] [ex|]] eqn:Eb end; [unfold raise; cbn; discriminate|].
  destruct (libs_clone1_dd _ (next s0) s0 s1 _ s2 m2 libs' Aba Pla ltac:(lia) L1 Eb) as [L2 [N2 [[mn2 [-> D2]] _]]].
  cbn zeta. set (s3 := set_kids s2 RLibs n' libs').
  assert (Q3 : qsame s2 s3) by apply qs_set_kids.
  assert (L03 : LB (next s0) s0 s3).
  { eapply lb_trans; [exact L1|]. apply (lb_mono (next s1)); [lia|]. eapply lb_trans; [exact L2|apply qs_lb; exact Q3]. }
  match goal with |- context [top_stage ?a ?b ?c ?d] =>
    pose proof (top_stage_dd (next s0) s0 a b c d ltac:(cbn; lia) L03) as HT; cbn zeta in HT;
    destruct (top_stage a b c d) as [r M] end. cbn [fst snd] in *.
  intro Hc. destruct (net_tail_spec M libs' n' r Hc) as [sR [QR [Hr ER]]]. rewrite ER in Hc |- *.
  destruct (HT Hr) as [LT [NT [mnT [-> DT]]]]. clear HT.
  (* the pair invariant for the whole memo in the state before the policy is re-applied *)
  assert (DR : DD (next s0) s0 sR (next s0) (mnT ++ mn2 ++ [(n, n')])).
  { apply (dd_qsame _ _ _ _ _ _ QR). apply dd_app; [apply (dd_lo _ _ _ (next s3)); [cbn; lia|exact DT]|].
    assert (K3T : forall lo mm sX, next sX <= next s3 -> LB (next sX) sX s3 -> DD (next s0) s0 sX lo mm -> DD (next s0) s0 (fst r) lo mm).
    { intros lo mm sX H1 LX DX. apply (dd_keep _ _ sX (fst r) lo mm DX); [|lia].
      intros b _ Hb. rewrite (LT b ltac:(lia)). apply LX. exact Hb. }
    apply dd_app.
    - apply (dd_lo _ _ _ (next s1)); [lia|]. apply (K3T _ _ s2); [apply Nat.le_refl|apply qs_lb; exact Q3|exact D2].
    - intros a b [H|[]]. injection H as <- <-. split; [lia|]. split; [cbn in NT; lia|].
      intros _ k Hk.
      assert (A : attrs (fst r) n' = attrs s1 n').
      { rewrite (LT n' ltac:(cbn; lia)), (proj1 Q3 n'). apply L2. lia. }
      rewrite (attrs_kind _ _ _ A) in Hk. change (kind_of s1 n') with (kind_of sa n') in Hk. rewrite Hka in Hk. injection Hk as <-.
      split; [intros _; rewrite (attrs_data _ _ _ A); exact D1|intros [H|H]; discriminate]. }
  intros a b Hab Ha. apply (pairs_after_reapply (next s0) s0 sR (next s0) _ n n' DR); [|exact Hc|exact Hab|exact Ha].
  destruct (DR n n' ltac:(apply in_or_app; right; apply in_or_app; right; left; reflexivity)) as [_ [_ P]].
  assert (HkR : kind_of sR n' = Some KNetlist).
  { rewrite (attrs_kind _ _ _ (proj1 QR n')), (attrs_kind _ _ _ (LT n' ltac:(cbn; lia))), (attrs_kind _ _ _ (proj1 Q3 n')), (attrs_kind _ _ _ (L2 n' ltac:(lia))). exact Hka. }
  apply (P Hn KNetlist HkR). reflexivity.
Qed.

(* ---- the small roots: ports, cables, instances carry the dictionary and the attributes unchanged ---- *)
Lemma bundle_root (g : SM -> id -> SM * id) (r : rel) (k : kind) s m p s' m' p' :
  NP g -> is_container k = false ->
  (let '(s1, x) := clone_alloc s k in
   let '((s2, m2), items') := clone_each g (kids s1 r p) (s1, (p, x) :: m) in
   let s3 := set_kids s2 r x items' in
   let s4 := fold_ids (fun s i' => set_par s r i' (Some x)) items' s3 in
   ((copy_data (copy_bundle s4 p x) p x, m2), x)) = ((s', m'), p') ->
  p' = next s /\ In (p, p') m' /\ kind_of s' p' = Some k.
Proof.
  intros Hg Hc. destruct (clone_alloc s k) as [s1 x] eqn:Ea.
  destruct (clone_alloc_attrs s k s1 x Ea (or_introl Hc)) as [Hx [Hn1 [_ [Hk _]]]].
  destruct (clone_each g (kids s1 r p) (s1, (p, x) :: m)) as [[s2 m2] items] eqn:Ee.
  destruct (np_clone_each g Hg _ 0 s1 s1 _ s2 m2 items (Nat.le_0_l _) (lb_refl _ _) Ee) as [L2 [_ [mn [-> _]]]].
  intro H. injection H as <- <- <-. split; [exact Hx|]. split; [apply in_or_app; right; left; reflexivity|].
  set (s4 := fold_ids (fun s i' => set_par s r i' (Some x)) items (set_kids s2 r x items)).
  assert (Q : qsame s2 s4) by (eapply qs_trans; [apply qs_set_kids|apply qs_fold_set_par]).
  change (kind_of s4 x = Some k). rewrite (attrs_kind _ _ _ (proj1 Q x)), (attrs_kind _ _ _ (L2 x ltac:(lia))). exact Hk.
Qed.

Theorem clone_port_data s0 p : p < next s0 ->
  let sF := fst (fst (clone_port s0 p)) in let p' := snd (clone_port s0 p) in
  p' = next s0 /\ data sF p' = data s0 p /\ bflags sF p' = bflags s0 p.
Proof.
  intros Hp. cbn zeta. unfold clone_port. destruct (port_clone1 (s0, []) p) as [[s1 m] p'] eqn:E. cbn [fst snd ret].
  destruct (np_port_clone1 (next s0) s0 s0 [] p s1 m p' (Nat.le_refl _) (lb_refl _ _) E) as [_ [_ [mn [EM D]]]].
  rewrite app_nil_r in EM. subst mn.
  destruct (bundle_root pin_clone1 RPins KPort s0 [] p s1 m p' np_pin_clone1 eq_refl E) as [Hx [Hin Hk]].
  destruct (D p p' Hin) as [_ [_ P]]. destruct (P Hp KPort Hk) as [P1 P2].
  set (sF := fold_ids (fun s i' => set_ipwire s i' None) (kids s1 RPins p') s1).
  assert (Q : qsame s1 sF) by (apply qs_fold_ids; intros; apply qs_fields; reflexivity).
  split; [exact Hx|]. split; [rewrite (attrs_data _ _ _ (proj1 Q p')); apply P1; reflexivity|rewrite (attrs_flags _ _ _ (proj1 Q p')); apply P2; left; reflexivity].
Qed.

Theorem clone_cable_data s0 c : c < next s0 ->
  let sF := fst (fst (clone_cable s0 c)) in let c' := snd (clone_cable s0 c) in
  c' = next s0 /\ data sF c' = data s0 c /\ bflags sF c' = bflags s0 c.
Proof.
  intros Hp. cbn zeta. unfold clone_cable. destruct (cable_clone1 (s0, []) c) as [[s1 m] c'] eqn:E. cbn [fst snd ret].
  destruct (np_cable_clone1 (next s0) s0 s0 [] c s1 m c' (Nat.le_refl _) (lb_refl _ _) E) as [_ [_ [mn [EM D]]]].
  rewrite app_nil_r in EM. subst mn.
  destruct (bundle_root wire_clone1 RWires KCable s0 [] c s1 m c' np_wire_clone1 eq_refl E) as [Hx [Hin Hk]].
  destruct (D c c' Hin) as [_ [_ P]]. destruct (P Hp KCable Hk) as [P1 P2].
  set (sF := fold_ids (fun s w' => set_wpins s w' []) (kids s1 RWires c') s1).
  assert (Q : qsame s1 sF) by (apply qs_fold_ids; intros; apply qs_fields; reflexivity).
  split; [exact Hx|]. split; [rewrite (attrs_data _ _ _ (proj1 Q c')); apply P1; reflexivity|rewrite (attrs_flags _ _ _ (proj1 Q c')); apply P2; right; reflexivity].
Qed.

Theorem clone_instance_data s0 x : x < next s0 ->
  let sF := fst (fst (clone_instance s0 x)) in let x' := snd (clone_instance s0 x) in
  x' = next s0 /\ data sF x' = data s0 x.
Proof.
  intros Hl. cbn zeta. unfold clone_instance, inst_clone1. destruct (clone_alloc s0 KInstance) as [s1 x'] eqn:Ea.
  destruct (clone_alloc_attrs s0 KInstance s1 x' Ea (or_introl eq_refl)) as [Hx [_ [L1 _]]]. cbn [fst snd].
  split; [exact Hx|].
  match goal with |- data (fst (register_child ?s2 x')) x' = _ => pose proof (qs_register_child s2 x') as [Q _]; rewrite (attrs_data _ _ _ (Q x')) end.
  cbn. rewrite upd_same. apply (attrs_data _ _ _ (L1 x Hl)).
Qed.

(* ---- with the structure theorem: which copies lie below the copied netlist ---- *)
Section NetSub.
  Variables (s0 : state) (n : id) (sF : state) (n' : id) (M : memo).
  Hypothesis NS : NetStruct s0 n sF n' M.
  Hypothesis T0 : InvT s0.
  Hypothesis Hkn : kind_of s0 n = Some KNetlist.

  Let Hf a b b' : img M a b -> img M a b' -> b = b' := memo_fun M a b b' (ns_fun _ _ _ _ _ NS).
  Let Hi a a' b : img M a b -> img M a' b -> a = a' := memo_inj M a a' b (ns_inj _ _ _ _ _ NS).

  Lemma def_subtree_img d d' : img M d d' -> kind_of s0 d = Some KDefinition ->
    forall a b, img M a b -> (In a (def_subtree s0 d) <-> In b (def_subtree sF d')).
  Proof.
    intros Hd Hkd a b Hab. unfold def_subtree.
    pose proof (ns_ports _ _ _ _ _ NS d d' Hd Hkd) as FP. pose proof (ns_cables _ _ _ _ _ NS d d' Hd Hkd) as FC.
    pose proof (ns_children _ _ _ _ _ NS d d' Hd Hkd) as FX.
    assert (G : forall l l', Forall2 (img M) l l' -> (In a l <-> In b l')).
    { intros l l' F. split; intro H.
      - destruct (Forall2_in_l _ _ _ a F H) as [b2 [Hb2 Hi2]]. rewrite (Hf a b b2 Hab Hi2). exact Hb2.
      - destruct (Forall2_in_r _ _ _ b F H) as [a2 [Ha2 Hi2]]. rewrite (Hi a a2 b Hab Hi2). exact Ha2. }
    cbn [In]. rewrite !in_app_iff, (G _ _ FP), (G _ _ FC), (G _ _ FX).
    split; (intros [H|H]; [left|right; exact H]); [subst a; apply (Hf d d' b Hd Hab)|subst b; apply (Hi d a d' Hd Hab)].
  Qed.

  Lemma lib_subtree_img l l' : img M l l' -> kind_of s0 l = Some KLibrary ->
    forall a b, img M a b -> (In a (lib_subtree s0 l) <-> In b (lib_subtree sF l')).
  Proof.
    intros Hl Hkl a b Hab. unfold lib_subtree. pose proof (ns_defs _ _ _ _ _ NS l l' Hl Hkl) as FD. cbn [In]. rewrite !in_flat_map.
    split; (intros [H|[d [Hd Hin]]]; [left|right]).
    - subst a. apply (Hf l l' b Hl Hab).
    - destruct (Forall2_in_l _ _ _ d FD Hd) as [d' [Hd' Hi2]]. exists d'. split; [exact Hd'|].
      apply (def_subtree_img d d' Hi2 (proj1 (T0 RDefs l d Hd)) a b Hab). exact Hin.
    - subst b. apply (Hi l a l' Hl Hab).
    - destruct (Forall2_in_r _ _ _ d FD Hd) as [d0 [Hd0 Hi2]]. exists d0. split; [exact Hd0|].
      apply (def_subtree_img d0 d Hi2 (proj1 (T0 RDefs l d0 Hd0)) a b Hab). exact Hin.
  Qed.

  Lemma net_subtree_img a b : img M a b -> (In a (subtree s0 n) <-> In b (subtree sF n')).
  Proof.
    intro Hab. pose proof (ns_root _ _ _ _ _ NS) as Hr.
    assert (Hkn' : kind_of sF n' = Some KNetlist) by (destruct (ns_rng _ _ _ _ _ NS n n' Hr) as [_ [_ H]]; rewrite H; exact Hkn).
    unfold subtree. rewrite Hkn, Hkn'. unfold net_subtree. pose proof (ns_libs _ _ _ _ _ NS) as FL. cbn [In]. rewrite !in_flat_map.
    split; (intros [H|[l [Hl Hin]]]; [left|right]).
    - subst a. apply (Hf n n' b Hr Hab).
    - destruct (Forall2_in_l _ _ _ l FL Hl) as [l' [Hl' Hi2]]. exists l'. split; [exact Hl'|].
      apply (lib_subtree_img l l' Hi2 (proj1 (T0 RLibs n l Hl)) a b Hab). exact Hin.
    - subst b. apply (Hi n a n' Hr Hab).
    - destruct (Forall2_in_r _ _ _ l FL Hl) as [l0 [Hl0 Hi2]]. exists l0. split; [exact Hl0|].
      apply (lib_subtree_img l0 l Hi2 (proj1 (T0 RLibs n l0 Hl0)) a b Hab). exact Hin.
  Qed.
End NetSub.

(* Netlist.clone, the statement in terms of the source: every first-class element below the netlist
   (the netlist, its libraries, their definitions, the ports, cables and child instances of those) is
   copied with cdict of its dictionary; a top instance that is not a child of any definition is copied
   with its dictionary unchanged *)
Record NetData (s0 : state) (n : id) (sF : state) (M : memo) : Prop := mkNetData {
  nd_data : forall a b k, In (a, b) M -> kind_of s0 a = Some k -> has_data k = true ->
              data sF b = if memb a (subtree s0 n) then cdict s0 n (data s0 a) else data s0 a;
  nd_flags : forall a b, In (a, b) M -> (kind_of s0 a = Some KPort \/ kind_of s0 a = Some KCable) -> bflags sF b = bflags s0 a
}.

Theorem clone_netlist_data_struct s0 n :
  UF s0 -> StartOK s0 -> (forall x e, iref s0 x = Some e -> kind_of s0 e = Some KDefinition) ->
  kind_of s0 n = Some KNetlist -> (forall t, top s0 n = Some t -> kind_of s0 t = Some KInstance) -> Closed s0 n ->
  snd (fst (clone_netlist s0 n)) = None ->
  NetStruct s0 n (fst (fst (clone_netlist s0 n))) (snd (clone_netlist s0 n)) (netlist_memo s0 n) /\
  NetData s0 n (fst (fst (clone_netlist s0 n))) (netlist_memo s0 n).
Proof.
  intros U0 HS HRD Hkn Htop Hcl Hok. pose proof (clone_netlist_struct_m s0 n U0 HS HRD Hkn Htop Hcl Hok) as NS.
  split; [exact NS|]. destruct U0 as [I0 [T0 [F0 _]]].
  assert (Hn : n < next s0). { destruct (Nat.lt_ge_cases n (next s0)) as [H|H]; [exact H|]. rewrite (f_kind _ F0 n H) in Hkn. discriminate. }
  pose proof (clone_netlist_data s0 n F0 (inv_a _ I0) Hn Hok) as PD.
  constructor.
  - intros a b k Hab Hk Hd. destruct (ns_rng _ _ _ _ _ NS a b Hab) as [Ha [_ Hkb]]. rewrite Hk in Hkb.
    destruct (PD a b Hab Ha k Hkb) as [P _]. rewrite (P Hd).
    pose proof (net_subtree_img s0 n _ _ _ NS T0 Hkn a b Hab) as Hiff.
    destruct (memb a (subtree s0 n)) eqn:Ea.
    + apply memb_In in Ea. rewrite (proj2 (memb_In _ _) (proj1 Hiff Ea)). reflexivity.
    + apply memb_false in Ea. rewrite (proj2 (memb_false _ _) (fun H => Ea (proj2 Hiff H))). reflexivity.
  - intros a b Hab Hk. destruct (ns_rng _ _ _ _ _ NS a b Hab) as [Ha [_ Hkb]].
    destruct Hk as [Hk|Hk]; rewrite Hk in Hkb; destruct (PD a b Hab Ha _ Hkb) as [_ P]; apply P; [left|right]; reflexivity.
Qed.

Theorem clone_netlist_reachable_data ops n :
  let s := run ops init in
  kind_of s n = Some KNetlist -> Closed s n -> snd (fst (clone_netlist s n)) = None ->
  NetStruct s n (fst (fst (clone_netlist s n))) (snd (clone_netlist s n)) (netlist_memo s n) /\
  NetData s n (fst (fst (clone_netlist s n))) (netlist_memo s n).
Proof.
  cbn zeta. intros Hk Hc Hok. destruct (KindD.reachable_refd_topk ops) as [HD HT].
  apply clone_netlist_data_struct; [apply reachable_uf|apply CloneStart.reachable_startok|exact HD|exact Hk|intros t Ht; apply (HT n t Ht)|exact Hc|exact Hok].
Qed.

Theorem clone_library_reachable_data ops l :
  let s := run ops init in
  l < next s -> snd (fst (clone_library s l)) = None ->
  forall a b, In (a, b) (library_memo s l) -> a < next s ->
    PairData s l (fst (fst (clone_library s l))) (snd (clone_library s l)) a b.
Proof.
  cbn zeta. intros Hl Hc. destruct (reachable_uf ops) as [I [_ [F _]]]. apply (clone_library_data _ l F (inv_a _ I) Hl Hc).
Qed.
