(* The lookup hypothesis LookOK for the key EDIF.identifier under the EDIF policy (finding C13-K4
   repaired: the scan of global_service.lookup compares an identifier the way the namespace of the
   child does). The namespace table answers with the child whose lower-cased identifier is the
   lower-cased value (C10's table invariant NsInv); the scan returns every child c with
   _value_equals_pattern(c, key, c[key], value). They agree when the children of a parent whose
   table is an EDIF table are themselves under the EDIF policy (PolCoh: child[".NS"] follows the
   parent - NamespaceManager.add sets it). *)
From Coq Require Import List Arith NArith Bool Lia.
From SV Require Import Base.Base IR.State IR.NS IR.Ops Proofs.NsSlot Proofs.NsInv
  Hier.Paths Hier.Enum Hier.Trace Query.Glob Query.Patterns Query.Filter Query.Enum Query.EnumSpec
  Proofs.QueryFilterA Proofs.QueryFilter Proofs.QueryEnumFull.
Import ListNotations.

(* the children of a parent with an EDIF table are under the EDIF policy *)
Definition PolCoh (s : state) (r : rel) : Prop :=
  forall p t c, nstab s p = Some t -> ns_pol t = PolEdif -> In c (kids s r p) ->
                elem_pol s c = Some PolEdif.

Lemma filter_single (f : id -> bool) l c : NoDup l -> In c l -> f c = true ->
  (forall c', In c' l -> f c' = true -> c' = c) -> filter f l = [c].
Proof.
  induction l as [|x l IH]; intros Hnd Hin Hf Hu; [destruct Hin|]. inversion Hnd as [|? ? Hx Hl]; subst. cbn [filter].
  destruct Hin as [->|Hin].
  - rewrite Hf. f_equal. clear IH. assert (Hnone : forall y, In y l -> f y = false).
    { intros y Hy. destruct (f y) eqn:Ey; [|reflexivity]. exfalso. apply Hx. rewrite <- (Hu y (or_intror Hy) Ey). exact Hy. }
    clear -Hnone. induction l as [|y l IH]; cbn [filter]; [reflexivity|]. rewrite (Hnone y (or_introl eq_refl)). apply IH.
    intros z Hz. apply Hnone. right. exact Hz.
  - destruct (f x) eqn:Ex.
    + exfalso. apply Hx. rewrite (Hu x (or_introl eq_refl) Ex). exact Hin.
    + apply IH; [exact Hl|exact Hin|exact Hf|]. intros c' Hc'. apply Hu. right. exact Hc'.
Qed.

Lemma filter_none (f : id -> bool) l : (forall y, In y l -> f y = false) -> filter f l = [].
Proof.
  induction l as [|y l IH]; intro H; cbn [filter]; [reflexivity|]. rewrite (H y (or_introl eq_refl)). apply IH.
  intros z Hz. apply H. right. exact Hz.
Qed.

Theorem lookok_edif_ident s reg r :
  NsInv s -> ns_rel r = true -> (forall p, NoDup (kids s r p)) -> PolCoh s r -> LookOK s reg str_IDENT r.
Proof.
  intros HN Hr Hnd HC p v. unfold lk_of. destruct (reg && registered_key str_IDENT); [|reflexivity].
  destruct (nstab s p) as [t|] eqn:Et; [|reflexivity].
  unfold ns_indexes. destruct (ns_pol t) eqn:Ep; [reflexivity|].
  unfold fast_lookup. rewrite Et. unfold ns_lookup. rewrite Ep. cbn [str_eqb]. change (str_eqb str_IDENT str_NAME) with false.
  change (str_eqb str_IDENT str_IDENT) with true. cbv iota.
  pose proof (tk_idents s (kmem s) p t (HN p t Et) Ep r Hr) as HS. unfold SlotOK in HS.
  set (f := fun c => has_key (key_of s str_IDENT) c && xeq (key_of s str_IDENT) (fold_of s str_IDENT) v c).
  assert (Hf : forall c, In c (kids s r p) -> (f c = true <-> ident_key s c = Some (lower v))).
  { intros c Hc. unfold f, has_key, xeq, Filter.val, fold_of, ident_key, key_of.
    rewrite (HC p t c Et Ep Hc). change (str_eqb str_IDENT str_IDENT) with true. cbn [andb].
    destruct (get_str s c str_IDENT) as [w|]; cbn [option_map value_or_empty andb].
    - rewrite str_eqb_spec. split; [intros ->; reflexivity|intro E; injection E as E; congruence].
    - split; discriminate. }
  unfold Filter.scan_lookup. fold f.
  destruct (sassoc (lower v) (ns_idents t (rel_child r))) as [c|] eqn:Es; cbn [opt_list].
  - apply HS in Es as [Hc Hk]. symmetry. apply filter_single; [apply Hnd|exact Hc|apply Hf; assumption|].
    intros c' Hc' Hf'. apply (Hf c' Hc') in Hf'. assert (E : sassoc (lower v) (ns_idents t (rel_child r)) = Some c') by (apply HS; split; assumption).
    assert (E2 : sassoc (lower v) (ns_idents t (rel_child r)) = Some c) by (apply HS; split; assumption). congruence.
  - symmetry. apply filter_none. intros y Hy. destruct (f y) eqn:Ey; [|reflexivity]. exfalso.
    apply (Hf y Hy) in Ey. assert (E : sassoc (lower v) (ns_idents t (rel_child r)) = Some y) by (apply HS; split; assumption). congruence.
Qed.
Print Assumptions lookok_edif_ident.
