(* Generalisation of Proofs/CloneFaith.v to a running memo: one Definition._clone in the middle of a
   library / netlist clone. *)
From Coq Require Import List Arith Bool Lia.
From RecordUpdate Require Import RecordSet.
From SV Require Import Base.Base IR.State IR.NS IR.Ops Xform.Clone Proofs.AssocX Proofs.Frame Proofs.Inv1a
  Proofs.InvW Proofs.Fresh Proofs.NsInv Proofs.CloneInv Proofs.RefK Proofs.CloneRef Proofs.CloneT Proofs.FieldT
  Proofs.CloneMemo Proofs.CloneRR Proofs.CloneFaith.
From SV Require Import Proofs.CloneMemoK.
Import ListNotations RecordSetNotations.

Lemma step_portK s0 sk : StepOKk s0 sk port_clone1 (Kb s0 RPins) (PreBundle s0 KPort KPin RPins) (ImgOK s0 RPins).
Proof.
  intros s m p s' m' p' P Hpre Hnd Hnk E.
  apply (pk_bundle s0 sk KPort KPin RPins pin_clone1 (step_pin s0 sk) pin_clone1_leaf eq_refl eq_refl eq_refl s m p s' m' p' P Hpre Hnd Hnk). exact E.
Qed.
Lemma step_cableK s0 sk : StepOKk s0 sk cable_clone1 (Kb s0 RWires) (PreBundle s0 KCable KWire RWires) (ImgOK s0 RWires).
Proof.
  intros s m p s' m' p' P Hpre Hnd Hnk E.
  apply (pk_bundle s0 sk KCable KWire RWires wire_clone1 (step_wire s0 sk) wire_clone1_leaf eq_refl eq_refl eq_refl s m p s' m' p' P Hpre Hnd Hnk). exact E.
Qed.

(* new memo entries carry fresh values *)
Definition VNf (f : SM -> id -> SM * id) : Prop :=
  forall s m x s' m' x', f (s, m) x = ((s', m'), x') -> forall a b, In (a, b) m' -> In (a, b) m \/ next s <= b.

Lemma vn_clone_each f : VNf f -> KMf f -> forall l s m s' m' l', clone_each f l (s, m) = ((s', m'), l') ->
  forall a b, In (a, b) m' -> In (a, b) m \/ next s <= b.
Proof.
  intros Hf Hm. induction l as [|x l IH]; intros s m s' m' l' E a b Hab; cbn [clone_each] in E.
  - injection E as <- <- <-. left. exact Hab.
  - destruct (f (s, m) x) as [[s1 m1] x'] eqn:E1. destruct (clone_each f l (s1, m1)) as [[s2 m2] l2] eqn:E2.
    injection E as <- <- <-. destruct (Hm _ _ _ _ _ _ E1) as [Hn _].
    destruct (IH _ _ _ _ _ E2 a b Hab) as [H|H]; [|right; lia]. apply (Hf _ _ _ _ _ _ E1 a b H).
Qed.
Lemma vn_pin : VNf pin_clone1.
Proof.
  intros s m i s' m' i' E a b Hab. unfold pin_clone1 in E. destruct (clone_alloc s KPin) as [s1 x] eqn:Ea.
  destruct (clone_alloc_kp _ _ _ _ Ea) as [Hx _]. injection E as <- <- <-. destruct Hab as [H|H]; [injection H as <- <-; right; lia|left; exact H].
Qed.
Lemma vn_wire : VNf wire_clone1.
Proof.
  intros s m i s' m' i' E a b Hab. unfold wire_clone1 in E. destruct (clone_alloc s KWire) as [s1 x] eqn:Ea.
  destruct (clone_alloc_kp _ _ _ _ Ea) as [Hx _]. injection E as <- <- <-. destruct Hab as [H|H]; [injection H as <- <-; right; lia|left; exact H].
Qed.
Lemma vn_inst : VNf inst_clone1.
Proof.
  intros s m i s' m' i' E a b Hab. unfold inst_clone1 in E. destruct (clone_alloc s KInstance) as [s1 x] eqn:Ea.
  destruct (clone_alloc_kp _ _ _ _ Ea) as [Hx _]. injection E as <- <- <-. destruct Hab as [H|H]; [injection H as <- <-; right; lia|left; exact H].
Qed.
Lemma vn_port : VNf port_clone1.
Proof.
  intros s m p s' m' p' E a b Hab. unfold port_clone1 in E. destruct (clone_alloc s KPort) as [s1 x] eqn:Ea.
  destruct (clone_alloc_kp _ _ _ _ Ea) as [Hx [Hn _]].
  match type of E with context [clone_each pin_clone1 ?l ?sm] => destruct (clone_each pin_clone1 l sm) as [[s2 m2] pins'] eqn:E2 end.
  injection E as <- <- <-. destruct (vn_clone_each pin_clone1 vn_pin km_pin_clone1 _ _ _ _ _ _ E2 a b Hab) as [H|H]; [|right; lia].
  destruct H as [H|H]; [injection H as <- <-; right; lia|left; exact H].
Qed.
Lemma vn_cable : VNf cable_clone1.
Proof.
  intros s m p s' m' p' E a b Hab. unfold cable_clone1 in E. destruct (clone_alloc s KCable) as [s1 x] eqn:Ea.
  destruct (clone_alloc_kp _ _ _ _ Ea) as [Hx [Hn _]].
  match type of E with context [clone_each wire_clone1 ?l ?sm] => destruct (clone_each wire_clone1 l sm) as [[s2 m2] ws'] eqn:E2 end.
  injection E as <- <- <-. destruct (vn_clone_each wire_clone1 vn_wire km_wire_clone1 _ _ _ _ _ _ E2 a b Hab) as [H|H]; [|right; lia].
  destruct H as [H|H]; [injection H as <- <-; right; lia|left; exact H].
Qed.

(* what one Definition._clone adds, relative to the state s it starts from *)
Record StageOut (s0 s G : state) (m m' : memo) (K : list id) : Prop := mkSO {
  so_sub : msub m m';
  so_keys : keys_ext m m' K;
  so_rng : forall a b, In (a, b) m' -> a < next s0 /\ next s0 <= b < next G;
  so_new : forall a b, In (a, b) m' -> ~ In (a, b) m -> next s <= b;
  so_fun : NoDup (map fst m');
  so_inj : NoDup (map snd m');
  so_kind : forall a b, In (a, b) m' -> kind_of G b = kind_of s0 a;
  so_old : forall y, y < next s -> ipwire G y = ipwire s y /\ wpins G y = wpins s y /\ ipins G y = ipins s y /\ kind_of G y = kind_of s y /\ iref G y = iref s y;
  so_pin : forall a b, In (a, b) m' -> next s <= b -> kind_of s0 a = Some KPin -> mwire m' (ipwire s0 a) = Some (ipwire G b);
  so_wire : forall a b, In (a, b) m' -> next s <= b -> kind_of s0 a = Some KWire -> map_opt (mpin s0 m') (wpins s0 a) = Some (wpins G b);
  so_inst : forall a b, In (a, b) m' -> next s <= b -> kind_of s0 a = Some KInstance -> map_opt (imap m') (ipins s0 a) = Some (ipins G b) /\ iref G b = iref s0 a;
  so_def : forall y, next s <= y ->
             (kind_of G y <> Some KPin -> ipwire G y = None) /\ (kind_of G y <> Some KWire -> wpins G y = []) /\
             (kind_of G y <> Some KInstance -> ipins G y = [] /\ iref G y = None);
  so_cov : forall y, next s <= y ->
             (kind_of G y = Some KPin \/ kind_of G y = Some KWire \/ kind_of G y = Some KInstance) -> exists a, In (a, y) m';
  so_kids : forall r y, y < next s0 -> kids G r y = kids s0 r y;
  so_fresh : forall y, next G <= y -> kind_of G y = None
}.

Definition def_objects (s0 : state) (d : id) : list id :=
  d :: flat_map (Kb s0 RPins) (kids s0 RPorts d) ++ flat_map (Kb s0 RWires) (kids s0 RCables d) ++ kids s0 RChildren d.

Theorem def_clone1_stage s0 s m d G m' d' :
  Inv1a s0 -> InvT s0 -> Fresh s0 -> PK s0 s s m -> Above s -> ParLt s -> d < next s0 -> kind_of s0 d = Some KDefinition ->
  (forall y, In y (def_objects s0 d) -> ~ In y (map fst m)) ->
  def_clone1 (s, m) d = ((G, m', d'), None) ->
  StageOut s0 s G m m' (def_objects s0 d) /\ d' = next s /\ In (d, d') m' /\
  (forall p, In p (kids s0 RPorts d) -> exists p', In (p, p') m' /\ In p' (kids G RPorts d') /\ ImgOK s0 RPins p p' G m') /\
  (forall p, In p (kids s0 RCables d) -> exists p', In (p, p') m' /\ In p' (kids G RCables d') /\ ImgOK s0 RWires p p' G m') /\
  (forall p, In p (kids s0 RChildren d) -> exists p', In (p, p') m' /\ In p' (kids G RChildren d')) /\
  (forall p', In p' (kids G RPorts d') -> exists p, In (p, p') m' /\ In p (kids s0 RPorts d)) /\
  (forall p', In p' (kids G RChildren d') -> exists p, In (p, p') m' /\ In p (kids s0 RChildren d)) /\
  Forall2 (fun p p' => In (p, p') m') (kids s0 RPorts d) (kids G RPorts d') /\
  Forall2 (fun p p' => In (p, p') m') (kids s0 RCables d) (kids G RCables d') /\
  Forall2 (fun p p' => In (p, p') m') (kids s0 RChildren d) (kids G RChildren d').
Proof.
  intros I1 HT F PK0 Hab Hpl Hd Hkd Hfree E.
  pose proof (pk_0k _ _ _ _ PK0) as H0k.
  unfold def_clone1 in E.
  destruct (clone_alloc s KDefinition) as [s1 x] eqn:Ea.
  destruct (clone_alloc_fields _ _ _ _ Ea) as [Hx [N1 [K1 [Kd1 [W1 [P1 [J1 R1]]]]]]].
  destruct (above_alloc s KDefinition s1 x Hab Hpl Ea) as [Ab1 Pl1].
  remember (next s) as a eqn:Ea0. subst x.
  (* the memo invariant after the allocation of the copy *)
  assert (PA : PK s0 s s1 ((d, a) :: m)).
  { subst a. apply (pk_leaf s0 s s m d KDefinition); try assumption; rewrite ?W1, ?P1, ?J1, ?R1; try reflexivity.
    - apply Hfree. left. reflexivity.
    - intros y _. repeat split. }
  remember (copy_data s1 d a) as s1c eqn:Es1c.
  assert (Ab1c : Above s1c) by (subst s1c; exact Ab1). assert (Pl1c : ParLt s1c) by (subst s1c; exact Pl1).
  assert (Hn1c : next s1c = S a) by (subst s1c a; exact N1).
  assert (P1c : PK s0 s s1c ((d, a) :: m)) by (subst s1c; apply (pk_same s0 s s1); try reflexivity; exact PA).
  rewrite (pk_kids _ _ _ _ P1c RPorts d Hd) in E.
  match type of E with context [clone_each port_clone1 ?l ?sm] => destruct (clone_each port_clone1 l sm) as [[s2 m2] ports'] eqn:E2 end.
  destruct (clone_each_bundle port_clone1 port_clone1_bundle _ _ _ _ _ _ Ab1c Pl1c E2) as [L2 [F2 [G2 [R2 [N2 [Ab2 Pl2]]]]]].
  destruct (clone_each_tspec port_clone1 KPort port_clone1_bundle km_port_clone1 port_clone1_tspec _ _ _ _ _ _ Ab1c Pl1c E2) as [T2 _].
  pose proof (km_clone_each port_clone1 km_port_clone1 _ _ _ _ _ _ E2) as M2.
  assert (Hfd : forall y, In y (def_objects s0 d) -> y <> d -> ~ In y (map fst ((d, a) :: m))).
  { intros y Hy Hne [Hdy|Hin]; [apply Hne; symmetry; exact Hdy|apply (Hfree y Hy Hin)]. }
  destruct (pk_clone_each s0 s port_clone1 (Kb s0 RPins) (PreBundle s0 KPort KPin RPins) (ImgOK s0 RPins) (step_portK s0 s) (imgok_stable s0 RPins)
              (kids s0 RPorts d) s1c ((d, a) :: m) s2 m2 ports' P1c) as [Q2 [Ky2 [Sb2 [Ks2 Fa2]]]].
  { intros p Hp. apply (bundles_pre s0 I1 HT F RPorts RPins d p Hp). }
  { apply (bundles_nodup s0 I1 HT RPorts RPins d); [discriminate|reflexivity]. }
  { intros y Hy. apply Hfd; [right; apply in_or_app; left; exact Hy|]. intros ->. destruct (bundles_kinds s0 HT RPorts RPins d _ Hy) as [H|H]; rewrite Hkd in H; discriminate. }
  { exact E2. }
  rewrite (pk_kids _ _ _ _ Q2 RCables d Hd) in E.
  match type of E with context [clone_each cable_clone1 ?l ?sm] => destruct (clone_each cable_clone1 l sm) as [[s3 m3] cables'] eqn:E3 end.
  destruct (clone_each_bundle cable_clone1 cable_clone1_bundle _ _ _ _ _ _ Ab2 Pl2 E3) as [L3 [F3 [G3 [R3 [N3 [Ab3 Pl3]]]]]].
  destruct (clone_each_tspec cable_clone1 KCable cable_clone1_bundle km_cable_clone1 cable_clone1_tspec _ _ _ _ _ _ Ab2 Pl2 E3) as [T3 _].
  pose proof (km_clone_each cable_clone1 km_cable_clone1 _ _ _ _ _ _ E3) as M3.
  destruct (pk_clone_each s0 s cable_clone1 (Kb s0 RWires) (PreBundle s0 KCable KWire RWires) (ImgOK s0 RWires) (step_cableK s0 s) (imgok_stable s0 RWires)
              (kids s0 RCables d) s2 m2 s3 m3 cables' Q2) as [Q3 [Ky3 [Sb3 [Ks3 Fa3]]]].
  { intros p Hp. apply (bundles_pre s0 I1 HT F RCables RWires d p Hp). }
  { apply (bundles_nodup s0 I1 HT RCables RWires d); [discriminate|reflexivity]. }
  { intros y Hy Hin. apply Ky2 in Hin. destruct Hin as [Hin|Hin].
    - destruct (bundles_kinds s0 HT RCables RWires d _ Hy) as [Hk|Hk]; destruct (bundles_kinds s0 HT RPorts RPins d _ Hin) as [H|H]; rewrite Hk in H; discriminate.
    - revert Hin. apply Hfd; [right; apply in_or_app; right; apply in_or_app; left; exact Hy|].
      intros ->. destruct (bundles_kinds s0 HT RCables RWires d _ Hy) as [H|H]; rewrite Hkd in H; discriminate. }
  { exact E3. }
  rewrite (pk_kids _ _ _ _ Q3 RChildren d Hd) in E.
  match type of E with context [clone_each inst_clone1 ?l ?sm] => destruct (clone_each inst_clone1 l sm) as [[s4 m4] children'] eqn:E4 end.
  destruct (clone_each_bundle inst_clone1 inst_clone1_bundle _ _ _ _ _ _ Ab3 Pl3 E4) as [L4 [F4 [G4 [R4 [N4 [Ab4 Pl4]]]]]].
  destruct (clone_each_tspec inst_clone1 KInstance inst_clone1_bundle km_inst_clone1 inst_clone1_tspec _ _ _ _ _ _ Ab3 Pl3 E4) as [T4 K4].
  pose proof (km_clone_each inst_clone1 km_inst_clone1 _ _ _ _ _ _ E4) as M4.
  destruct (pk_clone_each s0 s inst_clone1 (fun i => [i]) (PreLeaf s0 KInstance) (NoPost) (step_inst s0 s) nopost_stable
              (kids s0 RChildren d) s3 m3 s4 m4 children' Q3) as [Q4 [Ky4 [Sb4 [Ks4 Fa4]]]].
  { intros c Hc. split; [apply (src_lt s0 I1 F _ _ _ Hc)|apply (src_kind_child s0 HT _ _ _ Hc)]. }
  { rewrite flat_map_single. apply (i1_nodup _ I1). }
  { intros y Hy Hin. rewrite flat_map_single in Hy. pose proof (src_kind_child s0 HT _ _ _ Hy) as Hk. cbn in Hk.
    apply Ky3 in Hin. destruct Hin as [Hin|Hin].
    - destruct (bundles_kinds s0 HT RCables RWires d _ Hin) as [H|H]; rewrite Hk in H; discriminate.
    - apply Ky2 in Hin. destruct Hin as [Hin|Hin]; [destruct (bundles_kinds s0 HT RPorts RPins d _ Hin) as [H|H]; rewrite Hk in H; discriminate|].
      revert Hin. apply Hfd; [right; apply in_or_app; right; apply in_or_app; right; exact Hy|]. intros ->. rewrite Hkd in Hk. discriminate. }
  { exact E4. }
  rewrite Hn1c in *.
  (* the three sibling groups form one typed fragment *)
  assert (G24 : Frag (S a) (next s4) s4).
  { apply (frag_join (S a) (next s3) (next s4) s3 s4); try lia; try assumption; try reflexivity.
    - apply (frag_join (S a) (next s2) (next s3) s2 s3); try lia; try assumption; try reflexivity.
      intros r y Hy. apply (proj2 (Ab3 r y Hy)).
    - intros r y Hy. apply (proj2 (Ab4 r y Hy)). }
  assert (G23 : Frag (S a) (next s3) s3).
  { apply (frag_join (S a) (next s2) (next s3) s2 s3); try lia; try assumption; try reflexivity.
    intros r y Hy. apply (proj2 (Ab3 r y Hy)). }
  assert (T24 : TFrag (S a) (next s4) s4).
  { apply (tfrag_join (S a) (next s3) (next s4) s3 s4); try assumption; [|apply Nat.le_refl].
    apply (tfrag_join (S a) (next s2) (next s3) s2 s3); try assumption. apply Nat.le_refl. }
  set (s5 := set_drefs (set_kids (set_kids (set_kids s4 RPorts a ports') RCables a cables') RChildren a children') a (drefs s4 d)) in *.
  assert (Hk5 : forall r y, y <> a -> kids s5 r y = kids s4 r y).
  { intros r y Hy. unfold s5. cbn. rewrite !kids_upd2_ns. replace (Nat.eqb y a) with false by (symmetry; apply Nat.eqb_neq; exact Hy).
    rewrite !andb_false_r. reflexivity. }
  assert (Q5 : PK s0 s s5 m4).
  { apply (pk_same s0 s s4); try reflexivity; [exact Q4|]. intros r y Hy. apply Hk5. subst a. lia. }
  set (rr := fold_idsR (fun s p' => port_rr m4 (set_par s RPorts p' (Some a)) p') ports' s5 >>= fun s6 =>
             fold_idsR (fun s c' => cable_rr m4 (set_par s RCables c' (Some a)) c') cables' s6 >>= fun s7 =>
             fold_idsR (fun s x' => inst_rr_def m4 (set_par s RChildren x' (Some a)) x') children' s7) in *.
  injection E as <- <- <- Esnd. change (snd rr = None) in Esnd.
  match goal with |- StageOut _ _ ?g _ _ _ /\ _ => change g with (fst rr) end.
  unfold rr in *.
  destruct (fold_idsR (fun s p' => port_rr m4 (set_par s RPorts p' (Some a)) p') ports' s5) as [s6 [e|]] eqn:Ef1; cbn [bindR fst snd] in *; [discriminate|].
  destruct (fold_idsR (fun s c' => cable_rr m4 (set_par s RCables c' (Some a)) c') cables' s6) as [s7 [e|]] eqn:Ef2; cbn [bindR fst snd] in *; [discriminate|].
  destruct (fold_idsR (fun s x' => inst_rr_def m4 (set_par s RChildren x' (Some a)) x') children' s7) as [s8 [e|]] eqn:Ef3; cbn [fst snd] in *; [discriminate|].
  (* the lists the loops walk are duplicate-free and inside the fragment *)
  assert (HP' : forall p, In p ports' -> S a <= p < next s4) by (intros p Hp; destruct (R2 p Hp); lia).
  assert (HC' : forall p, In p cables' -> S a <= p < next s4) by (intros p Hp; destruct (R3 p Hp); lia).
  assert (HX' : forall p, In p children' -> S a <= p < next s4) by (intros p Hp; destruct (R4 p Hp); lia).
  assert (Hfm : forall r L, (forall p, In p L -> S a <= p < next s4) -> flat_map (kids s5 r) L = flat_map (kids s4 r) L).
  { intros r L HL. induction L as [|p L IHL]; cbn [flat_map]; [reflexivity|]. rewrite IHL by (intros q Hq; apply HL; right; exact Hq).
    rewrite (Hk5 r p) by (pose proof (HL p (or_introl eq_refl)); lia). reflexivity. }
  assert (ND1 : NoDup (flat_map (kids s5 RPins) ports')) by (rewrite (Hfm RPins ports' HP'); apply (frag_flat_nodup (S a) (next s4)); assumption).
  destruct (port_phase m4 a ports' s5 s6 Ef1 ND1) as [Rs6 [W6 [J6 [A6 B6]]]].
  assert (Hk6 : kids s6 = kids s5) by apply (rs_kids _ _ Rs6).
  assert (ND2 : NoDup (flat_map (kids s6 RWires) cables')) by (rewrite Hk6, (Hfm RWires cables' HC'); apply (frag_flat_nodup (S a) (next s4)); assumption).
  destruct (cable_phase m4 a cables' s6 s7 Ef2 ND2) as [Rs7 [W7 [J7 [A7 B7]]]].
  destruct (inst_phase m4 a children' s7 s8 Ef3 N4) as [Rs8 [W8 [P8 [A8 B8]]]].
  assert (Rs : rsame s5 s8) by (eapply rs_trans; [exact Rs6|eapply rs_trans; eassumption]).
  assert (Hkind : kind_of s8 = kind_of s4) by (rewrite (rs_kind _ _ Rs); reflexivity).
  assert (Hnext : next s8 = next s4) by (rewrite (rs_next _ _ Rs); reflexivity).
  assert (Hiref : iref s8 = iref s4) by (rewrite (rs_iref _ _ Rs); reflexivity).
  (* members of the walked lists are new and typed *)
  assert (HinP : forall y, In y (flat_map (kids s5 RPins) ports') -> S a <= y < next s4 /\ kind_of s4 y = Some KPin).
  { intros y Hy. rewrite (Hfm RPins ports' HP') in Hy. apply in_flat_map in Hy as [p [Hp Hy]].
    split; [apply (fg_kin _ _ _ G24 RPins p y (HP' p Hp) Hy)|apply (T24 RPins p y (HP' p Hp) Hy)]. }
  assert (HinW : forall y, In y (flat_map (kids s6 RWires) cables') -> S a <= y < next s4 /\ kind_of s4 y = Some KWire).
  { intros y Hy. rewrite Hk6, (Hfm RWires cables' HC') in Hy. apply in_flat_map in Hy as [p [Hp Hy]].
    split; [apply (fg_kin _ _ _ G24 RWires p y (HC' p Hp) Hy)|apply (T24 RWires p y (HC' p Hp) Hy)]. }
  (* every copied pin / wire / instance is walked *)
  assert (Hkeys : forall a0, In a0 (map fst m4) ->
            In a0 (kids s0 RChildren d) \/ In a0 (flat_map (Kb s0 RWires) (kids s0 RCables d)) \/
            In a0 (flat_map (Kb s0 RPins) (kids s0 RPorts d)) \/ a0 = d \/ In a0 (map fst m)).
  { intros a0 H. apply Ky4 in H. rewrite flat_map_single in H. destruct H as [H|H]; [left; exact H|].
    apply Ky3 in H. destruct H as [H|H]; [right; left; exact H|]. apply Ky2 in H.
    destruct H as [H|[Hdy|H]]; [right; right; left; exact H|right; right; right; left; symmetry; exact Hdy|right; right; right; right; exact H]. }
  assert (Sall : msub m m4) by (intros e He; apply Sb4, Sb3, Sb2; right; exact He).
  assert (Hnewkey : forall a0 b, In (a0, b) m4 -> a <= b -> ~ In a0 (map fst m)).
  { intros a0 b Hab0 Hge Hin. apply in_map_iff in Hin as [[a1 b1] [E1 Hin]]. cbn in E1. subst a1.
    pose proof (memo_fun m4 a0 b b1 (pk_fun _ _ _ _ Q4) Hab0 (Sall _ Hin)) as ->.
    destruct (pk_rng _ _ _ _ PK0 a0 b1 Hin) as [_ [_ Hlt]]. subst a. lia. }
  assert (CovP : forall a0 b, In (a0, b) m4 -> a <= b -> kind_of s0 a0 = Some KPin -> In b (flat_map (kids s5 RPins) ports')).
  { intros a0 b Hab0 Hge Hk0. assert (Hin : In a0 (map fst m4)) by (apply in_map_iff; exists (a0, b); split; [reflexivity|exact Hab0]).
    destruct (Hkeys a0 Hin) as [H|[H|[H|[H|H]]]]; [| | | |exfalso; apply (Hnewkey a0 b Hab0 Hge H)].
    - rewrite (src_kind_child s0 HT _ _ _ H) in Hk0. discriminate.
    - destruct (bundles_kinds s0 HT RCables RWires d _ H) as [H'|H']; rewrite Hk0 in H'; discriminate.
    - apply in_flat_map in H as [p [Hp Hy]]. destruct Hy as [<-|Hy]; [rewrite (src_kind_child s0 HT _ _ _ Hp) in Hk0; discriminate|].
      destruct (forall2_in_r _ _ _ Fa2 p Hp) as [p' [Hp' [Hpm Himg]]]. destruct (proj1 Himg a0 Hy) as [i' [Hi'm Hi'k]].
      assert (Eb : i' = b) by (apply (memo_fun m4 a0 i' b (pk_fun _ _ _ _ Q4)); [apply Sb4, Sb3; exact Hi'm|exact Hab0]). subst i'.
      apply in_flat_map. exists p'. split; [exact Hp'|]. rewrite (Hk5 RPins p') by (pose proof (HP' p' Hp'); lia).
      destruct Ks3 as [_ Ks3]. destruct Ks4 as [_ Ks4]. rewrite Ks4, Ks3 by (pose proof (R2 p' Hp'); lia). exact Hi'k.
    - subst a0. rewrite Hkd in Hk0. discriminate. }
  assert (CovW : forall a0 b, In (a0, b) m4 -> a <= b -> kind_of s0 a0 = Some KWire -> In b (flat_map (kids s6 RWires) cables')).
  { intros a0 b Hab0 Hge Hk0. assert (Hin : In a0 (map fst m4)) by (apply in_map_iff; exists (a0, b); split; [reflexivity|exact Hab0]).
    destruct (Hkeys a0 Hin) as [H|[H|[H|[H|H]]]]; [| | | |exfalso; apply (Hnewkey a0 b Hab0 Hge H)].
    - rewrite (src_kind_child s0 HT _ _ _ H) in Hk0. discriminate.
    - apply in_flat_map in H as [p [Hp Hy]]. destruct Hy as [<-|Hy]; [rewrite (src_kind_child s0 HT _ _ _ Hp) in Hk0; discriminate|].
      destruct (forall2_in_r _ _ _ Fa3 p Hp) as [p' [Hp' [Hpm Himg]]]. destruct (proj1 Himg a0 Hy) as [i' [Hi'm Hi'k]].
      assert (Eb : i' = b) by (apply (memo_fun m4 a0 i' b (pk_fun _ _ _ _ Q4)); [apply Sb4; exact Hi'm|exact Hab0]). subst i'.
      apply in_flat_map. exists p'. split; [exact Hp'|]. rewrite Hk6, (Hk5 RWires p') by (pose proof (HC' p' Hp'); lia).
      destruct Ks4 as [_ Ks4]. rewrite Ks4 by (pose proof (R3 p' Hp'); lia). exact Hi'k.
    - destruct (bundles_kinds s0 HT RPorts RPins d _ H) as [H'|H']; rewrite Hk0 in H'; discriminate.
    - subst a0. rewrite Hkd in Hk0. discriminate. }
  assert (CovX : forall a0 b, In (a0, b) m4 -> a <= b -> kind_of s0 a0 = Some KInstance -> In b children').
  { intros a0 b Hab0 Hge Hk0. assert (Hin : In a0 (map fst m4)) by (apply in_map_iff; exists (a0, b); split; [reflexivity|exact Hab0]).
    destruct (Hkeys a0 Hin) as [H|[H|[H|[H|H]]]]; [| | | |exfalso; apply (Hnewkey a0 b Hab0 Hge H)].
    - destruct (forall2_in_r _ _ _ Fa4 a0 H) as [b' [Hb' [Hm _]]]. rewrite (memo_fun m4 a0 b b' (pk_fun _ _ _ _ Q4) Hab0 Hm). exact Hb'.
    - destruct (bundles_kinds s0 HT RCables RWires d _ H) as [H'|H']; rewrite Hk0 in H'; discriminate.
    - destruct (bundles_kinds s0 HT RPorts RPins d _ H) as [H'|H']; rewrite Hk0 in H'; discriminate.
    - subst a0. rewrite Hkd in Hk0. discriminate. }
  assert (Hk8 : kids s8 = kids s5) by apply (rs_kids _ _ Rs).
  assert (Hp5 : kids s5 RPorts a = ports') by (unfold s5; cbn; apply upd_same).
  assert (Hc5 : kids s5 RCables a = cables') by (unfold s5; cbn; apply upd_same).
  assert (Hx5 : kids s5 RChildren a = children') by (unfold s5; cbn; apply upd_same).
  assert (Hkeylt : forall a0 b, In (a0, b) m4 -> a0 < next s0) by (intros a0 b H; apply (pk_rng _ _ _ _ Q4 a0 b H)).
  assert (Hak : a = next s) by exact Ea0.
  split; [|split; [|split; [|split; [|split; [|split; [|split]]]]]].
  - constructor.
    + exact Sall.
    + intro y. unfold def_objects. split.
      * intro H. destruct (Hkeys y H) as [H1|[H1|[H1|[H1|H1]]]]; [left; right; apply in_or_app; right; apply in_or_app; right; exact H1
          |left; right; apply in_or_app; right; apply in_or_app; left; exact H1|left; right; apply in_or_app; left; exact H1|left; left; symmetry; exact H1|right; exact H1].
      * intros [[<-|H]|H].
        -- apply Ky4. right. apply Ky3. right. apply Ky2. right. left. reflexivity.
        -- apply in_app_or in H. destruct H as [H|H]; [apply Ky4; right; apply Ky3; right; apply Ky2; left; exact H|].
           apply in_app_or in H. destruct H as [H|H]; [apply Ky4; right; apply Ky3; left; exact H|apply Ky4; left; rewrite flat_map_single; exact H].
        -- apply Ky4. right. apply Ky3. right. apply Ky2. right. right. exact H.
    + intros a0 b H. rewrite Hnext. apply (pk_rng _ _ _ _ Q4 a0 b H).
    + intros a0 b H Hn. rewrite <- Hak.
      destruct (vn_clone_each inst_clone1 vn_inst km_inst_clone1 _ _ _ _ _ _ E4 a0 b H) as [H4|H4]; [|lia].
      destruct (vn_clone_each cable_clone1 vn_cable km_cable_clone1 _ _ _ _ _ _ E3 a0 b H4) as [H3|H3]; [|lia].
      destruct (vn_clone_each port_clone1 vn_port km_port_clone1 _ _ _ _ _ _ E2 a0 b H3) as [H2|H2]; [|lia].
      destruct H2 as [H2|H2]; [injection H2 as <- <-; lia|contradiction].
    + apply (pk_fun _ _ _ _ Q4).
    + apply (pk_inj _ _ _ _ Q4).
    + intros a0 b H. rewrite Hkind. apply (pk_kind _ _ _ _ Q4 a0 b H).
    + intros y Hy. rewrite <- Hak in Hy. destruct (pk_old _ _ _ _ Q5 y ltac:(subst a; exact Hy)) as [O1 [O2 [O3 [O4 O5]]]]. rewrite Hkind, Hiref.
      rewrite W8, W7, (B6 y) by (intro H; destruct (HinP y H); lia).
      rewrite P8, (B7 y), W6 by (intro H; destruct (HinW y H); lia).
      rewrite (B8 y), J7, J6 by (intro H; pose proof (HX' y H); lia).
      repeat split; assumption.
    + intros a0 b H Hge Hk0. rewrite <- Hak in Hge. rewrite W8, W7. rewrite <- (A6 b (CovP a0 b H Hge Hk0)). f_equal.
      change (ipwire s5 b) with (ipwire s4 b). symmetry. apply (pk_pin _ _ _ _ Q4 a0 b H); [subst a; exact Hge|]. rewrite (pk_kind _ _ _ _ Q4 a0 b H). exact Hk0.
    + intros a0 b H Hge Hk0. rewrite <- Hak in Hge. rewrite P8. rewrite <- (A7 b (CovW a0 b H Hge Hk0)). rewrite W6.
      change (wpins s5 b) with (wpins s4 b). rewrite (pk_wire _ _ _ _ Q4 a0 b H) by (try (subst a; exact Hge); rewrite (pk_kind _ _ _ _ Q4 a0 b H); exact Hk0).
      apply map_opt_ext. intro q. symmetry. apply mpin_old; [exact Hkeylt|].
      intros y Hy. rewrite J6. change (ipins s5 y) with (ipins s4 y).
      destruct (pk_old _ _ _ _ Q4 y ltac:(lia)) as [_ [_ [-> _]]]. apply (pk_src _ _ _ _ Q4 y Hy).
    + intros a0 b H Hge Hk0. rewrite <- Hak in Hge. rewrite <- (A8 b (CovX a0 b H Hge Hk0)). rewrite J7, J6, Hiref.
      change (ipins s5 b) with (ipins s4 b).
      destruct (pk_inst _ _ _ _ Q4 a0 b H) as [X1 X2]; [subst a; exact Hge|rewrite (pk_kind _ _ _ _ Q4 a0 b H); exact Hk0|]. rewrite X1, X2. split; reflexivity.
    + intros y Hy. rewrite Hkind, Hiref. destruct (pk_def _ _ _ _ Q5 y Hy) as [D1 [D2 D3]]. change (kind_of s5 y) with (kind_of s4 y) in D1, D2, D3.
      change (iref s5 y) with (iref s4 y) in D3.
      split; [|split]; intro Hk.
      * rewrite W8, W7, (B6 y); [apply D1; exact Hk|]. intro Hin. destruct (HinP y Hin) as [_ Hk']. apply Hk. exact Hk'.
      * rewrite P8, (B7 y), W6; [apply D2; exact Hk|]. intro Hin. destruct (HinW y Hin) as [_ Hk']. apply Hk. exact Hk'.
      * rewrite (B8 y), J7, J6; [apply D3; exact Hk|]. intro Hin. apply Hk. apply K4. exact Hin.
    + intros y Hy Hk. rewrite Hkind in Hk. destruct (Nat.lt_ge_cases y (next s4)) as [Hlt|Hge].
      * apply (pk_cov _ _ _ _ Q5 y (conj Hy Hlt) Hk).
      * rewrite (pk_fresh _ _ _ _ Q4 y Hge) in Hk. destruct Hk as [H|[H|H]]; discriminate.
    + intros r y Hy. rewrite (rs_kids _ _ Rs). apply (pk_kids _ _ _ _ Q5 r y Hy).
    + intros y Hy. rewrite Hkind. apply (pk_fresh _ _ _ _ Q4). rewrite <- Hnext. exact Hy.
  - reflexivity.
  - apply Sb4, Sb3, Sb2. left. reflexivity.
  - intros p Hp. destruct (forall2_in_r _ _ _ Fa2 p Hp) as [p' [Hp' [Hpm Himg]]]. exists p'.
    split; [apply Sb4, Sb3; exact Hpm|]. split; [rewrite Hk8, Hp5; exact Hp'|].
    assert (Hkp' : kids s8 RPins p' = kids s2 RPins p').
    { rewrite Hk8, (Hk5 RPins p') by (pose proof (HP' p' Hp'); lia).
      destruct Ks3 as [_ Ks3]. destruct Ks4 as [_ Ks4]. rewrite Ks4, Ks3 by (pose proof (R2 p' Hp'); lia). reflexivity. }
    split; [|split].
    + intros i Hi. destruct (proj1 Himg i Hi) as [i' [Hi'm Hi'k]]. exists i'. split; [apply Sb4, Sb3; exact Hi'm|]. rewrite Hkp'. exact Hi'k.
    + intros i' Hi'. rewrite Hkp' in Hi'. destruct (proj1 (proj2 Himg) i' Hi') as [i [Him Hik]]. exists i. split; [apply Sb4, Sb3; exact Him|exact Hik].
    + rewrite Hkp'. generalize (proj2 (proj2 Himg)). apply forall2_mono. intros a0 b0 H. apply Sb4, Sb3. exact H.
  - intros p Hp. destruct (forall2_in_r _ _ _ Fa3 p Hp) as [p' [Hp' [Hpm Himg]]]. exists p'.
    split; [apply Sb4; exact Hpm|]. split; [rewrite Hk8, Hc5; exact Hp'|].
    assert (Hkp' : kids s8 RWires p' = kids s3 RWires p').
    { rewrite Hk8, (Hk5 RWires p') by (pose proof (HC' p' Hp'); lia).
      destruct Ks4 as [_ Ks4]. rewrite Ks4 by (pose proof (R3 p' Hp'); lia). reflexivity. }
    split; [|split].
    + intros i Hi. destruct (proj1 Himg i Hi) as [i' [Hi'm Hi'k]]. exists i'. split; [apply Sb4; exact Hi'm|]. rewrite Hkp'. exact Hi'k.
    + intros i' Hi'. rewrite Hkp' in Hi'. destruct (proj1 (proj2 Himg) i' Hi') as [i [Him Hik]]. exists i. split; [apply Sb4; exact Him|exact Hik].
    + rewrite Hkp'. generalize (proj2 (proj2 Himg)). apply forall2_mono. intros a0 b0 H. apply Sb4. exact H.
  - intros p Hp. destruct (forall2_in_r _ _ _ Fa4 p Hp) as [p' [Hp' [Hpm _]]]. exists p'.
    split; [exact Hpm|]. rewrite Hk8, Hx5. exact Hp'.
  - intros p' Hp'. rewrite Hk8, Hp5 in Hp'.
    destruct (forall2_in_l _ _ _ Fa2 p' Hp') as [p [Hp [Hpm _]]]. exists p. split; [apply Sb4, Sb3; exact Hpm|exact Hp].
  - split; [|split; [|split]].
    + intros p' Hp'. rewrite Hk8, Hx5 in Hp'.
      destruct (forall2_in_l _ _ _ Fa4 p' Hp') as [p [Hp [Hpm _]]]. exists p. split; [exact Hpm|exact Hp].
    + rewrite Hk8, Hp5. revert Fa2. apply forall2_mono. intros a0 b0 [H _]. apply Sb4, Sb3. exact H.
    + rewrite Hk8, Hc5. revert Fa3. apply forall2_mono. intros a0 b0 [H _]. apply Sb4. exact H.
    + rewrite Hk8, Hx5. revert Fa4. apply forall2_mono. intros a0 b0 [H _]. exact H.
Qed.
