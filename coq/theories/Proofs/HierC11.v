(* C11: the statements of Proofs/HierEnum.v and Proofs/HierValid.v under the names used by the
   property file (soundness / completeness / duplicate-freeness of the recursive enumeration of
   hierarchical instances, and the shared well-formedness record). *)
From Coq Require Import List Arith Bool.
From SV Require Import Base.Base IR.State IR.NS IR.Ops Proofs.Inv1a Proofs.Inv2a Proofs.C01_lemmas
  Hier.Paths Hier.Enum Proofs.HierValid Proofs.HierEnum.
Import ListNotations.

(* what the enumeration theorems need of a heap: containers and back pointers agree (C01), reference
   sets mirror Instance.reference (C02), ids are well-kinded and allocated, no instantiation cycle *)
Record WF (s : state) : Prop := mkWF {
  wf_inv1 : Inv1a s;
  wf_inv2 : Inv2a s;
  wf_kinds : WFk s;
  wf_acyclic : acyclic s
}.

Lemma enum_instances_total : forall s n t, WF s -> top s n = Some t ->
  exists l, get_hinstances_netlist s n true = Some l.
Proof.
  intros s n t [I1 _ K A] Ht. destruct (enum_instances_spec s n t I1 K A Ht) as (l & E & _). eauto.
Qed.

Theorem enum_instances_sound : forall s n t l p, WF s -> top s n = Some t ->
  get_hinstances_netlist s n true = Some l -> In p l -> is_rpath s t p /\ p <> [t].
Proof.
  intros s n t l p [I1 _ K A] Ht E Hp. destruct (enum_instances_spec s n t I1 K A Ht) as (l' & E' & _ & S).
  rewrite E in E'. inversion E'; subst. apply S. exact Hp.
Qed.

Theorem enum_instances_complete : forall s n t l p, WF s -> top s n = Some t ->
  get_hinstances_netlist s n true = Some l -> is_rpath s t p -> p <> [t] -> In p l.
Proof.
  intros s n t l p [I1 _ K A] Ht E Hp Hne. destruct (enum_instances_spec s n t I1 K A Ht) as (l' & E' & _ & S).
  rewrite E in E'. inversion E'; subst. apply S. split; assumption.
Qed.

Theorem enum_instances_nodup : forall s n t l, WF s -> top s n = Some t ->
  get_hinstances_netlist s n true = Some l -> NoDup l.
Proof.
  intros s n t l [I1 _ K A] Ht E. destruct (enum_instances_spec s n t I1 K A Ht) as (l' & E' & N & _).
  rewrite E in E'. inversion E'; subst. exact N.
Qed.

(* every reference returned by the recursive instance enumeration is reported valid, when the top
   instance is a proper root *)
Theorem enum_instances_valid : forall s n t l p, WF s -> top s n = Some t -> is_root s t ->
  get_hinstances_netlist s n true = Some l -> In p l -> is_valid s p = true.
Proof.
  intros s n t l p W Ht Hr E Hp. destruct (enum_instances_sound s n t l p W Ht E Hp) as [H _].
  destruct W as [I1 I2 K A]. apply (is_valid_iff s p I1 I2 K). apply hr_inst with t. split; assumption.
Qed.

(* the hypotheses are satisfiable by a non-trivial heap (Proofs/HierEnum.ex_state: top instance 4 of
   definition 2, which contains the child 5 of definition 3) *)
Lemma ex_inv2a : Inv2a ex_state.
Proof.
  constructor.
  - intros n d. cbn.
    destruct d as [|[|[|[|d]]]]; destruct n as [|[|[|[|[|[|n]]]]]]; cbn;
      split; intro H; try reflexivity; try discriminate; try contradiction;
      try (repeat destruct H as [H|H]; try discriminate H; contradiction);
      try (left; reflexivity).
  - intros d. cbn. destruct d as [|[|[|[|d]]]]; cbn;
      repeat (constructor; cbn; try (intros [H|H]; [discriminate H|exact H]); try (intros []));
      try (intro H; exact H).
Qed.

Example WF_satisfiable : exists s, WF s /\ exists n t, top s n = Some t /\ is_root s t /\ sub s t <> [].
Proof.
  exists ex_state. split.
  - constructor; [exact ex_inv1a|exact ex_inv2a|exact ex_wfk|exact ex_acyclic].
  - exists 0, 4. split; [reflexivity|]. split; [exists 0; split; reflexivity|]. cbn. discriminate.
Qed.
