(* Proofs about stage A of Query/Filter.v (per parent: absolute pattern -> lookup, otherwise scan of
   the children, with the shared [found] set): what is yielded, that nothing is yielded twice, and
   that the fast lookup and the linear scan give the same result when they agree (C10). *)
From Coq Require Import List NArith Arith Bool Lia Permutation.
From SV Require Import Base.Base Query.Glob Query.Patterns Query.Filter.
Import ListNotations.

(* ------------------------------------------------------------------------------------------ *)
(* list helpers *)

Lemma NoDup_app_iff {A} (a b : list A) :
  NoDup (a ++ b) <-> NoDup a /\ NoDup b /\ (forall x, In x a -> ~ In x b).
Proof.
  induction a as [|x a IH]; cbn.
  - split; [intro H; repeat split; [constructor|exact H|tauto]|tauto].
  - split.
    + intro H. inversion H as [|? ? Hx Hn]; subst. apply IH in Hn as (Ha & Hb & Hd).
      repeat split; [constructor; [|exact Ha]|exact Hb|].
      * intro Hi. apply Hx. apply in_or_app. left. exact Hi.
      * intros y [<-|Hy]; [|apply Hd, Hy]. intro Hi. apply Hx. apply in_or_app. right. exact Hi.
    + intros (Ha & Hb & Hd). inversion Ha as [|? ? Hx Hn]; subst. constructor.
      * intro Hi. apply in_app_or in Hi as [Hi|Hi]; [contradiction|]. apply (Hd x); auto.
      * apply IH. repeat split; auto.
Qed.

Lemma existsb_perm {A} (f : A -> bool) l l' : Permutation l l' -> existsb f l = existsb f l'.
Proof.
  intro H. destruct (existsb f l) eqn:E; symmetry.
  - apply existsb_exists in E as (x & Hx & Hf). apply existsb_exists. exists x. split; [|exact Hf].
    eapply Permutation_in; eauto.
  - destruct (existsb f l') eqn:E'; [|reflexivity]. apply existsb_exists in E' as (x & Hx & Hf).
    assert (existsb f l = true) by (apply existsb_exists; exists x; split;
      [eapply Permutation_in; [apply Permutation_sym; eauto|exact Hx]|exact Hf]). congruence.
Qed.

Section StageA.
Variable key : id -> option str.
Variable fold : id -> bool.
Variable mt : str -> str -> bool.
Variable ab : str -> bool.

Notation val := (val key).
Notation has_key := (has_key key).
Notation em := (em key mt).
Notation xeq := (xeq key fold).
Notation sm := (sm key fold mt ab).
Notation any_match := (any_match key fold mt ab).
Notation scan_children := (scan_children key mt).
Notation stageA_pattern := (stageA_pattern key mt ab).
Notation stageA_parent := (stageA_parent key mt ab).
Notation stageA := (stageA key mt ab).
Notation scan_lookup := (scan_lookup key fold).

(* get_instances only scans the children that carry the key *)
Definition keyok (nk : bool) (e : id) : Prop := negb nk || has_key e = true.

Lemma any_match_cons p ps e : any_match (p :: ps) e = sm p e || any_match ps e.
Proof. reflexivity. Qed.

(* the selection test [sm]: an absolute pattern by [xeq], the others by [em] *)
Lemma sm_abs p e : ab p = true -> sm p e = xeq p e.
Proof. intro H. unfold Filter.sm. rewrite H. reflexivity. Qed.

Lemma sm_nonabs p e : ab p = false -> sm p e = em p e.
Proof. intro H. unfold Filter.sm. rewrite H. reflexivity. Qed.

Lemma xeq_nofold p e : fold e = false -> (xeq p e = true <-> val e = p).
Proof.
  intro H. unfold Filter.xeq. rewrite H, str_eqb_spec. split; intro; subst; reflexivity.
Qed.

Lemma xeq_fold p e : fold e = true -> (xeq p e = true <-> lower (val e) = lower p).
Proof.
  intro H. unfold Filter.xeq. rewrite H, str_eqb_spec. split; intro E; rewrite E; reflexivity.
Qed.

Lemma lower_nil_inv (p : str) : lower p = [] -> p = [].
Proof. destruct p; [reflexivity|discriminate]. Qed.

(* an element without the key has the value "": no non-empty exact pattern equals it *)
Lemma xeq_nokey p e : p <> [] -> has_key e = false -> xeq p e = false.
Proof.
  unfold Filter.has_key, Filter.xeq, Filter.val. destruct (key e); [discriminate|]. intros Hp _.
  cbn [value_or_empty]. destruct (fold e).
  - destruct (str_eqb (lower p) (lower [])) eqn:E; [|reflexivity]. apply str_eqb_spec in E.
    apply lower_nil_inv in E. contradiction.
  - destruct (str_eqb p []) eqn:E; [|reflexivity]. apply str_eqb_spec in E. contradiction.
Qed.

Lemma any_match_perm pats pats' e : Permutation pats pats' -> any_match pats e = any_match pats' e.
Proof. apply existsb_perm. Qed.

(* ---- scan of the children for one pattern ---- *)

Lemma scan_children_spec nk ch p : forall found e,
  In e (scan_children nk ch p found) <->
  In e ch /\ keyok nk e /\ ~ In e found /\ em p e = true.
Proof.
  unfold keyok. induction ch as [|c cs IH]; intros found e; cbn [Filter.scan_children].
  - cbn. tauto.
  - destruct ((negb nk || has_key c) && negb (memb c found) && em p c) eqn:E.
    + apply andb_true_iff in E as [E E3]. apply andb_true_iff in E as [E1 E2].
      apply negb_true_iff, memb_false in E2. cbn [In]. rewrite IH. cbn [In]. split.
      * intros [<-|(H1 & H2 & H3 & H4)]; [tauto|]. repeat split; auto.
      * intros ([<-|H1] & H2 & H3 & H4); [left; reflexivity|].
        destruct (Nat.eq_dec c e) as [->|Hne]; [left; reflexivity|right].
        repeat split; auto. intros [Hc|Hc]; [congruence|contradiction].
    + rewrite IH. cbn [In]. split; [tauto|]. intros ([<-|H1] & H2 & H3 & H4); [|tauto]. exfalso.
      apply memb_false in H3. rewrite H2, H3, H4 in E. discriminate.
Qed.

Lemma scan_children_NoDup nk ch p : forall found, NoDup (scan_children nk ch p found).
Proof.
  induction ch as [|c cs IH]; intro found; cbn [Filter.scan_children]; [constructor|].
  destruct ((negb nk || has_key c) && negb (memb c found) && em p c); [|apply IH].
  constructor; [|apply IH]. rewrite scan_children_spec. intros (_ & _ & H & _). apply H. left. reflexivity.
Qed.

(* ---- one pattern on one parent ---- *)

Lemma yield_new_spec es : forall found e, In e (yield_new es found) <-> In e es /\ ~ In e found.
Proof.
  induction es as [|x rest IH]; intros found e; cbn [yield_new]; [cbn; tauto|].
  destruct (memb x found) eqn:Em.
  - apply memb_In in Em. rewrite IH. cbn [In]. split; [tauto|]. intros [[<-|H] Hn]; tauto.
  - apply memb_false in Em. cbn [In]. rewrite IH. cbn [In]. split.
    + intros [<-|[H1 H2]]; tauto.
    + intros [[<-|H] Hn]; [tauto|]. destruct (Nat.eq_dec x e); [tauto|]. right. tauto.
Qed.

Lemma yield_new_NoDup es : forall found, NoDup (yield_new es found).
Proof.
  induction es as [|x rest IH]; intro found; cbn [yield_new]; [constructor|].
  destruct (memb x found); [apply IH|]. constructor; [|apply IH].
  rewrite yield_new_spec. cbn [In]. tauto.
Qed.

Lemma stageA_pattern_fresh nk lk ch p found e :
  In e (stageA_pattern nk lk ch p found) -> ~ In e found.
Proof.
  unfold Filter.stageA_pattern. destruct (ab p).
  - rewrite yield_new_spec. tauto.
  - rewrite scan_children_spec. tauto.
Qed.

Lemma stageA_pattern_NoDup nk lk ch p found : NoDup (stageA_pattern nk lk ch p found).
Proof.
  unfold Filter.stageA_pattern. destruct (ab p); [apply yield_new_NoDup|apply scan_children_NoDup].
Qed.

(* the lookup of this parent answers exactly the selected children, for absolute non-empty patterns *)
Definition parent_ok (nk : bool) (lk : str -> list id) (ch : list id) : Prop :=
  forall p e, ab p = true -> p <> [] ->
    (In e (lk p) <-> In e ch /\ keyok nk e /\ sm p e = true).

Definition good_pats (pats : list str) : Prop := forall p, In p pats -> ab p = true -> p <> [].

Lemma stageA_pattern_spec nk lk ch p found e :
  parent_ok nk lk ch -> (ab p = true -> p <> []) ->
  (In e (stageA_pattern nk lk ch p found) <->
   In e ch /\ keyok nk e /\ ~ In e found /\ sm p e = true).
Proof.
  intros Hok Hp. unfold Filter.stageA_pattern. destruct (ab p) eqn:Ea.
  - specialize (Hp eq_refl). rewrite yield_new_spec, (Hok p e Ea Hp). tauto.
  - rewrite scan_children_spec. unfold Filter.sm. rewrite Ea. tauto.
Qed.

(* ---- all patterns on one parent ---- *)

Lemma stageA_parent_fresh nk lk ch pats : forall found e,
  In e (stageA_parent nk lk ch pats found) -> ~ In e found.
Proof.
  induction pats as [|p ps IH]; intros found e; cbn [Filter.stageA_parent]; [intros []|].
  intro H. apply in_app_or in H as [H|H].
  - eapply stageA_pattern_fresh; eauto.
  - apply IH in H. intro Hf. apply H. apply in_or_app. right. exact Hf.
Qed.

Lemma stageA_parent_NoDup nk lk ch pats : forall found, NoDup (stageA_parent nk lk ch pats found).
Proof.
  induction pats as [|p ps IH]; intro found; cbn [Filter.stageA_parent]; [constructor|].
  apply NoDup_app_iff. split; [apply stageA_pattern_NoDup|]. split; [apply IH|].
  intros x Hx Hr. apply stageA_parent_fresh in Hr. apply Hr. apply in_or_app. left. exact Hx.
Qed.

Lemma stageA_parent_spec nk lk ch pats : parent_ok nk lk ch -> good_pats pats -> forall found e,
  In e (stageA_parent nk lk ch pats found) <->
  In e ch /\ keyok nk e /\ ~ In e found /\ any_match pats e = true.
Proof.
  intros Hok. induction pats as [|p ps IH]; intros Hg found e; cbn [Filter.stageA_parent].
  - cbn. split; [intros []|]. intros (_ & _ & _ & H). discriminate.
  - assert (Hg' : good_pats ps) by (intros q Hq; apply Hg; right; exact Hq).
    assert (Hp : ab p = true -> p <> []) by (apply Hg; left; reflexivity).
    rewrite in_app_iff, (IH Hg'), (stageA_pattern_spec nk lk ch p found e Hok Hp), any_match_cons.
    rewrite in_app_iff. rewrite (stageA_pattern_spec nk lk ch p found e Hok Hp).
    destruct (sm p e) eqn:E; cbn [orb].
    + split; [|tauto]. intros [H|(H1 & H2 & H3 & H4)]; [tauto|]. repeat split; auto.
    + split.
      * intros [(_ & _ & _ & H)|(H1 & H2 & H3 & H4)]; [discriminate|]. repeat split; auto.
      * intros (H1 & H2 & H3 & H4). right. repeat split; auto. intros [(_ & _ & _ & H)|H]; [discriminate|auto].
Qed.

(* ---- all parents ---- *)

Definition cands (parents : list ((str -> list id) * list id)) : list id := concat (map snd parents).

Lemma stageA_fresh nk parents pats : forall found e,
  In e (stageA nk parents pats found) -> ~ In e found.
Proof.
  induction parents as [|[lk ch] rest IH]; intros found e; cbn [Filter.stageA]; [intros []|].
  intro H. apply in_app_or in H as [H|H].
  - eapply stageA_parent_fresh; eauto.
  - apply IH in H. intro Hf. apply H. apply in_or_app. right. exact Hf.
Qed.

(* stage A never yields an element twice - whatever the lookups answer *)
Theorem stageA_NoDup nk parents pats : forall found, NoDup (stageA nk parents pats found).
Proof.
  induction parents as [|[lk ch] rest IH]; intro found; cbn [Filter.stageA]; [constructor|].
  apply NoDup_app_iff. split; [apply stageA_parent_NoDup|]. split; [apply IH|].
  intros x Hx Hr. apply stageA_fresh in Hr. apply Hr. apply in_or_app. left. exact Hx.
Qed.

Theorem stageA_spec nk parents pats :
  Forall (fun pr => parent_ok nk (fst pr) (snd pr)) parents -> good_pats pats -> forall found e,
  In e (stageA nk parents pats found) <->
  In e (cands parents) /\ keyok nk e /\ ~ In e found /\ any_match pats e = true.
Proof.
  intros Hall Hg. induction Hall as [|[lk ch] rest Hok _ IH]; intros found e; cbn [Filter.stageA].
  - cbn. tauto.
  - cbn [fst snd] in Hok. unfold cands. cbn [map concat]. fold (cands rest).
    rewrite !in_app_iff, IH, (stageA_parent_spec nk lk ch pats Hok Hg), in_app_iff,
      (stageA_parent_spec nk lk ch pats Hok Hg).
    split.
    + intros [H|(H1 & H2 & H3 & H4)]; [tauto|]. repeat split; auto.
    + intros ([H1|H1] & H2 & H3 & H4); [left; tauto|].
      destruct (in_dec Nat.eq_dec e ch) as [Hc|Hc]; [left; tauto|]. right. repeat split; auto.
      intros [(Hx & _)|Hx]; auto.
Qed.

(* ---- the linear scan of global_service.lookup answers like [parent_ok] demands: every child
        carrying the value (before the repair of finding C13-K5 only the first one, which needed
        sibling-value uniqueness) ---- *)

Definition uniq_keys (ch : list id) : Prop :=
  forall c1 c2 w, In c1 ch -> In c2 ch -> key c1 = Some w -> key c2 = Some w -> c1 = c2.

(* what the scan answers: the children carrying the key whose value equals the pattern *)
Lemma scan_lookup_spec ch p e :
  In e (scan_lookup ch p) <-> In e ch /\ has_key e = true /\ xeq p e = true.
Proof. unfold Filter.scan_lookup. rewrite filter_In, andb_true_iff. tauto. Qed.

Lemma scan_lookup_ok nk ch : parent_ok nk (scan_lookup ch) ch.
Proof.
  intros p e Ha Hp. rewrite scan_lookup_spec, (sm_abs p e Ha). split.
  - intros (H1 & H2 & H3). repeat split; auto. unfold keyok. rewrite H2. apply orb_true_r.
  - intros (H1 & _ & H3). repeat split; auto. destruct (has_key e) eqn:E; [reflexivity|].
    rewrite (xeq_nokey p e Hp E) in H3. discriminate.
Qed.

(* lookup_ok: the registered fast lookup agrees with the scan (follows from the invariant of property C10) *)
Definition lookup_ok (lk : str -> list id) (ch : list id) : Prop := forall p, lk p = scan_lookup ch p.

Lemma lookup_ok_parent_ok nk lk ch : lookup_ok lk ch -> parent_ok nk lk ch.
Proof.
  intros Hl p e Ha Hp. rewrite Hl. apply scan_lookup_ok; assumption.
Qed.

End StageA.

(* ---- fast path = scan path ---- *)

Section Ext.
Variable key : id -> option str.
Variable mt : str -> str -> bool.
Variable ab : str -> bool.

Definition same_answers (a b : (str -> list id) * list id) : Prop :=
  snd a = snd b /\ forall p, fst a p = fst b p.

Lemma stageA_parent_ext nk lk lk' ch pats : (forall p, lk p = lk' p) -> forall found,
  stageA_parent key mt ab nk lk ch pats found = stageA_parent key mt ab nk lk' ch pats found.
Proof.
  intro H. induction pats as [|p ps IH]; intro found; cbn [stageA_parent]; [reflexivity|].
  unfold stageA_pattern. rewrite H, IH. reflexivity.
Qed.

Theorem stageA_ext nk parents parents' pats : Forall2 same_answers parents parents' -> forall found,
  stageA key mt ab nk parents pats found = stageA key mt ab nk parents' pats found.
Proof.
  induction 1 as [|[lk ch] [lk' ch'] rest rest' [Hc Hl] _ IH]; intro found; [reflexivity|].
  cbn [fst snd] in Hc, Hl. subst ch'. cbn [stageA].
  rewrite (stageA_parent_ext nk lk lk' ch pats Hl), IH. reflexivity.
Qed.
End Ext.
