(* Engine `verilog`, document-level reader: the structural invariant of the reader's state and its preservation
   by every construct, for ALL documents (no typing hypothesis):
     per definition  - every port / cable bundle is non-empty with pairwise different identities (wfb),
                       named ports and cables have pairwise different names, instance names are pairwise
                       different, no pin is connected twice;
     globally        - definition names are pairwise different, every instance references a held definition,
                       the top candidates are held definitions. *)
From Coq Require Import List ZArith Bool Arith Lia.
From SV Require Import Base.Base Fmt.VBits Fmt.VTop Fmt.VDoc Fmt.VElab
  Proofs.VerilogLists Proofs.VerilogGrow Proofs.VElabBase.
Import ListNotations.

Definition named_distinct (ps : list eport) : Prop :=
  forall i j pi pj n, nth_error ps i = Some pi -> nth_error ps j = Some pj ->
                      ep_name pi = Some n -> ep_name pj = Some n -> i = j.

Record DInv (d : edef) : Prop := {
  di_ports : Forall (fun p => wfb (ep_b p)) (ed_ports d);
  di_pnames : named_distinct (ed_ports d);
  di_cables : Forall (fun c => wfb (ec_b c)) (ed_cables d);
  di_cnames : NoDup (map ec_name (ed_cables d));
  di_inames : NoDup (map ei_name (ed_insts d));
  di_conn : NoDup (map fst (ed_conn d)) }.

Definition drefs (d : edef) : list dref := map ei_ref (ed_insts d).

(* what a definition-level step may do *)
Record dstep (d d' : edef) : Prop := {
  ds_name : ed_name d' = ed_name d;
  ds_inv : DInv d -> DInv d';
  ds_refs : forall n, In (RName n) (drefs d') -> In (RName n) (drefs d) }.

Lemma dstep_refl d : dstep d d.
Proof. constructor; auto. Qed.

Lemma dstep_trans a b c : dstep a b -> dstep b c -> dstep a c.
Proof.
  intros [N1 I1 R1] [N2 I2 R2]. constructor; [congruence|auto|auto].
Qed.

Lemma dinv_empty n : DInv (empty_def n).
Proof.
  constructor; cbn; try constructor.
  intros i j pi pj m Hi. destruct i; discriminate.
Qed.

(* ---------- ports ---------- *)
Lemma find_port_none_distinct name d : find_port name d = None -> named_distinct (ed_ports d) ->
  forall b dir, named_distinct (ed_ports d ++ [{| ep_name := Some name; ep_dir := dir; ep_b := b |}]).
Proof.
  intros F Hd b dir i j pi pj n Hi Hj Ni Nj.
  assert (L : forall k p, nth_error (ed_ports d ++ [{| ep_name := Some name; ep_dir := dir; ep_b := b |}]) k = Some p ->
              (k < length (ed_ports d))%nat /\ nth_error (ed_ports d) k = Some p \/
              k = length (ed_ports d) /\ p = {| ep_name := Some name; ep_dir := dir; ep_b := b |}).
  { intros k p H. destruct (Nat.lt_ge_cases k (length (ed_ports d))) as [Hl|Hl].
    - left. rewrite nth_error_app1 in H by exact Hl. split; assumption.
    - right. rewrite nth_error_app2 in H by exact Hl. destruct (k - length (ed_ports d))%nat as [|q] eqn:E; cbn in H.
      + inversion H; subst. split; [lia|reflexivity].
      + destruct q; discriminate. }
  assert (X : forall k p m, (k < length (ed_ports d))%nat -> nth_error (ed_ports d) k = Some p -> ep_name p = Some m -> m <> name).
  { intros k p m _ Hk Hn E. subst m. assert (Y := find_idx_none _ _ F p (nth_error_In _ _ Hk)).
    unfold port_named in Y. rewrite Hn, str_eqb_refl in Y. discriminate. }
  destruct (L i pi Hi) as [[Li Hi']|[Li Ei]], (L j pj Hj) as [[Lj Hj']|[Lj Ej]].
  - eapply Hd; eassumption.
  - subst pj. cbn in Nj. inversion Nj; subst. exfalso. eapply X; eauto.
  - subst pi. cbn in Ni. inversion Ni; subst. exfalso. eapply X; eauto.
  - lia.
Qed.

Lemma nth_upd_named_distinct k f ps : named_distinct ps -> (forall p, ep_name (f p) = ep_name p) -> named_distinct (nth_upd k f ps).
Proof.
  intros Hd Hf i j pi pj n Hi Hj Ni Nj.
  assert (L : forall q p, nth_error (nth_upd k f ps) q = Some p -> exists p0, nth_error ps q = Some p0 /\ ep_name p0 = ep_name p).
  { intros q p H. destruct (Nat.eq_dec q k) as [->|Hq].
    - destruct (nth_error ps k) as [p0|] eqn:E.
      + rewrite (nth_upd_same k f ps p0 E) in H. inversion H; subst. exists p0. split; [reflexivity|symmetry; apply Hf].
      + apply nth_error_None in E. rewrite nth_upd_out in H by exact E. apply nth_error_None in E. congruence.
    - rewrite nth_upd_other in H by exact Hq. exists p. split; [exact H|reflexivity]. }
  destruct (L i pi Hi) as (a & Ha & Na), (L j pj Hj) as (b & Hb & Nb).
  apply (Hd i j a b n Ha Hb); congruence.
Qed.

Lemma cou_port_dstep name l r dir dfn d : dstep d (fst (cou_port name l r dir dfn d)).
Proof.
  unfold cou_port. destruct (find_port name d) as [k|] eqn:F; cbn [fst].
  - constructor; [reflexivity| |auto].
    intros [P N C CN IN CO]. constructor; cbn; try assumption.
    + apply nth_upd_Forall; [exact P|]. intros x Hx. cbn. apply update_port_wfb. exact Hx.
    + apply nth_upd_named_distinct; [exact N|reflexivity].
  - constructor; [reflexivity| |auto].
    intros [P N C CN IN CO]. constructor; cbn; try assumption.
    + apply Forall_app. split; [exact P|]. constructor; [cbn; apply new_bundle_wfb|constructor].
    + apply find_port_none_distinct; assumption.
Qed.

(* ---------- cables ---------- *)
Lemma cou_cable_dstep name l r ty dfn d : dstep d (fst (cou_cable name l r ty dfn d)).
Proof.
  unfold cou_cable. destruct (find_cable name d) as [k|] eqn:F; cbn [fst].
  - constructor; [reflexivity| |auto].
    intros [P N C CN IN CO]. constructor; cbn; try assumption.
    + apply nth_upd_Forall; [exact C|]. intros x Hx. cbn. apply update_cable_wfb. exact Hx.
    + rewrite nth_upd_map; [exact CN|reflexivity].
  - constructor; [reflexivity| |auto].
    intros [P N C CN IN CO]. constructor; cbn; try assumption.
    + apply Forall_app. split; [exact C|]. constructor; [cbn; apply new_bundle_wfb|constructor].
    + rewrite map_app. cbn. apply NoDup_app_intro; [exact CN|constructor; [intros []|constructor]|].
      intros x Hx [<-|[]]. apply in_map_iff in Hx. destruct Hx as (c & Hc & Hin).
      assert (Y := find_idx_none _ _ F c Hin). cbn in Y. rewrite Hc, str_eqb_refl in Y. discriminate.
Qed.

Lemma set_cable_attrs_dstep k a d : dstep d (set_cable_attrs k a d).
Proof.
  constructor; [reflexivity| |auto].
  intros [P N C CN IN CO]. constructor; cbn; try assumption.
  - apply nth_upd_Forall; [exact C|]. intros x Hx. exact Hx.
  - rewrite nth_upd_map; [exact CN|reflexivity].
Qed.

(* ---------- connections ---------- *)
Lemma connect_dstep w p d d' : connect w p d = Ok d' -> dstep d d'.
Proof.
  unfold connect. destruct (pin_wire p d) eqn:E; [discriminate|]. intro H. inversion H; subst.
  constructor; [reflexivity| |auto].
  intros [P N C CN IN CO]. constructor; cbn; try assumption.
  rewrite map_app. cbn. apply NoDup_app_intro; [exact CO|constructor; [intros []|constructor]|].
  intros x Hx [<-|[]]. exact (pin_wire_none _ _ E Hx).
Qed.

Lemma connect_all_dstep l : forall d d', connect_all l d = Ok d' -> dstep d d'.
Proof.
  induction l as [|[w p] l IH]; intros d d' H; cbn in H.
  - inversion H; subst. apply dstep_refl.
  - apply bind_ok in H. destruct H as (d1 & H1 & H2). eapply dstep_trans; [eapply connect_dstep; exact H1|apply IH; exact H2].
Qed.

(* ---------- instances ---------- *)
Lemma add_inst_inv i d d' k : add_inst i d = Ok (d', k) ->
  ed_name d' = ed_name d /\ (DInv d -> DInv d') /\ drefs d' = drefs d ++ [ei_ref i] /\ k = length (ed_insts d) /\
  ed_insts d' = ed_insts d ++ [i].
Proof.
  unfold add_inst. destruct (find_inst (ei_name i) d) eqn:F; [discriminate|]. intro H. inversion H; subst.
  split; [reflexivity|]. split; [|split; [unfold drefs; cbn; rewrite map_app; reflexivity|split; reflexivity]].
  intros [P N C CN IN CO]. constructor; cbn; try assumption.
  rewrite map_app. cbn. apply NoDup_app_intro; [exact IN|constructor; [intros []|constructor]|].
  intros x Hx [<-|[]]. apply in_map_iff in Hx. destruct Hx as (c & Hc & Hin).
  assert (Y := find_idx_none _ _ F c Hin). cbn in Y. rewrite Hc, str_eqb_refl in Y. discriminate.
Qed.

Lemma upd_inst_dstep k f d : (forall i, ei_name (f i) = ei_name i) -> (forall i, ei_ref (f i) = ei_ref i) ->
  dstep d (set_insts d (nth_upd k f (ed_insts d))).
Proof.
  intros Hn Hr. constructor; [reflexivity| |].
  - intros [P N C CN IN CO]. constructor; cbn; try assumption. rewrite nth_upd_map; [exact IN|exact Hn].
  - intro n. unfold drefs. cbn. rewrite nth_upd_map; [auto|exact Hr].
Qed.

(* ---------- expressions ---------- *)
Lemma var_inst_dstep a d d' k : var_inst a d = Ok (d', k) -> dstep d d'.
Proof.
  unfold var_inst. destruct (has_glob _); [discriminate|]. intro H. inversion H.
  pose proof (cou_cable_dstep (atom_name a) (atom_l a) (atom_r a) None false d) as X.
  destruct (cou_cable _ _ _ _ _ d). cbn in X. inversion H; subst. exact X.
Qed.

Lemma atom_wires_dstep a d d' ws : atom_wires a d = Ok (d', ws) -> dstep d d'.
Proof.
  unfold atom_wires. intro H. apply bind_ok in H. destruct H as ([d1 k] & H1 & H2).
  apply bind_ok in H2. destruct H2 as (w & _ & H3). inversion H3; subst. eapply var_inst_dstep. exact H1.
Qed.

Lemma cat_wires_dstep l : forall d d' ws, cat_wires l d = Ok (d', ws) -> dstep d d'.
Proof.
  induction l as [|a l IH]; intros d d' ws H; cbn in H.
  - inversion H; subst. apply dstep_refl.
  - apply bind_ok in H. destruct H as ([d1 w1] & H1 & H2). apply bind_ok in H2. destruct H2 as ([d2 w2] & H2 & H3).
    inversion H3; subst. eapply dstep_trans; [eapply atom_wires_dstep; exact H1|eapply IH; exact H2].
Qed.

Lemma expr_wires_dstep e d d' ws : expr_wires e d = Ok (d', ws) -> dstep d d'.
Proof.
  destruct e as [a|l]; cbn.
  - apply atom_wires_dstep.
  - destruct l; [discriminate|]. apply cat_wires_dstep.
Qed.

(* ---------- fold_res over dstep ---------- *)
Lemma fold_res_dstep {A} (f : A -> edef -> result edef) l :
  (forall x d d', f x d = Ok d' -> dstep d d') -> forall d d', fold_res f l d = Ok d' -> dstep d d'.
Proof.
  intro Hf. apply fold_res_rel; [apply dstep_refl|apply dstep_trans|]. intros x s s' _. apply Hf.
Qed.

(* ---------- header ---------- *)
Lemma header_port_dstep dir rg name d d' : header_port dir rg name d = Ok d' -> dstep d d'.
Proof.
  unfold header_port. destruct (has_glob name); [discriminate|].
  pose proof (cou_port_dstep name (range_l rg) (range_r rg) dir (match dir with Some _ => true | None => false end) d) as X1.
  destruct (cou_port _ _ _ _ _ d) as [d1 pk]. cbn [fst] in X1.
  set (lr := match rg with Some (h, lo) => _ | None => _ end). destruct lr as [l r].
  pose proof (cou_cable_dstep name l r None (match dir with Some _ => true | None => false end) d1) as X2.
  destruct (cou_cable _ _ _ _ _ d1) as [d2 ck]. cbn [fst] in X2.
  destruct (negb _); [discriminate|]. intro H.
  eapply dstep_trans; [exact X1|]. eapply dstep_trans; [exact X2|]. eapply connect_all_dstep. exact H.
Qed.

Lemma header_alias_dstep name e d d' : header_alias name e d = Ok d' -> dstep d d'.
Proof.
  unfold header_alias. destruct (has_glob name); [discriminate|]. intro H.
  apply bind_ok in H. destruct H as ([d1 ws] & H1 & H2).
  pose proof (cou_port_dstep name (Some (Z.of_nat (length ws) - 1)%Z) (Some 0%Z) None false d1) as X1.
  destruct (cou_port _ _ _ _ _ d1) as [d2 pk]. cbn [fst] in X1.
  destruct (negb _); [discriminate|].
  eapply dstep_trans; [eapply expr_wires_dstep; exact H1|]. eapply dstep_trans; [exact X1|]. eapply connect_all_dstep. exact H2.
Qed.

Lemma header_entry_dstep h d d' : header_entry h d = Ok d' -> dstep d d'.
Proof. destruct h; cbn; [apply header_port_dstep|apply header_alias_dstep]. Qed.

(* ---------- declarations ---------- *)
Lemma connect_resized_dstep ck pk d d' : connect_resized ck pk d = Ok d' -> dstep d d'.
Proof.
  unfold connect_resized. destruct (negb _); [discriminate|].
  apply fold_res_dstep. intros [w p] a b. cbn. destruct (pin_wire p a).
  - intro H. inversion H; subst. apply dstep_refl.
  - apply connect_dstep.
Qed.

Lemma port_decl_one_dstep dir ty rg name d d' : port_decl_one dir ty rg name d = Ok d' -> dstep d d'.
Proof.
  unfold port_decl_one. destruct (has_glob name); [discriminate|].
  pose proof (cou_cable_dstep name (range_l rg) (range_r rg) (vtype_wr ty) true d) as X1.
  destruct (cou_cable _ _ _ _ _ d) as [d1 ck]. cbn [fst] in X1.
  intro H. apply bind_ok in H. destruct H as (ws & _ & H).
  destruct (ports_on ws d1) as [|pk [|pk2 rest]].
  - discriminate.
  - destruct (port_name_of pk d1) as [pn|]; [|discriminate].
    pose proof (cou_port_dstep pn (range_l rg) (range_r rg) (Some dir) true d1) as X2.
    destruct (cou_port _ _ _ _ _ d1) as [d2 pk']. cbn [fst] in X2.
    eapply dstep_trans; [exact X1|]. eapply dstep_trans; [exact X2|].
    destruct (_ <? _)%nat; [eapply connect_resized_dstep; exact H|inversion H; subst; apply dstep_refl].
  - destruct (_ <? _)%nat; [discriminate|].
    eapply dstep_trans; [exact X1|]. revert H. apply fold_res_dstep.
    intros x a b. destruct (port_name_of x a); [|discriminate]. intro H. inversion H; subst. apply cou_port_dstep.
Qed.

Lemma wire_decl_one_dstep ty rg attrs name d d' : wire_decl_one ty rg attrs name d = Ok d' -> dstep d d'.
Proof.
  unfold wire_decl_one. destruct (has_glob name); [discriminate|].
  pose proof (cou_cable_dstep name (range_l rg) (range_r rg) (Some ty) false d) as X1.
  destruct (cou_cable _ _ _ _ _ d) as [d1 ck]. cbn [fst] in X1. intro H. inversion H; subst.
  eapply dstep_trans; [exact X1|apply set_cable_attrs_dstep].
Qed.

Lemma wire_decl_dstep ty rg attrs names d d' : wire_decl ty rg attrs names d = Ok d' -> dstep d d'.
Proof.
  unfold wire_decl. destruct names as [|n rest]; [discriminate|]. intro H.
  apply bind_ok in H. destruct H as (d1 & H1 & H2).
  eapply dstep_trans; [eapply wire_decl_one_dstep; exact H1|]. revert H2. apply fold_res_dstep.
  intros x a b. apply wire_decl_one_dstep.
Qed.

(* ---------- assign ---------- *)
Lemma assign_item_dstep lhs rhs n d d' : assign_item lhs rhs n d = Ok d' -> dstep d d'.
Proof.
  unfold assign_item. intro H.
  apply bind_ok in H. destruct H as ([d1 kl] & H1 & H).
  apply bind_ok in H. destruct H as ([d2 kr] & H2 & H).
  apply bind_ok in H. destruct H as (outs & _ & H).
  apply bind_ok in H. destruct H as (ins & _ & H).
  apply bind_ok in H. destruct H as ([d3 ii] & H3 & H).
  destruct (add_inst_inv _ _ _ _ H3) as (N3 & I3 & R3 & _).
  eapply dstep_trans; [eapply var_inst_dstep; exact H1|]. eapply dstep_trans; [eapply var_inst_dstep; exact H2|].
  eapply dstep_trans; [|eapply connect_all_dstep; exact H].
  constructor; [exact N3|exact I3|]. intros m Hm. rewrite R3 in Hm. apply in_app_iff in Hm.
  destruct Hm as [Hm|[Hm|[]]]; [exact Hm|discriminate].
Qed.

(* ================= the state ================= *)
Definition names (s : estate) : list str := map ed_name (st_defs s).

Record Inv (s : estate) : Prop := {
  iv_names : NoDup (names s);
  iv_defs : Forall DInv (st_defs s);
  iv_refs : forall d n, In d (st_defs s) -> In (RName n) (drefs d) -> In n (names s);
  iv_tops : forall l t, st_tops s = Some l -> In t l -> (t < length (st_defs s))%nat;
  iv_ps : forall a b, In (a, b) (st_ps s) -> (b < length (st_defs s))%nat }.

Lemma get_def_dinv k s : Inv s -> DInv (get_def k s).
Proof.
  intros I. unfold get_def. destruct (nth_error (st_defs s) k) as [d|] eqn:E.
  - rewrite (nth_default_error _ _ _ _ E). eapply Forall_forall; [apply (iv_defs s I)|eapply nth_error_In; exact E].
  - rewrite nth_overflow by (apply nth_error_None; exact E). apply dinv_empty.
Qed.

Lemma get_def_in k s : (k < length (st_defs s))%nat -> In (get_def k s) (st_defs s).
Proof. intro H. unfold get_def. apply nth_In. exact H. Qed.

Lemma find_def_some n s k : find_def n s = Some k -> (k < length (st_defs s))%nat /\ ed_name (get_def k s) = n.
Proof.
  intro H. destruct (find_idx_some _ _ _ H) as (d & Hd & E & _). split; [eapply find_idx_lt; exact H|].
  unfold get_def. rewrite (nth_default_error _ _ _ _ Hd). apply str_eqb_spec. exact E.
Qed.

Lemma in_names_find n s : In n (names s) -> exists k, find_def n s = Some k.
Proof.
  intro H. unfold find_def. destruct (find_idx _ _) as [k|] eqn:E; [exists k; reflexivity|].
  apply in_map_iff in H. destruct H as (d & Hd & Hin). assert (X := find_idx_none _ _ E d Hin). cbn in X.
  rewrite Hd, str_eqb_refl in X. discriminate.
Qed.

(* replacing a definition by a step of it *)
Lemma put_def_inv k d s : Inv s -> dstep (get_def k s) d -> Inv (put_def k d s).
Proof.
  intros I [N DI R]. unfold put_def, upd_def.
  destruct (Nat.lt_ge_cases k (length (st_defs s))) as [Hk|Hk].
  2:{ rewrite nth_upd_out by exact Hk. destruct s; exact I. }
  assert (E : nth_error (st_defs s) k = Some (get_def k s)).
  { unfold get_def. apply nth_error_nth'. exact Hk. }
  assert (Nm : names (set_defs s (nth_upd k (fun _ => d) (st_defs s))) = names s).
  { unfold names. cbn. apply nth_upd_map_at. intros x Hx. rewrite E in Hx. inversion Hx; subst. exact N. }
  constructor.
  - rewrite Nm. apply (iv_names s I).
  - cbn. apply Forall_forall. intros x Hx. apply nth_upd_In in Hx. destruct Hx as [Hx|(y & Hy & ->)].
    + eapply Forall_forall; [apply (iv_defs s I)|exact Hx].
    + apply DI. apply get_def_dinv. exact I.
  - rewrite Nm. cbn. intros x n Hx Hn. apply nth_upd_In in Hx. destruct Hx as [Hx|(y & Hy & ->)].
    + eapply (iv_refs s I); eassumption.
    + apply (iv_refs s I (get_def k s)); [apply get_def_in; exact Hk|apply R; exact Hn].
  - cbn. rewrite nth_upd_length. apply (iv_tops s I).
  - cbn. rewrite nth_upd_length. apply (iv_ps s I).
Qed.

Lemma upd_def_inv k f s : Inv s -> dstep (get_def k s) (f (get_def k s)) -> Inv (upd_def k f s).
Proof.
  intros I H.
  destruct (Nat.lt_ge_cases k (length (st_defs s))) as [Hk|Hk].
  - assert (E : upd_def k f s = put_def k (f (get_def k s)) s).
    { unfold put_def, upd_def. f_equal. apply nth_upd_ext. intros x Hx.
      assert (E : nth_error (st_defs s) k = Some (get_def k s)) by (unfold get_def; apply nth_error_nth'; exact Hk).
      rewrite E in Hx. inversion Hx; subst. reflexivity. }
    rewrite E. apply put_def_inv; assumption.
  - unfold upd_def. rewrite nth_upd_out by exact Hk. destruct s; exact I.
Qed.

Lemma lift_inv cur f s s' : (forall d d', f d = Ok d' -> dstep d d') -> lift cur f s = Ok s' -> Inv s -> Inv s'.
Proof.
  intros Hf H I. unfold lift in H. apply bind_ok in H. destruct H as (d & H1 & H2). inversion H2; subst.
  apply put_def_inv; [exact I|apply Hf; exact H1].
Qed.

(* facts that no definition-level replacement changes *)
Lemma put_def_length k d s : length (st_defs (put_def k d s)) = length (st_defs s).
Proof. unfold put_def, upd_def. cbn. apply nth_upd_length. Qed.

Lemma upd_def_length k f s : length (st_defs (upd_def k f s)) = length (st_defs s).
Proof. unfold upd_def. cbn. apply nth_upd_length. Qed.

(* ---------- get_blackbox ---------- *)
Lemma get_blackbox_inv name s s' k : get_blackbox name s = (s', k) -> Inv s ->
  Inv s' /\ (k < length (st_defs s'))%nat /\ ed_name (get_def k s') = name /\ (length (st_defs s) <= length (st_defs s'))%nat.
Proof.
  unfold get_blackbox. destruct (find_def name s) as [j|] eqn:F; intros H I; inversion H; subst.
  - destruct (find_def_some _ _ _ F) as [L N]. split; [exact I|]. split; [exact L|]. split; [exact N|lia].
  - assert (Hn : ~ In name (names s)).
    { intro X. destruct (in_names_find _ _ X) as (j & Hj). congruence. }
    split.
    + constructor; cbn.
      * unfold names. cbn. rewrite map_app. cbn. apply NoDup_app_intro; [apply (iv_names s I)|constructor; [intros []|constructor]|].
        intros x Hx [<-|[]]. exact (Hn Hx).
      * apply Forall_app. split; [apply (iv_defs s I)|constructor; [apply dinv_empty|constructor]].
      * intros d n Hd Hr. unfold names. cbn. rewrite map_app. apply in_app_iff. left.
        apply in_app_iff in Hd. destruct Hd as [Hd|[<-|[]]]; [eapply (iv_refs s I); eassumption|destruct Hr].
      * intros l t Hl Ht. rewrite app_length. cbn. assert (X := iv_tops s I l t Hl Ht). lia.
      * intros a b Hab. rewrite app_length. cbn. assert (X := iv_ps s I a b Hab). lia.
    + cbn. rewrite app_length. cbn. split; [lia|]. split; [|lia].
      unfold get_def. cbn. rewrite app_nth2 by lia. rewrite Nat.sub_diag. reflexivity.
Qed.

(* ---------- setters of the non-structural fields ---------- *)
Lemma inv_set_acount s n : Inv s -> Inv (set_acount s n).
Proof. intros [A B C D E]. constructor; assumption. Qed.
Lemma inv_set_curinst s c : Inv s -> Inv (set_curinst s c).
Proof. intros [A B C D E]. constructor; assumption. Qed.
Lemma inv_set_pending s p : Inv s -> Inv (set_pending s p).
Proof. intros [A B C D E]. constructor; assumption. Qed.

Lemma set_meta_dstep d lib prim params attrs : dstep d (set_meta d lib prim params attrs).
Proof.
  constructor; [reflexivity| |auto]. intros [P N C CN IN CO]. constructor; assumption.
Qed.

(* ---------- election ---------- *)
Lemma parents_of_in ps m x : In x (parents_of ps m) -> exists a, In (a, x) ps.
Proof.
  unfold parents_of. intro H. apply in_map_iff in H. destruct H as ([a b] & E & H). cbn in E. subst.
  apply filter_In in H. exists a. apply H.
Qed.

Lemma elect_step_inv cur rk s : Inv s -> (cur < length (st_defs s))%nat -> Inv (elect_step cur rk s).
Proof.
  intros I Hc. unfold elect_step. destruct (st_tops s) as [tops|] eqn:T; [|exact I].
  unfold step_inst. destruct I as [A B C D E]. constructor; cbn; try assumption.
  - intros l t Hl Ht. inversion Hl; subst. apply in_flat_map in Ht. destruct Ht as (t0 & Ht0 & Ht).
    destruct (Nat.eqb t0 rk).
    + destruct (parents_of (st_ps s) cur) as [|p ps'] eqn:P.
      * destruct Ht as [<-|[]]. exact Hc.
      * rewrite <- P in Ht. destruct (parents_of_in _ _ _ Ht) as (a & Ha). eapply E. exact Ha.
    + destruct Ht as [<-|[]]. exact (D tops t0 T Ht0).
  - intros a b Hab. apply in_app_iff in Hab. destruct Hab as [Hab|[Hab|[]]]; [eapply E; exact Hab|inversion Hab; subst; exact Hc].
Qed.

(* ---------- named and positional connections ---------- *)
Lemma aligned_ok mk items ws calls : aligned mk items ws = Ok calls -> True.
Proof. trivial. Qed.

Lemma named_conn_inv cur ii rk pc s s' : named_conn cur ii rk pc s = Ok s' -> Inv s -> Inv s' /\ length (st_defs s') = length (st_defs s).
Proof.
  unfold named_conn. destruct pc as [pname [e|]]; destruct (has_glob pname); try discriminate.
  - intros H I. apply bind_ok in H. destruct H as ([d1 ws] & H1 & H).
    set (s1 := put_def cur d1 s) in *.
    assert (I1 : Inv s1) by (apply put_def_inv; [exact I|eapply expr_wires_dstep; exact H1]).
    pose proof (cou_port_dstep pname (Some (Z.of_nat (length ws) - 1)%Z) (Some 0%Z) None false (get_def rk s1)) as X.
    destruct (cou_port _ _ _ _ _ (get_def rk s1)) as [rd1 pk]. cbn [fst] in X.
    set (s2 := put_def rk rd1 s1) in *.
    assert (I2 : Inv s2) by (apply put_def_inv; assumption).
    apply bind_ok in H. destruct H as (calls & _ & H). apply bind_ok in H. destruct H as (d2 & H2 & H). inversion H; subst.
    split; [apply put_def_inv; [exact I2|eapply connect_all_dstep; exact H2]|].
    unfold s2, s1. rewrite !put_def_length. reflexivity.
  - intros H I. inversion H; subst. split; [|apply upd_def_length].
    apply upd_def_inv; [exact I|apply cou_port_dstep].
Qed.

Lemma add_unnamed_port_dstep d b : wfb b -> dstep d (set_ports d (ed_ports d ++ [{| ep_name := None; ep_dir := None; ep_b := b |}])).
Proof.
  intro Hb. constructor; [reflexivity| |auto].
  intros [P N C CN IN CO]. constructor; cbn; try assumption.
  - apply Forall_app. split; [exact P|constructor; [exact Hb|constructor]].
  - intros i j pi pj n Hi Hj Ni Nj.
    assert (L : forall k p m, nth_error (ed_ports d ++ [{| ep_name := None; ep_dir := None; ep_b := b |}]) k = Some p -> ep_name p = Some m ->
                nth_error (ed_ports d) k = Some p).
    { intros k p m H Hm. destruct (Nat.lt_ge_cases k (length (ed_ports d))) as [Hl|Hl].
      - rewrite nth_error_app1 in H by exact Hl. exact H.
      - rewrite nth_error_app2 in H by exact Hl. destruct (k - length (ed_ports d))%nat as [|q]; cbn in H.
        + inversion H; subst. discriminate.
        + destruct q; discriminate. }
    eapply N; eauto.
Qed.

Lemma pos_conn_inv cur ii rk fresh index oe s s' : pos_conn cur ii rk fresh index oe s = Ok s' -> Inv s ->
  Inv s' /\ length (st_defs s') = length (st_defs s).
Proof.
  unfold pos_conn. destruct oe as [e|].
  2:{ destruct fresh; intros H I; inversion H; subst; [|split; [exact I|reflexivity]].
      split; [apply put_def_inv; [exact I|apply add_unnamed_port_dstep; apply new_bundle_wfb]|apply put_def_length]. }
  intros H I.
  apply bind_ok in H. destruct H as ([d1 ws] & H1 & H).
  set (s1 := put_def cur d1 s) in *.
  assert (I1 : Inv s1) by (apply put_def_inv; [exact I|eapply expr_wires_dstep; exact H1]).
  destruct fresh.
  - set (s2 := put_def rk _ s1) in *.
    assert (I2 : Inv s2) by (apply put_def_inv; [exact I1|apply add_unnamed_port_dstep; apply new_bundle_wfb]).
    apply bind_ok in H. destruct H as (calls & _ & H). apply bind_ok in H. destruct H as (d2 & H2 & H). inversion H; subst.
    split; [apply put_def_inv; [exact I2|eapply connect_all_dstep; exact H2]|]. unfold s2, s1. rewrite !put_def_length. reflexivity.
  - apply bind_ok in H. destruct H as (calls & _ & H). apply bind_ok in H. destruct H as (d2 & H2 & H). inversion H; subst.
    split; [apply put_def_inv; [exact I1|eapply connect_all_dstep; exact H2]|]. unfold s1. rewrite !put_def_length. reflexivity.
Qed.

Definition InvL (n : nat) (s : estate) : Prop := Inv s /\ (n <= length (st_defs s))%nat.

Lemma fold_named_inv cur ii rk l s s' : fold_res (named_conn cur ii rk) l s = Ok s' -> Inv s ->
  Inv s' /\ length (st_defs s') = length (st_defs s).
Proof.
  intros H I.
  apply (fold_res_inv (fun x => Inv x /\ length (st_defs x) = length (st_defs s)) (named_conn cur ii rk) l) with (s := s); auto.
  intros x a b _ [Ia La] Hx. destruct (named_conn_inv _ _ _ _ _ _ Hx Ia) as [Ib Lb]. split; [exact Ib|congruence].
Qed.

(* ---------- instances ---------- *)
Lemma inst_item_inv cur m i params attrs conns s s' : inst_item cur m i params attrs conns s = Ok s' -> Inv s ->
  (cur < length (st_defs s))%nat -> Inv s' /\ (length (st_defs s) <= length (st_defs s'))%nat.
Proof.
  unfold inst_item. intros H I Hc.
  destruct (get_blackbox m s) as [s1 rk] eqn:G.
  destruct (get_blackbox_inv _ _ _ _ G I) as (I1 & Hrk & Nrk & L1).
  destruct (_ && _); [destruct (parents_of _ _); [destruct (forallb _ _)|]; discriminate|].
  set (s2 := elect_step cur rk s1) in *.
  assert (I2 : Inv s2) by (apply elect_step_inv; [exact I1|lia]).
  assert (L2 : length (st_defs s2) = length (st_defs s1)).
  { unfold s2, elect_step. destruct (st_tops s1); reflexivity. }
  assert (D2 : st_defs s2 = st_defs s1).
  { unfold s2, elect_step. destruct (st_tops s1); reflexivity. }
  apply bind_ok in H. destruct H as ([d1 ii] & H1 & H).
  destruct (add_inst_inv _ _ _ _ H1) as (N1 & DI1 & R1 & _). cbn [ei_ref] in R1.
  set (s3 := set_curinst (put_def cur d1 s2) (Some (cur, ii))) in *.
  assert (I3 : Inv s3).
  { apply inv_set_curinst.
    (* the new instance references the definition just obtained from the holder *)
    assert (Hk : (cur < length (st_defs s2))%nat) by lia.
    assert (E : nth_error (st_defs s2) cur = Some (get_def cur s2)) by (unfold get_def; apply nth_error_nth'; exact Hk).
    assert (Nm : names (put_def cur d1 s2) = names s2).
    { unfold names, put_def, upd_def. cbn. apply nth_upd_map_at. intros x Hx. rewrite E in Hx. inversion Hx; subst. exact N1. }
    constructor.
    - rewrite Nm. apply (iv_names s2 I2).
    - unfold put_def, upd_def. cbn. apply Forall_forall. intros x Hx. apply nth_upd_In in Hx. destruct Hx as [Hx|(y & Hy & ->)].
      + eapply Forall_forall; [apply (iv_defs s2 I2)|exact Hx].
      + apply DI1. apply get_def_dinv. exact I2.
    - rewrite Nm. unfold put_def, upd_def. cbn. intros x n Hx Hn. apply nth_upd_In in Hx. destruct Hx as [Hx|(y & Hy & ->)].
      + eapply (iv_refs s2 I2); eassumption.
      + rewrite R1 in Hn. apply in_app_iff in Hn. destruct Hn as [Hn|[Hn|[]]].
        * apply (iv_refs s2 I2 (get_def cur s2)); [apply get_def_in; exact Hk|exact Hn].
        * inversion Hn as [Hm]. rewrite <- Hm, <- Nrk. unfold names. rewrite D2. apply in_map. apply get_def_in. exact Hrk.
    - unfold put_def, upd_def. cbn. rewrite nth_upd_length. apply (iv_tops s2 I2).
    - unfold put_def, upd_def. cbn. rewrite nth_upd_length. apply (iv_ps s2 I2). }
  assert (L3 : length (st_defs s3) = length (st_defs s1)).
  { unfold s3. cbn. rewrite nth_upd_length. exact L2. }
  apply bind_ok in H. destruct H as (s4 & H4 & H). inversion H; subst.
  assert (X : Inv s4 /\ length (st_defs s4) = length (st_defs s3)).
  { destruct conns as [l|l].
    - apply (fold_named_inv _ _ _ _ _ _ H4 I3).
    - inversion H4; subst. split; [apply inv_set_pending; exact I3|reflexivity]. }
  destruct X as [I4 L4]. split.
  - apply upd_def_inv; [exact I4|]. apply upd_inst_dstep; reflexivity.
  - rewrite upd_def_length. lia.
Qed.

Lemma defparam_item_inv cur i k v s s' : defparam_item cur i k v s = Ok s' -> Inv s -> Inv s' /\ length (st_defs s') = length (st_defs s).
Proof.
  unfold defparam_item. destruct (st_curinst s) as [[cd ci]|]; [|discriminate]. intros H I.
  apply bind_ok in H. destruct H as (tgt & _ & H). inversion H; subst.
  split; [|apply upd_def_length]. apply upd_def_inv; [exact I|]. apply upd_inst_dstep; reflexivity.
Qed.

Lemma lift_length cur f s s' : lift cur f s = Ok s' -> length (st_defs s') = length (st_defs s).
Proof.
  unfold lift. intro H. apply bind_ok in H. destruct H as (d & _ & H). inversion H; subst. apply put_def_length.
Qed.

Lemma body_item_inv cur it s s' : body_item cur it s = Ok s' -> Inv s -> (cur < length (st_defs s))%nat ->
  Inv s' /\ (length (st_defs s) <= length (st_defs s'))%nat.
Proof.
  destruct it as [dir ty rg nms at_|ty rg nms at_|m i ps at_ conns|i k v|lhs rhs|]; cbn [body_item]; intros H I Hc.
  - split; [|rewrite (lift_length _ _ _ _ H); lia]. eapply lift_inv; [|exact H|exact I].
    apply fold_res_dstep. intros x a b. apply port_decl_one_dstep.
  - split; [|rewrite (lift_length _ _ _ _ H); lia]. eapply lift_inv; [|exact H|exact I]. intros a b. apply wire_decl_dstep.
  - eapply inst_item_inv; eassumption.
  - destruct (defparam_item_inv _ _ _ _ _ _ H I) as [I' L]. split; [exact I'|lia].
  - apply bind_ok in H. destruct H as (s1 & H1 & H). inversion H; subst.
    split; [|cbn; rewrite (lift_length _ _ _ _ H1); lia]. apply inv_set_acount. eapply lift_inv; [|exact H1|exact I].
    intros a b. apply assign_item_dstep.
  - discriminate.
Qed.

Lemma cell_item_inv cur it s s' : cell_item cur it s = Ok s' -> Inv s ->
  Inv s' /\ (length (st_defs s) <= length (st_defs s'))%nat.
Proof.
  destruct it; cbn [cell_item]; intros H I; try (inversion H; subst; split; [exact I|lia]).
  split; [|rewrite (lift_length _ _ _ _ H); lia]. eapply lift_inv; [|exact H|exact I].
  apply fold_res_dstep. intros x a b. apply port_decl_one_dstep.
Qed.

Lemma fold_items_inv (f : nat -> vitem -> estate -> result estate) cur l :
  (forall it s s', f cur it s = Ok s' -> Inv s -> (cur < length (st_defs s))%nat -> Inv s' /\ (length (st_defs s) <= length (st_defs s'))%nat) ->
  forall s s', fold_res (f cur) l s = Ok s' -> Inv s -> (cur < length (st_defs s))%nat -> Inv s' /\ (cur < length (st_defs s'))%nat.
Proof.
  intros Hf s s' H I Hc.
  apply (fold_res_inv (fun x => Inv x /\ (cur < length (st_defs x))%nat) (f cur) l) with (s := s); auto.
  intros x a b _ [Ia La] Hx. destruct (Hf _ _ _ Hx Ia La) as [Ib Lb]. split; [exact Ib|lia].
Qed.

(* ---------- modules ---------- *)
Lemma module_decl_inv m s s' : module_decl m s = Ok s' -> Inv s -> Inv s'.
Proof.
  unfold module_decl. intros H I.
  destruct (get_blackbox (vm_name m) s) as [s1 cur] eqn:G.
  destruct (get_blackbox_inv _ _ _ _ G I) as (I1 & Hc & _ & _).
  destruct (ed_lib (get_def cur s1)); [discriminate|].
  set (s2 := upd_def cur _ s1) in *.
  assert (I2 : Inv s2) by (apply upd_def_inv; [exact I1|apply set_meta_dstep]).
  assert (L2 : length (st_defs s2) = length (st_defs s1)) by apply upd_def_length.
  set (s3 := if vm_cell m then s2 else _) in *.
  assert (I3 : Inv s3 /\ length (st_defs s3) = length (st_defs s2)).
  { unfold s3. destruct (vm_cell m); [split; [exact I2|reflexivity]|].
    split; [|destruct (st_tops s2); reflexivity]. apply inv_set_acount. destruct (st_tops s2) eqn:T; [exact I2|].
    assert (Hc2 : (cur < length (st_defs s2))%nat) by lia.
    destruct I2 as [A B C D E]. constructor; cbn; try assumption.
    intros l t Hl Ht. inversion Hl; subst. destruct Ht as [<-|[]]. exact Hc2. }
  destruct I3 as [I3 L3].
  set (s4 := upd_def cur _ s3) in *.
  assert (I4 : Inv s4) by (apply upd_def_inv; [exact I3|apply set_meta_dstep]).
  assert (L4 : length (st_defs s4) = length (st_defs s3)) by apply upd_def_length.
  apply bind_ok in H. destruct H as (s5 & H5 & H).
  assert (I5 : Inv s5) by (eapply lift_inv; [|exact H5|exact I4]; apply fold_res_dstep; intros x a b; apply header_entry_dstep).
  assert (L5 : length (st_defs s5) = length (st_defs s4)) by (eapply lift_length; exact H5).
  apply bind_ok in H. destruct H as (s6 & H6 & H).
  assert (I6 : Inv s6).
  { destruct (vm_cell m).
    - eapply (fold_items_inv (fun c => cell_item c) cur (vm_body m)); [|exact H6|exact I5|lia].
      intros it a b Hx Ia _. eapply cell_item_inv; eassumption.
    - eapply (fold_items_inv (fun c => body_item c) cur); [|exact H6|exact I5|lia].
      intros it a b. apply body_item_inv. }
  inversion H; subst. destruct (vm_attrs m); [exact I6|]. apply upd_def_inv; [exact I6|apply set_meta_dstep].
Qed.

Lemma pending_one_inv p s s' : pending_one p s = Ok s' -> Inv s -> Inv s'.
Proof.
  destruct p as [[[cur ii] rk] l]. unfold pending_one. intros H I.
  revert H. apply fold_res_inv; [|exact I].
  intros x a b _ Ia Hx. eapply pos_conn_inv; eassumption.
Qed.

Lemma close_blackboxes_inv s : Inv s -> Inv (close_blackboxes s).
Proof.
  intros [A B C D E]. unfold close_blackboxes.
  assert (Nm : map ed_name (map (fun d => match ed_lib d with None => set_meta d (Some true) true (ed_params d) (ed_attrs d) | Some _ => d end) (st_defs s))
               = map ed_name (st_defs s)).
  { rewrite map_map. apply map_ext. intro d. destruct (ed_lib d); reflexivity. }
  constructor; unfold names; cbn.
  - rewrite Nm. exact A.
  - apply Forall_forall. intros x Hx. apply in_map_iff in Hx. destruct Hx as (d & <- & Hd).
    assert (Y := proj1 (Forall_forall _ _) B d Hd). destruct (ed_lib d); [exact Y|]. apply (ds_inv _ _ (set_meta_dstep d _ _ _ _)). exact Y.
  - rewrite Nm. intros x n Hx Hn. apply in_map_iff in Hx. destruct Hx as (d & <- & Hd).
    apply (C d n Hd). destruct (ed_lib d); exact Hn.
  - rewrite map_length. exact D.
  - rewrite map_length. exact E.
Qed.

Theorem run_inv doc s : run doc = Ok s -> Inv s.
Proof.
  unfold run. intro H. apply bind_ok in H. destruct H as (s1 & H1 & H2).
  assert (I0 : Inv {| st_defs := []; st_tops := None; st_ps := []; st_acount := 0; st_curinst := None; st_pending := [] |}).
  { constructor; cbn; try constructor; try contradiction; try discriminate. }
  assert (I1 : Inv s1).
  { eapply (fold_res_inv Inv module_decl doc); [|exact I0|exact H1]. intros x a b _ Ia Hx. eapply module_decl_inv; eassumption. }
  eapply (fold_res_inv Inv pending_one); [|apply close_blackboxes_inv; exact I1|exact H2].
  intros x a b _ Ia Hx. eapply pending_one_inv; eassumption.
Qed.
