(* C11, occurrences: HRef.get_all_hrefs_of_instances (Hier/Enum.v: bound_close, search_down,
   hrefs_of_instances) returns, without duplicates, exactly the instance paths below the top
   instance that end in one of the instances handed in.

   A. the upward marking loop (bound_close): terminates with the fuel it is given, and its result
      contains every strict ancestor (through "is a child of") of every start
   B. the downward search (search_down): terminates on acyclic heaps; sound and duplicate-free for
      ANY bound set; complete as soon as the bound set holds the strict ancestors of the targets
   C. hrefs_of_instances: the search is started at every top instance the upward walk has reached
      (the members of  instances | bound  that are the top instance of the netlist holding the
      definition they reference); the answer is exactly the valid instance paths - from ANY top
      instance - that end in one of the instances. No hypothesis on what the instances reference. *)
From Coq Require Import List Arith Bool Lia Relations Wellfounded.
From SV Require Import Base.Base IR.State Proofs.Inv1a Proofs.Inv2a Hier.Paths Hier.Enum
  Proofs.HierValid Proofs.HierEnum.
Import ListNotations.

(* ------------------------------------------------------------------------------------------ *)
(* A. bound_close                                                                              *)

(* y is an instance of the definition that contains x (read through the back pointers, as the
   code does) *)
Definition upst (s : state) (x y : id) : Prop :=
  exists d, par s RChildren x = Some d /\ In y (drefs s d).

Lemma upst_child s x y : Inv1a s -> Inv2a s -> (upst s x y <-> child s x y).
Proof.
  intros I1 I2. unfold upst, child, sub. split.
  - intros (d & P & Hy). apply (i2_ref s I2) in Hy. rewrite Hy. apply (i1_kids s I1). exact P.
  - destruct (iref s y) as [d|] eqn:E; [|contradiction]. intro H. exists d. split.
    + apply (i1_kids s I1). exact H.
    + apply (i2_ref s I2). exact E.
Qed.

Definition pushf : list id * list id -> id -> list id * list id :=
  fun '(st0, b0) p => if memb p b0 then (st0, b0) else (p :: st0, p :: b0).

Lemma bound_close_S s f x st bound :
  bound_close s (S f) (x :: st) bound =
  match par s RChildren x with
  | None => bound_close s f st bound
  | Some d => let '(st', bound') := fold_left pushf (drefs s d) (st, bound) in
              bound_close s f st' bound'
  end.
Proof. reflexivity. Qed.

Lemma push_spec : forall l st b, exists new,
  fold_left pushf l (st, b) = (new ++ st, new ++ b) /\
  (forall y, In y new -> In y l /\ ~ In y b) /\ NoDup new /\
  (forall y, In y l -> In y (new ++ b)).
Proof.
  induction l as [|p l IH]; intros st b.
  - exists []. cbn. repeat split; try contradiction. constructor.
  - cbn [fold_left]. unfold pushf at 2. destruct (memb p b) eqn:M.
    + destruct (IH st b) as (new & E & H1 & H2 & H3). exists new. split; [exact E|].
      split; [|split; [exact H2|]].
      * intros y Hy. destruct (H1 y Hy) as [Ha Hb]. split; [right; exact Ha|exact Hb].
      * intros y [<-|Hy]; [|apply H3; exact Hy]. apply in_or_app. right. apply memb_In. exact M.
    + apply memb_false in M. destruct (IH (p :: st) (p :: b)) as (new & E & H1 & H2 & H3).
      exists (new ++ [p]). rewrite <- !app_assoc. cbn [app]. split; [exact E|].
      split; [|split].
      * intros y Hy. apply in_app_or in Hy as [Hy|[<-|[]]].
        -- destruct (H1 y Hy) as [Ha Hb]. split; [right; exact Ha|]. intro Hc. apply Hb. right. exact Hc.
        -- split; [left; reflexivity|exact M].
      * apply nodup_app; [exact H2|constructor; [intros []|constructor]|].
        intros a Ha [Epa|[]]. subst a. destruct (H1 p Ha) as [_ Hb]. apply Hb. left. reflexivity.
      * intros y [<-|Hy]; [apply in_or_app; right; left; reflexivity|apply H3; exact Hy].
Qed.

(* termination: every element is pushed at most once (it is marked when pushed), and only
   instances that carry a reference - hence allocated ids - are ever pushed *)
Lemma nodup_bounded (l : list id) n : NoDup l -> (forall y, In y l -> y < n) -> length l <= n.
Proof.
  intros Hn Hr. rewrite <- (seq_length n 0). apply NoDup_incl_length; [exact Hn|].
  intros y Hy. apply in_seq. split; [lia|]. cbn. apply Hr. exact Hy.
Qed.

Lemma bound_close_fuel s : Inv2a s -> WFk s ->
  forall fuel stack bound,
    NoDup bound -> (forall y, In y bound -> y < next s) ->
    length stack + (next s - length bound) < fuel ->
    bound_close s fuel stack bound <> None.
Proof.
  intros I2 W. induction fuel as [|f IH]; intros stack bound Hn Hr Hl; [lia|].
  destruct stack as [|x st]; [cbn; discriminate|]. rewrite bound_close_S.
  pose proof (nodup_bounded bound (next s) Hn Hr) as Hb.
  destruct (par s RChildren x) as [d|] eqn:P.
  - destruct (push_spec (drefs s d) st bound) as (new & E & H1 & H2 & H3). rewrite E.
    assert (Hn' : NoDup (new ++ bound)).
    { apply nodup_app; [exact H2|exact Hn|]. intros a Ha Hb'. destruct (H1 a Ha) as [_ Hc]. exact (Hc Hb'). }
    assert (Hr' : forall y, In y (new ++ bound) -> y < next s).
    { intros y Hy. apply in_app_or in Hy as [Hy|Hy]; [|apply Hr; exact Hy].
      destruct (H1 y Hy) as [Hd _]. apply (i2_ref s I2) in Hd. exact (wk_range_iref s W _ _ Hd). }
    pose proof (nodup_bounded _ _ Hn' Hr') as Hb'.
    apply IH; [exact Hn'|exact Hr'|]. rewrite app_length in Hb'. rewrite !app_length. cbn [length] in Hl. unfold id in *. lia.
  - apply IH; [exact Hn|exact Hr|]. cbn [length] in Hl. lia.
Qed.

(* the marking is closed: at the end every start and every marked instance has all the instances
   of its containing definition marked *)
Definition Done (s : state) (b : list id) (z : id) : Prop := forall y, upst s z y -> In y b.

Lemma done_mono s b b' z : incl b b' -> Done s b z -> Done s b' z.
Proof. intros Hi Hd y Hy. apply Hi, Hd, Hy. Qed.

Lemma bound_close_closed s :
  forall fuel stack bound res,
    bound_close s fuel stack bound = Some res ->
    (forall z, In z bound -> In z stack \/ Done s bound z) ->
    incl bound res /\ (forall z, In z stack -> Done s res z) /\ (forall z, In z res -> Done s res z).
Proof.
  induction fuel as [|f IH]; intros stack bound res H Hinv; [discriminate|].
  destruct stack as [|x st].
  - cbn in H. inversion H; subst res. split; [apply incl_refl|]. split; [intros z []|].
    intros z Hz. destruct (Hinv z Hz) as [[]|Hd]. exact Hd.
  - rewrite bound_close_S in H. destruct (par s RChildren x) as [d|] eqn:P.
    + destruct (push_spec (drefs s d) st bound) as (new & E & H1 & H2 & H3). rewrite E in H.
      assert (Hx : Done s (new ++ bound) x).
      { intros y (d' & P' & Hy). rewrite P in P'. inversion P'; subst d'. apply H3. exact Hy. }
      assert (Hinc : incl bound (new ++ bound)) by (apply incl_appr, incl_refl).
      destruct (IH _ _ _ H) as (Ha & Hb & Hc).
      { intros z Hz. apply in_app_or in Hz as [Hz|Hz]; [left; apply in_or_app; left; exact Hz|].
        destruct (Hinv z Hz) as [[<-|Hs]|Hd].
        - right. exact Hx.
        - left. apply in_or_app. right. exact Hs.
        - right. eapply done_mono; eassumption. }
      split; [eapply incl_tran; eassumption|]. split; [|exact Hc].
      intros z [<-|Hz]; [eapply done_mono; eassumption|]. apply Hb. apply in_or_app. right. exact Hz.
    + assert (Hx : forall b, Done s b x).
      { intros b y (d' & P' & _). rewrite P in P'. discriminate. }
      destruct (IH _ _ _ H) as (Ha & Hb & Hc).
      { intros z Hz. destruct (Hinv z Hz) as [[<-|Hs]|Hd]; [right; apply Hx|left; exact Hs|right; exact Hd]. }
      split; [exact Ha|]. split; [|exact Hc]. intros z [<-|Hz]; [apply Hx|apply Hb; exact Hz].
Qed.

Lemma bound_close_ancestors s fuel insts res :
  bound_close s fuel insts [] = Some res ->
  forall x y, In x insts -> clos_trans id (upst s) x y -> In y res.
Proof.
  intro H. destruct (bound_close_closed s _ _ _ _ H) as (_ & Hb & Hc); [intros z []|].
  assert (G : forall x y, clos_trans_1n id (upst s) x y -> (In x insts \/ In x res) -> In y res).
  { induction 1 as [x y Hxy|x y z Hxy _ IHc]; intros Hx.
    - destruct Hx as [Hx|Hx]; [exact (Hb x Hx y Hxy)|exact (Hc x Hx y Hxy)].
    - apply IHc. right. destruct Hx as [Hx|Hx]; [exact (Hb x Hx y Hxy)|exact (Hc x Hx y Hxy)]. }
  intros x y Hx Hxy. apply (G x y); [apply clos_trans_t1n; exact Hxy|left; exact Hx].
Qed.

(* ------------------------------------------------------------------------------------------ *)
(* B. search_down                                                                              *)

Definition sd_child (s : state) (insts bound : list id) (f : nat) (h : href) (c : id) : option (list href) :=
  if memb c bound then search_down s insts bound f (c :: h)
  else if memb c insts then Some [c :: h] else Some [].

Lemma search_S s insts bound f x r :
  search_down s insts bound (S f) (x :: r) =
  match flat_opt (sd_child s insts bound f (x :: r)) (sub s x) with
  | Some l => Some ((if memb x insts then [x :: r] else []) ++ l)
  | None => None
  end.
Proof. reflexivity. Qed.

Lemma search_fuel_gen s insts bound : WFk s -> acyclic s ->
  forall fuel h, h <> [] -> is_chain s h -> next s + 2 <= fuel + length h ->
                 search_down s insts bound fuel h <> None.
Proof.
  intros W A. induction fuel as [|f IH]; intros h Hne Hc Hl.
  - exfalso. cbn in Hl. assert (length h <= next s) by (apply chain_length; auto; lia). lia.
  - destruct h as [|x r]; [congruence|]. rewrite search_S.
    destruct (flat_opt _ _) eqn:E; [discriminate|]. exfalso. revert E. apply flat_opt_some.
    intros c Hin. unfold sd_child. destruct (memb c bound).
    + apply IH; [discriminate|apply chain_cons2; split; assumption|cbn [length] in *; lia].
    + destruct (memb c insts); discriminate.
Qed.

(* the head of a proper extension of c :: h is a strict descendant of c *)
Lemma ext_desc s keep c h p :
  ext s keep (c :: h) p ->
  p = c :: h \/ exists y, hd_error p = Some y /\ clos_trans id (child s) y c.
Proof.
  induction 1 as [|c' x p' H IH Hc Hk]; [left; reflexivity|]. right. exists c'. split; [reflexivity|].
  destruct IH as [E|(y & Hy & Hyc)].
  - inversion E; subst. apply t_step. exact Hc.
  - cbn in Hy. inversion Hy; subst y. eapply t_trans; [apply t_step; exact Hc|exact Hyc].
Qed.

Definition ends_in (insts : list id) (p : href) : Prop := exists x, hd_error p = Some x /\ In x insts.

Lemma search_sound s insts bound : Inv1a s ->
  forall fuel h l, h <> [] -> search_down s insts bound fuel h = Some l ->
    NoDup l /\ forall p, In p l -> ext s keep_all h p /\ ends_in insts p.
Proof.
  intros I. induction fuel as [|f IH]; intros h l Hne H; [discriminate|].
  destruct h as [|x r]; [congruence|]. rewrite search_S in H.
  destruct (flat_opt _ _) as [l'|] eqn:E; [|discriminate]. inversion H; subst l. clear H.
  assert (Hin : forall p, In p l' ->
            exists c, In c (sub s x) /\ ext s keep_all (c :: x :: r) p /\ ends_in insts p).
  { intros p Hp. apply (flat_opt_in _ _ _ E p) in Hp as (c & lc & Hc & Hw & Hp).
    exists c. split; [exact Hc|]. unfold sd_child in Hw. destruct (memb c bound).
    - apply (IH (c :: x :: r) lc); [discriminate|exact Hw|exact Hp].
    - destruct (memb c insts) eqn:M; inversion Hw; subst lc; [|contradiction].
      destruct Hp as [<-|[]]. split; [apply ext_refl|]. exists c. split; [reflexivity|].
      apply memb_In. exact M. }
  assert (Hnd : NoDup l').
  { eapply flat_opt_nodup; [exact E|apply sub_nodup; exact I| |].
    - intros c lc _ Hw. unfold sd_child in Hw. destruct (memb c bound).
      + apply (IH (c :: x :: r) lc); [discriminate|exact Hw].
      + destruct (memb c insts); inversion Hw; subst lc; repeat constructor. intros [].
    - intros a b la lb p Ha Hb Hwa Hwb Hpa Hpb.
      assert (Sa : exists q, p = q ++ a :: x :: r).
      { unfold sd_child in Hwa. destruct (memb a bound).
        - apply (IH (a :: x :: r) la) in Hpa; [|discriminate|exact Hwa].
          destruct Hpa as [Hpa _]. apply ext_suffix in Hpa. exact Hpa.
        - destruct (memb a insts); inversion Hwa; subst la; [|contradiction].
          destruct Hpa as [<-|[]]. exists []. reflexivity. }
      assert (Sb : exists q, p = q ++ b :: x :: r).
      { unfold sd_child in Hwb. destruct (memb b bound).
        - apply (IH (b :: x :: r) lb) in Hpb; [|discriminate|exact Hwb].
          destruct Hpb as [Hpb _]. apply ext_suffix in Hpb. exact Hpb.
        - destruct (memb b insts); inversion Hwb; subst lb; [|contradiction].
          destruct Hpb as [<-|[]]. exists []. reflexivity. }
      destruct Sa as [q Hq]. destruct Sb as [q' Hq']. rewrite Hq in Hq'.
      exact (app_mid_inj _ _ _ _ _ Hq'). }
  split.
  - apply nodup_app; [destruct (memb x insts); repeat constructor; intros []|exact Hnd|].
    intros p Hp Hp'. destruct (memb x insts); [|contradiction]. destruct Hp as [<-|[]].
    apply Hin in Hp' as (c & _ & He & _). apply ext_suffix in He as [q Hq].
    exact (app_self_absurd _ _ _ Hq).
  - intros p Hp. apply in_app_or in Hp as [Hp|Hp].
    + destruct (memb x insts) eqn:M; [|contradiction]. destruct Hp as [<-|[]].
      split; [apply ext_refl|]. exists x. split; [reflexivity|apply memb_In; exact M].
    + apply Hin in Hp as (c & Hc & He & Hi). split; [|exact Hi].
      eapply ext_push; [exact Hc|reflexivity|exact He].
Qed.

Lemma search_complete s insts bound :
  (forall x y, In x insts -> clos_trans id (child s) x y -> In y bound) ->
  forall fuel h l p, h <> [] -> search_down s insts bound fuel h = Some l ->
    ext s keep_all h p -> ends_in insts p -> In p l.
Proof.
  intros CL. induction fuel as [|f IH]; intros h l p Hne H He Hi; [discriminate|].
  destruct h as [|x r]; [congruence|]. rewrite search_S in H.
  destruct (flat_opt _ _) as [l'|] eqn:E; [|discriminate]. inversion H; subst l. clear H.
  apply in_or_app. apply ext_inv in He as [->|(c & Hc & _ & He)].
  - left. destruct Hi as (y & Hy & Hyi). cbn in Hy. inversion Hy; subst y.
    apply memb_In in Hyi. rewrite Hyi. left. reflexivity.
  - right. apply (flat_opt_in _ _ _ E p).
    destruct (flat_opt_each _ _ _ E c Hc) as [lc Hw]. exists c, lc. split; [exact Hc|]. split; [exact Hw|].
    unfold sd_child in Hw. destruct (memb c bound) eqn:Mb.
    + apply (IH (c :: x :: r) lc p); [discriminate|exact Hw|exact He|exact Hi].
    + apply memb_false in Mb. destruct (ext_desc _ _ _ _ _ He) as [->|(y & Hy & Hyc)].
      * destruct Hi as (y & Hy & Hyi). cbn in Hy. inversion Hy; subst y.
        apply memb_In in Hyi. rewrite Hyi in Hw. inversion Hw. left. reflexivity.
      * exfalso. apply Mb. destruct Hi as (y' & Hy' & Hyi). rewrite Hy in Hy'. inversion Hy'; subst y'.
        exact (CL y c Hyi Hyc).
Qed.

(* ------------------------------------------------------------------------------------------ *)
(* C. hrefs_of_instances                                                                       *)

Lemma clos_trans_iff {A} (R R' : A -> A -> Prop) :
  (forall a b, R a b <-> R' a b) -> forall a b, clos_trans A R a b -> clos_trans A R' a b.
Proof.
  intros H a b. induction 1 as [a b Hab|a b c _ IH1 _ IH2].
  - apply t_step. apply H. exact Hab.
  - eapply t_trans; eassumption.
Qed.

Lemma set_of_In x l : In x (set_of l) <-> In x l.
Proof.
  induction l as [|y l IH]; [reflexivity|]. cbn [set_of]. destruct (memb y l) eqn:M.
  - rewrite IH. split; [intro H; right; exact H|]. intros [<-|H]; [apply memb_In; exact M|exact H].
  - cbn [In]. rewrite IH. reflexivity.
Qed.

Lemma set_of_NoDup l : NoDup (set_of l).
Proof.
  induction l as [|y l IH]; [constructor|]. cbn [set_of]. destruct (memb y l) eqn:M; [exact IH|].
  constructor; [|exact IH]. rewrite set_of_In. apply memb_false. exact M.
Qed.

(* the starting points of the search: the top instances among the instances handed in and the
   instances marked by the upward walk *)
Lemma reached_tops_In s insts bound t : WFk s ->
  (In t (reached_tops s insts bound) <-> (In t insts \/ In t bound) /\ is_root s t).
Proof.
  intro W. unfold reached_tops. rewrite filter_In, set_of_In, in_app_iff, is_valid_single.
  split; intros [Hi Hv]; (split; [exact Hi|]).
  - destruct (kind_of s t) as [[]|]; try discriminate. apply root_ok_iff. exact Hv.
  - assert (K : kind_of s t = Some KInstance).
    { destruct Hv as (n & Hn & _). unfold root_netlist in Hn.
      destruct (iref s t) as [d|] eqn:E; [|discriminate]. exact (wk_iref s W t d E). }
    rewrite K. apply root_ok_iff. exact Hv.
Qed.

Lemma reached_tops_NoDup s insts bound : NoDup (reached_tops s insts bound).
Proof. apply NoDup_filter, set_of_NoDup. Qed.

(* the head of an instance path below t is t itself or a strict descendant of t *)
Lemma rpath_head s t x p :
  is_rpath s t (x :: p) -> (x = t /\ p = []) \/ clos_trans id (child s) x t.
Proof.
  intro H. apply ext_all_rpath in H. apply ext_desc in H as [E|(y & Hy & Hyt)].
  - left. inversion E. split; reflexivity.
  - right. cbn in Hy. inversion Hy; subst y. exact Hyt.
Qed.

Theorem hrefs_of_instances_spec : forall s insts,
  Inv1a s -> Inv2a s -> WFk s -> acyclic s ->
  exists l, hrefs_of_instances s insts = Some l /\ NoDup l /\
            (forall p, In p l <-> ((exists t, is_path s t p) /\ ends_in insts p)).
Proof.
  intros s insts I1 I2 W A. unfold hrefs_of_instances.
  destruct (bound_close s (S (length insts + next s)) insts []) as [bound|] eqn:Eb.
  2:{ exfalso. revert Eb. apply bound_close_fuel; [exact I2|exact W|constructor|intros y []|].
      cbn [length]. lia. }
  set (f := fun t => search_down s insts bound (depth_fuel s) [t]).
  assert (Hne : forall t : id, [t] <> []) by (intros t; discriminate).
  destruct (flat_opt f (reached_tops s insts bound)) as [l|] eqn:E.
  2:{ exfalso. revert E. apply flat_opt_some. intros t _. unfold f.
      apply search_fuel_gen; [exact W|exact A|apply Hne|exact I|]. unfold depth_fuel. cbn. lia. }
  exists l. split; [reflexivity|]. split.
  - eapply flat_opt_nodup; [exact E|apply reached_tops_NoDup| |].
    + intros t x _ Hx. exact (proj1 (search_sound s insts bound I1 _ _ _ (Hne t) Hx)).
    + intros a b x y p _ _ Hx Hy Hpx Hpy.
      destruct (proj2 (search_sound s insts bound I1 _ _ _ (Hne a) Hx) p Hpx) as [Ha _].
      destruct (proj2 (search_sound s insts bound I1 _ _ _ (Hne b) Hy) p Hpy) as [Hb _].
      apply ext_suffix in Ha as [q ->]. apply ext_suffix in Hb as [q' Hq].
      apply app_inj_tail in Hq. apply Hq.
  - intro p. rewrite (flat_opt_in _ _ _ E p). split.
    + intros (t & x & Ht & Hx & Hp). apply (reached_tops_In s insts bound t W) in Ht as [_ Hr].
      destruct (proj2 (search_sound s insts bound I1 _ _ _ (Hne t) Hx) p Hp) as [He Hi].
      split; [|exact Hi]. exists t. split; [exact Hr|apply ext_all_rpath; exact He].
    + intros [(t & Hr & Hp) Hi].
      assert (Ht : In t (reached_tops s insts bound)).
      { apply (reached_tops_In s insts bound t W). split; [|exact Hr].
        destruct Hi as (x & Hx & Hxi). destruct p as [|y p']; [discriminate|]. cbn in Hx. inversion Hx; subst y.
        destruct (rpath_head s t x p' Hp) as [[-> _]|Hc]; [left; exact Hxi|]. right.
        eapply bound_close_ancestors; [exact Eb|exact Hxi|].
        eapply clos_trans_iff; [|exact Hc]. intros a b. symmetry. apply upst_child; assumption. }
      destruct (flat_opt_each _ _ _ E t Ht) as [x Hx]. exists t, x. split; [exact Ht|]. split; [exact Hx|].
      eapply search_complete; [|apply (Hne t)|exact Hx|apply ext_all_rpath; exact Hp|exact Hi].
      intros a b Ha Hab. eapply bound_close_ancestors; [exact Eb|exact Ha|].
      eapply clos_trans_iff; [|exact Hab]. intros c d. symmetry. apply upst_child; assumption.
Qed.

(* with a netlist handed in: the instance paths below ITS top instance that end in one of the
   instances (they are valid references when that top instance is rooted in the netlist) *)
Theorem hrefs_of_instances_in_spec : forall s insts n t,
  Inv1a s -> Inv2a s -> WFk s -> acyclic s -> top s n = Some t ->
  exists l, hrefs_of_instances_in s insts n = Some l /\ NoDup l /\
            (forall p, In p l <-> (is_rpath s t p /\ ends_in insts p)).
Proof.
  intros s insts n t I1 I2 W A Ht. unfold hrefs_of_instances_in. rewrite Ht.
  destruct (bound_close s (S (length insts + next s)) insts []) as [bound|] eqn:Eb.
  2:{ exfalso. revert Eb. apply bound_close_fuel; [exact I2|exact W|constructor|intros y []|].
      cbn [length]. lia. }
  destruct (search_down s insts bound (depth_fuel s) [t]) as [l|] eqn:Es.
  2:{ exfalso. revert Es. apply search_fuel_gen; [exact W|exact A|discriminate|exact I|].
      unfold depth_fuel. cbn. lia. }
  exists l. split; [reflexivity|].
  assert (Hne : [t] <> []) by discriminate.
  destruct (search_sound s insts bound I1 _ _ _ Hne Es) as [Hn Hs].
  split; [exact Hn|]. intro p. split.
  - intro Hp. destruct (Hs p Hp) as [He Hi]. split; [apply ext_all_rpath; exact He|exact Hi].
  - intros [Hp Hi]. eapply search_complete; [|exact Hne|exact Es|apply ext_all_rpath; exact Hp|exact Hi].
    intros x y Hx Hxy. eapply bound_close_ancestors; [exact Eb|exact Hx|].
    eapply clos_trans_iff; [|exact Hxy]. intros a b. symmetry. apply upst_child; assumption.
Qed.

(* no instance handed in: nothing is returned *)
Lemma hrefs_of_instances_nil s : hrefs_of_instances s [] = Some [].
Proof. unfold hrefs_of_instances. cbn. reflexivity. Qed.

Print Assumptions hrefs_of_instances_spec.
Print Assumptions hrefs_of_instances_in_spec.
