(* flatten is a composition of public IR calls, so it inherits the containment and reference-set
   invariants of C01/C02 (the "netlist stays well-formed" clause of C09); uniquify on an already
   unique design is the identity (the "running it again changes nothing" clause of C08). *)
From Coq Require Import List Arith NArith ZArith Bool.
From RecordUpdate Require Import RecordSet.
From SV Require Import Base.Base IR.State IR.NS IR.Ops Xform.Clone Xform.Strs Xform.Xform
  Proofs.Frame Proofs.Inv1a Proofs.Inv2a Proofs.InvP Proofs.InvW.
Import ListNotations RecordSetNotations.

Definition not_stuck (r : XR) : Prop := snd r <> Some (XE XStuck).

Section Preserve.
  (* P: a state predicate preserved by every IR step that does not get stuck, and insensitive to
     the data dictionaries / namespace tables / log *)
  Variable P : state -> Prop.
  Hypothesis P_step : forall s o, P s -> snd (step s o) <> Some XStuck -> P (fst (step s o)).
  Hypothesis P_struct : forall s s', struct_eq s s' -> P s -> P s'.

  Definition XP (r : XR) : Prop := not_stuck r -> P (st (fst r)).

  Lemma xp_liftR x (r : R) k :
    (snd r <> Some XStuck -> P (fst r)) ->
    (forall x', P (st x') -> XP (k x')) ->
    XP (liftR x r k).
  Proof.
    intros Hr Hk. unfold liftR. destruct r as [s [e|]]; cbn in *.
    - intro Hn. cbn. apply Hr. intro H. apply Hn. cbn. congruence.
    - apply Hk. cbn. apply Hr. discriminate.
  Qed.

  Lemma xp_ret x o : P (st x) -> XP (x, o).
  Proof. intros H _. exact H. Qed.

  Lemma xp_step x o k :
    P (st x) -> (forall x', P (st x') -> XP (k x')) -> XP (liftR x (step (st x) o) k).
  Proof. intros H Hk. apply xp_liftR; [apply P_step; exact H|exact Hk]. Qed.

  Lemma xp_dict_set x e k v kk :
    P (st x) -> (forall x', P (st x') -> XP (kk x')) -> XP (liftR x (dict_set (st x) e k v) kk).
  Proof.
    intros H Hk. apply xp_liftR; [|exact Hk]. intros _. eapply P_struct; [apply se_dict_set|exact H].
  Qed.

  Lemma xp_set_name x e nm kk :
    P (st x) -> (forall x', P (st x') -> XP (kk x')) -> XP (liftR x (op_set_name (st x) e nm) kk).
  Proof.
    intros H Hk. apply xp_liftR; [|exact Hk]. intros _. eapply P_struct; [apply se_op_set_name|exact H].
  Qed.

  Lemma xp_bring_to_top x e nm topd : P (st x) -> XP (bring_to_top x e nm topd).
  Proof.
    intro H. unfold bring_to_top.
    set (step1 := if has_key (st x) e str_IDENT then _ else _).
    assert (H1 : XP step1).
    { unfold step1. destruct (has_key (st x) e str_IDENT); [|apply xp_ret; exact H].
      apply (xp_dict_set (mkX (st x) (uniq_ctr x) (S (flat_ctr x)))); [exact H|]. intros; apply xp_ret; assumption. }
    destruct step1 as [x2 [err|]]; [exact H1|].
    assert (H2 : P (st x2)) by (apply H1; discriminate).
    destruct (par (st x2) _ e) as [d|]; [|apply xp_ret; exact H2].
    apply (xp_step x2 (ORemove (if is_cable (st x) e then RCables else RChildren) d e)); [exact H2|].
    intros x3 H3. cbv zeta.
    apply xp_set_name; [exact H3|]. intros x4 H4.
    apply (xp_step x4 (OAdd (if is_cable (st x) e then RCables else RChildren) topd e None)); [exact H4|].
    intros; apply xp_ret; assumption.
  Qed.

  Lemma xp_xfold f l : (forall x a, P (st x) -> XP (f x a)) -> forall x, P (st x) -> XP (xfold f l x).
  Proof.
    intro Hf. induction l as [|a l IH]; intros x H; cbn; [apply xp_ret; exact H|].
    pose proof (Hf x a H) as Ha. destruct (f x a) as [x1 [e|]]; [exact Ha|].
    apply IH. apply Ha. discriminate.
  Qed.

  Lemma xp_redo_pin x inst i : P (st x) -> XP (redo_pin x inst i).
  Proof.
    intro H. unfold redo_pin.
    destruct (assoc i (ipins (st x) inst)) as [out_wire|]; [|intro Hn; exfalso; apply Hn; reflexivity].
    set (r1 := match ipwire (st x) i with Some iw => _ | None => _ end).
    assert (H1 : XP r1).
    { unfold r1. destruct (ipwire (st x) i) as [iw|]; [|apply xp_ret; exact H].
      apply (xp_step x (ODisconnect iw (PIn i))); [exact H|]. intros; apply xp_ret; assumption. }
    destruct r1 as [x1 [e|]]; [exact H1|].
    assert (Hx1 : P (st x1)) by (apply H1; discriminate).
    set (r2 := match out_wire with Some ow => _ | None => _ end).
    assert (H2 : XP r2).
    { unfold r2. destruct out_wire as [ow|]; [|apply xp_ret; exact Hx1].
      apply (xp_step x1 (ODisconnect ow (POut inst i))); [exact Hx1|]. intros; apply xp_ret; assumption. }
    destruct r2 as [x2 [e|]]; [exact H2|].
    assert (Hx2 : P (st x2)) by (apply H2; discriminate).
    destruct (ipwire (st x) i) as [iw|]; [|apply xp_ret; exact Hx2].
    destruct out_wire as [ow|]; [|apply xp_ret; exact Hx2].
    generalize (wpins (st x2) iw). intro ps. clear H2. revert x2 Hx2.
    induction ps as [|p ps IH]; intros x2 Hx2; [apply xp_ret; exact Hx2|].
    apply (xp_step x2 (ODisconnect iw p)); [exact Hx2|]. intros xa Ha.
    apply (xp_step xa (OConnect ow p None)); [exact Ha|]. intros xb Hb. apply IH. exact Hb.
  Qed.

  Lemma xp_flat_loop topd : forall fuel x queue tr, P (st x) -> XP (fst (flat_loop fuel x topd queue tr)).
  Proof.
    induction fuel as [|f IH]; intros x queue tr H; destruct queue as [|[inst pname] rest]; cbn [flat_loop fst];
      try (apply xp_ret; exact H).
    pose proof (xp_bring_to_top x inst pname topd H) as Hb.
    destruct (bring_to_top x inst pname topd) as [x1 [e|]]; cbn [fst]; [exact Hb|].
    assert (H1 : P (st x1)) by (apply Hb; discriminate).
    destruct (iref (st x1) inst) as [d|]; cbn [fst]; [|apply xp_ret; exact H1].
    destruct (is_leaf_def (st x1) d); [apply IH; exact H1|].
    set (iname := Some (name_in_path (st x1) inst)).
    pose proof (xp_xfold (fun x c => bring_to_top x c iname topd) (kids (st x1) RCables d)
                  (fun x0 a H0 => xp_bring_to_top x0 a iname topd H0) x1 H1) as Hc.
    destruct (xfold _ (kids (st x1) RCables d) x1) as [x2 [e|]]; cbn [fst]; [exact Hc|].
    assert (H2 : P (st x2)) by (apply Hc; discriminate).
    pose proof (xp_xfold (fun x p => xfold (fun x i => redo_pin x inst i) (kids (st x) RPins p) x)
                  (kids (st x2) RPorts d)
                  (fun x0 p H0 => xp_xfold (fun x i => redo_pin x inst i) (kids (st x0) RPins p)
                                     (fun xa i Ha => xp_redo_pin xa inst i Ha) x0 H0) x2 H2) as Hp.
    destruct (xfold _ (kids (st x2) RPorts d) x2) as [x3 [e|]]; cbn [fst]; [exact Hp|].
    apply IH. apply Hp. discriminate.
  Qed.

  Theorem flatten_preserves fuel x n : P (st x) -> XP (flatten fuel x n).
  Proof.
    intro H. unfold flatten.
    destruct (top (st x) n) as [t|]; [|apply xp_ret; exact H].
    destruct (iref (st x) t) as [topd|]; [|apply xp_ret; exact H].
    pose proof (xp_flat_loop topd fuel x (map (fun c => (c, None)) (kids (st x) RChildren topd)) [] H) as Hl.
    destruct (flat_loop fuel x topd _ []) as [[x1 [e|]] tr]; cbn in Hl; [exact Hl|].
    apply xp_xfold; [|apply Hl; discriminate].
    intros x0 i H0. apply (xp_step x0 (ORemove RChildren topd i)); [exact H0|]. intros; apply xp_ret; assumption.
  Qed.
End Preserve.

Lemma inv1a_struct s s' : struct_eq s s' -> Inv1a s -> Inv1a s'.
Proof. intros H. apply inv1a_cont, struct_cont, H. Qed.
Lemma inv2a_struct s s' : struct_eq s s' -> Inv2a s -> Inv2a s'.
Proof. intros H. apply inv2a_ref, struct_ref, H. Qed.

Theorem flatten_inv1a fuel x n :
  Inv1a (st x) -> not_stuck (flatten fuel x n) -> Inv1a (st (fst (flatten fuel x n))).
Proof. intro H. apply (flatten_preserves Inv1a step_inv1a inv1a_struct fuel x n H). Qed.

Theorem flatten_inv2a fuel x n :
  Inv2a (st x) -> not_stuck (flatten fuel x n) -> Inv2a (st (fst (flatten fuel x n))).
Proof. intro H. apply (flatten_preserves Inv2a step_inv2a inv2a_struct fuel x n H). Qed.

(* the full C01/C02 invariant (containment, pin-wire, reference sets, outer-pin mirror) *)
Theorem flatten_inv fuel x n :
  Inv (st x) -> not_stuck (flatten fuel x n) -> Inv (st (fst (flatten fuel x n))).
Proof.
  intro H. apply (flatten_preserves Inv (fun s o Hs _ => proj1 (step_inv s o Hs)) inv_struct fuel x n H).
Qed.

(* ---- uniquify on an already unique design ---- *)
Fixpoint uniq_clean (fuel : nat) (s : state) (queue : list id) : bool :=
  match queue with
  | [] => true
  | inst :: rest =>
      match fuel with
      | O => false
      | S f =>
          match inst_unique s inst, iref s inst with
          | Some true, Some d => uniq_clean f s (rest ++ kids s RChildren d)
          | _, _ => false
          end
      end
  end.

Theorem uniquify_fixpoint fuel : forall x queue,
  uniq_clean fuel (st x) queue = true -> uniq_loop fuel x queue = (x, None).
Proof.
  induction fuel as [|f IH]; intros x [|inst rest]; cbn; try reflexivity; try discriminate.
  destruct (inst_unique (st x) inst) as [[|]|]; try discriminate.
  destruct (iref (st x) inst) as [d|]; [|discriminate]. apply IH.
Qed.
