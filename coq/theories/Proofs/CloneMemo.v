(* C07, faithfulness of Definition._clone (phase one): the memo is an injective map from the copied
   objects of the source to fresh objects, every fresh pin / wire / instance is the image of exactly
   one source object and carries that object's wire pointer / pin list / outer-pin table, and no
   other pin-wire field changes. *)
From Coq Require Import List Arith Bool Lia.
From RecordUpdate Require Import RecordSet.
From SV Require Import Base.Base IR.State IR.NS IR.Ops Xform.Clone Proofs.AssocX Proofs.Frame Proofs.Inv1a
  Proofs.InvW Proofs.Fresh Proofs.NsInv Proofs.CloneInv Proofs.RefK Proofs.CloneRef Proofs.CloneT Proofs.FieldT.
Import ListNotations RecordSetNotations.

Record PI (s0 s : state) (m : memo) : Prop := mkPI {
  pi_le : next s0 <= next s;
  pi_rng : forall a b, In (a, b) m -> a < next s0 /\ next s0 <= b < next s;
  pi_fun : NoDup (map fst m);
  pi_inj : NoDup (map snd m);
  pi_kind : forall a b, In (a, b) m -> kind_of s b = kind_of s0 a;
  pi_pin : forall a b, In (a, b) m -> kind_of s b = Some KPin -> ipwire s b = ipwire s0 a;
  pi_wire : forall a b, In (a, b) m -> kind_of s b = Some KWire -> wpins s b = wpins s0 a;
  pi_inst : forall a b, In (a, b) m -> kind_of s b = Some KInstance -> ipins s b = ipins s0 a /\ iref s b = iref s0 a;
  pi_def : forall y, next s0 <= y ->
             (kind_of s y <> Some KPin -> ipwire s y = None) /\ (kind_of s y <> Some KWire -> wpins s y = []) /\
             (kind_of s y <> Some KInstance -> ipins s y = [] /\ iref s y = None);
  pi_cov : forall y, next s0 <= y < next s ->
             (kind_of s y = Some KPin \/ kind_of s y = Some KWire \/ kind_of s y = Some KInstance) -> exists a, In (a, y) m;
  pi_old : forall y, y < next s0 -> ipwire s y = ipwire s0 y /\ wpins s y = wpins s0 y /\ ipins s y = ipins s0 y /\ kind_of s y = kind_of s0 y /\ iref s y = iref s0 y;
  pi_kids : forall r y, y < next s0 -> kids s r y = kids s0 r y;
  pi_fresh : forall y, next s <= y -> kind_of s y = None
}.

Lemma pi_start s0 : FT s0 -> Fresh s0 -> PI s0 s0 [].
Proof.
  intros T F. constructor.
  - apply Nat.le_refl.
  - intros a b [].
  - constructor.
  - constructor.
  - intros a b [].
  - intros a b [].
  - intros a b [].
  - intros a b [].
  - intros y Hy. destruct (ft_above s0 T F y Hy) as [A [B C]]. split; [intros _; exact A|split; [intros _; exact B|intros _; split; [exact C|apply (f_iref _ F); exact Hy]]].
  - intros y Hy. lia.
  - intros y Hy. repeat split.
  - intros r y Hy. reflexivity.
  - intros y Hy. apply (f_kind _ F). exact Hy.
Qed.

(* a step that allocates one object of kind K for source x and copies at most one pin-wire field *)
Lemma pi_leaf s0 s m x K s' :
  PI s0 s m -> x < next s0 -> ~ In x (map fst m) -> kind_of s0 x = Some K ->
  next s' = S (next s) -> kind_of s' = upd (kind_of s) (next s) (Some K) -> kids s' = kids s ->
  (forall y, y <> next s -> ipwire s' y = ipwire s y /\ wpins s' y = wpins s y /\ ipins s' y = ipins s y /\ iref s' y = iref s y) ->
  ipwire s' (next s) = (if kind_eqb K KPin then ipwire s x else ipwire s (next s)) ->
  wpins s' (next s) = (if kind_eqb K KWire then wpins s x else wpins s (next s)) ->
  ipins s' (next s) = (if kind_eqb K KInstance then ipins s x else ipins s (next s)) ->
  iref s' (next s) = (if kind_eqb K KInstance then iref s x else iref s (next s)) ->
  PI s0 s' ((x, next s) :: m).
Proof.
  intros [P0 P1 P2 P3 P4 P5 P6 P7 P8 P9 P10 P11 P12] Hx Hnx HK Hn Hkd Hkids Hoth Hw Hp Hi Hr.
  assert (Hkold : forall y, y <> next s -> kind_of s' y = kind_of s y).
  { intros y Hy. rewrite Hkd. unfold upd. apply Nat.eqb_neq in Hy. rewrite Hy. reflexivity. }
  assert (Hknew : kind_of s' (next s) = Some K) by (rewrite Hkd; apply upd_same).
  assert (Hb : forall a b, In (a, b) m -> b <> next s) by (intros a b H; destruct (P1 a b H); lia).
  destruct (P10 x Hx) as [Ox1 [Ox2 [Ox3 [_ Ox4]]]].
  destruct (P8 (next s) P0) as [Dn1 [Dn2 Dn3]]. rewrite (P12 (next s) (Nat.le_refl _)) in Dn1, Dn2, Dn3.
  constructor.
  - lia.
  - intros a b [E|H]; [injection E as <- <-; lia|destruct (P1 a b H); lia].
  - cbn. constructor; assumption.
  - cbn. constructor; [|exact P3]. intro H. apply in_map_iff in H as [[a b] [E H]]. cbn in E. subst b. apply (Hb a _ H). reflexivity.
  - intros a b [E|H]; [injection E as <- <-; rewrite Hknew, HK; reflexivity|rewrite (Hkold b (Hb a b H)); apply P4; exact H].
  - intros a b [E|H] Hk.
    + injection E as <- <-. rewrite Hknew in Hk. injection Hk as ->. rewrite Hw. cbn. exact Ox1.
    + rewrite (Hkold b (Hb a b H)) in Hk. rewrite (proj1 (Hoth b (Hb a b H))). apply P5; assumption.
  - intros a b [E|H] Hk.
    + injection E as <- <-. rewrite Hknew in Hk. injection Hk as ->. rewrite Hp. cbn. exact Ox2.
    + rewrite (Hkold b (Hb a b H)) in Hk. rewrite (proj1 (proj2 (Hoth b (Hb a b H)))). apply P6; assumption.
  - intros a b [E|H] Hk.
    + injection E as <- <-. rewrite Hknew in Hk. injection Hk as ->. rewrite Hi, Hr. cbn. split; assumption.
    + rewrite (Hkold b (Hb a b H)) in Hk. destruct (Hoth b (Hb a b H)) as [_ [_ [-> ->]]]. apply P7; assumption.
  - intros y Hy. destruct (Nat.eq_dec y (next s)) as [->|Hne].
    + rewrite Hknew, Hw, Hp, Hi, Hr. split; [|split]; intro Hk.
      * destruct K; try (exfalso; apply Hk; reflexivity); cbn; apply Dn1; discriminate.
      * destruct K; try (exfalso; apply Hk; reflexivity); cbn; apply Dn2; discriminate.
      * destruct K; try (exfalso; apply Hk; reflexivity); cbn; apply Dn3; discriminate.
    + rewrite (Hkold y Hne). destruct (Hoth y Hne) as [-> [-> [-> ->]]]. apply P8. exact Hy.
  - intros y Hy Hk. destruct (Nat.eq_dec y (next s)) as [->|Hne]; [exists x; left; reflexivity|].
    rewrite (Hkold y Hne) in Hk. destruct (P9 y ltac:(lia) Hk) as [a Ha]. exists a. right. exact Ha.
  - intros y Hy. assert (Hne : y <> next s) by lia. rewrite (Hkold y Hne). destruct (Hoth y Hne) as [-> [-> [-> ->]]]. apply P10. exact Hy.
  - intros r y Hy. rewrite Hkids. apply P11. exact Hy.
  - intros y Hy. rewrite Hkold by lia. apply P12. lia.
Qed.

(* a step that leaves kinds, the three pin-wire fields, the counter and the old containers alone *)
Lemma pi_same s0 s s' m :
  PI s0 s m -> next s' = next s -> kind_of s' = kind_of s -> ipwire s' = ipwire s -> wpins s' = wpins s -> ipins s' = ipins s -> iref s' = iref s ->
  (forall r y, y < next s0 -> kids s' r y = kids s r y) -> PI s0 s' m.
Proof.
  intros [P0 P1 P2 P3 P4 P5 P6 P7 P8 P9 P10 P11 P12] Hn Hk Hw Hp Hi Hr Hkids.
  constructor; rewrite ?Hn, ?Hk, ?Hw, ?Hp, ?Hi, ?Hr; try assumption.
  intros r y Hy. rewrite Hkids by exact Hy. apply P11. exact Hy.
Qed.

(* what clone_alloc does to the fields we follow *)
Lemma clone_alloc_fields s k s1 x : clone_alloc s k = (s1, x) ->
  x = next s /\ next s1 = S (next s) /\ kind_of s1 = upd (kind_of s) (next s) (Some k) /\ kids s1 = kids s /\
  ipwire s1 = ipwire s /\ wpins s1 = wpins s /\ ipins s1 = ipins s /\ iref s1 = iref s.
Proof.
  unfold clone_alloc, alloc. cbn zeta.
  set (sa := s <| next := S (next s) |> <| kind_of ::= fun f => upd f (next s) (Some k) |>).
  destruct (has_data k); intro E; injection E as <- <-.
  - pose proof (se_ns_create sa (next s)) as H. cbn.
    rewrite (se_next _ _ H), (se_kind _ _ H), (se_kids _ _ H), (se_ipwire _ _ H), (se_wpins _ _ H), (se_ipins _ _ H), (se_iref _ _ H). repeat split.
  - repeat split.
Qed.

Definition keys_ext (m m' : memo) (K : list id) : Prop := forall y, In y (map fst m') <-> In y K \/ In y (map fst m).

(* ---- the three leaves ---- *)
Lemma pi_pin_clone1 s0 s m i s' m' i' :
  PI s0 s m -> i < next s0 -> ~ In i (map fst m) -> kind_of s0 i = Some KPin ->
  pin_clone1 (s, m) i = ((s', m'), i') -> PI s0 s' m' /\ m' = (i, i') :: m /\ i' = next s.
Proof.
  intros P Hi Hn Hk E. unfold pin_clone1 in E. destruct (clone_alloc s KPin) as [s1 x] eqn:Ea.
  destruct (clone_alloc_fields _ _ _ _ Ea) as [Hx [N1 [K1 [Kd1 [W1 [P1 [I1 R1]]]]]]]. injection E as <- <- <-. subst x.
  split; [|split; reflexivity].
  apply (pi_leaf s0 s m i KPin); try assumption; cbn; rewrite ?W1, ?P1, ?I1, ?R1; try reflexivity.
  - intros y Hy. unfold upd. apply Nat.eqb_neq in Hy. rewrite Hy. repeat split.
  - apply upd_same.
Qed.

Lemma pi_wire_clone1 s0 s m i s' m' i' :
  PI s0 s m -> i < next s0 -> ~ In i (map fst m) -> kind_of s0 i = Some KWire ->
  wire_clone1 (s, m) i = ((s', m'), i') -> PI s0 s' m' /\ m' = (i, i') :: m /\ i' = next s.
Proof.
  intros P Hi Hn Hk E. unfold wire_clone1 in E. destruct (clone_alloc s KWire) as [s1 x] eqn:Ea.
  destruct (clone_alloc_fields _ _ _ _ Ea) as [Hx [N1 [K1 [Kd1 [W1 [P1 [I1 R1]]]]]]]. injection E as <- <- <-. subst x.
  split; [|split; reflexivity].
  apply (pi_leaf s0 s m i KWire); try assumption; cbn; rewrite ?W1, ?P1, ?I1, ?R1; try reflexivity.
  - intros y Hy. unfold upd. apply Nat.eqb_neq in Hy. rewrite Hy. repeat split.
  - apply upd_same.
Qed.

Lemma pi_inst_clone1 s0 s m i s' m' i' :
  PI s0 s m -> i < next s0 -> ~ In i (map fst m) -> kind_of s0 i = Some KInstance ->
  inst_clone1 (s, m) i = ((s', m'), i') -> PI s0 s' m' /\ m' = (i, i') :: m /\ i' = next s.
Proof.
  intros P Hi Hn Hk E. unfold inst_clone1 in E. destruct (clone_alloc s KInstance) as [s1 x] eqn:Ea.
  destruct (clone_alloc_fields _ _ _ _ Ea) as [Hx [N1 [K1 [Kd1 [W1 [P1 [I1 R1]]]]]]]. injection E as <- <- <-. subst x.
  split; [|split; reflexivity].
  apply (pi_leaf s0 s m i KInstance); try assumption; cbn; rewrite ?W1, ?P1, ?I1, ?R1; try reflexivity.
  - intros y Hy. unfold upd. apply Nat.eqb_neq in Hy. rewrite Hy. repeat split.
  - apply upd_same.
  - apply upd_same.
Qed.

(* ---- lists of siblings ---- *)
Lemma nodup_app_disj {A} (a b : list A) y : NoDup (a ++ b) -> In y a -> In y b -> False.
Proof.
  induction a as [|x a IH]; cbn; intros H Ha Hb; [destruct Ha|].
  inversion H as [|? ? Hn Hd]; subst. destruct Ha as [<-|Ha]; [apply Hn, in_or_app; right; exact Hb|apply IH; assumption].
Qed.
Lemma nodup_app_l {A} (a b : list A) : NoDup (a ++ b) -> NoDup a.
Proof. induction a as [|x a IH]; cbn; intro H; [constructor|]. inversion H as [|? ? Hn Hd]; subst. constructor; [intro Hx; apply Hn, in_or_app; left; exact Hx|apply IH; exact Hd]. Qed.
Lemma nodup_app_r {A} (a b : list A) : NoDup (a ++ b) -> NoDup b.
Proof. induction a as [|x a IH]; cbn; intro H; [exact H|]. inversion H; subst. apply IH. assumption. Qed.
Lemma flat_map_single (l : list id) : flat_map (fun i => [i]) l = l.
Proof. induction l as [|x l IH]; cbn; [reflexivity|]. rewrite IH. reflexivity. Qed.

Section Steps.
  Variable s0 : state.

  Definition msub (m m' : memo) : Prop := forall e, In e m -> In e m'.
  (* containers of everything allocated before the step are not touched by it *)
  Definition kstable (s s' : state) : Prop := next s <= next s' /\ forall r y, y < next s -> kids s' r y = kids s r y.
  Lemma kstable_refl s : kstable s s. Proof. split; [apply Nat.le_refl|reflexivity]. Qed.
  Lemma kstable_trans a b c : kstable a b -> kstable b c -> kstable a c.
  Proof. intros [A1 A2] [B1 B2]. split; [lia|]. intros r y Hy. rewrite B2 by lia. apply A2. exact Hy. Qed.

  (* a postcondition about the image of one cloned object that later steps cannot destroy *)
  Definition Stable (Post : id -> id -> state -> memo -> Prop) : Prop :=
    forall x x' s m s2 m2, Post x x' s m -> x' < next s -> msub m m2 -> kstable s s2 -> Post x x' s2 m2.

  Definition StepOK (f : SM -> id -> SM * id) (Kf : id -> list id) (Pre : id -> Prop) (Post : id -> id -> state -> memo -> Prop) : Prop :=
    forall s m x s' m' x', PI s0 s m -> Pre x -> NoDup (Kf x) -> (forall y, In y (Kf x) -> ~ In y (map fst m)) ->
      f (s, m) x = ((s', m'), x') ->
      PI s0 s' m' /\ keys_ext m m' (Kf x) /\ msub m m' /\ In (x, x') m' /\ kstable s s' /\ Post x x' s' m'.

  Lemma pi_clone_each f Kf Pre Post : StepOK f Kf Pre Post -> Stable Post -> forall l s m s' m' l',
    PI s0 s m -> (forall x, In x l -> Pre x) -> NoDup (flat_map Kf l) -> (forall y, In y (flat_map Kf l) -> ~ In y (map fst m)) ->
    clone_each f l (s, m) = ((s', m'), l') ->
    PI s0 s' m' /\ keys_ext m m' (flat_map Kf l) /\ msub m m' /\ kstable s s' /\
    Forall2 (fun x x' => In (x, x') m' /\ Post x x' s' m') l l'.
  Proof.
    intros Hf Hst. induction l as [|x l IH]; intros s m s' m' l' P Hpre Hnd Hnk E; cbn [clone_each] in E.
    - injection E as <- <- <-. split; [exact P|]. split; [intro y; cbn; tauto|]. split; [intros e H; exact H|]. split; [apply kstable_refl|constructor].
    - destruct (f (s, m) x) as [[s1 m1] x'] eqn:E1. cbn [flat_map] in Hnd, Hnk.
      destruct (Hf s m x s1 m1 x' P (Hpre x (or_introl eq_refl)) (nodup_app_l _ _ Hnd)
                  (fun y Hy => Hnk y (in_or_app _ _ _ (or_introl Hy))) E1) as [P1 [K1 [S1 [I1 [KS1 Q1]]]]].
      destruct (clone_each f l (s1, m1)) as [[s2 m2] l2] eqn:E2.
      assert (Hnk1 : forall y, In y (flat_map Kf l) -> ~ In y (map fst m1)).
      { intros y Hy Hin. apply K1 in Hin as [Hin|Hin]; [apply (nodup_app_disj _ _ y Hnd Hin Hy)|].
        apply (Hnk y (in_or_app _ _ _ (or_intror Hy)) Hin). }
      destruct (IH s1 m1 s2 m2 l2 P1 (fun z Hz => Hpre z (or_intror Hz)) (nodup_app_r _ _ Hnd) Hnk1 E2) as [P2 [K2 [S2 [KS2 F2]]]].
      injection E as <- <- <-. split; [exact P2|]. split; [|split; [|split]].
      + intro y. cbn [flat_map]. split.
        * intro H. apply K2 in H as [H|H]; [left; apply in_or_app; right; exact H|].
          apply K1 in H as [H|H]; [left; apply in_or_app; left; exact H|right; exact H].
        * intros [H|H]; apply K2; [apply in_app_or in H as [H|H]; [right; apply K1; left; exact H|left; exact H]|right; apply K1; right; exact H].
      + intros e He. apply S2, S1, He.
      + eapply kstable_trans; eassumption.
      + constructor; [|exact F2]. split; [apply S2; exact I1|].
        apply (Hst x x' s1 m1 s2 m2 Q1); [destruct (pi_rng _ _ _ P1 x x' I1); lia|exact S2|exact KS2].
  Qed.

  Definition PreLeaf (K : kind) (x : id) : Prop := x < next s0 /\ kind_of s0 x = Some K.
  Definition NoPost : id -> id -> state -> memo -> Prop := fun _ _ _ _ => True.
  Lemma nopost_stable : Stable NoPost. Proof. intros x x' s m s2 m2 _ _ _ _. exact I. Qed.

  Lemma step_pin : StepOK pin_clone1 (fun i => [i]) (PreLeaf KPin) NoPost.
  Proof.
    intros s m x s' m' x' P [Hx Hk] _ Hn E.
    destruct (pin_clone1_leaf _ _ _ _ _ _ E) as [_ [N' [K' _]]].
    destruct (pi_pin_clone1 s0 s m x s' m' x' P Hx (Hn x (or_introl eq_refl)) Hk E) as [P' [-> _]].
    split; [exact P'|]. split; [intro y; cbn; tauto|]. split; [intros e H; right; exact H|]. split; [left; reflexivity|].
    split; [split; [lia|intros r y _; rewrite K'; reflexivity]|exact I].
  Qed.
  Lemma step_wire : StepOK wire_clone1 (fun i => [i]) (PreLeaf KWire) NoPost.
  Proof.
    intros s m x s' m' x' P [Hx Hk] _ Hn E.
    destruct (wire_clone1_leaf _ _ _ _ _ _ E) as [_ [N' [K' _]]].
    destruct (pi_wire_clone1 s0 s m x s' m' x' P Hx (Hn x (or_introl eq_refl)) Hk E) as [P' [-> _]].
    split; [exact P'|]. split; [intro y; cbn; tauto|]. split; [intros e H; right; exact H|]. split; [left; reflexivity|].
    split; [split; [lia|intros r y _; rewrite K'; reflexivity]|exact I].
  Qed.
  Lemma step_inst : StepOK inst_clone1 (fun i => [i]) (PreLeaf KInstance) NoPost.
  Proof.
    intros s m x s' m' x' P [Hx Hk] _ Hn E.
    destruct (inst_clone1_leaf _ _ _ _ _ _ E) as [_ [N' [K' _]]].
    destruct (pi_inst_clone1 s0 s m x s' m' x' P Hx (Hn x (or_introl eq_refl)) Hk E) as [P' [-> _]].
    split; [exact P'|]. split; [intro y; cbn; tauto|]. split; [intros e H; right; exact H|]. split; [left; reflexivity|].
    split; [split; [lia|intros r y _; rewrite K'; reflexivity]|exact I].
  Qed.

  Lemma fields_fold_set_par r p : forall L s,
    ipwire (fold_ids (fun s i => set_par s r i p) L s) = ipwire s /\ wpins (fold_ids (fun s i => set_par s r i p) L s) = wpins s /\
    ipins (fold_ids (fun s i => set_par s r i p) L s) = ipins s /\ iref (fold_ids (fun s i => set_par s r i p) L s) = iref s.
  Proof. induction L as [|c L IH]; intro s; cbn [fold_ids]; [repeat split|]. destruct (IH (set_par s r c p)) as [-> [-> [-> ->]]]. repeat split. Qed.

  (* ports and cables *)
  Definition PreBundle (kd lk : kind) (rl : rel) (p : id) : Prop :=
    p < next s0 /\ kind_of s0 p = Some kd /\ forall i, In i (kids s0 rl p) -> PreLeaf lk i.

  (* the image of every item of the source bundle is an item of the image bundle *)
  Definition ImgOK (rl : rel) (p p' : id) (s : state) (m : memo) : Prop :=
    (forall i, In i (kids s0 rl p) -> exists i', In (i, i') m /\ In i' (kids s rl p')) /\
    (forall i', In i' (kids s rl p') -> exists i, In (i, i') m /\ In i (kids s0 rl p)) /\
    Forall2 (fun i i' => In (i, i') m) (kids s0 rl p) (kids s rl p').
  Lemma forall2_mono {A B} (R1 R2 : A -> B -> Prop) : (forall a b, R1 a b -> R2 a b) -> forall l l', Forall2 R1 l l' -> Forall2 R2 l l'.
  Proof. intros H l l' F. induction F; constructor; auto. Qed.
  Lemma imgok_stable rl : Stable (ImgOK rl).
  Proof.
    intros x x' s m s2 m2 [H1 [H2 H3]] Hx Hm [_ Hk]. split; [|split].
    - intros i Hi. destruct (H1 i Hi) as [i' [A B]]. exists i'. split; [apply Hm; exact A|]. rewrite Hk by exact Hx. exact B.
    - intros i' Hi'. rewrite Hk in Hi' by exact Hx. destruct (H2 i' Hi') as [i [A B]]. exists i. split; [apply Hm; exact A|exact B].
    - rewrite Hk by exact Hx. revert H3. apply forall2_mono. intros a b H. apply Hm. exact H.
  Qed.

  Lemma forall2_in_l {A B} (R : A -> B -> Prop) l l' : Forall2 R l l' -> forall y, In y l' -> exists x, In x l /\ R x y.
  Proof. induction 1 as [|a b l l' Hab _ IH]; intros y Hy; [destruct Hy|]. destruct Hy as [<-|Hy]; [exists a; split; [left; reflexivity|exact Hab]|].
    destruct (IH y Hy) as [x [Hx Hr]]. exists x. split; [right; exact Hx|exact Hr]. Qed.

  Lemma forall2_in_r {A B} (R : A -> B -> Prop) l l' : Forall2 R l l' -> forall x, In x l -> exists y, In y l' /\ R x y.
  Proof. induction 1 as [|a b l l' Hab _ IH]; intros x Hx; [destruct Hx|]. destruct Hx as [<-|Hx]; [exists b; split; [left; reflexivity|exact Hab]|].
    destruct (IH x Hx) as [y [Hy Hr]]. exists y. split; [right; exact Hy|exact Hr]. Qed.

  Lemma pi_bundle (kd lk : kind) (rl : rel) (leaf : SM -> id -> SM * id) :
    StepOK leaf (fun i => [i]) (PreLeaf lk) NoPost -> LeafSpec leaf ->
    kind_eqb kd KPin = false -> kind_eqb kd KWire = false -> kind_eqb kd KInstance = false ->
    forall s m p s' m' p',
    PI s0 s m -> PreBundle kd lk rl p -> NoDup (p :: kids s0 rl p) -> (forall y, In y (p :: kids s0 rl p) -> ~ In y (map fst m)) ->
    (let '(s1, x) := clone_alloc s kd in
     let '((s2, m2), items') := clone_each leaf (kids s1 rl p) (s1, (p, x) :: m) in
     let s3 := set_kids s2 rl x items' in
     let s4 := fold_ids (fun s i' => set_par s rl i' (Some x)) items' s3 in
     ((copy_data (copy_bundle s4 p x) p x, m2), x)) = ((s', m'), p') ->
    PI s0 s' m' /\ keys_ext m m' (p :: kids s0 rl p) /\ msub m m' /\ In (p, p') m' /\ kstable s s' /\ ImgOK rl p p' s' m'.
  Proof.
    intros Hleaf Hls Hk1 Hk2 Hk3 s m p s' m' p' P [Hp [Hkp Hitems]] Hnd Hnk E.
    destruct (clone_alloc s kd) as [s1 x] eqn:Ea.
    destruct (clone_alloc_fields _ _ _ _ Ea) as [Hx [N1 [K1 [Kd1 [W1 [P1 [I1 R1]]]]]]]. subst x.
    assert (PA : PI s0 s1 ((p, next s) :: m)).
    { apply (pi_leaf s0 s m p kd); try assumption; rewrite ?W1, ?P1, ?I1, ?R1, ?Hk1, ?Hk2, ?Hk3; try reflexivity.
      - apply Hnk. left. reflexivity.
      - intros y _. repeat split. }
    rewrite (pi_kids _ _ _ PA rl p Hp) in E.
    match type of E with context [clone_each leaf ?l ?sm] => destruct (clone_each leaf l sm) as [[s2 m2] items'] eqn:Ee end.
    inversion Hnd as [|? ? Hpn HndL]; subst.
    destruct (clone_each_leaf leaf Hls _ _ _ _ _ _ Ee) as [_ [Hn2 [Hk2' _]]].
    destruct (pi_clone_each leaf (fun i => [i]) (PreLeaf lk) NoPost Hleaf nopost_stable (kids s0 rl p) s1 ((p, next s) :: m) s2 m2 items' PA Hitems) as [P2 [K2 [S2 [KS2 F2]]]].
    - rewrite flat_map_single. exact HndL.
    - intros y Hy. rewrite flat_map_single in Hy. cbn [map fst]. intros [<-|Hin]; [apply Hpn; exact Hy|].
      apply (Hnk y (or_intror Hy) Hin).
    - exact Ee.
    - injection E as <- <- <-.
      destruct (fold_set_par_spec rl (next s) items' (set_kids s2 rl (next s) items')) as [Hk4 [Hn4 _]].
      destruct (fields_fold_set_par rl (Some (next s)) items' (set_kids s2 rl (next s) items')) as [F1 [F2' [F3 F4]]].
      assert (HkF : forall r y, kids (copy_data (copy_bundle (fold_ids (fun sq i' => set_par sq rl i' (Some (next s))) items' (set_kids s2 rl (next s) items')) p (next s)) p (next s)) r y =
                                if rel_eqb r rl && Nat.eqb y (next s) then items' else kids s r y).
      { intros r y. cbn. etransitivity; [exact (f_equal (fun f => f r y) Hk4)|]. cbn. rewrite kids_upd2_ns, Hk2', Kd1. reflexivity. }
      split; [|split; [|split; [|split; [|split]]]].
      + apply (pi_same s0 s2); [exact P2| | | | | | |].
        * exact Hn4.
        * exact (kind_fold_set_par rl (Some (next s)) items' (set_kids s2 rl (next s) items')).
        * exact F1.
        * exact F2'.
        * exact F3.
        * exact F4.
        * intros r y Hy. rewrite HkF. pose proof (pi_le _ _ _ P).
          replace (Nat.eqb y (next s)) with false by (symmetry; apply Nat.eqb_neq; lia). rewrite andb_false_r.
          rewrite <- Kd1, <- Hk2'. reflexivity.
      + intro y. split.
        * intro H. apply K2 in H as [H|H]; [rewrite flat_map_single in H; left; right; exact H|].
          cbn [map fst] in H. destruct H as [<-|H]; [left; left; reflexivity|right; exact H].
        * intros [[<-|H]|H]; apply K2; [right; left; reflexivity|left; rewrite flat_map_single; exact H|right; right; exact H].
      + intros e He. apply S2. right. exact He.
      + apply S2. left. reflexivity.
      + split; [match goal with |- next s <= next ?sf => assert (HnF : next sf = next s2) by exact Hn4; rewrite HnF end; lia|].
        intros r y Hy. rewrite HkF. replace (Nat.eqb y (next s)) with false by (symmetry; apply Nat.eqb_neq; lia). rewrite andb_false_r. reflexivity.
      + split; [|split].
        * intros i Hi. destruct (forall2_in_r _ _ _ F2 i Hi) as [i' [Hi' [Hm _]]]. exists i'. split; [exact Hm|].
          rewrite HkF, rel_eqb_refl, Nat.eqb_refl. exact Hi'.
        * intros i' Hi'. rewrite HkF, rel_eqb_refl, Nat.eqb_refl in Hi'. destruct (forall2_in_l _ _ _ F2 i' Hi') as [i [Hi [Hm _]]].
          exists i. split; [exact Hm|exact Hi].
        * rewrite HkF, rel_eqb_refl, Nat.eqb_refl. revert F2. apply forall2_mono. intros a0 b0 [H _]. exact H.
  Qed.
End Steps.

(* ---- the source definition as a duplicate-free list of objects ---- *)
Lemma nodup_flat_map_disj {A B} (K : A -> list B) (l : list A) :
  NoDup l -> (forall x, In x l -> NoDup (K x)) ->
  (forall x y z, In x l -> In y l -> x <> y -> In z (K x) -> In z (K y) -> False) -> NoDup (flat_map K l).
Proof.
  induction l as [|a l IH]; intros Hnd Hk Hd; cbn; [constructor|].
  inversion Hnd as [|? ? Hna Hndl]; subst.
  assert (IH' : NoDup (flat_map K l)).
  { apply IH; [exact Hndl|intros x Hx; apply Hk; right; exact Hx|intros x y z Hx Hy; apply Hd; right; assumption]. }
  assert (Hka : NoDup (K a)) by (apply Hk; left; reflexivity).
  assert (Hdis : forall z, In z (K a) -> ~ In z (flat_map K l)).
  { intros z Hz Hin. apply in_flat_map in Hin as [y [Hy Hzy]]. apply (Hd a y z); [left; reflexivity|right; exact Hy| |exact Hz|exact Hzy].
    intros ->. apply Hna. exact Hy. }
  revert Hka Hdis. generalize (K a) as ka. induction ka as [|b kb IHk]; intros Hka Hdis; cbn; [exact IH'|].
  inversion Hka as [|? ? Hnb Hkb]; subst. constructor.
  - intro Hin. apply in_app_or in Hin as [Hin|Hin]; [apply Hnb; exact Hin|apply (Hdis b); [left; reflexivity|exact Hin]].
  - apply IHk; [exact Hkb|intros z Hz; apply Hdis; right; exact Hz].
Qed.

Section Source.
  Variable s0 : state.
  Hypothesis I1 : Inv1a s0.
  Hypothesis HT : InvT s0.
  Hypothesis F0 : Fresh s0.

  Lemma src_lt r p c : In c (kids s0 r p) -> c < next s0.
  Proof.
    intro Hc. apply (i1_kids _ I1) in Hc. destruct (Nat.lt_ge_cases c (next s0)) as [H|H]; [exact H|].
    rewrite (f_par _ F0 r c H) in Hc. discriminate.
  Qed.
  Lemma src_par_unique r p p' c : In c (kids s0 r p) -> In c (kids s0 r p') -> p = p'.
  Proof. intros H1 H2. apply (i1_kids _ I1) in H1. apply (i1_kids _ I1) in H2. congruence. Qed.
  Lemma src_kind_child r p c : In c (kids s0 r p) -> kind_of s0 c = Some (rel_child r).
  Proof. intro H. apply (HT r p c H). Qed.

  Definition Kb (rl : rel) (p : id) : list id := p :: kids s0 rl p.

  (* one bundle list: the bundles and their items, all distinct *)
  Lemma bundles_nodup (r rl : rel) (d : id) :
    rel_child r <> rel_child rl -> rel_parent rl = rel_child r -> NoDup (flat_map (Kb rl) (kids s0 r d)).
  Proof.
    intros Hne Hpar. apply nodup_flat_map_disj.
    - apply (i1_nodup _ I1).
    - intros p Hp. unfold Kb. constructor; [|apply (i1_nodup _ I1)].
      intro Hin. pose proof (src_kind_child _ _ _ Hp) as K1. pose proof (src_kind_child _ _ _ Hin) as K2. congruence.
    - intros p p' z Hp Hp' Hd Hz Hz'. unfold Kb in *.
      destruct Hz as [<-|Hz], Hz' as [E|Hz'].
      + apply Hd. symmetry. exact E.
      + pose proof (src_kind_child _ _ _ Hp) as K1. pose proof (src_kind_child _ _ _ Hz') as K2. congruence.
      + subst z. pose proof (src_kind_child _ _ _ Hp') as K1. pose proof (src_kind_child _ _ _ Hz) as K2. congruence.
      + apply Hd. apply (src_par_unique rl p p' z Hz Hz').
  Qed.

  Lemma bundles_kinds (r rl : rel) (d y : id) :
    In y (flat_map (Kb rl) (kids s0 r d)) -> kind_of s0 y = Some (rel_child r) \/ kind_of s0 y = Some (rel_child rl).
  Proof.
    intro H. apply in_flat_map in H as [p [Hp Hy]]. destruct Hy as [<-|Hy]; [left; apply (src_kind_child _ _ _ Hp)|right; apply (src_kind_child _ _ _ Hy)].
  Qed.

  Lemma bundles_pre (r rl : rel) (d p : id) :
    In p (kids s0 r d) -> PreBundle s0 (rel_child r) (rel_child rl) rl p.
  Proof.
    intro Hp. split; [apply (src_lt _ _ _ Hp)|]. split; [apply (src_kind_child _ _ _ Hp)|].
    intros i Hi. split; [apply (src_lt _ _ _ Hi)|apply (src_kind_child _ _ _ Hi)].
  Qed.
End Source.
