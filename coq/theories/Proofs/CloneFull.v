(* C07 / C08 / C01 / C02: Definition.clone and uniquify keep the whole structural invariant of the
   editing API - containment, reference sets, pin-wire links, outer-pin tables - so a completed clone
   or uniquify leaves a state in which every theorem about editing calls applies again. *)
From Coq Require Import List Arith Bool Lia.
From RecordUpdate Require Import RecordSet.
From SV Require Import Base.Base IR.State IR.NS IR.Ops Xform.Clone Xform.Strs Xform.Xform Proofs.AssocX Proofs.Frame Proofs.Inv1a Proofs.Inv2a
  Proofs.InvP Proofs.InvW Proofs.C01_full Proofs.Fresh Proofs.NsInv Proofs.CloneInv Proofs.RefK Proofs.CloneRef Proofs.CloneT Proofs.FieldT
  Proofs.CloneMemo Proofs.CloneRR Proofs.CloneFaith Proofs.CloneInvP.
From SV Require Import Proofs.UniqFresh.
Import ListNotations RecordSetNotations.

(* fields that registration and the re-applied naming policy leave alone *)
Record wsame (s s' : state) : Prop := mkWs {
  ws_w : ipwire s' = ipwire s; ws_p : wpins s' = wpins s; ws_i : ipins s' = ipins s; ws_r : iref s' = iref s;
  ws_par : par s' = par s; ws_kind : kind_of s' = kind_of s
}.
Lemma ws_refl s : wsame s s. Proof. constructor; reflexivity. Qed.
Lemma ws_trans a b c : wsame a b -> wsame b c -> wsame a c. Proof. intros [] []. constructor; congruence. Qed.
Lemma ws_struct s s' : struct_eq s s' -> wsame s s'.
Proof. intro H. constructor; [apply (se_ipwire _ _ H)|apply (se_wpins _ _ H)|apply (se_ipins _ _ H)|apply (se_iref _ _ H)|apply (se_par _ _ H)|apply (se_kind _ _ H)]. Qed.
Lemma ws_bind (r : R) f s : wsame s (fst r) -> (forall s1, wsame s1 (fst (f s1))) -> wsame s (fst (r >>= f)).
Proof. destruct r as [s1 [x|]]; cbn; intros H1 H2; [exact H1|]. eapply ws_trans; [exact H1|apply H2]. Qed.
Lemma ws_fold_idsR f l : (forall s x, wsame s (fst (f s x))) -> forall s, wsame s (fst (fold_idsR f l s)).
Proof. intro H. induction l as [|x l IH]; intro s; cbn; [apply ws_refl|]. apply ws_bind; [apply H|apply IH]. Qed.
Lemma ws_register_child s x : wsame s (fst (register_child s x)).
Proof. unfold register_child. destruct (iref s x); constructor; reflexivity. Qed.
Lemma ws_reapply s c : wsame s (fst (reapply s c)).
Proof.
  unfold reapply. destruct (sassoc str_NS (data s c)); [|apply ws_refl].
  apply ws_bind; [apply ws_struct, se_dict_del|intro s1; apply ws_struct, se_dict_set].
Qed.

Lemma invp_wsame s s' : wsame s s' -> InvP s -> InvP s'.
Proof. intros [A B C _ _ _] H. apply (invp_same s s' H); [intro q; apply pw_ext; assumption|intro w; rewrite B; reflexivity]. Qed.
Lemma invk_wsame s s' : wsame s s' -> InvK s -> InvK s'.
Proof. intros [_ _ C D E _] H. apply (invk_same s s' H); [intro n; unfold keys; rewrite C; reflexivity|exact D|intro x; rewrite E; reflexivity|intro x; rewrite E; reflexivity]. Qed.

(* Definition.clone keeps the pin-wire links and the outer-pin tables *)
Theorem clone_definition_invpk s d :
  Inv s -> InvT s -> Fresh s -> FT s -> RefK s -> d < next s -> kind_of s d = Some KDefinition ->
  snd (fst (clone_definition s d)) = None ->
  InvP (fst (fst (clone_definition s d))) /\ InvK (fst (fst (clone_definition s d))).
Proof.
  intros HI HT F T RK Hd Hkd. pose proof (inv_a _ HI) as I1.
  pose proof (above_of_fresh s F) as Ab. pose proof (parlt_of_inv1a s I1 Ab) as Pl.
  unfold clone_definition. destruct (def_clone1 (s, []) d) as [[[s1 m1] d'] [e|]] eqn:E; cbn [fst snd]; [discriminate|].
  pose proof (def_clone1_faithful s d s1 m1 d' I1 HT F T Hd Hkd E) as FA.
  destruct (def_clone1_kp s [] d s1 m1 d' Ab Pl E) as [_ [Hn [Hf [Hg [_ [Ab1 _]]]]]].
  assert (P1 : InvP s1) by (apply (faithful_invp s s1 m1 FA (inv_p _ HI) T F)).
  assert (K1 : InvK s1).
  { apply (faithful_invk s s1 m1 FA (inv_k _ HI) F RK).
    - intros r y Hy. apply (proj2 (Hf r y Hy)).
    - intros r y p Hy Hp. destruct (Nat.lt_ge_cases y (next s1)) as [Hl|Hge]; [apply (fg_pin _ _ _ Hg r y p (conj Hy Hl) Hp)|].
      rewrite (proj2 (Ab1 r y Hge)) in Hp. discriminate. }
  intros _.
  assert (W : wsame s1 (fst (fold_idsR register_child (kids s1 RChildren d') s1 >>= fun s2 => reapply (set_drefs s2 d' []) d'))).
  { apply ws_bind; [apply ws_fold_idsR; intros; apply ws_register_child|].
    intro s2. eapply ws_trans; [|apply ws_reapply]. constructor; reflexivity. }
  split; [apply (invp_wsame _ _ W P1)|apply (invk_wsame _ _ W K1)].
Qed.

(* ... hence the whole invariant *)
Theorem clone_definition_inv s d :
  Inv s -> InvT s -> Fresh s -> FT s -> RefK s -> d < next s -> kind_of s d = Some KDefinition ->
  snd (fst (clone_definition s d)) = None -> Inv (fst (fst (clone_definition s d))).
Proof.
  intros HI HT F T RK Hd Hkd Hok.
  destruct (clone_definition_invpk s d HI HT F T RK Hd Hkd Hok) as [P K].
  destruct (clone_definition_inv2a s d (inv_a _ HI) (inv_r _ HI) F RK Hd Hok) as [R2 _].
  constructor; [apply clone_definition_inv1a; [apply (inv_a _ HI)|exact F|exact Hok]|exact R2|exact P|exact K].
Qed.

(* Definition.clone keeps the typing of fields *)
Lemma faithful_ft s0 G m : Faithful s0 G m -> FT s0 -> FT G.
Proof.
  intros FA T.
  assert (Hk : forall y (k : kind), (kind_of G y <> Some k -> False) -> kind_of G y = Some k).
  { intros y k H. destruct (kind_of G y) as [k0|] eqn:E; [|exfalso; apply H; discriminate].
    destruct (kind_eqb k0 k) eqn:Eq; [destruct k0, k; try discriminate Eq; reflexivity|].
    exfalso. apply H. intro E2. injection E2 as ->. destruct k; discriminate Eq. }
  constructor; intros y H; destruct (Nat.lt_ge_cases y (next s0)) as [Hy|Hy].
  - destruct (fa_old _ _ _ FA y Hy) as [A [_ [_ [K _]]]]. rewrite K. apply (ft_w _ T). rewrite <- A. exact H.
  - apply Hk. intro Hne. apply H. apply (proj1 (fa_def _ _ _ FA y Hy)). exact Hne.
  - destruct (fa_old _ _ _ FA y Hy) as [_ [A [_ [K _]]]]. rewrite K. apply (ft_p _ T). rewrite <- A. exact H.
  - apply Hk. intro Hne. apply H. apply (proj1 (proj2 (fa_def _ _ _ FA y Hy))). exact Hne.
  - destruct (fa_old _ _ _ FA y Hy) as [_ [_ [A [K _]]]]. rewrite K. apply (ft_i _ T). rewrite <- A. exact H.
  - apply Hk. intro Hne. apply H. apply (proj2 (proj2 (fa_def _ _ _ FA y Hy))). exact Hne.
  - destruct (fa_old _ _ _ FA y Hy) as [_ [_ [_ [K A]]]]. rewrite K. apply (ft_r _ T). rewrite <- A. exact H.
  - apply Hk. intro Hne. apply H. apply (proj2 (proj2 (fa_def _ _ _ FA y Hy))). exact Hne.
Qed.

Lemma ft_wsame s s' : wsame s s' -> FT s -> FT s'.
Proof. intros [A B C D _ K] [T1 T2 T3 T4]. constructor; intro y; rewrite ?A, ?B, ?C, ?D, K; auto. Qed.

Theorem clone_definition_ft s d :
  Inv1a s -> InvT s -> Fresh s -> FT s -> d < next s -> kind_of s d = Some KDefinition ->
  snd (fst (clone_definition s d)) = None -> FT (fst (fst (clone_definition s d))).
Proof.
  intros I1 HT F T Hd Hkd.
  unfold clone_definition. destruct (def_clone1 (s, []) d) as [[[s1 m1] d'] [e|]] eqn:E; cbn [fst snd]; [discriminate|].
  pose proof (def_clone1_faithful s d s1 m1 d' I1 HT F T Hd Hkd E) as FA. intros _.
  assert (W : wsame s1 (fst (fold_idsR register_child (kids s1 RChildren d') s1 >>= fun s2 => reapply (set_drefs s2 d' []) d'))).
  { apply ws_bind; [apply ws_fold_idsR; intros; apply ws_register_child|].
    intro s2. eapply ws_trans; [|apply ws_reapply]. constructor; reflexivity. }
  apply (ft_wsame _ _ W). apply (faithful_ft s s1 m1 FA T).
Qed.

(* ---- uniquify ---- *)
Definition UF (s : state) : Prop := Inv s /\ InvT s /\ Fresh s /\ FT s /\ RefK s.

Lemma uf_struct s s' : struct_eq s s' -> UF s -> UF s'.
Proof.
  intros H [I [T [F [FT0 K]]]]. split; [exact (inv_struct _ _ H I)|]. split; [exact (tstep_invt _ _ (tstep_struct _ _ H) T)|].
  split; [exact (fresh_frame _ _ (struct_frame _ _ H) F)|]. split; [exact (ft_fq _ _ (fq_struct _ _ H) FT0)|exact (refk_rq _ _ (rq_struct _ _ H) K)].
Qed.

Definition UPF (r : XR) : Prop := snd r = None -> UF (st (fst r)).

Lemma upf_liftR x (r : R) k :
  (snd r = None -> UF (fst r)) -> (forall x', UF (st x') -> UPF (k x')) -> UPF (liftR x r k).
Proof.
  intros Hr Hk. unfold liftR. destruct r as [s [e|]]; cbn in *; [intro H; discriminate|].
  apply Hk. cbn. apply Hr. reflexivity.
Qed.
Lemma upf_dict_set x e k v kk :
  UF (st x) -> (forall x', UF (st x') -> UPF (kk x')) -> UPF (liftR x (dict_set (st x) e k v) kk).
Proof. intros H Hk. apply upf_liftR; [|exact Hk]. intros _. eapply uf_struct; [apply se_dict_set|exact H]. Qed.

Lemma upf_make_instance_unique x inst : UF (st x) -> UPF (make_instance_unique x inst).
Proof.
  intros [I [T [F [FT0 K]]]]. unfold make_instance_unique.
  destruct (iref (st x) inst) as [d|] eqn:Ei; [|intro H; discriminate].
  pose proof (ref_lt _ _ _ K F Ei) as Hd.
  destruct (par (st x) RDefs d) as [lib|] eqn:Ep; [|intro H; discriminate].
  assert (Hkd : kind_of (st x) d = Some KDefinition).
  { apply (i1_kids _ (inv_a _ I)) in Ep. apply (T RDefs lib d Ep). }
  pose proof (clone_definition_inv (st x) d I T F FT0 K Hd Hkd) as HI.
  pose proof (clone_definition_fresh (st x) d (inv_a _ I) F) as HF.
  pose proof (clone_definition_inv2a (st x) d (inv_a _ I) (inv_r _ I) F K Hd) as HR.
  pose proof (clone_definition_invt (st x) d (inv_a _ I) F T) as HTc.
  pose proof (clone_definition_ft (st x) d (inv_a _ I) T F FT0 Hd Hkd) as HFT.
  destruct (clone_definition (st x) d) as [r d']. cbn [fst snd] in *.
  apply upf_liftR.
  { intro Hok. split; [apply HI; exact Hok|]. split; [apply HTc; exact Hok|]. split; [apply HF; exact Hok|].
    split; [apply HFT; exact Hok|apply (proj2 (HR Hok))]. }
  intros x1 U1.
  set (named := rename_block x1 lib d d').
  assert (Hn : UPF named).
  { unfold UPF. destruct named as [x5 e] eqn:Eb. cbn [fst snd]. intros ->.
    apply (rename_block_post UF x1 lib d d' x5 U1); [|exact Eb].
    intros s0 k0 v0 _ H0 _. eapply uf_struct; [apply se_dict_set|exact H0]. }
  destruct named as [x5 [e|]]; [intro H; discriminate|].
  assert (U5 : UF (st x5)) by (apply Hn; reflexivity).
  apply upf_liftR.
  - intros _. destruct U5 as [I5 [T5 [F5 [FT5 K5]]]].
    split; [apply (proj1 (step_inv (st x5) (OAdd RDefs lib d' (Some (S (index_of d (kids (st x) RDefs lib))))) I5))|].
    split; [exact (tstep_invt _ _ (tstep_op_add _ _ _ _ _) T5)|]. split; [apply fresh_op_add; exact F5|].
    split; [exact (ft_fq _ _ (fq_op_add _ _ _ _ _ (dk_of _ (inv_r _ I5) FT5)) FT5)|exact (refk_rq _ _ (rq_op_add _ _ _ _ _) K5)].
  - intros x6 [I6 [T6 [F6 [FT6 K6]]]]. apply upf_liftR.
    + intros _. split; [apply (proj1 (op_set_reference_inv _ _ _ I6))|]. split; [exact (tstep_invt _ _ (tstep_op_set_reference _ _ _) T6)|].
      split; [apply fresh_op_set_reference; exact F6|]. split; [exact (ft_fq _ _ (fq_op_set_reference _ _ _) FT6)|exact (refk_rq _ _ (rq_op_set_reference _ _ _) K6)].
    + intros x7 U7 _. exact U7.
Qed.

Lemma upf_uniq_loop : forall fuel x queue, UF (st x) -> UPF (uniq_loop fuel x queue).
Proof.
  induction fuel as [|f IH]; intros x queue U; destruct queue as [|inst rest]; cbn [uniq_loop];
    try (intros _; exact U); try (intro H; discriminate).
  destruct (inst_unique (st x) inst) as [u|]; [|intro H; discriminate].
  match goal with |- context [if u then ?a else ?b] =>
    set (r := if u then a else b);
    assert (Hr : UPF r) by (unfold r; destruct u; [intros _; exact U|apply upf_make_instance_unique; exact U]);
    destruct r as [x1 [e|]]; [intro H; discriminate|] end.
  assert (U1 : UF (st x1)) by (apply Hr; reflexivity).
  destruct (iref (st x1) inst) as [d|]; [|intro H; discriminate].
  apply IH. exact U1.
Qed.

Theorem uniquify_full_inv fuel x n x' : UF (st x) -> uniquify fuel x n = (x', None) -> UF (st x').
Proof.
  intros U E. unfold uniquify in E.
  destruct (top (st x) n) as [t|]; [|discriminate]. destruct (iref (st x) t) as [d|]; [|discriminate].
  pose proof (upf_uniq_loop fuel x (kids (st x) RChildren d) U) as H. rewrite E in H. apply H. reflexivity.
Qed.

Lemma reachable_uf ops : UF (run ops init).
Proof.
  destruct (reachable_nsinv ops) as [HI [HT [F _]]].
  split; [exact HI|]. split; [exact HT|]. split; [exact F|]. split; [apply reachable_ft|apply reachable_refk].
Qed.

(* the full structural invariant of C01/C02 after uniquify, from any reachable state *)
Theorem uniquify_reachable_inv ops u f fuel n x' :
  uniquify fuel (mkX (run ops init) u f) n = (x', None) -> Inv (st x').
Proof. intro E. apply (uniquify_full_inv fuel (mkX (run ops init) u f) n x' (reachable_uf ops) E). Qed.

(* ... and after Definition.clone *)
Theorem clone_definition_reachable_inv ops d :
  let s := run ops init in
  d < next s -> kind_of s d = Some KDefinition -> snd (fst (clone_definition s d)) = None ->
  Inv (fst (fst (clone_definition s d))).
Proof.
  cbn zeta. intros Hd Hk Hok. destruct (reachable_uf ops) as [I [T [F [FT0 K]]]]. apply clone_definition_inv; assumption.
Qed.
