(* C01, containment half: every container lists exactly the elements naming it as parent, once.
   Preserved by every operation and every outcome (for the bulk removals of ports/pins: unless
   the call got stuck on a missing outer pin, which Proofs/NoStuck.v excludes). *)
From Coq Require Import List Arith NArith ZArith Bool Permutation.
From RecordUpdate Require Import RecordSet.
From SV Require Import Base.Base IR.State IR.NS IR.Ops Proofs.Frame.
Import ListNotations RecordSetNotations.

Record Inv1a (s : state) : Prop := mkInv1a {
  i1_kids : forall r p x, In x (kids s r p) <-> par s r x = Some p;
  i1_nodup : forall r p, NoDup (kids s r p)
}.

Definition cont_eq (s s' : state) : Prop := kids s' = kids s /\ par s' = par s.

Lemma cont_eq_refl s : cont_eq s s.
Proof. split; reflexivity. Qed.
Lemma cont_eq_trans a b c : cont_eq a b -> cont_eq b c -> cont_eq a c.
Proof. intros [] []; split; congruence. Qed.
Lemma struct_cont s s' : struct_eq s s' -> cont_eq s s'.
Proof. intros []; split; assumption. Qed.

Lemma inv1a_cont s s' : cont_eq s s' -> Inv1a s -> Inv1a s'.
Proof. intros [Hk Hp] [H1 H2]. constructor; rewrite Hk; [rewrite Hp|]; auto. Qed.

Lemma inv1a_init : Inv1a init.
Proof. constructor; cbn; [intros; split; [tauto|discriminate]|constructor]. Qed.

(* ---- pointwise link / unlink / bulk unlink / permute ---- *)
Lemma link_inv1a s s' r p c pos :
  Inv1a s -> par s r c = None ->
  (forall r' p', kids s' r' p' = upd2 (kids s) r p (py_insert pos c (kids s r p)) r' p') ->
  (forall r' x, par s' r' x = upd2 (par s) r c (Some p) r' x) ->
  Inv1a s'.
Proof.
  intros [H1 H2] Hc Hk Hp. constructor.
  - intros r' p' x. rewrite Hk, Hp. unfold upd2.
    destruct (rel_eqb r' r) eqn:Er; [|apply H1].
    apply rel_eqb_spec in Er; subst r'. unfold upd.
    destruct (Nat.eqb_spec p' p) as [->|Hpp]; destruct (Nat.eqb_spec x c) as [->|Hxc].
    + rewrite py_insert_In. split; auto.
    + rewrite py_insert_In, H1. split; [intros [?|?]; [contradiction|assumption]|auto].
    + rewrite H1, Hc. split; [discriminate|intro H; inversion H; congruence].
    + apply H1.
  - intros r' p'. rewrite Hk. unfold upd2.
    destruct (rel_eqb r' r) eqn:Er; [|apply H2].
    apply rel_eqb_spec in Er; subst r'. unfold upd.
    destruct (Nat.eqb p' p); [|apply H2].
    apply py_insert_NoDup; [apply H2|]. rewrite H1, Hc. discriminate.
Qed.

Lemma unlink_many_inv1a s s' r p (cs : list id) :
  Inv1a s -> (forall c, In c cs -> par s r c = Some p) ->
  (forall r' p', kids s' r' p' = upd2 (kids s) r p (remove_all_in cs (kids s r p)) r' p') ->
  (forall r' x, par s' r' x = if rel_eqb r' r && memb x cs then None else par s r' x) ->
  Inv1a s'.
Proof.
  intros [H1 H2] Hc Hk Hp. constructor.
  - intros r' p' x. rewrite Hk, Hp. unfold upd2.
    destruct (rel_eqb r' r) eqn:Er; cbn; [|apply H1].
    apply rel_eqb_spec in Er; subst r'. unfold upd.
    destruct (memb x cs) eqn:Ex.
    + apply memb_In in Ex. split; [|discriminate].
      destruct (Nat.eqb_spec p' p) as [->|Hpp].
      * rewrite remove_all_in_In. tauto.
      * rewrite H1, (Hc _ Ex). intro H; inversion H; congruence.
    + apply memb_false in Ex. destruct (Nat.eqb_spec p' p) as [->|Hpp]; [|apply H1].
      rewrite remove_all_in_In, H1. tauto.
  - intros r' p'. rewrite Hk. unfold upd2.
    destruct (rel_eqb r' r) eqn:Er; [|apply H2].
    apply rel_eqb_spec in Er; subst r'. unfold upd.
    destruct (Nat.eqb p' p); [|apply H2]. apply NoDup_filter, H2.
Qed.

Lemma remove_first_as_filter c l : NoDup l -> remove_first c l = remove_all_in [c] l.
Proof.
  induction 1 as [|y l Hy Hl IH]; cbn; [reflexivity|].
  rewrite Nat.eqb_sym. destruct (Nat.eqb_spec y c) as [->|Hne]; cbn.
  - clear IH. induction l as [|z l IHl]; cbn; [reflexivity|].
    inversion Hl; subst. destruct (Nat.eqb_spec z c) as [->|Hz]; cbn.
    + exfalso. apply Hy. left. reflexivity.
    + f_equal. apply IHl; [intro; apply Hy; right; assumption|assumption].
  - f_equal. apply IH.
Qed.

Lemma unlink_inv1a s s' r p c :
  Inv1a s -> par s r c = Some p ->
  (forall r' p', kids s' r' p' = upd2 (kids s) r p (remove_first c (kids s r p)) r' p') ->
  (forall r' x, par s' r' x = upd2 (par s) r c None r' x) ->
  Inv1a s'.
Proof.
  intros Hi Hc Hk Hp. apply (unlink_many_inv1a s s' r p [c]); auto.
  - intros c' [<-|[]]. assumption.
  - intros r' p'. rewrite Hk. unfold upd2. destruct (rel_eqb r' r); [|reflexivity].
    unfold upd. destruct (Nat.eqb p' p); [|reflexivity].
    apply remove_first_as_filter, Hi.
  - intros r' x. rewrite Hp. unfold upd2, upd. destruct (rel_eqb r' r); cbn; [|reflexivity].
    rewrite orb_false_r. reflexivity.
Qed.

Lemma permute_inv1a s s' r p l :
  Inv1a s -> NoDup l -> (forall x, In x (kids s r p) <-> In x l) ->
  (forall r' p', kids s' r' p' = upd2 (kids s) r p l r' p') -> par s' = par s ->
  Inv1a s'.
Proof.
  intros [H1 H2] Hn Hs Hk Hp. constructor.
  - intros r' p' x. rewrite Hk, Hp. unfold upd2.
    destruct (rel_eqb r' r) eqn:Er; [|apply H1].
    apply rel_eqb_spec in Er; subst r'. unfold upd.
    destruct (Nat.eqb_spec p' p) as [->|Hpp]; [|apply H1]. rewrite <- Hs. apply H1.
  - intros r' p'. rewrite Hk. unfold upd2.
    destruct (rel_eqb r' r) eqn:Er; [|apply H2].
    unfold upd. destruct (Nat.eqb p' p); [assumption|apply H2].
Qed.

(* ---- functions that leave kids/par alone ---- *)
Lemma ce_bind r f s :
  cont_eq s (fst r) -> (forall s1, cont_eq s1 (fst (f s1))) -> cont_eq s (fst (r >>= f)).
Proof.
  destruct r as [s1 [x|]]; cbn; intros H1 H2; [assumption|].
  eapply cont_eq_trans; [apply H1|apply H2].
Qed.

Lemma ce_fold_ids f l : (forall s x, cont_eq s (f s x)) -> forall s, cont_eq s (fold_ids f l s).
Proof.
  intro H. induction l as [|x l IH]; intro s; cbn; [apply cont_eq_refl|].
  eapply cont_eq_trans; [apply H|apply IH].
Qed.

Lemma ce_fold_idsR f l : (forall s x, cont_eq s (fst (f s x))) -> forall s, cont_eq s (fst (fold_idsR f l s)).
Proof.
  intro H. induction l as [|x l IH]; intro s; cbn; [apply cont_eq_refl|].
  apply ce_bind; [apply H|apply IH].
Qed.

Lemma ce_fold_pairsR f l : (forall s x, cont_eq s (fst (f s x))) -> forall s, cont_eq s (fst (fold_pairsR f l s)).
Proof.
  intro H. induction l as [|x l IH]; intro s; cbn; [apply cont_eq_refl|].
  apply ce_bind; [apply H|apply IH].
Qed.

Lemma ce_new_outer s n i : cont_eq s (new_outer s n i).
Proof. split; reflexivity. Qed.

Lemma ce_drop_outer s n i : cont_eq s (fst (drop_outer s n i)).
Proof.
  unfold drop_outer. destruct (assoc i (ipins s n)) as [[w|]|]; cbn; split; reflexivity.
Qed.

Lemma ce_rekey s n cn : cont_eq s (fst (rekey s n cn)).
Proof.
  unfold rekey. destruct cn as [cur new]. destruct (assoc cur (ipins s n)) as [[w|]|]; cbn; split; reflexivity.
Qed.

Lemma ce_add_post s r p c : cont_eq s (add_post s r p c).
Proof.
  unfold add_post. destruct r; try apply cont_eq_refl.
  - apply ce_fold_ids. intros s0 n. apply ce_fold_ids. intros; apply ce_new_outer.
  - destruct (par s RPorts p); [|apply cont_eq_refl]. apply ce_fold_ids. intros; apply ce_new_outer.
Qed.

Lemma ce_guard b x s k : (forall s1, cont_eq s1 (fst (k s1))) -> cont_eq s (fst (guard b x s k)).
Proof. intro H. unfold guard. destruct b; [apply H|apply cont_eq_refl]. Qed.

Lemma ce_op_set_reference s x v : cont_eq s (fst (op_set_reference s x v)).
Proof.
  unfold op_set_reference. apply ce_guard. intro s1. apply ce_guard. intro s2.
  destruct v as [d'|].
  - apply ce_bind.
    + destruct (iref (emit s2 (EReference x (Some d'))) x) as [d|].
      * apply ce_bind.
        -- destruct (memb _ _); cbn; split; reflexivity.
        -- intro s3. apply ce_fold_pairsR. intros; apply ce_rekey.
      * cbn. eapply cont_eq_trans; [|apply ce_fold_ids; intros; apply ce_new_outer]. split; reflexivity.
    + intro s3. cbn. split; reflexivity.
  - apply ce_bind.
    + eapply cont_eq_trans; [|apply ce_fold_idsR; intros; apply ce_drop_outer]. split; reflexivity.
    + intro s3. apply ce_bind.
      * destruct (iref _ x); [destruct (memb _ _)|]; cbn; split; reflexivity.
      * intro s4. cbn. split; reflexivity.
Qed.

Lemma ce_construct s k nm props : cont_eq s (fst (fst (construct s k nm props))).
Proof.
  unfold construct. cbn. destruct (has_data k); cbn.
  - apply ce_bind.
    + eapply cont_eq_trans; [|apply struct_cont, se_ns_create]. split; reflexivity.
    + intro s1. apply ce_bind.
      * destruct nm; cbn; [eapply cont_eq_trans; [|apply struct_cont, se_dict_set]|]; split; reflexivity.
      * intro s2. apply struct_cont, se_set_props.
  - split; reflexivity.
Qed.

Lemma ce_fold_left {A} (f : state -> A -> state) l :
  (forall s x, cont_eq s (f s x)) -> forall s, cont_eq s (fold_left f l s).
Proof.
  intro H. induction l as [|x l IH]; intro s; cbn; [apply cont_eq_refl|].
  eapply cont_eq_trans; [apply H|apply IH].
Qed.

Lemma ce_op_disconnect_from s w ps : cont_eq s (fst (op_disconnect_from s w ps)).
Proof.
  unfold op_disconnect_from. apply ce_guard. intro s1. apply ce_guard. intro s2.
  cbn [fst ret]. eapply cont_eq_trans; [|split; reflexivity].
  apply ce_fold_left. intros s0 q. destruct q; split; reflexivity.
Qed.

Lemma ce_clear_old_top s n : cont_eq s (clear_old_top s n).
Proof. unfold clear_old_top. destruct (top s n); split; reflexivity. Qed.

Lemma ce_op_set_top s n a : cont_eq s (fst (op_set_top s n a)).
Proof.
  unfold op_set_top. apply ce_guard. intro s1.
  assert (H0 : cont_eq s1 (clear_old_top (emit s1 (ETop n a)) n)).
  { eapply cont_eq_trans; [|apply ce_clear_old_top]. split; reflexivity. }
  destruct a as [x|d|].
  - cbn [fst ret]. eapply cont_eq_trans; [apply H0|]. split; reflexivity.
  - pose proof (ce_construct (clear_old_top (emit s1 (ETop n (TopDef d))) n) KInstance None []) as Hc.
    destruct (construct (clear_old_top (emit s1 (ETop n (TopDef d))) n) KInstance None []) as [res t].
    cbn [fst] in Hc. apply ce_bind.
    + eapply cont_eq_trans; eassumption.
    + intro s2. apply ce_bind; [apply ce_op_set_reference|].
      intro s3. cbn [fst ret]. eapply cont_eq_trans; [|split; reflexivity].
      eapply cont_eq_trans; [|apply ce_clear_old_top]. split; reflexivity.
  - cbn [fst ret]. eapply cont_eq_trans; [apply H0|]. split; reflexivity.
Qed.

(* ---- the container operations ---- *)
Lemma op_add_inv1a s r p c pos : Inv1a s -> Inv1a (fst (op_add s r p c pos)).
Proof.
  intro Hi. unfold op_add, guard.
  destruct (_ && _); [|assumption].
  destruct (add_guard1 s r p c); [|assumption].
  destruct (par s r c) eqn:Hpar; [assumption|].
  pose proof (se_ns_add s p c (rel_child r)) as Hns.
  destruct (if ns_rel r then ns_add s p c (rel_child r) else ret s) as [s1 [e|]] eqn:E1.
  - cbn. destruct (ns_rel r); [|inversion E1].
    rewrite E1 in Hns. cbn in Hns. eapply inv1a_cont; [apply struct_cont, Hns|assumption].
  - cbn.
    assert (Hse : struct_eq s s1).
    { destruct (ns_rel r); [rewrite E1 in Hns; exact Hns|inversion E1; apply struct_eq_refl]. }
    eapply inv1a_cont; [apply ce_add_post|].
    destruct Hse as [Hk Hp _ _ _ _ _ _ _ _ _].
    eapply (link_inv1a s _ r p c pos Hi Hpar).
    + intros r' p'. cbn. rewrite Hk. reflexivity.
    + intros r' x. cbn. rewrite Hp. reflexivity.
Qed.

Lemma remove_core_spec s r p c :
  let res := remove_core s r p c in
  (snd res = None /\ kids (fst res) = kids s /\ par (fst res) = upd2 (par s) r c None) \/
  (snd res <> None /\ cont_eq s (fst res)).
Proof.
  unfold remove_core.
  set (s1 := if ns_rel r then ns_remove_child s p c (rel_child r) else s).
  assert (H1 : cont_eq s s1).
  { unfold s1. destruct (ns_rel r); [apply struct_cont, se_ns_remove_child|apply cont_eq_refl]. }
  set (s2 := emit s1 (ERemove r p c)).
  assert (H2 : cont_eq s s2) by (destruct H1; split; assumption).
  match goal with |- context [?m >>= _] => set (mid := m) end.
  assert (H3 : cont_eq s (fst mid)).
  { eapply cont_eq_trans; [apply H2|]. unfold mid. destruct r; try apply cont_eq_refl.
    - apply ce_fold_idsR. intros s0 n. apply ce_fold_idsR. intros; apply ce_drop_outer.
    - destruct (par s2 RPorts p); [|apply cont_eq_refl]. apply ce_fold_idsR. intros; apply ce_drop_outer. }
  destruct mid as [s3 [e|]]; cbn in *.
  - right. split; [discriminate|assumption].
  - left. destruct H3 as [Hk Hp]. split; [reflexivity|]. split; [assumption|]. rewrite Hp. reflexivity.
Qed.

Lemma op_remove_inv1a s r p c : Inv1a s -> Inv1a (fst (op_remove s r p c)).
Proof.
  intro Hi. unfold op_remove, guard.
  destruct (_ && _); [|assumption].
  destruct (par_is s r c p) eqn:Hpar; [|assumption].
  unfold par_is in Hpar. destruct (par s r c) as [q|] eqn:Hq; [|discriminate].
  apply Nat.eqb_eq in Hpar; subst q.
  pose proof (remove_core_spec s r p c) as Hs. cbn in Hs.
  destruct (remove_core s r p c) as [s1 [e|]]; cbn in *.
  - destruct Hs as [[Hs _]|[_ Hs]]; [discriminate|]. eapply inv1a_cont; eassumption.
  - destruct Hs as [[_ [Hk Hp]]|[Hs _]]; [|congruence].
    apply (unlink_inv1a s _ r p c Hi Hq).
    + intros r' p'. cbn. rewrite Hk. reflexivity.
    + intros r' x. cbn. rewrite Hp. reflexivity.
Qed.

Lemma fold_remove_core_spec r p order : forall s,
  let res := fold_idsR (fun s c => remove_core s r p c) order s in
  snd res = None ->
  kids (fst res) = kids s /\
  forall r' x, par (fst res) r' x = if rel_eqb r' r && memb x order then None else par s r' x.
Proof.
  induction order as [|c order IH]; intros s; cbn.
  - intros _. split; [reflexivity|]. intros. rewrite andb_false_r. reflexivity.
  - pose proof (remove_core_spec s r p c) as Hs. cbn in Hs.
    destruct (remove_core s r p c) as [s1 [e|]]; cbn in *; [discriminate|].
    destruct Hs as [[_ [Hk Hp]]|[Hs _]]; [|congruence].
    intro Hres. specialize (IH s1 Hres) as [IHk IHp]. split; [congruence|].
    intros r' x. rewrite IHp, Hp. unfold upd2, upd.
    destruct (rel_eqb r' r); cbn; [|reflexivity].
    destruct (memb x order); [rewrite orb_true_r; reflexivity|].
    rewrite orb_false_r. reflexivity.
Qed.

Lemma fold_drop_outer_exn n : forall l s0 sa ea,
  fold_idsR (fun s i => drop_outer s n i) l s0 = (sa, Some ea) -> ea = XStuck.
Proof.
  induction l as [|i l IHl]; intros s0 sa ea H; cbn in H; [discriminate|].
  unfold drop_outer in H at 1. destruct (assoc i (ipins s0 n)) as [ow|]; cbn in H; [|inversion H; reflexivity].
  eapply IHl; eassumption.
Qed.

Lemma fold_drop_outer2_exn (g : state -> list id) : forall l s0 sa ea,
  fold_idsR (fun s n => fold_idsR (fun s i => drop_outer s n i) (g s) s) l s0 = (sa, Some ea) -> ea = XStuck.
Proof.
  induction l as [|n l IHl]; intros s0 sa ea Em; cbn in Em; [discriminate|].
  destruct (fold_idsR (fun s i => drop_outer s n i) (g s0) s0) as [sb [eb|]] eqn:Ea; cbn in Em.
  - inversion Em; subst. eapply fold_drop_outer_exn; eassumption.
  - eapply IHl; eassumption.
Qed.

Lemma fold_drop_outer3_exn c : forall l s0 sa ea,
  fold_idsR (fun s n => drop_outer s n c) l s0 = (sa, Some ea) -> ea = XStuck.
Proof.
  induction l as [|n l IHl]; intros s0 sa ea Em; cbn in Em; [discriminate|].
  unfold drop_outer in Em at 1. destruct (assoc c (ipins s0 n)) as [ow|]; cbn in Em; [|inversion Em; reflexivity].
  eapply IHl; eassumption.
Qed.

Lemma remove_core_exn s r p c s1 e : remove_core s r p c = (s1, Some e) -> e = XStuck.
Proof.
  unfold remove_core. intro Ef.
  match type of Ef with context [?m >>= _] => destruct m as [s3 [e3|]] eqn:Em end; cbn in Ef; [|discriminate].
  inversion Ef; subst. destruct r; cbn in Em; try discriminate.
  - eapply (fold_drop_outer2_exn (fun s => kids s RPins c)); eassumption.
  - destruct (par _ RPorts p); [|discriminate]. eapply fold_drop_outer3_exn; eassumption.
Qed.

Lemma fold_remove_core_exn r p : forall order s s1 e,
  fold_idsR (fun s c => remove_core s r p c) order s = (s1, Some e) -> e = XStuck.
Proof.
  induction order as [|c order IH]; intros s s1 e Ef; cbn in Ef; [discriminate|].
  destruct (remove_core s r p c) as [s3 [e3|]] eqn:Em; cbn in Ef.
  - inversion Ef; subst. eapply remove_core_exn; eassumption.
  - eapply IH; eassumption.
Qed.

Lemma memb_dedup x l : memb x (dedup l) = memb x l.
Proof.
  induction l as [|y l IH]; cbn; [reflexivity|].
  destruct (memb y l) eqn:E; cbn; rewrite IH; [|reflexivity].
  destruct (Nat.eqb_spec x y) as [->|]; cbn; auto.
Qed.

Lemma op_remove_from_inv1a s r p cs :
  Inv1a s -> snd (op_remove_from s r p cs) <> Some XStuck -> Inv1a (fst (op_remove_from s r p cs)).
Proof.
  intros Hi. unfold op_remove_from, guard.
  destruct (_ && _); [|intros; assumption].
  destruct (forallb (fun c => par_is s r c p) cs) eqn:Hall; [|intros; assumption].
  rewrite forallb_forall in Hall.
  assert (Hcs : forall c, In c cs -> par s r c = Some p).
  { intros c Hc. specialize (Hall c Hc). unfold par_is in Hall.
    destruct (par s r c) as [q|]; [|discriminate]. apply Nat.eqb_eq in Hall. congruence. }
  set (order := if walks_container r then filter (fun x => memb x cs) (kids s r p) else dedup cs).
  assert (Hord : forall x, memb x order = memb x cs).
  { intro x. unfold order. destruct (walks_container r); [|apply memb_dedup].
    destruct (memb x cs) eqn:Ex.
    - apply memb_In. apply filter_In. split; [|assumption].
      apply memb_In in Ex. apply (i1_kids s Hi). auto.
    - apply memb_false. rewrite filter_In. intros [_ H]. congruence. }
  pose proof (fold_remove_core_spec r p order s) as Hs. cbn in Hs.
  destruct (fold_idsR (fun s c => remove_core s r p c) order s) as [s1 [e|]] eqn:Ef; cbn in *.
  - (* an exception inside the loop: only XStuck is possible *)
    intro Hne. exfalso. apply Hne. f_equal. eapply fold_remove_core_exn; eassumption.
  - intros _. destruct (Hs eq_refl) as [Hk Hp].
    apply (unlink_many_inv1a s _ r p cs Hi Hcs).
    + intros r' p'. cbn. rewrite Hk. reflexivity.
    + intros r' x. cbn. rewrite Hp, Hord. reflexivity.
Qed.

Lemma op_reorder_inv1a s r p l : Inv1a s -> Inv1a (fst (op_reorder s r p l)).
Proof.
  intro Hi. unfold op_reorder, guard.
  destruct (is_kind s p (rel_parent r)); [|assumption].
  destruct (nodupb l && seteqb (kids s r p) l) eqn:Hg; [|assumption].
  apply andb_true_iff in Hg as [Hn Hs]. apply nodupb_NoDup in Hn. rewrite seteqb_spec in Hs.
  cbn. apply (permute_inv1a s _ r p l Hi Hn Hs); [intros; reflexivity|reflexivity].
Qed.

Lemma create_items_inv1a r p n : forall s, Inv1a s -> Inv1a (fst (create_items s r p n)).
Proof.
  induction n as [|n IH]; intros s Hi; cbn; [assumption|].
  set (s0 := s <| next := S (next s) |> <| kind_of ::= fun f => upd f (next s) (Some (rel_child r)) |>).
  assert (H0 : Inv1a s0) by (eapply inv1a_cont; [|exact Hi]; split; reflexivity).
  pose proof (op_add_inv1a s0 r p (next s) None H0) as Ha.
  destruct (op_add s0 r p (next s) None) as [s1 [e|]]; cbn in *; [assumption|apply IH; assumption].
Qed.

Lemma bind_inv1a (r : R) f : Inv1a (fst r) -> (forall s1, Inv1a s1 -> Inv1a (fst (f s1))) -> Inv1a (fst (r >>= f)).
Proof. destruct r as [s1 [e|]]; cbn; auto. Qed.

Lemma guard_inv1a b x s k : Inv1a s -> (forall s1, Inv1a s1 -> Inv1a (fst (k s1))) -> Inv1a (fst (guard b x s k)).
Proof. unfold guard. destruct b; auto. Qed.

Lemma ce_inv1a s f : Inv1a s -> cont_eq s f -> Inv1a f.
Proof. intros; eapply inv1a_cont; eassumption. Qed.

Theorem step_inv1a s o :
  Inv1a s -> snd (step s o) <> Some XStuck -> Inv1a (fst (step s o)).
Proof.
  intros Hi Hns. destruct o; cbn [step] in *.
  - eapply ce_inv1a; [exact Hi|apply ce_construct].
  - apply guard_inv1a; [assumption|]. intros s1 H1. unfold create_and_add.
    pose proof (ce_construct s1 (rel_child r) nm props) as Hc.
    destruct (construct s1 (rel_child r) nm props) as [res x]. cbn in Hc.
    apply bind_inv1a.
    + apply bind_inv1a; [eapply ce_inv1a; eassumption|]. intros; apply op_add_inv1a; assumption.
    + intros s2 H2. destruct r; try assumption.
      * apply create_items_inv1a; assumption.
      * apply create_items_inv1a; assumption.
      * eapply ce_inv1a; [eassumption|apply ce_op_set_reference].
  - apply guard_inv1a; [assumption|]. intros; apply create_items_inv1a; assumption.
  - apply op_add_inv1a; assumption.
  - apply op_remove_inv1a; assumption.
  - apply op_remove_from_inv1a; assumption.
  - apply op_reorder_inv1a; assumption.
  - unfold op_reorder_wire. repeat (apply guard_inv1a; [assumption|]; intros ? ?).
    eapply ce_inv1a; [eassumption|split; reflexivity].
  - unfold op_connect. apply guard_inv1a; [assumption|]. intros s1 H1.
    destruct p as [i|n i|]; cbn; try assumption.
    + destruct (ipwire s1 i); cbn; [assumption|]. eapply ce_inv1a; [eassumption|split; reflexivity].
    + destruct (assoc i (ipins s1 n)) as [[w0|]|]; cbn; try assumption.
      eapply ce_inv1a; [eassumption|split; reflexivity].
  - unfold op_disconnect. repeat (apply guard_inv1a; [assumption|]; intros ? ?).
    destruct p; cbn; (eapply ce_inv1a; [eassumption|split; reflexivity]).
  - eapply ce_inv1a; [exact Hi|apply ce_op_disconnect_from].
  - eapply ce_inv1a; [exact Hi|apply ce_op_set_reference].
  - eapply ce_inv1a; [exact Hi|apply ce_op_set_top].
  - apply guard_inv1a; [assumption|]. intros s1 H1.
    eapply ce_inv1a; [eassumption|apply struct_cont, se_op_set_name].
  - apply guard_inv1a; [assumption|]. intros s1 H1.
    eapply ce_inv1a; [eassumption|apply struct_cont, se_op_del_name].
  - apply guard_inv1a; [assumption|]. intros s1 H1.
    eapply ce_inv1a; [eassumption|apply struct_cont, se_dict_set].
  - apply guard_inv1a; [assumption|]. intros s1 H1.
    eapply ce_inv1a; [eassumption|apply struct_cont, se_dict_del].
  - apply guard_inv1a; [assumption|]. intros s1 H1.
    eapply ce_inv1a; [eassumption|apply struct_cont, se_dict_pop].
  - apply guard_inv1a; [assumption|]. intros s1 H1. eapply ce_inv1a; [eassumption|split; reflexivity].
  - repeat (apply guard_inv1a; [assumption|]; intros ? ?). eapply ce_inv1a; [eassumption|split; reflexivity].
  - apply guard_inv1a; [assumption|]. intros s1 H1. eapply ce_inv1a; [eassumption|split; reflexivity].
  - apply guard_inv1a; [assumption|]. intros s1 H1. eapply ce_inv1a; [eassumption|split; reflexivity].
  - eapply ce_inv1a; [eassumption|split; reflexivity].
Qed.
