(* C02, reference-set half: an instance that references a definition is a member of that
   definition's reference set and of no other (sets are duplicate-free lists). *)
From Coq Require Import List Arith NArith ZArith Bool Permutation.
From RecordUpdate Require Import RecordSet.
From SV Require Import Base.Base IR.State IR.NS IR.Ops Proofs.Frame Proofs.Refused.
Import ListNotations RecordSetNotations.

Record Inv2a (s : state) : Prop := mkInv2a {
  i2_ref : forall n d, In n (drefs s d) <-> iref s n = Some d;
  i2_nodup : forall d, NoDup (drefs s d)
}.

Definition ref_eq (s s' : state) : Prop := drefs s' = drefs s /\ iref s' = iref s.

Lemma ref_eq_refl s : ref_eq s s.
Proof. split; reflexivity. Qed.
Lemma ref_eq_trans a b c : ref_eq a b -> ref_eq b c -> ref_eq a c.
Proof. intros [] []; split; congruence. Qed.
Lemma struct_ref s s' : struct_eq s s' -> ref_eq s s'.
Proof. intros []; split; assumption. Qed.
Lemma inv2a_ref s s' : ref_eq s s' -> Inv2a s -> Inv2a s'.
Proof. intros [Hd Hr] [H1 H2]. constructor; rewrite Hd; [rewrite Hr|]; auto. Qed.
Lemma inv2a_init : Inv2a init.
Proof. constructor; cbn; [intros; split; [tauto|discriminate]|constructor]. Qed.

Ltac triv := split; reflexivity.

Lemma re_bind r f s :
  ref_eq s (fst r) -> (forall s1, ref_eq s1 (fst (f s1))) -> ref_eq s (fst (r >>= f)).
Proof.
  destruct r as [s1 [x|]]; cbn; intros H1 H2; [assumption|]. eapply ref_eq_trans; [apply H1|apply H2].
Qed.
Lemma re_guard b x s k : (forall s1, ref_eq s1 (fst (k s1))) -> ref_eq s (fst (guard b x s k)).
Proof. intro H. unfold guard. destruct b; [apply H|apply ref_eq_refl]. Qed.
Lemma re_fold_ids f l : (forall s x, ref_eq s (f s x)) -> forall s, ref_eq s (fold_ids f l s).
Proof.
  intro H. induction l as [|x l IH]; intro s; cbn; [apply ref_eq_refl|]. eapply ref_eq_trans; [apply H|apply IH].
Qed.
Lemma re_fold_idsR f l : (forall s x, ref_eq s (fst (f s x))) -> forall s, ref_eq s (fst (fold_idsR f l s)).
Proof.
  intro H. induction l as [|x l IH]; intro s; cbn; [apply ref_eq_refl|]. apply re_bind; [apply H|apply IH].
Qed.
Lemma re_fold_left {A} (f : state -> A -> state) l :
  (forall s x, ref_eq s (f s x)) -> forall s, ref_eq s (fold_left f l s).
Proof.
  intro H. induction l as [|x l IH]; intro s; cbn; [apply ref_eq_refl|]. eapply ref_eq_trans; [apply H|apply IH].
Qed.
Lemma re_new_outer s n i : ref_eq s (new_outer s n i).
Proof. triv. Qed.
Lemma re_drop_outer s n i : ref_eq s (fst (drop_outer s n i)).
Proof. unfold drop_outer. destruct (assoc i (ipins s n)) as [[w|]|]; cbn; triv. Qed.
Lemma re_add_post s r p c : ref_eq s (add_post s r p c).
Proof.
  unfold add_post. destruct r; try apply ref_eq_refl.
  - apply re_fold_ids. intros s0 n. apply re_fold_ids. intros; apply re_new_outer.
  - destruct (par s RPorts p); [|apply ref_eq_refl]. apply re_fold_ids. intros; apply re_new_outer.
Qed.
Lemma re_construct s k nm props : ref_eq s (fst (fst (construct s k nm props))).
Proof.
  unfold construct. cbn. destruct (has_data k); cbn; [|triv].
  apply re_bind.
  - eapply ref_eq_trans; [|apply struct_ref, se_ns_create]. triv.
  - intro s1. apply re_bind.
    + destruct nm; cbn; [eapply ref_eq_trans; [|apply struct_ref, se_dict_set]|]; triv.
    + intro s2. apply struct_ref, se_set_props.
Qed.
Lemma re_op_add s r p c pos : ref_eq s (fst (op_add s r p c pos)).
Proof.
  unfold op_add. repeat (apply re_guard; intro). apply re_bind.
  - destruct (ns_rel r); [apply struct_ref, se_ns_add|apply ref_eq_refl].
  - intro s4. cbn [fst ret]. eapply ref_eq_trans; [|apply re_add_post]. triv.
Qed.
Lemma re_remove_core s r p c : ref_eq s (fst (remove_core s r p c)).
Proof.
  unfold remove_core. apply re_bind.
  - eapply ref_eq_trans with (b := emit (if ns_rel r then ns_remove_child s p c (rel_child r) else s) (ERemove r p c)).
    + destruct (ns_rel r); [|triv]. destruct (se_ns_remove_child s p c (rel_child r)). split; cbn; assumption.
    + destruct r; try apply ref_eq_refl.
      * apply re_fold_idsR. intros s0 n. apply re_fold_idsR. intros; apply re_drop_outer.
      * destruct (par _ RPorts p); [|apply ref_eq_refl]. apply re_fold_idsR. intros; apply re_drop_outer.
  - intro s3. triv.
Qed.
Lemma re_op_remove s r p c : ref_eq s (fst (op_remove s r p c)).
Proof.
  unfold op_remove. repeat (apply re_guard; intro). apply re_bind; [apply re_remove_core|]. intro; triv.
Qed.
Lemma re_op_remove_from s r p cs : ref_eq s (fst (op_remove_from s r p cs)).
Proof.
  unfold op_remove_from. repeat (apply re_guard; intro). apply re_bind; [|intro; triv].
  apply re_fold_idsR. intros; apply re_remove_core.
Qed.
Lemma re_create_items r p n : forall s, ref_eq s (fst (create_items s r p n)).
Proof.
  induction n as [|n IH]; intro s; cbn; [apply ref_eq_refl|].
  apply re_bind; [|apply IH]. eapply ref_eq_trans; [|apply re_op_add]. triv.
Qed.

(* ---- the reference setter ---- *)
Lemma rekey_refs s n cn : ref_eq s (fst (rekey s n cn)).
Proof. unfold rekey. destruct cn. destruct (assoc _ _) as [[w|]|]; cbn; triv. Qed.

Lemma re_fold_pairsR f l : (forall s x, ref_eq s (fst (f s x))) -> forall s, ref_eq s (fst (fold_pairsR f l s)).
Proof.
  intro H. induction l as [|x l IH]; intro s; cbn; [apply ref_eq_refl|]. apply re_bind; [apply H|apply IH].
Qed.

Lemma set_add_In x y l : In y (set_add x l) <-> y = x \/ In y l.
Proof.
  unfold set_add. destruct (memb x l) eqn:E.
  - apply memb_In in E. split; [auto|intros [->|?]; assumption].
  - rewrite in_app_iff. cbn. split; [intros [?|[?|[]]]; auto|intros [?|?]; auto].
Qed.

Lemma set_add_NoDup x l : NoDup l -> NoDup (set_add x l).
Proof.
  intro H. unfold set_add. destruct (memb x l) eqn:E; [assumption|].
  apply memb_false in E. eapply Permutation_NoDup; [apply Permutation_cons_append|].
  constructor; assumption.
Qed.

Section RefsUpdate.
  Variables (Rf : id -> list id) (If : id -> option id) (x : id) (old : option id).
  Hypothesis Hin : forall n d, In n (Rf d) <-> If n = Some d.
  Hypothesis Hnd : forall d, NoDup (Rf d).
  Hypothesis Hold : If x = old.

  Definition R1 : id -> list id :=
    match old with Some d => upd Rf d (remove_first x (Rf d)) | None => Rf end.

  Lemma R1_spec n d0 : In n (R1 d0) <-> (If n = Some d0 /\ n <> x).
  Proof.
    unfold R1. destruct old as [d|] eqn:Eo.
    - unfold upd. destruct (Nat.eqb_spec d0 d) as [->|Hne].
      + rewrite remove_first_In by apply Hnd. rewrite Hin. tauto.
      + rewrite Hin. split; [|tauto]. intro H. split; [assumption|].
        intros ->. rewrite Hold in H. inversion H. congruence.
    - rewrite Hin. split; [|tauto]. intro H. split; [assumption|]. intros ->. congruence.
  Qed.

  Lemma R1_nodup d0 : NoDup (R1 d0).
  Proof.
    unfold R1. destruct old as [d|]; [|apply Hnd]. unfold upd.
    destruct (Nat.eqb d0 d); [apply remove_first_NoDup|]; apply Hnd.
  Qed.

  Lemma refs_set d' :
    (forall n d, In n (upd R1 d' (set_add x (R1 d')) d) <-> upd If x (Some d') n = Some d) /\
    (forall d, NoDup (upd R1 d' (set_add x (R1 d')) d)).
  Proof.
    split.
    - intros n d0. unfold upd.
      destruct (Nat.eqb_spec n x) as [->|Hnx]; destruct (Nat.eqb_spec d0 d') as [->|Hd].
      + rewrite set_add_In. split; auto.
      + rewrite R1_spec. split; [intros [_ H]; congruence|intro H; inversion H; congruence].
      + rewrite set_add_In, R1_spec. split; [intros [?|[? _]]; [contradiction|assumption]|auto].
      + rewrite R1_spec. tauto.
    - intro d0. unfold upd. destruct (Nat.eqb d0 d'); [apply set_add_NoDup|]; apply R1_nodup.
  Qed.

  Lemma refs_clear :
    (forall n d, In n (R1 d) <-> upd If x None n = Some d) /\ (forall d, NoDup (R1 d)).
  Proof.
    split; [|apply R1_nodup]. intros n d0. rewrite R1_spec. unfold upd.
    destruct (Nat.eqb_spec n x) as [->|Hnx]; [split; [tauto|discriminate]|tauto].
  Qed.
End RefsUpdate.

Lemma op_set_reference_inv2a s x v :
  Inv2a s -> snd (op_set_reference s x v) <> Some XStuck -> Inv2a (fst (op_set_reference s x v)).
Proof.
  intros Hi. unfold op_set_reference, guard.
  destruct (_ && _); [|intros; assumption].
  destruct (match v, iref s x with Some d', Some d => same_shape s d d' | _, _ => true end); [|intros; assumption].
  destruct Hi as [Hin Hnd].
  set (s1 := emit s (EReference x v)).
  destruct v as [d'|].
  - (* repoint or first assignment *)
    assert (Hmid : forall mid : R,
      (snd mid = None -> drefs (fst mid) = R1 (drefs s) x (iref s x) /\ iref (fst mid) = iref s) ->
      (snd mid <> None -> snd mid = Some XStuck) ->
      snd (mid >>= fun s3 => ret (set_iref (set_drefs s3 d' (set_add x (drefs s3 d'))) x (Some d'))) <> Some XStuck ->
      Inv2a (fst (mid >>= fun s3 => ret (set_iref (set_drefs s3 d' (set_add x (drefs s3 d'))) x (Some d'))))).
    { intros [s3 [e|]] H1 H2; cbn [bindR fst snd ret].
      - intro Hne. exfalso. apply Hne. apply H2. discriminate.
      - intros _. destruct (H1 eq_refl) as [Hd Hr]. cbn in Hd, Hr.
        destruct (refs_set (drefs s) (iref s) x (iref s x) Hin Hnd eq_refl d') as [A B].
        constructor; cbn; rewrite Hd; [rewrite Hr|]; [apply A|apply B]. }
    apply Hmid.
    + destruct (iref s1 x) as [d|] eqn:Er; cbn in Er; rewrite Er.
      * assert (Hm : memb x (drefs s1 d) = true) by (apply memb_In; cbn; apply Hin; assumption).
        rewrite Hm. cbn [bindR ret].
        pose proof (re_fold_pairsR (fun s cn => rekey s x cn) (pin_pairs (set_drefs s1 d (remove_first x (drefs s1 d))) d d')
                      (fun s0 c0 => rekey_refs s0 x c0) (set_drefs s1 d (remove_first x (drefs s1 d)))) as [Hd Hr].
        intros _. split; [rewrite Hd|rewrite Hr]; reflexivity.
      * intros _. cbn [fst ret R1].
        pose proof (re_fold_ids (fun s i => new_outer s x i) (port_pins s1 d') (fun s0 i0 => re_new_outer s0 x i0) s1) as [Hd Hr].
        split; [rewrite Hd|rewrite Hr]; reflexivity.
    + destruct (iref s1 x) as [d|] eqn:Er.
      * destruct (memb x (drefs s1 d)); cbn [bindR ret raise]; [|intros _; reflexivity].
        intro Hne. 
        assert (Hos : forall l s0, match snd (fold_pairsR (fun s cn => rekey s x cn) l s0) with Some e => e = XStuck | None => True end).
        { induction l as [|c l IH]; intro s0; cbn; [exact I|].
          unfold rekey at 1. destruct c as [cur new]. destruct (assoc cur (ipins s0 x)); cbn; [apply IH|reflexivity]. }
        specialize (Hos (pin_pairs (set_drefs s1 d (remove_first x (drefs s1 d))) d d') (set_drefs s1 d (remove_first x (drefs s1 d)))).
        destruct (snd (fold_pairsR _ _ _)); [congruence|contradiction].
      * cbn. congruence.
  - (* reference := None *)
    match goal with |- context [?m >>= _] => set (mid := m) end.
    assert (Hm1 : ref_eq s (fst mid)).
    { unfold mid. eapply ref_eq_trans with (b := s1); [triv|]. apply re_fold_idsR. intros; apply re_drop_outer. }
    assert (Hm2 : match snd mid with Some e => e = XStuck | None => True end).
    { unfold mid. apply fold_drop_outer_only_stuck. }
    destruct mid as [s2 [e|]]; cbn [bindR fst snd] in *; [intro Hne; congruence|].
    destruct Hm1 as [Hd Hr].
    assert (Hr3 : iref (set_ipins s2 x []) x = iref s x) by (cbn; rewrite Hr; reflexivity).
    rewrite Hr3.
    destruct (refs_clear (drefs s) (iref s) x (iref s x) Hin Hnd eq_refl) as [A B].
    destruct (iref s x) as [d|] eqn:Er.
    + assert (Hm : memb x (drefs (set_ipins s2 x []) d) = true).
      { apply memb_In. cbn. rewrite Hd. apply Hin. assumption. }
      rewrite Hm. cbn [bindR ret fst snd]. intros _.
      constructor; cbn; rewrite Hd, ?Hr; [apply A|apply B].
    + cbn [bindR ret fst snd]. intros _.
      constructor; cbn; rewrite Hd, ?Hr; [apply A|apply B].
Qed.

Lemma re_clear_old_top s n : ref_eq s (clear_old_top s n).
Proof. unfold clear_old_top. destruct (top s n); triv. Qed.

Lemma re_inv2a s f : Inv2a s -> ref_eq s f -> Inv2a f.
Proof. intros; eapply inv2a_ref; eassumption. Qed.

Lemma bind_stuck (r : R) f : snd (r >>= f) <> Some XStuck -> snd r <> Some XStuck.
Proof. destruct r as [s [e|]]; cbn; [auto|discriminate]. Qed.

(* r >>= f where r only shuffles other fields and f is the reference setter *)
Lemma bind_then_setref (r : R) x v k :
  Inv2a (fst r) ->
  (forall s2, ref_eq s2 (fst (k s2))) ->
  snd (r >>= fun s1 => op_set_reference s1 x v >>= k) <> Some XStuck ->
  Inv2a (fst (r >>= fun s1 => op_set_reference s1 x v >>= k)).
Proof.
  destruct r as [s1 [e|]]; cbn [bindR fst snd]; intros Hi Hk; [intros; assumption|].
  intro Hns. pose proof (op_set_reference_inv2a s1 x v Hi (bind_stuck _ _ Hns)) as H.
  destruct (op_set_reference s1 x v) as [s2 [e|]]; cbn [bindR fst snd] in *; [assumption|].
  eapply re_inv2a; [exact H|apply Hk].
Qed.

Theorem step_inv2a s o :
  Inv2a s -> snd (step s o) <> Some XStuck -> Inv2a (fst (step s o)).
Proof.
  intros Hi Hns. destruct o; cbn [step] in *.
  - eapply re_inv2a; [exact Hi|apply re_construct].
  - unfold guard in *. destruct (_ && _); [|assumption].
    unfold create_and_add in *.
    pose proof (re_construct s (rel_child r) nm props) as Hc.
    destruct (construct s (rel_child r) nm props) as [res x]. cbn [fst] in Hc.
    assert (Hadd : ref_eq s (fst (res >>= fun s1 => op_add s1 r p x None))).
    { apply re_bind; [exact Hc|intro; apply re_op_add]. }
    destruct r; try (eapply re_inv2a; [exact Hi|]; apply re_bind; [exact Hadd|intro; try apply ref_eq_refl; apply re_create_items]).
    (* children: create_child(reference=...) *)
    set (r0 := res >>= fun s1 => op_add s1 RChildren p x None) in *.
    assert (Hi0 : Inv2a (fst r0)) by (eapply re_inv2a; [exact Hi|exact Hadd]).
    pose proof (bind_then_setref r0 x ref ret Hi0 (fun s2 => ref_eq_refl s2)) as H.
    assert (E : forall rr : R, (rr >>= fun s1 => op_set_reference s1 x ref >>= ret) = (rr >>= fun s1 => op_set_reference s1 x ref)).
    { intros [sa [ea|]]; cbn; [reflexivity|]. destruct (op_set_reference sa x ref) as [sb [eb|]]; reflexivity. }
    rewrite E in H. apply H. exact Hns.
  - eapply re_inv2a; [exact Hi|]. apply re_guard. intro. apply re_create_items.
  - eapply re_inv2a; [exact Hi|apply re_op_add].
  - eapply re_inv2a; [exact Hi|apply re_op_remove].
  - eapply re_inv2a; [exact Hi|apply re_op_remove_from].
  - eapply re_inv2a; [exact Hi|]. unfold op_reorder. repeat (apply re_guard; intro). triv.
  - eapply re_inv2a; [exact Hi|]. unfold op_reorder_wire. repeat (apply re_guard; intro). triv.
  - eapply re_inv2a; [exact Hi|]. unfold op_connect. apply re_guard. intro s1.
    destruct p as [i|n i|]; cbn; try apply ref_eq_refl.
    + destruct (ipwire s1 i); cbn; triv.
    + destruct (assoc i (ipins s1 n)) as [[w0|]|]; cbn; triv.
  - eapply re_inv2a; [exact Hi|]. unfold op_disconnect. repeat (apply re_guard; intro). destruct p; cbn; triv.
  - eapply re_inv2a; [exact Hi|]. unfold op_disconnect_from. repeat (apply re_guard; intro).
    cbn [fst ret]. eapply ref_eq_trans; [|triv]. apply re_fold_left. intros sq q. destruct q; triv.
  - apply op_set_reference_inv2a; assumption.
  - unfold op_set_top, guard in *. destruct (_ && _); [|assumption].
    assert (H0 : ref_eq s (clear_old_top (emit s (ETop n a)) n)).
    { eapply ref_eq_trans; [|apply re_clear_old_top]. triv. }
    destruct a as [x|d|].
    + eapply re_inv2a; [exact Hi|]. cbn [fst ret]. eapply ref_eq_trans; [apply H0|]. triv.
    + pose proof (re_construct (clear_old_top (emit s (ETop n (TopDef d))) n) KInstance None []) as Hc.
      destruct (construct (clear_old_top (emit s (ETop n (TopDef d))) n) KInstance None []) as [res t].
      cbn [fst] in Hc.
      apply bind_then_setref; [eapply re_inv2a; [exact Hi|]; eapply ref_eq_trans; eassumption| |exact Hns].
      intro s3. cbn [fst ret]. eapply ref_eq_trans; [|triv]. eapply ref_eq_trans; [|apply re_clear_old_top]. triv.
    + eapply re_inv2a; [exact Hi|]. cbn [fst ret]. eapply ref_eq_trans; [apply H0|]. triv.
  - eapply re_inv2a; [exact Hi|]. apply re_guard. intro. apply struct_ref, se_op_set_name.
  - eapply re_inv2a; [exact Hi|]. apply re_guard. intro. apply struct_ref, se_op_del_name.
  - eapply re_inv2a; [exact Hi|]. apply re_guard. intro. apply struct_ref, se_dict_set.
  - eapply re_inv2a; [exact Hi|]. apply re_guard. intro. apply struct_ref, se_dict_del.
  - eapply re_inv2a; [exact Hi|]. apply re_guard. intro. apply struct_ref, se_dict_pop.
  - eapply re_inv2a; [exact Hi|]. apply re_guard. intro. triv.
  - eapply re_inv2a; [exact Hi|]. repeat (apply re_guard; intro). triv.
  - eapply re_inv2a; [exact Hi|]. apply re_guard. intro. triv.
  - eapply re_inv2a; [exact Hi|]. apply re_guard. intro. triv.
  - eapply re_inv2a; [exact Hi|]. triv.
Qed.
