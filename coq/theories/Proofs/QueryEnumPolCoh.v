(* PolCoh (the hypothesis of QueryEnumLookIdent): child[".NS"] follows the parent.  The invariant
   PolInv carried through the calls, and its preservation by the calls that do not rewrite ".NS". *)
From Coq Require Import List Arith NArith Bool Lia.
From RecordUpdate Require Import RecordSet.
From SV Require Import Base.Base IR.State IR.NS IR.Ops Proofs.AssocX Proofs.Frame Proofs.Inv1a Proofs.Inv2a
  Proofs.InvP Proofs.InvW Proofs.Refused Proofs.Fresh Proofs.NsSlot Proofs.Ident Proofs.NsInv Proofs.NsLegal Proofs.QueryEnumLookIdent.
Import ListNotations RecordSetNotations.

Definition scope_kind (s : state) (p : id) : Prop :=
  kind_of s p = Some KNetlist \/ kind_of s p = Some KLibrary \/ kind_of s p = Some KDefinition.

Definition PolInv (s : state) : Prop :=
  (forall p t, nstab s p = Some t -> elem_pol s p = Some (ns_pol t) /\ scope_kind s p) /\
  (forall r p c, ns_rel r = true -> In c (kids s r p) -> elem_pol s c = elem_pol s p).

Theorem polinv_polcoh s r : ns_rel r = true -> PolInv s -> PolCoh s r.
Proof. intros Hr [A B] p t c Hp Hpol Hc. rewrite (B r p c Hr Hc), (proj1 (A p t Hp)), Hpol. reflexivity. Qed.

Lemma polinv_init : PolInv init.
Proof. split; [intros p t H; discriminate|intros r p c _ []]. Qed.

(* steps that only shrink child lists, keep every ".NS" and keep the policy of every table *)
Record polq (s s' : state) : Prop := mkPolq {
  pq_kids : forall r p c, ns_rel r = true -> In c (kids s' r p) -> In c (kids s r p);
  pq_pol : forall e, elem_pol s' e = elem_pol s e;
  pq_kind : forall x k, kind_of s x = Some k -> kind_of s' x = Some k;
  pq_tab : forall p t', nstab s' p = Some t' -> exists t, nstab s p = Some t /\ ns_pol t = ns_pol t'
}.

Lemma polq_refl s : polq s s.
Proof. constructor; auto. intros p t H. exists t. auto. Qed.

Lemma polq_trans a b c : polq a b -> polq b c -> polq a c.
Proof.
  intros [A1 A2 A4 A3] [B1 B2 B4 B3]. constructor.
  - intros r p x Hr Hx. apply A1; [exact Hr|]. apply B1; assumption.
  - intro e. rewrite B2. apply A2.
  - auto.
  - intros p t' H. destruct (B3 p t' H) as [t1 [H1 E1]]. destruct (A3 p t1 H1) as [t0 [H0 E0]]. exists t0. split; [exact H0|congruence].
Qed.

Theorem polq_polinv s s' : polq s s' -> PolInv s -> PolInv s'.
Proof.
  intros [Q1 Q2 Q4 Q3] [A B]. split.
  - intros p t' H. destruct (Q3 p t' H) as [t [H0 E]]. destruct (A p t H0) as [A1 A2]. rewrite Q2, A1, E. split; [reflexivity|].
    unfold scope_kind in *. destruct A2 as [K|[K|K]]; apply Q4 in K; auto.
  - intros r p c Hr Hc. rewrite !Q2. apply (B r); [exact Hr|]. apply Q1; assumption.
Qed.

Lemma polq_fields s s' :
  (forall r, ns_rel r = true -> kids s' r = kids s r) -> data s' = data s -> nstab s' = nstab s -> kind_of s' = kind_of s -> polq s s'.
Proof.
  intros A B C D. constructor.
  - intros r p c Hr. rewrite (A r Hr). auto.
  - intro e. unfold elem_pol. rewrite B. reflexivity.
  - intros x k. rewrite D. auto.
  - intros p t H. rewrite C in H. exists t. auto.
Qed.

Lemma polq_q3 s s' : q3 s s' -> polq s s'.
Proof. intros [A B C D]. apply polq_fields; [intros; rewrite A; reflexivity|exact B|exact C|exact D]. Qed.

Lemma polq_bind r f s : polq s (fst r) -> (forall s1, polq s1 (fst (f s1))) -> polq s (fst (r >>= f)).
Proof. destruct r as [s1 [x|]]; cbn; intros H1 H2; [exact H1|]. eapply polq_trans; [exact H1|apply H2]. Qed.
Lemma polq_guard b x s k : (forall s1, polq s1 (fst (k s1))) -> polq s (fst (guard b x s k)).
Proof. intro H. unfold guard. destruct b; [apply H|apply polq_refl]. Qed.
Lemma polq_fold_idsR f l : (forall s x, polq s (fst (f s x))) -> forall s, polq s (fst (fold_idsR f l s)).
Proof. intro H. induction l as [|x l IH]; intro s; cbn; [apply polq_refl|]. apply polq_bind; [apply H|apply IH]. Qed.

Lemma polq_set_tab_pol s p t t' : nstab s p = Some t -> ns_pol t' = ns_pol t -> polq s (set_nstab s p (Some t')).
Proof.
  intros Hp E. constructor; [auto|reflexivity|auto|]. intros y u. cbn. unfold upd.
  destruct (Nat.eqb_spec y p) as [->|]; [|intro H; exists u; auto]. intro H. injection H as <-. exists t. auto.
Qed.

Lemma polq_ns_remove_child s p c ck : polq s (ns_remove_child s p c ck).
Proof.
  unfold ns_remove_child. destruct (nstab s p) as [t|] eqn:Hp; [|apply polq_refl].
  apply (polq_set_tab_pol s p t); [exact Hp|]. rewrite !ns_remove_pol. reflexivity.
Qed.

Lemma polq_remove_core s r p c : polq s (fst (remove_core s r p c)).
Proof.
  eapply polq_trans; [|apply polq_q3, remove_core_q3]. destruct (ns_rel r); [apply polq_ns_remove_child|apply polq_refl].
Qed.

Lemma polq_set_kids_sub s r p l : (forall x, In x l -> In x (kids s r p)) -> polq s (set_kids s r p l).
Proof.
  intro H. constructor; [|reflexivity|auto|intros y t Hy; exists t; auto]. intros r0 p0 c0 _. cbn. rewrite kids_upd2_ns.
  destruct (rel_eqb r0 r) eqn:Er; cbn [andb]; [|auto]. apply rel_eqb_spec in Er. subst r0.
  destruct (Nat.eqb_spec p0 p) as [->|]; [|auto]. apply H.
Qed.

Lemma polq_op_remove s r p c : polq s (fst (op_remove s r p c)).
Proof.
  unfold op_remove. repeat (apply polq_guard; intro). apply polq_bind; [apply polq_remove_core|].
  intro s2. apply polq_set_kids_sub. intros x Hx. apply (remove_first_In_sub c x _ Hx).
Qed.

Lemma polq_op_remove_from s r p cs : polq s (fst (op_remove_from s r p cs)).
Proof.
  unfold op_remove_from. repeat (apply polq_guard; intro). apply polq_bind; [apply polq_fold_idsR; intros; apply polq_remove_core|].
  intro s2. apply polq_set_kids_sub. intros x Hx. apply remove_all_in_In in Hx. apply Hx.
Qed.

Lemma polq_op_reorder s r p l : polq s (fst (op_reorder s r p l)).
Proof.
  unfold op_reorder, guard. destruct (is_kind _ _ _); [|apply polq_refl].
  destruct (nodupb l && seteqb (kids s r p) l) eqn:Hg; [|apply polq_refl].
  apply andb_true_iff in Hg as [_ Hs]. rewrite seteqb_spec in Hs. cbn [fst ret].
  apply polq_set_kids_sub. intros x Hx. apply Hs. exact Hx.
Qed.

(* writes and erasures of keys other than ".NS" *)
Lemma elem_pol_write s e k v c : str_eqb k str_NS = false -> elem_pol (data_write s e k v) c = elem_pol s c.
Proof.
  intro Hk. unfold elem_pol, data_write. cbn. unfold upd. destruct (Nat.eqb_spec c e) as [->|]; [|reflexivity].
  rewrite sassoc_set_other; [reflexivity|]. intro E. rewrite <- E, str_eqb_refl in Hk. discriminate.
Qed.
Lemma elem_pol_erase s e k c : str_eqb k str_NS = false -> elem_pol (data_erase s e k) c = elem_pol s c.
Proof.
  intro Hk. unfold elem_pol, data_erase. cbn. unfold upd. destruct (Nat.eqb_spec c e) as [->|]; [|reflexivity].
  rewrite sassoc_del_other; [reflexivity|]. intro E. rewrite <- E, str_eqb_refl in Hk. discriminate.
Qed.

Lemma polq_write_other s e k v : str_eqb k str_NS = false -> polq s (data_write s e k v).
Proof. intro Hk. constructor; [auto|intro; apply elem_pol_write; exact Hk|auto|intros p t H; exists t; auto]. Qed.
Lemma polq_erase_other s e k : str_eqb k str_NS = false -> polq s (data_erase s e k).
Proof. intro Hk. constructor; [auto|intro; apply elem_pol_erase; exact Hk|auto|intros p t H; exists t; auto]. Qed.
Lemma polq_emit s ev : polq s (emit s ev).
Proof. apply polq_fields; reflexivity. Qed.

Lemma polq_ns_dictionary_set s e k v : str_eqb k str_NS = false -> polq s (fst (ns_dictionary_set s e k v)).
Proof.
  intro Hk. unfold ns_dictionary_set. rewrite Hk. destruct (is_name_key k); [|apply polq_refl].
  destruct v; try apply polq_refl. destruct (negb _); [apply polq_refl|].
  destruct (ns_parent s e) as [p|]; [|apply polq_refl]. destruct (kind_of s e) as [ek|]; [|apply polq_refl].
  destruct (nstab s p) as [t|] eqn:Hp; [|apply polq_refl]. destruct (ns_no_conflict _ _ _ _ _); [|apply polq_refl].
  cbn [fst ret]. apply (polq_set_tab_pol s p t); [exact Hp|apply ns_update_pol].
Qed.

Lemma polq_dict_set s e k v : str_eqb k str_NS = false -> polq s (fst (dict_set s e k v)).
Proof.
  intro Hk. unfold dict_set. apply polq_bind; [apply polq_ns_dictionary_set; exact Hk|]. intro s1. cbn [fst ret].
  eapply polq_trans; [apply polq_emit|apply polq_write_other; exact Hk].
Qed.

Lemma polq_ns_dictionary_delete s e k : str_eqb k str_NS = false -> polq s (fst (ns_dictionary_delete s e k)).
Proof.
  intro Hk. unfold ns_dictionary_delete. rewrite Hk. destruct (is_name_key k); [|apply polq_refl]. cbn [fst ret].
  unfold ns_remove_key. destruct (ns_parent s e) as [p|]; [|apply polq_refl]. destruct (kind_of s e) as [ek|]; [|apply polq_refl].
  destruct (nstab s p) as [t|] eqn:Hp; [|apply polq_refl]. apply (polq_set_tab_pol s p t); [exact Hp|apply ns_remove_pol].
Qed.

Lemma polq_dict_del s e k : str_eqb k str_NS = false -> polq s (fst (dict_del s e k)).
Proof.
  intro Hk. unfold dict_del. apply polq_bind; [apply polq_ns_dictionary_delete; exact Hk|]. intro s1. cbn zeta.
  destruct (has_key _ e k); cbn [fst ret raise]; [|apply polq_emit].
  eapply polq_trans; [apply polq_emit|apply polq_erase_other; exact Hk].
Qed.

Lemma polq_dict_pop s e k : str_eqb k str_NS = false -> polq s (fst (dict_pop s e k)).
Proof.
  intro Hk. unfold dict_pop. apply polq_bind; [apply polq_ns_dictionary_delete; exact Hk|]. intro s1. cbn zeta.
  destruct (has_key _ e k); cbn [fst ret raise]; [|apply polq_emit].
  eapply polq_trans; [apply polq_emit|apply polq_erase_other; exact Hk].
Qed.

Lemma polq_op_set_name s e nm : polq s (fst (op_set_name s e nm)).
Proof.
  unfold op_set_name. destruct nm; [apply polq_dict_set; reflexivity|].
  destruct (has_key s e str_NAME); [apply polq_dict_del; reflexivity|apply polq_refl].
Qed.
Lemma polq_op_del_name s e : polq s (fst (op_del_name s e)).
Proof. unfold op_del_name. destruct (has_key s e str_NAME); [apply polq_dict_del; reflexivity|apply polq_refl]. Qed.

(* ---- the subtree visited by apply_namespace / drop_namespace is closed under children ---- *)
Lemma subtree_root s e : In e (subtree s e).
Proof. unfold subtree. destruct (kind_of s e) as [[]|]; left; reflexivity. Qed.

Lemma def_closed s d r p c : InvT s -> kind_of s d = Some KDefinition -> ns_rel r = true ->
  In p (def_subtree s d) -> In c (kids s r p) -> In c (def_subtree s d).
Proof.
  intros HT Kd Hr Hp Hc. destruct (HT r p c Hc) as [_ Kp]. destruct Hp as [<-|Hp].
  - right. rewrite Kd in Kp. injection Kp as Kp. destruct r; try discriminate; rewrite !in_app_iff; auto.
  - exfalso. rewrite !in_app_iff in Hp. destruct Hp as [Hp|[Hp|Hp]]; destruct (HT _ _ _ Hp) as [Kp' _];
      rewrite Kp in Kp'; injection Kp' as Kp'; destruct r; discriminate.
Qed.

Lemma lib_closed s l r p c : InvT s -> kind_of s l = Some KLibrary -> ns_rel r = true ->
  In p (lib_subtree s l) -> In c (kids s r p) -> In c (lib_subtree s l).
Proof.
  intros HT Kl Hr Hp Hc. destruct (HT r p c Hc) as [_ Kp]. destruct Hp as [<-|Hp].
  - right. rewrite Kl in Kp. injection Kp as Kp. destruct r; try discriminate.
    apply in_flat_map. exists c. split; [exact Hc|left; reflexivity].
  - right. apply in_flat_map in Hp as [d [Hd Hp]]. apply in_flat_map. exists d. split; [exact Hd|].
    destruct (HT _ _ _ Hd) as [Kd _]. apply (def_closed s d r p c HT Kd Hr Hp Hc).
Qed.

Lemma net_closed s n r p c : InvT s -> kind_of s n = Some KNetlist -> ns_rel r = true ->
  In p (net_subtree s n) -> In c (kids s r p) -> In c (net_subtree s n).
Proof.
  intros HT Kn Hr Hp Hc. destruct (HT r p c Hc) as [_ Kp]. destruct Hp as [<-|Hp].
  - right. rewrite Kn in Kp. injection Kp as Kp. destruct r; try discriminate.
    apply in_flat_map. exists c. split; [exact Hc|left; reflexivity].
  - right. apply in_flat_map in Hp as [l [Hl Hp]]. apply in_flat_map. exists l. split; [exact Hl|].
    destruct (HT _ _ _ Hl) as [Kl _]. apply (lib_closed s l r p c HT Kl Hr Hp Hc).
Qed.

Lemma subtree_closed s e r p c : InvT s -> ns_rel r = true ->
  In p (subtree s e) -> In c (kids s r p) -> In c (subtree s e).
Proof.
  intros HT Hr Hp Hc. unfold subtree in *. destruct (kind_of s e) as [k|] eqn:Ke.
  - destruct k; try (destruct Hp as [<-|[]]; destruct (HT r _ c Hc) as [_ Kp]; rewrite Ke in Kp; injection Kp as Kp; destruct r; discriminate).
    + apply (net_closed s e r p c HT Ke Hr Hp Hc).
    + apply (lib_closed s e r p c HT Ke Hr Hp Hc).
    + apply (def_closed s e r p c HT Ke Hr Hp Hc).
  - destruct Hp as [<-|[]]. destruct (HT r _ c Hc) as [_ Kp]. congruence.
Qed.

(* every member but the root is a child of a member *)
Lemma def_up s d c : In c (def_subtree s d) -> c = d \/ exists r p, ns_rel r = true /\ In p (def_subtree s d) /\ In c (kids s r p).
Proof.
  intros [<-|H]; [left; reflexivity|right]. rewrite !in_app_iff in H.
  destruct H as [H|[H|H]]; [exists RPorts, d|exists RCables, d|exists RChildren, d]; (split; [reflexivity|split; [left; reflexivity|exact H]]).
Qed.

Lemma lib_up s l c : In c (lib_subtree s l) -> c = l \/ exists r p, ns_rel r = true /\ In p (lib_subtree s l) /\ In c (kids s r p).
Proof.
  intros [<-|H]; [left; reflexivity|right]. apply in_flat_map in H as [d [Hd H]].
  destruct (def_up s d c H) as [->|[r [p [Hr [Hp Hc]]]]].
  - exists RDefs, l. split; [reflexivity|split; [left; reflexivity|exact Hd]].
  - exists r, p. split; [exact Hr|split; [|exact Hc]]. right. apply in_flat_map. exists d. auto.
Qed.

Lemma net_up s n c : In c (net_subtree s n) -> c = n \/ exists r p, ns_rel r = true /\ In p (net_subtree s n) /\ In c (kids s r p).
Proof.
  intros [<-|H]; [left; reflexivity|right]. apply in_flat_map in H as [l [Hl H]].
  destruct (lib_up s l c H) as [->|[r [p [Hr [Hp Hc]]]]].
  - exists RLibs, n. split; [reflexivity|split; [left; reflexivity|exact Hl]].
  - exists r, p. split; [exact Hr|split; [|exact Hc]]. right. apply in_flat_map. exists l. auto.
Qed.

Lemma subtree_up s e c : In c (subtree s e) -> c = e \/ exists r p, ns_rel r = true /\ In p (subtree s e) /\ In c (kids s r p).
Proof.
  unfold subtree. destruct (kind_of s e) as [[]|]; try (intros [<-|[]]; left; reflexivity);
    [apply net_up|apply lib_up|apply def_up].
Qed.

(* a parentless root: nothing outside the subtree owns a member *)
Lemma subtree_parent_in s e r p c : Inv1a s -> InvT s -> ns_parent s e = None -> ns_rel r = true ->
  In c (subtree s e) -> In c (kids s r p) -> In p (subtree s e).
Proof.
  intros Ha HT Hn Hr Hc Hk. destruct (subtree_up s e c Hc) as [->|[r0 [p0 [Hr0 [Hp0 Hc0]]]]].
  - exfalso. apply (no_parent_free s e Ha HT Hn r p Hr Hk).
  - destruct (HT _ _ _ Hk) as [K1 _]. destruct (HT _ _ _ Hc0) as [K2 _].
    assert (r0 = r) by (apply rel_child_inj; [exact Hr0|exact Hr|congruence]). subst r0.
    apply (i1_kids s Ha) in Hk. apply (i1_kids s Ha) in Hc0. assert (p0 = p) by congruence. subst. exact Hp0.
Qed.

(* ---- apply_namespace: ".NS" over the subtree ---- *)
Lemma pol_of_name pl : pol_of_val (VStr (pol_name pl)) = Some pl.
Proof. destruct pl; reflexivity. Qed.

Lemma elem_pol_write_ns s e v y : elem_pol (data_write s e str_NS v) y = if Nat.eqb y e then pol_of_val v else elem_pol s y.
Proof.
  unfold elem_pol, data_write. cbn. unfold upd. destruct (Nat.eqb_spec y e) as [->|]; [|reflexivity].
  rewrite sassoc_set_same. reflexivity.
Qed.

Lemma elem_pol_apply_step pl s x y : elem_pol (apply_step pl s x) y = if Nat.eqb y x then Some pl else elem_pol s y.
Proof.
  unfold apply_step. cbn zeta.
  assert (E : forall s1, elem_pol (match fresh_table pl s1 x with Some t => set_nstab s1 x (Some t) | None => s1 end) y = elem_pol s1 y)
    by (intro s1; destruct (fresh_table pl s1 x); reflexivity).
  rewrite E, elem_pol_write_ns, pol_of_name. reflexivity.
Qed.

Lemma elem_pol_apply_fold pl : forall xs s y,
  elem_pol (fold_left (apply_step pl) xs s) y = if memb y xs then Some pl else elem_pol s y.
Proof.
  induction xs as [|x xs IH]; intros s y; cbn [fold_left memb]; [reflexivity|].
  rewrite IH, elem_pol_apply_step. destruct (Nat.eqb y x); cbn [orb]; [destruct (memb y xs); reflexivity|reflexivity].
Qed.

Lemma elem_pol_apply_namespace pl s e y :
  elem_pol (apply_namespace pl s e) y = if memb y (subtree s e) then Some pl else elem_pol s y.
Proof.
  unfold apply_namespace. change (fold_left _ (subtree s e) s) with (fold_left (apply_step pl) (subtree s e) s).
  apply elem_pol_apply_fold.
Qed.

Lemma fresh_table_pol pl s y t : fresh_table pl s y = Some t -> ns_pol t = pl /\ scope_kind s y.
Proof.
  unfold fresh_table, scope_kind. destruct (kind_of s y) as [[]|]; try discriminate; intro H; injection H as <-;
    rewrite !populate_pol; cbn; auto.
Qed.

Lemma fresh_table_none pl s y : fresh_table pl s y = None -> ~ scope_kind s y.
Proof.
  unfold fresh_table, scope_kind. destruct (kind_of s y) as [[]|]; try discriminate; intros _ [H|[H|H]]; discriminate.
Qed.

(* a state in which the subtree of a parentless e carries pl everywhere, tables included *)
Lemma polinv_repoliced pl s e s' :
  Inv1a s -> InvT s -> ns_parent s e = None -> PolInv s ->
  kids s' = kids s -> kind_of s' = kind_of s ->
  (forall y, elem_pol s' y = if memb y (subtree s e) then Some pl else elem_pol s y) ->
  (forall y, nstab s' y = if memb y (subtree s e) then match fresh_table pl s y with Some t => Some t | None => nstab s y end
                          else nstab s y) ->
  PolInv s'.
Proof.
  intros Ha HT Hn [A B] Hk Hkd Hpol Htab. split.
  - intros p t Hp. rewrite Htab in Hp. rewrite Hpol. unfold scope_kind. rewrite Hkd.
    destruct (memb p (subtree s e)) eqn:Em; [|apply (A p t Hp)].
    destruct (fresh_table pl s p) as [t0|] eqn:Ef.
    + injection Hp as <-. destruct (fresh_table_pol pl s p t0 Ef) as [E K]. rewrite E. auto.
    + exfalso. apply (fresh_table_none pl s p Ef). apply (A p t Hp).
  - intros r p c Hr Hc. rewrite Hk in Hc. rewrite !Hpol.
    destruct (memb p (subtree s e)) eqn:Ep.
    + apply memb_In in Ep. pose proof (subtree_closed s e r p c HT Hr Ep Hc) as Ec. apply memb_In in Ec. rewrite Ec. reflexivity.
    + destruct (memb c (subtree s e)) eqn:Ec; [|apply (B r p c Hr Hc)].
      exfalso. apply memb_In in Ec. apply memb_false in Ep. apply Ep. apply (subtree_parent_in s e r p c Ha HT Hn Hr Ec Hc).
Qed.

Lemma elem_pol_emit s ev y : elem_pol (emit s ev) y = elem_pol s y.
Proof. reflexivity. Qed.

Theorem polinv_dict_set_ns s e v : Inv1a s -> InvT s -> PolInv s -> PolInv (fst (dict_set s e str_NS v)).
Proof.
  intros Ha HT H. unfold dict_set, ns_dictionary_set. rewrite str_eqb_refl.
  destruct (sassoc str_NS (data s e)) as [v0|] eqn:E0.
  - destruct (val_eqb v0 v) eqn:Ev.
    + apply val_eqb_eq in Ev. subst v0. cbn [bindR ret fst].
      apply (polq_polinv s); [|exact H]. constructor; [auto| |auto|intros p t Hp; exists t; auto].
      intro y. rewrite elem_pol_write_ns, elem_pol_emit. destruct (Nat.eqb_spec y e) as [->|]; [|reflexivity].
      unfold elem_pol. rewrite E0. reflexivity.
    + destruct (ns_parent s e) eqn:Hn; [exact H|]. destruct (pol_of_val v) as [pl|] eqn:Epv; [|exact H].
      destruct (is_compliant pl s e); [|exact H]. cbn [bindR ret fst].
      destruct (apply_namespace_spec pl s e) as [K1 [K2 [_ [_ K5]]]].
      apply (polinv_repoliced pl s e); try assumption.
      * intro y. rewrite elem_pol_write_ns, elem_pol_emit.
        rewrite elem_pol_apply_namespace. destruct (Nat.eqb_spec y e) as [->|]; [|reflexivity].
        pose proof (subtree_root s e) as R. apply memb_In in R. rewrite R. exact Epv.
  - destruct (ns_parent s e) eqn:Hn; [exact H|]. destruct (pol_of_val v) as [pl|] eqn:Epv; [|exact H].
    destruct (is_compliant pl s e); [|exact H]. cbn [bindR ret fst].
    destruct (apply_namespace_spec pl s e) as [K1 [K2 [_ [_ K5]]]].
    apply (polinv_repoliced pl s e); try assumption.
    * intro y. rewrite elem_pol_write_ns, elem_pol_emit.
      rewrite elem_pol_apply_namespace. destruct (Nat.eqb_spec y e) as [->|]; [|reflexivity].
      pose proof (subtree_root s e) as R. apply memb_In in R. rewrite R. exact Epv.
Qed.

(* ---- drop_namespace: ".NS" and the tables leave the subtree ---- *)
Definition drop_step (e : id) (s : state) (x : id) : state :=
  let s1 := set_nstab s x None in
  if negb (Nat.eqb x e) && has_key s1 x str_NS
  then data_erase (emit s1 (EDictDel x str_NS)) x str_NS
  else s1.

Lemma elem_pol_erase_ns s e y : elem_pol (data_erase s e str_NS) y = if Nat.eqb y e then None else elem_pol s y.
Proof.
  unfold elem_pol, data_erase. cbn. unfold upd. destruct (Nat.eqb_spec y e) as [->|]; [|reflexivity].
  rewrite sassoc_del_same. reflexivity.
Qed.

Lemma has_key_false_pol s x : has_key s x str_NS = false -> elem_pol s x = None.
Proof. unfold has_key, elem_pol. destruct (sassoc str_NS (data s x)); [discriminate|reflexivity]. Qed.

Lemma drop_step_spec e s x :
  kids (drop_step e s x) = kids s /\ kind_of (drop_step e s x) = kind_of s /\
  (forall y, nstab (drop_step e s x) y = if Nat.eqb y x then None else nstab s y) /\
  (forall y, elem_pol (drop_step e s x) y = if Nat.eqb y x && negb (Nat.eqb y e) then None else elem_pol s y).
Proof.
  unfold drop_step. cbn zeta. destruct (Nat.eqb_spec x e) as [->|Hne]; cbn [negb andb].
  - repeat split. intro y. destruct (Nat.eqb y e); reflexivity.
  - destruct (has_key (set_nstab s x None) x str_NS) eqn:Hh.
    + repeat split. intro y. rewrite elem_pol_erase_ns. destruct (Nat.eqb_spec y x) as [->|]; cbn [andb]; [|reflexivity].
      apply Nat.eqb_neq in Hne. rewrite Hne. reflexivity.
    + repeat split. intro y. destruct (Nat.eqb_spec y x) as [->|]; cbn [andb]; [|reflexivity].
      apply Nat.eqb_neq in Hne. rewrite Hne. cbn [negb]. apply (has_key_false_pol _ _ Hh).
Qed.

Lemma drop_fold_spec e : forall xs s,
  let s' := fold_left (drop_step e) xs s in
  kids s' = kids s /\ kind_of s' = kind_of s /\
  (forall y, nstab s' y = if memb y xs then None else nstab s y) /\
  (forall y, elem_pol s' y = if memb y xs && negb (Nat.eqb y e) then None else elem_pol s y).
Proof.
  induction xs as [|x xs IH]; intro s; cbn [fold_left memb]; [repeat split|].
  destruct (drop_step_spec e s x) as [A [B [C D]]]. destruct (IH (drop_step e s x)) as [A' [B' [C' D']]].
  cbn zeta in *. split; [congruence|split; [congruence|split]].
  - intro y. rewrite C', C. destruct (Nat.eqb y x); cbn [orb]; [destruct (memb y xs); reflexivity|reflexivity].
  - intro y. rewrite D', D. destruct (Nat.eqb y x); cbn [orb andb]; [|reflexivity]. destruct (memb y xs); cbn [andb]; [|reflexivity].
    destruct (negb (Nat.eqb y e)); reflexivity.
Qed.

Lemma drop_namespace_pspec s e :
  let s' := drop_namespace s e in
  kids s' = kids s /\ kind_of s' = kind_of s /\
  (forall y, nstab s' y = if memb y (subtree s e) then None else nstab s y) /\
  (forall y, elem_pol s' y = if memb y (subtree s e) && negb (Nat.eqb y e) then None else elem_pol s y).
Proof.
  unfold drop_namespace. change (fold_left _ (subtree s e) s) with (fold_left (drop_step e) (subtree s e) s).
  apply drop_fold_spec.
Qed.

Lemma polinv_depoliced s e s' :
  Inv1a s -> InvT s -> ns_parent s e = None -> PolInv s ->
  kids s' = kids s -> kind_of s' = kind_of s ->
  (forall y, elem_pol s' y = if memb y (subtree s e) then None else elem_pol s y) ->
  (forall y, nstab s' y = if memb y (subtree s e) then None else nstab s y) ->
  PolInv s'.
Proof.
  intros Ha HT Hn [A B] Hk Hkd Hpol Htab. split.
  - intros p t Hp. rewrite Htab in Hp. rewrite Hpol. unfold scope_kind. rewrite Hkd.
    destruct (memb p (subtree s e)) eqn:Em; [discriminate|apply (A p t Hp)].
  - intros r p c Hr Hc. rewrite Hk in Hc. rewrite !Hpol.
    destruct (memb p (subtree s e)) eqn:Ep.
    + apply memb_In in Ep. pose proof (subtree_closed s e r p c HT Hr Ep Hc) as Ec. apply memb_In in Ec. rewrite Ec. reflexivity.
    + destruct (memb c (subtree s e)) eqn:Ec; [|apply (B r p c Hr Hc)].
      exfalso. apply memb_In in Ec. apply memb_false in Ep. apply Ep. apply (subtree_parent_in s e r p c Ha HT Hn Hr Ec Hc).
Qed.

Lemma polinv_ns_delete_then_erase s e (ev : event) :
  Inv1a s -> InvT s -> PolInv s ->
  let s1 := fst (ns_dictionary_delete s e str_NS) in
  snd (ns_dictionary_delete s e str_NS) = None ->
  PolInv (if has_key (emit s1 ev) e str_NS then data_erase (emit s1 ev) e str_NS else emit s1 ev).
Proof.
  intros Ha HT H. unfold ns_dictionary_delete. rewrite str_eqb_refl.
  destruct (ns_parent s e) eqn:Hn; [cbn; discriminate|].
  destruct (has_key s e str_NS) eqn:Hh; cbn [fst snd ret]; intros _.
  - destruct (drop_namespace_pspec s e) as [K1 [K2 [K3 K4]]].
    pose proof (subtree_root s e) as R. apply memb_In in R.
    destruct (has_key (emit (drop_namespace s e) ev) e str_NS) eqn:Hh'.
    + apply (polinv_depoliced s e); try assumption.
      intro y. rewrite elem_pol_erase_ns, elem_pol_emit, K4.
      destruct (Nat.eqb_spec y e) as [->|Hne]; [rewrite R; reflexivity|].
      rewrite andb_true_r. reflexivity.
    + apply (polinv_depoliced s e); try assumption.
      intro y. destruct (Nat.eqb_spec y e) as [->|Hne].
      * rewrite R. apply (has_key_false_pol _ _ Hh').
      * rewrite elem_pol_emit, K4. apply Nat.eqb_neq in Hne. rewrite Hne, andb_true_r. reflexivity.
  - change (has_key (emit s ev) e str_NS) with (has_key s e str_NS). rewrite Hh. apply (polq_polinv s); [apply polq_emit|exact H].
Qed.

Lemma ns_delete_exn s e k x : snd (ns_dictionary_delete s e k) = Some x -> fst (ns_dictionary_delete s e k) = s.
Proof.
  unfold ns_dictionary_delete. destruct (str_eqb k str_NS).
  - destruct (ns_parent s e); [reflexivity|]. destruct (has_key s e str_NS); discriminate.
  - destruct (is_name_key k); discriminate.
Qed.

Theorem polinv_dict_del_ns s e : Inv1a s -> InvT s -> PolInv s -> PolInv (fst (dict_del s e str_NS)).
Proof.
  intros Ha HT H. unfold dict_del. pose proof (polinv_ns_delete_then_erase s e (EDictDel e str_NS) Ha HT H) as P. cbn zeta in P.
  pose proof (ns_delete_exn s e str_NS) as X.
  destruct (ns_dictionary_delete s e str_NS) as [s1 [x|]]; cbn [bindR fst snd] in *.
  - rewrite (X x eq_refl). exact H.
  - specialize (P eq_refl). destruct (has_key _ e str_NS); exact P.
Qed.

Theorem polinv_dict_pop_ns s e : Inv1a s -> InvT s -> PolInv s -> PolInv (fst (dict_pop s e str_NS)).
Proof.
  intros Ha HT H. unfold dict_pop. pose proof (polinv_ns_delete_then_erase s e (EDictPop e str_NS) Ha HT H) as P. cbn zeta in P.
  pose proof (ns_delete_exn s e str_NS) as X.
  destruct (ns_dictionary_delete s e str_NS) as [s1 [x|]]; cbn [bindR fst snd] in *.
  - rewrite (X x eq_refl). exact H.
  - specialize (P eq_refl). destruct (has_key _ e str_NS); exact P.
Qed.

Theorem polinv_dict_set s e k v : Inv1a s -> InvT s -> PolInv s -> PolInv (fst (dict_set s e k v)).
Proof.
  intros Ha HT H. destruct (str_eqb k str_NS) eqn:E.
  - apply str_eqb_spec in E. subst. apply polinv_dict_set_ns; assumption.
  - apply (polq_polinv s); [apply polq_dict_set; exact E|exact H].
Qed.
Theorem polinv_dict_del s e k : Inv1a s -> InvT s -> PolInv s -> PolInv (fst (dict_del s e k)).
Proof.
  intros Ha HT H. destruct (str_eqb k str_NS) eqn:E.
  - apply str_eqb_spec in E. subst. apply polinv_dict_del_ns; assumption.
  - apply (polq_polinv s); [apply polq_dict_del; exact E|exact H].
Qed.
Theorem polinv_dict_pop s e k : Inv1a s -> InvT s -> PolInv s -> PolInv (fst (dict_pop s e k)).
Proof.
  intros Ha HT H. destruct (str_eqb k str_NS) eqn:E.
  - apply str_eqb_spec in E. subst. apply polinv_dict_pop_ns; assumption.
  - apply (polq_polinv s); [apply polq_dict_pop; exact E|exact H].
Qed.

(* what a successful element[".NS"] = v / del element[".NS"] leaves *)
Lemma dict_set_ns_ok s e v : snd (dict_set s e str_NS v) = None ->
  elem_pol (fst (dict_set s e str_NS v)) e = pol_of_val v /\
  (forall y, ~ In y (subtree s e) -> elem_pol (fst (dict_set s e str_NS v)) y = elem_pol s y).
Proof.
  unfold dict_set, ns_dictionary_set. rewrite str_eqb_refl.
  assert (G : forall s1, (forall y, ~ In y (subtree s e) -> elem_pol s1 y = elem_pol s y) ->
     elem_pol (data_write (emit s1 (EDictSet e str_NS v)) e str_NS v) e = pol_of_val v /\
     (forall y, ~ In y (subtree s e) -> elem_pol (data_write (emit s1 (EDictSet e str_NS v)) e str_NS v) y = elem_pol s y)).
  { intros s1 Hs1. split; [rewrite elem_pol_write_ns, Nat.eqb_refl; reflexivity|]. intros y Hy.
    rewrite elem_pol_write_ns, elem_pol_emit. destruct (Nat.eqb_spec y e) as [->|]; [exfalso; apply Hy, subtree_root|apply Hs1; exact Hy]. }
  destruct (match sassoc str_NS (data s e) with Some v0 => val_eqb v0 v | None => false end); cbn [bindR ret fst snd].
  - intros _. apply G. auto.
  - destruct (ns_parent s e); [discriminate|]. destruct (pol_of_val v) as [pl|]; [|discriminate].
    destruct (is_compliant pl s e); [|discriminate]. cbn [bindR ret fst snd]. intros _. apply G.
    intros y Hy. rewrite elem_pol_apply_namespace. apply memb_false in Hy. rewrite Hy. reflexivity.
Qed.

Lemma dict_del_ns_ok s e : snd (dict_del s e str_NS) = None ->
  elem_pol (fst (dict_del s e str_NS)) e = None /\
  (forall y, ~ In y (subtree s e) -> elem_pol (fst (dict_del s e str_NS)) y = elem_pol s y).
Proof.
  unfold dict_del, ns_dictionary_delete. rewrite str_eqb_refl.
  destruct (ns_parent s e); [discriminate|].
  assert (G : forall s1, (forall y, ~ In y (subtree s e) -> elem_pol s1 y = elem_pol s y) ->
     let r := (let s2 := emit s1 (EDictDel e str_NS) in if has_key s2 e str_NS then ret (data_erase s2 e str_NS) else raise s2 XKey) in
     snd r = None -> elem_pol (fst r) e = None /\ (forall y, ~ In y (subtree s e) -> elem_pol (fst r) y = elem_pol s y)).
  { intros s1 Hs1. cbn zeta. destruct (has_key _ e str_NS); cbn [fst snd ret raise]; [intros _|discriminate].
    split; [rewrite elem_pol_erase_ns, Nat.eqb_refl; reflexivity|]. intros y Hy.
    rewrite elem_pol_erase_ns, elem_pol_emit. destruct (Nat.eqb_spec y e) as [->|]; [exfalso; apply Hy, subtree_root|apply Hs1; exact Hy]. }
  destruct (has_key s e str_NS); cbn [bindR ret]; apply G; [|auto].
  intros y Hy. destruct (drop_namespace_pspec s e) as [_ [_ [_ K4]]]. rewrite K4. apply memb_false in Hy. rewrite Hy. reflexivity.
Qed.

(* ---- NamespaceManager.add and add_* ---- *)
Lemma polinv_ns_add s r p c : Inv1a s -> InvT s -> PolInv s -> ns_rel r = true ->
  kind_of s p = Some (rel_parent r) -> kind_of s c = Some (rel_child r) ->
  PolInv (fst (ns_add s p c (rel_child r))) /\
  (snd (ns_add s p c (rel_child r)) = None ->
   elem_pol (fst (ns_add s p c (rel_child r))) c = elem_pol (fst (ns_add s p c (rel_child r))) p).
Proof.
  intros Ha HT H Hr Kp Kc. pose proof (parent_not_in_subtree s r p c HT Hr Kp Kc) as Hnot.
  unfold ns_add. cbn zeta.
  match goal with |- context [if ?b then raise s XValue else _] => destruct b end; [cbn; split; [exact H|discriminate]|].
  match goal with |- context [bindR ?m _] => set (M := m) end.
  assert (HM : PolInv (fst M) /\ (snd M = None -> elem_pol (fst M) c = elem_pol (fst M) p)).
  { unfold M. destruct (sassoc str_NS (data s p)) as [pv|] eqn:Ep.
    - assert (G : PolInv (fst (dict_set s c str_NS pv)) /\
                  (snd (dict_set s c str_NS pv) = None -> elem_pol (fst (dict_set s c str_NS pv)) c = elem_pol (fst (dict_set s c str_NS pv)) p)).
      { split; [apply polinv_dict_set_ns; assumption|]. intro Hs. destruct (dict_set_ns_ok s c pv Hs) as [A B].
        rewrite A, (B p Hnot). unfold elem_pol. rewrite Ep. reflexivity. }
      destruct (sassoc str_NS (data s c)) as [cv|] eqn:Ec; [|exact G].
      destruct (val_eqb cv pv) eqn:Ev; [|exact G].
      apply val_eqb_eq in Ev. subst. cbn. split; [exact H|]. intros _. unfold elem_pol. rewrite Ep, Ec. reflexivity.
    - destruct (has_key s c str_NS) eqn:Hh.
      + split; [apply polinv_dict_del_ns; assumption|]. intro Hs. destruct (dict_del_ns_ok s c Hs) as [A B].
        rewrite A, (B p Hnot). unfold elem_pol. rewrite Ep. reflexivity.
      + cbn. split; [exact H|]. intros _. rewrite (has_key_false_pol _ _ Hh). unfold elem_pol. rewrite Ep. reflexivity. }
  destruct M as [s1 [x|]]; cbn [bindR fst snd] in *.
  - split; [apply HM|discriminate].
  - destruct HM as [HM1 HM2]. specialize (HM2 eq_refl). destruct (nstab s1 p) as [t|] eqn:Ht; cbn [fst snd ret].
    + split; [|intros _; exact HM2]. apply (polq_polinv s1); [|exact HM1]. apply (polq_set_tab_pol s1 p t); [exact Ht|].
      destruct (get_str s c str_IDENT), (get_str s c str_NAME); rewrite ?ns_update_pol; reflexivity.
    + split; [exact HM1|intros _; exact HM2].
Qed.

Theorem polinv_op_add s r p c pos : Inv1a s -> InvT s -> PolInv s -> PolInv (fst (op_add s r p c pos)).
Proof.
  intros Ha HT H. unfold op_add, guard.
  destruct (is_kind s p (rel_parent r) && is_kind s c (rel_child r)) eqn:Hk; [|exact H].
  apply andb_true_iff in Hk as [Kp Kc]. apply is_kind_kind in Kp, Kc.
  destruct (add_guard1 s r p c); [|exact H]. destruct (par s r c); [exact H|].
  assert (G : forall s1, PolInv s1 -> (ns_rel r = true -> elem_pol s1 c = elem_pol s1 p) ->
    PolInv (add_post (set_par (set_kids (emit s1 (EAdd r p c)) r p (py_insert pos c (kids (emit s1 (EAdd r p c)) r p))) r c (Some p)) r p c)).
  { intros s1 [A B] Hcp.
    destruct (add_post_fields (set_par (set_kids (emit s1 (EAdd r p c)) r p (py_insert pos c (kids (emit s1 (EAdd r p c)) r p))) r c (Some p)) r p c) as [E1 [E2 [E3 [E4 _]]]].
    split.
    - intros y t. rewrite E2. unfold elem_pol, scope_kind. rewrite E3, E4. apply A.
    - intros r0 p0 c0 Hr0. rewrite E1. unfold elem_pol. rewrite E3. cbn. rewrite kids_upd2_ns.
      destruct (rel_eqb r0 r) eqn:Er; cbn [andb]; [|apply (B r0 p0 c0 Hr0)]. apply rel_eqb_spec in Er. subst r0.
      destruct (Nat.eqb_spec p0 p) as [->|]; [|apply (B r p0 c0 Hr0)]. rewrite py_insert_In. intros [->|Hin]; [apply Hcp; exact Hr0|apply (B r p c0 Hr0 Hin)]. }
  destruct (ns_rel r) eqn:Hr.
  - destruct (polinv_ns_add s r p c Ha HT H Hr Kp Kc) as [P1 P2].
    destruct (ns_add s p c (rel_child r)) as [s1 [x|]]; cbn [bindR fst snd ret] in *; [exact P1|].
    apply G; [exact P1|intros _; apply P2; reflexivity].
  - cbn [bindR fst snd ret]. apply G; [exact H|discriminate].
Qed.

(* ---- constructors ---- *)
Lemma polinv_set_props e props : forall s, NI s -> PolInv s -> PolInv (fst (set_props s e props)).
Proof.
  induction props as [|[k v] ps IH]; intros s HN H; cbn [set_props]; [exact H|].
  pose proof (ni_dict_set s e k v HN) as H1. destruct HN as [Ha [HT _]].
  pose proof (polinv_dict_set s e k v Ha HT H) as P1.
  destruct (dict_set s e k v) as [s1 [x|]]; cbn [bindR fst] in *; [exact P1|apply IH; assumption].
Qed.

Lemma polinv_alloc s k : Fresh s -> PolInv s ->
  PolInv (s <| next := S (next s) |> <| kind_of ::= fun f => upd f (next s) (Some k) |>).
Proof.
  intros F H. apply (polq_polinv s); [|exact H]. constructor; [auto|reflexivity| |intros p t Hp; exists t; auto].
  intros x k0 Hx. cbn. unfold upd. destruct (Nat.eqb_spec x (next s)) as [->|]; [|exact Hx].
  rewrite (f_kind s F (next s) (Nat.le_refl _)) in Hx. discriminate.
Qed.

Lemma polinv_construct s k nm props : Fresh s -> NI s -> PolInv s -> PolInv (fst (fst (construct s k nm props))).
Proof.
  intros F HN H. unfold construct, alloc. cbn zeta beta iota.
  pose proof (polinv_alloc s k F H) as P0.
  set (s0 := s <| next := S (next s) |> <| kind_of ::= fun f => upd f (next s) (Some k) |>) in *.
  assert (H0 : NI s0).
  { destruct HN as [Ha [HT Hn]]. split; [apply (inv1a_cont s s0); [split; reflexivity|exact Ha]|].
    split; [apply (tstep_invt s); [apply (tstep_alloc s k F)|exact HT]|].
    apply (nsinv_fields s); [intros; reflexivity|intro; reflexivity|reflexivity|exact Hn]. }
  destruct (has_data k); cbn [fst]; [|exact P0].
  pose proof (ni_dict_set s0 (next s) str_NS (VStr (pol_name (policy s0))) H0) as H1. unfold ns_create.
  pose proof (polinv_dict_set s0 (next s) str_NS (VStr (pol_name (policy s0))) (proj1 H0) (proj1 (proj2 H0)) P0) as P1.
  destruct (dict_set s0 (next s) str_NS (VStr (pol_name (policy s0)))) as [s1 [x|]]; cbn [bindR fst] in *; [exact P1|].
  assert (H2 : NI (emit s1 (ECreate k (next s)))) by (apply (ni_same s1); [reflexivity|reflexivity|reflexivity|intro; reflexivity|reflexivity|exact H1]).
  assert (P2 : PolInv (emit s1 (ECreate k (next s)))) by (apply (polq_polinv s1); [apply polq_emit|exact P1]).
  match goal with |- PolInv (fst (?m >>= _)) => assert (H3 : NI (fst m) /\ PolInv (fst m));
    [|destruct m as [s3 [x|]]; cbn [bindR fst] in *; [apply H3|apply polinv_set_props; apply H3]] end.
  destruct nm; [split; [apply ni_dict_set; exact H2|apply polinv_dict_set; [apply H2|apply H2|exact P2]]|split; assumption].
Qed.

Lemma polinv_create_items r p : forall n s,
  Inv s -> InvT s -> Fresh s -> PolInv s -> PolInv (fst (create_items s r p n)).
Proof.
  induction n as [|n IH]; intros s HI HT F H; cbn [create_items]; [exact H|].
  unfold alloc. cbn zeta.
  pose proof (polinv_alloc s (rel_child r) F H) as P0.
  set (s0 := s <| next := S (next s) |> <| kind_of ::= fun f => upd f (next s) (Some (rel_child r)) |>) in *.
  assert (HI0 : Inv s0) by (apply (inv_of_fields s); try reflexivity; exact HI).
  assert (HT0 : InvT s0) by (apply (tstep_invt s); [apply (tstep_alloc s (rel_child r) F)|exact HT]).
  assert (F0 : Fresh s0) by (apply (fresh_alloc s (rel_child r) F)).
  pose proof (polinv_op_add s0 r p (next s) None (inv_a s0 HI0) HT0 P0) as H1.
  pose proof (op_add_inv s0 r p (next s) None HI0) as [HI1 _].
  pose proof (tstep_invt _ _ (tstep_op_add s0 r p (next s) None) HT0) as HT1.
  pose proof (fresh_op_add s0 r p (next s) None F0) as F1.
  destruct (op_add s0 r p (next s) None) as [s1 [x|]]; cbn [bindR fst] in *; [exact H1|].
  apply IH; assumption.
Qed.

Lemma fold_unset_fields_pk w : forall l s,
  let s' := fold_left (fun s p =>
              match p with
              | POut _ _ => set_pin_wire (emit (emit s (EDisconnect w p)) (EDisconnect w p)) p None
              | _ => set_pin_wire (emit s (EDisconnect w p)) p None
              end) l s in
  kids s' = kids s /\ nstab s' = nstab s /\ data s' = data s /\ kind_of s' = kind_of s.
Proof.
  induction l as [|p l IH]; intro s; cbn [fold_left]; [repeat split|].
  match goal with |- context [fold_left ?f l ?s1] => destruct (IH s1) as [A [B [C D]]] end.
  cbn zeta. rewrite A, B, C, D. destruct p; repeat split.
Qed.

Ltac pq_same s H := apply (polq_polinv s); [apply polq_fields; [intros; reflexivity|reflexivity|reflexivity|reflexivity]|exact H].

(* ---- every call ---- *)
Theorem step_polinv s o : Inv s -> InvT s -> Fresh s -> NsInv s -> PolInv s -> PolInv (fst (step s o)).
Proof.
  intros HI HT F Hn H. pose proof (ni_of s HI HT Hn) as HN. destruct o; cbn [step].
  - apply polinv_construct; assumption.
  - unfold guard. destruct (_ && _) eqn:HG; [|exact H].
    apply andb_true_iff in HG as [HG _]. apply andb_true_iff in HG as [_ Hr]. unfold create_and_add.
    pose proof (ni_construct s (rel_child r) nm props F HN) as [Hac [HTc Hc]].
    pose proof (polinv_construct s (rel_child r) nm props F HN H) as Pc.
    pose proof (construct_rinv s (rel_child r) nm props HI) as [HIc _].
    pose proof (fresh_construct s (rel_child r) nm props F) as Fc.
    destruct (construct s (rel_child r) nm props) as [res x]. cbn [fst] in *.
    destruct res as [s1 [e|]]; cbn [bindR fst snd] in *; [exact Pc|].
    pose proof (polinv_op_add s1 r p x None Hac HTc Pc) as P2.
    pose proof (op_add_inv s1 r p x None HIc) as [HI2 _].
    pose proof (tstep_invt _ _ (tstep_op_add s1 r p x None) HTc) as HT2.
    pose proof (fresh_op_add s1 r p x None Fc) as F2.
    destruct (op_add s1 r p x None) as [s2 [e|]]; cbn [bindR fst snd] in *; [exact P2|].
    destruct r; try exact P2; try discriminate Hr.
    + apply polinv_create_items; assumption.
    + apply polinv_create_items; assumption.
    + apply (polq_polinv s2); [apply polq_q3, q3_op_set_reference|exact P2].
  - unfold guard. destruct (_ && _); [|exact H]. apply polinv_create_items; assumption.
  - apply polinv_op_add; [apply HI|exact HT|exact H].
  - apply (polq_polinv s); [apply polq_op_remove|exact H].
  - apply (polq_polinv s); [apply polq_op_remove_from|exact H].
  - apply (polq_polinv s); [apply polq_op_reorder|exact H].
  - unfold op_reorder_wire, guard. destruct (is_kind _ _ _); [|exact H]. destruct (_ && _); [|exact H]. pq_same s H.
  - unfold op_connect, guard. destruct (_ && _); [|exact H].
    destruct p as [i|n i|]; cbn; try exact H.
    + destruct (ipwire s i); cbn; [exact H|]; try (pq_same s H).
    + destruct (assoc i (ipins s n)) as [[w0|]|]; cbn; try exact H; try (pq_same s H).
  - unfold op_disconnect, guard. destruct (_ && _); [|exact H]. destruct (can_disconnect _ _ _); [|exact H].
    destruct p; cbn; pq_same s H.
  - unfold op_disconnect_from, guard. destruct (_ && _); [|exact H]. destruct (forallb _ _); [|exact H]. cbn [fst ret].
    destruct (fold_unset_fields_pk w (pins_dedup ps) s) as [A [B [C D]]].
    apply (polq_polinv s); [|exact H]. apply polq_fields; [intros; cbn; rewrite A; reflexivity|cbn; rewrite C; reflexivity|cbn; rewrite B; reflexivity|cbn; rewrite D; reflexivity].
  - apply (polq_polinv s); [apply polq_q3, q3_op_set_reference|exact H].
  - unfold op_set_top, guard. destruct (_ && _); [|exact H].
    set (s1 := clear_old_top (emit s (ETop n a)) n).
    assert (E : kids s1 = kids s /\ par s1 = par s /\ kind_of s1 = kind_of s /\ nstab s1 = nstab s /\ data s1 = data s).
    { unfold s1, clear_old_top. destruct (top _ n); repeat split; reflexivity. }
    destruct E as [E1 [E2 [E3 [E4 E5]]]].
    assert (HN1 : NI s1) by (apply (ni_same s); try assumption; intro; rewrite E4; reflexivity).
    assert (F1 : Fresh s1) by (apply (fresh_same s); try assumption; unfold s1, clear_old_top; destruct (top _ n); reflexivity).
    assert (P1 : PolInv s1) by (apply (polq_polinv s); [apply polq_fields; [intros; rewrite E1; reflexivity|exact E5|exact E4|exact E3]|exact H]).
    destruct a as [x|d|].
    + cbn [fst ret]. pq_same s1 P1.
    + pose proof (polinv_construct s1 KInstance None [] F1 HN1 P1) as Pc.
      destruct (construct s1 KInstance None []) as [res t]. cbn [fst] in Pc.
      destruct res as [s2 [e|]]; cbn [bindR fst snd] in *; [exact Pc|].
      pose proof (q3_op_set_reference s2 t (Some d)) as Q.
      destruct (op_set_reference s2 t (Some d)) as [s3 [e|]]; cbn [bindR fst snd ret] in *.
      * apply (polq_polinv s2); [apply polq_q3; exact Q|exact Pc].
      * apply (polq_polinv s3); [|apply (polq_polinv s2); [apply polq_q3; exact Q|exact Pc]].
        apply polq_fields; [intros; unfold clear_old_top; cbn; destruct (top _ n); reflexivity
                           |unfold clear_old_top; cbn; destruct (top _ n); reflexivity
                           |unfold clear_old_top; cbn; destruct (top _ n); reflexivity
                           |unfold clear_old_top; cbn; destruct (top _ n); reflexivity].
    + cbn [fst ret]. pq_same s1 P1.
  - unfold guard. destruct (elem_has_data s e); [|exact H]. apply (polq_polinv s); [apply polq_op_set_name|exact H].
  - unfold guard. destruct (elem_has_data s e); [|exact H]. apply (polq_polinv s); [apply polq_op_del_name|exact H].
  - unfold guard. destruct (elem_has_data s e); [|exact H]. apply polinv_dict_set; [apply HI|exact HT|exact H].
  - unfold guard. destruct (elem_has_data s e); [|exact H]. apply polinv_dict_del; [apply HI|exact HT|exact H].
  - unfold guard. destruct (elem_has_data s e); [|exact H]. apply polinv_dict_pop; [apply HI|exact HT|exact H].
  - unfold guard. destruct (_ || _); [|exact H]. pq_same s H.
  - unfold guard. destruct (_ || _); [|exact H]. destruct (negb _); [|exact H]. pq_same s H.
  - unfold guard. destruct (_ || _); [|exact H]. pq_same s H.
  - unfold guard. destruct (is_kind _ _ _); [|exact H]. pq_same s H.
  - pq_same s H.
Qed.

Theorem reachable_polinv ops : PolInv (run ops init).
Proof.
  assert (G : forall ops s, Inv s -> InvT s -> Fresh s -> NsInv s -> PolInv s -> PolInv (run ops s)).
  { induction ops0 as [|o ops0 IH]; intros s HI HT F Hn H; cbn [run fold_left]; [exact H|].
    apply IH; [apply (step_inv s o HI)|apply step_invt; assumption|apply step_fresh; exact F|apply step_nsinv; assumption|apply step_polinv; assumption]. }
  apply G; [apply inv_init|apply invt_init|apply fresh_init|apply nsinv_init|apply polinv_init].
Qed.

(* PolCoh, the hypothesis of QueryEnumLookIdent, holds after every history *)
Theorem reachable_polcoh ops r : ns_rel r = true -> PolCoh (Ops.run ops State.init) r.
Proof. intro Hr. apply polinv_polcoh; [exact Hr|apply reachable_polinv]. Qed.

Print Assumptions reachable_polcoh.

