(* C01 / C02 over histories that mix editing calls with the transformations: any sequence of public
   editing calls (accepted or refused), completed Definition.clone calls, completed uniquify runs and
   completed flatten runs leaves the structural invariant of the editing API in force. *)
From Coq Require Import List Arith Bool Lia.
From RecordUpdate Require Import RecordSet.
From SV Require Import Base.Base IR.State IR.NS IR.Ops Xform.Clone Xform.Strs Xform.Xform Proofs.Frame Proofs.Inv1a Proofs.Inv2a
  Proofs.InvP Proofs.InvW Proofs.C01_full Proofs.Fresh Proofs.NsInv Proofs.RefK Proofs.FieldT Proofs.XformInv Proofs.CloneInv
  Proofs.CloneRef Proofs.CloneT Proofs.CloneFull.
Import ListNotations RecordSetNotations.

Inductive xop :=
| XEdit (o : op)                       (* any public editing call, any outcome *)
| XCloneDef (d : id)                   (* definition.clone() *)
| XUniquify (fuel : nat) (n : id)      (* uniquify(netlist) *)
| XFlatten (fuel : nat) (n : id).      (* flatten(netlist) *)

(* None: the transformation did not complete (it raised, or the walk ran out of fuel) *)
Definition xstep (x : xstate) (o : xop) : option xstate :=
  match o with
  | XEdit e => Some (mkX (fst (step (st x) e)) (uniq_ctr x) (flat_ctr x))
  | XCloneDef d =>
      if is_kind (st x) d KDefinition then
        match snd (fst (clone_definition (st x) d)) with
        | None => Some (mkX (fst (fst (clone_definition (st x) d))) (uniq_ctr x) (flat_ctr x))
        | Some _ => None
        end
      else None
  | XUniquify fuel n => match uniquify fuel x n with (x', None) => Some x' | _ => None end
  | XFlatten fuel n => match flatten fuel x n with (x', None) => Some x' | _ => None end
  end.

Fixpoint xrun (l : list xop) (x : xstate) : option xstate :=
  match l with
  | [] => Some x
  | o :: l' => match xstep x o with Some x1 => xrun l' x1 | None => None end
  end.

Lemma uf_step s o : UF s -> UF (fst (step s o)).
Proof.
  intros [I [T [F [FT0 K]]]]. split; [apply (proj1 (step_inv s o I))|]. split; [apply step_invt; assumption|].
  split; [apply step_fresh; exact F|]. split; [apply step_ft; [exact F|apply (inv_r _ I)|exact FT0]|apply step_refk; exact K].
Qed.

Lemma uf_clone_definition s d :
  UF s -> is_kind s d KDefinition = true -> snd (fst (clone_definition s d)) = None -> UF (fst (fst (clone_definition s d))).
Proof.
  intros [I [T [F [FT0 K]]]] Hk Hok. pose proof (is_kind_lt s d _ F Hk) as Hd. apply is_kind_eq in Hk.
  split; [apply clone_definition_inv; assumption|]. split; [apply clone_definition_invt; [apply (inv_a _ I)|exact F|exact T|exact Hok]|].
  split; [apply clone_definition_fresh; [apply (inv_a _ I)|exact F|exact Hok]|].
  split; [apply clone_definition_ft; try assumption; apply (inv_a _ I)|].
  apply (proj2 (clone_definition_inv2a s d (inv_a _ I) (inv_r _ I) F K Hd Hok)).
Qed.

Lemma uf_flatten fuel x n x' : UF (st x) -> flatten fuel x n = (x', None) -> UF (st x').
Proof.
  intros U E. pose proof (flatten_preserves UF (fun s o Hs _ => uf_step s o Hs) uf_struct fuel x n U) as H.
  rewrite E in H. apply H. unfold not_stuck. cbn. discriminate.
Qed.

Lemma uf_xstep x o x' : UF (st x) -> xstep x o = Some x' -> UF (st x').
Proof.
  intros U E. destruct o as [e|d|fuel n|fuel n]; cbn [xstep] in E.
  - injection E as <-. cbn. apply uf_step. exact U.
  - destruct (is_kind (st x) d KDefinition) eqn:Hk; [|discriminate].
    destruct (snd (fst (clone_definition (st x) d))) eqn:Hok; [discriminate|]. injection E as <-. cbn.
    apply uf_clone_definition; assumption.
  - destruct (uniquify fuel x n) as [x1 [e|]] eqn:Eu; [discriminate|]. injection E as <-. apply (uniquify_full_inv fuel x n x1 U Eu).
  - destruct (flatten fuel x n) as [x1 [e|]] eqn:Ef; [discriminate|]. injection E as <-. apply (uf_flatten fuel x n x1 U Ef).
Qed.

Theorem xrun_uf : forall l x x', UF (st x) -> xrun l x = Some x' -> UF (st x').
Proof.
  induction l as [|o l IH]; intros x x' U E; cbn [xrun] in E; [injection E as <-; exact U|].
  destruct (xstep x o) as [x1|] eqn:E1; [|discriminate]. apply (IH x1 x' (uf_xstep x o x1 U E1) E).
Qed.

Lemma uf_init : UF init.
Proof. split; [apply inv_init|]. split; [apply invt_init|]. split; [apply fresh_init|]. split; [apply ft_init|apply refk_init]. Qed.

(* every mixed history that completes, from the empty store *)
Theorem xrun_inv l u f x' : xrun l (mkX init u f) = Some x' -> Inv (st x').
Proof. intro E. apply (xrun_uf l (mkX init u f) x' uf_init E). Qed.
