(* C07: a faithful copy (Proofs/CloneFaith.v) of a definition whose source satisfies the pin-wire
   invariant satisfies it again: in the result every wire - of the source design or of the copy -
   lists exactly the pins that report it, once. *)
From Coq Require Import List Arith Bool Lia.
From RecordUpdate Require Import RecordSet.
From SV Require Import Base.Base IR.State IR.NS IR.Ops Xform.Clone Proofs.AssocX Proofs.Frame Proofs.Inv1a Proofs.Inv2a
  Proofs.InvP Proofs.InvW Proofs.Fresh Proofs.NsInv Proofs.CloneInv Proofs.RefK Proofs.CloneRef Proofs.CloneT Proofs.FieldT
  Proofs.CloneMemo Proofs.CloneRR Proofs.CloneFaith.
Import ListNotations RecordSetNotations.

(* ---- map_opt ---- *)
Lemma map_opt_in {A B} (f : A -> option B) : forall l l', map_opt f l = Some l' -> forall p, In p l' -> exists q, In q l /\ f q = Some p.
Proof.
  induction l as [|x l IH]; cbn; intros l' E p Hp; [injection E as <-; destruct Hp|].
  destruct (f x) as [y|] eqn:Ex; [|discriminate]. destruct (map_opt f l) as [r|] eqn:Er; [|discriminate]. injection E as <-.
  destruct Hp as [<-|Hp]; [exists x; split; [left; reflexivity|exact Ex]|].
  destruct (IH r eq_refl p Hp) as [q [Hq Hf]]. exists q. split; [right; exact Hq|exact Hf].
Qed.
Lemma map_opt_fwd {A B} (f : A -> option B) : forall l l', map_opt f l = Some l' -> forall q p, In q l -> f q = Some p -> In p l'.
Proof.
  induction l as [|x l IH]; cbn; intros l' E q p Hq Hf; [destruct Hq|].
  destruct (f x) as [y|] eqn:Ex; [|discriminate]. destruct (map_opt f l) as [r|] eqn:Er; [|discriminate]. injection E as <-.
  destruct Hq as [<-|Hq]; [left; congruence|right; apply (IH r eq_refl q p Hq Hf)].
Qed.
Lemma map_opt_nodup {A B} (f : A -> option B) : forall l l', map_opt f l = Some l' -> NoDup l ->
  (forall q q' p, In q l -> In q' l -> f q = Some p -> f q' = Some p -> q = q') -> NoDup l'.
Proof.
  induction l as [|x l IH]; cbn; intros l' E Hnd Hinj; [injection E as <-; constructor|].
  destruct (f x) as [y|] eqn:Ex; [|discriminate]. destruct (map_opt f l) as [r|] eqn:Er; [|discriminate]. injection E as <-.
  inversion Hnd as [|? ? Hnx Hndl]; subst. constructor.
  - intro Hin. destruct (map_opt_in f l r Er y Hin) as [q [Hq Hf]].
    assert (q = x) by (apply (Hinj q x y); [right; exact Hq|left; reflexivity|exact Hf|exact Ex]). subst q. apply Hnx. exact Hq.
  - apply (IH r eq_refl Hndl). intros q q' p Hq Hq'. apply Hinj; right; assumption.
Qed.

Lemma imap_keys m : forall l l', map_opt (imap m) l = Some l' -> map fst l' = map fst l.
Proof.
  induction l as [|[k o] l IH]; cbn; intros l' E; [injection E as <-; reflexivity|].
  unfold imap at 1 in E. cbn in E. destruct (mwire m o) as [o'|]; cbn in E; [|discriminate].
  destruct (map_opt (imap m) l) as [r|] eqn:Er; [|discriminate]. injection E as <-. cbn. rewrite (IH r eq_refl). reflexivity.
Qed.
Lemma imap_assoc m : forall l l', map_opt (imap m) l = Some l' -> forall i,
  match assoc i l with
  | Some o => exists o', mwire m o = Some o' /\ assoc i l' = Some o'
  | None => assoc i l' = None
  end.
Proof.
  induction l as [|[k o] l IH]; cbn; intros l' E i; [injection E as <-; reflexivity|].
  unfold imap at 1 in E. cbn in E. destruct (mwire m o) as [o'|] eqn:Eo; cbn in E; [|discriminate].
  destruct (map_opt (imap m) l) as [r|] eqn:Er; [|discriminate]. injection E as <-. cbn.
  destruct (Nat.eqb i k); [exists o'; split; [exact Eo|reflexivity]|apply (IH r eq_refl i)].
Qed.

Lemma mwire_some m o w : mwire m o = Some (Some w) -> exists w0, o = Some w0 /\ In (w0, w) m.
Proof.
  destruct o as [w0|]; cbn; [|discriminate]. destruct (mget m w0) as [w1|] eqn:E; cbn; [|discriminate].
  intro H. injection H as ->. exists w0. split; [reflexivity|apply mget_in; exact E].
Qed.

Section Copy.
  Variables (s0 G : state) (m : memo).
  Hypothesis FA : Faithful s0 G m.
  Hypothesis P0 : InvP s0.
  Hypothesis T0 : FT s0.
  Hypothesis F0 : Fresh s0.

  Let n0 := next s0.

  Lemma old_of_wire i w : ipwire s0 i = Some w -> i < n0 /\ kind_of s0 i = Some KPin.
  Proof.
    intro H. assert (Hne : ipwire s0 i <> None) by (rewrite H; discriminate). split; [|apply (ft_w _ T0 i Hne)].
    destruct (Nat.lt_ge_cases i n0) as [Hl|Hg]; [exact Hl|]. rewrite (proj1 (ft_above s0 T0 F0 i Hg)) in H. discriminate.
  Qed.
  Lemma old_of_ipins n : ipins s0 n <> [] -> n < n0 /\ kind_of s0 n = Some KInstance.
  Proof.
    intro H. split; [|apply (ft_i _ T0 n H)].
    destruct (Nat.lt_ge_cases n n0) as [Hl|Hg]; [exact Hl|]. exfalso. apply H. apply (ft_above s0 T0 F0 n Hg).
  Qed.
  Lemma old_of_wpins w : wpins s0 w <> [] -> w < n0 /\ kind_of s0 w = Some KWire.
  Proof.
    intro H. split; [|apply (ft_p _ T0 w H)].
    destruct (Nat.lt_ge_cases w n0) as [Hl|Hg]; [exact Hl|]. exfalso. apply H. apply (ft_above s0 T0 F0 w Hg).
  Qed.
  Lemma assoc_nonnil {B} i (l : list (id * B)) v : assoc i l = Some v -> l <> [].
  Proof. destruct l; [discriminate|discriminate]. Qed.

  (* a pin that reported a wire in the source reports the same wire in the result *)
  Lemma pw_old_keep p w : pin_wire s0 p = Some w -> pin_wire G p = Some w.
  Proof.
    destruct p as [i|n i|]; cbn; [| |discriminate].
    - intro H. destruct (old_of_wire i w H) as [Hi _]. rewrite (proj1 (fa_old _ _ _ FA i Hi)). exact H.
    - destruct (assoc i (ipins s0 n)) as [ow|] eqn:E; [|discriminate]. intro H.
      destruct (old_of_ipins n (assoc_nonnil _ _ _ E)) as [Hn _]. destruct (fa_old _ _ _ FA n Hn) as [_ [_ [-> _]]]. rewrite E. exact H.
  Qed.

  (* what a pin of the result reports: either what it reported in the source (old pin), or the image
     of what its source pin reported *)
  Lemma pw_result p w : pin_wire G p = Some w ->
    pin_wire s0 p = Some w \/
    (exists q w0, pin_wire s0 q = Some w0 /\ In (w0, w) m /\ mpin s0 m q = Some p).
  Proof.
    destruct p as [i|n i|]; cbn [pin_wire]; [| |discriminate].
    - intro H. destruct (Nat.lt_ge_cases i n0) as [Hi|Hi]; [left; rewrite <- (proj1 (fa_old _ _ _ FA i Hi)); exact H|right].
      destruct (fa_def _ _ _ FA i Hi) as [D1 _].
      assert (Hk : kind_of G i = Some KPin). { destruct (kind_of G i) as [[]|] eqn:Ek; try reflexivity; rewrite D1 in H by discriminate; discriminate. }
      destruct (fa_cov _ _ _ FA i Hi (or_introl Hk)) as [a0 Ha0].
      assert (Hk0 : kind_of s0 a0 = Some KPin) by (rewrite <- (fa_kind _ _ _ FA a0 i Ha0); exact Hk).
      pose proof (fa_pin _ _ _ FA a0 i Ha0 Hk0) as Hp. rewrite H in Hp. destruct (mwire_some _ _ _ Hp) as [w0 [Hw0 Hm]].
      exists (PIn a0), w0. split; [exact Hw0|]. split; [exact Hm|]. cbn. rewrite (in_mget m a0 i (fa_fun _ _ _ FA) Ha0). reflexivity.
    - destruct (assoc i (ipins G n)) as [ow|] eqn:E; [|discriminate]. intro H. subst ow.
      destruct (Nat.lt_ge_cases n n0) as [Hn|Hn].
      + left. destruct (fa_old _ _ _ FA n Hn) as [_ [_ [Hi _]]]. rewrite Hi in E. rewrite E. reflexivity.
      + right. destruct (fa_def _ _ _ FA n Hn) as [_ [_ D3]].
        assert (Hk : kind_of G n = Some KInstance).
        { destruct (kind_of G n) as [[]|] eqn:Ek; try reflexivity; rewrite (proj1 (D3 ltac:(discriminate))) in E; discriminate. }
        destruct (fa_cov _ _ _ FA n Hn (or_intror (or_intror Hk))) as [x Hx].
        assert (Hk0 : kind_of s0 x = Some KInstance) by (rewrite <- (fa_kind _ _ _ FA x n Hx); exact Hk).
        destruct (fa_inst _ _ _ FA x n Hx Hk0) as [Hmap _].
        pose proof (imap_assoc m _ _ Hmap i) as Ha. destruct (assoc i (ipins s0 x)) as [o|] eqn:Eo; [|rewrite Ha in E; discriminate].
        destruct Ha as [o' [Ho' Ha]]. rewrite Ha in E. injection E as ->. destruct (mwire_some _ _ _ Ho') as [w0 [-> Hm]].
        exists (POut x i), w0. split; [cbn; rewrite Eo; reflexivity|]. split; [exact Hm|].
        cbn. rewrite (in_mget m x n (fa_fun _ _ _ FA) Hx), Eo. reflexivity.
  Qed.

  (* the image of a source pin that reports a copied wire reports the image wire *)
  Lemma pw_image q p w0 w : pin_wire s0 q = Some w0 -> In (w0, w) m -> mpin s0 m q = Some p -> pin_wire G p = Some w.
  Proof.
    intros Hq Hm Hp. destruct q as [i|n i|]; cbn in Hp; [| |discriminate].
    - destruct (mget m i) as [i'|] eqn:Ei; cbn in Hp; [|discriminate]. injection Hp as <-. apply mget_in in Ei.
      cbn in Hq. destruct (old_of_wire i w0 Hq) as [_ Hk0]. pose proof (fa_pin _ _ _ FA i i' Ei Hk0) as H. rewrite Hq in H. cbn in H.
      rewrite (in_mget m w0 w (fa_fun _ _ _ FA) Hm) in H. cbn in H. injection H as H. cbn. symmetry. exact H.
    - destruct (mget m n) as [n'|] eqn:En; [|discriminate]. destruct (assoc i (ipins s0 n)) as [ow|] eqn:Eo; [|discriminate]. injection Hp as <-.
      apply mget_in in En. cbn in Hq. rewrite Eo in Hq. subst ow.
      destruct (old_of_ipins n (assoc_nonnil _ _ _ Eo)) as [_ Hk0]. destruct (fa_inst _ _ _ FA n n' En Hk0) as [Hmap _].
      pose proof (imap_assoc m _ _ Hmap i) as Ha. rewrite Eo in Ha. destruct Ha as [o' [Ho' Ha]]. cbn in Ho'.
      rewrite (in_mget m w0 w (fa_fun _ _ _ FA) Hm) in Ho'. cbn in Ho'. injection Ho' as <-. cbn. rewrite Ha. reflexivity.
  Qed.

  Lemma mpin_inj q q' p : mpin s0 m q = Some p -> mpin s0 m q' = Some p -> q = q'.
  Proof.
    destruct q as [i|n i|], q' as [j|n2 j|]; cbn; try discriminate.
    - destruct (mget m i) as [i'|] eqn:Ei; cbn; [|discriminate]. destruct (mget m j) as [j'|] eqn:Ej; cbn; [|discriminate].
      intros H1 H2. injection H1 as <-. injection H2 as H2. subst j'. f_equal.
      apply (memo_inj m i j i' (fa_inj _ _ _ FA)); apply mget_in; assumption.
    - destruct (mget m i) as [i'|]; cbn; [|discriminate]. destruct (mget m n2) as [n2'|]; [|discriminate]. destruct (assoc j (ipins s0 n2)); [|discriminate].
      intros H1 H2. rewrite <- H1 in H2. discriminate.
    - destruct (mget m n) as [n'|]; [|discriminate]. destruct (assoc i (ipins s0 n)); [|discriminate]. destruct (mget m j) as [j'|]; cbn; [|discriminate].
      intros H1 H2. rewrite <- H1 in H2. discriminate.
    - destruct (mget m n) as [n'|] eqn:En; [|discriminate]. destruct (assoc i (ipins s0 n)); [|discriminate].
      destruct (mget m n2) as [n2'|] eqn:En2; [|discriminate]. destruct (assoc j (ipins s0 n2)); [|discriminate].
      intros H1 H2. injection H1 as <-. injection H2 as H2 H3. subst n2' j. f_equal.
      apply (memo_inj m n n2 n' (fa_inj _ _ _ FA)); apply mget_in; assumption.
  Qed.

  Theorem faithful_invp : InvP G.
  Proof.
    constructor.
    - intros w p. destruct (Nat.lt_ge_cases w n0) as [Hw|Hw].
      + (* a wire of the source design *)
        destruct (fa_old _ _ _ FA w Hw) as [_ [Hwp _]]. rewrite Hwp. split.
        * intro Hin. apply pw_old_keep. apply (p_pins _ P0). exact Hin.
        * intro H. destruct (pw_result p w H) as [H0|[q [w0 [_ [Hm _]]]]]; [apply (p_pins _ P0); exact H0|].
          destruct (fa_rng _ _ _ FA w0 w Hm). unfold n0 in Hw. lia.
      + (* an identifier of the copy *)
        destruct (fa_def _ _ _ FA w Hw) as [_ [D2 _]].
        destruct (kind_of G w) as [kw|] eqn:Ekw.
        2:{ rewrite D2 by discriminate. split; [intros []|]. intro H. exfalso.
            destruct (pw_result p w H) as [H0|[q [w0 [_ [Hm _]]]]].
            - apply (p_pins _ P0) in H0. assert (Hne : wpins s0 w <> []) by (intro E; rewrite E in H0; destruct H0).
              destruct (old_of_wpins w Hne). unfold n0 in *. lia.
            - rewrite (fa_kind _ _ _ FA w0 w Hm) in Ekw.
              destruct (fa_rng _ _ _ FA w0 w Hm) as [Hw0 _]. destruct (fa_old _ _ _ FA w0 Hw0) as [_ [_ [_ [Hk _]]]].
              (* w0 is the wire some source pin reports, hence a wire *) 
              destruct (pw_result p w H) as [H1|[q' [w1 [Hq' [Hm' _]]]]].
              + apply (p_pins _ P0) in H1. assert (Hne : wpins s0 w <> []) by (intro E; rewrite E in H1; destruct H1).
                destruct (old_of_wpins w Hne). unfold n0 in *. lia.
              + assert (w1 = w0) by (apply (memo_inj m w1 w0 w (fa_inj _ _ _ FA)); assumption). subst w1.
                apply (p_pins _ P0) in Hq'. assert (Hne : wpins s0 w0 <> []) by (intro E; rewrite E in Hq'; destruct Hq').
                destruct (old_of_wpins w0 Hne) as [_ Hkw0]. rewrite Hkw0 in Ekw. discriminate. }
        destruct (kind_eqb kw KWire) eqn:Eq.
        2:{ assert (Hnw : Some kw <> Some KWire) by (intro E; injection E as ->; discriminate Eq).
            rewrite D2 by exact Hnw. split; [intros []|]. intro H. exfalso.
            destruct (pw_result p w H) as [H0|[q [w0 [Hq [Hm _]]]]].
            - apply (p_pins _ P0) in H0. assert (Hne : wpins s0 w <> []) by (intro E; rewrite E in H0; destruct H0).
              destruct (old_of_wpins w Hne). unfold n0 in *. lia.
            - apply (p_pins _ P0) in Hq. assert (Hne : wpins s0 w0 <> []) by (intro E; rewrite E in Hq; destruct Hq).
              destruct (old_of_wpins w0 Hne) as [_ Hkw0]. rewrite (fa_kind _ _ _ FA w0 w Hm), Hkw0 in Ekw. apply Hnw. symmetry. exact Ekw. }
        assert (kw = KWire) by (destruct kw; try discriminate Eq; reflexivity). subst kw.
        destruct (fa_cov _ _ _ FA w Hw (or_intror (or_introl Ekw))) as [w0 Hm].
        assert (Hk0 : kind_of s0 w0 = Some KWire) by (rewrite <- (fa_kind _ _ _ FA w0 w Hm); exact Ekw).
        pose proof (fa_wire _ _ _ FA w0 w Hm Hk0) as Hmap. split.
        * intro Hin. destruct (map_opt_in _ _ _ Hmap p Hin) as [q [Hq Hf]].
          apply (pw_image q p w0 w); [apply (p_pins _ P0); exact Hq|exact Hm|exact Hf].
        * intro H. destruct (pw_result p w H) as [H0|[q [w1 [Hq [Hm' Hf]]]]].
          -- exfalso. apply (p_pins _ P0) in H0. assert (Hne : wpins s0 w <> []) by (intro E; rewrite E in H0; destruct H0).
             destruct (old_of_wpins w Hne). unfold n0 in *. lia.
          -- assert (w1 = w0) by (apply (memo_inj m w1 w0 w (fa_inj _ _ _ FA)); assumption). subst w1.
             apply (map_opt_fwd _ _ _ Hmap q p); [apply (p_pins _ P0); exact Hq|exact Hf].
    - intro w. destruct (Nat.lt_ge_cases w n0) as [Hw|Hw].
      + destruct (fa_old _ _ _ FA w Hw) as [_ [-> _]]. apply (p_nodup _ P0).
      + destruct (fa_def _ _ _ FA w Hw) as [_ [D2 _]].
        destruct (kind_of G w) as [kw|] eqn:Ekw; [|rewrite D2 by discriminate; constructor].
        destruct (kind_eqb kw KWire) eqn:Eq.
        2:{ rewrite D2; [constructor|]. intro E; injection E as ->; discriminate Eq. }
        assert (kw = KWire) by (destruct kw; try discriminate Eq; reflexivity). subst kw.
        destruct (fa_cov _ _ _ FA w Hw (or_intror (or_introl Ekw))) as [w0 Hm].
        assert (Hk0 : kind_of s0 w0 = Some KWire) by (rewrite <- (fa_kind _ _ _ FA w0 w Hm); exact Ekw).
        pose proof (fa_wire _ _ _ FA w0 w Hm Hk0) as Hmap.
        apply (map_opt_nodup _ _ _ Hmap (p_nodup _ P0 w0)). intros q q' p _ _. apply mpin_inj.
  Qed.
End Copy.

(* ---- the outer-pin tables of the result mirror the ports of the referenced definitions ---- *)
Section CopyK.
  Variables (s0 G : state) (m : memo).
  Hypothesis FA : Faithful s0 G m.
  Hypothesis K0 : InvK s0.
  Hypothesis F0 : Fresh s0.
  Hypothesis RK : RefK s0.
  Hypothesis Hpar_old : forall r y, y < next s0 -> par G r y = par s0 r y.
  Hypothesis Hpar_new : forall r y p, next s0 <= y -> par G r y = Some p -> next s0 <= p.

  Lemma par_lt0 r x p : par s0 r x = Some p -> x < next s0.
  Proof. intro H. destruct (Nat.lt_ge_cases x (next s0)) as [Hl|Hg]; [exact Hl|]. rewrite (f_par _ F0 r x Hg) in H. discriminate. Qed.

  Lemma rhs_transfer d i : d < next s0 ->
    ((exists p, par G RPorts p = Some d /\ par G RPins i = Some p) <-> (exists p, par s0 RPorts p = Some d /\ par s0 RPins i = Some p)).
  Proof.
    intro Hd. split; intros [p [H1 H2]]; exists p.
    - assert (Hp : p < next s0).
      { destruct (Nat.lt_ge_cases p (next s0)) as [Hl|Hg]; [exact Hl|]. pose proof (Hpar_new RPorts p d Hg H1). lia. }
      assert (Hi : i < next s0).
      { destruct (Nat.lt_ge_cases i (next s0)) as [Hl|Hg]; [exact Hl|]. pose proof (Hpar_new RPins i p Hg H2). lia. }
      rewrite <- (Hpar_old RPorts p Hp), <- (Hpar_old RPins i Hi). split; assumption.
    - rewrite (Hpar_old RPorts p (par_lt0 _ _ _ H1)), (Hpar_old RPins i (par_lt0 _ _ _ H2)). split; assumption.
  Qed.

  Lemma keys_via x i d : iref s0 x = Some d ->
    (In i (keys s0 x) <-> exists p, par G RPorts p = Some d /\ par G RPins i = Some p).
  Proof.
    intros Hr. rewrite (rhs_transfer d i (ref_lt s0 x d RK F0 Hr)). rewrite (k_keys _ K0 x i). split.
    - intros [d0 [p [H1 [H2 H3]]]]. rewrite Hr in H1. injection H1 as <-. exists p. split; assumption.
    - intros [p [H2 H3]]. exists d, p. split; [exact Hr|split; assumption].
  Qed.

  Theorem faithful_invk : InvK G.
  Proof.
    assert (Hcase : forall n, (exists x, keys G n = keys s0 x /\ iref G n = iref s0 x) \/ (keys G n = [] /\ iref G n = None)).
    { intro n. destruct (Nat.lt_ge_cases n (next s0)) as [Hn|Hn].
      - left. exists n. destruct (fa_old _ _ _ FA n Hn) as [_ [_ [Hi [_ Hr]]]]. unfold keys. rewrite Hi. split; [reflexivity|exact Hr].
      - destruct (fa_def _ _ _ FA n Hn) as [_ [_ D3]].
        destruct (kind_of G n) as [kn|] eqn:Ek; [|right; destruct (D3 ltac:(discriminate)) as [A B]; unfold keys; rewrite A; split; [reflexivity|exact B]].
        destruct (kind_eqb kn KInstance) eqn:Eq.
        + assert (kn = KInstance) by (destruct kn; try discriminate Eq; reflexivity). subst kn.
          destruct (fa_cov _ _ _ FA n Hn (or_intror (or_intror Ek))) as [x Hx].
          assert (Hk0 : kind_of s0 x = Some KInstance) by (rewrite <- (fa_kind _ _ _ FA x n Hx); exact Ek).
          destruct (fa_inst _ _ _ FA x n Hx Hk0) as [Hmap Hr]. left. exists x. split; [unfold keys; apply (imap_keys m _ _ Hmap)|exact Hr].
        + right. destruct D3 as [A B]; [intro E; injection E as ->; discriminate Eq|]. unfold keys. rewrite A. split; [reflexivity|exact B]. }
    constructor.
    - intros n i. destruct (Hcase n) as [[x [Hk Hr]]|[Hk Hr]].
      + rewrite Hk, Hr. destruct (iref s0 x) as [d|] eqn:Ed.
        * rewrite (keys_via x i d Ed). split.
          -- intros [p [H1 H2]]. exists d, p. split; [reflexivity|split; assumption].
          -- intros [d0 [p [H0 [H1 H2]]]]. injection H0 as <-. exists p. split; assumption.
        * split.
          -- intro Hin. apply (k_keys _ K0 x i) in Hin as [d0 [p [H0 _]]]. rewrite Ed in H0. discriminate.
          -- intros [d0 [p [H0 _]]]. discriminate.
      + rewrite Hk, Hr. split; [intros []|intros [d0 [p [H0 _]]]; discriminate].
    - intro n. destruct (Hcase n) as [[x [Hk _]]|[Hk _]]; rewrite Hk; [apply (k_nodup _ K0)|constructor].
  Qed.
End CopyK.
