(* The invariant that holds between the stages of a library / netlist clone: everything copied so
   far is the image of its source under the running memo. *)
From Coq Require Import List Arith Bool Lia.
From RecordUpdate Require Import RecordSet.
From SV Require Import Base.Base IR.State IR.NS IR.Ops Xform.Clone Proofs.AssocX Proofs.Frame Proofs.Inv1a
  Proofs.InvW Proofs.Fresh Proofs.NsInv Proofs.CloneInv Proofs.RefK Proofs.CloneRef Proofs.CloneT Proofs.FieldT
  Proofs.CloneMemo Proofs.CloneRR Proofs.CloneFaith.
From SV Require Import Proofs.CloneMemoK Proofs.CloneFaithK.
Import ListNotations RecordSetNotations.

Record ST (s0 s : state) (m : memo) : Prop := mkST {
  st_n0 : next s0 <= next s;
  st_rng : forall a b, In (a, b) m -> a < next s0 /\ next s0 <= b < next s;
  st_fun : NoDup (map fst m);
  st_inj : NoDup (map snd m);
  st_kind : forall a b, In (a, b) m -> kind_of s b = kind_of s0 a;
  st_old : forall y, y < next s0 -> ipwire s y = ipwire s0 y /\ wpins s y = wpins s0 y /\ ipins s y = ipins s0 y /\ kind_of s y = kind_of s0 y /\ iref s y = iref s0 y;
  st_kids : forall r y, y < next s0 -> kids s r y = kids s0 r y;
  st_above : forall y, next s <= y -> kind_of s y = None /\ ipwire s y = None /\ wpins s y = [] /\ ipins s y = [] /\ iref s y = None;
  st_pin : forall a b, In (a, b) m -> kind_of s0 a = Some KPin -> exists v, mwire m (ipwire s0 a) = Some v;
  st_wire : forall a b, In (a, b) m -> kind_of s0 a = Some KWire -> exists l, map_opt (mpin s0 m) (wpins s0 a) = Some l;
  st_inst : forall a b, In (a, b) m -> kind_of s0 a = Some KInstance -> exists l, map_opt (imap m) (ipins s0 a) = Some l;
  st_def : forall y, next s0 <= y ->
             (kind_of s y <> Some KPin -> ipwire s y = None) /\ (kind_of s y <> Some KWire -> wpins s y = []) /\
             (kind_of s y <> Some KInstance -> ipins s y = [] /\ iref s y = None);
  st_cov : forall y, next s0 <= y ->
             (kind_of s y = Some KPin \/ kind_of s y = Some KWire \/ kind_of s y = Some KInstance) -> exists a, In (a, y) m
}.

Lemma st_start s0 : FT s0 -> Fresh s0 -> ST s0 s0 [].
Proof.
  intros T F. constructor.
  - apply Nat.le_refl.
  - intros a b [].
  - constructor.
  - constructor.
  - intros a b [].
  - intros y Hy. repeat split.
  - intros r y Hy. reflexivity.
  - intros y Hy. destruct (ft_above s0 T F y Hy) as [A [B C]]. split; [apply (f_kind _ F); exact Hy|]. split; [exact A|]. split; [exact B|]. split; [exact C|apply (f_iref _ F); exact Hy].
  - intros a b [].
  - intros a b [].
  - intros a b [].
  - intros y Hy. destruct (ft_above s0 T F y Hy) as [A [B C]]. split; [intros _; exact A|split; [intros _; exact B|intros _; split; [exact C|apply (f_iref _ F); exact Hy]]].
  - intros y Hy Hk. rewrite (f_kind _ F y Hy) in Hk. destruct Hk as [H|[H|H]]; discriminate.
Qed.

Lemma pk_of_st s0 s m : ST s0 s m -> PK s0 s s m.
Proof.
  intros [A B C D E Fo G H I J K L M]. apply pk_start; try assumption.
Qed.

(* lookups are stable under growth of a functional memo *)
Lemma mget_mono (m m' : memo) a b : msub m m' -> NoDup (map fst m') -> mget m a = Some b -> mget m' a = Some b.
Proof. intros Hs Hf H. apply in_mget; [exact Hf|]. apply Hs. apply mget_in. exact H. Qed.
Lemma mwire_mono (m m' : memo) o v : msub m m' -> NoDup (map fst m') -> mwire m o = Some v -> mwire m' o = Some v.
Proof.
  intros Hs Hf. destruct o as [w|]; cbn; [|auto]. destruct (mget m w) as [w'|] eqn:E; cbn; [|discriminate].
  rewrite (mget_mono m m' w w' Hs Hf E). auto.
Qed.
Lemma mpin_mono s0 (m m' : memo) q p : msub m m' -> NoDup (map fst m') -> mpin s0 m q = Some p -> mpin s0 m' q = Some p.
Proof.
  intros Hs Hf. destruct q as [i|n i|]; cbn; [| |auto].
  - destruct (mget m i) as [i'|] eqn:E; cbn; [|discriminate]. rewrite (mget_mono m m' i i' Hs Hf E). auto.
  - destruct (mget m n) as [n'|] eqn:E; [|discriminate]. rewrite (mget_mono m m' n n' Hs Hf E). auto.
Qed.
Lemma map_opt_mono {A B} (f g : A -> option B) : (forall x y, f x = Some y -> g x = Some y) -> forall l l', map_opt f l = Some l' -> map_opt g l = Some l'.
Proof.
  intro H. induction l as [|x l IH]; cbn; intros l' E; [exact E|].
  destruct (f x) as [y|] eqn:Ex; [|discriminate]. destruct (map_opt f l) as [r|] eqn:Er; [|discriminate]. injection E as <-.
  rewrite (H x y Ex), (IH r eq_refl). reflexivity.
Qed.
Lemma imap_mono (m m' : memo) kv r : msub m m' -> NoDup (map fst m') -> imap m kv = Some r -> imap m' kv = Some r.
Proof.
  intros Hs Hf. unfold imap. destruct (mwire m (snd kv)) as [o|] eqn:E; cbn; [|discriminate]. rewrite (mwire_mono m m' _ o Hs Hf E). auto.
Qed.

Lemma in_memo_dec (m : memo) a b : {In (a, b) m} + {~ In (a, b) m}.
Proof. apply in_dec. intros [x1 y1] [x2 y2]. destruct (Nat.eq_dec x1 x2), (Nat.eq_dec y1 y2); [left; congruence|right; congruence..]. Qed.

(* a finished stage re-establishes the invariant *)
Lemma st_of_stage s0 s G m m' K :
  ST s0 s m -> StageOut s0 s G m m' K -> next s <= next G -> ST s0 G m'.
Proof.
  intros T S Hn. pose proof (st_n0 _ _ _ T) as H0.
  assert (Hcase : forall a b, In (a, b) m' -> (In (a, b) m /\ b < next s) \/ next s <= b).
  { intros a b H. destruct (in_memo_dec m a b) as [Hi|Hi]; [left; split; [exact Hi|apply (st_rng _ _ _ T a b Hi)]|right; apply (so_new _ _ _ _ _ _ S a b H Hi)]. }
  constructor.
  - lia.
  - apply (so_rng _ _ _ _ _ _ S).
  - apply (so_fun _ _ _ _ _ _ S).
  - apply (so_inj _ _ _ _ _ _ S).
  - apply (so_kind _ _ _ _ _ _ S).
  - intros y Hy. destruct (so_old _ _ _ _ _ _ S y ltac:(lia)) as [-> [-> [-> [-> ->]]]]. apply (st_old _ _ _ T y Hy).
  - apply (so_kids _ _ _ _ _ _ S).
  - intros y Hy. pose proof (so_fresh _ _ _ _ _ _ S y Hy) as Hk. destruct (so_def _ _ _ _ _ _ S y ltac:(lia)) as [D1 [D2 D3]]. rewrite Hk in D1, D2, D3.
    split; [exact Hk|]. split; [apply D1; discriminate|]. split; [apply D2; discriminate|apply D3; discriminate].
  - intros a b H Hk. destruct (Hcase a b H) as [[Hi Hb]|Hb]; [|eexists; apply (so_pin _ _ _ _ _ _ S a b H Hb Hk)].
    destruct (st_pin _ _ _ T a b Hi Hk) as [v Hv]. exists v. apply (mwire_mono m m' _ _ (so_sub _ _ _ _ _ _ S) (so_fun _ _ _ _ _ _ S)). exact Hv.
  - intros a b H Hk. destruct (Hcase a b H) as [[Hi Hb]|Hb]; [|eexists; apply (so_wire _ _ _ _ _ _ S a b H Hb Hk)].
    destruct (st_wire _ _ _ T a b Hi Hk) as [l Hl]. exists l.
    apply (map_opt_mono (mpin s0 m) (mpin s0 m')); [intros q p; apply (mpin_mono s0 m m' q p (so_sub _ _ _ _ _ _ S) (so_fun _ _ _ _ _ _ S))|exact Hl].
  - intros a b H Hk. destruct (Hcase a b H) as [[Hi Hb]|Hb]; [|eexists; apply (proj1 (so_inst _ _ _ _ _ _ S a b H Hb Hk))].
    destruct (st_inst _ _ _ T a b Hi Hk) as [l Hl]. exists l.
    apply (map_opt_mono (imap m) (imap m')); [intros kv r; apply (imap_mono m m' kv r (so_sub _ _ _ _ _ _ S) (so_fun _ _ _ _ _ _ S))|exact Hl].
  - intros y Hy. destruct (Nat.lt_ge_cases y (next s)) as [Hlt|Hge]; [|apply (so_def _ _ _ _ _ _ S y Hge)].
    destruct (so_old _ _ _ _ _ _ S y Hlt) as [-> [-> [-> [-> ->]]]]. apply (st_def _ _ _ T y Hy).
  - intros y Hy Hk. destruct (Nat.lt_ge_cases y (next s)) as [Hlt|Hge]; [|apply (so_cov _ _ _ _ _ _ S y Hge Hk)].
    destruct (so_old _ _ _ _ _ _ S y Hlt) as [_ [_ [_ [Hkk _]]]]. rewrite Hkk in Hk. destruct (st_cov _ _ _ T y Hy Hk) as [a Ha]. exists a. apply (so_sub _ _ _ _ _ _ S). exact Ha.
Qed.

(* a stage that allocates copies of objects that carry no pin-wire field (library, netlist) *)
Lemma so_of_pk_plain s0 s G m m' K :
  PK s0 s G m' -> msub m m' -> keys_ext m m' K -> (forall a b, In (a, b) m -> b < next s) ->
  (forall a b, In (a, b) m' -> In (a, b) m \/ (next s <= b /\ kind_of s0 a <> Some KPin /\ kind_of s0 a <> Some KWire /\ kind_of s0 a <> Some KInstance)) ->
  StageOut s0 s G m m' K.
Proof.
  intros P Hs Hk Hlt Hnew. constructor; try assumption.
  - apply (pk_rng _ _ _ _ P).
  - intros a b H Hn. destruct (Hnew a b H) as [Hi|[Hb _]]; [contradiction|exact Hb].
  - apply (pk_fun _ _ _ _ P).
  - apply (pk_inj _ _ _ _ P).
  - apply (pk_kind _ _ _ _ P).
  - apply (pk_old _ _ _ _ P).
  - intros a b H Hb Hk0. destruct (Hnew a b H) as [Hi|[_ [Hn _]]]; [pose proof (Hlt a b Hi); lia|contradiction].
  - intros a b H Hb Hk0. destruct (Hnew a b H) as [Hi|[_ [_ [Hn _]]]]; [pose proof (Hlt a b Hi); lia|contradiction].
  - intros a b H Hb Hk0. destruct (Hnew a b H) as [Hi|[_ [_ [_ Hn]]]]; [pose proof (Hlt a b Hi); lia|contradiction].
  - apply (pk_def _ _ _ _ P).
  - intros y Hy Hkk. destruct (Nat.lt_ge_cases y (next G)) as [Hl|Hg]; [apply (pk_cov _ _ _ _ P y (conj Hy Hl) Hkk)|].
    rewrite (pk_fresh _ _ _ _ P y Hg) in Hkk. destruct Hkk as [H|[H|H]]; discriminate.
  - apply (pk_kids _ _ _ _ P).
  - apply (pk_fresh _ _ _ _ P).
Qed.

Lemma st_alloc_plain s0 s m x K s1 x' :
  ST s0 s m -> x < next s0 -> ~ In x (map fst m) -> kind_of s0 x = Some K ->
  kind_eqb K KPin = false -> kind_eqb K KWire = false -> kind_eqb K KInstance = false ->
  clone_alloc s K = (s1, x') ->
  ST s0 (copy_data s1 x x') ((x, x') :: m) /\ x' = next s.
Proof.
  intros T Hx Hn Hk K1 K2 K3 Ea.
  destruct (clone_alloc_fields _ _ _ _ Ea) as [Hx' [N1 [Kd1 [Kk1 [W1 [P1 [I1 R1]]]]]]]. subst x'.
  assert (PA : PK s0 s s1 ((x, next s) :: m)).
  { apply (pk_leaf s0 s s m x K); try assumption; rewrite ?W1, ?P1, ?I1, ?R1, ?K1, ?K2, ?K3; try reflexivity.
    - apply pk_of_st. exact T.
    - intros y _. repeat split. }
  assert (PB : PK s0 s (copy_data s1 x (next s)) ((x, next s) :: m)) by (apply (pk_same s0 s s1); try reflexivity; exact PA).
  split; [|reflexivity].
  apply (st_of_stage s0 s _ m ((x, next s) :: m) [x] T); [|cbn; lia].
  apply so_of_pk_plain; [exact PB|intros e He; right; exact He|intro y; cbn; tauto|intros a b H; apply (st_rng _ _ _ T a b H)|].
  intros a b [E|H]; [|left; exact H]. injection E as <- <-. right. split; [apply Nat.le_refl|]. rewrite Hk.
  repeat split; intro E; injection E as ->; discriminate.
Qed.
