(* EBLIF engine, connectivity clause of C18: .conn.  merge_wires moves the pins of wire (a, i) and
   of wire (b, j) to the only wire of a new cable a_i_b_j and removes the two wires (the wires after
   them move down by one).  For two different cables no earlier .conn has consumed or created:
   pins share a wire afterwards exactly when they did before or sit on the two merged net bits. *)
From Coq Require Import List Arith NArith Bool Lia Permutation.
From SV Require Import Base.Base Fmt.Blif Fmt.BlifRead Fmt.BlifSpec
  Proofs.BlifBase Proofs.BlifWF Proofs.BlifExec Proofs.BlifNetsBase Proofs.BlifNetsView Proofs.BlifNetsRel.
Import ListNotations.

Definition shift (i k : nat) : nat := if Nat.ltb k i then k else S k.

Lemma nth_remove_nth {A} i (l : list A) k d : nth k (remove_nth i l) d = nth (shift i k) l d.
Proof.
  unfold shift. revert l k. induction i as [|i IH]; intros [|x l] k; cbn [remove_nth].
  - destruct k; reflexivity.
  - reflexivity.
  - destruct (Nat.ltb k (S i)); destruct k; reflexivity.
  - destruct k as [|k]; [reflexivity|]. cbn [nth]. rewrite IH.
    change (Nat.ltb (S k) (S i)) with (Nat.ltb k i). destruct (Nat.ltb k i); reflexivity.
Qed.

Lemma wire_at_upd_rm c' i X c k :
  wire_at c k (upd_cable c' (remove_nth i) X) = if str_eqb c c' then wire_at c (shift i k) X else wire_at c k X.
Proof.
  rewrite wire_at_upd. unfold wire_at. destruct (find_cable c X); [|destruct (str_eqb c c'); reflexivity].
  destruct (str_eqb c c'); [apply nth_remove_nth|reflexivity].
Qed.

Lemma sw_iff cs a b : NoDup (map c_name cs) ->
  (same_wire_c cs a b <-> exists c k, In a (wire_at c k cs) /\ In b (wire_at c k cs)).
Proof.
  intro Hnd. split.
  - intros [c [w [Hc [Hw [Ha Hb]]]]]. destruct (wire_is_wire_at cs c w Hnd Hc Hw) as [k Hk].
    exists (c_name c), k. rewrite Hk. auto.
  - intros [c [k [Ha Hb]]]. destruct (wire_at_is_wire _ _ _ _ Ha) as [x [Hx Hw]]. exists x, (wire_at c k cs). auto.
Qed.

Lemma same_bit_mono cs xy x y : same_bit cs x y -> same_bit (cs ++ [xy]) x y.
Proof. intros [H|[H|H]]; [left; exact H|right; left|right; right]; apply in_app_iff; auto. Qed.

Lemma touched_app cs xy :
  touched (cs ++ [xy]) = touched cs ++ [fst (fst xy); fst (snd xy);
     merge_name (fst (fst xy)) (snd (fst xy)) (fst (snd xy)) (snd (snd xy))].
Proof. unfold touched. rewrite flat_map_app. reflexivity. Qed.

Lemma find_cable_wire_at c k cs pr : In pr (wire_at c k cs) -> exists x, find_cable c cs = Some x.
Proof. unfold wire_at. destruct (find_cable c cs); [eauto|intros []]. Qed.

Lemma B_do_conn an ai bn bi m m' att conns :
  do_conn an ai bn bi m = Ok m' ->
  NoDup (map c_name (m_cables m)) ->
  an <> bn -> ~ In an (touched conns) -> ~ In bn (touched conns) ->
  B1 (m_cables m) att (touched conns) -> B2 (m_cables m) att conns ->
  B1 (m_cables m') att (touched (conns ++ [((an, ai), (bn, bi))])) /\
  B2 (m_cables m') att (conns ++ [((an, ai), (bn, bi))]).
Proof.
  intros H Hnd Hab Hta Htb H1 H2.
  destruct (do_conn_spec _ _ _ _ _ _ H Hnd) as [_ [_ [_ [_ [Hnd' _]]]]].
  unfold do_conn in H. set (cs := m_cables m) in *.
  set (cs2 := ensure_wire bn bi (ensure_wire an ai cs)) in *.
  set (nmg := merge_name an ai bn bi) in *.
  destruct (find_cable nmg cs2) eqn:Efresh; [discriminate|].
  destruct (str_eqb an bn && Nat.eqb ai bi); [discriminate|].
  assert (Eab : str_eqb an bn = false) by (apply str_eqb_false; exact Hab). rewrite Eab in H.
  inversion H; subst m'. clear H. cbn [set_cables m_cables] in *.
  assert (W2 : forall c k, wire_at c k cs2 = wire_at c k cs).
  { intros c k. unfold cs2. rewrite !wire_at_ensure. reflexivity. }
  assert (Hkeep : forall c x, find_cable c cs = Some x -> exists y, find_cable c cs2 = Some y).
  { intros c x Hx. destruct (ensure_wire_keeps an ai cs c x Hx) as [y Hy]. exact (ensure_wire_keeps bn bi _ c y Hy). }
  assert (Hna : nmg <> an).
  { intro E. destruct (ensure_wire_finds an ai cs) as [x Hx]. destruct (ensure_wire_keeps bn bi _ an x Hx) as [y Hy].
    fold cs2 in Hy. rewrite <- E in Hy. congruence. }
  assert (Hnb : nmg <> bn).
  { intro E. destruct (ensure_wire_finds bn bi (ensure_wire an ai cs)) as [x Hx]. fold cs2 in Hx. rewrite <- E in Hx. congruence. }
  set (wA := wire_at an ai cs). set (wB := wire_at bn bi cs).
  assert (W4 : forall c k,
    wire_at c k (upd_cable bn (remove_nth bi) (upd_cable an (remove_nth ai)
                  (cs2 ++ [mkCable nmg [wire_at an ai cs2 ++ wire_at bn bi cs2]]))) =
    if str_eqb c bn then wire_at bn (shift bi k) cs
    else if str_eqb c an then wire_at an (shift ai k) cs
    else if str_eqb c nmg then nth k [wA ++ wB] [] else wire_at c k cs).
  { intros c k. rewrite !wire_at_upd_rm. rewrite !(wire_at_app_new _ _ _ _ _ Efresh). rewrite !W2.
    destruct (str_eqb c bn) eqn:E1.
    - apply str_eqb_spec in E1. subst c. rewrite (proj2 (str_eqb_false bn an)) by congruence.
      rewrite (proj2 (str_eqb_false bn nmg)) by congruence. reflexivity.
    - destruct (str_eqb c an) eqn:E2.
      + apply str_eqb_spec in E2. subst c. rewrite (proj2 (str_eqb_false an nmg)) by congruence. reflexivity.
      + reflexivity. }
  rewrite touched_app. cbn [fst snd]. fold nmg. split.
  - (* cables no .conn has touched are as before *)
    intros c Hc pr k. rewrite W4.
    assert (c <> bn /\ c <> an /\ c <> nmg /\ ~ In c (touched conns)) as [N1 [N2 [N3 N4]]].
    { repeat split; intro E; apply Hc; apply in_app_iff; cbn; auto. }
    rewrite (proj2 (str_eqb_false c bn)), (proj2 (str_eqb_false c an)), (proj2 (str_eqb_false c nmg)) by assumption.
    apply H1. exact N4.
  - intros a b. rewrite (sw_iff _ a b Hnd'). split.
    + intros [c [k [Ha Hb]]]. rewrite W4 in Ha, Hb.
      assert (Hold : forall c0 k0, In a (wire_at c0 k0 cs) -> In b (wire_at c0 k0 cs) ->
                exists x y, In (a, x) att /\ In (b, y) att /\ same_bit (conns ++ [(an, ai, (bn, bi))]) x y).
      { intros c0 k0 A B. assert (S : same_wire_c cs a b) by (apply sw_iff; [exact Hnd|eauto]).
        apply H2 in S as [x [y [X1 [X2 X3]]]]. exists x, y. repeat split; auto. apply same_bit_mono. exact X3. }
      destruct (str_eqb c bn); [eapply Hold; eauto|]. destruct (str_eqb c an); [eapply Hold; eauto|].
      destruct (str_eqb c nmg); [|eapply Hold; eauto].
      destruct k as [|k]; [|destruct k; destruct Ha]. cbn [nth] in Ha, Hb.
      assert (Hx : forall p, In p (wA ++ wB) -> In (p, (an, ai)) att \/ In (p, (bn, bi)) att).
      { intros p Hp. apply in_app_iff in Hp as [Hp|Hp]; [left; apply (H1 an Hta)|right; apply (H1 bn Htb)]; exact Hp. }
      destruct (Hx a Ha) as [A|A], (Hx b Hb) as [B|B]; eexists; eexists; (split; [exact A|]); (split; [exact B|]).
      * left. reflexivity.
      * right. left. apply in_app_iff. right. left. reflexivity.
      * right. right. apply in_app_iff. right. left. reflexivity.
      * left. reflexivity.
    + intros [x [y [A [B S]]]].
      assert (Hmerged : In a (wA ++ wB) -> In b (wA ++ wB) ->
                exists c k, In a (wire_at c k (upd_cable bn (remove_nth bi) (upd_cable an (remove_nth ai)
                  (cs2 ++ [mkCable nmg [wire_at an ai cs2 ++ wire_at bn bi cs2]])))) /\
                            In b (wire_at c k (upd_cable bn (remove_nth bi) (upd_cable an (remove_nth ai)
                  (cs2 ++ [mkCable nmg [wire_at an ai cs2 ++ wire_at bn bi cs2]]))))).
      { intros Ha Hb. exists nmg, 0. rewrite W4.
        rewrite (proj2 (str_eqb_false nmg bn)), (proj2 (str_eqb_false nmg an)), str_eqb_refl by assumption.
        cbn [nth]. auto. }
      assert (Hnew : forall p q, In (p, (an, ai)) att -> In (q, (bn, bi)) att -> In p (wA ++ wB) /\ In q (wA ++ wB)).
      { intros p q P Q. split; apply in_app_iff; [left; apply (H1 an Hta)|right; apply (H1 bn Htb)]; assumption. }
      assert (Sold : same_bit conns x y \/ (x = (an, ai) /\ y = (bn, bi)) \/ (y = (an, ai) /\ x = (bn, bi))).
      { destruct S as [S|[S|S]]; [left; left; exact S| |]; apply in_app_iff in S as [S|[S|[]]].
        - left. right. left. exact S.
        - inversion S. auto.
        - left. right. right. exact S.
        - inversion S. auto. }
      destruct Sold as [S0|[[-> ->]|[-> ->]]].
      * assert (SW : same_wire_c cs a b) by (apply H2; eauto).
        apply (sw_iff _ _ _ Hnd) in SW as [c [k [Ha Hb]]].
        destruct (str_eqb c an) eqn:E1.
        { apply str_eqb_spec in E1. subst c. destruct (Nat.eq_dec k ai) as [->|Hk].
          - apply Hmerged; apply in_app_iff; left; assumption.
          - exists an, (if Nat.ltb k ai then k else k - 1). rewrite W4.
            rewrite (proj2 (str_eqb_false an bn)), str_eqb_refl by assumption.
            assert (Es : shift ai (if Nat.ltb k ai then k else k - 1) = k).
            { unfold shift. destruct (Nat.ltb k ai) eqn:E; [rewrite E; reflexivity|]. apply Nat.ltb_ge in E.
              assert (E2 : Nat.ltb (k - 1) ai = false) by (apply Nat.ltb_ge; lia). rewrite E2. lia. }
            rewrite Es. auto. }
        destruct (str_eqb c bn) eqn:E2.
        { apply str_eqb_spec in E2. subst c. destruct (Nat.eq_dec k bi) as [->|Hk].
          - apply Hmerged; apply in_app_iff; right; assumption.
          - exists bn, (if Nat.ltb k bi then k else k - 1). rewrite W4, str_eqb_refl.
            assert (Es : shift bi (if Nat.ltb k bi then k else k - 1) = k).
            { unfold shift. destruct (Nat.ltb k bi) eqn:E; [rewrite E; reflexivity|]. apply Nat.ltb_ge in E.
              assert (E3 : Nat.ltb (k - 1) bi = false) by (apply Nat.ltb_ge; lia). rewrite E3. lia. }
            rewrite Es. auto. }
        exists c, k. rewrite W4, E1, E2.
        assert (E3 : str_eqb c nmg = false).
        { apply str_eqb_false. intro E. subst c. destruct (find_cable_wire_at _ _ _ _ Ha) as [x0 Hx0].
          destruct (Hkeep _ _ Hx0) as [y0 Hy0]. congruence. }
        rewrite E3. auto.
      * destruct (Hnew a b A B). apply Hmerged; assumption.
      * destruct (Hnew b a B A). apply Hmerged; assumption.
Qed.

(* the other fields *)
Lemma do_conn_fields a i b j m m' :
  do_conn a i b j m = Ok m' ->
  m_name m' = m_name m /\ m_ports m' = m_ports m /\ m_insts m' = m_insts m /\
  m_lib m' = m_lib m /\ m_defined m' = m_defined m.
Proof.
  unfold do_conn. destruct (find_cable _ _); [discriminate|]. destruct (_ && _); [discriminate|].
  intro H. inversion H. repeat split.
Qed.

Definition st_conn (st : nst) (xy : netbit * netbit) : nst :=
  mkNst (n_idx st) (n_ins st) (n_inn st) (n_outn st) (n_att st) (n_conns st ++ [xy]) (n_bb st) (n_lib st) (n_def st).

Lemma R_do_conn nm an ai bn bi m m' st :
  do_conn an ai bn bi m = Ok m' ->
  NoDup (map c_name (m_cables m)) ->
  n_bb st = false -> an <> bn -> ~ In an (touched (n_conns st)) -> ~ In bn (touched (n_conns st)) ->
  R nm m st -> R nm m' (st_conn st ((an, ai), (bn, bi))).
Proof.
  intros H Hnd Hb Hab Hta Htb [R1 R2 R3 R4 R5 R6 R7 R8 R9].
  destruct (do_conn_fields _ _ _ _ _ _ H) as [F1 [F2 [F3 [F4 F5]]]].
  assert (B2' : B2 (m_cables m) (n_att st) (n_conns st)).
  { destruct (n_conns st) as [|c0 cl] eqn:Ec; [|apply R7; [exact Hb|discriminate]].
    apply b2_of_b1; [exact Hnd|]. apply R6. exact Hb. }
  destruct (B_do_conn _ _ _ _ _ _ _ _ H Hnd Hab Hta Htb (R6 Hb) B2') as [N1 N2].
  constructor; cbn [st_conn n_idx n_ins n_inn n_outn n_att n_conns n_bb n_lib n_def]; rewrite ?F3, ?F4, ?F5; auto.
  - intros Hr p. unfold port_dir. rewrite F2. apply R2. exact Hr.
  - intros _ Hn. apply app_eq_nil in Hn as [_ Hn]. discriminate.
  - congruence.
Qed.
