(* EBLIF engine, connectivity clause of C18: .conn.  merge_wires moves the pins of the wire that stands
   for operand b to the wire that stands for operand a and enters (emptied wire, surviving wire) in the
   table of merged wires; both wires stay where they are.  Whatever the statements read before - other
   .conn naming the same nets, statements using them - the reader's invariant [NI] is kept: the nets the
   .conn statements join, in any order and through any chain, are the nets whose pins share a wire. *)
From Coq Require Import List Arith NArith Bool Lia Permutation.
From SV Require Import Base.Base Fmt.Blif Fmt.BlifRead Fmt.BlifSpec
  Proofs.BlifBase Proofs.BlifWF Proofs.BlifExec Proofs.BlifNetsBase Proofs.BlifNetsView Proofs.BlifNetsRel.
Import ListNotations.

(* ---------- wires addressed by (cable, position) under set_wire ---------- *)
Lemma nth_upd_nth_same {A} k (f : A -> A) l d : k < length l -> nth k (upd_nth k f l) d = f (nth k l d).
Proof.
  revert k. induction l as [|x l IH]; intros [|k] H; cbn in *; try lia; [reflexivity|]. apply IH. lia.
Qed.

Lemma nth_upd_nth_nil {A} k (l : list (list A)) : nth k (upd_nth k (fun _ => []) l) [] = [].
Proof. revert k. induction l as [|x l IH]; intros [|k]; cbn; try reflexivity. apply IH. Qed.

Lemma wire_at_set_wire_nil c k cs : wire_at c k (set_wire c k (fun _ => []) cs) = [].
Proof.
  unfold set_wire. rewrite wire_at_upd. destruct (find_cable c cs); [|reflexivity].
  rewrite str_eqb_refl. apply nth_upd_nth_nil.
Qed.

Lemma wire_at_set_wire_same c k f cs : has_wire c k cs -> wire_at c k (set_wire c k f cs) = f (wire_at c k cs).
Proof.
  intros [x [Hx Hk]]. unfold set_wire. rewrite wire_at_upd. unfold wire_at. rewrite Hx, str_eqb_refl.
  apply nth_upd_nth_same. exact Hk.
Qed.

Lemma nb_neq_cases (x y : netbit) : x <> y -> fst x <> fst y \/ snd x <> snd y.
Proof.
  destruct x as [c k], y as [c' k']. cbn. intro H. destruct (list_eq_dec N.eq_dec c c') as [->|Hc]; [|left; exact Hc].
  right. intro E. subst. apply H. reflexivity.
Qed.

(* the cables after .conn: [x], [y] the wires that stand for the operands *)
Lemma do_conn_wires al an ai bn bi m m' :
  do_conn al an ai bn bi m = Ok m' ->
  let x := merged_into al (an, ai) in let y := merged_into al (bn, bi) in
  x <> y -> has_wire (fst x) (snd x) (ensure_wire bn bi (ensure_wire an ai (m_cables m))) ->
  forall c k, wire_at c k (m_cables m') =
    if nb_eqb (c, k) y then []
    else if nb_eqb (c, k) x then wire_at (fst x) (snd x) (m_cables m) ++ wire_at (fst y) (snd y) (m_cables m)
    else wire_at c k (m_cables m).
Proof.
  intros H x y Hxy Hx c k. unfold do_conn in H. fold x y in H.
  rewrite (proj2 (nb_eqb_false x y) Hxy) in H. inversion H; subst m'. clear H. cbn [set_cables m_cables].
  set (cs := m_cables m) in *. set (cs2 := ensure_wire bn bi (ensure_wire an ai cs)) in *.
  assert (W2 : forall c0 k0, wire_at c0 k0 cs2 = wire_at c0 k0 cs).
  { intros c0 k0. unfold cs2. rewrite !wire_at_ensure. reflexivity. }
  destruct (nb_eqb (c, k) y) eqn:E1.
  - apply nb_eqb_true in E1. subst y. rewrite <- E1. cbn [fst snd]. apply wire_at_set_wire_nil.
  - apply nb_eqb_false in E1. rewrite wire_at_set_wire_other by (apply (nb_neq_cases (c, k) y E1)).
    destruct (nb_eqb (c, k) x) eqn:E2.
    + apply nb_eqb_true in E2. rewrite <- E2 in *. cbn [fst snd] in *.
      rewrite (wire_at_set_wire_same _ _ _ _ Hx), !W2. reflexivity.
    + apply nb_eqb_false in E2. rewrite wire_at_set_wire_other by (apply (nb_neq_cases (c, k) x E2)). apply W2.
Qed.

Lemma same_bit_mono cs xy x y : same_bit cs x y -> same_bit (cs ++ [xy]) x y.
Proof.
  induction 1; [apply sb_refl|apply sb_conn; apply in_app_iff; auto|apply sb_sym; assumption|eapply sb_trans; eauto].
Qed.

(* one more .conn between two net bits: they are one net from now on, and nothing else changes *)
Lemma same_bit_snoc_fwd conns a b (g : netbit -> netbit) :
  (forall y z, same_bit conns y z -> g y = g z) -> g a = g b ->
  forall y z, same_bit (conns ++ [(a, b)]) y z -> g y = g z.
Proof.
  intros Hold Hab y z S. induction S as [u|u v Hin|u v S IH|u v w S1 IH1 S2 IH2].
  - reflexivity.
  - apply in_app_iff in Hin as [Hin|[Hin|[]]]; [apply Hold; apply sb_conn; exact Hin|]. inversion Hin; subst. exact Hab.
  - symmetry. exact IH.
  - congruence.
Qed.

Lemma NI_do_conn al an ai bn bi m m' att conns :
  do_conn al an ai bn bi m = Ok m' ->
  NI (m_cables m) att conns al ->
  NI (m_cables m') att (conns ++ [((an, ai), (bn, bi))]) (note_merged al an ai bn bi).
Proof.
  intros H [N1 N2 N3].
  set (x := merged_into al (an, ai)) in *. set (y := merged_into al (bn, bi)) in *.
  set (cs := m_cables m) in *. set (cs2 := ensure_wire bn bi (ensure_wire an ai cs)).
  assert (W2 : forall c0 k0, wire_at c0 k0 cs2 = wire_at c0 k0 cs).
  { intros c0 k0. unfold cs2. rewrite !wire_at_ensure. reflexivity. }
  assert (H3 : forall kv, In kv al -> has_wire (fst (snd kv)) (snd (snd kv)) cs2).
  { intros kv Hin. unfold cs2. apply has_wire_ensure_keeps, has_wire_ensure_keeps. exact (N3 kv Hin). }
  unfold note_merged. fold x y. destruct (nb_eqb x y) eqn:Exy.
  - (* the two operands already stand for the same wire *)
    apply nb_eqb_true in Exy.
    assert (Ecs : m_cables m' = cs2).
    { unfold do_conn in H. fold x y in H. rewrite (proj2 (nb_eqb_true x y) Exy) in H. inversion H. reflexivity. }
    rewrite Ecs. constructor.
    + intros c k pr. rewrite W2. apply N1.
    + intros u v. split.
      * intro E. apply same_bit_mono. apply N2. exact E.
      * apply (same_bit_snoc_fwd conns (an, ai) (bn, bi) (merged_into al)); [intros u' v' S; apply N2; exact S|exact Exy].
    + exact H3.
  - apply nb_eqb_false in Exy.
    assert (Hx : has_wire (fst x) (snd x) cs2).
    { destruct (merged_into_cases al (an, ai)) as [E|[k0 Hin]]; fold x in E || fold x in Hin.
      - rewrite E. cbn [fst snd]. unfold cs2. apply has_wire_ensure_keeps, has_wire_ensure.
      - exact (H3 _ Hin). }
    pose proof (do_conn_wires _ _ _ _ _ _ _ H Exy Hx) as W4. fold x y in W4. fold cs in W4.
    assert (G : forall u, merged_into (al ++ [(y, x)]) u = if nb_eqb y (merged_into al u) then x else merged_into al u)
      by (intro u; apply merged_into_snoc).
    constructor.
    + intros c k pr. rewrite W4. destruct (nb_eqb (c, k) y) eqn:E1.
      * apply nb_eqb_true in E1. split; [intros []|]. intros [u [A B]]. rewrite G in B.
        destruct (nb_eqb y (merged_into al u)) eqn:E2; [congruence|]. apply nb_eqb_false in E2. congruence.
      * apply nb_eqb_false in E1. destruct (nb_eqb (c, k) x) eqn:E2.
        -- apply nb_eqb_true in E2. rewrite in_app_iff. destruct x as [xc xk] eqn:Ex0, y as [yc yk] eqn:Ey0. cbn [fst snd].
           rewrite !N1. split.
           ++ intros [[u [A B]]|[u [A B]]]; exists u; (split; [exact A|]); rewrite G.
              ** destruct (nb_eqb (yc, yk) (merged_into al u)) eqn:E3; [symmetry; exact E2|congruence].
              ** rewrite B, (proj2 (nb_eqb_true _ _) eq_refl). symmetry. exact E2.
           ++ intros [u [A B]]. rewrite G in B. destruct (nb_eqb (yc, yk) (merged_into al u)) eqn:E3.
              ** apply nb_eqb_true in E3. right. exists u. auto.
              ** left. exists u. split; [exact A|congruence].
        -- apply nb_eqb_false in E2. rewrite N1. split; intros [u [A B]]; exists u; (split; [exact A|]).
           ++ rewrite G. destruct (nb_eqb y (merged_into al u)) eqn:E3; [apply nb_eqb_true in E3; congruence|exact B].
           ++ rewrite G in B. destruct (nb_eqb y (merged_into al u)) eqn:E3; [congruence|exact B].
    + intros u v. rewrite !G. split.
      * intro E. destruct (nb_eqb y (merged_into al u)) eqn:E1, (nb_eqb y (merged_into al v)) eqn:E2.
        -- apply nb_eqb_true in E1, E2. apply same_bit_mono. apply N2. congruence.
        -- apply nb_eqb_true in E1. (* u stands for y = what b stands for; v for x = what a stands for *)
           apply (sb_trans _ _ (bn, bi)); [apply same_bit_mono; apply N2; symmetry; exact E1|].
           apply (sb_trans _ _ (an, ai)); [apply sb_sym, sb_conn; apply in_app_iff; right; left; reflexivity|].
           apply same_bit_mono. apply N2. exact E.
        -- apply nb_eqb_true in E2.
           apply (sb_trans _ _ (an, ai)); [apply same_bit_mono; apply N2; exact E|].
           apply (sb_trans _ _ (bn, bi)); [apply sb_conn; apply in_app_iff; right; left; reflexivity|].
           apply same_bit_mono. apply N2. exact E2.
        -- apply same_bit_mono. apply N2. exact E.
      * intro S. change ((fun w => if nb_eqb y (merged_into al w) then x else merged_into al w) u =
                         (fun w => if nb_eqb y (merged_into al w) then x else merged_into al w) v).
        apply (same_bit_snoc_fwd conns (an, ai) (bn, bi)); [| |exact S].
        -- intros u' v' S'. apply N2 in S'. rewrite S'. reflexivity.
        -- cbn beta. fold x y. rewrite (proj2 (nb_eqb_true y y) eq_refl).
           rewrite (proj2 (nb_eqb_false y x)) by (intro E; apply Exy; symmetry; exact E). reflexivity.
    + intros kv Hin.
      assert (Hm : forall c0 k0, has_wire c0 k0 cs2 -> has_wire c0 k0 (m_cables m')).
      { intros c0 k0 Hh. unfold do_conn in H. fold x y in H. rewrite (proj2 (nb_eqb_false x y) Exy) in H.
        inversion H. cbn [set_cables m_cables]. apply has_wire_set_wire, has_wire_set_wire. exact Hh. }
      apply in_app_iff in Hin as [Hin|[<-|[]]]; [apply Hm, H3; exact Hin|]. cbn [fst snd]. apply Hm. exact Hx.
Qed.

(* the other fields *)
Lemma do_conn_fields al a i b j m m' :
  do_conn al a i b j m = Ok m' ->
  m_name m' = m_name m /\ m_ports m' = m_ports m /\ m_insts m' = m_insts m /\
  m_lib m' = m_lib m /\ m_defined m' = m_defined m.
Proof. unfold do_conn. destruct (nb_eqb _ _); intro H; inversion H; repeat split. Qed.

Definition st_conn (st : nst) (xy : netbit * netbit) : nst :=
  mkNst (n_idx st) (n_ins st) (n_inn st) (n_outn st) (n_att st) (n_conns st ++ [xy]) (n_bb st) (n_lib st) (n_def st).

Lemma R_do_conn nm al an ai bn bi m m' st :
  do_conn al an ai bn bi m = Ok m' ->
  n_bb st = false ->
  RX nm nm al m st -> RX nm nm (note_merged al an ai bn bi) m' (st_conn st ((an, ai), (bn, bi))).
Proof.
  intros H Hb [[R1 R2 R3 R4 R5 R6 R7 R8] HN].
  destruct (do_conn_fields _ _ _ _ _ _ _ H) as [F1 [F2 [F3 [F4 F5]]]].
  pose proof (NI_do_conn _ _ _ _ _ _ _ _ _ H (HN eq_refl Hb)) as N'.
  split; [|intros _ _; exact N'].
  constructor; cbn [st_conn n_idx n_ins n_inn n_outn n_att n_conns n_bb n_lib n_def]; rewrite ?F3, ?F4, ?F5; auto.
  - intros Hr p. unfold port_dir. rewrite F2. apply R2. exact Hr.
  - intros _. eexists. exact N'.
  - intros _ Hn. apply app_eq_nil in Hn as [_ Hn]. discriminate.
  - congruence.
Qed.
