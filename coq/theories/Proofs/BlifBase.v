(* EBLIF engine: basic lemmas about the lookup / pointwise-update helpers of Fmt/Blif.v. *)
From Coq Require Import List Arith NArith Bool Lia Permutation.
From SV Require Import Base.Base Fmt.Blif Fmt.BlifRead Fmt.BlifSpec.
Import ListNotations.

Lemma str_eqb_sym a b : str_eqb a b = str_eqb b a.
Proof.
  destruct (str_eqb a b) eqn:E.
  - apply str_eqb_spec in E. subst. symmetry. apply str_eqb_refl.
  - destruct (str_eqb b a) eqn:E2; [|reflexivity]. apply str_eqb_spec in E2. subst.
    rewrite str_eqb_refl in E. discriminate.
Qed.

Lemma str_eqb_false a b : str_eqb a b = false <-> a <> b.
Proof.
  split.
  - intros H E. subst. rewrite str_eqb_refl in H. discriminate.
  - apply str_eqb_neq.
Qed.

(* ---------- lists ---------- *)
Lemma NoDup_app_iff {A} (a b : list A) :
  NoDup (a ++ b) <-> NoDup a /\ NoDup b /\ (forall x, In x a -> ~ In x b).
Proof.
  induction a as [|x a IH]; cbn.
  - split; [intro H; repeat split; [constructor|assumption|tauto]|tauto].
  - split.
    + intro H. inversion H; subst. apply IH in H3 as [H3 [H4 H5]].
      rewrite in_app_iff in H2. repeat split; [constructor; tauto|assumption|].
      intros y [<-|Hy]; [tauto|auto].
    + intros [H1 [H2 H3]]. inversion H1; subst. constructor.
      * rewrite in_app_iff. intros [H|H]; [contradiction|]. eapply H3; [left; reflexivity|assumption].
      * apply IH. repeat split; auto.
Qed.

Lemma concat_app' {A} (a b : list (list A)) : concat (a ++ b) = concat a ++ concat b.
Proof. apply concat_app. Qed.

(* ---------- result ---------- *)
Lemma bind_ok {A B} (r : result A) (f : A -> result B) b :
  bind r f = Ok b -> exists a, r = Ok a /\ f a = Ok b.
Proof. destruct r; cbn; [eauto|discriminate]. Qed.

(* a fold over a result accumulator: an invariant of the successful steps holds at the end *)
Lemma fold_res_inv {A X} (f : result A -> X -> result A) (P : A -> Prop) :
  (forall e x, f (Error e) x = Error e) ->
  (forall a x a', P a -> f (Ok a) x = Ok a' -> P a') ->
  forall l a a', P a -> fold_left f l (Ok a) = Ok a' -> P a'.
Proof.
  intros Herr Hstep l. induction l as [|x l IH]; cbn; intros a a' Pa H.
  - inversion H; subst; assumption.
  - destruct (f (Ok a) x) as [a1|e] eqn:E.
    + eapply IH; [|exact H]. eapply Hstep; eauto.
    + exfalso. clear -Herr H. induction l as [|y l IH]; cbn in H; [discriminate|].
      rewrite Herr in H. auto.
Qed.

(* ---------- find_model / upd_model ---------- *)
Lemma find_model_In nm ms m : find_model nm ms = Some m -> In m ms /\ m_name m = nm.
Proof.
  unfold find_model. intro H. apply find_some in H as [H1 H2].
  apply str_eqb_spec in H2. auto.
Qed.

Lemma find_model_None nm ms : find_model nm ms = None <-> ~ In nm (map m_name ms).
Proof.
  unfold find_model. induction ms as [|m ms IH]; cbn; [tauto|].
  destruct (str_eqb (m_name m) nm) eqn:E.
  - apply str_eqb_spec in E. split; [discriminate|]. intros H. exfalso. apply H. auto.
  - apply str_eqb_false in E. rewrite IH. tauto.
Qed.

Lemma find_model_unique ms m :
  NoDup (map m_name ms) -> In m ms -> find_model (m_name m) ms = Some m.
Proof.
  unfold find_model. induction ms as [|x ms IH]; cbn; [tauto|].
  intros Hnd [->|Hin].
  - rewrite str_eqb_refl. reflexivity.
  - inversion Hnd; subst. destruct (str_eqb (m_name x) (m_name m)) eqn:E.
    + apply str_eqb_spec in E. exfalso. apply H1. rewrite E. apply in_map. assumption.
    + auto.
Qed.

Lemma find_model_some_iff nm ms : (exists m, find_model nm ms = Some m) <-> In nm (map m_name ms).
Proof.
  destruct (find_model nm ms) eqn:E.
  - split; [|eauto]. intros _. apply find_model_In in E as [H1 H2]. subst. apply in_map. assumption.
  - split; [intros [m H]; discriminate|]. intro H. apply find_model_None in E. contradiction.
Qed.

Lemma upd_model_names nm f ms :
  (forall m, m_name m = nm -> m_name (f m) = nm) -> map m_name (upd_model nm f ms) = map m_name ms.
Proof.
  intro Hf. unfold upd_model. rewrite map_map. apply map_ext. intro m.
  destruct (str_eqb (m_name m) nm) eqn:E; [|reflexivity]. apply str_eqb_spec in E. rewrite Hf; auto.
Qed.

Lemma find_model_upd nm f ms r :
  (forall m, m_name m = nm -> m_name (f m) = nm) ->
  find_model r (upd_model nm f ms) =
  match find_model r ms with
  | Some m => Some (if str_eqb (m_name m) nm then f m else m)
  | None => None
  end.
Proof.
  intro Hf. unfold find_model, upd_model. induction ms as [|m ms IH]; cbn; [reflexivity|].
  destruct (str_eqb (m_name m) nm) eqn:E.
  - pose proof E as E'. apply str_eqb_spec in E'. rewrite (Hf _ E'). rewrite <- E' at 1.
    destruct (str_eqb (m_name m) r); [rewrite E; reflexivity|exact IH].
  - destruct (str_eqb (m_name m) r); [rewrite E; reflexivity|exact IH].
Qed.

Lemma In_upd_model nm f ms m' :
  In m' (upd_model nm f ms) <->
  exists m, In m ms /\ m' = (if str_eqb (m_name m) nm then f m else m).
Proof.
  unfold upd_model. rewrite in_map_iff. split; intros [m [H1 H2]]; exists m; auto.
Qed.

Lemma find_model_app nm ms x :
  find_model nm (ms ++ [x]) =
  match find_model nm ms with Some m => Some m | None => if str_eqb (m_name x) nm then Some x else None end.
Proof.
  unfold find_model. induction ms as [|m ms IH]; cbn; [reflexivity|].
  destruct (str_eqb (m_name m) nm); [reflexivity|exact IH].
Qed.

(* ---------- ports ---------- *)
Lemma find_port_In p ps q : find_port p ps = Some q -> In q ps /\ p_name q = p.
Proof.
  unfold find_port. intro H. apply find_some in H as [H1 H2]. apply str_eqb_spec in H2. auto.
Qed.

Lemma find_port_None p ps : find_port p ps = None <-> ~ In p (map p_name ps).
Proof.
  unfold find_port. induction ps as [|q ps IH]; cbn; [tauto|].
  destruct (str_eqb (p_name q) p) eqn:E.
  - apply str_eqb_spec in E. split; [discriminate|]. intros H. exfalso. apply H. auto.
  - apply str_eqb_false in E. rewrite IH. tauto.
Qed.

Lemma find_port_unique ps q :
  NoDup (map p_name ps) -> In q ps -> find_port (p_name q) ps = Some q.
Proof.
  unfold find_port. induction ps as [|x ps IH]; cbn; [tauto|].
  intros Hnd [->|Hin].
  - rewrite str_eqb_refl. reflexivity.
  - inversion Hnd; subst. destruct (str_eqb (p_name x) (p_name q)) eqn:E.
    + apply str_eqb_spec in E. exfalso. apply H1. rewrite E. apply in_map. assumption.
    + auto.
Qed.

Lemma upd_port_names p f ps :
  (forall q, p_name (f q) = p_name q) -> map p_name (upd_port p f ps) = map p_name ps.
Proof.
  intro Hf. unfold upd_port. rewrite map_map. apply map_ext. intro q.
  destruct (str_eqb (p_name q) p); auto.
Qed.

Lemma In_upd_port p f ps q' :
  In q' (upd_port p f ps) <-> exists q, In q ps /\ q' = (if str_eqb (p_name q) p then f q else q).
Proof.
  unfold upd_port. rewrite in_map_iff. split; intros [q [H1 H2]]; exists q; auto.
Qed.

(* ---------- cables ---------- *)
Lemma find_cable_None c cs : find_cable c cs = None <-> ~ In c (map c_name cs).
Proof.
  unfold find_cable. induction cs as [|x cs IH]; cbn; [tauto|].
  destruct (str_eqb (c_name x) c) eqn:E.
  - apply str_eqb_spec in E. split; [discriminate|]. intros H. exfalso. apply H. auto.
  - apply str_eqb_false in E. rewrite IH. tauto.
Qed.

Lemma find_cable_In c cs x : find_cable c cs = Some x -> In x cs /\ c_name x = c.
Proof.
  unfold find_cable. intro H. apply find_some in H as [H1 H2]. apply str_eqb_spec in H2. auto.
Qed.

Lemma upd_cable_names c f cs : map c_name (upd_cable c f cs) = map c_name cs.
Proof.
  unfold upd_cable. rewrite map_map. apply map_ext. intro x.
  destruct (str_eqb (c_name x) c); reflexivity.
Qed.

(* ---------- nth / upd_nth ---------- *)
Lemma nth_error_upd_nth {A} k (f : A -> A) l i :
  nth_error (upd_nth k f l) i =
  if Nat.eqb i k then option_map f (nth_error l i) else nth_error l i.
Proof.
  revert k i. induction l as [|x l IH]; intros k i; cbn.
  - destruct k, i; cbn; try reflexivity; destruct (Nat.eqb i k); reflexivity.
  - destruct k, i; cbn; try reflexivity. apply IH.
Qed.

Lemma length_upd_nth {A} k (f : A -> A) l : length (upd_nth k f l) = length l.
Proof. revert k. induction l as [|x l IH]; intros [|k]; cbn; auto. Qed.

Lemma In_upd_nth {A} k (f : A -> A) l y :
  In y (upd_nth k f l) -> In y l \/ exists x, In x l /\ y = f x.
Proof.
  revert k. induction l as [|x l IH]; intros [|k]; cbn; try tauto.
  - intros [<-|H]; [right; eauto|auto].
  - intros [<-|H]; [auto|]. apply IH in H as [H|[z [H1 H2]]]; [auto|right; eauto].
Qed.

(* ---------- port bits ---------- *)
Lemma bits_of_In q p b : In (p, b) (bits_of q) <-> p = p_name q /\ b < p_width q.
Proof.
  unfold bits_of. rewrite in_map_iff. split.
  - intros [k [H1 H2]]. inversion H1; subst. apply in_seq in H2. split; [reflexivity|lia].
  - intros [-> H]. exists b. split; [reflexivity|]. apply in_seq. lia.
Qed.

Lemma all_pins_In m p b : In (p, b) (all_pins m) <-> port_bit m p b.
Proof.
  unfold all_pins, port_bit. rewrite in_flat_map. split.
  - intros [q [H1 H2]]. apply bits_of_In in H2 as [-> H2]. eauto.
  - intros [q [H1 [<- H2]]]. exists q. split; [assumption|]. apply bits_of_In. auto.
Qed.

Lemma NoDup_map_pair {A B} (a : A) (l : list B) : NoDup l -> NoDup (map (pair a) l).
Proof.
  induction 1; cbn; constructor; auto. rewrite in_map_iff. intros [y [H1 H2]]. inversion H1; subst. contradiction.
Qed.

Lemma all_pins_NoDup m : NoDup (map p_name (m_ports m)) -> NoDup (all_pins m).
Proof.
  unfold all_pins. induction (m_ports m) as [|q ps IH]; cbn; [constructor|].
  intro H. inversion H as [|? ? Hn Hd]; subst. apply NoDup_app_iff. repeat split.
  - unfold bits_of. apply NoDup_map_pair. apply seq_NoDup.
  - auto.
  - intros [p b] H1 H2. apply bits_of_In in H1 as [-> _]. apply in_flat_map in H2 as [q' [H4 H5]].
    apply bits_of_In in H5 as [H5 _]. apply Hn. rewrite H5. apply in_map. assumption.
Qed.

(* ---------- pins on wires ---------- *)
Lemma cable_pins_app a b : cable_pins (a ++ b) = cable_pins a ++ cable_pins b.
Proof. unfold cable_pins. rewrite flat_map_app, concat_app. reflexivity. Qed.

Lemma cable_pins_cons c cs : cable_pins (c :: cs) = concat (c_wires c) ++ cable_pins cs.
Proof. unfold cable_pins. cbn. rewrite concat_app. reflexivity. Qed.

Lemma add_to_wire_perm k pr ws : Permutation (concat (add_to_wire k pr ws)) (pr :: concat ws).
Proof.
  revert ws. induction k as [|k IH]; intros [|w ws]; cbn.
  - reflexivity.
  - rewrite <- app_assoc. cbn. symmetry. apply Permutation_middle.
  - apply (IH []).
  - rewrite IH. symmetry. apply Permutation_middle.
Qed.

Lemma upd_cable_notin c f cs : ~ In c (map c_name cs) -> upd_cable c f cs = cs.
Proof.
  unfold upd_cable. induction cs as [|x cs IH]; cbn; [reflexivity|]. intro H.
  destruct (str_eqb (c_name x) c) eqn:E.
  - apply str_eqb_spec in E. exfalso. apply H. auto.
  - f_equal. apply IH. tauto.
Qed.

(* updating the (unique) cable named c by a function that adds the pins [extra] *)
Lemma upd_cable_perm c f cs extra :
  NoDup (map c_name cs) -> In c (map c_name cs) ->
  (forall ws, Permutation (concat (f ws)) (extra ++ concat ws)) ->
  Permutation (cable_pins (upd_cable c f cs)) (extra ++ cable_pins cs).
Proof.
  intros Hnd Hin Hf. induction cs as [|x cs IH]; [contradiction|].
  inversion Hnd as [|? ? Hn Hd]; subst. cbn [upd_cable map].
  destruct (str_eqb (c_name x) c) eqn:E.
  - apply str_eqb_spec in E. subst c. fold (upd_cable (c_name x) f cs).
    rewrite (upd_cable_notin _ _ _ Hn). rewrite !cable_pins_cons. cbn [c_wires].
    rewrite Hf. rewrite app_assoc. reflexivity.
  - apply str_eqb_false in E. destruct Hin as [Hin|Hin]; [congruence|].
    fold (upd_cable c f cs). rewrite !cable_pins_cons. rewrite (IH Hd Hin).
    rewrite !app_assoc. apply Permutation_app_tail. apply Permutation_app_comm.
Qed.

Lemma find_cable_some_in c cs x : find_cable c cs = Some x -> In c (map c_name cs).
Proof. intro H. apply find_cable_In in H as [H1 H2]. subst. apply in_map. assumption. Qed.

Lemma existsb_pinref pr w : wire_has pr w = true <-> In pr w.
Proof.
  unfold wire_has. rewrite existsb_exists. split.
  - intros [x [H1 H2]]. assert (pr = x); [|subst; assumption].
    destruct pr, x; cbn in H2; try discriminate.
    + apply andb_true_iff in H2 as [H2 H3]. apply str_eqb_spec in H2. apply Nat.eqb_eq in H3. congruence.
    + apply andb_true_iff in H2 as [H2 H3]. apply andb_true_iff in H2 as [H2 H4].
      apply Nat.eqb_eq in H2, H3. apply str_eqb_spec in H4. congruence.
  - intro H. exists pr. split; [assumption|]. destruct pr; cbn; rewrite ?str_eqb_refl, ?Nat.eqb_refl; reflexivity.
Qed.

Lemma cables_have_In pr cs : cables_have pr cs = true <-> In pr (cable_pins cs).
Proof.
  unfold cables_have, cable_pins. rewrite existsb_exists. split.
  - intros [c [H1 H2]]. apply existsb_exists in H2 as [w [H2 H3]]. apply existsb_pinref in H3.
    apply in_concat. exists w. split; [|assumption]. apply in_flat_map. eauto.
  - intro H. apply in_concat in H as [w [H1 H2]]. apply in_flat_map in H1 as [c [H1 H3]].
    exists c. split; [assumption|]. apply existsb_exists. exists w. split; [assumption|].
    apply existsb_pinref. assumption.
Qed.

Lemma connected_In m pr : connected m pr = true <-> In pr (all_wire_pins m).
Proof.
  unfold connected, all_wire_pins. rewrite cable_pins_app, in_app_iff, orb_true_iff, !cables_have_In. tauto.
Qed.

(* an accepted document is a document of the tokenizer, and is segmented by the mode machine *)
Lemma classify_ok d ss : classify d = Ok ss -> classify_from MTop d = Ok ss.
Proof. unfold classify. destruct (tokenized d); [auto|discriminate]. Qed.
