(* C07 / C08 / C02: Definition.clone keeps the reference sets exact. The copies of the child
   instances keep the references of the originals and register with those definitions; the copy
   itself starts with an empty reference set; nothing else about references changes. *)
From Coq Require Import List Arith Bool Lia.
From RecordUpdate Require Import RecordSet.
From SV Require Import Base.Base IR.State IR.NS IR.Ops Xform.Clone Proofs.AssocX Proofs.Frame Proofs.Inv1a Proofs.Inv2a
  Proofs.InvW Proofs.Fresh Proofs.NsInv Proofs.CloneInv Proofs.RefK.
Import ListNotations RecordSetNotations.

Definition rd_same (s s' : state) : Prop := iref s' = iref s /\ drefs s' = drefs s.
Lemma rd_refl s : rd_same s s. Proof. split; reflexivity. Qed.
Lemma rd_trans a b c : rd_same a b -> rd_same b c -> rd_same a c.
Proof. intros [A1 A2] [B1 B2]. split; congruence. Qed.
Lemma rd_struct s s' : struct_eq s s' -> rd_same s s'.
Proof. intro H. split; [apply (se_iref _ _ H)|apply (se_drefs _ _ H)]. Qed.
Lemma rd_bind (r : R) f s : rd_same s (fst r) -> (forall s1, rd_same s1 (fst (f s1))) -> rd_same s (fst (r >>= f)).
Proof. destruct r as [s1 [x|]]; cbn; intros H1 H2; [exact H1|]. eapply rd_trans; [exact H1|apply H2]. Qed.
Lemma rd_fold_idsR f l : (forall s x, rd_same s (fst (f s x))) -> forall s, rd_same s (fst (fold_idsR f l s)).
Proof. intro H. induction l as [|x l IH]; intro s; cbn; [apply rd_refl|]. apply rd_bind; [apply H|apply IH]. Qed.
Lemma rd_fold_ids f l : (forall s x, rd_same s (f s x)) -> forall s, rd_same s (fold_ids f l s).
Proof. intro H. induction l as [|x l IH]; intro s; cbn; [apply rd_refl|]. eapply rd_trans; [apply H|apply IH]. Qed.

Lemma rd_clone_alloc s k : rd_same s (fst (clone_alloc s k)).
Proof.
  unfold clone_alloc, alloc. cbn zeta.
  set (sa := s <| next := S (next s) |> <| kind_of ::= fun f => upd f (next s) (Some k) |>).
  destruct (has_data k); cbn [fst]; [|split; reflexivity].
  pose proof (se_ns_create sa (next s)) as H. split; cbn; [apply (se_iref _ _ H)|apply (se_drefs _ _ H)].
Qed.

Definition RDf (f : SM -> id -> SM * id) : Prop := forall s m x s' m' x', f (s, m) x = ((s', m'), x') -> rd_same s s'.

Lemma rd_clone_each f : RDf f -> forall l s m s' m' l', clone_each f l (s, m) = ((s', m'), l') -> rd_same s s'.
Proof.
  intro Hf. induction l as [|x l IH]; intros s m s' m' l' E; cbn [clone_each] in E.
  - injection E as <- <- <-. apply rd_refl.
  - destruct (f (s, m) x) as [[s1 m1] x'] eqn:E1. destruct (clone_each f l (s1, m1)) as [[s2 m2] l2] eqn:E2.
    injection E as <- <- <-. eapply rd_trans; [apply (Hf _ _ _ _ _ _ E1)|apply (IH _ _ _ _ _ E2)].
Qed.

Lemma rd_pin_clone1 : RDf pin_clone1.
Proof.
  intros s m i s' m' i' E. unfold pin_clone1 in E. pose proof (rd_clone_alloc s KPin) as H. destruct (clone_alloc s KPin) as [s1 x].
  injection E as <- <- <-. cbn [fst] in *. eapply rd_trans; [exact H|]. split; reflexivity.
Qed.
Lemma rd_wire_clone1 : RDf wire_clone1.
Proof.
  intros s m i s' m' i' E. unfold wire_clone1 in E. pose proof (rd_clone_alloc s KWire) as H. destruct (clone_alloc s KWire) as [s1 x].
  injection E as <- <- <-. cbn [fst] in *. eapply rd_trans; [exact H|]. split; reflexivity.
Qed.
Lemma rd_fold_set_par r p l : forall s, rd_same s (fold_ids (fun s i => set_par s r i p) l s).
Proof. apply rd_fold_ids. intros s x. split; reflexivity. Qed.
Lemma rd_port_clone1 : RDf port_clone1.
Proof.
  intros s m p s' m' p' E. unfold port_clone1 in E. pose proof (rd_clone_alloc s KPort) as H. destruct (clone_alloc s KPort) as [s1 x].
  match type of E with context [clone_each pin_clone1 ?l ?sm] => destruct (clone_each pin_clone1 l sm) as [[s2 m2] pins'] eqn:E2 end.
  apply (rd_clone_each pin_clone1 rd_pin_clone1) in E2. injection E as <- <- <-. cbn [fst] in *.
  eapply rd_trans; [exact H|]. eapply rd_trans; [exact E2|].
  eapply rd_trans; [|split; reflexivity].
  eapply rd_trans; [|apply rd_fold_set_par]. split; reflexivity.
Qed.
Lemma rd_cable_clone1 : RDf cable_clone1.
Proof.
  intros s m p s' m' p' E. unfold cable_clone1 in E. pose proof (rd_clone_alloc s KCable) as H. destruct (clone_alloc s KCable) as [s1 x].
  match type of E with context [clone_each wire_clone1 ?l ?sm] => destruct (clone_each wire_clone1 l sm) as [[s2 m2] ws'] eqn:E2 end.
  apply (rd_clone_each wire_clone1 rd_wire_clone1) in E2. injection E as <- <- <-. cbn [fst] in *.
  eapply rd_trans; [exact H|]. eapply rd_trans; [exact E2|].
  eapply rd_trans; [|split; reflexivity].
  eapply rd_trans; [|apply rd_fold_set_par]. split; reflexivity.
Qed.
Lemma rd_port_rr m s p : rd_same s (fst (port_rr m s p)).
Proof. unfold port_rr. apply rd_fold_idsR. intros s1 i. destruct (mwire m (ipwire s1 i)); split; reflexivity. Qed.
Lemma rd_cable_rr m s c : rd_same s (fst (cable_rr m s c)).
Proof. unfold cable_rr. apply rd_fold_idsR. intros s1 w. destruct (map_opt _ _); split; reflexivity. Qed.
Lemma rd_inst_rr_def m s x : rd_same s (fst (inst_rr_def m s x)).
Proof. unfold inst_rr_def. destruct (map_opt _ _); split; reflexivity. Qed.

(* Instance._clone: the copy references what the original references *)
Lemma inst_clone1_ref s m x s' m' x' : inst_clone1 (s, m) x = ((s', m'), x') ->
  x' = next s /\ next s' = S (next s) /\ drefs s' = drefs s /\ iref s' = upd (iref s) (next s) (iref s x).
Proof.
  intro E. unfold inst_clone1 in E. destruct (clone_alloc s KInstance) as [s1 a] eqn:Ea.
  destruct (clone_alloc_kp s KInstance s1 a Ea) as [Hx [Hn _]]. pose proof (rd_clone_alloc s KInstance) as [Hi Hd]. rewrite Ea in Hi, Hd.
  cbn [fst] in Hi, Hd. injection E as <- <- <-. subst a. split; [reflexivity|]. split; [exact Hn|]. split; [exact Hd|].
  cbn. rewrite Hi. reflexivity.
Qed.

Lemma clone_each_inst_ref : forall l s m s' m' l',
  (forall x, In x l -> x < next s) -> clone_each inst_clone1 l (s, m) = ((s', m'), l') ->
  next s <= next s' /\ drefs s' = drefs s /\ (forall y, y < next s -> iref s' y = iref s y) /\
  (forall y e, iref s' y = Some e -> iref s y = Some e \/ (In y l' /\ exists x, In x l /\ iref s x = Some e)) /\
  (forall y, In y l' -> exists x, In x l /\ iref s' y = iref s x).
Proof.
  induction l as [|x l IH]; intros s m s' m' l' Hl E; cbn [clone_each] in E.
  - injection E as <- <- <-. split; [apply Nat.le_refl|]. split; [reflexivity|]. split; [reflexivity|].
    split; [intros; left; assumption|intros y []].
  - destruct (inst_clone1 (s, m) x) as [[s1 m1] x'] eqn:E1. destruct (inst_clone1_ref _ _ _ _ _ _ E1) as [Hx [Hn [Hd Hi]]].
    destruct (clone_each inst_clone1 l (s1, m1)) as [[s2 m2] l2] eqn:E2.
    assert (Hl1 : forall x0, In x0 l -> x0 < next s1) by (intros x0 H0; rewrite Hn; pose proof (Hl x0 (or_intror H0)); lia).
    destruct (IH s1 m1 s2 m2 l2 Hl1 E2) as [N2 [D2 [I2 [R2 Q2]]]].
    injection E as <- <- <-.
    assert (Hold : forall y, y < next s -> iref s1 y = iref s y).
    { intros y Hy. rewrite Hi. unfold upd. replace (Nat.eqb y (next s)) with false by (symmetry; apply Nat.eqb_neq; lia). reflexivity. }
    split; [lia|]. split; [congruence|]. split; [intros y Hy; rewrite I2 by lia; apply Hold; exact Hy|]. split.
    + intros y e Hy. destruct (R2 y e Hy) as [H1|[H1 [x0 [H2 H3]]]].
      * rewrite Hi in H1. unfold upd in H1. destruct (Nat.eqb_spec y (next s)) as [->|Hne]; [|left; exact H1].
        right. split; [left; exact Hx|]. exists x. split; [left; reflexivity|exact H1].
      * right. split; [right; exact H1|]. exists x0. split; [right; exact H2|]. rewrite <- (Hold x0); [exact H3|]. apply Hl. right. exact H2.
    + intros y [Hy|Hy].
      * subst y x'. exists x. split; [left; reflexivity|]. rewrite I2 by lia. rewrite Hi. apply upd_same.
      * destruct (Q2 y Hy) as [x0 [H2 H3]]. exists x0. split; [right; exact H2|]. rewrite H3. apply Hold. apply Hl. right. exact H2.
Qed.

(* registration of the copies with the definitions they reference *)
Lemma register_children_spec : forall L s s',
  fold_idsR register_child L s = (s', None) ->
  iref s' = iref s /\ kids s' = kids s /\ par s' = par s /\ next s' = next s /\ kind_of s' = kind_of s /\
  (forall n, In n L -> iref s n <> None) /\
  (forall e n, In n (drefs s' e) <-> In n (drefs s e) \/ (In n L /\ iref s n = Some e)) /\
  (forall e, NoDup (drefs s e) -> NoDup (drefs s' e)).
Proof.
  induction L as [|x L IH]; intros s s' E; cbn [fold_idsR] in E.
  - injection E as <-. split; [reflexivity|]. split; [reflexivity|]. split; [reflexivity|]. split; [reflexivity|]. split; [reflexivity|].
    split; [intros n []|]. split; [intros e n; cbn; tauto|intros e H; exact H].
  - unfold register_child in E at 1. destruct (iref s x) as [e0|] eqn:Ex; cbn [bindR ret raise] in E; [|discriminate].
    set (s1 := set_drefs s e0 (set_add x (drefs s e0))) in E.
    destruct (IH s1 s' E) as [A [B [C [D [K [N [M ND]]]]]]]. split; [exact A|]. split; [exact B|]. split; [exact C|]. split; [exact D|]. split; [exact K|].
    split; [|split].
    + intros n [<-|Hn]; [rewrite Ex; discriminate|apply (N n Hn)].
    + intros e n. rewrite M. unfold s1. cbn. unfold upd. destruct (Nat.eqb_spec e e0) as [->|Hne].
      * rewrite set_add_In. split.
        -- intros [[->|H]|[H1 H2]]; [right; split; [left; reflexivity|exact Ex]|left; exact H|right; split; [right; exact H1|exact H2]].
        -- intros [H|[[<-|H1] H2]]; [left; right; exact H|left; left; reflexivity|right; split; assumption].
      * split.
        -- intros [H|[H1 H2]]; [left; exact H|right; split; [right; exact H1|exact H2]].
        -- intros [H|[[<-|H1] H2]]; [left; exact H|rewrite Ex in H2; injection H2 as ->; contradiction|right; split; assumption].
    + intros e He. apply ND. unfold s1. cbn. unfold upd. destruct (Nat.eqb e e0) eqn:Ee; [|exact He].
      apply Nat.eqb_eq in Ee. subst e0. apply set_add_NoDup. exact He.
Qed.

(* ---- Definition._clone: references after the copy ---- *)
Lemma def_clone1_ref s m d s' m' d' :
  Above s -> ParLt s -> d < next s -> (forall x, In x (kids s RChildren d) -> x < next s) ->
  def_clone1 (s, m) d = ((s', m', d'), None) ->
  d' = next s /\ next s < next s' /\
  drefs s' = upd (drefs s) d' (drefs s d) /\
  (forall y, y < next s -> iref s' y = iref s y) /\
  (forall y e, iref s' y = Some e -> iref s y = Some e \/ (In y (kids s' RChildren d') /\ exists x, In x (kids s RChildren d) /\ iref s x = Some e)) /\
  (forall y, In y (kids s' RChildren d') -> exists x, iref s' y = iref s x).
Proof.
  intros Hab Hpl Hd Hch E. unfold def_clone1 in E.
  destruct (clone_alloc s KDefinition) as [s1 x] eqn:Ea.
  destruct (clone_alloc_kp s KDefinition s1 x Ea) as [Hx [Hn1 [Hk1 Hp1]]].
  destruct (above_alloc s KDefinition s1 x Hab Hpl Ea) as [Ab1 Pl1].
  pose proof (rd_clone_alloc s KDefinition) as R1. rewrite Ea in R1. cbn [fst] in R1.
  remember (next s) as a eqn:Ea0. subst x.
  remember (copy_data s1 d a) as s1c eqn:Es1c.
  assert (Ab1c : Above s1c) by (subst s1c; exact Ab1). assert (Pl1c : ParLt s1c) by (subst s1c; exact Pl1).
  assert (R1c : rd_same s s1c) by (subst s1c; exact R1).
  assert (Hn1c : next s1c = S a) by (subst s1c; exact Hn1).
  assert (Hk1c : kids s1c = kids s) by (subst s1c; exact Hk1).
  match type of E with context [clone_each port_clone1 ?l ?sm] => destruct (clone_each port_clone1 l sm) as [[s2 m2] ports'] eqn:E2 end.
  destruct (clone_each_bundle port_clone1 port_clone1_bundle _ _ _ _ _ _ Ab1c Pl1c E2) as [L2 [F2 [_ [_ [_ [Ab2 Pl2]]]]]].
  pose proof (rd_clone_each port_clone1 rd_port_clone1 _ _ _ _ _ _ E2) as R2.
  match type of E with context [clone_each cable_clone1 ?l ?sm] => destruct (clone_each cable_clone1 l sm) as [[s3 m3] cables'] eqn:E3 end.
  destruct (clone_each_bundle cable_clone1 cable_clone1_bundle _ _ _ _ _ _ Ab2 Pl2 E3) as [L3 [F3 [_ [_ [_ [Ab3 Pl3]]]]]].
  pose proof (rd_clone_each cable_clone1 rd_cable_clone1 _ _ _ _ _ _ E3) as R3.
  match type of E with context [clone_each inst_clone1 ?l ?sm] => destruct (clone_each inst_clone1 l sm) as [[s4 m4] children'] eqn:E4 end.
  assert (R13 : rd_same s s3) by (eapply rd_trans; [exact R1c|eapply rd_trans; eassumption]).
  assert (Hk3 : kids s3 RChildren d = kids s RChildren d).
  { destruct (F3 RChildren d ltac:(lia)) as [-> _]. destruct (F2 RChildren d ltac:(lia)) as [-> _]. rewrite Hk1c. reflexivity. }
  assert (Hl3 : forall x, In x (kids s3 RChildren d) -> x < next s3).
  { intros x Hx. rewrite Hk3 in Hx. apply Hch in Hx. lia. }
  destruct (clone_each_inst_ref _ _ _ _ _ _ Hl3 E4) as [N4 [D4 [I4 [Q4 P4]]]].
  destruct R13 as [Ri3 Rd3].
  set (s5 := set_drefs (set_kids (set_kids (set_kids s4 RPorts a ports') RCables a cables') RChildren a children') a (drefs s4 d)) in *.
  set (rr := fold_idsR (fun s p' => port_rr m4 (set_par s RPorts p' (Some a)) p') ports' s5 >>= fun s6 =>
             fold_idsR (fun s c' => cable_rr m4 (set_par s RCables c' (Some a)) c') cables' s6 >>= fun s7 =>
             fold_idsR (fun s x' => inst_rr_def m4 (set_par s RChildren x' (Some a)) x') children' s7) in *.
  assert (Hrd : rd_same s5 (fst rr)).
  { unfold rr. apply rd_bind; [apply rd_fold_idsR; intros s6 p'; eapply rd_trans; [|apply rd_port_rr]; split; reflexivity|].
    intro s6. apply rd_bind; [apply rd_fold_idsR; intros s7 c'; eapply rd_trans; [|apply rd_cable_rr]; split; reflexivity|].
    intro s7. apply rd_fold_idsR. intros s8 x'. eapply rd_trans; [|apply rd_inst_rr_def]. split; reflexivity. }
  assert (Hrr : snd rr = None -> kids (fst rr) = kids s5 /\ next (fst rr) = next s5).
  { unfold rr.
    destruct (fold_idsR (fun s p' => port_rr m4 (set_par s RPorts p' (Some a)) p') ports' s5) as [s6 [e|]] eqn:Ef1; cbn [bindR fst snd]; [discriminate|].
    destruct (fold_rr_par_E (port_rr m4) RPorts a (kpsame_port_rr m4) ports' s5 s6 Ef1) as [K6 [N6 _]].
    destruct (fold_idsR (fun s c' => cable_rr m4 (set_par s RCables c' (Some a)) c') cables' s6) as [s7 [e|]] eqn:Ef2; cbn [bindR fst snd]; [discriminate|].
    destruct (fold_rr_par_E (cable_rr m4) RCables a (kpsame_cable_rr m4) cables' s6 s7 Ef2) as [K7 [N7 _]].
    destruct (fold_idsR (fun s x' => inst_rr_def m4 (set_par s RChildren x' (Some a)) x') children' s7) as [s8 [e|]] eqn:Ef3; cbn [fst snd]; [discriminate|].
    destruct (fold_rr_par_E (inst_rr_def m4) RChildren a (kpsame_inst_rr_def m4) children' s7 s8 Ef3) as [K8 [N8 _]].
    intros _. split; congruence. }
  injection E as <- <- <- Esnd. change (snd rr = None) in Esnd. destruct (Hrr Esnd) as [KF NF].
  change (a = a /\ a < next (fst rr) /\ drefs (fst rr) = upd (drefs s) a (drefs s d) /\
          (forall y, y < a -> iref (fst rr) y = iref s y) /\
          (forall y e, iref (fst rr) y = Some e -> iref s y = Some e \/ (In y (kids (fst rr) RChildren a) /\ exists x, In x (kids s RChildren d) /\ iref s x = Some e)) /\
          (forall y, In y (kids (fst rr) RChildren a) -> exists x, iref (fst rr) y = iref s x)).
  destruct Hrd as [HiF HdF].
  assert (Hkc : kids (fst rr) RChildren a = children').
  { rewrite KF. unfold s5. cbn. apply upd_same. }
  assert (Hi5 : iref s5 = iref s4) by reflexivity.
  split; [reflexivity|]. split; [rewrite NF; change (next s5) with (next s4); lia|]. split.
  { rewrite HdF. unfold s5. cbn. rewrite D4, Rd3. reflexivity. }
  split; [intros y Hy; rewrite HiF, Hi5, I4 by lia; rewrite Ri3; reflexivity|]. split.
  - intros y e Hy. rewrite HiF, Hi5 in Hy. destruct (Q4 y e Hy) as [H|[H1 [x0 [H2 H3]]]]; [left; rewrite <- Ri3; exact H|].
    right. rewrite Hkc. split; [exact H1|]. exists x0. split; [rewrite <- Hk3; exact H2|rewrite <- Ri3; exact H3].
  - intros y Hy. rewrite Hkc in Hy. destruct (P4 y Hy) as [x0 [_ H3]]. exists x0. rewrite HiF, Hi5, H3, Ri3. reflexivity.
Qed.

(* ---- kinds of the objects that existed before the call are unchanged ---- *)
Definition KM (s s' : state) : Prop := next s <= next s' /\ forall x, x < next s -> kind_of s' x = kind_of s x.
Lemma km_refl s : KM s s. Proof. split; [apply Nat.le_refl|intros; reflexivity]. Qed.
Lemma km_trans a b c : KM a b -> KM b c -> KM a c.
Proof. intros [A1 A2] [B1 B2]. split; [lia|]. intros x Hx. rewrite B2 by lia. apply A2. exact Hx. Qed.
Lemma km_same s s' : kind_of s' = kind_of s -> next s' = next s -> KM s s'.
Proof. intros A C. split; [lia|]. intros x _. rewrite A. reflexivity. Qed.
Lemma km_struct s s' : struct_eq s s' -> KM s s'.
Proof. intro H. apply km_same; [apply (se_kind _ _ H)|apply (se_next _ _ H)]. Qed.
Lemma km_bind (r : R) f s : KM s (fst r) -> (forall s1, KM s1 (fst (f s1))) -> KM s (fst (r >>= f)).
Proof. destruct r as [s1 [x|]]; cbn; intros H1 H2; [exact H1|]. eapply km_trans; [exact H1|apply H2]. Qed.
Lemma km_fold_idsR f l : (forall s x, KM s (fst (f s x))) -> forall s, KM s (fst (fold_idsR f l s)).
Proof. intro H. induction l as [|x l IH]; intro s; cbn; [apply km_refl|]. apply km_bind; [apply H|apply IH]. Qed.
Lemma km_fold_ids f l : (forall s x, KM s (f s x)) -> forall s, KM s (fold_ids f l s).
Proof. intro H. induction l as [|x l IH]; intro s; cbn; [apply km_refl|]. eapply km_trans; [apply H|apply IH]. Qed.

Lemma km_clone_alloc s k : KM s (fst (clone_alloc s k)).
Proof.
  unfold clone_alloc, alloc. cbn zeta.
  set (sa := s <| next := S (next s) |> <| kind_of ::= fun f => upd f (next s) (Some k) |>).
  assert (Ha : KM s sa).
  { split; [cbn; lia|]. intros x Hx. cbn. unfold upd.
    replace (Nat.eqb x (next s)) with false by (symmetry; apply Nat.eqb_neq; lia). reflexivity. }
  destruct (has_data k); cbn [fst]; [|exact Ha].
  eapply km_trans; [exact Ha|]. pose proof (se_ns_create sa (next s)) as H.
  apply km_same; cbn; [apply (se_kind _ _ H)|apply (se_next _ _ H)].
Qed.

Definition KMf (f : SM -> id -> SM * id) : Prop := forall s m x s' m' x', f (s, m) x = ((s', m'), x') -> KM s s'.

Lemma km_clone_each f : KMf f -> forall l s m s' m' l', clone_each f l (s, m) = ((s', m'), l') -> KM s s'.
Proof.
  intro Hf. induction l as [|x l IH]; intros s m s' m' l' E; cbn [clone_each] in E.
  - injection E as <- <- <-. apply km_refl.
  - destruct (f (s, m) x) as [[s1 m1] x'] eqn:E1. destruct (clone_each f l (s1, m1)) as [[s2 m2] l2] eqn:E2.
    injection E as <- <- <-. eapply km_trans; [apply (Hf _ _ _ _ _ _ E1)|apply (IH _ _ _ _ _ E2)].
Qed.

Lemma km_pin_clone1 : KMf pin_clone1.
Proof.
  intros s m i s' m' i' E. unfold pin_clone1 in E. pose proof (km_clone_alloc s KPin) as H. destruct (clone_alloc s KPin) as [s1 x].
  injection E as <- <- <-. cbn [fst] in *. eapply km_trans; [exact H|]. apply km_same; reflexivity.
Qed.
Lemma km_wire_clone1 : KMf wire_clone1.
Proof.
  intros s m i s' m' i' E. unfold wire_clone1 in E. pose proof (km_clone_alloc s KWire) as H. destruct (clone_alloc s KWire) as [s1 x].
  injection E as <- <- <-. cbn [fst] in *. eapply km_trans; [exact H|]. apply km_same; reflexivity.
Qed.
Lemma km_inst_clone1 : KMf inst_clone1.
Proof.
  intros s m i s' m' i' E. unfold inst_clone1 in E. pose proof (km_clone_alloc s KInstance) as H. destruct (clone_alloc s KInstance) as [s1 x].
  injection E as <- <- <-. cbn [fst] in *. eapply km_trans; [exact H|]. apply km_same; reflexivity.
Qed.
Lemma km_fold_set_par r p l : forall s, KM s (fold_ids (fun s i => set_par s r i p) l s).
Proof. apply km_fold_ids. intros s x. apply km_same; reflexivity. Qed.
Lemma km_port_clone1 : KMf port_clone1.
Proof.
  intros s m p s' m' p' E. unfold port_clone1 in E. pose proof (km_clone_alloc s KPort) as H. destruct (clone_alloc s KPort) as [s1 x].
  match type of E with context [clone_each pin_clone1 ?l ?sm] => destruct (clone_each pin_clone1 l sm) as [[s2 m2] pins'] eqn:E2 end.
  apply (km_clone_each pin_clone1 km_pin_clone1) in E2. injection E as <- <- <-. cbn [fst] in *.
  eapply km_trans; [exact H|]. eapply km_trans; [exact E2|].
  eapply km_trans; [|apply km_same; reflexivity].
  eapply km_trans; [|apply km_fold_set_par]. apply km_same; reflexivity.
Qed.
Lemma km_cable_clone1 : KMf cable_clone1.
Proof.
  intros s m p s' m' p' E. unfold cable_clone1 in E. pose proof (km_clone_alloc s KCable) as H. destruct (clone_alloc s KCable) as [s1 x].
  match type of E with context [clone_each wire_clone1 ?l ?sm] => destruct (clone_each wire_clone1 l sm) as [[s2 m2] ws'] eqn:E2 end.
  apply (km_clone_each wire_clone1 km_wire_clone1) in E2. injection E as <- <- <-. cbn [fst] in *.
  eapply km_trans; [exact H|]. eapply km_trans; [exact E2|].
  eapply km_trans; [|apply km_same; reflexivity].
  eapply km_trans; [|apply km_fold_set_par]. apply km_same; reflexivity.
Qed.
Lemma km_port_rr m s p : KM s (fst (port_rr m s p)).
Proof. unfold port_rr. apply km_fold_idsR. intros s1 i. destruct (mwire m (ipwire s1 i)); apply km_same; reflexivity. Qed.
Lemma km_cable_rr m s c : KM s (fst (cable_rr m s c)).
Proof. unfold cable_rr. apply km_fold_idsR. intros s1 w. destruct (map_opt _ _); apply km_same; reflexivity. Qed.
Lemma km_inst_rr_def m s x : KM s (fst (inst_rr_def m s x)).
Proof. unfold inst_rr_def. destruct (map_opt _ _); apply km_same; reflexivity. Qed.

Lemma km_def_clone1 s m d s' m' d' e : def_clone1 (s, m) d = ((s', m', d'), e) -> KM s s'.
Proof.
  intro E. unfold def_clone1 in E. pose proof (km_clone_alloc s KDefinition) as H. destruct (clone_alloc s KDefinition) as [s1 a].
  cbn [fst] in H.
  match type of E with context [clone_each port_clone1 ?l ?sm] => destruct (clone_each port_clone1 l sm) as [[s2 m2] ports'] eqn:E2 end.
  match type of E with context [clone_each cable_clone1 ?l ?sm] => destruct (clone_each cable_clone1 l sm) as [[s3 m3] cables'] eqn:E3 end.
  match type of E with context [clone_each inst_clone1 ?l ?sm] => destruct (clone_each inst_clone1 l sm) as [[s4 m4] children'] eqn:E4 end.
  apply (km_clone_each port_clone1 km_port_clone1) in E2. apply (km_clone_each cable_clone1 km_cable_clone1) in E3.
  apply (km_clone_each inst_clone1 km_inst_clone1) in E4.
  injection E as <- _ _ _.
  eapply km_trans; [exact H|]. eapply km_trans; [apply (km_same s1 (copy_data s1 d a)); reflexivity|].
  eapply km_trans; [exact E2|]. eapply km_trans; [exact E3|]. eapply km_trans; [exact E4|].
  eapply km_trans; [|apply km_bind; [apply km_fold_idsR; intros s6 p'; eapply km_trans; [|apply km_port_rr]; apply km_same; reflexivity|]].
  - apply km_same; reflexivity.
  - intro s6. apply km_bind; [apply km_fold_idsR; intros s7 c'; eapply km_trans; [|apply km_cable_rr]; apply km_same; reflexivity|].
    intro s7. apply km_fold_idsR. intros s8 x'. eapply km_trans; [|apply km_inst_rr_def]. apply km_same; reflexivity.
Qed.

Lemma km_register_child s x : KM s (fst (register_child s x)).
Proof. unfold register_child. destruct (iref s x); apply km_same; reflexivity. Qed.
Lemma km_reapply s c : KM s (fst (reapply s c)).
Proof.
  unfold reapply. destruct (sassoc str_NS (data s c)); [|apply km_refl].
  apply km_bind; [apply km_struct, se_dict_del|intro s1; apply km_struct, se_dict_set].
Qed.

Lemma km_clone_definition s d : KM s (fst (fst (clone_definition s d))).
Proof.
  unfold clone_definition. destruct (def_clone1 (s, []) d) as [[[s1 m1] d'] e] eqn:E.
  pose proof (km_def_clone1 _ _ _ _ _ _ _ E) as H. destruct e as [e|]; cbn [fst] in *; [exact H|].
  eapply km_trans; [exact H|]. apply km_bind; [apply km_fold_idsR; intros; apply km_register_child|].
  intro s2. eapply km_trans; [|apply km_reapply]. apply km_same; reflexivity.
Qed.


Lemma rd_reapply s c : rd_same s (fst (reapply s c)).
Proof.
  unfold reapply. destruct (sassoc str_NS (data s c)); [|apply rd_refl].
  apply rd_bind; [apply rd_struct, se_dict_del|intro s1; apply rd_struct, se_dict_set].
Qed.

Lemma children_lt s d : Inv1a s -> Above s -> forall x, In x (kids s RChildren d) -> x < next s.
Proof.
  intros I Ab x Hx. apply (i1_kids _ I) in Hx. destruct (Nat.lt_ge_cases x (next s)) as [H|H]; [exact H|].
  rewrite (proj2 (Ab RChildren x H)) in Hx. discriminate.
Qed.

(* Definition.clone keeps the reference sets exact, and references keep pointing at allocated objects *)
Theorem clone_definition_inv2a s d :
  Inv1a s -> Inv2a s -> Fresh s -> RefK s -> d < next s ->
  snd (fst (clone_definition s d)) = None ->
  Inv2a (fst (fst (clone_definition s d))) /\ RefK (fst (fst (clone_definition s d))).
Proof.
  intros I1 I2 F K Hd. pose proof (above_of_fresh s F) as Ab. pose proof (parlt_of_inv1a s I1 Ab) as Pl.
  pose proof (km_clone_definition s d) as [_ KMo].
  unfold clone_definition in *. destruct (def_clone1 (s, []) d) as [[[s1 m1] d'] [e|]] eqn:E; cbn [fst snd] in *; [discriminate|].
  destruct (def_clone1_ref s [] d s1 m1 d' Ab Pl Hd (children_lt s d I1 Ab) E) as [Hd' [Hn [Hdr [Hio [Hin Hch]]]]].
  destruct (fold_idsR register_child (kids s1 RChildren d') s1) as [s2 [e|]] eqn:Ef; cbn [bindR fst snd] in *; [discriminate|].
  destruct (register_children_spec _ _ _ Ef) as [A [_ [_ [_ [_ [_ [M ND]]]]]]].
  intros _. destruct (rd_reapply (set_drefs s2 d' []) d') as [Ri Rd].
  set (sE := fst (reapply (set_drefs s2 d' []) d')) in *.
  assert (HiE : iref sE = iref s1) by (rewrite Ri; cbn; exact A).
  assert (HdE : forall e, drefs sE e = if Nat.eqb e d' then [] else drefs s2 e) by (intro e; rewrite Rd; reflexivity).
  assert (Hnew : forall y e, iref s1 y = Some e -> exists x, iref s x = Some e).
  { intros y e Hy. destruct (Hin y e Hy) as [H|[_ [x [_ H]]]]; [exists y; exact H|exists x; exact H]. }
  split.
  - constructor.
    + intros n e. rewrite HdE, HiE. destruct (Nat.eqb_spec e d') as [->|Hne].
      * split; [intros []|]. intro Hy. destruct (Hnew n d' Hy) as [x Hx]. pose proof (ref_lt s x d' K F Hx). lia.
      * rewrite M. rewrite Hdr. unfold upd. replace (Nat.eqb e d') with false by (symmetry; apply Nat.eqb_neq; exact Hne). split.
        -- intros [H|[_ H]]; [|exact H]. apply (i2_ref _ I2) in H.
           assert (Hlt : n < next s). { destruct (Nat.lt_ge_cases n (next s)) as [Hl|Hg]; [exact Hl|]. rewrite (f_iref _ F n Hg) in H. discriminate. }
           rewrite (Hio n Hlt). exact H.
        -- intro Hy. destruct (Hin n e Hy) as [H|[H _]]; [left; apply (i2_ref _ I2); exact H|right; split; assumption].
    + intro e. rewrite HdE. destruct (Nat.eqb_spec e d') as [->|Hne]; [constructor|]. apply ND. rewrite Hdr. unfold upd.
      replace (Nat.eqb e d') with false by (symmetry; apply Nat.eqb_neq; exact Hne). apply (i2_nodup _ I2).
  - intros y e Hy. rewrite HiE in Hy. destruct (Hnew y e Hy) as [x Hx]. pose proof (ref_lt s x e K F Hx) as Hlt.
    rewrite (KMo e Hlt). apply (K x e Hx).
Qed.
