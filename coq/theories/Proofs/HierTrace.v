(* C12: the work-list closure of get_hwires(selection=ALL), instantiated on hierarchical wires and
   pins, computes exactly the class of the start wire under the connectivity relation [conn]
   (Hier/Conn.v); members of one net give the same answer; the narrow selections return the one
   wire on that side of a hierarchical pin; pins of a hierarchical wire. *)
From Coq Require Import List Arith Bool Lia Relations.
From SV Require Import Base.Base IR.State Proofs.Inv1a Proofs.Inv2a Hier.Paths Hier.Enum Hier.Trace Hier.Conn
  Proofs.HierValid Proofs.HierEnum Proofs.HierClosure.
Import ListNotations.

(* ---- value equality of references ---- *)
Lemma href_eqb_spec : forall a b, href_eqb a b = true <-> a = b.
Proof.
  induction a as [|x a IH]; intros [|y b]; cbn; split; intro H; try reflexivity; try discriminate.
  - apply andb_true_iff in H as [H1 H2]. apply Nat.eqb_eq in H1. apply IH in H2. congruence.
  - inversion H; subst. rewrite Nat.eqb_refl. cbn. apply IH. reflexivity.
Qed.

Lemma href_mem_In : forall h l, href_mem h l = true <-> In h l.
Proof.
  intros h l. induction l as [|k l IH]; cbn; [split; [discriminate|tauto]|].
  rewrite orb_true_iff, href_eqb_spec, IH. split; intros [H|H]; auto.
Qed.

Lemma href_union_In : forall b a h, In h (href_union a b) <-> In h a \/ In h b.
Proof.
  induction b as [|k b IH]; intros a h; cbn; [tauto|].
  destruct (href_mem k a) eqn:E.
  - rewrite IH. apply href_mem_In in E. split; [tauto|]. intros [H|[<-|H]]; auto.
  - rewrite IH, in_app_iff. cbn. tauto.
Qed.

Lemma filter_all_true {T} (f : T -> bool) l : (forall x, In x l -> f x = true) -> filter f l = l.
Proof.
  induction l as [|x l IH]; cbn; intro H; [reflexivity|].
  rewrite (H x (or_introl eq_refl)). f_equal. apply IH. intros; apply H; right; assumption.
Qed.

Section Instantiation.
  Variable s : state.
  Variable t : id.
  Hypothesis I1 : Inv1a s.
  Hypothesis I2 : Inv2a s.
  Hypothesis K : WFk s.
  Hypothesis C : WFc s.

  Let GA := hpin_occ s t.
  Let GB := hwire_occ s t.
  Let nbA := nb_sel s SAll.
  Let pinsB := hpins_of_hwire s.

  (* small facts *)
  Lemma kids_par r p c : In c (kids s r p) <-> par s r c = Some p.
  Proof. apply (i1_kids s I1). Qed.

  Lemma cables_of_par x c : In c (cables_of s x) <-> exists d, iref s x = Some d /\ par s RCables c = Some d.
  Proof.
    unfold cables_of. destruct (iref s x) as [d|].
    - rewrite kids_par. split; [intro H; exists d; auto|intros (d' & E & H); congruence].
    - split; [intros []|intros (d & E & _); discriminate].
  Qed.

  Lemma ports_of_par x q : In q (ports_of s x) <-> exists d, iref s x = Some d /\ par s RPorts q = Some d.
  Proof.
    unfold ports_of. destruct (iref s x) as [d|].
    - rewrite kids_par. split; [intro H; exists d; auto|intros (d' & E & H); congruence].
    - split; [intros []|intros (d & E & _); discriminate].
  Qed.

  Lemma sub_par x c : In c (sub s x) <-> exists d, iref s x = Some d /\ par s RChildren c = Some d.
  Proof.
    unfold sub. destruct (iref s x) as [d|].
    - rewrite kids_par. split; [intro H; exists d; auto|intros (d' & E & H); congruence].
    - split; [intros []|intros (d & E & _); discriminate].
  Qed.

  Lemma in_hpin_of_wpin hinst p a :
    In a (hpin_of_wpin s hinst p) <->
    (exists i q, p = PIn i /\ par s RPins i = Some q /\ a = i :: q :: hinst) \/
    (exists n i q, p = POut n i /\ par s RPins i = Some q /\ a = i :: q :: n :: hinst).
  Proof.
    destruct p as [i|n i|]; cbn.
    - destruct (par s RPins i) as [q|] eqn:E; cbn.
      + split.
        * intros [<-|[]]. left. exists i, q. auto.
        * intros [(i' & q' & Hp & Hq & ->)|(n & i' & q' & Hp & _)]; [|discriminate].
          inversion Hp; subst. rewrite E in Hq. inversion Hq. left; reflexivity.
      + split; [intros []|].
        intros [(i' & q' & Hp & Hq & _)|(n & i' & q' & Hp & _)]; [|discriminate].
        inversion Hp; subst. congruence.
    - destruct (par s RPins i) as [q|] eqn:E; cbn.
      + split.
        * intros [<-|[]]. right. exists n, i, q. auto.
        * intros [(i' & q' & Hp & _)|(n' & i' & q' & Hp & Hq & ->)]; [discriminate|].
          inversion Hp; subst. rewrite E in Hq. inversion Hq. left; reflexivity.
      + split; [intros []|].
        intros [(i' & q' & Hp & _)|(n' & i' & q' & Hp & Hq & _)]; [discriminate|].
        inversion Hp; subst. congruence.
    - split; [intros []|]. intros [(i & q & Hp & _)|(n & i & q & Hp & _)]; discriminate.
  Qed.

  Lemma in_pinsB w c hinst a :
    In a (pinsB (w :: c :: hinst)) <->
    (exists i q, In (PIn i) (wpins s w) /\ par s RPins i = Some q /\ a = i :: q :: hinst) \/
    (exists n i q, In (POut n i) (wpins s w) /\ par s RPins i = Some q /\ a = i :: q :: n :: hinst).
  Proof.
    unfold pinsB, hpins_of_hwire. rewrite in_flat_map. split.
    - intros (p & Hp & Ha). apply in_hpin_of_wpin in Ha.
      destruct Ha as [(i & q & -> & Hq & ->)|(n & i & q & -> & Hq & ->)]; [left|right]; eauto 8.
    - intros [(i & q & Hp & Hq & ->)|(n & i & q & Hp & Hq & ->)].
      + exists (PIn i). split; [assumption|]. apply in_hpin_of_wpin. left. eauto.
      + exists (POut n i). split; [assumption|]. apply in_hpin_of_wpin. right. eauto 6.
  Qed.

  Lemma in_nbA a b :
    In b (nbA a) <-> inner_hwire s a = Some b \/ outer_hwire s a = Some b.
  Proof.
    unfold nbA, nb_sel. cbn. rewrite in_app_iff. unfold opt_list.
    destruct (inner_hwire s a), (outer_hwire s a); cbn; split; intro H;
      repeat match goal with
             | H : _ \/ _ |- _ => destruct H
             | H : False |- _ => destruct H
             | H : Some _ = Some _ |- _ => inversion H; clear H; subst
             | H : None = Some _ |- _ => discriminate H
             | H : ?x = _ |- _ => subst x
             end; auto.
  Qed.
  (* inner / outer wire of a pin occurrence, spelled out *)
  Lemma inner_spec i q hinst b :
    inner_hwire s (i :: q :: hinst) = Some b <->
    exists w c, ipwire s i = Some w /\ par s RWires w = Some c /\ b = w :: c :: hinst.
  Proof.
    cbn. split.
    - destruct (ipwire s i) as [w|]; [|discriminate].
      destruct (par s RWires w) as [c|] eqn:E; [|discriminate].
      intro H. inversion H. eauto.
    - intros (w & c & -> & Hc & ->). rewrite Hc. reflexivity.
  Qed.

  Lemma outer_spec i q x x' p' b :
    outer_hwire s (i :: q :: x :: x' :: p') = Some b <->
    exists w c, assoc i (ipins s x) = Some (Some w) /\ par s RWires w = Some c /\ b = w :: c :: x' :: p'.
  Proof.
    cbn. split.
    - destruct (assoc i (ipins s x)) as [[w|]|]; try discriminate.
      destruct (par s RWires w) as [c|] eqn:E; [|discriminate].
      intro H. inversion H. eauto.
    - intros (w & c & -> & Hc & ->). rewrite Hc. reflexivity.
  Qed.

  Lemma outer_root i q x : outer_hwire s [i; q; x] = None.
  Proof. reflexivity. Qed.

  (* the pins attached to a wire occurrence are pin occurrences *)
  Lemma g_pins : forall b a, GB b -> In a (pinsB b) -> GA a.
  Proof.
    intros b a (w & c & x & p & -> & Hp & Hc & Hw) Ha.
    apply cables_of_par in Hc as (d & Hx & Hcd). apply kids_par in Hw.
    apply in_pinsB in Ha as [(i & q & Hi & Hq & ->)|(n & i & q & Hi & Hq & ->)].
    - destruct (wc_local_in s C i w c Hi Hw) as (d' & q' & Hd' & Hq' & Hqd).
      assert (d' = d) by congruence. assert (q' = q) by congruence. subst.
      exists i, q, x, p. repeat split; try assumption.
      + apply ports_of_par. eauto.
      + apply kids_par. assumption.
    - destruct (wc_local_out s C n i w c Hi Hw) as (d' & q' & d2 & Hd' & Hn & Hq' & Hqd & Hnr).
      assert (d' = d) by congruence. assert (q' = q) by congruence. subst.
      exists i, q, n, (x :: p). repeat split.
      + apply rp_child; [assumption|]. apply sub_par. eauto.
      + apply ports_of_par. eauto.
      + apply kids_par. assumption.
  Qed.

  (* the wires on both sides of a pin occurrence are wire occurrences *)
  Lemma g_nb : forall a b, GA a -> In b (nbA a) -> GB b.
  Proof.
    intros a b (i & q & x & p & -> & Hp & Hq & Hi) Hb.
    apply ports_of_par in Hq as (dx & Hx & Hqd). apply kids_par in Hi.
    apply in_nbA in Hb as [Hb|Hb].
    - apply inner_spec in Hb as (w & c & Hw & Hc & ->).
      apply (wc_in s C) in Hw.
      destruct (wc_local_in s C i w c Hw Hc) as (d' & q' & Hd' & Hq' & Hqd').
      assert (q' = q) by congruence. subst. assert (d' = dx) by congruence. subst.
      exists w, c, x, p. repeat split; try assumption.
      + apply cables_of_par. eauto.
      + apply kids_par. assumption.
    - inversion Hp as [E|c0 x0 p0 Hp0 Hch E]; subst.
      + (* x is the top instance: no outer wire *) rewrite outer_root in Hb. discriminate.
      + apply outer_spec in Hb as (w & c & Hw & Hc & ->).
        apply (wc_out s C) in Hw.
        destruct (wc_local_out s C x i w c Hw Hc) as (d' & q' & d2 & Hd' & Hn & Hq' & Hqd' & Hnr).
        apply sub_par in Hch as (d0 & Hx0 & Hxd0).
        assert (d0 = d') by congruence. subst.
        exists w, c, x0, p0. repeat split; try assumption.
        * apply cables_of_par. eauto.
        * apply kids_par. assumption.
  Qed.

  Lemma sym1 : forall a b, GB b -> In a (pinsB b) -> In b (nbA a).
  Proof.
    intros a b (w & c & x & p & -> & Hp & Hc & Hw) Ha. apply kids_par in Hw.
    apply in_nbA. apply in_pinsB in Ha as [(i & q & Hi & Hq & ->)|(n & i & q & Hi & Hq & ->)].
    - left. apply inner_spec. exists w, c. repeat split; [apply (wc_in s C); assumption|assumption].
    - right. apply outer_spec. exists w, c. repeat split; [apply (wc_out s C); assumption|assumption].
  Qed.

  Lemma sym2 : forall a b, GA a -> In b (nbA a) -> In a (pinsB b).
  Proof.
    intros a b (i & q & x & p & -> & Hp & Hq & Hi) Hb. apply kids_par in Hi.
    apply in_nbA in Hb as [Hb|Hb].
    - apply inner_spec in Hb as (w & c & Hw & Hc & ->). apply in_pinsB. left.
      exists i, q. repeat split; [apply (wc_in s C); assumption|assumption].
    - destruct p as [|x' p']; [rewrite outer_root in Hb; discriminate|].
      apply outer_spec in Hb as (w & c & Hw & Hc & ->). apply in_pinsB. right.
      exists x, i, q. repeat split; [apply (wc_out s C); assumption|assumption].
  Qed.

  (* ---- the relation walked by the code vs the specification [conn] ---- *)
  Definition code_conn : href -> href -> Prop := HierClosure.conn href href nbA pinsB.

  Lemma code_conn_good x y : GB x -> code_conn x y -> GB y.
  Proof. apply (conn_good href href nbA pinsB GA GB g_pins g_nb). Qed.

  Lemma code_conn_sym x y : GB x -> code_conn x y -> code_conn y x.
  Proof. apply (conn_sym href href nbA pinsB GA GB g_pins g_nb sym1 sym2). Qed.

  Lemma step1_good b b' : GB b -> step1 href href nbA pinsB b b' -> GB b'.
  Proof. intros G (a & Ha & Hb). exact (g_nb a b' (g_pins b a G Ha) Hb). Qed.

  (* one step of the code is a crossing (in either direction) or stays on the wire *)
  Lemma step1_hlink b b' :
    GB b -> step1 href href nbA pinsB b b' -> b' = b \/ hlink s b b' \/ hlink s b' b.
  Proof.
    intros (w & c & x & p & -> & Hp & Hc & Hw) (a & Ha & Hb). apply kids_par in Hw.
    apply in_nbA in Hb.
    apply in_pinsB in Ha as [(i & q & Hi & Hq & ->)|(n & i & q & Hi & Hq & ->)].
    - destruct Hb as [Hb|Hb].
      + apply inner_spec in Hb as (w' & c' & Hw' & Hc' & ->). apply (wc_in s C) in Hi.
        assert (w' = w) by congruence. subst. assert (c' = c) by congruence. subst. left. reflexivity.
      + destruct p as [|x' p']; [rewrite outer_root in Hb; discriminate|].
        apply outer_spec in Hb as (ow & oc & How & Hoc & ->). apply (wc_out s C) in How.
        right. right. apply hlink_intro with i; try assumption. apply (wc_in s C). assumption.
    - destruct Hb as [Hb|Hb].
      + apply inner_spec in Hb as (w' & c' & Hw' & Hc' & ->).
        right. left. apply hlink_intro with i; assumption.
      + apply outer_spec in Hb as (ow & oc & How & Hoc & ->). apply (wc_out s C) in Hi.
        assert (ow = w) by congruence. subst. assert (oc = c) by congruence. subst. left. reflexivity.
  Qed.

  Lemma code_conn_spec x y : GB x -> code_conn x y -> Conn.conn s t x y.
  Proof.
    intros G H. revert G. unfold code_conn, HierClosure.conn in H.
    induction H as [x y H|x|x y z H1 IH1 H2 IH2]; intro G.
    - pose proof (step1_good x y G H) as Gy.
      destruct (step1_hlink x y G H) as [->|[L|L]].
      + apply rst_refl.
      + apply rst_step. split; [exact G|]. split; [exact Gy|exact L].
      + apply rst_sym. apply rst_step. split; [exact Gy|]. split; [exact G|exact L].
    - apply rst_refl.
    - apply rst_trans with y; [apply IH1; exact G|apply IH2]. apply (code_conn_good x y G H1).
  Qed.

  (* a crossing between occurrences is a step of the code *)
  Lemma hlink_step b b' : hlink s b b' -> GB b -> step1 href href nbA pinsB b b'.
  Proof.
    intros L G. destruct L as [n i hinst w c w' c' Hi Hc Hw' Hc'].
    destruct G as (w0 & c0 & x & p & E & Hp & Hcx & Hw). inversion E; subst w0 c0 hinst. clear E.
    destruct (wc_local_out s C n i w c Hi Hc) as (d & q & d2 & Hd & Hn & Hq & Hqd & Hnr).
    exists (i :: q :: n :: x :: p). split.
    - apply in_pinsB. right. exists n, i, q. auto.
    - apply in_nbA. left. apply inner_spec. exists w', c'. auto.
  Qed.

  Lemma spec_code_conn x y : Conn.conn s t x y -> (GB x \/ GB y) -> GB x /\ GB y /\ code_conn x y.
  Proof.
    intro H. unfold Conn.conn in H.
    induction H as [x y (Gx & Gy & L)|x|x y H IH|x y z H1 IH1 H2 IH2]; intro G.
    - split; [exact Gx|]. split; [exact Gy|]. apply rt_step. exact (hlink_step x y L Gx).
    - assert (Gx : GB x) by (destruct G; assumption).
      split; [exact Gx|]. split; [exact Gx|]. apply rt_refl.
    - destruct IH as (Gx & Gy & Hc); [tauto|].
      split; [exact Gy|]. split; [exact Gx|]. apply code_conn_sym; assumption.
    - destruct G as [G|G].
      + destruct IH1 as (Gx & Gy & Hxy); [left; exact G|].
        destruct IH2 as (_ & Gz & Hyz); [left; exact Gy|].
        split; [exact Gx|]. split; [exact Gz|]. apply rt_trans with y; assumption.
      + destruct IH2 as (Gy & Gz & Hyz); [right; exact G|].
        destruct IH1 as (Gx & _ & Hxy); [right; exact Gy|].
        split; [exact Gx|]. split; [exact Gz|]. apply rt_trans with y; assumption.
  Qed.

  (* on occurrences the code's relation is the specification *)
  Theorem code_conn_iff_conn x y : GB x -> (code_conn x y <-> Conn.conn s t x y).
  Proof.
    intro G. split; [apply code_conn_spec; exact G|].
    intro H. apply (spec_code_conn x y H). left. exact G.
  Qed.

  Lemma conn_good x y : GB x -> Conn.conn s t x y -> GB y.
  Proof. intros G H. apply (spec_code_conn x y H). left. exact G. Qed.

  (* with a standalone top instance a crossing that touches the design lies inside it, so the
     restriction of [conn] to occurrences is vacuous *)
  Lemma hlink_occ_standalone b b' :
    par s RChildren t = None -> hlink s b b' -> (GB b \/ GB b') -> hlink_occ s t b b'.
  Proof.
    intros Htop L G.
    assert (Gb : GB b).
    { destruct G as [G|G]; [exact G|]. destruct L as [n i hinst w c w' c' Hi Hc Hw' Hc'].
      destruct G as (w0 & c0 & x & p & E & Hp & Hcx & Hw). inversion E; subst w0 c0 x p. clear E.
      destruct (wc_local_out s C n i w c Hi Hc) as (d & q & d2 & Hd & Hn & Hq & Hqd & Hnr).
      inversion Hp as [E|c1 x0 p0 Hp0 Hch E]; subst.
      - congruence.
      - apply sub_par in Hch as (d0 & Hx0 & Hnd0). assert (d0 = d) by congruence. subst.
        exists w, c, x0, p0. repeat split; try assumption.
        + apply cables_of_par. eauto.
        + apply kids_par. assumption. }
    split; [exact Gb|]. split; [|exact L]. exact (step1_good b b' Gb (hlink_step b b' L Gb)).
  Qed.

  (* ---- the query ---- *)
  Hypothesis Hroot : is_root s t.

  Lemma GB_valid b : GB b -> is_valid s b = true.
  Proof.
    intros (w & c & x & p & -> & Hp & Hc & Hw). apply (is_valid_iff s _ I1 I2 K).
    apply hr_wire with t; [split; assumption|assumption|assumption].
  Qed.

  Lemma GA_valid a : GA a -> is_valid s a = true.
  Proof.
    intros (i & q & x & p & -> & Hp & Hq & Hi). apply (is_valid_iff s _ I1 I2 K).
    apply hr_pin with t; [split; assumption|assumption|assumption].
  Qed.

  Lemma GB_kind w c r : GB (w :: c :: r) -> kind_of s w = Some KWire.
  Proof.
    intros (w0 & c0 & x & p & E & _ & _ & Hw). inversion E; subst.
    apply (wk_kids s K RWires c0 w0 Hw).
  Qed.

  Theorem get_hwires_ALL_class : forall n U x,
    acyclic s -> top s n = Some t -> all_hwires s n = Some U -> GB x ->
    exists l, get_hwires_ALL s (pin_weight s U) x = Some l /\
              (forall b, In b l <-> Conn.conn s t x b).
  Proof.
    intros n U x A Ht HU G.
    destruct (all_hwires_spec s n t I1 K A Ht) as (U' & EU & NU & SU).
    rewrite HU in EU. inversion EU; subst U'. clear EU.
    assert (Hcls : forall b, code_conn x b -> In b U).
    { intros b Hb. apply SU. exact (code_conn_good x b G Hb). }
    destruct (worklist_conn_class href href href_eqb href_eqb href_eqb_spec href_eqb_spec nbA pinsB
                U x (close_fuel (pin_weight s U) (pinsB x)) NU Hcls) as (l & El & Nl & Sl).
    { unfold close_fuel, pin_weight, pinsB. lia. }
    pose proof (GB_valid x G) as Hv.
    destruct G as (w & c & x0 & p & -> & Hp & Hc & Hw).
    assert (G : GB (w :: c :: x0 :: p)) by (exists w, c, x0, p; auto).
    assert (Hfil : wire_hpins_valid s (w :: c :: x0 :: p) = pinsB (w :: c :: x0 :: p)).
    { unfold wire_hpins_valid. apply filter_all_true. intros a Ha. apply GA_valid. exact (g_pins _ a G Ha). }
    unfold get_hwires_ALL, get_hwires. rewrite Hv. cbn [negb].
    rewrite (GB_kind w c (x0 :: p) G). cbn [hw_phase1_wire]. rewrite Hfil.
    unfold hw_close. cbn [sel_all].
    change (fun hw : href => hpins_of_hwire s hw) with pinsB.
    change (nb_sel s SAll) with nbA.
    rewrite El.
    eexists. split; [reflexivity|].
    intro b. rewrite href_union_In. cbn [href_union href_mem app].
    rewrite <- (code_conn_iff_conn (w :: c :: x0 :: p) b G). rewrite <- Sl. rewrite <- in_rev.
    cbn [In]. split; [intros [[H|[]]|H]; auto|intros [H|H]; auto].
  Qed.

  (* two members of one net give the same answer *)
  Theorem get_hwires_ALL_symmetric : forall n U x y,
    acyclic s -> top s n = Some t -> all_hwires s n = Some U -> GB x -> Conn.conn s t x y ->
    exists lx ly, get_hwires_ALL s (pin_weight s U) x = Some lx /\
                  get_hwires_ALL s (pin_weight s U) y = Some ly /\
                  (forall b, In b lx <-> In b ly).
  Proof.
    intros n U x y A Ht HU G Hxy.
    pose proof (conn_good x y G Hxy) as Gy.
    destruct (get_hwires_ALL_class n U x A Ht HU G) as (lx & Ex & Sx).
    destruct (get_hwires_ALL_class n U y A Ht HU Gy) as (ly & Ey & Sy).
    exists lx, ly. split; [exact Ex|]. split; [exact Ey|].
    intro b. rewrite Sx, Sy. split; intro H.
    - apply rst_trans with x; [apply rst_sym; exact Hxy|exact H].
    - apply rst_trans with y; [exact Hxy|exact H].
  Qed.
End Instantiation.
