(* Engine `verilog`, document-level reader: the ports of a module declared for the first time with a plain header
   "module m(a, b, ...);" and one declaration "input [w-1:0] a;" per port (parse_module_header_port,
   parse_port_declaration, connect_resized_port_cable): after the header and the declarations the definition has
   exactly the header ports, in header order, with the declared direction and width, based at 0; one cable per port
   of the same name, width and net type; bit k of every port joined to bit k of its cable, and nothing else. *)
From Coq Require Import List ZArith Bool Arith Lia Sorted Permutation.
From SV Require Import Base.Base Fmt.VBits Fmt.VExpr Fmt.VTop Fmt.VDoc Fmt.VElab Fmt.VSpec Fmt.VSem
  Proofs.VerilogLists Proofs.VerilogSlice Proofs.VerilogGrow Proofs.VerilogPort Proofs.VElabBase Proofs.VElabInv Proofs.VElabWf
  Proofs.VElabExpr Proofs.VElabConn.
Import ListNotations.
Open Scope Z_scope.

(* a bundle [w-1:0] whose k-th object is the k-th created *)
Definition pcb (w : nat) : bundle := {| b_lo := 0; b_items := seq 0 w; b_next := w |}.
Definition pc_port (n : str) (dir : option vdir) (w : nat) : eport := {| ep_name := Some n; ep_dir := dir; ep_b := pcb w |}.
Definition pc_cable (n : str) (ty : option vtype) (at_ : list attr) (w : nat) : ecable :=
  {| ec_name := n; ec_b := pcb w; ec_type := ty; ec_attrs := at_ |}.

Lemma new_bundle_scalar : new_bundle None None 0 = pcb 1.
Proof. reflexivity. Qed.
Lemma new_bundle_00 : new_bundle (Some 0) (Some 0) 0 = pcb 1.
Proof. reflexivity. Qed.

Lemma new_bundle_w w : (1 <= w)%nat -> new_bundle (Some (Z.of_nat w - 1)) (Some 0) 0 = pcb w.
Proof.
  intro H. unfold new_bundle, pcb. cbn [populate]. rewrite Z.min_r, Z.max_l by lia.
  replace (Z.to_nat (Z.of_nat w - 1 - 0 + 1)) with w by lia. reflexivity.
Qed.

(* the declared range of a port of width w: none, or [w-1:0] *)
Definition rg_of (w : nat) (explicit : bool) : option (Z * Z) := if explicit then Some (Z.of_nat w - 1, 0) else None.
Definition rg_ok (rg : option (Z * Z)) (w : nat) : Prop := (rg = None /\ w = 1%nat) \/ (rg = Some (Z.of_nat w - 1, 0) /\ (1 <= w)%nat).

Lemma grow_pcb w : (1 <= w)%nat -> grow 0 (Z.of_nat w - 1) (pcb 1) = pcb w.
Proof.
  intro H. unfold grow. cbn [b_lo b_items pcb length seq]. destruct (Z.ltb_spec 0 0); [lia|].
  destruct (Z.ltb_spec (0 + Z.of_nat 1 - 1) (Z.of_nat w - 1)) as [Hlt|Hge].
  - unfold create_items, pcb. cbn [b_lo b_items b_next]. f_equal.
    + replace (Z.to_nat (Z.of_nat w - 1 - (0 + Z.of_nat 1 - 1))) with (w - 1)%nat by lia.
      destruct w as [|w']; [lia|]. cbn. rewrite Nat.sub_0_r. reflexivity.
    + lia.
  - assert (w = 1%nat) by lia. subst. reflexivity.
Qed.

Lemma update_cable_pcb rg w : rg_ok rg w -> update_cable (range_l rg) (range_r rg) true (pcb 1) = pcb w.
Proof.
  intros [[-> ->]|[-> H]]; [reflexivity|]. unfold update_cable. cbn [range_l range_r in_range].
  rewrite Z.min_r, Z.max_l by lia. cbn [rebase]. apply grow_pcb. exact H.
Qed.

Lemma update_port_pcb rg w : rg_ok rg w -> update_port (range_l rg) (range_r rg) true (pcb 1) = pcb w.
Proof.
  intros [[-> ->]|[-> H]]; [reflexivity|]. unfold update_port. cbn [range_l range_r in_range].
  rewrite Z.min_r, Z.max_l by lia. cbn [rebase].
  destruct (Z.eqb_spec (Z.of_nat w - 1 - 0) (Z.of_nat (length (b_items {| b_lo := 0; b_items := b_items (pcb 1); b_next := b_next (pcb 1) |})) - 1)) as [E|E].
  - cbn in E. assert (w = 1%nat) by lia. subst. reflexivity.
  - apply grow_pcb. exact H.
Qed.

(* ---------- stage 1: a plain header name on a definition that knows neither port nor cable of that name ---------- *)
Lemma find_idx_app_none2 {A} (p : A -> bool) l x : find_idx p l = None -> p x = false -> find_idx p (l ++ [x]) = None.
Proof.
  induction l as [|a l IH]; intros H Px; cbn.
  - rewrite Px. reflexivity.
  - cbn in H. destruct (p a); [discriminate|]. destruct (find_idx p l) eqn:F; [discriminate|]. rewrite (IH eq_refl Px). reflexivity.
Qed.

Lemma header_plain d n d' : has_glob n = false -> find_port n d = None -> find_cable n d = None ->
  header_port None None n d = Ok d' ->
  d' = set_conn (set_cables (set_ports d (ed_ports d ++ [pc_port n None 1])) (ed_cables d ++ [pc_cable n None [] 1]))
                (ed_conn d ++ [(PInner (length (ed_ports d)) 0%nat, (length (ed_cables d), 0%nat))]).
Proof.
  intros G Fp Fc H. unfold header_port in H. rewrite G in H. unfold cou_port in H. rewrite Fp in H. cbn [range_l range_r] in H.
  rewrite new_bundle_scalar in H.
  set (d1 := set_ports d (ed_ports d ++ [{| ep_name := Some n; ep_dir := None; ep_b := pcb 1 |}])) in *.
  assert (PB : port_bundle (length (ed_ports d)) d1 = pcb 1).
  { unfold port_bundle, d1. cbn [ed_ports set_ports]. rewrite nth_error_app_last. reflexivity. }
  rewrite PB in H. cbn [b_lo b_items pcb length seq] in H.
  replace (0 + Z.of_nat 1 - 1) with 0 in H by lia.
  unfold cou_cable in H. assert (Fc1 : find_cable n d1 = None) by exact Fc. rewrite Fc1 in H. rewrite new_bundle_00 in H.
  set (d2 := set_cables d1 (ed_cables d1 ++ [{| ec_name := n; ec_b := pcb 1; ec_type := None; ec_attrs := [] |}])) in *.
  assert (CB : cable_bundle (length (ed_cables d1)) d2 = pcb 1).
  { unfold cable_bundle, d2. cbn [ed_cables set_cables]. rewrite nth_error_app_last. reflexivity. }
  rewrite CB in H. cbn [b_items pcb length seq negb Nat.eqb map combine] in H.
  rewrite (connect_all_conn _ _ _ H). unfold d2, d1. cbn. destruct d; reflexivity.
Qed.

Lemma header_plain_all names : forall d d', NoDup names ->
  (forall n, In n names -> has_glob n = false /\ find_port n d = None /\ find_cable n d = None) ->
  fold_res header_entry (map (HPort None None) names) d = Ok d' ->
  d' = set_conn (set_cables (set_ports d (ed_ports d ++ map (fun n => pc_port n None 1) names))
                            (ed_cables d ++ map (fun n => pc_cable n None [] 1) names))
                (ed_conn d ++ map (fun i => (PInner (length (ed_ports d) + i) 0%nat, ((length (ed_cables d) + i)%nat, 0%nat))) (seq 0 (length names))).
Proof.
  induction names as [|n names IH]; intros d d' Nd Hn H; cbn [map fold_res] in H.
  - inversion H; subst. cbn. rewrite !app_nil_r. destruct d'; reflexivity.
  - apply bind_ok in H. destruct H as (d1 & H1 & H2). inversion Nd as [|? ? Hnot Nd']; subst.
    destruct (Hn n (or_introl eq_refl)) as (G & Fp & Fc). cbn [header_entry] in H1.
    pose proof (header_plain d n d1 G Fp Fc H1) as E1.
    assert (Hn1 : forall m, In m names -> has_glob m = false /\ find_port m d1 = None /\ find_cable m d1 = None).
    { intros m Hm. destruct (Hn m (or_intror Hm)) as (Gm & Fpm & Fcm). split; [exact Gm|].
      assert (Hne : m <> n) by (intro; subst; contradiction).
      rewrite E1. unfold find_port, find_cable. cbn [ed_ports ed_cables set_conn set_cables set_ports]. split.
      - apply find_idx_app_none2; [exact Fpm|]. unfold port_named. cbn. apply str_eqb_neq. congruence.
      - apply find_idx_app_none2; [exact Fcm|]. cbn. apply str_eqb_neq. congruence. }
    rewrite (IH d1 d' Nd' Hn1 H2). rewrite E1. cbn [ed_ports ed_cables ed_conn set_conn set_cables set_ports map length seq].
    rewrite !app_length. cbn [length]. rewrite <- !app_assoc. cbn [app].
    rewrite <- seq_shift, map_map. rewrite !Nat.add_0_r.
    replace (map (fun i : nat => (PInner (length (ed_ports d) + 1 + i) 0%nat, ((length (ed_cables d) + 1 + i)%nat, 0%nat))) (seq 0 (length names)))
      with (map (fun x : nat => (PInner (length (ed_ports d) + S x) 0%nat, ((length (ed_cables d) + S x)%nat, 0%nat))) (seq 0 (length names))).
    2:{ apply map_ext. intro i. f_equal; [f_equal; lia|f_equal; lia]. }
    destruct d; reflexivity.
Qed.

Lemma find_app' {A} (f : A -> bool) l1 l2 : find f (l1 ++ l2) = match find f l1 with Some x => Some x | None => find f l2 end.
Proof. induction l1 as [|a l1 IH]; cbn; [reflexivity|]. destruct (f a); [reflexivity|exact IH]. Qed.

Lemma nodup_const (l : list nat) a : (forall x, In x l -> x = a) -> l <> [] -> nodup Nat.eq_dec l = [a].
Proof.
  induction l as [|x l IH]; intros H Hne; [congruence|]. cbn.
  assert (x = a) by (apply H; left; reflexivity). subst x.
  destruct (in_dec Nat.eq_dec a l) as [Hin|Hnin].
  - apply IH; [intros y Hy; apply H; right; exact Hy|]. intro E. subst. contradiction.
  - destruct l as [|y l]; [reflexivity|]. exfalso. apply Hnin. left. apply (H y). right. left. reflexivity.
Qed.

(* connect_resized when exactly pin 0 of the port is connected: pins 1 .. w-1 are joined to wires 1 .. w-1 *)
Lemma connect_rest i : forall ks d d', (forall k, In k ks -> pin_wire (PInner i k) d = None) -> NoDup ks ->
  fold_res (fun wp d' => match pin_wire (snd wp) d' with Some _ => Ok d' | None => connect (fst wp) (snd wp) d' end)
           (combine (map (pair i) ks) (map (PInner i) ks)) d = Ok d' ->
  d' = set_conn d (ed_conn d ++ map (fun k => (PInner i k, (i, k))) ks).
Proof.
  induction ks as [|k ks IH]; intros d d' Hf Nd H; cbn [map combine fold_res] in H.
  - inversion H; subst. cbn. rewrite app_nil_r. destruct d'; reflexivity.
  - apply bind_ok in H. destruct H as (d1 & H1 & H2). cbn [fst snd] in H1. rewrite (Hf k (or_introl eq_refl)) in H1.
    unfold connect in H1. rewrite (Hf k (or_introl eq_refl)) in H1. inversion H1; subst d1. clear H1.
    inversion Nd as [|? ? Hnot Nd']; subst.
    assert (Hf1 : forall j, In j ks -> pin_wire (PInner i j) (set_conn d (ed_conn d ++ [(PInner i k, (i, k))])) = None).
    { intros j Hj. unfold pin_wire. cbn [ed_conn set_conn]. rewrite find_app'.
      assert (X := Hf j (or_intror Hj)). unfold pin_wire in X. destruct (find _ (ed_conn d)); [discriminate|].
      cbn. assert (j <> k) by (intro; subst; contradiction).
      destruct (Nat.eqb i i && Nat.eqb k j) eqn:E; [|reflexivity].
      apply andb_true_iff in E. destruct E as [_ E]. apply Nat.eqb_eq in E. congruence. }
    rewrite (IH _ d' Hf1 Nd' H2). cbn. rewrite <- app_assoc. reflexivity.
Qed.

Lemma pin_wire_in_some p w d : In (p, w) (ed_conn d) -> exists v, pin_wire p d = Some v.
Proof.
  intro H. unfold pin_wire. destruct (find _ (ed_conn d)) as [c|] eqn:F; [eauto|].
  assert (X := find_none _ _ F _ H). cbn in X. rewrite pin_eqb_refl in X. discriminate.
Qed.

Lemma pin_wire_not_in p d : (forall w, ~ In (p, w) (ed_conn d)) -> pin_wire p d = None.
Proof.
  intro H. unfold pin_wire. destruct (find _ (ed_conn d)) as [[q v]|] eqn:F; [|reflexivity].
  apply find_some in F. destruct F as [Fi Fe]. cbn in Fe. apply pin_eqb_spec in Fe. subst q. exfalso. exact (H v Fi).
Qed.

(* ---------- stage 2: the declaration of a header port ---------- *)
Lemma port_decl_pc d n i dir0 ty0 at0 dir ty rg w d' :
  has_glob n = false -> rg_ok rg w ->
  nth_error (ed_ports d) i = Some (pc_port n dir0 1) -> nth_error (ed_cables d) i = Some (pc_cable n ty0 at0 1) ->
  find_port n d = Some i -> find_cable n d = Some i ->
  In (PInner i 0%nat, (i, 0%nat)) (ed_conn d) ->
  (forall p o o', In (PInner p o, (i, o')) (ed_conn d) -> p = i) ->
  (forall o x, In (PInner i o, x) (ed_conn d) -> o = 0%nat) ->
  port_decl_one dir ty rg n d = Ok d' ->
  d' = set_conn (set_cables (set_ports d (nth_upd i (fun _ => pc_port n (Some dir) w) (ed_ports d)))
                            (nth_upd i (fun _ => pc_cable n (or_else (vtype_wr ty) ty0) at0 w) (ed_cables d)))
                (ed_conn d ++ map (fun k => (PInner i k, (i, k))) (seq 1 (w - 1))).
Proof.
  intros G R P C Fp Fc Hin Hcab Hpin H.
  assert (Hw : (1 <= w)%nat) by (destruct R as [[_ ->]|[_ X]]; lia).
  unfold port_decl_one in H. rewrite G in H. unfold cou_cable in H. rewrite Fc in H.
  set (c1 := nth_upd i _ (ed_cables d)) in H.
  assert (Ec1 : c1 = nth_upd i (fun _ => pc_cable n (or_else (vtype_wr ty) ty0) at0 w) (ed_cables d)).
  { unfold c1. apply nth_upd_ext. intros x Hx. rewrite C in Hx. inversion Hx; subst x. cbn. unfold pc_cable. f_equal.
    apply update_cable_pcb. exact R. }
  clearbody c1. subst c1. set (c1 := nth_upd i _ (ed_cables d)) in *.
  set (d1 := set_cables d c1) in *.
  assert (C1 : nth_error (ed_cables d1) i = Some (pc_cable n (or_else (vtype_wr ty) ty0) at0 w)).
  { unfold d1, c1. cbn. exact (nth_upd_same i (fun _ => pc_cable n (or_else (vtype_wr ty) ty0) at0 w) _ _ C). }
  apply bind_ok in H. destruct H as (ws & Hws & H).
  (* the wires named by the declaration are wires of cable i, and all of them *)
  assert (Wws : forall x, In x ws <-> exists k, (k < w)%nat /\ x = (i, k)).
  { unfold ewire in *. unfold wires_from, cable_bundle in Hws. rewrite C1 in Hws. cbn [ec_b pc_cable pcb b_lo b_items] in Hws.
    destruct R as [[-> ->]|[-> _]]; cbn [range_l range_r] in Hws.
    - cbn [get_wires] in Hws. inversion Hws; subst ws. cbn. intro x. split; [intros [<-|[]]; exists 0%nat; split; [lia|reflexivity]|intros (k & Hk & ->); left; f_equal; lia].
    - destruct (get_range (map (pair i) (seq 0 w)) 0 0 (Z.of_nat w - 1) ltac:(lia) ltac:(lia) ltac:(rewrite map_length, seq_length; lia)) as (t & Ht & Hl & Hn).
      rewrite Ht in Hws. inversion Hws; subst ws. intro x. split.
      + intro Hx. apply In_nth_error in Hx. destruct Hx as (j & Hj).
        assert (Lj : (j < length t)%nat) by (apply nth_error_Some; rewrite Hj; discriminate).
        rewrite (Hn j Lj) in Hj. rewrite nth_error_map in Hj.
        destruct (nth_error (seq 0 w) (Z.to_nat (Z.of_nat w - 1 - Z.of_nat j - 0))) as [k|] eqn:E; [|discriminate].
        inversion Hj; subst x. exists k. split; [|reflexivity]. apply nth_error_In, in_seq in E. lia.
      + intros (k & Hk & ->). 
        assert (Lj : (w - 1 - k < length t)%nat) by lia.
        apply nth_error_In with (n := (w - 1 - k)%nat). rewrite (Hn _ Lj), nth_error_map.
        replace (Z.to_nat (Z.of_nat w - 1 - Z.of_nat (w - 1 - k) - 0)) with k by lia.
        rewrite nth_error_nth' with (d := O) by (rewrite seq_length; lia). rewrite seq_nth by lia. reflexivity. }
  assert (PO : ports_on ws d1 = [i]).
  { unfold ports_on. apply nodup_const.
    - intros x Hx. apply in_flat_map in Hx. destruct Hx as ([p v] & Hc & Hx). cbn [fst snd] in Hx.
      destruct p as [pp oo|]; [|contradiction]. destruct (existsb (wire_eqb v) ws) eqn:E; [|contradiction].
      destruct Hx as [<-|[]]. apply existsb_exists in E. destruct E as (y & Hy & Ey). apply wire_eqb_spec in Ey. subst y.
      apply Wws in Hy. destruct Hy as (k & _ & ->). eapply Hcab. exact Hc.
    - intro E. assert (X : In i (flat_map (fun c : epin * ewire => match fst c with PInner p _ => if existsb (wire_eqb (snd c)) ws then [p] else [] | POuter _ _ _ => [] end) (ed_conn d1))).
      { apply in_flat_map. exists (PInner i 0%nat, (i, 0%nat)). split; [exact Hin|]. cbn.
        replace (existsb (wire_eqb (i, 0%nat)) ws) with true; [left; reflexivity|]. symmetry. apply existsb_exists.
        exists (i, 0%nat). split; [apply Wws; exists 0%nat; split; [lia|reflexivity]|apply wire_eqb_spec; reflexivity]. }
      rewrite E in X. contradiction. }
  rewrite PO in H.
  assert (PN : port_name_of i d1 = Some n) by (unfold port_name_of, d1; cbn; rewrite P; reflexivity).
  rewrite PN in H. unfold cou_port in H.
  assert (Fp1 : find_port n d1 = Some i) by exact Fp. rewrite Fp1 in H.
  set (p1 := nth_upd i _ (ed_ports d1)) in H.
  assert (Ep1 : p1 = nth_upd i (fun _ => pc_port n (Some dir) w) (ed_ports d)).
  { unfold p1. apply nth_upd_ext. intros x Hx. unfold d1 in Hx. cbn in Hx. rewrite P in Hx. inversion Hx; subst x. cbn. unfold pc_port. f_equal.
    apply update_port_pcb. exact R. }
  clearbody p1. subst p1. set (p1 := nth_upd i _ (ed_ports d)) in *.
  set (d2 := set_ports d1 p1) in *.
  assert (CB2 : cable_bundle i d2 = pcb w) by (unfold cable_bundle, d2; cbn [ed_cables set_ports]; rewrite C1; reflexivity).
  assert (PB2 : port_bundle i d2 = pcb w) by (unfold port_bundle, d2, p1; cbn [ed_ports set_ports]; rewrite (nth_upd_same i (fun _ => pc_port n (Some dir) w) _ _ P); reflexivity).
  rewrite CB2 in H. cbn [b_items pcb] in H. rewrite seq_length in H.
  destruct (1 <? w)%nat eqn:E1.
  - apply Nat.ltb_lt in E1. unfold connect_resized in H. rewrite CB2, PB2 in H. cbn [b_items pcb] in H. rewrite Nat.eqb_refl in H. cbn [negb] in H.
    destruct w as [|w']; [lia|]. cbn [seq map combine fold_res] in H.
    apply bind_ok in H. destruct H as (d3 & H3 & H). cbn [fst snd] in H3.
    destruct (pin_wire_in_some (PInner i 0%nat) (i, 0%nat) d2 Hin) as (v0 & PW0). rewrite PW0 in H3. inversion H3; subst d3. clear H3.
    rewrite <- seq_shift in H. 
    assert (Hfree : forall k, In k (seq 1 w') -> pin_wire (PInner i k) d2 = None).
    { intros k Hk. apply in_seq in Hk. apply pin_wire_not_in. intros x Hx. assert (k = 0%nat) by (eapply Hpin; exact Hx). lia. }
    rewrite seq_shift in H.
    rewrite (connect_rest i (seq 1 w') d2 d' Hfree (seq_NoDup _ _) H).
    unfold d2, d1. cbn. replace (w' - 0)%nat with w' by lia. destruct d; reflexivity.
  - apply Nat.ltb_ge in E1. assert (w = 1%nat) by lia. subst w. inversion H; subst d'.
    unfold d2, d1. cbn. rewrite app_nil_r. destruct d; reflexivity.
Qed.

(* what has been declared of the header ports so far: name -> (direction, net type, width) *)
Definition ptab := str -> option (vdir * option vtype * nat).
Definition tab_w (t : ptab) (n : str) : nat := match t n with Some (_, _, w) => w | None => 1%nat end.
Definition tab_port (t : ptab) (n : str) : eport := match t n with Some (dir, _, w) => pc_port n (Some dir) w | None => pc_port n None 1 end.
Definition tab_cable (t : ptab) (n : str) : ecable := match t n with Some (_, ty, w) => pc_cable n (vtype_wr ty) [] w | None => pc_cable n None [] 1 end.
Definition tab_set (t : ptab) (n : str) (v : vdir * option vtype * nat) : ptab := fun m => if str_eqb m n then Some v else t m.

Record PortsSt (names : list str) (t : ptab) (d : edef) : Prop := {
  s_ports : ed_ports d = map (tab_port t) names;
  s_cables : ed_cables d = map (tab_cable t) names;
  s_conn : forall p x, In (p, x) (ed_conn d) <->
                       exists i n k, nth_error names i = Some n /\ p = PInner i k /\ x = (i, k) /\ (k < tab_w t n)%nat }.

Lemma find_idx_map_nodup {A} (names : list str) (f : str -> A) (test : str -> A -> bool) n i :
  NoDup names -> nth_error names i = Some n -> (forall m, test n (f m) = str_eqb m n) ->
  find_idx (test n) (map f names) = Some i.
Proof.
  intros Nd Hi Ht. revert i Hi. induction names as [|m names IH]; intros i Hi; [destruct i; discriminate|].
  inversion Nd as [|? ? Hnot Nd']; subst. cbn. rewrite Ht. destruct i as [|i]; cbn in Hi.
  - inversion Hi; subst. rewrite str_eqb_refl. reflexivity.
  - assert (m <> n) by (intro; subst; apply Hnot; eapply nth_error_In; exact Hi).
    rewrite (str_eqb_neq _ _ H). rewrite (IH Nd' i Hi). reflexivity.
Qed.

Lemma nth_upd_map_nodup {A} (names : list str) (f : str -> A) (v : A) n i :
  NoDup names -> nth_error names i = Some n ->
  nth_upd i (fun _ => v) (map f names) = map (fun m => if str_eqb m n then v else f m) names.
Proof.
  intros Nd Hi. revert i Hi. induction names as [|m names IH]; intros i Hi; [destruct i; discriminate|].
  inversion Nd as [|? ? Hnot Nd']; subst. destruct i as [|i]; cbn in Hi |- *.
  - inversion Hi; subst. rewrite str_eqb_refl. f_equal. apply map_ext_in. intros x Hx.
    assert (x <> n) by (intro; subst; contradiction). rewrite (str_eqb_neq _ _ H). reflexivity.
  - assert (m <> n) by (intro; subst; apply Hnot; eapply nth_error_In; exact Hi).
    rewrite (str_eqb_neq _ _ H). rewrite (IH Nd' i Hi). reflexivity.
Qed.

Lemma or_else_none {A} (a : option A) : or_else a None = a.
Proof. destruct a; reflexivity. Qed.

Lemma ports_decl_step names t d dir ty rg n w d' :
  NoDup names -> In n names -> t n = None -> has_glob n = false -> rg_ok rg w ->
  PortsSt names t d -> port_decl_one dir ty rg n d = Ok d' -> PortsSt names (tab_set t n (dir, ty, w)) d'.
Proof.
  intros Nd Hn Tn G R [SP SC SN] H.
  apply In_nth_error in Hn. destruct Hn as (i & Hi).
  assert (P : nth_error (ed_ports d) i = Some (pc_port n None 1)).
  { rewrite SP, nth_error_map, Hi. cbn. unfold tab_port. rewrite Tn. reflexivity. }
  assert (C : nth_error (ed_cables d) i = Some (pc_cable n None [] 1)).
  { rewrite SC, nth_error_map, Hi. cbn. unfold tab_cable. rewrite Tn. reflexivity. }
  assert (Fp : find_port n d = Some i).
  { unfold find_port. rewrite SP. apply (find_idx_map_nodup names (tab_port t) (fun n p => port_named n p) n i Nd Hi).
    intro m. unfold port_named, tab_port. destruct (t m) as [[[? ?] ?]|]; reflexivity. }
  assert (Fc : find_cable n d = Some i).
  { unfold find_cable. rewrite SC. apply (find_idx_map_nodup names (tab_cable t) (fun n c => str_eqb (ec_name c) n) n i Nd Hi).
    intro m. unfold tab_cable. destruct (t m) as [[[? ?] ?]|]; reflexivity. }
  assert (Hin : In (PInner i 0%nat, (i, 0%nat)) (ed_conn d)).
  { apply SN. exists i, n, 0%nat. unfold tab_w. rewrite Tn. repeat split; [exact Hi|lia]. }
  assert (Hcab : forall p o o', In (PInner p o, (i, o')) (ed_conn d) -> p = i).
  { intros p o o' X. apply SN in X. destruct X as (j & m & k & _ & E1 & E2 & _). inversion E1; inversion E2; subst. reflexivity. }
  assert (Hpin : forall o x, In (PInner i o, x) (ed_conn d) -> o = 0%nat).
  { intros o x X. apply SN in X. destruct X as (j & m & k & Hj & E1 & _ & Hk). inversion E1; subst j k.
    rewrite Hi in Hj. inversion Hj; subst m. unfold tab_w in Hk. rewrite Tn in Hk. lia. }
  rewrite (port_decl_pc d n i None None [] dir ty rg w d' G R P C Fp Fc Hin Hcab Hpin H).
  assert (Hw : (1 <= w)%nat) by (destruct R as [[_ ->]|[_ X]]; lia).
  constructor; cbn [ed_ports ed_cables ed_conn set_conn set_cables set_ports].
  - rewrite SP. rewrite (nth_upd_map_nodup names (tab_port t) _ n i Nd Hi). apply map_ext. intro m.
    unfold tab_port, tab_set. destruct (str_eqb m n) eqn:E; [apply str_eqb_spec in E; subst; reflexivity|reflexivity].
  - rewrite SC. rewrite (nth_upd_map_nodup names (tab_cable t) _ n i Nd Hi). apply map_ext. intro m.
    unfold tab_cable, tab_set. destruct (str_eqb m n) eqn:E; [apply str_eqb_spec in E; subst; rewrite or_else_none; reflexivity|reflexivity].
  - intros p x. rewrite in_app_iff, SN. split.
    + intros [(j & m & k & Hj & E1 & E2 & Hk)|X].
      * exists j, m, k. repeat split; try assumption. unfold tab_w, tab_set in *. destruct (str_eqb m n) eqn:E; [|exact Hk].
        apply str_eqb_spec in E. subst m. rewrite Tn in Hk. lia.
      * apply in_map_iff in X. destruct X as (k & E & Hk). inversion E; subst p x. apply in_seq in Hk.
        exists i, n, k. repeat split; [exact Hi|]. unfold tab_w, tab_set. rewrite str_eqb_refl. lia.
    + intros (j & m & k & Hj & E1 & E2 & Hk). unfold tab_w, tab_set in Hk. destruct (str_eqb m n) eqn:E.
      * apply str_eqb_spec in E. subst m.
        assert (j = i) by (eapply (proj1 (NoDup_nth_error names) Nd); [apply nth_error_Some; congruence|congruence]). subst j.
        destruct k as [|k].
        -- left. exists i, n, 0%nat. repeat split; try assumption. unfold tab_w. rewrite Tn. lia.
        -- right. subst p x. apply in_map_iff. exists (S k). split; [reflexivity|apply in_seq; lia].
      * left. exists j, m, k. repeat split; assumption.
Qed.

(* a declaration as the theorem sees it *)
Record pdecl := { pd_dir : vdir; pd_ty : option vtype; pd_rg : option (Z * Z); pd_name : str; pd_w : nat }.

Lemma ports_decls names decls : forall t d d', NoDup names ->
  NoDup (map pd_name decls) -> (forall x, In x decls -> In (pd_name x) names /\ t (pd_name x) = None /\ has_glob (pd_name x) = false /\ rg_ok (pd_rg x) (pd_w x)) ->
  PortsSt names t d ->
  fold_res (fun x => port_decl_one (pd_dir x) (pd_ty x) (pd_rg x) (pd_name x)) decls d = Ok d' ->
  PortsSt names (fold_left (fun t x => tab_set t (pd_name x) (pd_dir x, pd_ty x, pd_w x)) decls t) d'.
Proof.
  induction decls as [|x decls IH]; intros t d d' Nd Ndd Hx S H; cbn [fold_res fold_left] in *.
  - inversion H; subst. exact S.
  - apply bind_ok in H. destruct H as (d1 & H1 & H2). inversion Ndd as [|? ? Hnot Ndd']; subst.
    destruct (Hx x (or_introl eq_refl)) as (Hn & Tn & G & R).
    apply (IH _ d1 d' Nd Ndd'); [| |exact H2].
    + intros y Hy. destruct (Hx y (or_intror Hy)) as (Hn' & Tn' & G' & R'). repeat split; try assumption.
      unfold tab_set. assert (pd_name y <> pd_name x) by (intro E; apply Hnot; rewrite <- E; apply in_map; exact Hy).
      rewrite (str_eqb_neq _ _ H). exact Tn'.
    + eapply ports_decl_step; eassumption.
Qed.

(* ---------- the theorem: a module declared for the first time, plain header, one declaration per port ---------- *)
Theorem ports_spec mname names decls d1 d' :
  NoDup names -> (forall n, In n names -> has_glob n = false) ->
  NoDup (map pd_name decls) -> (forall x, In x decls -> In (pd_name x) names /\ rg_ok (pd_rg x) (pd_w x)) ->
  fold_res header_entry (map (HPort None None) names) (empty_def mname) = Ok d1 ->
  fold_res (fun x => port_decl_one (pd_dir x) (pd_ty x) (pd_rg x) (pd_name x)) decls d1 = Ok d' ->
  PortsSt names (fold_left (fun t x => tab_set t (pd_name x) (pd_dir x, pd_ty x, pd_w x)) decls (fun _ => None)) d'.
Proof.
  intros Nd G Ndd Hx H1 H2.
  assert (E1 := header_plain_all names (empty_def mname) d1 Nd ltac:(intros n Hn; split; [apply G; exact Hn|split; reflexivity]) H1).
  cbn [ed_ports ed_cables ed_conn empty_def app length Nat.add] in E1.
  apply (ports_decls names decls (fun _ => None) d1 d' Nd Ndd); [| |exact H2].
  - intros x Hin. destruct (Hx x Hin) as [A B]. repeat split; try assumption. apply G. exact A.
  - rewrite E1. constructor; cbn [ed_ports ed_cables ed_conn set_conn set_cables set_ports].
    + reflexivity.
    + reflexivity.
    + intros p x. rewrite in_map_iff. split.
      * intros (i & E & Hi). inversion E; subst p x. apply in_seq in Hi.
        destruct (nth_error names i) as [n|] eqn:En; [|apply nth_error_None in En; lia].
        exists i, n, 0%nat. split; [exact En|]. split; [reflexivity|]. split; [reflexivity|]. unfold tab_w. lia.
      * intros (i & n & k & Hi & -> & -> & Hk). cbn in Hk. assert (k = 0%nat) by lia. subst k.
        exists i. split; [reflexivity|]. apply in_seq. split; [lia|]. cbn. apply nth_error_Some. congruence.
Qed.

(* ================= wire declarations ================= *)
(* the cable a declaration "wire [h:l] n" / "wire n" describes *)
Definition decl_cable (ty : vtype) (rg : option (Z * Z)) (attrs : list attr) (n : str) : ecable :=
  let '(lo, w) := match rg with Some (h, l) => (l, Z.to_nat (h - l + 1)) | None => (0, 1%nat) end in
  {| ec_name := n; ec_b := {| b_lo := lo; b_items := seq 0 w; b_next := w |}; ec_type := Some ty; ec_attrs := dict_of attrs |}.

Definition rg_wf (rg : option (Z * Z)) : Prop := match rg with Some (h, l) => l <= h | None => True end.

Lemma nth_upd_last {A} (f : A -> A) l x : nth_upd (length l) f (l ++ [x]) = l ++ [f x].
Proof. induction l as [|a l IH]; cbn; [reflexivity|]. rewrite IH. reflexivity. Qed.

(* a net declared for the first time: exactly one cable is appended - name, range [h:l] (wire k of the cable is bit
   l + k), net type, attributes - and nothing else changes *)
Theorem wire_decl_one_spec ty rg attrs n d d' : has_glob n = false -> find_cable n d = None -> rg_wf rg ->
  wire_decl_one ty rg attrs n d = Ok d' -> d' = set_cables d (ed_cables d ++ [decl_cable ty rg attrs n]).
Proof.
  intros G F W H. unfold wire_decl_one in H. rewrite G in H. unfold cou_cable in H. rewrite F in H. inversion H; subst d'. clear H.
  unfold set_cable_attrs. cbn [ed_cables set_cables]. rewrite nth_upd_last. cbn.
  assert (E : new_bundle (range_l rg) (range_r rg) 0 = ec_b (decl_cable ty rg attrs n)).
  { unfold decl_cable. destruct rg as [[h l]|]; cbn [range_l range_r ec_b]; [|reflexivity].
    cbn in W. unfold new_bundle. cbn [populate]. rewrite Z.min_r, Z.max_l by lia. reflexivity. }
  rewrite E. destruct d. unfold decl_cable. destruct rg as [[h l]|]; reflexivity.
Qed.

(* "wire [h:l] a, b, c": the range goes to EVERY name, the attributes to the first name only *)
Theorem wire_decl_spec ty rg attrs names d d' : NoDup names ->
  (forall n, In n names -> has_glob n = false /\ find_cable n d = None) -> rg_wf rg ->
  wire_decl ty rg attrs names d = Ok d' ->
  exists n rest, names = n :: rest /\
    d' = set_cables d (ed_cables d ++ decl_cable ty rg attrs n :: map (decl_cable ty rg []) rest).
Proof.
  intros Nd Hn W H. unfold wire_decl in H. destruct names as [|n rest]; [discriminate|].
  apply bind_ok in H. destruct H as (d1 & H1 & H2). exists n, rest. split; [reflexivity|].
  destruct (Hn n (or_introl eq_refl)) as [G F].
  inversion Nd as [|? ? Hnot Nd']; subst.
  pose proof (wire_decl_one_spec ty rg attrs n d d1 G F W H1) as E1.
  assert (Gen : forall l a b, NoDup l -> (forall m, In m l -> has_glob m = false /\ find_cable m a = None) ->
                fold_res (wire_decl_one ty rg []) l a = Ok b -> b = set_cables a (ed_cables a ++ map (decl_cable ty rg []) l)).
  { induction l as [|m l IH]; intros a b Ndl Hl Hf; cbn [fold_res] in Hf.
    - inversion Hf; subst. cbn. rewrite app_nil_r. destruct b; reflexivity.
    - inversion Ndl as [|? ? Hm Ndl']; subst.
      apply bind_ok in Hf. destruct Hf as (a1 & Ha1 & Hf). destruct (Hl m (or_introl eq_refl)) as [Gm Fm].
      pose proof (wire_decl_one_spec ty rg [] m a a1 Gm Fm W Ha1) as Ea1.
      rewrite (IH a1 b Ndl'); [|  |exact Hf].
      + rewrite Ea1. cbn [ed_cables set_cables map]. rewrite <- app_assoc. reflexivity.
      + intros x Hx. destruct (Hl x (or_intror Hx)) as [Gx Fx]. split; [exact Gx|].
        rewrite Ea1. unfold find_cable. cbn [ed_cables set_cables]. apply find_idx_app_none2; [exact Fx|].
        unfold decl_cable. destruct rg as [[h l0]|]; cbn; apply str_eqb_neq; intro E; subst; contradiction. }
  rewrite (Gen rest d1 d' Nd'); [| |exact H2].
  - rewrite E1. cbn [ed_cables set_cables]. rewrite <- app_assoc. reflexivity.
  - intros x Hx. destruct (Hn x (or_intror Hx)) as [Gx Fx]. split; [exact Gx|].
    rewrite E1. unfold find_cable. cbn [ed_cables set_cables]. apply find_idx_app_none2; [exact Fx|].
    unfold decl_cable. destruct rg as [[h l]|]; cbn; apply str_eqb_neq; intro E; subst; contradiction.
Qed.
