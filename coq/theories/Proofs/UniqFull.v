(* C08, "every non-leaf instance is unique afterwards": after a completed uniquify the walk finds
   every instance it meets already unique (its definition is a leaf or referenced by it alone), from
   any reachable state whose top definition is instantiated only by the (parentless) top instance. *)
From Coq Require Import List Arith Bool Lia.
From RecordUpdate Require Import RecordSet.
From SV Require Import Base.Base IR.State IR.NS IR.Ops Xform.Clone Xform.Strs Xform.Xform Proofs.AssocX Proofs.Frame Proofs.Inv1a Proofs.Inv2a
  Proofs.InvP Proofs.InvW Proofs.C01_full Proofs.Fresh Proofs.NsInv Proofs.CloneInv Proofs.RefK Proofs.CloneRef Proofs.CloneT Proofs.FieldT
  Proofs.XformInv Proofs.CloneFull Proofs.XHistory.
From SV Require Import Proofs.UniqFresh.
Import ListNotations RecordSetNotations.

(* ---- what Definition.clone does to references, containment and kinds ---- *)
Lemma clone_definition_spec s d :
  UF s -> d < next s -> snd (fst (clone_definition s d)) = None ->
  let sC := fst (fst (clone_definition s d)) in let d' := snd (clone_definition s d) in
  d' = next s /\ next s < next sC /\ kpframe (next s) s sC /\
  (forall y, y < next s -> iref sC y = iref s y) /\
  (forall y e, next s <= y -> iref sC y = Some e ->
     In y (kids sC RChildren d') /\ exists c, In c (kids s RChildren d) /\ iref s c = Some e) /\
  (forall r, par sC r d' = None).
Proof.
  intros [I [T [F [FT0 K]]]] Hd. pose proof (inv_a _ I) as I1.
  pose proof (above_of_fresh s F) as Ab. pose proof (parlt_of_inv1a s I1 Ab) as Pl.
  unfold clone_definition. destruct (def_clone1 (s, []) d) as [[[s1 m1] d'] [e|]] eqn:E; cbn [fst snd]; [discriminate|].
  destruct (def_clone1_kp s [] d s1 m1 d' Ab Pl E) as [Hd' [Hn [Hf [_ [Hpd _]]]]].
  destruct (def_clone1_ref s [] d s1 m1 d' Ab Pl Hd (children_lt s d I1 Ab) E) as [_ [_ [_ [Hio [Hin _]]]]].
  intros _.
  assert (W : wsame s1 (fst (fold_idsR register_child (kids s1 RChildren d') s1 >>= fun s2 => reapply (set_drefs s2 d' []) d'))).
  { apply ws_bind; [apply ws_fold_idsR; intros; apply ws_register_child|].
    intro s2. eapply ws_trans; [|apply ws_reapply]. constructor; reflexivity. }
  assert (KP : kpsame s1 (fst (fold_idsR register_child (kids s1 RChildren d') s1 >>= fun s2 => reapply (set_drefs s2 d' []) d'))).
  { apply kpsame_bind; [apply kpsame_fold_idsR; intros; apply kpsame_register_child|].
    intro s2. eapply kpsame_trans; [|apply kpsame_reapply]. repeat split. }
  destruct KP as [K1 [K2 K3]]. destruct W as [_ _ _ Wr _ _].
  split; [exact Hd'|]. split; [rewrite K3; exact Hn|]. split; [intros r y Hy; rewrite K1, K2; apply Hf; exact Hy|].
  split; [intros y Hy; rewrite Wr; apply Hio; exact Hy|]. split.
  - intros y e0 Hy He. rewrite Wr in He. rewrite K1. destruct (Hin y e0 He) as [H|H]; [|exact H].
    rewrite (f_iref _ F y Hy) in H. discriminate.
  - intro r. rewrite K2. apply Hpd.
Qed.

(* add_definition touches only the library's list and the definition's parent *)
Lemma op_add_rdefs_frame s p c pos :
  let s' := fst (op_add s RDefs p c pos) in
  iref s' = iref s /\ next s' = next s /\
  (forall r, r <> RDefs -> kids s' r = kids s r /\ par s' r = par s r).
Proof.
  cbn zeta. unfold op_add, guard. destruct (_ && _); [|repeat split]. destruct (add_guard1 s RDefs p c); [|repeat split].
  destruct (par s RDefs c); [repeat split|]. cbn [ns_rel].
  pose proof (se_ns_add s p c (rel_child RDefs)) as Hse.
  destruct (ns_add s p c (rel_child RDefs)) as [s1 [e|]]; cbn [bindR fst ret] in *.
  - split; [apply (se_iref _ _ Hse)|]. split; [apply (se_next _ _ Hse)|]. intros r _. split; [rewrite (se_kids _ _ Hse)|rewrite (se_par _ _ Hse)]; reflexivity.
  - cbn. split; [apply (se_iref _ _ Hse)|]. split; [apply (se_next _ _ Hse)|]. intros r Hr.
    assert (Hb : rel_eqb r RDefs = false) by (destruct (rel_eqb r RDefs) eqn:Eb; [apply rel_eqb_spec in Eb; contradiction|reflexivity]).
    unfold upd2. rewrite Hb. split; [rewrite (se_kids _ _ Hse)|rewrite (se_par _ _ Hse)]; reflexivity.
Qed.

Lemma op_set_reference_value s x d' : snd (op_set_reference s x (Some d')) = None -> iref (fst (op_set_reference s x (Some d'))) x = Some d'.
Proof.
  unfold op_set_reference, guard. destruct (_ && _); [|discriminate].
  destruct (match iref s x with Some d => same_shape s d d' | None => true end); [|discriminate].
  match goal with |- snd (?r >>= ?k) = None -> _ => destruct r as [s3 [e|]] end; cbn [bindR fst snd ret]; [discriminate|].
  intros _. cbn. apply upd_same.
Qed.

Lemma def_clone1_id s m d : snd (fst (def_clone1 (s, m) d)) = next s.
Proof.
  unfold def_clone1. destruct (clone_alloc s KDefinition) as [s1 x] eqn:Ea. destruct (clone_alloc_kp _ _ _ _ Ea) as [Hx _].
  destruct (clone_each port_clone1 _ _) as [[s2 m2] ports']. destruct (clone_each cable_clone1 _ _) as [[s3 m3] cables'].
  destruct (clone_each inst_clone1 _ _) as [[s4 m4] children']. cbn. exact Hx.
Qed.
Lemma clone_definition_id s d : snd (clone_definition s d) = next s.
Proof.
  unfold clone_definition, def_clone1. destruct (clone_alloc s KDefinition) as [s1 x] eqn:Ea. destruct (clone_alloc_kp _ _ _ _ Ea) as [Hx _].
  match goal with |- context [clone_each port_clone1 ?l ?sm] => destruct (clone_each port_clone1 l sm) as [[s2 m2] ports'] end.
  match goal with |- context [clone_each cable_clone1 ?l ?sm] => destruct (clone_each cable_clone1 l sm) as [[s3 m3] cables'] end.
  match goal with |- context [clone_each inst_clone1 ?l ?sm] => destruct (clone_each inst_clone1 l sm) as [[s4 m4] children'] end.
  cbn beta iota zeta. match goal with |- snd (match ?e with _ => _ end) = _ => destruct e end; cbn [snd]; exact Hx.
Qed.

(* ---- one round of _make_instance_unique, relative to the state it starts from ---- *)
Definition XPost (P : state -> Prop) (r : XR) : Prop := snd r = None -> P (st (fst r)).
Lemma xpost_liftR (P Q : state -> Prop) x (r : R) k :
  (snd r = None -> P (fst r)) -> (forall x', P (st x') -> XPost Q (k x')) -> XPost Q (liftR x r k).
Proof.
  intros Hr Hk. unfold liftR. destruct r as [s [e|]]; cbn in *; [intro H; discriminate|]. apply Hk. cbn. apply Hr. reflexivity.
Qed.

Section Round.
  Variables (s : state) (inst d : id).
  Let d' := next s.

  (* after the clone, the renames and add_definition: old references, old containment, and where the
     references of new objects come from *)
  Record QA (s' : state) : Prop := mkQA {
    qa_uf : UF s';
    qa_next : next s < next s';
    qa_iref_old : forall y, y < next s -> iref s' y = iref s y;
    qa_iref_new : forall y e, next s <= y -> iref s' y = Some e ->
                    In y (kids s' RChildren d') /\ exists c, In c (kids s RChildren d) /\ iref s c = Some e;
    qa_old : forall y, y < next s -> kids s' RChildren y = kids s RChildren y /\ kids s' RCables y = kids s RCables y /\
                                       par s' RChildren y = par s RChildren y
  }.

  Lemma qa_struct s1 s2 : struct_eq s1 s2 -> QA s1 -> QA s2.
  Proof.
    intros H [A B C D E]. constructor.
    - apply (uf_struct _ _ H A).
    - rewrite (se_next _ _ H). exact B.
    - intros y Hy. rewrite (se_iref _ _ H). apply C. exact Hy.
    - intros y e Hy He. rewrite (se_iref _ _ H) in He. rewrite (se_kids _ _ H). apply (D y e Hy He).
    - intros y Hy. rewrite (se_kids _ _ H), (se_par _ _ H). apply E. exact Hy.
  Qed.

  (* the end of the round: the instance now references the copy *)
  Record QB (s' : state) : Prop := mkQB {
    qb_uf : UF s';
    qb_next : next s < next s';
    qb_inst : iref s' inst = Some d';
    qb_iref_old : forall y, y < next s -> y <> inst -> iref s' y = iref s y;
    qb_iref_new : forall y e, next s <= y -> iref s' y = Some e ->
                    In y (kids s' RChildren d') /\ exists c, In c (kids s RChildren d) /\ iref s c = Some e;
    qb_old : forall y, y < next s -> kids s' RChildren y = kids s RChildren y /\ kids s' RCables y = kids s RCables y /\
                                       par s' RChildren y = par s RChildren y
  }.

  Lemma round_spec x : st x = s -> UF s -> iref s inst = Some d -> inst < next s -> XPost QB (make_instance_unique x inst).
  Proof.
    intros Hst U Ei Hinst. unfold make_instance_unique. rewrite Hst, Ei.
    destruct U as [I [T [F [FT0 K]]]]. pose proof (ref_lt _ _ _ K F Ei) as Hd.
    destruct (par s RDefs d) as [lib|] eqn:Ep; [|intro H; discriminate].
    assert (Hkd : kind_of s d = Some KDefinition).
    { apply (i1_kids _ (inv_a _ I)) in Ep. apply (T RDefs lib d Ep). }
    assert (U : UF s) by (split; [exact I|split; [exact T|split; [exact F|split; assumption]]]).
    pose proof (clone_definition_spec s d U Hd) as HS.
    pose proof (uf_clone_definition s d U) as HU. pose proof (clone_definition_id s d) as Hid.
    destruct (clone_definition s d) as [r dd]. cbn [fst snd] in HS, HU, Hid. subst dd.
    apply (xpost_liftR QA).
    { intro Hok. destruct (HS Hok) as [_ [Hn [Hf [Hio [Hin _]]]]]. constructor.
      - apply HU; [unfold is_kind; rewrite Hkd; reflexivity|exact Hok].
      - exact Hn.
      - exact Hio.
      - exact Hin.
      - intros y Hy. destruct (Hf RChildren y Hy) as [A B]. destruct (Hf RCables y Hy) as [C _]. repeat split; assumption. }
    intros x1 Q1.
    set (named := rename_block x1 lib d (next s)).
    assert (Hn : XPost QA named).
    { unfold XPost. destruct named as [x5 e] eqn:Eb. cbn [fst snd]. intros ->.
      apply (rename_block_post QA x1 lib d (next s) x5 Q1); [|exact Eb].
      intros s0 k0 v0 _ H0 _. apply (qa_struct _ _ (se_dict_set _ _ _ _) H0). }
    destruct named as [x5 [e|]]; [intro H; discriminate|].
    assert (Q5 : QA (st x5)) by (apply Hn; reflexivity).
    apply (xpost_liftR QA).
    - intros _. destruct Q5 as [A B C D E].
      destruct (op_add_rdefs_frame (st x5) lib (next s) (Some (S (index_of d (kids s RDefs lib))))) as [Fi [Fn Fk]].
      assert (NC : RChildren <> RDefs) by discriminate. assert (NB : RCables <> RDefs) by discriminate.
      constructor.
      + pose proof (uf_step (st x5) (OAdd RDefs lib (next s) (Some (S (index_of d (kids s RDefs lib))))) A) as H. exact H.
      + rewrite Fn. exact B.
      + intros y Hy. rewrite Fi. apply C. exact Hy.
      + intros y e Hy He. rewrite Fi in He. rewrite (proj1 (Fk RChildren NC)). apply (D y e Hy He).
      + intros y Hy. rewrite (proj1 (Fk RChildren NC)), (proj1 (Fk RCables NB)), (proj2 (Fk RChildren NC)).
        apply E. exact Hy.
    - intros x6 [A B C D E].
      pose proof (uf_step (st x6) (OSetReference inst (@Some id (next s))) A) as HA. cbn [step] in HA.
      pose proof (op_set_reference_value (st x6) inst (next s)) as Hv.
      destruct (fw_op_set_reference_but_iref (st x6) inst (@Some id (next s))) as [Fk [Fp [Fn [_ Fo]]]].
      apply (xpost_liftR QB); [|intros x7 Q7 _; exact Q7].
      intro Hok. constructor.
      + exact HA.
      + rewrite Fn. exact B.
      + apply Hv. exact Hok.
      + intros y Hy Hne. rewrite (Fo y Hne). apply C. exact Hy.
      + intros y e Hy He. rewrite Fo in He by lia. rewrite Fk. apply (D y e Hy He).
      + intros y Hy. rewrite Fk, Fp. apply E. exact Hy.
  Qed.
End Round.

(* ---- settled instances ---- *)
Definition Settled (s : state) (i : id) : Prop :=
  exists d, iref s i = Some d /\ (is_leaf_def s d = true \/ forall n, iref s n = Some d -> n = i).

Lemma nodup_single (l : list id) i : NoDup l -> (forall n, In n l <-> n = i) -> l = [i].
Proof.
  intros Hnd H. destruct l as [|a l]; [exfalso; apply (proj2 (H i) eq_refl)|].
  assert (a = i) by (apply H; left; reflexivity). subst a.
  destruct l as [|b l]; [reflexivity|]. exfalso. assert (b = i) by (apply H; right; left; reflexivity). subst b.
  inversion Hnd as [|? ? Hn _]; subst. apply Hn. left. reflexivity.
Qed.

Lemma settled_unique s i : Inv2a s -> Settled s i -> inst_unique s i = Some true.
Proof.
  intros I2 [d [Hr [Hl|Hs]]]; unfold inst_unique; rewrite Hr; [rewrite Hl, orb_true_r; reflexivity|].
  assert (E : drefs s d = [i]).
  { apply nodup_single; [apply (i2_nodup _ I2)|]. intro n. rewrite (i2_ref _ I2). split; [apply Hs|intros ->; exact Hr]. }
  rewrite E. reflexivity.
Qed.

Lemma unique_settled s i : Inv2a s -> inst_unique s i = Some true -> Settled s i.
Proof.
  intros I2 H. unfold inst_unique in H. destruct (iref s i) as [d|] eqn:Hr; [|discriminate]. injection H as H.
  exists d. split; [exact Hr|]. apply orb_true_iff in H as [H|H]; [right|left; exact H].
  apply Nat.eqb_eq in H. destruct (drefs s d) as [|a [|b l]] eqn:E; try discriminate H.
  assert (Hi : In i (drefs s d)) by (apply (i2_ref _ I2); exact Hr). rewrite E in Hi. destruct Hi as [->|[]].
  intros n Hn. apply (i2_ref _ I2) in Hn. rewrite E in Hn. destruct Hn as [->|[]]. reflexivity.
Qed.

(* ---- the invariant of the walk ---- *)
Section Walk.
  Variables (dtop t : id).

  Record W (s : state) (P Q : list id) : Prop := mkW {
    w_set : forall i, In i P -> Settled s i;
    w_cont : forall i, In i (P ++ Q) -> i < next s /\ exists dp, par s RChildren i = Some dp /\
               (dp = dtop \/ exists ip, In ip P /\ iref s ip = Some dp /\ forall n, iref s n = Some dp -> n = ip);
    w_top : (forall n, iref s n = Some dtop -> n = t) /\ par s RChildren t = None /\ dtop < next s /\ t < next s
  }.

  (* the container of a walked instance is not the definition a non-unique walked instance references *)
  Lemma cont_not_cloned s P Q i j dj :
    Inv1a s -> Inv2a s -> W s P Q -> In i (P ++ Q) -> In j (P ++ Q) -> iref s j = Some dj -> inst_unique s j = Some false ->
    ~ In i (kids s RChildren dj).
  Proof.
    intros I1 I2 Hw Hi Hj Hr Hu Hin. apply (i1_kids _ I1) in Hin.
    destruct (w_cont _ _ _ Hw i Hi) as [_ [dp [Hp Hc]]]. rewrite Hin in Hp. injection Hp as <-.
    destruct Hc as [->|[ip [Hip [Hrip Hsole]]]].
    - pose proof (proj1 (w_top _ _ _ Hw) j Hr) as ->. destruct (w_cont _ _ _ Hw t Hj) as [_ [dp [Hp _]]].
      rewrite (proj1 (proj2 (w_top _ _ _ Hw))) in Hp. discriminate.
    - pose proof (Hsole j Hr) as ->. pose proof (settled_unique s ip I2 (w_set _ _ _ Hw ip Hip)) as H. rewrite H in Hu. discriminate.
  Qed.

  Lemma leaf_old s s1 e : (forall y, y < next s -> kids s1 RChildren y = kids s RChildren y /\ kids s1 RCables y = kids s RCables y /\ par s1 RChildren y = par s RChildren y) ->
    e < next s -> is_leaf_def s1 e = is_leaf_def s e.
  Proof. intros H He. unfold is_leaf_def. destruct (H e He) as [-> [-> _]]. reflexivity. Qed.

  (* one round on a non-unique instance keeps the invariant, with the instance now settled *)
  Lemma w_round s s1 P j rest dj :
    UF s -> W s P (j :: rest) -> iref s j = Some dj -> inst_unique s j = Some false -> QB s j dj s1 ->
    W s1 (j :: P) (rest ++ kids s1 RChildren (next s)).
  Proof.
    intros [I [T [F [FT0 K]]]] Hw Hr Hu [U1 Hn Hj Hold Hnew Hk]. pose proof (inv_a _ I) as I1. pose proof (inv_r _ I) as I2.
    destruct U1 as [I' [T' [F' [FT' K']]]]. pose proof (inv_a _ I') as I1'.
    assert (HjPQ : In j (P ++ j :: rest)) by (apply in_or_app; right; left; reflexivity).
    destruct (w_cont _ _ _ Hw j HjPQ) as [Hjlt _].
    assert (HjP : ~ In j P).
    { intro H. pose proof (settled_unique s j I2 (w_set _ _ _ Hw j H)) as H'. rewrite H' in Hu. discriminate. }
    (* nobody new references a definition that a walked instance's container relation protects *)
    assert (Hsole : forall i e, In i (P ++ j :: rest) -> i <> j -> iref s i = Some e -> (forall n, iref s n = Some e -> n = i) ->
                    forall n, iref s1 n = Some e -> n = i).
    { intros i e Hi Hij Hri Hs n Hn1. pose proof (ref_lt s i e K F Hri) as He.
      destruct (Nat.lt_ge_cases n (next s)) as [Hlt|Hge].
      - destruct (Nat.eq_dec n j) as [->|Hnj]; [rewrite Hj in Hn1; injection Hn1 as Hn1; lia|].
        apply Hs. rewrite <- (Hold n Hlt Hnj). exact Hn1.
      - destruct (Hnew n e Hge Hn1) as [_ [c [Hc Hrc]]]. pose proof (Hs c Hrc) as ->.
        exfalso. apply (cont_not_cloned s P (j :: rest) i j dj I1 I2 Hw Hi HjPQ Hr Hu Hc). }
    assert (Hjsole : forall n, iref s1 n = Some (next s) -> n = j).
    { intros n Hn1. destruct (Nat.lt_ge_cases n (next s)) as [Hlt|Hge].
      - destruct (Nat.eq_dec n j) as [->|Hnj]; [reflexivity|]. rewrite (Hold n Hlt Hnj) in Hn1. pose proof (ref_lt s n _ K F Hn1). lia.
      - destruct (Hnew n _ Hge Hn1) as [_ [c [_ Hrc]]]. pose proof (ref_lt s c _ K F Hrc). lia. }
    constructor.
    - intros i [<-|Hi]; [exists (next s); split; [exact Hj|right; exact Hjsole]|].
      assert (HiPQ : In i (P ++ j :: rest)) by (apply in_or_app; left; exact Hi).
      assert (Hij : i <> j) by (intros ->; apply HjP; exact Hi).
      destruct (w_cont _ _ _ Hw i HiPQ) as [Hilt _].
      destruct (w_set _ _ _ Hw i Hi) as [e [Hri Hcase]]. exists e. split; [rewrite (Hold i Hilt Hij); exact Hri|].
      destruct Hcase as [Hl|Hs]; [left; rewrite (leaf_old s s1 e Hk (ref_lt s i e K F Hri)); exact Hl|right; apply (Hsole i e HiPQ Hij Hri Hs)].
    - intros i Hi. cbn [app] in Hi. destruct Hi as [<-|Hi].
      + (* j itself *) split; [lia|]. destruct (w_cont _ _ _ Hw j HjPQ) as [_ [dp [Hp Hc]]]. exists dp.
        split; [rewrite (proj2 (proj2 (Hk j Hjlt))); exact Hp|]. destruct Hc as [->|[ip [Hip [Hrip Hs]]]]; [left; reflexivity|right].
        assert (HipPQ : In ip (P ++ j :: rest)) by (apply in_or_app; left; exact Hip).
        assert (Hipj : ip <> j) by (intros ->; apply HjP; exact Hip).
        destruct (w_cont _ _ _ Hw ip HipPQ) as [Hiplt _].
        exists ip. split; [right; exact Hip|]. split; [rewrite (Hold ip Hiplt Hipj); exact Hrip|apply (Hsole ip dp HipPQ Hipj Hrip Hs)].
      + apply in_app_or in Hi. destruct Hi as [Hi|Hi]; [|apply in_app_or in Hi; destruct Hi as [Hi|Hi]].
        * (* processed before *)
          assert (HiPQ : In i (P ++ j :: rest)) by (apply in_or_app; left; exact Hi).
          destruct (w_cont _ _ _ Hw i HiPQ) as [Hilt [dp [Hp Hc]]]. split; [lia|]. exists dp.
          split; [rewrite (proj2 (proj2 (Hk i Hilt))); exact Hp|]. destruct Hc as [->|[ip [Hip [Hrip Hs]]]]; [left; reflexivity|right].
          assert (HipPQ : In ip (P ++ j :: rest)) by (apply in_or_app; left; exact Hip).
          assert (Hipj : ip <> j) by (intros ->; apply HjP; exact Hip).
          destruct (w_cont _ _ _ Hw ip HipPQ) as [Hiplt _].
          exists ip. split; [right; exact Hip|]. split; [rewrite (Hold ip Hiplt Hipj); exact Hrip|apply (Hsole ip dp HipPQ Hipj Hrip Hs)].
        * (* still queued *)
          assert (HiPQ : In i (P ++ j :: rest)) by (apply in_or_app; right; right; exact Hi).
          destruct (w_cont _ _ _ Hw i HiPQ) as [Hilt [dp [Hp Hc]]]. split; [lia|]. exists dp.
          split; [rewrite (proj2 (proj2 (Hk i Hilt))); exact Hp|]. destruct Hc as [->|[ip [Hip [Hrip Hs]]]]; [left; reflexivity|right].
          assert (HipPQ : In ip (P ++ j :: rest)) by (apply in_or_app; left; exact Hip).
          assert (Hipj : ip <> j) by (intros ->; apply HjP; exact Hip).
          destruct (w_cont _ _ _ Hw ip HipPQ) as [Hiplt _].
          exists ip. split; [right; exact Hip|]. split; [rewrite (Hold ip Hiplt Hipj); exact Hrip|apply (Hsole ip dp HipPQ Hipj Hrip Hs)].
        * (* children of the copy *)
          pose proof Hi as Hi'. apply (i1_kids _ I1') in Hi'. split.
          { destruct (Nat.lt_ge_cases i (next s1)) as [H|H]; [exact H|]. rewrite (f_par _ F' RChildren i H) in Hi'. discriminate. }
          exists (next s). split; [exact Hi'|]. right. exists j. split; [left; reflexivity|]. split; [exact Hj|exact Hjsole].
    - destruct (w_top _ _ _ Hw) as [Ht [Hpt [Hdt Htl]]]. split; [|split; [|split]].
      + intros n Hn1. destruct (Nat.lt_ge_cases n (next s)) as [Hlt|Hge].
        * destruct (Nat.eq_dec n j) as [->|Hnj]; [rewrite Hj in Hn1; injection Hn1 as Hn1; lia|].
          apply Ht. rewrite <- (Hold n Hlt Hnj). exact Hn1.
        * destruct (Hnew n dtop Hge Hn1) as [_ [c [Hc Hrc]]]. pose proof (Ht c Hrc) as ->.
          apply (i1_kids _ I1) in Hc. rewrite Hpt in Hc. discriminate.
      + rewrite (proj2 (proj2 (Hk t Htl))). exact Hpt.
      + lia.
      + lia.
  Qed.
End Walk.

(* ---- the whole walk ---- *)
Section Run.
  Variables (dtop t : id).

  Lemma w_unique_step s P j rest d :
    UF s -> W dtop t s P (j :: rest) -> iref s j = Some d -> inst_unique s j = Some true ->
    W dtop t s (j :: P) (rest ++ kids s RChildren d).
  Proof.
    intros [I [T [F [FT0 K]]]] Hw Hr Hu. pose proof (inv_a _ I) as I1. pose proof (inv_r _ I) as I2.
    pose proof (unique_settled s j I2 Hu) as Hset.
    constructor.
    - intros i [<-|Hi]; [exact Hset|apply (w_set _ _ _ _ _ Hw i Hi)].
    - intros i Hi.
      assert (Hmono : forall i0, In i0 (P ++ j :: rest) -> i0 < next s /\ exists dp, par s RChildren i0 = Some dp /\
                (dp = dtop \/ exists ip, In ip (j :: P) /\ iref s ip = Some dp /\ forall n, iref s n = Some dp -> n = ip)).
      { intros i0 Hi0. destruct (w_cont _ _ _ _ _ Hw i0 Hi0) as [A [dp [B C]]]. split; [exact A|]. exists dp. split; [exact B|].
        destruct C as [->|[ip [C1 C2]]]; [left; reflexivity|right; exists ip; split; [right; exact C1|exact C2]]. }
      cbn [app] in Hi. destruct Hi as [<-|Hi]; [apply Hmono; apply in_or_app; right; left; reflexivity|].
      apply in_app_or in Hi. destruct Hi as [Hi|Hi]; [apply Hmono; apply in_or_app; left; exact Hi|].
      apply in_app_or in Hi. destruct Hi as [Hi|Hi]; [apply Hmono; apply in_or_app; right; right; exact Hi|].
      split; [apply (children_lt s d I1 (above_of_fresh s F) i Hi)|]. exists d. split; [apply (i1_kids _ I1); exact Hi|]. right.
      exists j. split; [left; reflexivity|]. split; [exact Hr|].
      destruct Hset as [d0 [Hr0 [Hl|Hs]]]; rewrite Hr in Hr0; injection Hr0 as <-; [|exact Hs].
      exfalso. unfold is_leaf_def in Hl. destruct (kids s RChildren d); [destruct Hi|discriminate Hl].
    - apply (w_top _ _ _ _ _ Hw).
  Qed.

  Lemma loop_spec : forall fuel x P Q x',
    UF (st x) -> W dtop t (st x) P Q -> uniq_loop fuel x Q = (x', None) ->
    exists P', UF (st x') /\ W dtop t (st x') P' [] /\ (forall i, In i P -> In i P') /\ (forall i, In i Q -> In i P') /\
      (forall i, In i P -> iref (st x') i = iref (st x) i) /\
      (forall y, y < next (st x) -> kids (st x') RChildren y = kids (st x) RChildren y /\ kids (st x') RCables y = kids (st x) RCables y) /\
      next (st x) <= next (st x') /\
      uniq_clean fuel (st x') Q = true.
  Proof.
    induction fuel as [|f IH]; intros x P Q x' U Hw E; destruct Q as [|j rest]; cbn [uniq_loop] in E; try discriminate.
    - injection E as <-. exists P. split; [exact U|]. split; [exact Hw|]. split; [auto|]. split; [intros i []|]. split; [reflexivity|]. split; [intros y _; split; reflexivity|]. split; [apply Nat.le_refl|reflexivity].
    - injection E as <-. exists P. split; [exact U|]. split; [exact Hw|]. split; [auto|]. split; [intros i []|]. split; [reflexivity|]. split; [intros y _; split; reflexivity|]. split; [apply Nat.le_refl|reflexivity].
    - destruct (inst_unique (st x) j) as [u|] eqn:Hu; [|discriminate].
      pose proof U as [I [T [F [FT0 K]]]]. pose proof (inv_r _ I) as I2.
      assert (HjPQ : In j (P ++ j :: rest)) by (apply in_or_app; right; left; reflexivity).
      destruct (w_cont _ _ _ _ _ Hw j HjPQ) as [Hjlt _].
      destruct u.
      + (* already unique *)
        destruct (iref (st x) j) as [d|] eqn:Hr; [|discriminate].
        pose proof (w_unique_step (st x) P j rest d U Hw Hr Hu) as Hw1.
        destruct (IH x (j :: P) (rest ++ kids (st x) RChildren d) x' U Hw1 E) as [P' [U' [W' [S1 [S2 [S3 [S4 [S5 C]]]]]]]].
        exists P'. split; [exact U'|]. split; [exact W'|]. split; [intros i Hi; apply S1; right; exact Hi|].
        split; [intros i [<-|Hi]; [apply S1; left; reflexivity|apply S2; apply in_or_app; left; exact Hi]|].
        split; [intros i Hi; apply S3; right; exact Hi|]. split; [exact S4|]. split; [exact S5|].
        cbn [uniq_clean]. destruct U' as [I' _].
        rewrite (settled_unique (st x') j (inv_r _ I') (w_set _ _ _ _ _ W' j (S1 j (or_introl eq_refl)))).
        rewrite (S3 j (or_introl eq_refl)), Hr. rewrite (proj1 (S4 d (ref_lt _ _ _ K F Hr))). exact C.
      + (* make it unique *)
        destruct (iref (st x) j) as [d|] eqn:Hr.
        2:{ unfold make_instance_unique in E. rewrite Hr in E. discriminate. }
        pose proof (round_spec (st x) j d x eq_refl U Hr Hjlt) as HR.
        destruct (make_instance_unique x j) as [x1 [e|]] eqn:Em; [discriminate|].
        assert (Q1 : QB (st x) j d (st x1)) by (apply HR; reflexivity).
        pose proof (w_round dtop t (st x) (st x1) P j rest d U Hw Hr Hu Q1) as Hw1.
        rewrite (qb_inst _ _ _ _ Q1) in E.
        destruct (IH x1 (j :: P) (rest ++ kids (st x1) RChildren (next (st x))) x' (qb_uf _ _ _ _ Q1) Hw1 E) as [P' [U' [W' [S1 [S2 [S3 [S4 [S5 C]]]]]]]].
        pose proof (qb_next _ _ _ _ Q1) as Hn1.
        exists P'. split; [exact U'|]. split; [exact W'|]. split; [intros i Hi; apply S1; right; exact Hi|].
        split; [intros i [<-|Hi]; [apply S1; left; reflexivity|apply S2; apply in_or_app; left; exact Hi]|].
        split.
        { intros i Hi. rewrite (S3 i (or_intror Hi)).
          assert (HiPQ : In i (P ++ j :: rest)) by (apply in_or_app; left; exact Hi).
          destruct (w_cont _ _ _ _ _ Hw i HiPQ) as [Hilt _].
          apply (qb_iref_old _ _ _ _ Q1 i Hilt). intros ->.
          pose proof (settled_unique (st x) j I2 (w_set _ _ _ _ _ Hw j Hi)) as H'. rewrite H' in Hu. discriminate. }
        split.
        { intros y Hy. destruct (S4 y ltac:(lia)) as [A B]. destruct (qb_old _ _ _ _ Q1 y Hy) as [A1 [B1 _]]. rewrite A, B. split; assumption. }
        split; [lia|].
        cbn [uniq_clean]. destruct U' as [I' _].
        rewrite (settled_unique (st x') j (inv_r _ I') (w_set _ _ _ _ _ W' j (S1 j (or_introl eq_refl)))).
        rewrite (S3 j (or_introl eq_refl)), (qb_inst _ _ _ _ Q1). rewrite (proj1 (S4 (next (st x)) Hn1)). exact C.
  Qed.

  (* after a completed uniquify every instance the walk meets is unique *)
  Theorem uniquify_makes_unique fuel x n x' :
    UF (st x) -> top (st x) n = Some t -> iref (st x) t = Some dtop ->
    (forall i, iref (st x) i = Some dtop -> i = t) -> par (st x) RChildren t = None ->
    uniquify fuel x n = (x', None) ->
    uniq_clean fuel (st x') (kids (st x') RChildren dtop) = true.
  Proof.
    intros U Ht Hr Hsole Hpar E. unfold uniquify in E. rewrite Ht, Hr in E.
    pose proof U as [I [T [F [FT0 K]]]]. pose proof (inv_a _ I) as I1.
    assert (Hdt : dtop < next (st x)) by (apply (ref_lt _ _ _ K F Hr)).
    assert (Htl : t < next (st x)).
    { destruct (Nat.lt_ge_cases t (next (st x))) as [H|H]; [exact H|]. rewrite (f_iref _ F t H) in Hr. discriminate. }
    assert (Hw : W dtop t (st x) [] (kids (st x) RChildren dtop)).
    { constructor.
      - intros i [].
      - intros i Hi. cbn [app] in Hi. split; [apply (children_lt _ dtop I1 (above_of_fresh _ F) i Hi)|].
        exists dtop. split; [apply (i1_kids _ I1); exact Hi|left; reflexivity].
      - repeat split; assumption. }
    destruct (loop_spec fuel x [] (kids (st x) RChildren dtop) x' U Hw E) as [P' [_ [_ [_ [_ [_ [S4 [_ C]]]]]]]].
    rewrite (proj1 (S4 dtop Hdt)). exact C.
  Qed.
End Run.
