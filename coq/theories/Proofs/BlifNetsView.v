(* EBLIF engine, connectivity clause of C18: what each primitive edit of the reader does to the model
   called [nm], as three nested relations between [get_model nm] before and after:
     vcore   cables, library, declared flag, number of instances are the same;
     veq     vcore and every port name has the same direction (absent = UNDEFINED);
     geq     vcore and the same ports by name and direction, in the same order. *)
From Coq Require Import List Arith NArith Bool Lia Permutation.
From SV Require Import Base.Base Fmt.Blif Fmt.BlifRead Fmt.BlifSpec
  Proofs.BlifBase Proofs.BlifWF Proofs.BlifExec Proofs.BlifNetsBase.
Import ListNotations.

Definition pdirs (m : model) : list (str * dir) := map (fun q => (p_name q, p_dir q)) (m_ports m).

Definition vcore (m m' : model) : Prop :=
  m_cables m' = m_cables m /\ m_lib m' = m_lib m /\ m_defined m' = m_defined m /\
  length (m_insts m') = length (m_insts m).
Definition veq (m m' : model) : Prop := vcore m m' /\ forall p, port_dir p m' = port_dir p m.
Definition geq (m m' : model) : Prop := vcore m m' /\ pdirs m' = pdirs m.

Lemma vcore_refl m : vcore m m.
Proof. repeat split. Qed.
Lemma vcore_trans a b c : vcore a b -> vcore b c -> vcore a c.
Proof. intros [A1 [A2 [A3 A4]]] [B1 [B2 [B3 B4]]]. repeat split; congruence. Qed.
Lemma veq_refl m : veq m m.
Proof. split; [apply vcore_refl|reflexivity]. Qed.
Lemma veq_trans a b c : veq a b -> veq b c -> veq a c.
Proof. intros [A1 A2] [B1 B2]. split; [eapply vcore_trans; eauto|]. intro p. rewrite B2. apply A2. Qed.
Lemma geq_refl m : geq m m.
Proof. split; [apply vcore_refl|reflexivity]. Qed.
Lemma geq_trans a b c : geq a b -> geq b c -> geq a c.
Proof. intros [A1 A2] [B1 B2]. split; [eapply vcore_trans; eauto|congruence]. Qed.
Lemma geq_veq a b : geq a b -> veq a b.
Proof. intros [A1 A2]. split; [exact A1|]. apply port_dir_pdirs. exact A2. Qed.
Lemma veq_vcore a b : veq a b -> vcore a b.
Proof. intros [A _]. exact A. Qed.
Lemma peq_geq a b : peq a b -> geq a b.
Proof. intros [A1 [A2 [A3 [A4 [A5 [A6 A7]]]]]]. repeat split; auto. unfold pdirs. rewrite A2. reflexivity. Qed.
Lemma eq_geq a b : a = b -> geq a b.
Proof. intros ->. apply geq_refl. Qed.

Lemma geq_names a b : geq a b -> map p_name (m_ports b) = map p_name (m_ports a).
Proof.
  intros [_ H]. transitivity (map fst (pdirs b)); [unfold pdirs; rewrite map_map; reflexivity|].
  rewrite H. unfold pdirs. rewrite map_map. reflexivity.
Qed.

(* ---------- primitives ---------- *)
Lemma geq_add_pins r new ms nm : geq (get_model nm ms) (get_model nm (add_pins_refs r new ms)).
Proof. apply peq_geq. apply peq_add_pins. Qed.

Lemma geq_grow_port r p w ms nm : geq (get_model nm ms) (get_model nm (grow_port r p w ms)).
Proof.
  destruct (get_model_grow_port r p w ms nm) as [m' [E [H1 [H2 [H3 [H4 [H5 [H6 [H7 H8]]]]]]]]]. rewrite E.
  repeat split; assumption.
Qed.

Lemma geq_add_port_other r q ms nm : nm <> r -> geq (get_model nm ms) (get_model nm (add_port r q ms)).
Proof. intro H. apply peq_geq. apply get_model_add_port_other. exact H. Qed.

Lemma vcore_add_port r q ms nm : vcore (get_model nm ms) (get_model nm (add_port r q ms)).
Proof.
  destruct (list_eq_dec N.eq_dec nm r) as [->|Hne].
  - destruct (find_model r ms) as [m|] eqn:E.
    + destruct (get_model_add_port_same r q ms m E) as [m' [E' [H1 [H2 [H3 [H4 [H5 [H6 [H7 H8]]]]]]]]].
      rewrite E', (get_model_find _ _ _ E). repeat split; assumption.
    + unfold add_port. rewrite get_model_add_pins.
      rewrite find_model_upd by (intros x Hx; exact Hx). rewrite E. rewrite (get_model_none _ _ E). apply vcore_refl.
  - destruct (geq_add_port_other r q ms nm Hne) as [H _]. exact H.
Qed.

(* a new port without direction: every name keeps its direction *)
Lemma veq_add_port_undef r q ms nm :
  find_port (p_name q) (m_ports (get_model r ms)) = None -> p_dir q = DUndef ->
  veq (get_model nm ms) (get_model nm (add_port r q ms)).
Proof.
  intros Hf Hd. split; [apply vcore_add_port|].
  destruct (list_eq_dec N.eq_dec nm r) as [->|Hne].
  - destruct (find_model r ms) as [m|] eqn:E.
    + destruct (get_model_add_port_same r q ms m E) as [m' [E' [H1 [H2 _]]]].
      rewrite E', (get_model_find _ _ _ E) in *. intro p. unfold port_dir. rewrite H2, find_port_app.
      destruct (find_port p (m_ports m)) eqn:E2; [reflexivity|].
      destruct (str_eqb (p_name q) p); [exact Hd|reflexivity].
    + unfold add_port. rewrite get_model_add_pins.
      rewrite find_model_upd by (intros x Hx; exact Hx). rewrite E. rewrite (get_model_none _ _ E). reflexivity.
  - intro p. apply (geq_veq _ _ (geq_add_port_other r q ms nm Hne)).
Qed.

Lemma geq_ensure_port_other r q ms nm : nm <> r -> geq (get_model nm ms) (get_model nm (ensure_port r q ms)).
Proof. intro H. unfold ensure_port. destruct (find_port _ _); [apply geq_refl|apply geq_add_port_other; exact H]. Qed.

Lemma vcore_ensure_port r q ms nm : vcore (get_model nm ms) (get_model nm (ensure_port r q ms)).
Proof. unfold ensure_port. destruct (find_port _ _); [apply vcore_refl|apply vcore_add_port]. Qed.

Lemma geq_fold_ensure_port_other {X} r (g : X -> port) (l : list X) ms nm : nm <> r ->
  geq (get_model nm ms) (get_model nm (fold_left (fun ms x => ensure_port r (g x) ms) l ms)).
Proof.
  intro H. revert ms. induction l as [|x l IH]; intro ms; cbn; [apply geq_refl|].
  eapply geq_trans; [apply geq_ensure_port_other; exact H|apply IH].
Qed.

Lemma vcore_fold_ensure_port {X} r (g : X -> port) (l : list X) ms nm :
  vcore (get_model nm ms) (get_model nm (fold_left (fun ms x => ensure_port r (g x) ms) l ms)).
Proof.
  revert ms. induction l as [|x l IH]; intro ms; cbn; [apply vcore_refl|].
  eapply vcore_trans; [apply vcore_ensure_port|apply IH].
Qed.

Lemma mnames_ensure_port r q ms : map m_name (ensure_port r q ms) = map m_name ms.
Proof. unfold ensure_port. destruct (find_port _ _); [reflexivity|apply names_add_port]. Qed.

Lemma mnames_fold_ensure_port {X} r (g : X -> port) (l : list X) ms :
  map m_name (fold_left (fun ms x => ensure_port r (g x) ms) l ms) = map m_name ms.
Proof.
  revert ms. induction l as [|x l IH]; intro ms; cbn; [reflexivity|]. rewrite IH. apply mnames_ensure_port.
Qed.

(* updates of one model *)
Lemma get_model_upd_res_other cur f ms ms' nm :
  upd_model_res cur f ms = Ok ms' -> (forall m m', f m = Ok m' -> m_name m' = m_name m) -> nm <> cur ->
  get_model nm ms' = get_model nm ms.
Proof.
  unfold upd_model_res. destruct (find_model cur ms) as [m|] eqn:E; [|discriminate].
  intros H Hf Hne. apply bind_ok in H as [m' [H1 H2]]. inversion H2; subst ms'.
  apply get_model_upd_other; [|exact Hne]. intros x Hx. rewrite (Hf _ _ H1). apply find_model_In in E. tauto.
Qed.

Lemma get_model_upd_res_same cur f ms ms' :
  upd_model_res cur f ms = Ok ms' -> (forall m m', f m = Ok m' -> m_name m' = m_name m) ->
  exists m', f (get_model cur ms) = Ok m' /\ get_model cur ms' = m' /\ find_model cur ms = Some (get_model cur ms).
Proof.
  unfold upd_model_res. destruct (find_model cur ms) as [m|] eqn:E; [|discriminate].
  intros H Hf. apply bind_ok in H as [m' [H1 H2]]. inversion H2; subst ms'.
  exists m'. rewrite (get_model_find _ _ _ E). split; [exact H1|]. split; [|reflexivity].
  rewrite (get_model_upd_same _ _ _ m); [reflexivity| |exact E].
  intros x Hx. rewrite (Hf _ _ H1). apply find_model_In in E. tauto.
Qed.

Lemma geq_upd_inst cur idx f ms nm : geq (get_model nm ms) (get_model nm (upd_model cur (upd_inst idx f) ms)).
Proof.
  rewrite get_model_upd by (intros x Hx; exact Hx). unfold get_model.
  destruct (find_model nm ms) as [m|]; [|apply geq_refl].
  destruct (str_eqb nm cur); [|apply geq_refl]. repeat split. cbn. apply length_upd_nth.
Qed.

Lemma geq_set_inst_name cur idx name ms ms' nm :
  upd_model_res cur (set_inst_name idx name) ms = Ok ms' -> geq (get_model nm ms) (get_model nm ms').
Proof.
  intro H. destruct (list_eq_dec N.eq_dec nm cur) as [->|Hne].
  - destruct (get_model_upd_res_same _ _ _ _ H) as [m' [H1 [H2 _]]]; [intros; eapply set_inst_name_name; eauto|].
    rewrite H2. unfold set_inst_name in H1. destruct (name_taken _ _ _); [discriminate|]. inversion H1.
    repeat split. cbn. apply length_upd_nth.
  - apply eq_geq. symmetry. eapply get_model_upd_res_other; [exact H| |exact Hne]. intros; eapply set_inst_name_name; eauto.
Qed.

Lemma get_model_add_child_other cur ref k ms nm : nm <> cur -> get_model nm (add_child cur ref k ms) = get_model nm ms.
Proof. intro H. unfold add_child. apply get_model_upd_other; [intros x Hx; exact Hx|exact H]. Qed.

Lemma get_model_add_child_same cur ref k ms m :
  find_model cur ms = Some m ->
  get_model cur (add_child cur ref k ms) = set_insts m (m_insts m ++ [new_inst ref k (all_pins (get_model ref ms))]).
Proof. intro H. unfold add_child. rewrite (get_model_upd_same _ _ _ m); [reflexivity|intros x Hx; exact Hx|exact H]. Qed.

(* ---------- parse_subcircuit_port: new ports have no direction ---------- *)
Lemma veq_do_pair ref ms info tok ms' info' nm :
  do_pair ref (Ok (ms, info)) tok = Ok (ms', info') ->
  veq (get_model nm ms) (get_model nm ms') /\ map m_name ms' = map m_name ms /\
  info' = sassoc_set (fst (split_eq tok)) (snd (split_eq tok)) info.
Proof.
  intro H. unfold do_pair in H. cbn [bind] in H. destruct (split_eq tok) as [formal actual].
  destruct (pni formal) as [[p i]|]; [|discriminate]. cbn [bind] in H.
  set (ms1 := match find_port _ _ with None => _ | Some _ => ms end) in H.
  assert (V1 : veq (get_model nm ms) (get_model nm ms1) /\ map m_name ms1 = map m_name ms).
  { unfold ms1. destruct (find_port p (m_ports (get_model ref ms))) eqn:E; [split; [apply veq_refl|reflexivity]|].
    split; [apply veq_add_port_undef; [exact E|reflexivity]|apply names_add_port]. }
  destruct V1 as [V1 N1].
  destruct (Nat.leb _ _); inversion H; subst; cbn [fst snd]; (split; [|split; [|reflexivity]]); auto.
  - eapply veq_trans; [exact V1|]. apply geq_veq. apply geq_grow_port.
  - rewrite names_grow_port. exact N1.
Qed.

Lemma veq_do_pairs ref pairs : forall ms info ms' info' nm,
  fold_left (do_pair ref) pairs (Ok (ms, info)) = Ok (ms', info') ->
  veq (get_model nm ms) (get_model nm ms') /\ map m_name ms' = map m_name ms /\
  info' = fold_left (fun a t => sassoc_set (fst (split_eq t)) (snd (split_eq t)) a) pairs info.
Proof.
  induction pairs as [|t pairs IH]; intros ms info ms' info' nm H; cbn [fold_left] in H.
  - inversion H; subst. split; [apply veq_refl|]. split; reflexivity.
  - destruct (do_pair ref (Ok (ms, info)) t) as [[ms1 info1]|e] eqn:E.
    + destruct (veq_do_pair _ _ _ _ _ _ nm E) as [V1 [N1 I1]].
      destruct (IH _ _ _ _ nm H) as [V2 [N2 I2]].
      split; [eapply veq_trans; eauto|]. split; [congruence|]. cbn [fold_left]. rewrite <- I1. exact I2.
    + exfalso. clear -H. induction pairs as [|u pairs IH]; cbn in H; [discriminate|]. apply IH. exact H.
Qed.

Lemma pairs_info pairs :
  fold_left (fun a t => sassoc_set (fst (split_eq t)) (snd (split_eq t)) a) pairs [] = pairs_of pairs.
Proof.
  unfold pairs_of, dict_of. generalize (@nil (str * str)) as acc.
  induction pairs as [|t pairs IH]; intro acc; cbn; [reflexivity|]. apply IH.
Qed.
