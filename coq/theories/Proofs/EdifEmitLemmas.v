(* Per-construct inverse lemmas of the EDIF writer model against the reader model (steps towards
   Props/C03.v C03_emit_roundtrip_full):
     unescape_escape       the reader's %..% decoding undoes _escape_string_, for EVERY string
     escape_tok_ok         the escaped text of a printable string is a string token
     name_roundtrip        _output_name_of_object_ / parse_nameDef: identifier and name come back
     value_roundtrip_str / _bool   (string "..") and (boolean (True|False)) come back
     dir_roundtrip         the direction construct
     int_roundtrip         str(int) read by int(): (integer z) comes back for every z : Z *)
From Coq Require Import List NArith ZArith Bool Arith String Lia.
From SV Require Import Base.Base Fmt.EdifLex Fmt.EdifName Fmt.EdifCable Fmt.EdifBus Fmt.EdifNets
  Fmt.EdifFile Fmt.EdifEmit Proofs.EdifNameProofs.
Import ListNotations.
Local Open Scope N_scope.

Lemma unesc_escape s : unesc (escape_string s) None = Ok s.
Proof.
  induction s as [|c s IH]; [reflexivity|].
  unfold escape_string in *. cbn [flat_map]. unfold esc_char at 1.
  destruct (N.eqb c 37) eqn:E37.
  - apply N.eqb_eq in E37. subst c. cbn -[unesc flat_map].
    change (unesc (37 :: 51 :: 55 :: 37 :: flat_map esc_char s) None)
      with (match unesc (flat_map esc_char s) None with Ok b => Ok ([37] ++ b) | Err e => Err e end).
    now rewrite IH.
  - destruct (N.eqb c 34) eqn:E34.
    + apply N.eqb_eq in E34. subst c. cbn -[unesc flat_map].
      change (unesc (37 :: 51 :: 52 :: 37 :: flat_map esc_char s) None)
        with (match unesc (flat_map esc_char s) None with Ok b => Ok ([34] ++ b) | Err e => Err e end).
      now rewrite IH.
    + cbn [app unesc]. rewrite E37. now rewrite IH.
Qed.

Theorem unescape_escape s : unescape_value (escape_string s) = Ok s.
Proof. apply unesc_escape. Qed.

Lemma escape_tok_ok s : text_ok s = true -> str_tok_ok (escape_string s) = true.
Proof.
  unfold text_ok, str_tok_ok, escape_string. induction s as [|c s IH]; [reflexivity|].
  cbn [forallb flat_map]. intros H. apply andb_true_iff in H as [Hc Hs].
  rewrite forallb_app, (IH Hs), andb_true_r. unfold esc_char.
  destruct (N.eqb c 37) eqn:E37; [reflexivity|].
  destruct (N.eqb c 34) eqn:E34; [reflexivity|].
  cbn [forallb]. rewrite andb_true_r. unfold str_char_valid. rewrite E34. cbn [negb]. now rewrite andb_true_r.
Qed.

Lemma has_nlcr_text s : text_ok s = true -> has_nlcr s = false.
Proof.
  unfold text_ok, has_nlcr. induction s as [|c s IH]; [reflexivity|].
  cbn [forallb existsb]. intros H. apply andb_true_iff in H as [Hc Hs]. rewrite (IH Hs), orb_false_r.
  unfold is_nlcr, c_nl, c_cr.
  destruct (N.eqb c 10) eqn:E10; [apply N.eqb_eq in E10; subst c; discriminate|].
  destruct (N.eqb c 13) eqn:E13; [apply N.eqb_eq in E13; subst c; discriminate|]. reflexivity.
Qed.

(* what parse_nameDef returns for what _output_name_of_object_ writes *)
Theorem name_roundtrip ident name x :
  ident_tok_ok ident = true -> text_ok name = true -> name_sexp ident name = EmOk x ->
  exists n, parse_namedef x = Ok n /\ nm_ident n = ident /\ nm_name n = name.
Proof.
  intros Hi Ht. unfold name_sexp.
  destruct (str_eqb name ident) eqn:E.
  - apply str_eqb_spec in E. subst name. unfold atom_of. destruct (atom_ok ident); [|discriminate].
    intros H. inversion H. subst x. cbn [parse_namedef]. rewrite Hi. eexists. split; [reflexivity|]. split; reflexivity.
  - unfold rename_sexp, atom_of, estr_of. destruct (atom_ok ident); [|discriminate].
    rewrite (has_nlcr_text _ Ht). intros H. inversion H. subst x.
    cbn [parse_namedef parse_rename]. rewrite Hi, (escape_tok_ok _ Ht).
    replace (is_kw "rename" (KW "rename")) with true by (vm_compute; reflexivity).
    cbn [andb]. rewrite unescape_escape. eexists. split; [reflexivity|]. split; reflexivity.
Qed.

Theorem value_roundtrip_str s x : text_ok s = true -> val_sexp (PVStr s) = EmOk x -> parse_typed x = Ok (PVStr s).
Proof.
  intros Ht. unfold val_sexp, estr_of. rewrite (has_nlcr_text _ Ht). intros H. inversion H. subst x.
  unfold parse_typed, KW.
  replace (kweq (lower (K "string")) "boolean") with false by (vm_compute; reflexivity).
  replace (kweq (lower (K "string")) "integer") with false by (vm_compute; reflexivity).
  replace (kweq (lower (K "string")) "minomax") with false by (vm_compute; reflexivity).
  replace (kweq (lower (K "string")) "number") with false by (vm_compute; reflexivity).
  replace (kweq (lower (K "string")) "point") with false by (vm_compute; reflexivity).
  replace (kweq (lower (K "string")) "string") with true by (vm_compute; reflexivity).
  now rewrite (escape_tok_ok _ Ht), unescape_escape.
Qed.

Theorem value_roundtrip_bool b x : val_sexp (PVBool b) = EmOk x -> parse_typed x = Ok (PVBool b).
Proof. destruct b; intros H; inversion H; subst x; vm_compute; reflexivity. Qed.

Theorem dir_roundtrip d l : dir_sexp d = EmOk l ->
  loop port_step false (false, 0) l = Ok (negb (N.eqb d 0), d).
Proof.
  unfold dir_sexp.
  destruct (N.eqb d 0) eqn:E0; [apply N.eqb_eq in E0; subst; intros H; inversion H; reflexivity|].
  destruct (N.eqb d 1) eqn:E1; [apply N.eqb_eq in E1; subst; intros H; inversion H; vm_compute; reflexivity|].
  destruct (N.eqb d 2) eqn:E2; [apply N.eqb_eq in E2; subst; intros H; inversion H; vm_compute; reflexivity|].
  destruct (N.eqb d 3) eqn:E3; [apply N.eqb_eq in E3; subst; intros H; inversion H; vm_compute; reflexivity|].
  discriminate.
Qed.

(* ---------------------------------------------------------------------------------------- *)
(* integers: the reader's int() on the writer's str(), every z *)
Lemma digits_us_fold s : forall acc nd, forallb is_digit s = true -> (s <> [] \/ nd = false) ->
  digits_us s (Z.of_N acc) nd = Some (Z.of_N (fold_left (fun a d => 10 * a + (d - 48)) s acc)).
Proof.
  induction s as [|c s IH]; intros acc nd Hd Hne.
  - destruct Hne as [Hne| ->]; [congruence|reflexivity].
  - cbn [forallb] in Hd. apply andb_true_iff in Hd as [Hc Hs].
    cbn [digits_us fold_left]. rewrite Hc.
    replace (10 * Z.of_N acc + Z.of_N (c - 48))%Z with (Z.of_N (10 * acc + (c - 48))) by lia.
    apply IH; auto.
Qed.

Lemma digits_us_dec n : digits_us (dec n) 0%Z true = Some (Z.of_N n).
Proof.
  pose proof (dec_digits n) as Hd. unfold isdigit in Hd.
  destruct (dec n) as [|c r] eqn:E; [discriminate|].
  change 0%Z with (Z.of_N 0). rewrite digits_us_fold; auto.
  - f_equal. f_equal. rewrite <- E. exact (int_of_dec n).
  - left. discriminate.
Qed.

Lemma int_tok_dec n : int_tok (dec n) = Some (Z.of_N n).
Proof.
  pose proof (dec_digits n) as Hd. unfold isdigit in Hd. pose proof (digits_us_dec n) as Hv.
  destruct (dec n) as [|c r] eqn:E; [discriminate|].
  cbn [forallb] in Hd. apply andb_true_iff in Hd as [Hc _].
  unfold int_tok. unfold is_digit in Hc. apply andb_true_iff in Hc as [H1 H2].
  apply N.leb_le in H1. apply N.leb_le in H2.
  destruct (N.eqb c 45) eqn:E45; [apply N.eqb_eq in E45; lia|].
  destruct (N.eqb c 43) eqn:E43; [apply N.eqb_eq in E43; lia|]. exact Hv.
Qed.

Theorem int_roundtrip z : int_tok (dec_z z) = Some z.
Proof.
  destruct z as [|p|p]; cbn [dec_z].
  - exact (int_tok_dec 0).
  - exact (int_tok_dec (Npos p)).
  - cbn [int_tok]. replace (N.eqb 45 45) with true by reflexivity. rewrite digits_us_dec. reflexivity.
Qed.

Theorem value_roundtrip_int z x : val_sexp (PVInt z) = EmOk x -> parse_typed x = Ok (PVInt z).
Proof.
  intros H. inversion H. subst x. unfold parse_typed, KW.
  replace (kweq (lower (K "integer")) "boolean") with false by (vm_compute; reflexivity).
  replace (kweq (lower (K "integer")) "integer") with true by (vm_compute; reflexivity).
  now rewrite int_roundtrip.
Qed.

(* one property: (property name value) read by parse_property *)
Theorem prop_roundtrip p x : propid_w (pr_ident p) = true -> prop_w p = true ->
  prop_sexp p = EmOk x -> exists args, x = SList (KW "property" :: args) /\ parse_property args = Ok p.
Proof.
  intros Hid Hw. unfold prop_w in Hw. apply andb_true_iff in Hw as [Hw Hv]. apply andb_true_iff in Hw as [_ Ho].
  unfold propid_w in Hid. apply andb_true_iff in Hid as [Hid _]. apply andb_true_iff in Hid as [Hid Hat].
  destruct p as [idt orig v]. cbn [pr_ident pr_orig pr_val] in *. unfold prop_sexp. cbn [pr_ident pr_orig pr_val].
  assert (Hn : forall nx, match orig with Some o => rename_sexp idt o | None => atom_of idt end = EmOk nx ->
                parse_namedef nx = Ok (mknmd idt orig)).
  { intros nx. destruct orig as [o|].
    - unfold rename_sexp, atom_of, estr_of. rewrite Hat, (has_nlcr_text _ Ho). intros H. inversion H. subst nx.
      cbn [parse_namedef parse_rename]. rewrite Hid, (escape_tok_ok _ Ho).
      replace (is_kw "rename" (KW "rename")) with true by (vm_compute; reflexivity).
      cbn [andb]. now rewrite unescape_escape.
    - unfold atom_of. rewrite Hat. intros H. inversion H. subst nx. cbn [parse_namedef]. now rewrite Hid. }
  destruct (match orig with Some o => rename_sexp idt o | None => atom_of idt end) as [nx| |] eqn:En; try discriminate.
  specialize (Hn nx eq_refl).
  destruct (val_sexp v) as [vx| |] eqn:Ev; try discriminate.
  intros H. inversion H. subst x. eexists. split; [reflexivity|].
  assert (Hpv : parse_typed vx = Ok v).
  { destruct v as [z|s|b].
    - now apply value_roundtrip_int. - now apply value_roundtrip_str. - now apply value_roundtrip_bool. }
  unfold parse_property. rewrite Hn, Hpv. cbn [loop]. reflexivity.
Qed.

(* ---------------------------------------------------------------------------------------- *)
(* ports: (port name [direction]) and (port (array name n) [direction]) read by parse_port *)
Lemma ident_w_parts i : ident_w i = true ->
  NS.check_edif_identifier i = true /\ ident_tok_ok i = true /\ atom_ok i = true.
Proof.
  unfold ident_w. intros H. repeat (apply andb_true_iff in H; destruct H as [H ?]). auto.
Qed.

Lemma name_cases ident name x : text_ok name = true -> name_sexp ident name = EmOk x ->
  (x = Atom ident /\ name = ident) \/ x = SList [KW "rename"; Atom ident; Str (escape_string name)].
Proof.
  intros Ht. unfold name_sexp. destruct (str_eqb name ident) eqn:E.
  - apply str_eqb_spec in E. unfold atom_of. destruct (atom_ok ident); [|discriminate].
    intros H. inversion H. left. auto.
  - unfold rename_sexp, atom_of, estr_of. destruct (atom_ok ident); [|discriminate].
    rewrite (has_nlcr_text _ Ht). intros H. inversion H. right. reflexivity.
Qed.

Lemma rename_read ident name : ident_tok_ok ident = true -> text_ok name = true ->
  parse_rename [KW "rename"; Atom ident; Str (escape_string name)] = Ok (mknmd ident (Some name)).
Proof.
  intros Hi Ht. cbn [parse_rename]. rewrite Hi, (escape_tok_ok _ Ht).
  replace (is_kw "rename" (KW "rename")) with true by (vm_compute; reflexivity).
  cbn [andb]. now rewrite unescape_escape.
Qed.

Theorem elemname_roundtrip ident name x : ident_w ident = true -> text_ok name = true ->
  name_sexp ident name = EmOk x ->
  exists n, parse_elemname x = Ok n /\ nm_ident n = ident /\ nm_name n = name.
Proof.
  intros Hi Ht Hx. destruct (ident_w_parts _ Hi) as (Hc & Htok & Hat).
  destruct (name_roundtrip _ _ _ Htok Ht Hx) as (n & Hn & Hid & Hnm).
  exists n. unfold parse_elemname. rewrite Hn. unfold legal. rewrite Hid, Hc. auto.
Qed.

Lemma port_head_scalar ident name x : ident_w ident = true -> text_ok name = true ->
  name_sexp ident name = EmOk x ->
  exists n, parse_port_head x = Ok (n, 1, false) /\ nm_ident n = ident /\ nm_name n = name.
Proof.
  intros Hi Ht Hx. destruct (ident_w_parts _ Hi) as (Hc & Htok & Hat).
  destruct (name_cases _ _ _ Ht Hx) as [[-> ->]| ->].
  - destruct (elemname_roundtrip _ _ _ Hi Ht Hx) as (n & Hn & H1 & H2).
    exists n. cbn [parse_port_head]. rewrite Hn. auto.
  - exists (mknmd ident (Some name)). unfold parse_port_head.
    replace (is_kw "rename" (KW "rename")) with true by (vm_compute; reflexivity).
    rewrite (rename_read _ _ Htok Ht). unfold legal. cbn [nm_ident]. rewrite Hc. auto.
Qed.

Theorem port_roundtrip ports p x : port_w p = true -> port_sexp p = EmOk x ->
  ident_taken (po_ident p) (map po_ident ports) = false ->
  name_taken (po_name p) (map po_name ports) = false ->
  exists args, x = SList (KW "port" :: args) /\ parse_port ports args = Ok p.
Proof.
  intros Hw Hx Hti Htn. unfold port_w in Hw.
  apply andb_true_iff in Hw as [Hw Harr]. apply andb_true_iff in Hw as [Hw Hmax].
  apply andb_true_iff in Hw as [Hw Hmin]. apply andb_true_iff in Hw as [Hw Hdir].
  unfold elem_w in Hw. apply andb_true_iff in Hw as [Hi Ht].
  destruct p as [name ident d w arr]. cbn [po_name po_ident po_dir po_width po_array] in *.
  unfold port_sexp in Hx. cbn [po_name po_ident po_dir po_width po_array] in Hx.
  destruct (name_sexp ident name) as [nx| |] eqn:En; try discriminate.
  destruct (dir_sexp d) as [dl| |] eqn:Ed; try discriminate.
  pose proof (dir_roundtrip _ _ Ed) as Hd.
  assert (Hplace : forall n, nm_ident n = ident -> nm_name n = name ->
            place_strict (map po_name ports) (map po_ident ports) n = Ok tt).
  { intros n H1 H2. unfold place_strict. now rewrite H1, H2, Hti, Htn. }
  destruct arr.
  - inversion Hx. subst x. cbn [app]. eexists. split; [reflexivity|].
    destruct (elemname_roundtrip _ _ _ Hi Ht En) as (n & Hn & Hn1 & Hn2).
    unfold parse_port. unfold parse_port_head.
    replace (is_kw "rename" (KW "array")) with false by (vm_compute; reflexivity).
    replace (is_kw "array" (KW "array")) with true by (vm_compute; reflexivity).
    rewrite Hn, int_tok_dec.
    apply N.leb_le in Hmax. apply N.leb_le in Hmin.
    replace (max_bits <? Z.of_N w)%Z with false by (symmetry; apply Z.ltb_ge; unfold max_bits; lia).
    replace (Z.of_N w <? 1)%Z with false by (symmetry; apply Z.ltb_ge; lia).
    rewrite Hd. cbn [fst snd]. rewrite (Hplace n Hn1 Hn2). rewrite Hn1, Hn2, N2Z.id. reflexivity.
  - inversion Hx. subst x. eexists. split; [reflexivity|].
    destruct (port_head_scalar _ _ _ Hi Ht En) as (n & Hn & H1' & H2').
    unfold parse_port. rewrite Hn, Hd. cbn [fst snd]. rewrite (Hplace n H1' H2'). rewrite H1', H2'.
    cbn [orb] in Harr. apply N.eqb_eq in Harr. now subst w.
Qed.

(* ---------------------------------------------------------------------------------------- *)
(* the interface: all ports of a cell, in order, through the reader's interface loop *)
Lemma str_eqb_sym a b : str_eqb a b = str_eqb b a.
Proof.
  destruct (str_eqb a b) eqn:E1, (str_eqb b a) eqn:E2; auto.
  - apply str_eqb_spec in E1. subst. now rewrite str_eqb_refl in E2.
  - apply str_eqb_spec in E2. subst. now rewrite str_eqb_refl in E1.
Qed.

Lemma ident_eqb_sym a b : ident_eqb a b = ident_eqb b a.
Proof. unfold ident_eqb. apply str_eqb_sym. Qed.

Lemma uniq_ci_mid l1 : forall a l2, uniq_ci (l1 ++ a :: l2) = true -> existsb (ident_eqb a) l1 = false.
Proof.
  induction l1 as [|b l1 IH]; intros a l2 H; [reflexivity|].
  cbn [app uniq_ci] in H. apply andb_true_iff in H as [Hb Hr].
  cbn [existsb]. rewrite (IH _ _ Hr), orb_false_r.
  apply negb_true_iff in Hb. rewrite existsb_app in Hb. apply orb_false_iff in Hb as [_ Hb].
  cbn [existsb] in Hb. apply orb_false_iff in Hb as [Hb _]. now rewrite ident_eqb_sym.
Qed.

Lemma uniq_x_mid l1 : forall a l2, uniq_x (l1 ++ a :: l2) = true -> existsb (str_eqb a) l1 = false.
Proof.
  induction l1 as [|b l1 IH]; intros a l2 H; [reflexivity|].
  cbn [app uniq_x] in H. apply andb_true_iff in H as [Hb Hr].
  cbn [existsb]. rewrite (IH _ _ Hr), orb_false_r.
  apply negb_true_iff in Hb. rewrite existsb_app in Hb. apply orb_false_iff in Hb as [_ Hb].
  cbn [existsb] in Hb. apply orb_false_iff in Hb as [Hb _]. now rewrite str_eqb_sym.
Qed.

Lemma ports_loop ps : forall acc xs, emap port_sexp ps = EmOk xs -> forallb port_w ps = true ->
  uniq_ci (map po_ident (acc ++ ps)) = true -> uniq_x (map po_name (acc ++ ps)) = true ->
  loop interface_step false (acc, false) xs = Ok (acc ++ ps, false).
Proof.
  induction ps as [|p ps IH]; intros acc xs Hx Hw Hi Hn.
  - inversion Hx. now rewrite app_nil_r.
  - cbn [emap] in Hx. destruct (port_sexp p) as [x| |] eqn:Ep; try discriminate.
    destruct (emap port_sexp ps) as [xs'| |] eqn:Eps; try discriminate. inversion Hx. subst xs.
    cbn [forallb] in Hw. apply andb_true_iff in Hw as [Hwp Hws].
    rewrite map_app in Hi, Hn. cbn [map] in Hi, Hn.
    destruct (port_roundtrip acc p x Hwp Ep (uniq_ci_mid _ _ _ Hi) (uniq_x_mid _ _ _ Hn)) as (args & -> & Hp).
    unfold KW. cbn [loop]. unfold interface_step at 1.
    replace (kweq (lower (K "port")) "port") with true by (vm_compute; reflexivity).
    cbn [fst snd]. rewrite Hp.
    replace (acc ++ p :: ps) with ((acc ++ [p]) ++ ps) by (now rewrite <- app_assoc).
    apply IH; auto.
    + rewrite <- app_assoc. cbn [app]. now rewrite map_app.
    + rewrite <- app_assoc. cbn [app]. now rewrite map_app.
Qed.

(* (interface port..) of a cell read by parse_interface: the ports come back, in order *)
Theorem interface_roundtrip ps xs : emap port_sexp ps = EmOk xs -> forallb port_w ps = true ->
  uniq_ci (map po_ident ps) = true -> uniq_x (map po_name ps) = true ->
  parse_interface (SList (KW "interface" :: xs)) = Ok ps.
Proof.
  intros Hx Hw Hi Hn. unfold parse_interface.
  replace (is_kw "interface" (KW "interface")) with true by (vm_compute; reflexivity).
  rewrite (ports_loop ps [] xs Hx Hw Hi Hn). reflexivity.
Qed.

(* ---------------------------------------------------------------------------------------- *)
(* instances: (instance name (viewref netlist (cellref c (libraryref l))) property..) *)
Lemma props_loop ps : forall acc xs, emap prop_sexp ps = EmOk xs -> forallb prop_w ps = true ->
  loop inst_step false acc xs = Ok (acc ++ ps).
Proof.
  induction ps as [|p ps IH]; intros acc xs Hx Hw.
  - inversion Hx. now rewrite app_nil_r.
  - cbn [emap] in Hx. destruct (prop_sexp p) as [x| |] eqn:Ep; try discriminate.
    destruct (emap prop_sexp ps) as [xs'| |] eqn:Eps; try discriminate. inversion Hx. subst xs.
    cbn [forallb] in Hw. apply andb_true_iff in Hw as [Hwp Hws].
    assert (Hid : propid_w (pr_ident p) = true).
    { unfold prop_w in Hwp. apply andb_true_iff in Hwp as [Hwp _]. now apply andb_true_iff in Hwp as [Hwp _]. }
    destruct (prop_roundtrip p x Hid Hwp Ep) as (args & -> & Hp).
    unfold KW. cbn [loop]. unfold inst_step at 1.
    replace (kweq (lower (K "property")) "property") with true by (vm_compute; reflexivity).
    rewrite Hp. replace (acc ++ p :: ps) with ((acc ++ [p]) ++ ps) by (now rewrite <- app_assoc).
    now apply IH.
Qed.

Lemma ident_w_nowild i : ident_w i = true -> has_wild i = false.
Proof.
  unfold ident_w. intros H. apply andb_true_iff in H as [H _]. apply andb_true_iff in H as [_ H].
  now apply negb_true_iff in H.
Qed.

Lemma nameref_read i : ident_w i = true -> parse_nameref (Atom i) = Ok i.
Proof.
  intros H. destruct (ident_w_parts _ H) as (_ & Htok & _). unfold parse_nameref.
  now rewrite Htok, (ident_w_nowild _ H).
Qed.

Theorem inst_roundtrip cx insts lib cell i x l c cs C :
  inst_sexp [] lib cell i = EmOk x -> in_ref i = Some (l, c) ->
  elem_w (in_ident i) (in_name i) = true -> forallb prop_w (in_props i) = true ->
  ident_w l = true -> ident_w c = true ->
  resolve_lib cx (Some l) = Ok (l, cs) -> find_cell c cs = Some C -> ce_ident C = c ->
  ce_view C = Some (K "netlist") ->
  ident_taken (in_ident i) (map (fun ip : einst => in_ident (fst ip)) insts) = false ->
  name_taken (in_name i) (map (fun ip : einst => in_name (fst ip)) insts) = false ->
  exists args, x = SList (KW "instance" :: args) /\ parse_instance cx insts args = Ok (i, ce_ports C).
Proof.
  intros Hx Href Hel Hps Hl Hc Hres Hfind Hcid Hview Hti Htn.
  destruct i as [name ident ref props]. cbn [in_name in_ident in_ref in_props] in *. subst ref.
  unfold elem_w in Hel. apply andb_true_iff in Hel as [Hi Ht].
  unfold inst_sexp in Hx. cbn [in_name in_ident in_ref in_props] in Hx.
  destruct (name_sexp ident name) as [nx| |] eqn:En; try discriminate.
  unfold atom_of in Hx.
  destruct (ident_w_parts _ Hl) as (_ & _ & Hatl). destruct (ident_w_parts _ Hc) as (_ & _ & Hatc).
  rewrite Hatc, Hatl in Hx.
  unfold props_sexp, float_props in Hx. cbn [find option_map] in Hx.
  destruct (emap prop_sexp props) as [pxs| |] eqn:Eps; try discriminate.
  inversion Hx. subst x. cbn [app]. eexists. split; [reflexivity|].
  destruct (elemname_roundtrip _ _ _ Hi Ht En) as (n & Hn & Hn1 & Hn2).
  unfold parse_instance. rewrite Hn. unfold KW.
  replace (kweq (lower (K "viewref")) "viewref") with true by (vm_compute; reflexivity).
  unfold parse_viewref.
  replace (parse_nameref (Atom (K "netlist"))) with (@Ok str (K "netlist")) by (vm_compute; reflexivity).
  replace (is_kw "cellref" (Atom (K "cellref"))) with true by (vm_compute; reflexivity).
  cbn [negb]. rewrite (nameref_read _ Hc).
  replace (is_kw "libraryref" (Atom (K "libraryref"))) with true by (vm_compute; reflexivity).
  rewrite (nameref_read _ Hl). rewrite Hres. cbn [fst snd]. rewrite Hfind, Hview. unfold view_ok.
  replace (ident_eqb (K "netlist") (K "netlist")) with true by (vm_compute; reflexivity).
  cbn [fst snd]. rewrite (props_loop props [] pxs Eps Hps). cbn [app].
  unfold place. rewrite Hn1, Hn2, Hti, Htn. now subst c.
Qed.
