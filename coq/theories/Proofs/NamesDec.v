(* C17 (engine names): str(n) / int(digits) of the model - round trip, injectivity, digits only,
   length bounds. *)
From Coq Require Import List Arith NArith Bool Lia.
From SV Require Import Base.Base IR.State IR.NS Names.Edifify.
Import ListNotations.
Local Open Scope N_scope.

Lemma digits_val_snoc l d : digits_val (l ++ [d]) = 10 * digits_val l + (d - 48).
Proof. unfold digits_val. rewrite fold_left_app. reflexivity. Qed.

Lemma dec_aux_app fuel : forall n acc, dec_aux fuel n acc = dec_aux fuel n [] ++ acc.
Proof.
  induction fuel as [|f IH]; intros n acc; cbn; [reflexivity|].
  destruct (n / 10 =? 0); [reflexivity|].
  rewrite IH. rewrite (IH _ [_]). rewrite <- app_assoc. reflexivity.
Qed.

Lemma dec_aux_step f n :
  dec_aux (S f) n [] = if n / 10 =? 0 then [48 + n mod 10] else dec_aux f (n / 10) [] ++ [48 + n mod 10].
Proof. cbn. destruct (n / 10 =? 0); [reflexivity|]. apply dec_aux_app. Qed.

Lemma div10_lt_pow2 n f : n < 2 ^ N.of_nat (S f) -> n / 10 < 2 ^ N.of_nat f.
Proof.
  intro H. rewrite Nat2N.inj_succ, N.pow_succ_r' in H.
  apply N.div_lt_upper_bound; lia.
Qed.

Lemma dec_aux_val f : forall n, n < 2 ^ N.of_nat f -> digits_val (dec_aux (S f) n []) = n.
Proof.
  induction f as [|f IH]; intros n H.
  - cbn in H. assert (n = 0) by lia. subst. reflexivity.
  - rewrite dec_aux_step. destruct (n / 10 =? 0) eqn:E.
    + apply N.eqb_eq in E. unfold digits_val. cbn [fold_left].
      pose proof (N.div_mod' n 10). pose proof (N.mod_lt n 10). lia.
    + rewrite digits_val_snoc, IH by (apply div10_lt_pow2; exact H).
      pose proof (N.div_mod' n 10). clear IH H E.
      set (q := n / 10) in *. set (m := n mod 10) in *. clearbody q m. lia.
Qed.

Lemma lt_pow2_log2 n : n < 2 ^ N.of_nat (N.to_nat (N.log2 n) + 1).
Proof.
  rewrite Nat2N.inj_add, N2Nat.id. change (N.of_nat 1) with 1. rewrite N.add_1_r.
  destruct (N.eq_dec n 0) as [->|Hn]; [cbn; lia|].
  apply N.log2_spec. lia.
Qed.

Lemma dec_unfold n : dec n = dec_aux (S (N.to_nat (N.log2 n) + 1)) n [].
Proof.
  unfold dec.
  destruct (N.eq_dec n 0) as [->|Hn]; [reflexivity|].
  replace (N.to_nat (N.log2 n) + 1)%nat with (S (N.to_nat (N.log2 n))) by lia.
  (* fuel S k with n < 2^(k+1): show S k suffices, where k = log2 n *)
  assert (G : forall f m, m < 2 ^ N.of_nat (S f) -> dec_aux (S f) m [] = dec_aux (S (S f)) m []).
  { induction f as [|f IH]; intros m H.
    - cbn in H. rewrite !dec_aux_step.
      assert (m / 10 = 0) by (apply N.div_small; lia). rewrite H0. reflexivity.
    - rewrite (dec_aux_step (S f)), (dec_aux_step (S (S f))).
      destruct (m / 10 =? 0); [reflexivity|]. rewrite <- IH; [reflexivity|].
      apply div10_lt_pow2. exact H. }
  apply G. rewrite Nat2N.inj_succ, N2Nat.id. apply N.log2_spec. lia.
Qed.

Theorem digits_val_dec n : digits_val (dec n) = n.
Proof. rewrite dec_unfold. apply dec_aux_val. apply lt_pow2_log2. Qed.

Theorem dec_inj a b : dec a = dec b -> a = b.
Proof. intro H. rewrite <- (digits_val_dec a), <- (digits_val_dec b), H. reflexivity. Qed.

Lemma is_digit_48_mod n : is_digit (48 + n mod 10) = true.
Proof.
  assert (H : n mod 10 < 10) by (apply N.mod_lt; discriminate).
  set (m := n mod 10) in *. clearbody m.
  unfold is_digit. apply andb_true_iff. split; apply N.leb_le; lia.
Qed.

Lemma dec_aux_digits f : forall n, Forall (fun c => is_digit c = true) (dec_aux f n []).
Proof.
  induction f as [|f IH]; intros n; [constructor|].
  rewrite dec_aux_step. destruct (n / 10 =? 0).
  - constructor; [apply is_digit_48_mod|constructor].
  - apply Forall_app. split; [apply IH|]. constructor; [apply is_digit_48_mod|constructor].
Qed.

Theorem dec_digits n : Forall (fun c => is_digit c = true) (dec n).
Proof. apply dec_aux_digits. Qed.

Theorem dec_nonempty n : dec n <> [].
Proof.
  unfold dec. rewrite dec_aux_step. destruct (n / 10 =? 0); [discriminate|].
  intro H. apply app_eq_nil in H as [_ H]. discriminate.
Qed.

(* length: a number below 10^k prints with at most k digits; digits read back stay below 10^len *)
Lemma dec_aux_length f : forall n k, n < 10 ^ N.of_nat (S k) -> (length (dec_aux f n []) <= S k)%nat.
Proof.
  induction f as [|f IH]; intros n k H; [cbn; lia|].
  rewrite dec_aux_step. destruct (n / 10 =? 0) eqn:E; [cbn; lia|].
  rewrite app_length. cbn [length]. apply N.eqb_neq in E.
  destruct k as [|k].
  - exfalso. apply E. apply N.div_small. cbn in H. lia.
  - assert (n / 10 < 10 ^ N.of_nat (S k)).
    { apply N.div_lt_upper_bound; [lia|]. rewrite (Nat2N.inj_succ (S k)), N.pow_succ_r' in H. exact H. }
    specialize (IH _ _ H0). lia.
Qed.

Theorem dec_length_le n k : n < 10 ^ N.of_nat (S k) -> (length (dec n) <= S k)%nat.
Proof. apply dec_aux_length. Qed.

Lemma digit_val_lt d : is_digit d = true -> d - 48 < 10.
Proof. unfold is_digit. rewrite andb_true_iff, !N.leb_le. lia. Qed.

Theorem digits_val_lt ds : Forall (fun c => is_digit c = true) ds -> digits_val ds < 10 ^ N.of_nat (length ds).
Proof.
  induction ds as [|d ds IH] using rev_ind; intro H; [cbn; lia|].
  apply Forall_app in H as [H1 H2]. inversion H2; subst.
  rewrite digits_val_snoc, app_length. cbn [length]. rewrite Nat.add_1_r, Nat2N.inj_succ, N.pow_succ_r'.
  specialize (IH H1). pose proof (digit_val_lt _ H3). lia.
Qed.
