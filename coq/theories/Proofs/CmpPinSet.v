(* The pins of two wires are compared as a set (compare_cables: dictionary key -> pins of the
   composer's wire, each pin of the original wire takes the first pin with its key).  Mechanics of
   pin_table / take_key / cmp_pins, independent of what cmp_pin decides:
   - when the two wires carry the same keys position by position, the comparison is the
     positional one (zip_pins: what the comparer did before pins were matched by key);
   - an accepted comparison pairs every pin of the first wire with a pin of the second that has
     its key and is accepted by cmp_pin, and the pairs use up distinct entries of the table;
   - when the keys of the first wire are among those of the table (as multisets) and pins with
     equal keys are accepted, the comparison is accepted. *)
From Coq Require Import String List Arith NArith ZArith Bool Lia Permutation.
From SV Require Import Base.Base Cmp.Comparer Proofs.CmpBase.
Import ListNotations.

Lemma Forall2_len {A B} (P : A -> B -> Prop) la lb : Forall2 P la lb -> length la = length lb.
Proof. induction 1; cbn; congruence. Qed.

(* ---------- keys ---------- *)
Lemma onat_eqb_spec a b : onat_eqb a b = true <-> a = b.
Proof.
  destruct a as [x|], b as [y|]; cbn; try (split; [discriminate|discriminate]); [|split; reflexivity].
  rewrite Nat.eqb_eq. split; [intros ->; reflexivity|intro H; inversion H; reflexivity].
Qed.

Lemma pkey_eqb_spec a b : pkey_eqb a b = true <-> a = b.
Proof.
  destruct a as [[[ka ia] qa] ba], b as [[[kb ib] qb] bb]. cbn.
  rewrite !andb_true_iff, !oname_eqb_spec, onat_eqb_spec, eqb_true_iff. split.
  - intros [[[-> ->] ->] ->]. reflexivity.
  - intro H. inversion H. auto.
Qed.

Lemma pkey_eqb_refl k : pkey_eqb k k = true.
Proof. apply pkey_eqb_spec. reflexivity. Qed.

Lemma pin_key_not_accept x insts p : pin_key x insts p <> inl Accept.
Proof.
  intro H. unfold pin_key in H. destruct (resolve x insts p) as [q b|o| |]; discriminate H.
Qed.

(* ---------- the table of the second wire ---------- *)
Lemma pin_table_cons x insts p w t : pin_table x insts (p :: w) = inr t ->
  exists k t', pin_key x insts p = inr k /\ pin_table x insts w = inr t' /\ t = (k, p) :: t'.
Proof.
  cbn. destruct (pin_key x insts p) as [e|k]; [discriminate|].
  destruct (pin_table x insts w) as [e|t']; [discriminate|].
  intro H. inversion H. subst. eauto.
Qed.

Lemma pin_table_not_accept x insts w : pin_table x insts w <> inl Accept.
Proof.
  induction w as [|p w IH]; cbn; intro H; [discriminate H|].
  destruct (pin_key x insts p) as [e|k] eqn:Ek.
  - inversion H. subst e. exact (pin_key_not_accept _ _ _ Ek).
  - destruct (pin_table x insts w) as [e|t]; [|discriminate H]. inversion H. subst e. apply IH. reflexivity.
Qed.

Lemma pin_table_total x insts w :
  (forall p, In p w -> exists k, pin_key x insts p = inr k) -> exists t, pin_table x insts w = inr t.
Proof.
  induction w as [|p w IH]; intro H; [exists []; reflexivity|].
  destruct (H p (or_introl eq_refl)) as [k Hk].
  destruct IH as [t Ht]; [intros q Hq; apply H; right; assumption|].
  exists ((k, p) :: t). cbn. rewrite Hk, Ht. reflexivity.
Qed.

Lemma pin_table_spec x insts : forall w t, pin_table x insts w = inr t ->
  map snd t = w /\ Forall2 (fun p k => pin_key x insts p = inr k) w (map fst t).
Proof.
  induction w as [|p w IH]; intros t H.
  - cbn in H. inversion H. split; [reflexivity|constructor].
  - destruct (pin_table_cons _ _ _ _ _ H) as [k [t' [Hk [Ht' ->]]]].
    destruct (IH t' Ht') as [H1 H2]. cbn. split; [congruence|constructor; assumption].
Qed.

(* ---------- the positional comparison (the comparer before pins were matched by key) ---------- *)
Fixpoint zip_pins (xo xc : ctx) (io ic : list inst) (po pc : list pinref) : outcome :=
  match po, pc with
  | o :: po', c :: pc' => seq (cmp_pin xo xc io ic o c) (zip_pins xo xc io ic po' pc')
  | _, _ => Accept
  end.

(* same keys position by position: every pin takes the pin at its own position *)
Lemma cmp_pins_zip xo xc io ic : forall wo wc t,
  pin_table xc ic wc = inr t ->
  Forall2 (fun o c => pin_key xo io o = pin_key xc ic c) wo wc ->
  cmp_pins xo xc io ic wo t = zip_pins xo xc io ic wo wc.
Proof.
  induction wo as [|o wo IH]; intros wc t Ht HF; inversion HF as [|o' c wo' wc' Hk HF']; subst; [reflexivity|].
  destruct (pin_table_cons _ _ _ _ _ Ht) as [k [t' [Hkc [Ht' ->]]]].
  cbn [cmp_pins zip_pins]. rewrite Hk, Hkc. cbn [take_key]. rewrite pkey_eqb_refl.
  rewrite (IH wc' t' Ht' HF'). reflexivity.
Qed.

Lemma cmp_wire_zip xo xc io ic wo wc :
  (forall c, In c wc -> exists k, pin_key xc ic c = inr k) ->
  Forall2 (fun o c => pin_key xo io o = pin_key xc ic c) wo wc ->
  cmp_wire xo xc io ic wo wc = zip_pins xo xc io ic wo wc.
Proof.
  intros Hk HF. unfold cmp_wire.
  assert (Hl : length wo = length wc) by (eapply Forall2_len; eassumption).
  rewrite Hl, Nat.eqb_refl. cbn [check seq].
  destruct (pin_table_total xc ic wc Hk) as [t Ht]. rewrite Ht.
  apply cmp_pins_zip; assumption.
Qed.

(* ---------- taking a pin out of the table ---------- *)
Lemma take_key_some k : forall t c t', take_key k t = Some (c, t') -> Permutation t ((k, c) :: t').
Proof.
  induction t as [|[k' p] t IH]; intros c t' H; cbn in H; [discriminate|].
  destruct (pkey_eqb k k') eqn:E.
  - apply pkey_eqb_spec in E. subst. inversion H. subst. apply Permutation_refl.
  - destruct (take_key k t) as [[q r]|] eqn:Et; [|discriminate]. inversion H. subst.
    eapply perm_trans; [apply perm_skip; apply IH; reflexivity|apply perm_swap].
Qed.

Lemma take_key_in k : forall t, In k (map fst t) -> exists c t', take_key k t = Some (c, t').
Proof.
  induction t as [|[k' p] t IH]; cbn; [contradiction|]. intro H.
  destruct (pkey_eqb k k') eqn:E; [eauto|].
  destruct H as [H|H]; [subst; rewrite pkey_eqb_refl in E; discriminate|].
  destruct (IH H) as [c [t' Ht]]. rewrite Ht. eauto.
Qed.

Lemma take_key_snd k t c t' : take_key k t = Some (c, t') ->
  In c (map snd t) /\ incl (map snd t') (map snd t).
Proof.
  intro H. apply take_key_some in H. apply (Permutation_map snd) in H. cbn in H. split.
  - apply (Permutation_in _ (Permutation_sym H)). left. reflexivity.
  - intros z Hz. apply (Permutation_in _ (Permutation_sym H)). right. assumption.
Qed.

(* ---------- acceptance pairs the pins of the first wire with distinct entries ---------- *)
Lemma cmp_pins_matched xo xc io ic : forall wo t, cmp_pins xo xc io ic wo t = Accept ->
  exists m r, Permutation t (m ++ r) /\
    Forall2 (fun o e => pin_key xo io o = inr (fst e) /\ cmp_pin xo xc io ic o (snd e) = Accept) wo m.
Proof.
  induction wo as [|o wo IH]; intros t H.
  - exists [], t. split; [apply Permutation_refl|constructor].
  - cbn [cmp_pins] in H. destruct (pin_key xo io o) as [e|k] eqn:Ek.
    { subst e. exfalso. exact (pin_key_not_accept _ _ _ Ek). }
    destruct (take_key k t) as [[c t']|] eqn:Et; [|discriminate].
    apply seq_accept in H as [H1 H2]. destruct (IH t' H2) as [m [r [Hp HF]]].
    exists ((k, c) :: m), r. split.
    + eapply perm_trans; [apply take_key_some; eassumption|]. cbn. apply perm_skip. assumption.
    + constructor; [split; assumption|assumption].
Qed.

(* an accepted wire: the second wire is a rearrangement of the pins matched one by one *)
Lemma cmp_wire_matched xo xc io ic wo wc : cmp_wire xo xc io ic wo wc = Accept ->
  exists wm, Permutation wc wm /\
    Forall2 (fun o c => cmp_pin xo xc io ic o c = Accept) wo wm.
Proof.
  unfold cmp_wire. intro H. apply seq_accept in H as [Hl H].
  assert (Hlen : length wo = length wc).
  { destruct (Nat.eqb (length wo) (length wc)) eqn:E; [apply Nat.eqb_eq; assumption|discriminate]. }
  destruct (pin_table xc ic wc) as [e|t] eqn:Et; [subst e; exfalso; exact (pin_table_not_accept _ _ _ Et)|].
  destruct (pin_table_spec _ _ _ _ Et) as [Hs _].
  destruct (cmp_pins_matched _ _ _ _ _ _ H) as [m [r [Hp HF]]].
  assert (Hr : r = []).
  { assert (Hlm : length wo = length m) by (eapply Forall2_len; eassumption).
    apply Permutation_length in Hp. rewrite app_length in Hp.
    rewrite <- Hs, map_length in Hlen. destruct r; [reflexivity|cbn in Hp; lia]. }
  subst r. rewrite app_nil_r in Hp. exists (map snd m). split.
  - rewrite <- Hs. apply Permutation_map. assumption.
  - clear - HF. induction HF as [|o e wo' m' [_ Hc] HF' IH]; cbn; constructor; assumption.
Qed.

(* ---------- verdicts ---------- *)
Lemma cmp_pins_verdict_gen xo xc io ic : forall wo t,
  (forall o, In o wo -> exists k, pin_key xo io o = inr k) ->
  (forall o c, In o wo -> In c (map snd t) -> verdict (cmp_pin xo xc io ic o c)) ->
  verdict (cmp_pins xo xc io ic wo t).
Proof.
  induction wo as [|o wo IH]; intros t Hk Hv; [left; reflexivity|].
  cbn [cmp_pins]. destruct (Hk o (or_introl eq_refl)) as [k ->].
  destruct (take_key k t) as [[c t']|] eqn:Et; [|right; reflexivity].
  destruct (take_key_snd _ _ _ _ Et) as [Hc Hi].
  apply verdict_seq; [apply Hv; [left; reflexivity|assumption]|].
  apply IH; [intros o' Ho'; apply Hk; right; assumption|].
  intros o' c' Ho' Hc'. apply Hv; [right; assumption|apply Hi; assumption].
Qed.

Lemma cmp_wire_verdict_gen xo xc io ic wo wc :
  (forall o, In o wo -> exists k, pin_key xo io o = inr k) ->
  (forall c, In c wc -> exists k, pin_key xc ic c = inr k) ->
  (forall o c, In o wo -> In c wc -> verdict (cmp_pin xo xc io ic o c)) ->
  verdict (cmp_wire xo xc io ic wo wc).
Proof.
  intros Ho Hc Hv. unfold cmp_wire. apply verdict_seq; [apply verdict_check|].
  destruct (pin_table_total xc ic wc Hc) as [t Ht]. rewrite Ht.
  destruct (pin_table_spec _ _ _ _ Ht) as [Hs _].
  apply cmp_pins_verdict_gen; [assumption|]. rewrite Hs. assumption.
Qed.

(* ---------- completeness for pins as a set ---------- *)
Lemma cmp_pins_complete_gen xo xc io ic : forall wo ko t r,
  Forall2 (fun o k => pin_key xo io o = inr k) wo ko ->
  Permutation (map fst t) (ko ++ r) ->
  (forall o c k, In o wo -> In (k, c) t -> pin_key xo io o = inr k ->
     cmp_pin xo xc io ic o c = Accept) ->
  cmp_pins xo xc io ic wo t = Accept.
Proof.
  induction wo as [|o wo IH]; intros ko t r HF Hp Hacc; inversion HF as [|o' k wo' ko' Hk HF']; subst;
    [reflexivity|].
  cbn [cmp_pins]. rewrite Hk.
  destruct (take_key_in k t) as [c [t' Ht]].
  { apply (Permutation_in _ (Permutation_sym Hp)). left. reflexivity. }
  rewrite Ht. pose proof (take_key_some _ _ _ _ Ht) as Hpt.
  rewrite (Hacc o c k); [|left; reflexivity| |assumption].
  2:{ apply (Permutation_in _ (Permutation_sym Hpt)). left. reflexivity. }
  cbn [seq]. apply (IH ko' t' r); [assumption| |].
  - apply (Permutation_map fst) in Hpt. cbn in Hpt.
    apply (Permutation_cons_inv (a := k)).
    eapply perm_trans; [apply Permutation_sym; exact Hpt|exact Hp].
  - intros o' c' k' Ho' Hin Hk'. apply (Hacc o' c' k'); [right; assumption| |assumption].
    apply (Permutation_in _ (Permutation_sym Hpt)). right. assumption.
Qed.

Lemma cmp_wire_complete_gen xo xc io ic wo wc ko kc :
  Forall2 (fun o k => pin_key xo io o = inr k) wo ko ->
  Forall2 (fun c k => pin_key xc ic c = inr k) wc kc ->
  Permutation kc ko ->
  (forall o c k, In o wo -> In c wc -> pin_key xo io o = inr k -> pin_key xc ic c = inr k ->
     cmp_pin xo xc io ic o c = Accept) ->
  cmp_wire xo xc io ic wo wc = Accept.
Proof.
  intros Ho Hc Hp Hacc.
  assert (Hlo : length wo = length ko) by (eapply Forall2_len; eassumption).
  assert (Hlc : length wc = length kc) by (eapply Forall2_len; eassumption).
  unfold cmp_wire. rewrite Hlo, Hlc, (Permutation_length Hp), Nat.eqb_refl. cbn [check seq].
  destruct (pin_table_total xc ic wc) as [t Ht].
  { clear Hacc Hp Hlc. induction Hc as [|c k wc' kc' Hk Hc' IH]; intros p Hin; [contradiction|].
    destruct Hin as [<-|Hin]; [eauto|apply IH; assumption]. }
  rewrite Ht. destruct (pin_table_spec _ _ _ _ Ht) as [Hs Hkt].
  assert (Hkc : map fst t = kc).
  { clear Hacc Hp Hlc Hs Ht. revert Hkt. generalize (map fst t).
    induction Hc as [|c k wc' kc' Hk Hc' IH]; intros l Hl; inversion Hl; subst; [reflexivity|].
    f_equal; [congruence|apply IH; assumption]. }
  apply (cmp_pins_complete_gen xo xc io ic wo ko t []); [assumption|rewrite app_nil_r, Hkc; assumption|].
  intros o c k Hino Hin Hk. apply (Hacc o c k); [assumption| |assumption|].
  - rewrite <- Hs. apply (in_map snd) in Hin. exact Hin.
  - clear Hacc Hp Hlc Hkc Hc. revert Hin. rewrite <- Hs in Hkt. clear Hs Ht.
    induction t as [|[k' p] t IHt]; cbn; [contradiction|]. cbn in Hkt. inversion Hkt; subst.
    intros [Heq|Hin]; [inversion Heq; subst; assumption|apply IHt; assumption].
Qed.

(* ---------- a permutation that replaces one element replaces it by itself ---------- *)
Lemma perm_cons_same {A} (dec : forall a b : A, {a = b} + {a <> b}) (x y : A) (l : list A) :
  Permutation (x :: l) (y :: l) -> x = y.
Proof.
  intro H. destruct (dec x y) as [|Hn]; [assumption|]. exfalso.
  rewrite (Permutation_count_occ dec) in H. specialize (H x). cbn in H.
  destruct (dec x x); [|contradiction]. destruct (dec y x); [congruence|]. lia.
Qed.

Lemma perm_splice_same {A} (dec : forall a b : A, {a = b} + {a <> b}) (l1 : list A) (x y : A) (l2 : list A) :
  Permutation (l1 ++ x :: l2) (l1 ++ y :: l2) -> x = y.
Proof. intro H. apply Permutation_app_inv_l in H. eapply perm_cons_same; eassumption. Qed.

Lemma pinref_eq_dec (p q : pinref) : {p = q} + {p <> q}.
Proof.
  assert (Hs : forall a b : str, {a = b} + {a <> b}) by (apply list_eq_dec; apply N.eq_dec).
  assert (Ho : forall a b : oname, {a = b} + {a <> b}) by (intros a b; decide equality).
  decide equality; apply Nat.eq_dec.
Qed.
