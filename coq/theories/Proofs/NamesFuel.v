(* C17 (engine names): the recursion of _conflicts_fix terminates - pigeonhole on the _sdn_N_
   counter. Every rejected candidate is one of the (at most 2 per sibling) names / identifiers of the
   other siblings; candidates carry strictly increasing counters, hence are pairwise different. *)
From Coq Require Import List Arith NArith Bool Lia.
From SV Require Import Base.Base IR.State IR.NS Names.Edifify Proofs.NamesDec Proofs.NamesSuffix.
Import ListNotations.

(* the (lower-cased) strings a candidate is compared with *)
Definition forb (i : nat) (objs : list sib) : list str :=
  flat_map (fun e => lower (s_name e) :: match s_ident e with Some v => [lower v] | None => [] end) (others i objs).

Lemma clash_In x e : clash x e = true -> lower (s_name e) = lower x \/ exists v, s_ident e = Some v /\ lower v = lower x.
Proof.
  unfold clash. intro H. apply orb_true_iff in H as [H|H].
  - left. apply str_eqb_spec. exact H.
  - right. destruct (s_ident e) as [v|]; [|discriminate]. apply str_eqb_spec in H. exists v. auto.
Qed.

Lemma conflicts_good_false i x objs : conflicts_good i x objs = false -> In (lower x) (forb i objs).
Proof.
  unfold conflicts_good, forb. induction (others i objs) as [|e l IH]; cbn; [discriminate|].
  intro H. apply andb_false_iff in H as [H|H].
  - apply negb_false_iff in H. apply clash_In in H as [H|(v & Hv & H)].
    + left. exact H.
    + right. apply in_or_app. left. rewrite Hv. left. exact H.
  - right. apply in_or_app. right. apply IH. exact H.
Qed.

Lemma conflicts_good_true i x objs :
  conflicts_good i x objs = true -> forall e, In e (others i objs) ->
  lower (s_name e) <> lower x /\ (forall v, s_ident e = Some v -> lower v <> lower x).
Proof.
  unfold conflicts_good. rewrite forallb_forall. intros H e He. specialize (H e He).
  apply negb_true_iff in H. unfold clash in H. apply orb_false_iff in H as [H1 H2]. split.
  - intro E. rewrite E, str_eqb_refl in H1. discriminate.
  - intros v Hv E. rewrite Hv, E, str_eqb_refl in H2. discriminate.
Qed.

Lemma others_length i (objs : list sib) : length (others i objs) <= length objs.
Proof.
  unfold others. rewrite app_length, firstn_length, skipn_length. lia.
Qed.

Lemma forb_length i objs : length (forb i objs) <= 2 * length objs.
Proof.
  unfold forb. pose proof (others_length i objs) as H. revert H.
  generalize (others i objs) as l. intros l H.
  assert (G : length (flat_map (fun e => lower (s_name e) :: match s_ident e with Some v => [lower v] | None => [] end) l) <= 2 * length l).
  { clear H. induction l as [|e l IH]; cbn [flat_map length]; [lia|].
    rewrite app_length. destruct (s_ident e); cbn [length]; lia. }
  lia.
Qed.

(* counting the forbidden strings whose suffix counter is at least n *)
Definition num_ge (n : N) (x : str) : bool :=
  match sdn_suffix x with Some m => (n <=? m_num m)%N | None => false end.

Definition cnt (n : N) (F : list str) : nat := length (filter (num_ge n) F).

Lemma filter_length_lt {A} (p q : A -> bool) (x0 : A) l :
  (forall x, q x = true -> p x = true) -> In x0 l -> p x0 = true -> q x0 = false ->
  length (filter q l) < length (filter p l).
Proof.
  intros Hqp Hin Hp Hq.
  assert (Hle : forall l', length (filter q l') <= length (filter p l')).
  { induction l' as [|y l' IH]; cbn; [lia|].
    destruct (q y) eqn:E; [rewrite (Hqp _ E); cbn; lia|]. destruct (p y); cbn; lia. }
  induction l as [|y l IH]; [destruct Hin|].
  destruct Hin as [->|Hin]; cbn.
  - rewrite Hp, Hq. cbn. specialize (Hle l). lia.
  - specialize (IH Hin). destruct (q y) eqn:E; [rewrite (Hqp _ E); cbn; lia|].
    destruct (p y); cbn; lia.
Qed.

Lemma cnt_step b n F : In (b ++ sfx n) F -> cnt (n + 1) F < cnt n F.
Proof.
  intro Hin. unfold cnt. apply (filter_length_lt _ _ (b ++ sfx n)); [|exact Hin| |].
  - intros x. unfold num_ge. destruct (sdn_suffix x) as [m|]; [|discriminate].
    rewrite !N.leb_le. lia.
  - unfold num_ge. rewrite sdn_suffix_sfx. cbn. apply N.leb_refl.
  - unfold num_ge. rewrite sdn_suffix_sfx. cbn. apply N.leb_gt. lia.
Qed.

Lemma cnt_le n F : cnt n F <= length F.
Proof.
  unfold cnt. induction F as [|x F IH]; cbn; [lia|]. destruct (num_ge n x); cbn; lia.
Qed.

(* the next candidate after a suffixed one *)
Lemma next_candidate b n : exists b', length_fix (bump (b ++ sfx n)) = b' ++ sfx (n + 1).
Proof.
  destruct (bump_form (b ++ sfx n)) as [[H _]|(m & b0 & Hm & _ & _ & Hb)].
  - rewrite sdn_suffix_sfx in H. discriminate.
  - rewrite sdn_suffix_sfx in Hm. inversion Hm; subst m. cbn [m_num] in Hb. rewrite Hb.
    apply length_fix_sfx.
Qed.

Lemma first_candidate l : exists b' n, length_fix (bump l) = b' ++ sfx n.
Proof.
  destruct (bump_form l) as [[_ H]|(m & b0 & _ & _ & _ & Hb)].
  - rewrite H. destruct (length_fix_sfx l 1) as [b' Hb']. exists b', 1%N. exact Hb'.
  - rewrite Hb. destruct (length_fix_sfx b0 (m_num m + 1)) as [b' Hb']. exists b', (m_num m + 1)%N. exact Hb'.
Qed.

Lemma loop_fuel i objs : forall fuel b n,
  cnt n (forb i objs) < fuel -> conflicts_fix fuel i (b ++ sfx n) objs <> OutOfFuel.
Proof.
  induction fuel as [|f IH]; intros b n H; [lia|].
  cbn [conflicts_fix]. rewrite lower_app, lower_sfx.
  destruct (conflicts_good i (lower b ++ sfx n) objs) eqn:E; [discriminate|].
  apply conflicts_good_false in E. rewrite lower_app, lower_sfx, lower_idem in E. apply cnt_step in E.
  destruct (next_candidate (lower b) n) as [b' ->]. apply IH. lia.
Qed.

Theorem conflicts_fix_fuel i objs fuel c :
  length (forb i objs) + 2 <= fuel -> conflicts_fix fuel i c objs <> OutOfFuel.
Proof.
  intro H. destruct fuel as [|f]; [lia|]. cbn [conflicts_fix].
  destruct (conflicts_good i (lower c) objs); [discriminate|].
  destruct (first_candidate (lower c)) as (b' & n & ->). apply loop_fuel.
  pose proof (cnt_le n (forb i objs)). lia.
Qed.

Theorem make_valid_fuel fuel i objs name :
  2 * length objs + 2 <= fuel -> make_valid fuel i objs name <> OutOfFuel.
Proof.
  intro H. unfold make_valid. destruct (characters_fix (length_fix name)); [|discriminate].
  apply conflicts_fix_fuel. pose proof (forb_length i objs). lia.
Qed.

(* a successful run returns either the identifier it was given (whose lower-casing is free) or a
   lower-case suffixed candidate that is itself free *)
Theorem conflicts_fix_post i objs : forall fuel c r,
  conflicts_fix fuel i c objs = Ok r -> conflicts_good i (lower r) objs = true.
Proof.
  induction fuel as [|f IH]; intros c r H; [discriminate|].
  cbn [conflicts_fix] in H. destruct (conflicts_good i (lower c) objs) eqn:E.
  - inversion H; subst. exact E.
  - apply IH in H. exact H.
Qed.
