(* C12, the remaining roots (Hier/TraceRoots.v): collections of roots, netlist / instance-reference
   roots, patterns.

   1. in ANY heap, for every selection, recursive flag, patterns and collection of roots, an answer
      of get_hwires_roots / get_hcables_roots / get_hpins_roots / get_hports_roots never repeats a
      reference;
   2. selection ALL over a collection: the answer is what the entries yield directly plus the
      connectivity classes of the wires attached to the pins they hand to the closure
      (get_hwires_entries_ALL); union law (get_hwires_entries_ALL_union); an instance reference:
      every wire at or below it, and the nets of the wires on either side of every pin at or below
      it (get_hwires_ALL_instance);
   3. selection INSIDE from an instance reference that is not marked bypass (a netlist root, a
      reference handed in): exactly the wires the name map registers whose relative name the
      patterns select (get_hwires_entries_INSIDE_href, get_hwires_roots_netlist_INSIDE);
   4. a concrete heap (ex3 of HierCablesEx.v): every kind of root, a collection, patterns honoured
      from the netlist, from an Instance root (full names) and from a reference to a non-top instance
      (relative names) - the code since fix 1630eaa; the former witness of finding C13-K6 is kept as
      a regression example. References found directly pass the test dm (Hier/TraceRoots.v,
      direct_match): the statements about them are filter laws. *)
From Coq Require Import List Arith NArith Bool Lia.
From SV Require Import Base.Base IR.State Proofs.Inv1a Proofs.Inv2a Hier.Paths Hier.Enum Hier.Trace Hier.Conn
  Hier.TraceRoots Proofs.HierValid Proofs.HierEnum Proofs.HierUniq Proofs.HierOcc Proofs.HierClosure Proofs.HierTrace
  Proofs.HierTracePort Proofs.HierCables Proofs.HierCablesEx.
Import ListNotations.

(* ------------------------------------------------------------------------------------------ *)
(* the end of the dispatch *)
Lemma finish_In s pat dm d named h :
  In h (finish s pat dm d named) <->
  (In h d /\ dm h = true) \/ In h (map snd (filter (name_ok s pat) (nfirst [] named))).
Proof. unfold finish. rewrite href_union_In, filter_In. reflexivity. Qed.

Lemma finish_nodup s pat dm d named : NoDup d -> NoDup (finish s pat dm d named).
Proof. intro H. unfold finish. apply href_union_nodup. apply NoDup_filter. exact H. Qed.

Lemma nmem_map k h a : nmem h (map (pair k) a) = href_mem h a.
Proof. induction a as [|c a IH]; cbn; [reflexivity|]. rewrite IH. reflexivity. Qed.

(* one root reference: the registrations are the references, each once *)
Lemma nfirst_map k l : forall a,
  nfirst (map (pair k) a) (map (pair k) l) = map (pair k) (href_union a l).
Proof.
  induction l as [|h l IH]; intro a; cbn; [reflexivity|].
  rewrite nmem_map. destruct (href_mem h a); [apply IH|].
  rewrite <- (IH (a ++ [h])). rewrite map_app. reflexivity.
Qed.

Lemma named_single_In s pat k l0 h :
  In h (map snd (filter (name_ok s pat) (nfirst [] (map (pair k) l0)))) <->
  In h l0 /\ name_ok s pat (k, h) = true.
Proof.
  change (@nil nentry) with (map (pair k) (@nil href)). rewrite nfirst_map. split.
  - intro H. apply in_map_iff in H as ((k' & h') & E & Hf). cbn in E. subst h'.
    apply filter_In in Hf as (Hin & Hok).
    apply in_map_iff in Hin as (h'' & E & Hin). inversion E; subst.
    apply href_union_In in Hin as [[]|Hin]. split; assumption.
  - intros (Hin & Hok). apply in_map_iff. exists (k, h). split; [reflexivity|].
    apply filter_In. split; [|exact Hok]. apply in_map_iff. exists h. split; [reflexivity|].
    apply href_union_In. right. exact Hin.
Qed.

(* ------------------------------------------------------------------------------------------ *)
(* 1. no duplicates, any heap *)
Theorem get_hwires_roots_nodup s x r pat dpat usum roots l :
  get_hwires_roots s x r pat dpat usum roots = Some l -> NoDup l.
Proof.
  unfold get_hwires_roots, with_roots, get_hwires_entries. intro H.
  destruct (expand_roots s roots) as [es|]; [|discriminate].
  destruct (collect _ es) as [[[y st] nm]|]; [|discriminate].
  destruct (hw_close _ _ _ _) as [f|]; [|discriminate].
  inversion H. apply finish_nodup, result_nodup.
Qed.

Theorem get_hcables_roots_nodup s x r pat dpat usum roots l :
  get_hcables_roots s x r pat dpat usum roots = Some l -> NoDup l.
Proof.
  unfold get_hcables_roots, with_roots, get_hcables_entries. intro H.
  destruct (expand_roots s roots) as [es|]; [|discriminate].
  destruct (collect _ es) as [[[y st] nm]|]; [|discriminate].
  destruct (hc_close _ _ _ _) as [f|]; [|discriminate].
  inversion H. apply finish_nodup, result_nodup.
Qed.

Theorem get_hpins_roots_nodup s r pat dpat roots l :
  get_hpins_roots s r pat dpat roots = Some l -> NoDup l.
Proof.
  unfold get_hpins_roots, with_roots, get_hpins_entries. intro H.
  destruct (expand_roots s roots) as [es|]; [|discriminate].
  destruct (collect _ es) as [[[y st] nm]|]; [|discriminate].
  inversion H. apply finish_nodup, href_union_nodup. constructor.
Qed.

Theorem get_hports_roots_nodup s r pat dpat roots l :
  get_hports_roots s r pat dpat roots = Some l -> NoDup l.
Proof.
  unfold get_hports_roots, with_roots, get_hports_entries. intro H.
  destruct (expand_roots s roots) as [es|]; [|discriminate].
  destruct (collect _ es) as [[[y st] nm]|]; [|discriminate].
  inversion H. apply finish_nodup, href_union_nodup. constructor.
Qed.

(* ------------------------------------------------------------------------------------------ *)
(* collect *)
Lemma collect_app {T} (f : T -> option trip) : forall l1 l2 y1 s1 n1 y2 s2 n2,
  collect f l1 = Some (y1, s1, n1) -> collect f l2 = Some (y2, s2, n2) ->
  collect f (l1 ++ l2) = Some (y1 ++ y2, s1 ++ s2, n1 ++ n2).
Proof.
  induction l1 as [|a l1 IH]; intros l2 y1 s1 n1 y2 s2 n2 H1 H2.
  - cbn in H1. unfold trip0 in H1. inversion H1; subst. cbn. exact H2.
  - cbn in H1 |- *. destruct (f a) as [[[ya sa] na]|]; [|discriminate].
    destruct (collect f l1) as [[[yb sb] nb]|] eqn:E; [|discriminate].
    cbn in H1. inversion H1; subst. rewrite (IH l2 _ _ _ _ _ _ eq_refl H2). cbn.
    rewrite !app_assoc. reflexivity.
Qed.

(* selection ALL registers nothing in the name map *)
Lemma hw_entry_all_named s r e y st nm : hw_entry s SAll r e = Some (y, st, nm) -> nm = [].
Proof.
  unfold hw_entry. destruct e as [bp obj].
  destruct (negb (is_valid s obj)); [unfold trip0; intro H; inversion H; reflexivity|].
  destruct obj as [|it rest]; [unfold trip0; intro H; inversion H; reflexivity|].
  destruct (kind_of s it) as [[]|]; unfold trip0, of_pair;
    try (intro H; inversion H; reflexivity).
  destruct (bypass_scope s true (it :: rest)); cbn; intro H; inversion H; reflexivity.
Qed.

Lemma collect_all_named s r es : forall y st nm,
  collect (hw_entry s SAll r) es = Some (y, st, nm) -> nm = [].
Proof.
  induction es as [|e es IH]; intros y st nm H; cbn in H.
  - unfold trip0 in H. inversion H. reflexivity.
  - destruct (hw_entry s SAll r e) as [[[y1 s1] n1]|] eqn:E1; [|discriminate].
    destruct (collect _ es) as [[[y2 s2] n2]|] eqn:E2; [|discriminate].
    cbn in H. inversion H; subst.
    rewrite (hw_entry_all_named _ _ _ _ _ _ E1), (IH _ _ _ eq_refl). reflexivity.
Qed.

(* ------------------------------------------------------------------------------------------ *)
(* 3. INSIDE from an instance reference that goes through the name map (any heap) *)
Theorem get_hwires_entries_INSIDE_href : forall s r pat dm usum it rest l0,
  is_valid s (it :: rest) = true -> kind_of s it = Some KInstance ->
  hwires_below s r (it :: rest) = Some l0 ->
  exists l, get_hwires_entries s SInside r pat dm usum [(false, it :: rest)] = Some l /\ NoDup l /\
            (forall h, In h l <-> In h l0 /\ name_ok s pat (length rest, h) = true).
Proof.
  intros s r pat dm usum it rest l0 Hv Hk Hl.
  unfold get_hwires_entries. cbn [collect]. unfold hw_entry. rewrite Hv. cbn [negb].
  rewrite Hk. unfold href in *. rewrite Hl. cbn [option_map trip_app trip0 app].
  unfold hw_close, close_fuel. cbn [wl_close length plus rev].
  eexists. split; [reflexivity|]. split; [apply finish_nodup, result_nodup|].
  intro h. rewrite finish_In. rewrite app_nil_r. unfold named_of. cbn [length pred].
  rewrite named_single_In. cbn [href_union In]. tauto.
Qed.

Theorem get_hwires_roots_netlist_INSIDE : forall s n t r pat dpat usum l0,
  kind_of s n = Some KNetlist -> top s n = Some t -> is_valid s [t] = true ->
  get_hwires_netlist s n r = Some l0 ->
  exists l, get_hwires_roots s SInside r pat dpat usum [RObj (QId n)] = Some l /\ NoDup l /\
            (forall h, In h l <-> In h l0 /\ name_ok s pat (0, h) = true).
Proof.
  intros s n t r pat dpat usum l0 Hk Ht Hv Hl.
  assert (Hkt : kind_of s t = Some KInstance).
  { rewrite is_valid_single in Hv. destruct (kind_of s t) as [[]|]; try discriminate. reflexivity. }
  unfold get_hwires_netlist, netlist_contents, top_href in Hl. rewrite Ht, Hv in Hl.
  destruct (get_hwires_entries_INSIDE_href s r pat (direct_match s dpat [RObj (QId n)]) usum t [] l0 Hv Hkt Hl)
    as (l & El & Nl & Sl).
  exists l. split; [|split; [exact Nl|exact Sl]].
  unfold get_hwires_roots, with_roots, expand_roots. cbn [rev app flat_opt fold_right expand_root].
  rewrite Hk. unfold top_href. rewrite Ht. cbn [app]. exact El.
Qed.

(* the netlist root, recursive: every hierarchical wire of the design (C11's enumeration) whose name
   the patterns select, each once *)
Theorem get_hwires_roots_netlist_recursive : forall s n t pat dpat usum,
  Inv1a s -> WFk s -> acyclic s ->
  kind_of s n = Some KNetlist -> top s n = Some t -> is_valid s [t] = true ->
  exists l, get_hwires_roots s SInside true pat dpat usum [RObj (QId n)] = Some l /\ NoDup l /\
    (forall h, In h l <->
       (exists w c x p, h = w :: c :: x :: p /\ is_rpath s t (x :: p) /\
                        In c (cables_of s x) /\ In w (kids s RWires c)) /\
       name_ok s pat (0, h) = true).
Proof.
  intros s n t pat dpat usum I W A Hk Ht Hv.
  destruct (enum_wires_spec s n t I W A Ht Hv) as (l0 & E0 & _ & S0).
  destruct (get_hwires_roots_netlist_INSIDE s n t true pat dpat usum l0 Hk Ht Hv E0) as (l & El & Nl & Sl).
  exists l. split; [exact El|]. split; [exact Nl|]. intro h. rewrite Sl, S0. reflexivity.
Qed.

(* ------------------------------------------------------------------------------------------ *)
(* 2. selection ALL over a collection *)
Section RootsAll.
  Variable s : state.
  Variable t : id.
  Hypothesis I1 : Inv1a s.
  Hypothesis I2 : Inv2a s.
  Hypothesis K : WFk s.
  Hypothesis C : WFc s.
  Hypothesis Hroot : is_root s t.

  Theorem get_hwires_entries_ALL : forall n U r pat dm es y st nm,
    acyclic s -> top s n = Some t -> all_hwires s n = Some U ->
    collect (hw_entry s SAll r) es = Some (y, st, nm) ->
    (forall a, In a st -> hpin_occ s t a) ->
    exists l, get_hwires_entries s SAll r pat dm (pin_weight s U) es = Some l /\ NoDup l /\
              (forall b, In b l <-> dm b = true /\
                                    (In b y \/
                                     exists a x, In a st /\ In x (nb_sel s SAll a) /\ Conn.conn s t x b)).
  Proof.
    intros n U r pat dm es y st nm A Ht HU Ec Hs.
    pose proof (collect_all_named _ _ _ _ _ _ Ec) as Hn. subst nm.
    destruct (hw_close_ALL_reach s t I1 K C n U st A Ht HU Hs) as (found & Ef & Nf & Sf).
    unfold get_hwires_entries. rewrite Ec. unfold href in *. rewrite Ef.
    eexists. split; [reflexivity|]. split; [apply finish_nodup, result_nodup|].
    intro b. rewrite finish_In. cbn [nfirst filter map In]. rewrite result_In, <- in_rev, Sf, reach_split.
    split.
    - intros [([H|(a & Ha & Hr)] & Hd)|[]]; (split; [exact Hd|]); [left; exact H|right].
      apply (pin_reach_conn s t I1 C a b (Hs a Ha)) in Hr as (x & Hx & Hc). exists a, x. auto.
    - intros (Hd & [H|(a & x & Ha & Hx & Hc)]); left; (split; [|exact Hd]); [left; exact H|right].
      exists a. split; [exact Ha|]. apply (pin_reach_conn s t I1 C a b (Hs a Ha)). exists x. auto.
  Qed.

  (* union law: searching two collections at once = the union of the two answers *)
  Theorem get_hwires_entries_ALL_union : forall n U r pat dm es1 es2 y1 st1 nm1 y2 st2 nm2,
    acyclic s -> top s n = Some t -> all_hwires s n = Some U ->
    collect (hw_entry s SAll r) es1 = Some (y1, st1, nm1) -> (forall a, In a st1 -> hpin_occ s t a) ->
    collect (hw_entry s SAll r) es2 = Some (y2, st2, nm2) -> (forall a, In a st2 -> hpin_occ s t a) ->
    exists l1 l2 l,
      get_hwires_entries s SAll r pat dm (pin_weight s U) es1 = Some l1 /\
      get_hwires_entries s SAll r pat dm (pin_weight s U) es2 = Some l2 /\
      get_hwires_entries s SAll r pat dm (pin_weight s U) (es1 ++ es2) = Some l /\ NoDup l /\
      (forall b, In b l <-> In b l1 \/ In b l2).
  Proof.
    intros n U r pat dm es1 es2 y1 st1 nm1 y2 st2 nm2 A Ht HU E1 H1 E2 H2.
    destruct (get_hwires_entries_ALL n U r pat dm es1 _ _ _ A Ht HU E1 H1) as (l1 & L1 & _ & S1).
    destruct (get_hwires_entries_ALL n U r pat dm es2 _ _ _ A Ht HU E2 H2) as (l2 & L2 & _ & S2).
    assert (H12 : forall a, In a (st1 ++ st2) -> hpin_occ s t a).
    { intros a Ha. apply in_app_or in Ha as [Ha|Ha]; auto. }
    destruct (get_hwires_entries_ALL n U r pat dm (es1 ++ es2) _ _ _ A Ht HU (collect_app _ _ _ _ _ _ _ _ _ E1 E2) H12)
      as (l & L & N & S).
    exists l1, l2, l. repeat split; try assumption.
    - intro H. apply S in H as (Hd & [H|(a & x & Ha & Hx & Hc)]).
      + apply in_app_or in H as [H|H]; [left; apply S1|right; apply S2]; (split; [exact Hd|left; exact H]).
      + apply in_app_or in Ha as [Ha|Ha]; [left; apply S1|right; apply S2];
          (split; [exact Hd|right; exists a, x; auto]).
    - intro H. apply S. destruct H as [H|H]; [apply S1 in H|apply S2 in H];
        destruct H as (Hd & [H|(a & x & Ha & Hx & Hc)]); (split; [exact Hd|]);
        try (left; apply in_or_app; auto; fail);
        right; exists a, x; (split; [apply in_or_app; auto|auto]).
  Qed.

  (* instance paths below an instance path of the design are instance paths of the design *)
  Lemma ext_rpath_gen keep h q : ext s keep h q -> is_rpath s t h -> is_rpath s t q.
  Proof.
    intros E Hh. induction E as [|c x p _ IH Hc _]; [exact Hh|]. apply rp_child; [exact IH|exact Hc].
  Qed.

  Lemma hpins_at_occ q a : is_rpath s t q -> In a (hpins_at s q) -> hpin_occ s t a.
  Proof.
    intros Hq Ha. unfold hpins_at in Ha. apply in_flat_map in Ha as (hq & Hhq & Ha).
    unfold hports_at in Hhq. destruct q as [|x p]; [destruct Hhq|].
    apply in_map_iff in Hhq as (q0 & <- & Hq0).
    apply in_map_iff in Ha as (i & <- & Hi). exists i, q0, x, p. auto.
  Qed.

  (* an instance reference (marked or not), selection ALL: every wire at or below the instance, and
     the nets of the wires attached - inside or outside - to every pin at or below it *)
  Theorem get_hwires_ALL_instance : forall n U r pat dm bp x p,
    acyclic s -> top s n = Some t -> all_hwires s n = Some U -> is_rpath s t (x :: p) ->
    exists l ps, walk s keep_all (depth_fuel s) (x :: p) = Some ps /\
      (forall q, In q ps <-> ext s keep_all (x :: p) q) /\
      get_hwires_entries s SAll r pat dm (pin_weight s U) [(bp, x :: p)] = Some l /\ NoDup l /\
      (forall b, In b l <-> dm b = true /\
         ((exists q, In q ps /\ In b (hwires_at s q)) \/
          (exists q a y, In q ps /\ In a (hpins_at s q) /\ In y (nb_sel s SAll a) /\ Conn.conn s t y b))).
  Proof.
    intros n U r pat dm bp x p A Ht HU Hp.
    assert (Hv : is_valid s (x :: p) = true).
    { apply (is_valid_iff s _ I1 I2 K). apply hr_inst with t. split; assumption. }
    assert (Hk : kind_of s x = Some KInstance) by (apply (path_head_kind s K t x p); split; assumption).
    destruct (walk s keep_all (depth_fuel s) (x :: p)) as [ps|] eqn:Ew.
    2:{ exfalso. revert Ew. apply (walk_fuel_gen s keep_all K A); [discriminate|exact (rpath_chain s t _ Hp)|].
        unfold depth_fuel. cbn [length]. lia. }
    assert (Hne : x :: p <> []) by discriminate.
    destruct (walk_gen s keep_all I1 _ _ _ Hne Ew) as (_ & Sps).
    assert (Ec : collect (hw_entry s SAll r) [(bp, x :: p)]
                 = Some (flat_map (hwires_at s) ps ++ [], flat_map (hpins_at s) ps ++ [], [])).
    { cbn [collect]. unfold hw_entry. rewrite Hv. cbn [negb]. rewrite Hk.
      unfold bypass_scope, scope. rewrite Ew. reflexivity. }
    assert (Hs : forall a, In a (flat_map (hpins_at s) ps ++ []) -> hpin_occ s t a).
    { intros a Ha. rewrite app_nil_r in Ha. apply in_flat_map in Ha as (q & Hq & Ha).
      apply (hpins_at_occ q a); [|exact Ha]. apply (ext_rpath_gen keep_all (x :: p)); [|exact Hp].
      apply Sps. exact Hq. }
    destruct (get_hwires_entries_ALL n U r pat dm _ _ _ _ A Ht HU Ec Hs) as (l & El & Nl & Sl).
    exists l, ps. split; [reflexivity|]. split; [exact Sps|]. split; [exact El|]. split; [exact Nl|].
    intro b. rewrite Sl, !app_nil_r. split.
    - intros (Hd & [H|(a & y & Ha & Hy & Hc)]); (split; [exact Hd|]).
      + left. apply in_flat_map in H. exact H.
      + right. apply in_flat_map in Ha as (q & Hq & Ha). exists q, a, y. auto.
    - intros (Hd & [(q & Hq & H)|(q & a & y & Hq & Ha & Hy & Hc)]); (split; [exact Hd|]).
      + left. apply in_flat_map. exists q. auto.
      + right. exists a, y. split; [apply in_flat_map; exists q; auto|auto].
  Qed.
End RootsAll.

(* ------------------------------------------------------------------------------------------ *)
(* 4. the concrete heap ex3 (Proofs/HierCablesEx.v): netlist 0, library 1, cell 2 (port 3 with pins
      4 5, cable 6 with wires 7 8), top cell 9 (child 10 of cell 2, cable 11 with wires 12 13), top
      instance 14. No names are stored: the wires of the two-wire cable 11 are called "[0]" "[1]"
      relative to the top, those of cable 6 "/[0]" "/[1]". *)
Definition ex3_u : nat := pin_weight ex3 ex3_U.
Definition name_1 : str := [91; 49; 93]%N.   (* "[1]" *)
Definition pat_exact (p : str) (nm : str) : bool := str_eqb p nm.

Example ex3_roots_netlist_recursive :
  get_hwires_roots ex3 SInside true pat_any pat_any ex3_u [RObj (QId 0)]
  = Some [[12; 11; 14]; [13; 11; 14]; [7; 6; 10; 14]; [8; 6; 10; 14]].
Proof. vm_compute. reflexivity. Qed.

Example ex3_roots_netlist_flat :
  get_hwires_roots ex3 SInside false pat_any pat_any ex3_u [RObj (QId 0)] = Some [[12; 11; 14]; [13; 11; 14]].
Proof. vm_compute. reflexivity. Qed.

(* patterns are honoured from the netlist ... *)
Example ex3_roots_netlist_pattern :
  get_hwires_roots ex3 SInside true (pat_exact name_1) (pat_exact name_1) ex3_u [RObj (QId 0)] = Some [[13; 11; 14]].
Proof. vm_compute. reflexivity. Qed.

(* ... and, since fix 1630eaa, from an Instance / Definition / Library root as well: against the FULL
   name of each reference found. The former witness of finding C13-K6 (pattern "[1]", Instance root
   10: the code returned both wires of the cell, ignoring the pattern) now answers nothing - the
   wires are called "/[0]" "/[1]" - and the pattern "/[1]" selects the one wire *)
Definition name_s1 : str := [47; 91; 49; 93]%N.   (* "/[1]" *)

Example ex3_roots_instance_pattern_regression :
  get_hwires_roots ex3 SInside false (pat_exact name_1) (pat_exact name_1) ex3_u [RObj (QId 10)] = Some [].
Proof. vm_compute. reflexivity. Qed.

Example ex3_roots_instance_pattern :
  get_hwires_roots ex3 SInside false (pat_exact name_s1) (pat_exact name_s1) ex3_u [RObj (QId 10)]
  = Some [[8; 6; 10; 14]].
Proof. vm_compute. reflexivity. Qed.

(* a reference to the NON-TOP instance 10, selection ALL: a wire below it is matched under its name
   relative to that instance ("[1]"), a wire that is not below it under its full name ("[1]" too) *)
Example ex3_roots_href_all_pattern :
  exists l, get_hwires_roots ex3 SAll false (pat_exact name_1) (pat_exact name_1) ex3_u [RHref [10; 14]] = Some l /\
            length l = 2 /\ In [8; 6; 10; 14] l /\ In [13; 11; 14] l.
Proof. eexists. split; [vm_compute; reflexivity|]. cbn. auto. Qed.

Example ex3_roots_definition :
  get_hwires_roots ex3 SInside false pat_any pat_any ex3_u [RObj (QId 2)] = Some [[7; 6; 10; 14]; [8; 6; 10; 14]].
Proof. vm_compute. reflexivity. Qed.

Example ex3_roots_library_recursive :
  exists l, get_hwires_roots ex3 SInside true pat_any pat_any ex3_u [RObj (QId 1)] = Some l /\ length l = 4.
Proof. eexists. split; [vm_compute; reflexivity|reflexivity]. Qed.

(* an instance reference: OUTSIDE = the wires on its pins in the parent; ALL = both nets *)
Example ex3_roots_href_outside :
  get_hwires_roots ex3 SOutside false pat_any pat_any ex3_u [RHref [10; 14]] = Some [[12; 11; 14]; [13; 11; 14]].
Proof. vm_compute. reflexivity. Qed.

Example ex3_roots_href_all :
  exists l, get_hwires_roots ex3 SAll false pat_any pat_any ex3_u [RHref [10; 14]] = Some l /\ length l = 4.
Proof. eexists. split; [vm_compute; reflexivity|reflexivity]. Qed.

(* a collection: the sub-instance reference, the netlist and a plain wire - each reference once *)
Example ex3_roots_collection :
  exists l, get_hwires_roots ex3 SInside true pat_any pat_any ex3_u [RHref [10; 14]; RObj (QId 0); RObj (QId 7)] = Some l /\
            length l = 4 /\ NoDup l.
Proof.
  eexists. split; [vm_compute; reflexivity|]. split; [reflexivity|]. nodup_small.
Qed.

Example ex3_roots_cables_pins_ports :
  get_hcables_roots ex3 SAll false pat_any pat_any ex3_u [RObj (QId 10)] = Some [[6; 10; 14]; [11; 14]] /\
  get_hpins_roots ex3 true pat_any pat_any [RObj (QId 0)] = Some [[4; 3; 10; 14]; [5; 3; 10; 14]] /\
  get_hports_roots ex3 false pat_any pat_any [RObj (QId 12); RObj (QId 9)] = Some [[3; 10; 14]].
Proof. vm_compute. repeat split; reflexivity. Qed.

(* the hypotheses of get_hwires_ALL_instance and of the union law hold on ex3 *)
Example roots_hypotheses_satisfiable :
  exists s t n U x p,
    Inv1a s /\ Inv2a s /\ WFk s /\ WFc s /\ acyclic s /\ is_root s t /\ top s n = Some t /\
    all_hwires s n = Some U /\ is_rpath s t (x :: p) /\ p <> [] /\
    exists y st, collect (hw_entry s SAll false) [(true, x :: p)] = Some (y, st, []) /\ length st = 2 /\
                 (forall a, In a st -> hpin_occ s t a).
Proof.
  exists ex3, 14, 0, ex3_U, 10, [14].
  split; [exact ex3_inv1a|]. split; [exact ex3_inv2a|]. split; [exact ex3_wfk|].
  split; [exact ex3_wfc|]. split; [exact ex3_acyclic|]. split; [exact ex3_root|].
  split; [reflexivity|]. split; [exact ex3_universe|]. split; [exact ex3_rpath_n|].
  split; [discriminate|].
  eexists. eexists. split; [vm_compute; reflexivity|]. split; [reflexivity|].
  intros a Ha. apply (hpins_at_occ ex3 14 [10; 14] a ex3_rpath_n). vm_compute. vm_compute in Ha.
  destruct Ha as [<-|[<-|[]]]; auto.
Qed.

Example netlist_root_hypotheses_satisfiable :
  kind_of ex3 0 = Some KNetlist /\ top ex3 0 = Some 14 /\ is_valid ex3 [14] = true /\
  Inv1a ex3 /\ WFk ex3 /\ acyclic ex3.
Proof.
  split; [reflexivity|]. split; [reflexivity|]. split; [vm_compute; reflexivity|].
  split; [exact ex3_inv1a|]. split; [exact ex3_wfk|exact ex3_acyclic].
Qed.


(* ------------------------------------------------------------------------------------------ *)
(* 5. the collection model restricted to one reference *)
(* a single reference that is not an instance: the collection model is the single-reference model of
   Hier/Trace.v followed by the pattern test on the references found (fix 1630eaa), so every theorem
   of C12 about wire / pin / port / cable starts speaks about the collection model as well *)
Theorem get_hwires_entries_single : forall s x r pat dm usum bp obj,
  head_not_instance s obj ->
  get_hwires_entries s x r pat dm usum [(bp, obj)] = option_map (filter dm) (get_hwires s x r usum obj).
Proof.
  intros s x r pat dm usum bp obj Hn.
  unfold get_hwires_entries, get_hwires. cbn [collect]. unfold hw_entry.
  destruct (negb (is_valid s obj)).
  { cbn. reflexivity. }
  destruct obj as [|it rest].
  { cbn. reflexivity. }
  cbn in Hn.
  destruct (kind_of s it) as [[]|]; try congruence; cbn [trip_app trip0 of_pair fst snd].
  all: try (cbn; reflexivity).
  all: try (destruct (fold_left _ _ _) as [y st]; cbn [fst snd]).
  all: try (destruct (hw_phase1_wire s x (it :: rest)) as [y st]; cbn [fst snd]).
  all: rewrite ?app_nil_r; cbn [app]; destruct (hw_close s x _ _); reflexivity.
Qed.

(* with patterns that select every name (the default "*"), equality *)
Theorem get_hwires_entries_single_all : forall s x r pat dm usum bp obj,
  head_not_instance s obj -> (forall h, dm h = true) ->
  get_hwires_entries s x r pat dm usum [(bp, obj)] = get_hwires s x r usum obj.
Proof.
  intros s x r pat dm usum bp obj Hn Hd. rewrite (get_hwires_entries_single _ _ _ _ _ _ _ _ Hn).
  destruct (get_hwires s x r usum obj) as [l|]; [|reflexivity]. cbn [option_map].
  rewrite filter_all_true; [reflexivity|]. intros h _. apply Hd.
Qed.

Theorem get_hwires_roots_href_single : forall s x r pat dpat usum obj,
  head_not_instance s obj ->
  get_hwires_roots s x r pat dpat usum [RHref obj]
  = option_map (filter (direct_match s dpat [RHref obj])) (get_hwires s x r usum obj).
Proof.
  intros s x r pat dpat usum obj Hn. unfold get_hwires_roots, with_roots, expand_roots.
  cbn [rev app flat_opt fold_right expand_root].
  apply get_hwires_entries_single. exact Hn.
Qed.

(* ... for instance: selection ALL from a reference to a wire occurrence, searched as a collection of
   one root, is its connectivity class (C12_all) filtered by the patterns *)
Theorem get_hwires_roots_ALL_wire : forall s t,
  Inv1a s -> Inv2a s -> WFk s -> WFc s -> is_root s t ->
  forall n U pat dpat x, acyclic s -> top s n = Some t -> all_hwires s n = Some U -> hwire_occ s t x ->
  exists l, get_hwires_roots s SAll false pat dpat (pin_weight s U) [RHref x] = Some l /\
            (forall b, In b l <-> Conn.conn s t x b /\ direct_match s dpat [RHref x] b = true).
Proof.
  intros s t I1 I2 K C Hroot n U pat dpat x A Ht HU Hx.
  rewrite get_hwires_roots_href_single.
  - destruct (get_hwires_ALL_class s t I1 I2 K C Hroot n U x A Ht HU Hx) as (l0 & E & S).
    unfold get_hwires_ALL in E. rewrite E. cbn [option_map]. eexists. split; [reflexivity|].
    intro b. rewrite filter_In, S. reflexivity.
  - destruct Hx as (w & c & y & p & -> & _ & _ & Hw). cbn.
    rewrite (wk_kids s K RWires c w Hw). cbn. discriminate.
Qed.

(* ------------------------------------------------------------------------------------------ *)
(* 6. yield order (get_ordered): the pattern loop *)
Lemma fold_union_nodup (g : str -> list href) : forall pats acc,
  NoDup acc -> NoDup (fold_left (fun acc p => href_union acc (g p)) pats acc).
Proof.
  induction pats as [|p pats IH]; intros acc H; cbn; [exact H|].
  apply IH. apply href_union_nodup. exact H.
Qed.

Lemma fold_union_In (g : str -> list href) h : forall pats acc,
  In h (fold_left (fun acc p => href_union acc (g p)) pats acc) <->
  In h acc \/ exists p, In p pats /\ In h (g p).
Proof.
  induction pats as [|p pats IH]; intro acc; cbn.
  - split; [auto|]. intros [H|(p & [] & _)]. exact H.
  - rewrite IH, href_union_In. split.
    + intros [[H|H]|(q & Hq & H)]; [auto|right; exists p; auto|right; exists q; auto].
    + intros [H|(q & [<-|Hq] & H)]; [auto|auto|right; exists q; auto].
Qed.

Lemma names_first_In n : forall l seen, In n (names_first seen l) <-> In n seen \/ In n l.
Proof.
  induction l as [|m l IH]; intro seen; cbn; [tauto|].
  destruct (existsb (str_eqb m) seen) eqn:E; rewrite IH.
  - apply existsb_exists in E as (m' & Hm' & E). apply str_eqb_spec in E. subst m'.
    split; [tauto|]. intros [H|[<-|H]]; auto.
  - rewrite in_app_iff. cbn. tauto.
Qed.

Lemma under_In (regs : list (str * href)) nm h :
  In h (map snd (filter (fun e => str_eqb (fst e) nm) regs)) <-> In (nm, h) regs.
Proof.
  rewrite in_map_iff. split.
  - intros ((nm' & h') & E & Hf). cbn in E. subst h'. apply filter_In in Hf as (Hin & Hn).
    cbn in Hn. apply str_eqb_spec in Hn. subst nm'. exact Hin.
  - intro H. exists (nm, h). split; [reflexivity|]. apply filter_In. split; [exact H|].
    cbn. apply str_eqb_spec. reflexivity.
Qed.

(* the pattern loop yields each reference once, and exactly the registered references whose name
   some pattern selects *)
Theorem pattern_loop_nodup ab mt pats regs : NoDup (pattern_loop ab mt pats regs).
Proof. unfold pattern_loop. cbv zeta. apply fold_union_nodup. constructor. Qed.

Theorem pattern_loop_In ab mt pats regs h :
  In h (pattern_loop ab mt pats regs) <->
  exists nm, In (nm, h) regs /\ pat_sel ab mt pats nm = true.
Proof.
  unfold pattern_loop. cbv zeta. rewrite fold_union_In. cbn [In]. unfold pat_sel. split.
  - intros [[]|(p & Hp & H)]. destruct (ab p) eqn:Ea.
    + apply under_In in H. exists p. split; [exact H|]. apply existsb_exists. exists p.
      split; [exact Hp|]. rewrite Ea. apply str_eqb_spec. reflexivity.
    + apply in_flat_map in H as (nm & Hnm & H). apply filter_In in Hnm as (_ & Hm).
      apply under_In in H. exists nm. split; [exact H|]. apply existsb_exists. exists p.
      split; [exact Hp|]. rewrite Ea. exact Hm.
  - intros (nm & Hin & H). right. apply existsb_exists in H as (p & Hp & H). exists p.
    split; [exact Hp|]. destruct (ab p) eqn:Ea.
    + apply str_eqb_spec in H. subst p. apply under_In. exact Hin.
    + apply in_flat_map. exists nm. split; [|apply under_In; exact Hin].
      apply filter_In. split; [|exact H]. apply names_first_In. right.
      apply in_map_iff. exists (nm, h). auto.
Qed.

(* the ordered answer, as a set, is the answer of the collection model for that one root: the same
   references are selected (those registered whose relative name some pattern selects) *)
Theorem get_ordered_elements : forall s k r ab mt pats obj l,
  get_ordered s k r ab mt pats obj = Some (Some l) -> is_valid s obj = true ->
  exists regs nms, registrations s k r obj = Some regs /\
    all_some (map (rel_name s (pred (length obj))) regs) = Some nms /\ NoDup l /\
    (forall h, In h l <-> exists nm, In (nm, h) (combine nms regs) /\ pat_sel ab mt pats nm = true).
Proof.
  intros s k r ab mt pats obj l H Hv. unfold get_ordered in H. rewrite Hv in H. cbn [negb] in H.
  destruct (registrations s k r obj) as [regs|]; [|discriminate].
  destruct (all_some _) as [nms|] eqn:Ea; [|discriminate].
  inversion H; subst l. exists regs, nms. split; [reflexivity|]. split; [exact Ea|].
  split; [apply pattern_loop_nodup|]. intro h. apply pattern_loop_In.
Qed.

Example ex3_ordered :
  get_ordered ex3 OWires true (fun _ => false) (fun _ _ => true) [[42%N]] [14]
  = Some (Some [[12; 11; 14]; [13; 11; 14]; [7; 6; 10; 14]; [8; 6; 10; 14]]).
Proof. vm_compute. reflexivity. Qed.


(* ------------------------------------------------------------------------------------------ *)
(* 7. an Instance given as a plain element (not recursive, INSIDE): the wires of its cell at every
      occurrence of the instance - the valid instance paths ending in it, below the top instance of
      whichever netlist (C11_hrefs_of_instances) - whose FULL name some pattern matches, each once
      (since fix 1630eaa; before, the patterns played no part: finding C13-K6). *)
(* one plain element searched: every reference found directly is tested under its full name *)
Lemma direct_match_plain s dpat q h : direct_match s dpat [RObj q] h = name_ok s dpat (0, h).
Proof.
  unfold direct_match, rel_roots, direct_match_with, direct_names. cbn -[name_ok]. apply orb_false_r.
Qed.

Lemma collect_marked_inside s : forall occ,
  (forall p, In p occ -> is_valid s p = true /\ exists x r, p = x :: r /\ kind_of s x = Some KInstance) ->
  collect (hw_entry s SInside false) (mark true occ) = Some (flat_map (hwires_at s) occ, [], []).
Proof.
  induction occ as [|a occ IH]; intro H; [reflexivity|].
  destruct (H a (or_introl eq_refl)) as (Hv & x & r & -> & Hk).
  unfold mark. cbn [map collect]. fold (mark true occ). rewrite IH by (intros p Hp; apply H; right; exact Hp).
  unfold hw_entry. rewrite Hv. cbn [negb]. rewrite Hk. unfold bypass_scope, scope.
  cbn [option_map flat_map trip_app app]. rewrite app_nil_r. reflexivity.
Qed.

Theorem get_hwires_roots_instance_element : forall s x pat dpat usum,
  Inv1a s -> Inv2a s -> WFk s -> acyclic s -> kind_of s x = Some KInstance ->
  exists l, get_hwires_roots s SInside false pat dpat usum [RObj (QId x)] = Some l /\ NoDup l /\
    (forall h, In h l <->
       (exists p, (exists t, is_path s t p) /\ hd_error p = Some x /\ In h (hwires_at s p)) /\
       name_ok s dpat (0, h) = true).
Proof.
  intros s x pat dpat usum I1 I2 K A Hk.
  destruct (HierOcc.hrefs_of_instances_spec s [x] I1 I2 K A) as (occ & Eo & _ & So).
  assert (Hocc : forall p, In p occ ->
            is_valid s p = true /\ exists y r, p = y :: r /\ kind_of s y = Some KInstance).
  { intros p Hp. apply So in Hp as ((t & Hpath) & _). split.
    - apply (is_valid_iff s _ I1 I2 K). apply hr_inst with t. exact Hpath.
    - destruct p as [|y r]; [destruct Hpath as (_ & Hr); inversion Hr|].
      exists y, r. split; [reflexivity|]. exact (path_head_kind s K t y r Hpath). }
  unfold get_hwires_roots, with_roots, expand_roots. cbn [rev app flat_opt fold_right expand_root].
  rewrite Hk. unfold href in *. rewrite Eo. cbn [option_map]. rewrite app_nil_r.
  unfold get_hwires_entries. rewrite (collect_marked_inside s occ Hocc).
  unfold hw_close, close_fuel. cbn [wl_close length plus rev].
  eexists. split; [reflexivity|]. split; [apply finish_nodup, result_nodup|].
  intro h. rewrite finish_In, result_In, direct_match_plain. cbn [nfirst filter map In].
  rewrite in_flat_map. split.
  - intros [([(p & Hp & Hh)|[]] & Hd)|[]]. split; [|exact Hd].
    apply So in Hp as (Ht & Hx). exists p. split; [exact Ht|].
    split; [|exact Hh]. destruct Hx as (y & Hy & [<-|[]]). exact Hy.
  - intros ((p & Ht & Hx & Hh) & Hd). left. split; [|exact Hd]. left. exists p. split; [|exact Hh].
    apply So. split; [exact Ht|]. exists x. split; [exact Hx|left; reflexivity].
Qed.

Example ex3_instance_element_hypotheses :
  Inv1a ex3 /\ Inv2a ex3 /\ WFk ex3 /\ acyclic ex3 /\ kind_of ex3 10 = Some KInstance /\
  get_hwires_roots ex3 SInside false pat_any pat_any ex3_u [RObj (QId 10)] = Some [[7; 6; 10; 14]; [8; 6; 10; 14]].
Proof.
  split; [exact ex3_inv1a|]. split; [exact ex3_inv2a|]. split; [exact ex3_wfk|].
  split; [exact ex3_acyclic|]. split; [reflexivity|vm_compute; reflexivity].
Qed.

Print Assumptions get_hwires_roots_nodup.
Print Assumptions get_hcables_roots_nodup.
Print Assumptions get_hpins_roots_nodup.
Print Assumptions get_hports_roots_nodup.
Print Assumptions get_hwires_entries_INSIDE_href.
Print Assumptions get_hwires_roots_netlist_INSIDE.
Print Assumptions get_hwires_roots_netlist_recursive.
Print Assumptions get_hwires_entries_ALL.
Print Assumptions get_hwires_entries_ALL_union.
Print Assumptions get_hwires_ALL_instance.
Print Assumptions roots_hypotheses_satisfiable.
Print Assumptions get_hwires_entries_single.
Print Assumptions get_hwires_roots_ALL_wire.
Print Assumptions pattern_loop_In.
Print Assumptions pattern_loop_nodup.
Print Assumptions get_ordered_elements.
Print Assumptions get_hwires_roots_instance_element.
Print Assumptions get_hwires_entries_single_all.
