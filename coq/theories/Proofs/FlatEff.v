(* C09: the exact effect of the calls flatten is made of, when they complete: Definition.remove_child /
   remove_cable, add_child / add_cable, the name and EDIF.identifier writes, and _bring_to_top as a
   whole (containment, names, data), read field by field. *)
From Coq Require Import List Arith NArith Bool Lia.
From RecordUpdate Require Import RecordSet.
From SV Require Import Base.Base IR.State IR.NS IR.Ops Xform.Clone Xform.Strs Xform.Xform Proofs.Frame Proofs.NsInv.
Import ListNotations RecordSetNotations.

(* every field outside containment, data dictionaries, namespace tables and the log *)
Record keep (s s' : state) : Prop := mkKeep {
  kp_wpins : wpins s' = wpins s; kp_ipwire : ipwire s' = ipwire s; kp_ipins : ipins s' = ipins s;
  kp_iref : iref s' = iref s; kp_drefs : drefs s' = drefs s; kp_kind : kind_of s' = kind_of s;
  kp_next : next s' = next s; kp_top : top s' = top s
}.
Lemma keep_refl s : keep s s. Proof. constructor; reflexivity. Qed.
Lemma keep_trans a b c : keep a b -> keep b c -> keep a c. Proof. intros [] []. constructor; congruence. Qed.
Lemma keep_struct s s' : struct_eq s s' -> keep s s'.
Proof.
  intro H. constructor; [apply (se_wpins _ _ H)|apply (se_ipwire _ _ H)|apply (se_ipins _ _ H)|apply (se_iref _ _ H)
    |apply (se_drefs _ _ H)|apply (se_kind _ _ H)|apply (se_next _ _ H)|apply (se_top _ _ H)].
Qed.

Lemma upd2_at {A} (f : rel -> id -> A) r p l r' p' :
  upd2 f r p l r' p' = if rel_eqb r' r && Nat.eqb p' p then l else f r' p'.
Proof. unfold upd2, upd. destruct (rel_eqb r' r); cbn [andb]; [|reflexivity]. destruct (Nat.eqb p' p); reflexivity. Qed.

Lemma NAME_ne_NS : str_NAME <> str_NS. Proof. intro H. vm_compute in H. discriminate. Qed.
Lemma IDENT_ne_NS : str_IDENT <> str_NS. Proof. intro H. vm_compute in H. discriminate. Qed.
Lemma NAME_ne_IDENT : str_NAME <> str_IDENT. Proof. intro H. vm_compute in H. discriminate. Qed.

(* element[k] = v for a key other than '.NS' *)
Lemma dict_set_eff s e k v s' :
  k <> str_NS -> dict_set s e k v = (s', None) ->
  struct_eq s s' /\ data s' = upd (data s) e (sassoc_set k v (data s e)).
Proof.
  intros Hk E. split; [pose proof (se_dict_set s e k v) as H; rewrite E in H; exact H|].
  unfold dict_set, ns_dictionary_set in E. rewrite (str_eqb_neq _ _ Hk) in E.
  destruct (is_name_key k).
  - destruct v as [nm| | |]; try discriminate E.
    destruct (negb _); [discriminate E|].
    destruct (ns_parent s e) as [p|]; [|cbn in E; injection E as <-; reflexivity].
    destruct (kind_of s e) as [ek|]; [|cbn in E; injection E as <-; reflexivity].
    destruct (nstab s p) as [t|]; [|cbn in E; injection E as <-; reflexivity].
    destruct (ns_no_conflict t ek e k nm); [|discriminate E]. cbn in E. injection E as <-. reflexivity.
  - cbn in E. injection E as <-. reflexivity.
Qed.

Lemma dict_del_eff s e k s' :
  k <> str_NS -> dict_del s e k = (s', None) ->
  struct_eq s s' /\ data s' = upd (data s) e (sassoc_del k (data s e)).
Proof.
  intros Hk E. split; [pose proof (se_dict_del s e k) as H; rewrite E in H; exact H|].
  unfold dict_del, ns_dictionary_delete in E. rewrite (str_eqb_neq _ _ Hk) in E.
  destruct (is_name_key k); cbn [bindR ret] in E.
  - destruct (has_key _ e k); [|discriminate E]. injection E as <-. unfold ns_remove_key.
    destruct (ns_parent s e); [|reflexivity]. destruct (kind_of s e); [|reflexivity]. destruct (nstab s i); reflexivity.
  - destruct (has_key _ e k); [|discriminate E]. injection E as <-. reflexivity.
Qed.

(* element.name = v (None: delete the entry if there is one) *)
Lemma op_set_name_eff s e nn s' :
  op_set_name s e nn = (s', None) -> (nn = None -> get_str s e str_NAME = None) ->
  struct_eq s s' /\ (forall y, y <> e -> data s' y = data s y) /\
  (forall k, k <> str_NAME -> sassoc k (data s' e) = sassoc k (data s e)) /\ get_str s' e str_NAME = nn.
Proof.
  intros E Hn. unfold op_set_name in E. destruct nn as [nm|].
  - destruct (dict_set_eff _ _ _ _ _ NAME_ne_NS E) as [Hse Hd]. split; [exact Hse|].
    split; [intros y Hy; rewrite Hd, upd_other by exact Hy; reflexivity|].
    split; [intros k Hk; rewrite Hd, upd_same; apply sassoc_set_other; exact Hk|].
    unfold get_str. rewrite Hd, upd_same, sassoc_set_same. reflexivity.
  - destruct (has_key s e str_NAME).
    + destruct (dict_del_eff _ _ _ _ NAME_ne_NS E) as [Hse Hd]. split; [exact Hse|].
      split; [intros y Hy; rewrite Hd, upd_other by exact Hy; reflexivity|].
      split; [intros k Hk; rewrite Hd, upd_same; apply sassoc_del_other; exact Hk|].
      unfold get_str. rewrite Hd, upd_same, sassoc_del_same. reflexivity.
    + injection E as <-. split; [apply struct_eq_refl|]. split; [reflexivity|]. split; [reflexivity|]. apply Hn. reflexivity.
Qed.

(* Definition.remove_child / remove_cable *)
Lemma op_remove_eff s r p c s' :
  r = RChildren \/ r = RCables -> op_remove s r p c = (s', None) ->
  keep s s' /\ data s' = data s /\ par s r c = Some p /\
  par s' = upd2 (par s) r c None /\ kids s' = upd2 (kids s) r p (remove_first c (kids s r p)).
Proof.
  intros Hr E. unfold op_remove, guard in E. destruct (_ && _); [|discriminate E].
  unfold par_is in E. destruct (par s r c) as [q|] eqn:Hp; [|discriminate E].
  destruct (Nat.eqb_spec q p) as [->|]; [|discriminate E].
  unfold remove_core, ns_remove_child in E.
  destruct Hr as [-> | ->]; cbn [ns_rel rel_child bindR ret] in E;
    (destruct (nstab s p) as [t|]; cbn in E; injection E as <-; (split; [constructor; reflexivity|]);
     repeat split; reflexivity).
Qed.

(* the namespace manager's add() on an instance or a cable: only the element's '.NS' entry may change *)
Lemma fold_one {A} (f : state -> A -> state) a s : fold_left f [a] s = f s a. Proof. reflexivity. Qed.

Lemma apply_namespace_leaf pl s c :
  (kind_of s c = Some KInstance \/ kind_of s c = Some KCable) ->
  apply_namespace pl s c = data_write (emit s (EDictSet c str_NS (VStr (pol_name pl)))) c str_NS (VStr (pol_name pl)).
Proof.
  intro Hk. unfold apply_namespace, subtree.
  destruct Hk as [Hk|Hk]; rewrite Hk; rewrite fold_one; unfold fresh_table;
    change (kind_of (data_write (emit s (EDictSet c str_NS (VStr (pol_name pl)))) c str_NS (VStr (pol_name pl))) c) with (kind_of s c);
    rewrite Hk; reflexivity.
Qed.

Lemma drop_namespace_leaf s c :
  (kind_of s c = Some KInstance \/ kind_of s c = Some KCable) -> drop_namespace s c = set_nstab s c None.
Proof.
  intro Hk. unfold drop_namespace, subtree.
  destruct Hk as [Hk|Hk]; rewrite Hk; rewrite fold_one; rewrite Nat.eqb_refl; reflexivity.
Qed.

Lemma ns_add_data s p c ck s' :
  (kind_of s c = Some KInstance \/ kind_of s c = Some KCable) -> ns_add s p c ck = (s', None) ->
  (forall y, y <> c -> data s' y = data s y) /\ (forall k, k <> str_NS -> sassoc k (data s' c) = sassoc k (data s c)).
Proof.
  intros Hk E. unfold ns_add in E. destruct (match nstab s p with Some _ => _ | None => _ end); [discriminate E|].
  set (mid := match sassoc str_NS (data s p) with Some _ => _ | None => _ end) in E.
  assert (Hm : snd mid = None ->
           (forall y, y <> c -> data (fst mid) y = data s y) /\
           (forall k, k <> str_NS -> sassoc k (data (fst mid) c) = sassoc k (data s c))).
  { unfold mid. destruct (sassoc str_NS (data s p)) as [pv|].
    - destruct (match sassoc str_NS (data s c) with Some _ => _ | None => _ end); [intros _; split; reflexivity|].
      unfold dict_set, ns_dictionary_set. rewrite str_eqb_refl.
      destruct (match sassoc str_NS (data s c) with Some _ => _ | None => _ end).
      + cbn. intros _. split; [intros y Hy; rewrite upd_other by exact Hy; reflexivity|].
        intros k Hk0. rewrite upd_same. apply sassoc_set_other. exact Hk0.
      + destruct (ns_parent s c); [cbn; discriminate|]. destruct (pol_of_val pv) as [pl|]; [|cbn; discriminate].
        destruct (is_compliant pl s c); [|cbn; discriminate]. cbn [bindR ret fst snd]. intros _.
        rewrite (apply_namespace_leaf pl s c Hk).
        split.
        * intros y Hy. cbn. rewrite !upd_other by exact Hy. reflexivity.
        * intros k Hk0. cbn. rewrite !upd_same. rewrite !sassoc_set_other by exact Hk0. reflexivity.
    - destruct (has_key s c str_NS); [|intros _; split; reflexivity].
      unfold dict_del, ns_dictionary_delete. rewrite str_eqb_refl.
      destruct (ns_parent s c); [cbn; discriminate|].
      assert (Hd : data (drop_namespace s c) = data s) by (rewrite (drop_namespace_leaf s c Hk); reflexivity).
      destruct (has_key s c str_NS).
      + cbn [bindR ret]. destruct (has_key _ c str_NS); [|cbn; discriminate]. cbn [fst snd]. intros _. split.
        * intros y Hy. cbn. rewrite upd_other by exact Hy. rewrite Hd. reflexivity.
        * intros k Hk0. cbn. rewrite upd_same. rewrite sassoc_del_other by exact Hk0. rewrite Hd. reflexivity.
      + cbn [bindR ret]. destruct (has_key _ c str_NS); [|cbn; discriminate]. cbn [fst snd]. intros _. split.
        * intros y Hy. cbn. rewrite upd_other by exact Hy. reflexivity.
        * intros k Hk0. cbn. rewrite upd_same. rewrite sassoc_del_other by exact Hk0. reflexivity. }
  destruct mid as [s1 [e|]]; [discriminate E|]. cbn [bindR] in E. specialize (Hm eq_refl). cbn [fst] in Hm.
  destruct (nstab s1 p); cbn in E; injection E as <-; exact Hm.
Qed.

(* Definition.add_child / add_cable (appending) *)
Lemma op_add_eff s r p c s' :
  r = RChildren \/ r = RCables -> op_add s r p c None = (s', None) ->
  keep s s' /\ par s r c = None /\ is_kind s c (rel_child r) = true /\
  par s' = upd2 (par s) r c (Some p) /\ kids s' = upd2 (kids s) r p (kids s r p ++ [c]) /\
  (forall y, y <> c -> data s' y = data s y) /\ (forall k, k <> str_NS -> sassoc k (data s' c) = sassoc k (data s c)).
Proof.
  intros Hr E. unfold op_add, guard in E. destruct (is_kind s p (rel_parent r) && is_kind s c (rel_child r)) eqn:Hg; [|discriminate E].
  apply andb_true_iff in Hg as [_ Hkc].
  destruct (add_guard1 s r p c); [|discriminate E]. destruct (par s r c) eqn:Hp; [discriminate E|].
  assert (Hns : ns_rel r = true) by (destruct Hr as [-> | ->]; reflexivity). rewrite Hns in E.
  pose proof (se_ns_add s p c (rel_child r)) as Hse. pose proof (ns_add_data s p c (rel_child r)) as Hd.
  destruct (ns_add s p c (rel_child r)) as [s1 [e|]]; [discriminate E|]. cbn [bindR fst] in *.
  assert (Hkc' : kind_of s c = Some KInstance \/ kind_of s c = Some KCable).
  { unfold is_kind in Hkc. destruct (kind_of s c) as [k|]; [|discriminate Hkc].
    destruct Hr as [-> | ->]; cbn in Hkc; destruct k; try discriminate Hkc; auto. }
  specialize (Hd s1 Hkc' eq_refl).
  assert (Hpost : add_post (set_par (set_kids (emit s1 (EAdd r p c)) r p (py_insert None c (kids (emit s1 (EAdd r p c)) r p))) r c (Some p)) r p c
                  = set_par (set_kids (emit s1 (EAdd r p c)) r p (py_insert None c (kids (emit s1 (EAdd r p c)) r p))) r c (Some p))
    by (destruct Hr as [-> | ->]; reflexivity).
  rewrite Hpost in E. cbn in E. injection E as <-.
  split; [apply (keep_trans _ s1); [apply keep_struct; exact Hse|constructor; reflexivity]|].
  split; [reflexivity|]. split; [exact Hkc|].
  split; [cbn; rewrite (se_par _ _ Hse); reflexivity|].
  split; [cbn; rewrite (se_kids _ _ Hse); reflexivity|]. exact Hd.
Qed.

(* _name_in_path on a stored value: a missing name counts as the empty string *)
Definition oe (nm : option str) : str := match nm with Some n => n | None => [] end.
Lemma name_in_path_oe s e : name_in_path s e = oe (get_str s e str_NAME).
Proof. reflexivity. Qed.
(* the name _bring_to_top gives, on the stored value: under the top definition itself (no enclosing
   instance, [None]) the element keeps its name or stays unnamed; below an enclosing instance with the
   hierarchical name a - possibly "" - it is a + "/" + name *)
Definition joino (add_to_name : option str) (nm : option str) : option str :=
  match add_to_name with None => nm | Some a => Some (a ++ str_slash ++ oe nm) end.

Lemma get_str_upd_same s s' e k v : data s' = upd (data s) e (sassoc_set k (VStr v) (data s e)) -> get_str s' e k = Some v.
Proof. intro H. unfold get_str. rewrite H, upd_same, sassoc_set_same. reflexivity. Qed.

(* flatten._bring_to_top, completed *)
Definition mrel (s : state) (e : id) : rel := if is_cable s e then RCables else RChildren.
Lemma mrel_cases s e : mrel s e = RChildren \/ mrel s e = RCables.
Proof. unfold mrel. destruct (is_cable s e); auto. Qed.

Record brought (x : xstate) (e : id) (addn : option str) (topd : id) (br_p : id) (x' : xstate) : Prop := mkBrought {
  br_kind : is_kind (st x) e (rel_child (mrel (st x) e)) = true;
  br_par0 : par (st x) (mrel (st x) e) e = Some br_p;
  br_keep : keep (st x) (st x');
  br_par : forall r' y, par (st x') r' y = if rel_eqb r' (mrel (st x) e) && Nat.eqb y e then Some topd else par (st x) r' y;
  br_kids : forall r' y, kids (st x') r' y =
            if rel_eqb r' (mrel (st x) e) then
              let k1 := if Nat.eqb y br_p then remove_first e (kids (st x) r' y) else kids (st x) r' y in
              if Nat.eqb y topd then k1 ++ [e] else k1
            else kids (st x) r' y;
  br_name : get_str (st x') e str_NAME = joino addn (get_str (st x) e str_NAME);
  br_data_other : forall y, y <> e -> data (st x') y = data (st x) y;
  br_data : forall k, k <> str_NAME -> k <> str_IDENT -> k <> str_NS -> sassoc k (data (st x') e) = sassoc k (data (st x) e);
  br_uniq : uniq_ctr x' = uniq_ctr x;
  br_ident : if has_key (st x) e str_IDENT
             then flat_ctr x' = S (flat_ctr x) /\
                  get_str (st x') e str_IDENT = Some ((if is_cable (st x) e then str_cable_ else str_instance_) ++ str_flat ++ dec (flat_ctr x))
             else flat_ctr x' = flat_ctr x /\ sassoc str_IDENT (data (st x') e) = None
}.

Lemma bring_step1_eff x e (cable : bool) :
  let step1 : XR :=
    if has_key (st x) e str_IDENT then
      let v := (if cable then str_cable_ else str_instance_) ++ str_flat ++ dec (flat_ctr x) in
      let x1 := mkX (st x) (uniq_ctr x) (S (flat_ctr x)) in
      liftR x1 (dict_set (st x) e str_IDENT (VStr v)) (fun x2 => (x2, None))
    else (x, None) in
  snd step1 = None ->
            struct_eq (st x) (st (fst step1)) /\ uniq_ctr (fst step1) = uniq_ctr x /\
            (forall y, y <> e -> data (st (fst step1)) y = data (st x) y) /\
            (forall k, k <> str_IDENT -> sassoc k (data (st (fst step1)) e) = sassoc k (data (st x) e)) /\
            if has_key (st x) e str_IDENT
            then flat_ctr (fst step1) = S (flat_ctr x) /\
                 get_str (st (fst step1)) e str_IDENT = Some ((if cable then str_cable_ else str_instance_) ++ str_flat ++ dec (flat_ctr x))
            else flat_ctr (fst step1) = flat_ctr x /\ sassoc str_IDENT (data (st (fst step1)) e) = None.
Proof.
  cbv zeta. destruct (has_key (st x) e str_IDENT) eqn:Hh.
    - unfold liftR. destruct (dict_set (st x) e str_IDENT _) as [sa [er|]] eqn:Ed; [cbn; discriminate|].
      destruct (dict_set_eff _ _ _ _ _ IDENT_ne_NS Ed) as [Hse Hda]. cbn [fst snd st uniq_ctr flat_ctr]. intros _.
      split; [exact Hse|]. split; [reflexivity|].
      split; [intros y Hy; rewrite Hda, upd_other by exact Hy; reflexivity|].
      split; [intros k Hk; rewrite Hda, upd_same; apply sassoc_set_other; exact Hk|].
      split; [reflexivity|apply (get_str_upd_same _ _ _ _ _ Hda)].
    - cbn [fst snd st]. intros _. split; [apply struct_eq_refl|]. split; [reflexivity|]. split; [reflexivity|]. split; [reflexivity|].
      split; [reflexivity|]. unfold has_key in Hh. destruct (sassoc str_IDENT (data (st x) e)); [discriminate Hh|reflexivity]. 
Qed.

Lemma bring_to_top_eff x e addn topd x' :
  bring_to_top x e addn topd = (x', None) -> exists p, brought x e addn topd p x'.
Proof.
  intro E. unfold bring_to_top in E.
  set (cable := is_cable (st x) e) in *. change (if cable then RCables else RChildren) with (mrel (st x) e) in E.
  set (r := mrel (st x) e) in *.
  assert (Hr : r = RChildren \/ r = RCables) by apply mrel_cases.
  pose proof (bring_step1_eff x e cable) as H1. cbn zeta in H1.
  set (step1 := if has_key (st x) e str_IDENT then _ else _) in *.
  destruct step1 as [x2 [er|]]; [discriminate E|]. specialize (H1 eq_refl). cbn [fst] in H1.
  destruct H1 as [Hse1 [Hu1 [Hd1 [Hd1e Hid1]]]].
  destruct (par (st x2) r e) as [d|] eqn:Hpar; [|discriminate E].
  unfold liftR at 1 in E. destruct (op_remove (st x2) r d e) as [s3 [er|]] eqn:Erm; [discriminate E|].
  destruct (op_remove_eff _ _ _ _ _ Hr Erm) as [Kp3 [Hd3 [_ [Hp3 Hk3]]]]. cbn [st uniq_ctr flat_ctr] in E.
  assert (Hn3 : get_str s3 e str_NAME = get_str (st x) e str_NAME).
  { unfold get_str. rewrite Hd3, (Hd1e str_NAME NAME_ne_IDENT). reflexivity. }
  cbv zeta in E. rewrite name_in_path_oe, Hn3 in E.
  set (nn := match addn with Some a => _ | None => _ end) in E.
  assert (Hnn2 : nn = joino addn (get_str (st x) e str_NAME)) by reflexivity.
  unfold liftR at 1 in E.
  destruct (op_set_name s3 e nn) as [s4 [er|]] eqn:Esn; [discriminate E|].
  assert (Hnone : nn = None -> get_str s3 e str_NAME = None).
  { intro H0. rewrite Hn3. rewrite Hnn2 in H0. destruct addn as [a|]; [cbn [joino] in H0; discriminate H0|exact H0]. }
  destruct (op_set_name_eff _ _ _ _ Esn Hnone) as [Hse4 [Hd4o [Hd4e Hd4n]]]. cbn [st uniq_ctr flat_ctr] in E.
  unfold liftR at 1 in E. destruct (op_add s4 r topd e None) as [s5 [er|]] eqn:Ead; [discriminate E|].
  destruct (op_add_eff _ _ _ _ _ Hr Ead) as [Kp5 [_ [Hke [Hp5 [Hk5 [Hd5 Hd5e]]]]]]. cbn [st uniq_ctr flat_ctr] in E.
  injection E as <-. cbn [st uniq_ctr flat_ctr].
  assert (Hke0 : is_kind (st x) e (rel_child r) = true).
  { unfold is_kind in *. rewrite (se_kind _ _ Hse4), (kp_kind _ _ Kp3), (se_kind _ _ Hse1) in Hke. exact Hke. }
  exists d. constructor; cbn [st uniq_ctr flat_ctr]; fold r.
  - exact Hke0.
  - rewrite <- (se_par _ _ Hse1). exact Hpar.
  - apply (keep_trans _ (st x2)); [apply keep_struct; exact Hse1|]. apply (keep_trans _ s3); [exact Kp3|].
    apply (keep_trans _ s4); [apply keep_struct; exact Hse4|exact Kp5].
  - intros r' y. rewrite Hp5, (se_par _ _ Hse4), Hp3, (se_par _ _ Hse1). rewrite !upd2_at.
    destruct (rel_eqb r' r && Nat.eqb y e); reflexivity.
  - intros r' y. rewrite Hk5, (se_kids _ _ Hse4), Hk3, (se_kids _ _ Hse1). rewrite !kids_upd2_ns.
    destruct (rel_eqb r' r) eqn:Er; cbn [andb]; [|reflexivity]. apply rel_eqb_spec in Er. subst r'.
    rewrite ?rel_eqb_refl. cbn [andb].
    destruct (Nat.eqb y topd) eqn:E1.
    + apply Nat.eqb_eq in E1. subst y. destruct (Nat.eqb topd d) eqn:E2; [apply Nat.eqb_eq in E2; subst d|]; reflexivity.
    + destruct (Nat.eqb y d) eqn:E2; [apply Nat.eqb_eq in E2; subst d|]; reflexivity.
  - rewrite <- Hnn2, <- Hd4n. unfold get_str. rewrite (Hd5e str_NAME NAME_ne_NS). reflexivity.
  - intros y Hy. rewrite (Hd5 y Hy), (Hd4o y Hy). rewrite Hd3. apply Hd1. exact Hy.
  - intros k K1 K2 K3. rewrite (Hd5e k K3), (Hd4e k K1). rewrite Hd3. apply Hd1e. exact K2.
  - exact Hu1.
  - destruct (has_key (st x) e str_IDENT).
    + destruct Hid1 as [A B]. split; [exact A|]. unfold get_str in *.
      rewrite (Hd5e str_IDENT IDENT_ne_NS), (Hd4e str_IDENT) by (intro H; apply NAME_ne_IDENT; symmetry; exact H).
      rewrite Hd3. exact B.
    + destruct Hid1 as [A B]. split; [exact A|].
      rewrite (Hd5e str_IDENT IDENT_ne_NS), (Hd4e str_IDENT) by (intro H; apply NAME_ne_IDENT; symmetry; exact H).
      rewrite Hd3. exact B.
Qed.

(* ---- _redo_connections only rewires: containment, references and data stay ---- *)
Record wkeep (s s' : state) : Prop := mkWkeep {
  wk_kids : kids s' = kids s; wk_par : par s' = par s; wk_iref : iref s' = iref s; wk_drefs : drefs s' = drefs s;
  wk_kind : kind_of s' = kind_of s; wk_next : next s' = next s; wk_top : top s' = top s; wk_data : data s' = data s
}.
Lemma wkeep_refl s : wkeep s s. Proof. constructor; reflexivity. Qed.
Lemma wkeep_trans a b c : wkeep a b -> wkeep b c -> wkeep a c. Proof. intros [] []. constructor; congruence. Qed.

Lemma wkeep_guard b e s k : (forall s1, wkeep s1 (fst (k s1))) -> wkeep s (fst (guard b e s k)).
Proof. intro H. unfold guard. destruct b; [apply H|apply wkeep_refl]. Qed.

Lemma wkeep_op_connect s w p pos : wkeep s (fst (op_connect s w p pos)).
Proof.
  unfold op_connect. apply wkeep_guard. intro s1. destruct p as [i|n i|]; cbn; try apply wkeep_refl.
  - destruct (ipwire s1 i); cbn; [apply wkeep_refl|constructor; reflexivity].
  - destruct (assoc i (ipins s1 n)) as [[w0|]|]; cbn; try apply wkeep_refl. constructor; reflexivity.
Qed.
Lemma wkeep_op_disconnect s w p : wkeep s (fst (op_disconnect s w p)).
Proof. unfold op_disconnect. apply wkeep_guard. intro s1. apply wkeep_guard. intro s2. destruct p; constructor; reflexivity. Qed.



Lemma wkeep_liftR x (r : R) k s :
  wkeep s (fst r) -> (forall x', wkeep (st x') (st (fst (k x')))) -> wkeep s (st (fst (liftR x r k))).
Proof.
  intros Hr Hk. unfold liftR. destruct r as [s1 [e|]]; cbn in *; [exact Hr|].
  eapply wkeep_trans; [exact Hr|]. apply (Hk (mkX s1 (uniq_ctr x) (flat_ctr x))).
Qed.

Lemma ctr_liftR x (r : R) k :
  (forall x', uniq_ctr (fst (k x')) = uniq_ctr x' /\ flat_ctr (fst (k x')) = flat_ctr x') ->
  uniq_ctr (fst (liftR x r k)) = uniq_ctr x /\ flat_ctr (fst (liftR x r k)) = flat_ctr x.
Proof. intro Hk. unfold liftR. destruct r as [s1 [e|]]; cbn; [split; reflexivity|]. apply (Hk (mkX s1 (uniq_ctr x) (flat_ctr x))). Qed.

Lemma wkeep_go iw ow : forall ps x,
  let r := (fix go (ps : list pin) (x : xstate) : XR :=
        match ps with
        | [] => (x, None)
        | p :: ps' => liftR x (op_disconnect (st x) iw p) (fun xa => liftR xa (op_connect (st xa) ow p None) (fun xb => go ps' xb))
        end) ps x in
  wkeep (st x) (st (fst r)) /\ uniq_ctr (fst r) = uniq_ctr x /\ flat_ctr (fst r) = flat_ctr x.
Proof.
  induction ps as [|p ps IH]; intro x; cbn zeta; [split; [apply wkeep_refl|split; reflexivity]|].
  split.
  - apply wkeep_liftR; [apply wkeep_op_disconnect|]. intro xa. apply wkeep_liftR; [apply wkeep_op_connect|]. intro xb. apply (IH xb).
  - apply ctr_liftR. intro xa. apply ctr_liftR. intro xb. apply (IH xb).
Qed.

Lemma wkeep_redo_pin x inst i :
  wkeep (st x) (st (fst (redo_pin x inst i))) /\
  uniq_ctr (fst (redo_pin x inst i)) = uniq_ctr x /\ flat_ctr (fst (redo_pin x inst i)) = flat_ctr x.
Proof.
  unfold redo_pin.
  destruct (assoc i (ipins (st x) inst)) as [out_wire|]; [|split; [apply wkeep_refl|split; reflexivity]].
  set (r1 := match ipwire (st x) i with Some iw => _ | None => _ end).
  assert (H1 : wkeep (st x) (st (fst r1)) /\ uniq_ctr (fst r1) = uniq_ctr x /\ flat_ctr (fst r1) = flat_ctr x).
  { unfold r1. destruct (ipwire (st x) i) as [iw|]; [|split; [apply wkeep_refl|split; reflexivity]].
    split; [apply wkeep_liftR; [apply wkeep_op_disconnect|intro; apply wkeep_refl]|apply ctr_liftR; intro; split; reflexivity]. }
  destruct r1 as [x1 [e|]]; [exact H1|]. cbn [fst] in H1. destruct H1 as [W1 [U1 F1]].
  set (r2 := match out_wire with Some ow => _ | None => _ end).
  assert (H2 : wkeep (st x1) (st (fst r2)) /\ uniq_ctr (fst r2) = uniq_ctr x1 /\ flat_ctr (fst r2) = flat_ctr x1).
  { unfold r2. destruct out_wire as [ow|]; [|split; [apply wkeep_refl|split; reflexivity]].
    split; [apply wkeep_liftR; [apply wkeep_op_disconnect|intro; apply wkeep_refl]|apply ctr_liftR; intro; split; reflexivity]. }
  destruct r2 as [x2 [e|]]; cbn [fst] in H2 |- *; destruct H2 as [W2 [U2 F2]];
    [split; [apply (wkeep_trans _ _ _ W1 W2)|split; congruence]|].
  assert (H12 : wkeep (st x) (st x2) /\ uniq_ctr x2 = uniq_ctr x /\ flat_ctr x2 = flat_ctr x)
    by (split; [apply (wkeep_trans _ _ _ W1 W2)|split; congruence]).
  destruct (ipwire (st x) i) as [iw|]; [|exact H12].
  destruct out_wire as [ow|]; [|exact H12].
  destruct H12 as [W12 [U12 F12]]. destruct (wkeep_go iw ow (wpins (st x2) iw) x2) as [W3 [U3 F3]].
  split; [apply (wkeep_trans _ _ _ W12 W3)|split; congruence].
Qed.

Lemma wkeep_xfold (f : xstate -> id -> XR) :
  (forall x a, wkeep (st x) (st (fst (f x a))) /\ uniq_ctr (fst (f x a)) = uniq_ctr x /\ flat_ctr (fst (f x a)) = flat_ctr x) ->
  forall l x, wkeep (st x) (st (fst (xfold f l x))) /\ uniq_ctr (fst (xfold f l x)) = uniq_ctr x /\ flat_ctr (fst (xfold f l x)) = flat_ctr x.
Proof.
  intro Hf. induction l as [|a l IH]; intro x; cbn [xfold]; [split; [apply wkeep_refl|split; reflexivity]|].
  pose proof (Hf x a) as Ha. destruct (f x a) as [x1 [e|]]; [exact Ha|]. cbn [fst] in Ha. destruct Ha as [W1 [U1 F1]].
  destruct (IH x1) as [W2 [U2 F2]]. split; [apply (wkeep_trans _ _ _ W1 W2)|split; congruence].
Qed.

Lemma wkeep_redo_ports inst l x :
  let r := xfold (fun x p => xfold (fun x i => redo_pin x inst i) (kids (st x) RPins p) x) l x in
  wkeep (st x) (st (fst r)) /\ uniq_ctr (fst r) = uniq_ctr x /\ flat_ctr (fst r) = flat_ctr x.
Proof.
  apply (wkeep_xfold (fun x p => xfold (fun x i => redo_pin x inst i) (kids (st x) RPins p) x)).
  intros x0 p. apply (wkeep_xfold (fun x i => redo_pin x inst i)). intros xa i. apply wkeep_redo_pin.
Qed.
