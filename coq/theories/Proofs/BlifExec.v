(* EBLIF engine: every statement handler of BlifRead.exec preserves the reader's invariant
   (Proofs/BlifWF.v), and so do exec_all and finish. *)
From Coq Require Import List Arith NArith Bool Lia Permutation.
From SV Require Import Base.Base Fmt.Blif Fmt.BlifRead Fmt.BlifSpec Proofs.BlifBase Proofs.BlifWF.
Import ListNotations.

Definition has (nm : str) (ms : list model) : Prop := In nm (map m_name ms).

Lemma has_find nm ms : has nm ms -> exists m, find_model nm ms = Some m.
Proof. intro H. apply find_model_some_iff. exact H. Qed.

Lemma find_has nm ms m : find_model nm ms = Some m -> has nm ms.
Proof. intro H. apply find_model_some_iff. eauto. Qed.

Lemma get_model_find nm ms m : find_model nm ms = Some m -> get_model nm ms = m.
Proof. unfold get_model. intros ->. reflexivity. Qed.

(* ---------- model names are never lost ---------- *)
Lemma names_add_pins r new ms : map m_name (add_pins_refs r new ms) = map m_name ms.
Proof. rewrite add_pins_refs_eq, map_map. reflexivity. Qed.

Lemma names_add_port r q ms : map m_name (add_port r q ms) = map m_name ms.
Proof.
  unfold add_port. rewrite names_add_pins. apply upd_model_names. intros m H. exact H.
Qed.

Lemma names_grow_port r p w ms : map m_name (grow_port r p w ms) = map m_name ms.
Proof.
  unfold grow_port. destruct (find_model r ms); [|reflexivity].
  destruct (Nat.ltb _ _); [|reflexivity].
  rewrite names_add_pins. apply upd_model_names. intros x H. exact H.
Qed.

Lemma has_ensure_other nm nm' ms : has nm' ms -> has nm' (ensure_model nm ms).
Proof. intro H. apply (proj1 (grows_ensure nm ms)). exact H. Qed.

Lemma has_ensure nm ms : has nm (ensure_model nm ms).
Proof. destruct (ensure_model_finds nm ms) as [m H]. eapply find_has; eauto. Qed.

Lemma names_upd_model_res cur f ms ms' :
  upd_model_res cur f ms = Ok ms' ->
  (forall m m', f m = Ok m' -> m_name m' = m_name m) ->
  map m_name ms' = map m_name ms.
Proof.
  unfold upd_model_res. destruct (find_model cur ms) as [m|] eqn:E; [|discriminate].
  intros H Hf. apply bind_ok in H as [m' [H1 H2]]. inversion H2; subst.
  apply upd_model_names. intros x Hx. rewrite (Hf _ _ H1). apply find_model_In in E. tauto.
Qed.

Lemma connect_to_name al pr c k m m' : connect_to al pr c k m = Ok m' -> m_name m' = m_name m.
Proof. unfold connect_to. destruct (connected m pr); [discriminate|]. intro H. inversion H. reflexivity. Qed.

Lemma set_inst_name_name idx nm m m' : set_inst_name idx nm m = Ok m' -> m_name m' = m_name m.
Proof. unfold set_inst_name. destruct (name_taken _ _ _); [discriminate|]. intro H. inversion H. reflexivity. Qed.

Lemma do_conn_name al a i b j m m' : do_conn al a i b j m = Ok m' -> m_name m' = m_name m.
Proof. unfold do_conn. destruct (nb_eqb _ _); intro H; inversion H; reflexivity. Qed.

(* ---------- ports: lookups after the steps ---------- *)
Lemma find_port_app p ps q :
  find_port p (ps ++ [q]) =
  match find_port p ps with Some x => Some x | None => if str_eqb (p_name q) p then Some q else None end.
Proof.
  unfold find_port. induction ps as [|x ps IH]; cbn; [reflexivity|].
  destruct (str_eqb (p_name x) p); [reflexivity|exact IH].
Qed.

Lemma find_port_upd p g ps p' :
  (forall q, p_name (g q) = p_name q) ->
  find_port p' (upd_port p g ps) =
  match find_port p' ps with Some q => Some (if str_eqb (p_name q) p then g q else q) | None => None end.
Proof.
  intro Hg. unfold find_port, upd_port. induction ps as [|x ps IH]; cbn; [reflexivity|].
  destruct (str_eqb (p_name x) p) eqn:E; cbn; rewrite ?Hg; destruct (str_eqb (p_name x) p'); auto; rewrite E; reflexivity.
Qed.

Lemma port_bit_set_dir m p d p' b :
  port_bit (set_ports m (upd_port p (fun q => set_pdir q d) (m_ports m))) p' b <-> port_bit m p' b.
Proof.
  unfold port_bit. cbn. split.
  - intros [q' [H1 [H2 H3]]]. apply In_upd_port in H1 as [q [Hq ->]]. exists q.
    destruct (str_eqb (p_name q) p); cbn in *; auto.
  - intros [q [H1 [H2 H3]]]. exists (if str_eqb (p_name q) p then set_pdir q d else q). split.
    + apply In_upd_port. eauto.
    + destruct (str_eqb (p_name q) p); cbn; auto.
Qed.

Lemma inv_set_dir cur p d ms :
  Inv ms -> Inv (upd_model cur (fun m => set_ports m (upd_port p (fun q => set_pdir q d) (m_ports m))) ms).
Proof.
  intro HI. apply inv_upd_model; auto.
  - intros m _ _ p' b. apply port_bit_set_dir.
  - intros m Hm Hn [W1 W2 W3 W4 W5]. constructor; auto.
    + intros pr Hpr. specialize (W1 pr Hpr). destruct pr as [p' b|i p' b]; cbn in *; [|assumption].
      apply (port_bit_set_dir m p d p' b). assumption.
    + cbn. rewrite upd_port_names; auto.
Qed.

(* attribute-only updates of a model *)
Lemma inv_attr cur f ms :
  Inv ms ->
  (forall m, m_name (f m) = m_name m /\ m_ports (f m) = m_ports m /\ m_cables (f m) = m_cables m /\
             m_orphans (f m) = m_orphans m /\ m_insts (f m) = m_insts m) ->
  Inv (upd_model cur f ms).
Proof.
  intros HI Hf. apply inv_upd_model; auto.
  - intros m Hn. rewrite (proj1 (Hf m)). exact Hn.
  - intros m _ _ p b. unfold port_bit. rewrite (proj1 (proj2 (Hf m))). tauto.
  - intros m Hm Hn [W1 W2 W3 W4 W5]. destruct (Hf m) as [F1 [F2 [F3 [F4 F5]]]].
    constructor; unfold all_wire_pins in *; rewrite ?F2, ?F3, ?F4, ?F5; auto.
    intros pr Hpr. specialize (W1 pr Hpr). destruct pr; cbn in *; unfold port_bit in *; rewrite ?F2, ?F5; assumption.
Qed.

(* ---------- header tokens ---------- *)
(* common tail of parse_input_ports / parse_output_ports: grow the port, connect its pin *)
Lemma grow_connect al cur p i ms m q ms' :
  Inv ms -> find_model cur ms = Some m -> find_port p (m_ports m) = Some q ->
  upd_model_res cur (connect_to al (PTop p i) p i) (grow_port cur p (S i) ms) = Ok ms' ->
  Inv ms' /\ map m_name ms' = map m_name ms.
Proof.
  intros HI Hm Hq H.
  pose proof (inv_grow_port cur p (S i) ms m q HI Hm Hq) as HI2.
  destruct (grow_port_bits cur p (S i) ms m q HI Hm Hq) as [m2 [Hm2 Hbits]].
  split.
  - apply (inv_upd_model_res _ _ _ _ HI2 H). intros x x' Hx Hxn Hc.
    assert (x = m2).
    { pose proof (find_model_unique _ x (proj1 HI2) Hx) as Hu. rewrite Hxn in Hu. congruence. }
    subst x. pose proof (proj2 HI2 m2 Hx) as Wm2.
    destruct (connect_to_spec _ _ _ _ _ _ Hc (c_cables _ _ Wm2)) as [_ [Hn [Hp [Hi _]]]].
    split; [congruence|]. split.
    + intros p' b. unfold port_bit. rewrite Hp. tauto.
    + intro W. eapply connect_to_WFc; eauto. cbn. apply Hbits. lia.
  - rewrite (names_upd_model_res _ _ _ _ H); [apply names_grow_port|]. intros; eapply connect_to_name; eauto.
Qed.

Lemma add_port_lookup r q ms m :
  find_model r ms = Some m -> find_port (p_name q) (m_ports m) = None ->
  exists m1, find_model r (add_port r q ms) = Some m1 /\ find_port (p_name q) (m_ports m1) = Some q.
Proof.
  intros Hm Hq. unfold add_port. rewrite find_model_grow; [|intros; assumption]. rewrite Hm. cbn zeta.
  pose proof (find_model_In _ _ _ Hm) as [_ Hn]. rewrite Hn, str_eqb_refl.
  eexists. split; [reflexivity|]. cbn [set_insts set_ports m_ports]. rewrite find_port_app, Hq, str_eqb_refl. reflexivity.
Qed.

Lemma do_input_inv al cur ms tok ms' :
  Inv ms -> has cur ms -> do_input al cur (Ok ms) tok = Ok ms' ->
  Inv ms' /\ map m_name ms' = map m_name ms.
Proof.
  intros HI Hc H. unfold do_input in H. cbn [bind] in H.
  destruct (pni tok) as [[p i]|] eqn:Ep; [|discriminate]. cbn [bind] in H.
  destruct (has_find _ _ Hc) as [m Hm].
  destruct (input_io cur p ms) eqn:Eio.
  { (* an output port named as input: INOUT, nothing is connected *)
    inversion H; subst ms'. clear H. unfold input_io in Eio. rewrite (get_model_find _ _ _ Hm) in Eio.
    destruct (find_port p (m_ports m)) as [q0|] eqn:Eq; [|discriminate].
    set (ms1 := upd_model cur _ ms).
    assert (HI1 : Inv ms1) by (apply inv_set_dir; assumption).
    assert (Hm1 : find_model cur ms1 = Some (set_ports m (upd_port p (fun q => set_pdir q DInout) (m_ports m)))).
    { unfold ms1. rewrite find_model_upd; [|intros x Hx; exact Hx]. rewrite Hm.
      pose proof (find_model_In _ _ _ Hm) as [_ Hn]. rewrite Hn, str_eqb_refl. reflexivity. }
    assert (Hq1 : exists q1, find_port p (m_ports (set_ports m (upd_port p (fun q => set_pdir q DInout) (m_ports m)))) = Some q1).
    { cbn [set_ports m_ports]. rewrite find_port_upd; [|reflexivity]. rewrite Eq. eauto. }
    destruct Hq1 as [q1 Hq1]. split.
    - eapply inv_grow_port; eauto.
    - rewrite names_grow_port. unfold ms1. apply upd_model_names. intros x Hx. exact Hx. }
  rewrite (get_model_find _ _ _ Hm) in H.
  destruct (find_port p (m_ports m)) as [q0|] eqn:Eq.
  - (* the port exists: its direction becomes IN *)
    set (ms1 := upd_model cur _ ms) in H.
    assert (HI1 : Inv ms1) by (apply inv_set_dir; assumption).
    assert (Hm1 : find_model cur ms1 = Some (set_ports m (upd_port p (fun q => set_pdir q DIn) (m_ports m)))).
    { unfold ms1. rewrite find_model_upd; [|intros x Hx; exact Hx]. rewrite Hm.
      pose proof (find_model_In _ _ _ Hm) as [_ Hn]. rewrite Hn, str_eqb_refl. reflexivity. }
    assert (Hq1 : exists q1, find_port p (m_ports (set_ports m (upd_port p (fun q => set_pdir q DIn) (m_ports m)))) = Some q1).
    { cbn [set_ports m_ports]. rewrite find_port_upd; [|reflexivity]. rewrite Eq. eauto. }
    destruct Hq1 as [q1 Hq1].
    destruct (grow_connect _ _ _ _ _ _ _ _ HI1 Hm1 Hq1 H) as [R1 R2]. split; [assumption|].
    rewrite R2. unfold ms1. apply upd_model_names. intros x Hx. exact Hx.
  - set (q := mkPort p DIn 0) in H.
    assert (HI1 : Inv (add_port cur q ms)) by (eapply inv_add_port; eauto).
    destruct (add_port_lookup cur q ms m Hm Eq) as [m1 [Hm1 Hq1]].
    destruct (grow_connect _ _ _ _ _ _ _ _ HI1 Hm1 Hq1 H) as [R1 R2]. split; [assumption|].
    rewrite R2. apply names_add_port.
Qed.

Lemma do_output_inv al cur ms tok ms' :
  Inv ms -> has cur ms -> do_output al cur (Ok ms) tok = Ok ms' ->
  Inv ms' /\ map m_name ms' = map m_name ms.
Proof.
  intros HI Hc H. unfold do_output in H. cbn [bind] in H.
  destruct (pni tok) as [[p i]|] eqn:Ep; [|discriminate]. cbn [bind] in H.
  destruct (has_find _ _ Hc) as [m Hm]. rewrite (get_model_find _ _ _ Hm) in H.
  set (ms1 := match find_port p (m_ports m) with None => add_port cur (mkPort p DOut 0) ms | Some _ => ms end) in H.
  assert (S1 : Inv ms1 /\ map m_name ms1 = map m_name ms /\
               exists m1 q1, find_model cur ms1 = Some m1 /\ find_port p (m_ports m1) = Some q1).
  { unfold ms1. destruct (find_port p (m_ports m)) as [q0|] eqn:Eq.
    - split; [assumption|]. split; [reflexivity|]. exists m, q0. auto.
    - split; [eapply inv_add_port; eauto|]. split; [apply names_add_port|].
      destruct (add_port_lookup cur (mkPort p DOut 0) ms m Hm Eq) as [m1 [A B]]. eauto. }
  destruct S1 as [HI1 [N1 [m1 [q1 [Hm1 Hq1]]]]].
  set (d := port_dir p (get_model cur ms1)) in H.
  set (ms2 := upd_model cur _ ms1) in H.
  assert (HI2 : Inv ms2) by (apply inv_set_dir; assumption).
  assert (N2 : map m_name ms2 = map m_name ms1).
  { unfold ms2. apply upd_model_names. intros x Hx. exact Hx. }
  set (dd := if dir_eqb d DIn || dir_eqb d DInout then DInout else DOut) in *.
  assert (Hm2 : find_model cur ms2 = Some (set_ports m1 (upd_port p (fun q => set_pdir q dd) (m_ports m1)))).
  { unfold ms2. rewrite find_model_upd; [|intros x Hx; exact Hx]. rewrite Hm1.
    pose proof (find_model_In _ _ _ Hm1) as [_ Hn]. rewrite Hn, str_eqb_refl. reflexivity. }
  assert (Hq2 : exists q2, find_port p (m_ports (set_ports m1 (upd_port p (fun q => set_pdir q dd) (m_ports m1)))) = Some q2).
  { cbn [set_ports m_ports]. rewrite find_port_upd; [|reflexivity]. rewrite Hq1. eauto. }
  destruct Hq2 as [q2 Hq2].
  destruct (dir_eqb d DIn || dir_eqb d DInout) eqn:Einout.
  - inversion H; subst ms'. split.
    + eapply inv_grow_port; eauto.
    + rewrite names_grow_port. congruence.
  - destruct (grow_connect _ _ _ _ _ _ _ _ HI2 Hm2 Hq2 H) as [R1 R2]. split; [assumption|]. congruence.
Qed.

Lemma fold_inv_names {X} (f : result (list model) -> X -> result (list model)) l ms ms' :
  (forall e x, f (Error e) x = Error e) ->
  (forall a x a', Inv a -> map m_name a = map m_name ms -> f (Ok a) x = Ok a' ->
                  Inv a' /\ map m_name a' = map m_name a) ->
  Inv ms -> fold_left f l (Ok ms) = Ok ms' -> Inv ms' /\ map m_name ms' = map m_name ms.
Proof.
  intros He Hs HI H.
  apply (fold_res_inv f (fun a => Inv a /\ map m_name a = map m_name ms) He) with (l := l) (a := ms) (a' := ms'); auto.
  intros a x a' [A1 A2] Hf. destruct (Hs a x a' A1 A2 Hf) as [B1 B2]. split; congruence.
Qed.

(* ---------- "get the port or create it" ---------- *)
Lemma port_stage r q ms m :
  Inv ms -> find_model r ms = Some m ->
  let ms1 := match find_port (p_name q) (m_ports m) with None => add_port r q ms | Some _ => ms end in
  Inv ms1 /\ map m_name ms1 = map m_name ms /\ grows ms ms1 /\
  exists m1 q1, find_model r ms1 = Some m1 /\ find_port (p_name q) (m_ports m1) = Some q1.
Proof.
  intros HI Hm. cbn zeta. destruct (find_port (p_name q) (m_ports m)) as [q0|] eqn:Eq.
  - split; [assumption|]. split; [reflexivity|]. split; [apply grows_refl|]. exists m, q0. auto.
  - split; [eapply inv_add_port; eauto|]. split; [apply names_add_port|]. split; [apply grows_add_port|].
    destruct (add_port_lookup r q ms m Hm Eq) as [m1 [A B]]. eauto.
Qed.

Lemma ensure_port_inv r q ms :
  Inv ms -> has r ms ->
  Inv (ensure_port r q ms) /\ map m_name (ensure_port r q ms) = map m_name ms /\ grows ms (ensure_port r q ms).
Proof.
  intros HI Hr. destruct (has_find _ _ Hr) as [m Hm]. unfold ensure_port. rewrite (get_model_find _ _ _ Hm).
  pose proof (port_stage r q ms m HI Hm) as H. cbn zeta in H.
  destruct (find_port (p_name q) (m_ports m)); tauto.
Qed.

(* ---------- which definition the instance at a position instantiates ---------- *)
Definition iref_ok (ms : list model) (cur : str) (idx : nat) (ref : str) : Prop :=
  exists m x, find_model cur ms = Some m /\ nth_error (m_insts m) idx = Some x /\ i_ref x = ref.

Lemma iref_grows ms ms' cur idx ref : grows ms ms' -> iref_ok ms cur idx ref -> iref_ok ms' cur idx ref.
Proof.
  intros [_ G] [m [x [H1 [H2 H3]]]]. destruct (G cur m H1) as [m' [G1 [_ [_ [_ [_ [G2 _]]]]]]].
  destruct (G2 idx x H2) as [x' [G3 G4]]. exists m', x'. repeat split; congruence.
Qed.

Lemma upd_model_res_find cur f ms ms' :
  NoDup (map m_name ms) -> upd_model_res cur f ms = Ok ms' ->
  (forall m m', f m = Ok m' -> m_name m' = m_name m) ->
  exists m m', find_model cur ms = Some m /\ f m = Ok m' /\ find_model cur ms' = Some m'.
Proof.
  intros Hnd H Hf. unfold upd_model_res in H. destruct (find_model cur ms) as [m|] eqn:E; [|discriminate].
  apply bind_ok in H as [m' [H1 H2]]. inversion H2; subst ms'. exists m, m'. repeat split; auto.
  pose proof (find_model_In _ _ _ E) as [_ Hn].
  rewrite find_model_upd; [|intros x Hx; rewrite (Hf _ _ H1); exact Hn]. rewrite E, Hn, str_eqb_refl. reflexivity.
Qed.

Lemma has_names ms ms' nm : map m_name ms' = map m_name ms -> has nm ms -> has nm ms'.
Proof. unfold has. intros ->. auto. Qed.

(* ---------- parse_subcircuit_port ---------- *)
Lemma do_pair_inv ref ms info tok ms' info' :
  Inv ms -> has ref ms -> do_pair ref (Ok (ms, info)) tok = Ok (ms', info') ->
  Inv ms' /\ map m_name ms' = map m_name ms /\ grows ms ms'.
Proof.
  intros HI Hr H. unfold do_pair in H. cbn [bind] in H. destruct (split_eq tok) as [formal actual].
  destruct (pni formal) as [[p i]|] eqn:Ep; [|discriminate]. cbn [bind] in H.
  destruct (has_find _ _ Hr) as [m Hm]. rewrite (get_model_find _ _ _ Hm) in H.
  pose proof (port_stage ref (mkPort p DUndef 0) ms m HI Hm) as S1. cbn zeta in S1. cbn [p_name] in S1.
  set (ms1 := match find_port p (m_ports m) with None => add_port ref (mkPort p DUndef 0) ms | Some _ => ms end) in *.
  destruct S1 as [HI1 [N1 [G1 [m1 [q1 [Hm1 Hq1]]]]]].
  destruct (Nat.leb (port_width p (get_model ref ms1)) i); inversion H; subst ms' info'.
  - split; [eapply inv_grow_port; eauto|]. split; [rewrite names_grow_port; assumption|].
    eapply grows_trans; [exact G1|]. apply grows_grow_port. assumption.
  - auto.
Qed.

Lemma do_pairs_inv ref pairs ms info ms' info' :
  Inv ms -> has ref ms -> fold_left (do_pair ref) pairs (Ok (ms, info)) = Ok (ms', info') ->
  Inv ms' /\ map m_name ms' = map m_name ms /\ grows ms ms'.
Proof.
  intros HI Hr H.
  apply (fold_res_inv (do_pair ref)
           (fun a => Inv (fst a) /\ map m_name (fst a) = map m_name ms /\ grows ms (fst a)))
    with (l := pairs) (a := (ms, info)) (a' := (ms', info')); auto.
  - intros [a1 a2] x [b1 b2] [A1 [A2 A3]] Hf. cbn in *.
    destruct (do_pair_inv ref a1 a2 x b1 b2 A1 (has_names _ _ _ A2 Hr) Hf) as [B1 [B2 B3]].
    split; [assumption|]. split; [congruence|]. eapply grows_trans; eauto.
  - cbn. split; [assumption|]. split; [reflexivity|apply grows_refl].
Qed.

(* ---------- connect_instance_pins ---------- *)
Lemma conn_one_inv al cur ref idx ms fa ms' :
  Inv ms -> iref_ok ms cur idx ref -> has ref ms ->
  conn_one al cur ref idx (Ok ms) fa = Ok ms' ->
  Inv ms' /\ map m_name ms' = map m_name ms /\ iref_ok ms' cur idx ref.
Proof.
  intros HI Hi Hr H. unfold conn_one in H. cbn [bind] in H.
  destruct (pni (snd fa)) as [[c k]|] eqn:Ea; [|discriminate]. cbn [bind] in H.
  destruct (pni (fst fa)) as [[p i]|] eqn:Ef; [|discriminate]. cbn [bind] in H.
  destruct (str_eqb c k_unconn).
  - inversion H; subst ms'. split; [apply inv_upd_inst; [assumption|intro; split; reflexivity]|].
    split; [apply upd_model_names; intros x Hx; exact Hx|].
    destruct Hi as [m [x [H1 [H2 H3]]]]. pose proof (find_model_In _ _ _ H1) as [_ Hn].
    eexists. eexists. split; [|split].
    + rewrite find_model_upd; [|intros y Hy; exact Hy]. rewrite H1, Hn, str_eqb_refl. reflexivity.
    + cbn. rewrite nth_error_upd_nth, H2, Nat.eqb_refl. reflexivity.
    + assumption.
  - destruct (has_find _ _ Hr) as [rm Hrm]. rewrite (get_model_find _ _ _ Hrm) in H.
    destruct (find_port p (m_ports rm)) as [q|] eqn:Eq; [|discriminate].
    pose proof (inv_grow_port ref p (S i) ms rm q HI Hrm Eq) as HI1.
    pose proof (grows_grow_port ref p (S i) ms HI) as G1.
    destruct (grow_port_bits ref p (S i) ms rm q HI Hrm Eq) as [rm1 [Hrm1 Hbits]].
    pose proof (iref_grows _ _ _ _ _ G1 Hi) as [m1 [x1 [A1 [A2 A3]]]].
    set (ms1 := grow_port ref p (S i) ms) in *.
    destruct (upd_model_res_find _ _ _ _ (proj1 HI1) H) as [m [m' [B1 [B2 B3]]]].
    { intros; eapply connect_to_name; eauto. }
    assert (m = m1) by congruence. subst m.
    pose proof (find_model_In _ _ _ A1) as [Hm1in _].
    pose proof (proj2 HI1 m1 Hm1in) as Wm1.
    destruct (connect_to_spec _ _ _ _ _ _ B2 (c_cables _ _ Wm1)) as [_ [Cn [Cp [Ci _]]]].
    split; [|split].
    + apply (inv_upd_model_res _ _ _ _ HI1 H). intros y y' Hy Hyn Hc.
      assert (y = m1).
      { pose proof (find_model_unique _ y (proj1 HI1) Hy) as Hu. rewrite Hyn in Hu. congruence. }
      subst y. assert (y' = m') by congruence. subst y'.
      split; [apply find_model_In in A1; destruct A1; congruence|]. split.
      * intros p' b. unfold port_bit. rewrite Cp. tauto.
      * intro W. eapply connect_to_WFc; eauto. cbn. exists x1. split; [assumption|].
        rewrite A3. apply (sigb_find _ _ _ _ _ Hrm1). apply Hbits. lia.
    + rewrite (names_upd_model_res _ _ _ _ H); [apply names_grow_port|]. intros; eapply connect_to_name; eauto.
    + exists m', x1. rewrite Ci. auto.
Qed.

Lemma connect_instance_pins_inv al cur ref idx info ms ms' :
  Inv ms -> iref_ok ms cur idx ref -> has ref ms ->
  connect_instance_pins al cur ref idx info ms = Ok ms' ->
  Inv ms' /\ map m_name ms' = map m_name ms.
Proof.
  intros HI Hi Hr H. unfold connect_instance_pins in H.
  assert (R : Inv ms' /\ map m_name ms' = map m_name ms /\ iref_ok ms' cur idx ref); [|tauto].
  apply (fold_res_inv (conn_one al cur ref idx)
           (fun a => Inv a /\ map m_name a = map m_name ms /\ iref_ok a cur idx ref))
    with (l := info) (a := ms) (a' := ms'); auto.
  - intros a x a' [A1 [A2 A3]] Hf.
    destruct (conn_one_inv al cur ref idx a x a' A1 A3 (has_names _ _ _ A2 Hr) Hf) as [B1 [B2 B3]].
    split; [assumption|]. split; [congruence|assumption].
Qed.

(* ---------- statements ---------- *)
Lemma add_child_iref cur ref k ms m :
  find_model cur ms = Some m -> iref_ok (add_child cur ref k ms) cur (length (m_insts m)) ref.
Proof.
  intro Hm. unfold add_child. pose proof (find_model_In _ _ _ Hm) as [_ Hn].
  eexists. eexists. split; [|split].
  - rewrite find_model_upd; [|intros y Hy; exact Hy]. rewrite Hm, Hn, str_eqb_refl. reflexivity.
  - cbn. rewrite nth_error_app2, Nat.sub_diag; [reflexivity|lia].
  - reflexivity.
Qed.

Lemma finish_inst_inv s ref idx nm info ms s' :
  Inv ms -> iref_ok ms (s_cur s) idx ref -> has ref ms ->
  finish_inst s ref idx nm info ms = Ok s' ->
  Inv (st_models s') /\ map m_name (st_models s') = map m_name ms /\ s_cur s' = s_cur s.
Proof.
  intros HI Hi Hr H. unfold finish_inst in H.
  destruct (match nm with Some x => (x, s_defnames s) | None => default_name (s_defnames s) ref end) as [name tbl].
  apply bind_ok in H as [ms1 [H1 H]]. apply bind_ok in H as [ms2 [H2 H]]. inversion H; subst s'. clear H.
  cbn [st_models s_nl b_models set_models s_cur].
  pose proof (set_inst_name_inv _ _ _ _ _ HI H1) as HI1.
  assert (N1 : map m_name ms1 = map m_name ms).
  { apply (names_upd_model_res _ _ _ _ H1). intros; eapply set_inst_name_name; eauto. }
  assert (Hi1 : iref_ok ms1 (s_cur s) idx ref).
  { destruct (upd_model_res_find _ _ _ _ (proj1 HI) H1) as [m [m' [B1 [B2 B3]]]].
    { intros; eapply set_inst_name_name; eauto. }
    destruct Hi as [m0 [x [A1 [A2 A3]]]]. assert (m0 = m) by congruence. subst m0.
    unfold set_inst_name in B2. destruct (name_taken _ _ _); [discriminate|]. inversion B2; subst m'.
    eexists. eexists. split; [exact B3|]. split.
    - cbn. rewrite nth_error_upd_nth, A2, Nat.eqb_refl. reflexivity.
    - exact A3. }
  destruct (connect_instance_pins_inv _ _ _ _ _ _ _ HI1 Hi1 (has_names _ _ _ N1 Hr) H2) as [R1 R2].
  split; [assumption|]. split; [congruence|reflexivity].
Qed.

Definition J (s : st) : Prop := Inv (st_models s) /\ has (s_cur s) (st_models s).

Lemma st_models_set_ms s ms : st_models (set_ms s ms) = ms.
Proof. reflexivity. Qed.

Lemma st_models_set_merged s al : st_models (set_merged s al) = st_models s.
Proof. reflexivity. Qed.

Lemma fold_ensure_port_inv r qs ms :
  Inv ms -> has r ms ->
  let ms' := fold_left (fun ms q => ensure_port r q ms) qs ms in
  Inv ms' /\ map m_name ms' = map m_name ms /\ grows ms ms'.
Proof.
  revert ms. induction qs as [|q qs IH]; intros ms HI Hr; cbn.
  - split; [assumption|]. split; [reflexivity|apply grows_refl].
  - destruct (ensure_port_inv r q ms HI Hr) as [A1 [A2 A3]].
    destruct (IH _ A1 (has_names _ _ _ A2 Hr)) as [B1 [B2 B3]].
    split; [assumption|]. split; [congruence|eapply grows_trans; eauto].
Qed.

Lemma check_hierarchy_models s ref s' :
  check_hierarchy s ref = Ok s' -> st_models s' = st_models s /\ s_cur s' = s_cur s.
Proof.
  unfold check_hierarchy. destruct (b_top (s_nl s)) as [[tn tr]|]; [|discriminate].
  destruct (str_eqb ref tr); [|intro H; inversion H; auto].
  destruct (str_eqb ref (s_cur s)); [discriminate|].
  destruct (parents_of (s_cur s) (st_models s)) as [|p ps]; cbn.
  - intro H. inversion H. auto.
  - destruct (forallb (str_eqb p) ps); cbn; [|discriminate]. intro H. inversion H. auto.
Qed.

(* an instance statement: the definition exists, the child is appended, then the common tail *)
Lemma inst_tail_inv s ref k nm info ms s' :
  Inv ms -> has (s_cur s) ms -> has ref ms ->
  finish_inst s ref (length (m_insts (get_model (s_cur s) ms))) nm info (add_child (s_cur s) ref k ms) = Ok s' ->
  J s' /\ map m_name (st_models s') = map m_name ms.
Proof.
  intros HI Hc Hr H. destruct (has_find _ _ Hc) as [m Hm]. destruct (has_find _ _ Hr) as [rm Hrm].
  rewrite (get_model_find _ _ _ Hm) in H.
  pose proof (inv_add_child (s_cur s) ref k ms rm HI Hrm) as HI1.
  assert (N1 : map m_name (add_child (s_cur s) ref k ms) = map m_name ms).
  { unfold add_child. apply upd_model_names. intros x Hx. exact Hx. }
  destruct (finish_inst_inv _ _ _ _ _ _ _ HI1 (add_child_iref _ ref k _ _ Hm) (has_names _ _ _ N1 Hr) H) as [R1 [R2 R3]].
  split; [split; [assumption|]|congruence].
  rewrite R3. unfold has. rewrite R2, N1. exact Hc.
Qed.

Lemma fold_left_map' {A B C} (f : A -> C -> A) (g : B -> C) l a :
  fold_left (fun acc x => f acc (g x)) l a = fold_left f (map g l) a.
Proof. revert a. induction l as [|x l IH]; intro a; cbn; auto. Qed.

Lemma exec_inv s x s' : J s -> exec s x = Ok s' -> J s'.
Proof.
  intros [HI Hc] H. destruct x; cbn [exec] in H.
  - (* comment *) inversion H; subst. split; assumption.
  - (* .model *)
    destruct (b_top (s_nl s)) as [t|]; inversion H; subst s'; clear H; unfold J; cbn [st_models s_nl b_models s_cur];
      (split; [apply inv_attr; [apply inv_ensure; exact HI|intro; repeat split]|];
       unfold has; rewrite upd_model_names by (intros y Hy; exact Hy); apply has_ensure).
  - (* .inputs *)
    apply bind_ok in H as [ms [H1 H2]]. inversion H2; subst s'. unfold J. rewrite st_models_set_ms. cbn [s_cur set_ms set_nl].
    destruct (fold_inv_names (do_input (s_merged s) (s_cur s)) l (st_models s) ms) as [R1 R2]; auto.
    + intros a x a' A1 A2 A3. apply (do_input_inv _ _ _ _ _ A1 (has_names _ _ _ A2 Hc) A3).
    + split; [assumption|]. eapply has_names; eauto.
  - (* .outputs *)
    apply bind_ok in H as [ms [H1 H2]]. inversion H2; subst s'. unfold J. rewrite st_models_set_ms. cbn [s_cur set_ms set_nl].
    destruct (fold_inv_names (do_output (s_merged s) (s_cur s)) l (st_models s) ms) as [R1 R2]; auto.
    + intros a x a' A1 A2 A3. apply (do_output_inv _ _ _ _ _ A1 (has_names _ _ _ A2 Hc) A3).
    + split; [assumption|]. eapply has_names; eauto.
  - (* .clock *)
    inversion H; subst s'. unfold J. rewrite st_models_set_ms. cbn [s_cur set_ms set_nl]. split.
    + apply inv_attr; [assumption|intro; repeat split].
    + unfold has. rewrite upd_model_names by (intros y Hy; exact Hy). exact Hc.
  - (* .subckt / .gate *)
    apply bind_ok in H as [s1 [H1 H]]. destruct (check_hierarchy_models _ _ _ H1) as [E1 E2].
    apply bind_ok in H as [[ms1 info] [H2 H]].
    assert (HI0 : Inv (ensure_model ref (st_models s1))) by (rewrite E1; apply inv_ensure; assumption).
    destruct (do_pairs_inv ref pairs _ _ _ _ HI0 (has_ensure _ _) H2) as [A1 [A2 A3]].
    assert (Hc1 : has (s_cur s1) ms1).
    { unfold has. rewrite A2, E2, E1. apply has_ensure_other. exact Hc. }
    assert (Hr1 : has ref ms1) by (unfold has; rewrite A2; apply has_ensure).
    apply (inst_tail_inv _ _ _ _ _ _ _ A1 Hc1 Hr1 H).
  - (* .names *)
    destruct (rev nets) as [|lastnet _]; [discriminate|].
    set (ref := k_logic_gate ++ dec (length nets - 1)) in *.
    pose proof (inv_ensure ref _ HI) as HI0.
    destruct (fold_ensure_port_inv ref (names_ports (length nets - 1)) _ HI0 (has_ensure _ _)) as [A1 [A2 A3]].
    cbn zeta in A1, A2, A3. set (ms1 := fold_left _ (names_ports (length nets - 1)) _) in *.
    assert (Hc1 : has (s_cur s) ms1) by (unfold has; rewrite A2; apply has_ensure_other; exact Hc).
    assert (Hr1 : has ref ms1) by (unfold has; rewrite A2; apply has_ensure).
    apply (inst_tail_inv _ _ _ _ _ _ _ A1 Hc1 Hr1 H).
  - (* cover row *)
    unfold upd_cur_inst in H. destruct (s_curinst s) as [idx|]; inversion H; subst s'. unfold J.
    rewrite st_models_set_ms. cbn [s_cur set_ms set_nl]. split.
    + apply inv_upd_inst; [assumption|intro; split; reflexivity].
    + unfold has. rewrite upd_model_names by (intros y Hy; exact Hy). exact Hc.
  - (* .latch *)
    set (ref := k_latch_def) in *. set (info := zip latch_order toks) in *.
    pose proof (inv_ensure ref _ HI) as HI0.
    set (ms0 := ensure_model ref (st_models s)) in *.
    set (ms1 := match m_ports (get_model ref ms0) with [] => _ | _ => ms0 end) in H.
    assert (A : Inv ms1 /\ map m_name ms1 = map m_name ms0).
    { unfold ms1. destruct (m_ports (get_model ref ms0)); [|auto].
      rewrite (fold_left_map' (fun ms q => ensure_port ref q ms) (fun kv : str * str => latch_port (fst kv)) info ms0).
      destruct (fold_ensure_port_inv ref (map (fun kv => latch_port (fst kv)) info) ms0 HI0 (has_ensure _ _)) as [B1 [B2 _]].
      auto. }
    destruct A as [A1 A2].
    assert (Hc1 : has (s_cur s) ms1) by (unfold has; rewrite A2; apply has_ensure_other; exact Hc).
    assert (Hr1 : has ref ms1) by (unfold has; rewrite A2; apply has_ensure).
    destruct (sassoc k_output info) as [out|]; [|discriminate].
    apply (inst_tail_inv _ _ _ _ _ _ _ A1 Hc1 Hr1 H).
  - (* .param *)
    unfold upd_cur_inst in H. destruct (s_curinst s) as [idx|]; inversion H; subst s'. unfold J.
    rewrite st_models_set_ms. cbn [s_cur set_ms set_nl]. split.
    + apply inv_upd_inst; [assumption|intro; split; reflexivity].
    + unfold has. rewrite upd_model_names by (intros y Hy; exact Hy). exact Hc.
  - (* .cname *)
    destruct (s_curinst s) as [idx|]; [|discriminate]. apply bind_ok in H as [ms1 [H1 H2]]. inversion H2; subst s'.
    unfold J. rewrite st_models_set_ms. cbn [s_cur set_ms set_nl].
    set (ms0 := upd_model (s_cur s) _ (st_models s)) in *.
    assert (HI0 : Inv ms0) by (apply inv_upd_inst; [assumption|intro; split; reflexivity]).
    split; [eapply set_inst_name_inv; eauto|].
    unfold has. rewrite (names_upd_model_res _ _ _ _ H1) by (intros; eapply set_inst_name_name; eauto).
    unfold ms0. rewrite upd_model_names by (intros y Hy; exact Hy). exact Hc.
  - (* .attr *)
    unfold upd_cur_inst in H. destruct (s_curinst s) as [idx|]; inversion H; subst s'. unfold J.
    rewrite st_models_set_ms. cbn [s_cur set_ms set_nl]. split.
    + apply inv_upd_inst; [assumption|intro; split; reflexivity].
    + unfold has. rewrite upd_model_names by (intros y Hy; exact Hy). exact Hc.
  - (* .conn *)
    destruct (pni a) as [[an ai]|]; [|discriminate]. cbn [bind] in H.
    destruct (pni b) as [[bn bi]|]; [|discriminate]. cbn [bind] in H.
    apply bind_ok in H as [ms [H1 H2]]. inversion H2; subst s'. unfold J. rewrite st_models_set_merged, st_models_set_ms.
    cbn [s_cur set_merged set_ms set_nl].
    split.
    + apply (inv_upd_model_res _ _ _ _ HI H1). intros m m' Hm Hn Hd.
      pose proof (proj2 HI m Hm) as Wm.
      destruct (do_conn_spec _ _ _ _ _ _ _ Hd (c_cables _ _ Wm)) as [Dn [Dp _]].
      split; [congruence|]. split.
      * intros p b'. unfold port_bit. rewrite Dp. tauto.
      * intro W. eapply do_conn_WFc; eauto.
    + unfold has. rewrite (names_upd_model_res _ _ _ _ H1) by (intros; eapply do_conn_name; eauto). exact Hc.
  - (* .blackbox *)
    inversion H; subst s'. unfold J. cbn [st_models s_nl b_models set_models s_cur]. split.
    + apply inv_blackbox. assumption.
    + unfold has. rewrite upd_model_names by (intros y Hy; exact Hy). exact Hc.
  - (* .end *)
    destruct (m_lib (cur_model s)); inversion H; subst s'. unfold J. cbn [st_models s_nl b_models set_nl s_cur]. split.
    + apply inv_attr; [assumption|intro; repeat split].
    + unfold has. rewrite upd_model_names by (intros y Hy; exact Hy). exact Hc.
  - discriminate.
Qed.

Lemma exec_all_inv l s s' : J s -> exec_all s l = Ok s' -> J s'.
Proof.
  revert s. induction l as [|x l IH]; intros s HJ H; cbn in H.
  - inversion H; subst; assumption.
  - apply bind_ok in H as [s1 [H1 H2]]. eapply IH; [|exact H2]. eapply exec_inv; eauto.
Qed.

Lemma exec_model_J s nm s' : Inv (st_models s) -> exec s (SModel nm) = Ok s' -> J s'.
Proof.
  intros HI H. cbn [exec] in H.
  destruct (b_top (s_nl s)) as [t|]; inversion H; subst s'; clear H; unfold J; cbn [st_models s_nl b_models s_cur];
    (split; [apply inv_attr; [apply inv_ensure; exact HI|intro; repeat split]|];
     unfold has; rewrite upd_model_names by (intros y Hy; exact Hy); apply has_ensure).
Qed.

(* the reader's loops only act on tokens it knows: before the first .model only comments are statements *)
Fixpoint top_ok (ss : list stmt) : Prop :=
  match ss with
  | [] => True
  | SComment _ :: r => top_ok r
  | SModel _ :: _ => True
  | _ => False
  end.

Lemma classify_top_ok d ss : classify_from MTop d = Ok ss -> top_ok ss.
Proof.
  revert ss. induction d as [|l d IH]; intros ss H; cbn [classify_from] in H.
  - inversion H. exact I.
  - apply bind_ok in H as [[s1 md] [H1 H2]]. apply bind_ok in H2 as [rest [H2 H3]]. inversion H3; subst ss.
    cbn [cl_line] in H1. unfold cl_top in H1. destruct l as [|t rest'].
    + inversion H1; subst s1 md. cbn [app]. apply IH. assumption.
    + destruct (str_eqb t k_hash).
      * inversion H1; subst s1 md. cbn [app top_ok]. apply IH. assumption.
      * destruct (str_eqb t k_model).
        -- destruct rest' as [|nm [|? ?]]; inversion H1; subst s1 md. exact I.
        -- destruct (has_tok _ _); inversion H1; subst s1 md. cbn [app]. apply IH. assumption.
Qed.

Lemma exec_all_start ss s s' :
  top_ok ss -> st_models s = [] -> exec_all s ss = Ok s' -> Inv (st_models s').
Proof.
  revert s. induction ss as [|x ss IH]; intros s Ht Hs H; cbn in H.
  - inversion H; subst. rewrite Hs. split; [constructor|intros m []].
  - apply bind_ok in H as [s1 [H1 H2]]. destruct x; try contradiction.
    + cbn in H1. inversion H1; subst s1. apply (IH (add_comment s toks)); [exact Ht|exact Hs|exact H2].
    + assert (HI : Inv (st_models s)) by (rewrite Hs; split; [constructor|intros m []]).
      pose proof (exec_model_J _ _ _ HI H1) as HJ. apply (exec_all_inv _ _ _ HJ H2).
Qed.

(* ---------- finish: renaming and library assignment do not touch the structure ---------- *)
Definition same_core (m m' : model) : Prop :=
  m_name m' = m_name m /\ m_ports m' = m_ports m /\ m_cables m' = m_cables m /\ m_orphans m' = m_orphans m /\
  map (fun i => (i_ref i, i_pins i)) (m_insts m') = map (fun i => (i_ref i, i_pins i)) (m_insts m).

Lemma same_core_refl m : same_core m m.
Proof. repeat split. Qed.

Lemma same_core_trans a b c : same_core a b -> same_core b c -> same_core a c.
Proof. intros [A1 [A2 [A3 [A4 A5]]]] [B1 [B2 [B3 [B4 B5]]]]. repeat split; congruence. Qed.

Lemma Forall2_find ms ms' nm m :
  Forall2 same_core ms ms' -> find_model nm ms = Some m ->
  exists m', find_model nm ms' = Some m' /\ same_core m m'.
Proof.
  unfold find_model. induction 1 as [|x y l l' Hxy HF IH]; cbn; [discriminate|].
  destruct Hxy as [Hn Hrest]. rewrite Hn. destruct (str_eqb (m_name x) nm).
  - intro H. inversion H; subst. exists y. split; [reflexivity|]. split; assumption.
  - exact IH.
Qed.

Lemma Forall2_find_rev ms ms' nm m' :
  Forall2 same_core ms ms' -> find_model nm ms' = Some m' ->
  exists m, find_model nm ms = Some m /\ same_core m m'.
Proof.
  unfold find_model. induction 1 as [|x y l l' Hxy HF IH]; cbn; [discriminate|].
  destruct Hxy as [Hn Hrest]. rewrite Hn. destruct (str_eqb (m_name x) nm).
  - intro H. inversion H; subst. exists x. split; [reflexivity|]. split; assumption.
  - exact IH.
Qed.

Lemma same_core_port_bit m m' p b : same_core m m' -> (port_bit m' p b <-> port_bit m p b).
Proof. intros [_ [Hp _]]. unfold port_bit. rewrite Hp. tauto. Qed.

Lemma same_core_nth m m' i x' :
  same_core m m' -> nth_error (m_insts m') i = Some x' ->
  exists x, nth_error (m_insts m) i = Some x /\ i_ref x = i_ref x' /\ i_pins x = i_pins x'.
Proof.
  intros [_ [_ [_ [_ H]]]] Hx.
  assert (E : nth_error (map (fun i => (i_ref i, i_pins i)) (m_insts m')) i = Some (i_ref x', i_pins x')).
  { rewrite nth_error_map, Hx. reflexivity. }
  rewrite H, nth_error_map in E. destruct (nth_error (m_insts m) i) as [x|]; [|discriminate].
  cbn in E. inversion E. eauto.
Qed.

Lemma same_core_sym_nth m m' i x :
  same_core m m' -> nth_error (m_insts m) i = Some x ->
  exists x', nth_error (m_insts m') i = Some x' /\ i_ref x' = i_ref x /\ i_pins x' = i_pins x.
Proof.
  intros [_ [_ [_ [_ H]]]] Hx.
  assert (E : nth_error (map (fun i => (i_ref i, i_pins i)) (m_insts m)) i = Some (i_ref x, i_pins x)).
  { rewrite nth_error_map, Hx. reflexivity. }
  rewrite <- H, nth_error_map in E. destruct (nth_error (m_insts m') i) as [x'|]; [|discriminate].
  cbn in E. inversion E. eauto.
Qed.

Lemma inv_same_core ms ms' : Forall2 same_core ms ms' -> Inv ms -> Inv ms'.
Proof.
  intros HF [Hnd Hall].
  assert (Hnames : map m_name ms' = map m_name ms).
  { clear -HF. induction HF as [|x y l l' [Hn _] _ IH]; cbn; [reflexivity|]. rewrite Hn, IH. reflexivity. }
  assert (Hsig : forall r p b, sigb ms' r p b <-> sigb ms r p b).
  { intros r p b. unfold sigb. split.
    - intros [m' [H1 H2]]. destruct (Forall2_find_rev _ _ _ _ HF H1) as [m [H3 H4]].
      exists m. split; [assumption|]. apply (same_core_port_bit _ _ _ _ H4). assumption.
    - intros [m [H1 H2]]. destruct (Forall2_find _ _ _ _ HF H1) as [m' [H3 H4]].
      exists m'. split; [assumption|]. apply (same_core_port_bit _ _ _ _ H4). assumption. }
  split; [rewrite Hnames; assumption|].
  intros m' Hm'.
  assert (Hex : exists m, In m ms /\ same_core m m').
  { clear -HF Hm'. induction HF as [|x y l l' Hxy _ IH]; [contradiction|].
    destruct Hm' as [<-|Hm']; [exists x; split; [left; reflexivity|assumption]|].
    destruct (IH Hm') as [m [A B]]. exists m. split; [right; assumption|assumption]. }
  destruct Hex as [m [Hm Hc]]. pose proof (Hall m Hm) as [W1 W2 W3 W4 W5].
  pose proof Hc as [C1 [C2 [C3 [C4 C5]]]].
  constructor; unfold all_wire_pins; rewrite ?C2, ?C3, ?C4; auto.
  - intros pr Hpr. specialize (W1 pr Hpr). destruct pr as [p b|i p b]; cbn in *.
    + apply (same_core_port_bit _ _ _ _ Hc). assumption.
    + destruct W1 as [x [H1 H2]]. destruct (same_core_sym_nth _ _ _ _ Hc H1) as [x' [A [B _]]].
      exists x'. split; [assumption|]. rewrite B. apply Hsig. assumption.
  - intros x' Hx'. apply In_nth_error in Hx' as [i Hi].
    destruct (same_core_nth _ _ _ _ Hc Hi) as [x [A [B C]]].
    destruct (W3 x (nth_error_In _ _ A)) as [[r Hr] [Hd Hmir]]. rewrite <- B, <- C. split; [|split; [assumption|]].
    + destruct (Forall2_find _ _ _ _ HF Hr) as [r' [Hr' _]]. eauto.
    + intros p b. rewrite Hmir. symmetry. apply Hsig.
Qed.

Lemma map_upd_nth_same {A B} (g : A -> B) k f l : (forall x, g (f x) = g x) -> map g (upd_nth k f l) = map g l.
Proof.
  intro H. revert k. induction l as [|x l IH]; intros [|k]; cbn; try reflexivity.
  - rewrite H. reflexivity.
  - rewrite IH. reflexivity.
Qed.

Lemma set_inst_name_core idx nm m m' : set_inst_name idx nm m = Ok m' -> same_core m m'.
Proof.
  unfold set_inst_name. destruct (name_taken _ _ _); [discriminate|]. intro H. inversion H; subst m'.
  repeat split. cbn. apply map_upd_nth_same. reflexivity.
Qed.

Lemma conv_model_core ms todo m m' : conv_model ms todo m = Ok m' -> same_core m m'.
Proof.
  revert m. induction todo as [|idx todo IH]; intros m H; cbn in H.
  - inversion H. apply same_core_refl.
  - destruct (nth_error (m_insts m) idx) as [i|]; [|inversion H; apply same_core_refl].
    destruct (wants_conv i); [|apply IH; assumption].
    destruct (conv_name ms m idx i) as [nm|]; [|apply IH; assumption].
    apply bind_ok in H as [m1 [H1 H2]]. eapply same_core_trans; [eapply set_inst_name_core; eauto|apply IH; assumption].
Qed.

Lemma conv_all_core ms l l' : conv_all ms l = Ok l' -> Forall2 same_core l l'.
Proof.
  revert l'. induction l as [|m l IH]; intros l' H; cbn in H.
  - inversion H. constructor.
  - apply bind_ok in H as [m' [H1 H2]]. apply bind_ok in H2 as [rest [H2 H3]]. inversion H3; subst l'.
    constructor; [eapply conv_model_core; eauto|apply IH; assumption].
Qed.

Lemma finish_inv s n : Inv (st_models s) -> finish s = Ok n -> Inv (b_models n).
Proof.
  intros HI H. unfold finish in H. apply bind_ok in H as [ms [H1 H2]]. inversion H2; subst n. cbn [b_models].
  apply conv_all_core in H1. eapply inv_same_core; [|exact HI]. unfold st_models.
  clear -H1. induction H1 as [|x y l l' Hxy _ IH]; cbn; constructor; [|assumption].
  destruct (m_defined y); [assumption|]. destruct Hxy as [A [B [C [D E]]]]. repeat split; assumption.
Qed.

Theorem elab_inv d n : elab d = Ok n -> Inv (b_models n).
Proof.
  unfold elab, elab_stmts. intro H. apply bind_ok in H as [ss [H1 H]]. apply bind_ok in H as [s [H2 H3]].
  eapply finish_inv; [|exact H3].
  apply (exec_all_start ss init_st s); [eapply classify_top_ok; exact (classify_ok _ _ H1)|reflexivity|exact H2].
Qed.

(* ---------- no handler detaches a cable that still holds pins ---------- *)
Definition Oinv (ms : list model) : Prop := forall m, In m ms -> m_orphans m = [].

Lemma oinv_upd_model cur f ms :
  Oinv ms -> (forall m, m_orphans m = [] -> m_orphans (f m) = []) -> Oinv (upd_model cur f ms).
Proof.
  intros HO Hf m' Hm'. apply In_upd_model in Hm' as [m [Hm ->]].
  destruct (str_eqb (m_name m) cur); auto.
Qed.

Lemma oinv_add_pins r new ms : Oinv ms -> Oinv (add_pins_refs r new ms).
Proof.
  intros HO m' Hm'. rewrite add_pins_refs_eq in Hm'. apply in_map_iff in Hm' as [m [<- Hm]]. cbn. auto.
Qed.

Lemma oinv_add_port r q ms : Oinv ms -> Oinv (add_port r q ms).
Proof. intro HO. unfold add_port. apply oinv_add_pins. apply oinv_upd_model; auto. Qed.

Lemma oinv_grow_port r p w ms : Oinv ms -> Oinv (grow_port r p w ms).
Proof.
  intro HO. unfold grow_port. destruct (find_model r ms); [|assumption]. destruct (Nat.ltb _ _); [|assumption].
  apply oinv_add_pins. apply oinv_upd_model; auto.
Qed.

Lemma oinv_ensure nm ms : Oinv ms -> Oinv (ensure_model nm ms).
Proof.
  intro HO. unfold ensure_model. destruct (find_model nm ms); [assumption|].
  intros m Hm. apply in_app_iff in Hm as [Hm|[<-|[]]]; auto.
Qed.

Lemma oinv_upd_model_res cur f ms ms' :
  Oinv ms -> upd_model_res cur f ms = Ok ms' ->
  (forall m m', f m = Ok m' -> m_orphans m' = m_orphans m) -> Oinv ms'.
Proof.
  intros HO H Hf. unfold upd_model_res in H. destruct (find_model cur ms) as [m|] eqn:E; [|discriminate].
  apply bind_ok in H as [m' [H1 H2]]. inversion H2; subst ms'.
  intros x Hx. apply In_upd_model in Hx as [y [Hy ->]]. destruct (str_eqb (m_name y) cur); auto.
  rewrite (Hf _ _ H1). apply HO. apply find_model_In in E. tauto.
Qed.

Lemma set_inst_name_orph idx nm m m' : set_inst_name idx nm m = Ok m' -> m_orphans m' = m_orphans m.
Proof. intro H. apply set_inst_name_core in H. destruct H as [_ [_ [_ [H _]]]]. exact H. Qed.

Lemma do_conn_orph al a i b j m m' : do_conn al a i b j m = Ok m' -> m_orphans m' = m_orphans m.
Proof. unfold do_conn. destruct (nb_eqb _ _); intro H; inversion H; reflexivity. Qed.

Lemma connect_to_orph al pr c k m m' : connect_to al pr c k m = Ok m' -> m_orphans m' = m_orphans m.
Proof. unfold connect_to. destruct (connected m pr); [discriminate|]. intro H. inversion H. reflexivity. Qed.

Lemma oinv_fold {A X} (f : result A -> X -> result A) (g : A -> list model) l a a' :
  (forall e x, f (Error e) x = Error e) ->
  (forall a x a', Oinv (g a) -> f (Ok a) x = Ok a' -> Oinv (g a')) ->
  Oinv (g a) -> fold_left f l (Ok a) = Ok a' -> Oinv (g a').
Proof. intros He Hs. apply (fold_res_inv f (fun a => Oinv (g a)) He Hs). Qed.

Lemma oinv_do_input al cur ms tok ms' : Oinv ms -> do_input al cur (Ok ms) tok = Ok ms' -> Oinv ms'.
Proof.
  intros HO H. unfold do_input in H. cbn [bind] in H. destruct (pni tok) as [[p i]|]; [|discriminate]. cbn [bind] in H.
  destruct (input_io cur p ms).
  { inversion H; subst. apply oinv_grow_port. apply oinv_upd_model; auto. }
  eapply oinv_upd_model_res; [|exact H|intros; eapply connect_to_orph; eauto].
  apply oinv_grow_port. destruct (find_port _ _); [apply oinv_upd_model; auto|apply oinv_add_port; assumption].
Qed.

Lemma oinv_do_output al cur ms tok ms' : Oinv ms -> do_output al cur (Ok ms) tok = Ok ms' -> Oinv ms'.
Proof.
  intros HO H. unfold do_output in H. cbn [bind] in H. destruct (pni tok) as [[p i]|]; [|discriminate]. cbn [bind] in H.
  set (ms1 := match find_port _ _ with None => _ | Some _ => ms end) in H.
  assert (O1 : Oinv ms1) by (unfold ms1; destruct (find_port _ _); [assumption|apply oinv_add_port; assumption]).
  set (ms2 := upd_model cur _ ms1) in H.
  assert (O2 : Oinv ms2) by (apply oinv_upd_model; auto).
  destruct (_ || _).
  - inversion H; subst. apply oinv_grow_port. assumption.
  - eapply oinv_upd_model_res; [|exact H|intros; eapply connect_to_orph; eauto]. apply oinv_grow_port. assumption.
Qed.

Lemma oinv_do_pair ref a tok a' : Oinv (fst a) -> do_pair ref (Ok a) tok = Ok a' -> Oinv (fst a').
Proof.
  destruct a as [ms info]. intros HO H. unfold do_pair in H. cbn [bind] in H. destruct (split_eq tok) as [formal actual].
  destruct (pni formal) as [[p i]|]; [|discriminate]. cbn [bind] in H.
  set (ms1 := match find_port _ _ with None => _ | Some _ => ms end) in H.
  assert (O1 : Oinv ms1) by (unfold ms1; destruct (find_port _ _); [assumption|apply oinv_add_port; assumption]).
  destruct (Nat.leb _ _); inversion H; subst; cbn; [apply oinv_grow_port|]; assumption.
Qed.

Lemma oinv_conn_one al cur ref idx ms fa ms' : Oinv ms -> conn_one al cur ref idx (Ok ms) fa = Ok ms' -> Oinv ms'.
Proof.
  intros HO H. unfold conn_one in H. cbn [bind] in H.
  destruct (pni (snd fa)) as [[c k]|]; [|discriminate]. cbn [bind] in H.
  destruct (pni (fst fa)) as [[p i]|]; [|discriminate]. cbn [bind] in H.
  destruct (str_eqb c k_unconn).
  - inversion H; subst. apply oinv_upd_model; auto.
  - destruct (find_port _ _); [|discriminate].
    eapply oinv_upd_model_res; [|exact H|intros; eapply connect_to_orph; eauto]. apply oinv_grow_port. assumption.
Qed.

Lemma oinv_finish_inst s ref idx nm info ms s' :
  Oinv ms -> finish_inst s ref idx nm info ms = Ok s' -> Oinv (st_models s').
Proof.
  intros HO H. unfold finish_inst in H.
  destruct (match nm with Some x => _ | None => _ end) as [name tbl].
  apply bind_ok in H as [ms1 [H1 H]]. apply bind_ok in H as [ms2 [H2 H]]. inversion H; subst s'. cbn [st_models s_nl b_models set_models].
  assert (O1 : Oinv ms1) by (eapply oinv_upd_model_res; [exact HO|exact H1|intros; eapply set_inst_name_orph; eauto]).
  unfold connect_instance_pins in H2.
  apply (oinv_fold (conn_one (s_merged s) (s_cur s) ref idx) (fun x => x) info ms1 ms2); auto.
  intros a x a' A1 A2. eapply oinv_conn_one; eauto.
Qed.

Lemma oinv_add_child cur ref k ms : Oinv ms -> Oinv (add_child cur ref k ms).
Proof. intro HO. unfold add_child. apply oinv_upd_model; auto. Qed.

Lemma oinv_fold_ensure_port r qs ms : Oinv ms -> Oinv (fold_left (fun ms q => ensure_port r q ms) qs ms).
Proof.
  revert ms. induction qs as [|q qs IH]; intros ms HO; cbn; [assumption|]. apply IH.
  unfold ensure_port. destruct (find_port _ _); [assumption|apply oinv_add_port; assumption].
Qed.

Lemma exec_oinv s x s' : Oinv (st_models s) -> exec s x = Ok s' -> Oinv (st_models s').
Proof.
  intros HO H. destruct x; cbn [exec] in H; try discriminate.
  - inversion H; subst. exact HO.
  - destruct (b_top (s_nl s)); inversion H; subst s'; cbn [st_models s_nl b_models];
      (apply oinv_upd_model; [apply oinv_ensure; exact HO|auto]).
  - apply bind_ok in H as [ms [H1 H2]]. inversion H2; subst s'. rewrite st_models_set_ms.
    apply (oinv_fold (do_input (s_merged s) (s_cur s)) (fun x => x) l (st_models s) ms); auto.
    intros a x a' A1 A2. eapply oinv_do_input; eauto.
  - apply bind_ok in H as [ms [H1 H2]]. inversion H2; subst s'. rewrite st_models_set_ms.
    apply (oinv_fold (do_output (s_merged s) (s_cur s)) (fun x => x) l (st_models s) ms); auto.
    intros a x a' A1 A2. eapply oinv_do_output; eauto.
  - inversion H; subst s'. rewrite st_models_set_ms. apply oinv_upd_model; auto.
  - apply bind_ok in H as [s1 [H1 H]]. destruct (check_hierarchy_models _ _ _ H1) as [E1 E2].
    apply bind_ok in H as [[ms1 info] [H2 H]].
    assert (O1 : Oinv ms1).
    { apply (oinv_fold (do_pair ref) fst pairs (ensure_model ref (st_models s1), []) (ms1, info)); auto.
      - intros a x a' A1 A2. eapply oinv_do_pair; eauto.
      - cbn. rewrite E1. apply oinv_ensure. exact HO. }
    eapply oinv_finish_inst; [|exact H]. apply oinv_add_child. exact O1.
  - destruct (rev nets); [discriminate|].
    eapply oinv_finish_inst; [|exact H]. apply oinv_add_child. apply oinv_fold_ensure_port. apply oinv_ensure. exact HO.
  - unfold upd_cur_inst in H. destruct (s_curinst s); inversion H; subst s'. rewrite st_models_set_ms.
    apply oinv_upd_model; auto.
  - destruct (sassoc k_output _); [|discriminate].
    eapply oinv_finish_inst; [|exact H]. apply oinv_add_child.
    destruct (m_ports _); [|apply oinv_ensure; exact HO].
    rewrite (fold_left_map' (fun ms q => ensure_port k_latch_def q ms) (fun kv : str * str => latch_port (fst kv))).
    apply oinv_fold_ensure_port. apply oinv_ensure. exact HO.
  - unfold upd_cur_inst in H. destruct (s_curinst s); inversion H; subst s'. rewrite st_models_set_ms.
    apply oinv_upd_model; auto.
  - destruct (s_curinst s); [|discriminate]. apply bind_ok in H as [ms1 [H1 H2]]. inversion H2; subst s'.
    rewrite st_models_set_ms. eapply oinv_upd_model_res; [|exact H1|intros; eapply set_inst_name_orph; eauto].
    apply oinv_upd_model; auto.
  - unfold upd_cur_inst in H. destruct (s_curinst s); inversion H; subst s'. rewrite st_models_set_ms.
    apply oinv_upd_model; auto.
  - destruct (pni a) as [[an ai]|]; [|discriminate]. cbn [bind] in H.
    destruct (pni b) as [[bn bi]|]; [|discriminate]. cbn [bind] in H.
    apply bind_ok in H as [ms [H1 H2]]. inversion H2; subst s'. rewrite st_models_set_merged, st_models_set_ms.
    eapply oinv_upd_model_res; [exact HO|exact H1|intros; eapply do_conn_orph; eauto].
  - inversion H; subst s'. cbn [st_models s_nl b_models set_models]. apply oinv_upd_model; auto.
  - destruct (m_lib (cur_model s)); inversion H; subst s'. cbn [st_models s_nl b_models set_nl].
    apply oinv_upd_model; auto.
Qed.

Lemma exec_all_oinv l s s' : Oinv (st_models s) -> exec_all s l = Ok s' -> Oinv (st_models s').
Proof.
  revert s. induction l as [|x l IH]; intros s HO H; cbn in H.
  - inversion H; subst; assumption.
  - apply bind_ok in H as [s1 [H1 H2]]. eapply IH; [|exact H2]. eapply exec_oinv; eauto.
Qed.

Lemma finish_oinv s n : Oinv (st_models s) -> finish s = Ok n -> Oinv (b_models n).
Proof.
  intros HO H. unfold finish in H. apply bind_ok in H as [ms [H1 H2]]. inversion H2; subst n. cbn [b_models].
  apply conv_all_core in H1. intros m' Hm'. apply in_map_iff in Hm' as [y [<- Hy]].
  assert (G : forall l l', Forall2 same_core l l' -> Oinv l -> forall z, In z l' -> m_orphans z = []).
  { clear. induction 1 as [|a b l l' Hab _ IH]; intros HO z Hz; [contradiction|].
    destruct Hz as [<-|Hz].
    - destruct Hab as [_ [_ [_ [Ho _]]]]. rewrite Ho. apply HO. left. reflexivity.
    - apply IH; [|assumption]. intros w Hw. apply HO. right. assumption. }
  assert (Hoy : m_orphans y = []) by (eapply G; eauto).
  destruct (m_defined y); cbn; assumption.
Qed.
