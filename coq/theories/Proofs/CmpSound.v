(* SOUNDNESS of the comparer on named netlists: whatever Comparer(a, b).compare() accepts is
   structurally equivalent to a in the declarative sense of Cmp/Equiv.v - every wire carries the
   same pins (in any order), every instance the same properties (since the repair of
   compare_instances: properties that only b has are seen too, no side condition is left). *)
From Coq Require Import String List Arith NArith ZArith Bool Lia Permutation.
From SV Require Import Base.Base Cmp.Comparer Cmp.Diff Cmp.Equiv
  Proofs.CmpBase Proofs.CmpPinSet Proofs.CmpAccept Proofs.CmpReject.
Import ListNotations.

Lemma compare_accept a b : compare a b = true <-> cmp_run a b = Accept.
Proof. unfold compare. destruct (cmp_run a b); cbn; split; congruence. Qed.

(* ---------- list facts ---------- *)
Lemma Forall2_impl_in {A B} (P Q : A -> B -> Prop) la : forall lb,
  (forall x y, In x la -> In y lb -> P x y -> Q x y) -> Forall2 P la lb -> Forall2 Q la lb.
Proof.
  induction la as [|x la IH]; intros lb H HF; inversion HF; subst; constructor.
  - apply H; [left; reflexivity|left; reflexivity|assumption].
  - apply IH; [|assumption]. intros x' y' Hx Hy. apply H; right; assumption.
Qed.

Lemma Forall2_map_eq {A B} (g : A -> B) la : forall lb,
  Forall2 (fun x y => g y = g x) la lb -> map g lb = map g la.
Proof.
  induction la as [|x la IH]; intros lb HF; inversion HF; subst; cbn; [reflexivity|].
  f_equal; [assumption|apply IH; assumption].
Qed.

Lemma Forall2_incl_r {A B} (P : A -> B -> Prop) (lb0 : list B) la : forall lb,
  Forall2 (fun x y => In y lb0 /\ P x y) la lb -> incl lb lb0.
Proof.
  induction la as [|x la IH]; intros lb HF; inversion HF; subst; intros z Hz; [contradiction|].
  destruct Hz as [<-|Hz]; [tauto|]. eapply IH; eassumption.
Qed.

Lemma Forall2_eq_refl {A} (l : list A) : Forall2 eq l l.
Proof. induction l; constructor; auto. Qed.

Lemma Forall2_eq {A} (l l' : list A) : Forall2 eq l l' -> l = l'.
Proof. induction 1; congruence. Qed.

Lemma NoDup_map_Some {A} (ns : list A) : NoDup ns -> NoDup (map Some ns).
Proof.
  induction 1 as [|n ns Hn Hd IH]; cbn; constructor; [|assumption].
  intro Hin. apply in_map_iff in Hin as [m [Hm Hi]]. inversion Hm; subst. contradiction.
Qed.

Lemma sib_equiv_impl_in {A} (R R' : A -> A -> Prop) la lb :
  (forall x y, In x la -> In y lb -> R x y -> R' x y) -> sib_equiv R la lb -> sib_equiv R' la lb.
Proof.
  intros H [lb' [Hp HF]]. exists lb'. split; [assumption|].
  apply (Forall2_impl_in R R'); [|assumption].
  intros x y Hx Hy. apply H; [assumption|]. apply (Permutation_in _ Hp). assumption.
Qed.

(* ---------- name-keyed matching of siblings ---------- *)
Lemma lookup_abs_some {A} (name : A -> oname) n l y :
  lookup name n l = Some y -> In y l /\ name y = Some n.
Proof. unfold lookup. apply find_has_name_some. Qed.

Lemma cmp_each_matched {A} (name : A -> oname) skip f lb : forall la ns,
  map name la = map Some ns ->
  (forall x, In x la -> skip x = false) ->
  cmp_each name skip (fun n => lookup name n lb) f la = Accept ->
  exists lb', Forall2 (fun x y => In y lb /\ (name y = name x /\ f x y = Accept)) la lb'.
Proof.
  induction la as [|x la IH]; intros ns Hm Hs Hc.
  - exists []. constructor.
  - destruct ns as [|n ns]; [discriminate|]. cbn in Hm. inversion Hm as [[Hn Hm']].
    cbn in Hc. rewrite Hn in Hc. rewrite (Hs x (or_introl eq_refl)) in Hc.
    destruct (lookup name n lb) as [y|] eqn:El; [|discriminate].
    apply seq_accept in Hc as [Hf Hr].
    destruct (lookup_abs_some name n lb y El) as [Hin Hy].
    destruct (IH ns Hm' (fun z Hz => Hs z (or_intror Hz)) Hr)
      as [lb' HF].
    exists (y :: lb'). constructor; [|assumption].
    split; [assumption|]. split; [congruence|assumption].
Qed.

(* the heart of soundness: all names of the first list are found in the second, the names of
   the first list are pairwise different and the lists are equally long - so the second list
   is a rearrangement of the matches *)
Lemma cmp_each_sound {A} (name : A -> oname) skip f (R : A -> A -> Prop) la lb :
  named_ok name la = true -> (forall x, In x la -> skip x = false) ->
  length la = length lb ->
  cmp_each name skip (fun n => lookup name n lb) f la = Accept ->
  (forall x y, In x la -> In y lb -> name y = name x -> f x y = Accept -> R x y) ->
  sib_equiv R la lb.
Proof.
  intros Hn Hs Hl Hc HR. apply named_ok_spec in Hn as [ns [Hm Hd]].
  destruct (cmp_each_matched name skip f lb la ns Hm Hs Hc) as [lb' HF].
  assert (Hincl : incl lb' lb)
    by (apply (Forall2_incl_r (fun x y => name y = name x /\ f x y = Accept) lb la lb' HF)).
  exists lb'. split.
  - apply NoDup_Permutation_bis.
    + apply (NoDup_map_inv name).
      rewrite (Forall2_map_eq name la lb').
      * rewrite Hm. apply NoDup_map_Some. assumption.
      * eapply Forall2_impl_in; [|eassumption]. cbn. intros x y _ _ [_ [H _]]. assumption.
    + rewrite <- (Forall2_len _ _ _ HF). lia.
    + assumption.
  - eapply Forall2_impl_in; [|eassumption]. cbn. intros x y Hx Hy [Hin [Hny Hf]].
    apply HR; assumption.
Qed.

(* ---------- ports ---------- *)
Lemma cmp_port_sound xo xc o c : cmp_port xo xc o c = Accept -> port_rel o c.
Proof.
  unfold cmp_port. intro H.
  apply seq_accept in H as [H1 H]. apply seq_accept in H as [H2 H].
  apply seq_accept in H as [H3 H]. apply seq_accept in H as [H4 H].
  apply seq_accept in H as [H6 H].
  apply check_accept in H1, H2, H3, H4, H6.
  apply oname_eqb_spec in H1, H2. apply dir_eqb_spec in H3. apply eqb_prop in H4.
  apply Nat.eqb_eq in H6. repeat split; assumption.
Qed.

Lemma cmp_wires_sound xo xc io ic : fst xo <> None -> not_asg io -> forall wo wc,
  forallb (forallb (wf_pin io)) wo = true -> length wo = length wc ->
  cmp_wires xo xc io ic wo wc = Accept -> Forall2 wire_perm wo wc.
Proof.
  intros Hxo Hna. induction wo as [|w wo IH]; intros [|w' wc] Hw Hl Hc; try discriminate; [constructor|].
  cbn in Hw. apply andb_true_iff in Hw as [Hw1 Hw2]. cbn in Hl. cbn [cmp_wires] in Hc.
  apply seq_accept in Hc as [H1 H2]. constructor.
  - exact (cmp_wire_sound _ _ _ _ _ _ Hxo Hna Hw1 H1).
  - exact (IH wc Hw2 (eq_add_S _ _ Hl) H2).
Qed.

Lemma cmp_cable_rel xo xc io ic o c : fst xo <> None -> not_asg io -> wf_cable io o = true ->
  cmp_cable xo xc io ic o c = Accept -> cable_rel wire_perm o c.
Proof.
  intros Hxo Hna Hw Hc. unfold cmp_cable in Hc.
  apply seq_accept in Hc as [H1 Hc]. apply seq_accept in Hc as [H2 Hc].
  apply seq_accept in Hc as [H3 Hc].
  apply check_accept in H1, H2, H3. apply oname_eqb_spec in H1, H2. apply Nat.eqb_eq in H3.
  split; [assumption|]. split; [assumption|].
  eapply cmp_wires_sound; eassumption.
Qed.

(* ---------- instances ---------- *)
Lemma cmp_ref_sound ro rc : cmp_ref ro rc = Accept -> ro = rc.
Proof.
  destruct ro as [[d1 l1]|], rc as [[d2 l2]|]; cbn; intro H.
  - apply check_accept in H. apply andb_true_iff in H as [H1 H2].
    apply oname_eqb_spec in H1, H2. congruence.
  - discriminate.
  - discriminate.
  - reflexivity.
Qed.

Lemma sassoc_in {B} k (v : B) d : sassoc k d = Some v -> In (k, v) d.
Proof.
  induction d as [|[k' v'] d IH]; cbn; [discriminate|].
  destruct (str_eqb k k') eqn:E.
  - apply str_eqb_spec in E. subst. intro H. inversion H. left. reflexivity.
  - intro H. right. apply IH. assumption.
Qed.

Lemma cmp_items_sound items dc : cmp_items items dc = Accept ->
  forall k v, In (k, v) items -> exists v', sassoc k dc = Some v' /\ pval_eqb v v' = true.
Proof.
  induction items as [|[k0 v0] items IH]; cbn; intros Hc k v Hin; [contradiction|].
  destruct (sassoc k0 dc) as [v'|] eqn:Es; [|discriminate].
  apply seq_accept in Hc as [H1 H2]. apply check_accept in H1.
  destruct Hin as [Heq|Hin].
  - inversion Heq; subst. exists v'. auto.
  - apply IH; assumption.
Qed.

(* entry by entry: the same keys, and the values of the first equal those of the second *)
Lemma cmp_props_sound po : forall pc, cmp_props po pc = Accept ->
  forall j d, nth_error po j = Some d ->
  exists d', nth_error pc j = Some d' /\ keys_eqb d d' = true /\ cmp_items d d' = Accept.
Proof.
  induction po as [|d0 po IH]; intros pc Hc j d Hj; [destruct j; discriminate|].
  destruct pc as [|c pc]; [discriminate|].
  cbn [cmp_props] in Hc. apply seq_accept in Hc as [H1 H2]. apply seq_accept in H2 as [H2 H3].
  apply check_accept in H1.
  destruct j as [|j]; cbn in Hj.
  - inversion Hj; subst d0. exists c. auto.
  - cbn. apply (IH pc H3 j d Hj).
Qed.

Lemma has_key_sassoc {k d} : has_key k d = true -> exists v, sassoc k d = Some v.
Proof. unfold has_key. destruct (sassoc k d) as [v|]; [eauto|discriminate]. Qed.

Lemma pval_eqb_sym a b : pval_eqb a b = true -> pval_eqb b a = true.
Proof.
  destruct a as [x|x|x|], b as [y|y|y|]; cbn; try discriminate; try tauto.
  - intro H. apply str_eqb_spec in H. subst. apply str_eqb_refl.
  - intro H. apply Z.eqb_eq in H. subst. apply Z.eqb_refl.
  - destruct x, y; tauto.
Qed.

Lemma nth_error_same_length {A} (l l' : list A) j x :
  length l = length l' -> nth_error l' j = Some x -> exists y, nth_error l j = Some y.
Proof.
  intros Hl Hn. destruct (nth_error l j) as [y|] eqn:E; [eauto|].
  apply nth_error_None in E. assert (j < length l') by (apply nth_error_Some; congruence). lia.
Qed.

Lemma cmp_props_eq po pc : length po = length pc -> cmp_props po pc = Accept ->
  props_eq (Some po) (Some pc).
Proof.
  intros Hl Hc. split; [cbn; congruence|]. split; (split; [intros _; discriminate|]); intros x k v Hp; cbn in Hp |- *.
  - destruct (nth_error po x) as [d|] eqn:Ed; [|discriminate].
    destruct (cmp_props_sound po pc Hc x d Ed) as [d' [Hn [_ Hi]]]. rewrite Hn.
    apply (cmp_items_sound _ _ Hi k v). apply sassoc_in. assumption.
  - destruct (nth_error pc x) as [d'|] eqn:Ed'; [|discriminate].
    destruct (nth_error_same_length po pc x d' Hl Ed') as [d Ed]. rewrite Ed.
    destruct (cmp_props_sound po pc Hc x d Ed) as [d'' [Hn [Hk Hi]]].
    assert (d'' = d') by congruence. subst d''.
    unfold keys_eqb in Hk. apply andb_true_iff in Hk as [_ Hk]. rewrite forallb_forall in Hk.
    specialize (Hk (k, v) (sassoc_in _ _ _ Hp)). cbn in Hk.
    destruct (has_key_sassoc Hk) as [v0 Hv0]. exists v0. split; [assumption|].
    destruct (cmp_items_sound _ _ Hi k v0 (sassoc_in _ _ _ Hv0)) as [v1 [Hv1 He]].
    assert (v1 = v) by congruence. subst v1. apply pval_eqb_sym. assumption.
Qed.

Lemma props_eq_none : props_eq None None.
Proof.
  split; [reflexivity|]. split; (split; [tauto|]); intros x k v H; discriminate H.
Qed.

Lemma cmp_inst_sound o c : cmp_inst (Some o) (Some c) = Accept -> inst_rel props_eq o c.
Proof.
  unfold cmp_inst. intro H.
  apply seq_accept in H as [H1 H]. apply seq_accept in H as [H2 H].
  apply seq_accept in H as [H3 H4].
  apply check_accept in H1, H2. apply oname_eqb_spec in H1, H2. apply cmp_ref_sound in H3.
  split; [assumption|]. split; [assumption|]. split; [assumption|].
  destruct (i_props o) as [po|], (i_props c) as [pc|]; try discriminate; [|apply props_eq_none].
  apply seq_accept in H4 as [H4 H5]. apply check_accept in H4. apply Nat.eqb_eq in H4.
  apply cmp_props_eq; assumption.
Qed.

Lemma cmp_top_sound ta tb :
  match ta, tb with None, None => Accept | _, _ => cmp_inst ta tb end = Accept ->
  top_rel props_eq ta tb.
Proof.
  destruct ta as [i|], tb as [j|]; intro H; cbn.
  - apply cmp_inst_sound. assumption.
  - exfalso. unfold cmp_inst in H. discriminate H.
  - exfalso. unfold cmp_inst in H. discriminate H.
  - exact I.
Qed.

(* ---------- definitions, libraries, netlists ---------- *)
Lemma no_skip_false {A} (l : list A) : forall x, In x l -> no_skip x = false.
Proof. reflexivity. Qed.

Lemma cmp_def_sound lo lc o c : d_name o <> None -> wf_def o = true -> no_asg_def o = true ->
  cmp_def lo lc o c = Accept -> defn_rel props_eq wire_perm o c.
Proof.
  intros Hdn Hwf Hna H. apply wf_def_unpack in Hwf. apply not_asg_of in Hna.
  unfold cmp_def in H. cbv zeta in H.
  apply seq_accept in H as [H1 H]. apply seq_accept in H as [H2 H].
  apply seq_accept in H as [H3 H]. apply seq_accept in H as [H4 H].
  apply seq_accept in H as [H5 H]. apply seq_accept in H as [H6 H].
  apply seq_accept in H as [H7 H]. apply seq_accept in H as [H8 _].
  apply check_accept in H1, H2, H3, H5, H7. apply oname_eqb_spec in H1, H2.
  apply Nat.eqb_eq in H3, H5, H7.
  split; [assumption|]. split; [assumption|]. split; [|split].
  - eapply cmp_each_sound; [apply (wd_np o Hwf)|apply no_skip_false|assumption|exact H4|].
    intros x y _ _ _ Hf. eapply cmp_port_sound. exact Hf.
  - eapply cmp_each_sound; [apply (wd_nc o Hwf)|apply no_skip_false|assumption|exact H6|].
    intros x y Hx _ _ Hf. eapply (cmp_cable_rel (d_name o, lo)); [exact Hdn|exact Hna| |exact Hf].
    pose proof (wd_wc o Hwf) as Hw. rewrite forallb_forall in Hw. apply Hw. assumption.
  - eapply cmp_each_sound; [apply (wd_ni o Hwf)|exact Hna|assumption|exact H8|].
    intros x y _ _ _ Hf. apply cmp_inst_sound. exact Hf.
Qed.

Lemma cmp_lib_sound o c : wf_lib o = true -> forallb no_asg_def (l_defs o) = true ->
  cmp_lib o c = Accept -> lib_rel props_eq wire_perm o c.
Proof.
  unfold wf_lib. intros Hwf Hna H. apply andb_true_iff in Hwf as [Hn Hw].
  rewrite forallb_forall in Hw, Hna.
  unfold cmp_lib in H.
  apply seq_accept in H as [H1 H]. apply seq_accept in H as [H2 H]. apply seq_accept in H as [H3 H].
  apply check_accept in H1, H2, H3. apply oname_eqb_spec in H1, H2. apply Nat.eqb_eq in H3.
  split; [assumption|]. split; [assumption|].
  eapply cmp_each_sound; [exact Hn|apply no_skip_false|assumption|exact H|].
  intros x y Hx _ _ Hf. eapply cmp_def_sound; [exact (named_ok_in d_name _ x Hn Hx)|apply Hw; assumption|apply Hna; assumption|exact Hf].
Qed.

(* SOUNDNESS: an accepted b is a up to the order of siblings and of the pins of wires: no
   structural difference is ever accepted.  Nothing is assumed about b. *)
Theorem cmp_run_sound a b : wf_named a -> no_asg a -> cmp_run a b = Accept -> nv_equiv a b.
Proof.
  unfold wf_named, wf_namedb, no_asg, no_asgb. intros Hwf Hna H.
  apply andb_true_iff in Hwf as [Hwf Hw]. apply andb_true_iff in Hwf as [_ Hn].
  rewrite forallb_forall in Hw, Hna.
  unfold cmp_run in H.
  apply seq_accept in H as [H1 H]. apply seq_accept in H as [H2 H].
  apply seq_accept in H as [H3 H]. apply seq_accept in H as [H4 H].
  apply check_accept in H1, H2, H4. apply oname_eqb_spec in H1, H2. apply Nat.eqb_eq in H4.
  split; [assumption|]. split; [assumption|]. split; [apply cmp_top_sound; destruct (n_top a), (n_top b); exact H3|].
  eapply cmp_each_sound; [exact Hn|apply no_skip_false|assumption|exact H|].
  intros x y Hx _ _ Hf. eapply cmp_lib_sound; [apply Hw; assumption|apply Hna; assumption|exact Hf].
Qed.

Theorem compare_sound a b : wf_named a -> no_asg a -> compare a b = true -> nv_equiv a b.
Proof. intros Hwf Hna H. apply compare_accept in H. apply cmp_run_sound; assumption. Qed.

(* ---------- equivalent (same properties both ways) is a special case of covered ---------- *)
Theorem equiv_covered_gen WR a b : nv_rel props_eq WR a b -> nv_rel props_sub WR a b.
Proof.
  intros [H1 [H2 [H3 H4]]]. split; [assumption|]. split; [assumption|]. split.
  - destruct (n_top a), (n_top b); cbn in *; try assumption.
    destruct H3 as [G1 [G2 [G3 [_ [G4 _]]]]]. split; [assumption|]. split; [assumption|]. split; assumption.
  - eapply sib_equiv_impl_in; [|exact H4]. cbn.
    intros la lb _ _ [L1 [L2 L3]]. split; [assumption|]. split; [assumption|].
    eapply sib_equiv_impl_in; [|exact L3]. cbn.
    intros da db _ _ [D1 [D2 [D3 [D4 D5]]]].
    split; [assumption|]. split; [assumption|]. split; [assumption|]. split; [assumption|].
    eapply sib_equiv_impl_in; [|exact D5]. cbn.
    intros ia ib _ _ [I1 [I2 [I3 [_ [I4 _]]]]]. split; [assumption|]. split; [assumption|]. split; assumption.
Qed.

Theorem equiv_ord_covered a b : nv_equiv_ord a b -> nv_covered a b.
Proof. apply equiv_covered_gen. Qed.

Theorem equiv_covered_set a b : nv_equiv a b -> nv_covered_set a b.
Proof. apply equiv_covered_gen. Qed.

(* the weaker form that held before the repair of compare_instances (properties that only b has
   were not seen): a corollary now *)
Theorem compare_sound_covered a b : wf_named a -> no_asg a -> compare a b = true -> nv_covered_set a b.
Proof. intros Hwf Hna H. apply equiv_covered_set. apply compare_sound; assumption. Qed.

Lemma Forall2_eq_perm (l l' : list wire) : Forall2 eq l l' -> Forall2 wire_perm l l'.
Proof. induction 1; constructor; [subst; apply Permutation_refl|assumption]. Qed.

Theorem rel_ord_set PR a b : nv_rel PR eq a b -> nv_rel PR wire_perm a b.
Proof.
  intros [H1 [H2 [H3 H4]]]. split; [assumption|]. split; [assumption|]. split; [assumption|].
  eapply sib_equiv_impl_in; [|exact H4]. cbn.
  intros la lb _ _ [L1 [L2 L3]]. split; [assumption|]. split; [assumption|].
  eapply sib_equiv_impl_in; [|exact L3]. cbn.
  intros da db _ _ [D1 [D2 [D3 [D4 D5]]]].
  split; [assumption|]. split; [assumption|]. split; [assumption|]. split; [|assumption].
  eapply sib_equiv_impl_in; [|exact D4]. cbn.
  intros ca cb _ _ [C1 [C2 C3]]. split; [assumption|]. split; [assumption|].
  apply Forall2_eq_perm. assumption.
Qed.

Theorem equiv_ord_equiv a b : nv_equiv_ord a b -> nv_equiv a b.
Proof. apply rel_ord_set. Qed.

Theorem covered_ord_set a b : nv_covered a b -> nv_covered_set a b.
Proof. apply rel_ord_set. Qed.
