(* C17 (engine names): the `_sdn_<digits>_$` search of the model finds exactly the suffix that the
   code appends, whatever precedes it; shape of the candidates built by _conflicts_fix. *)
From Coq Require Import List Arith NArith Bool Lia.
From SV Require Import Base.Base IR.State IR.NS Names.Edifify Proofs.NamesDec.
Import ListNotations.

Definition digits (ds : str) : Prop := Forall (fun c => is_digit c = true) ds.

(* the suffix appended for counter n *)
Definition sfx (n : N) : str := str_sdn ++ dec n ++ [95%N].

Lemma span_digits_app ds t :
  digits ds -> (match t with [] => True | c :: _ => is_digit c = false end) ->
  span_digits (ds ++ t) = (ds, t).
Proof.
  intros Hd Ht. induction Hd as [|d ds Hd _ IH]; cbn [app span_digits].
  - destruct t as [|c t]; [reflexivity|]. cbn [span_digits]. rewrite Ht. reflexivity.
  - rewrite Hd, IH. reflexivity.
Qed.

Lemma span_digits_spec s : forall a b, span_digits s = (a, b) -> s = a ++ b /\ digits a.
Proof.
  induction s as [|c s IH]; intros a b H; cbn in H.
  - inversion H; subst. split; [reflexivity|constructor].
  - destruct (is_digit c) eqn:E.
    + destruct (span_digits s) as [a' b'] eqn:E2. inversion H; subst.
      destruct (IH _ _ eq_refl) as [-> Hd]. split; [reflexivity|constructor; assumption].
    + inversion H; subst. split; [reflexivity|constructor].
Qed.

Lemma is_prefix_app p t : is_prefix p (p ++ t) = true.
Proof. induction p as [|x p IH]; cbn; [reflexivity|]. rewrite N.eqb_refl, IH. reflexivity. Qed.

Lemma is_prefix_spec p : forall s, is_prefix p s = true -> exists t, s = p ++ t.
Proof.
  induction p as [|x p IH]; intros s H; cbn in H; [exists s; reflexivity|].
  destruct s as [|y s]; [discriminate|]. apply andb_true_iff in H as [H1 H2].
  apply N.eqb_eq in H1. subst. destruct (IH _ H2) as [t ->]. exists t. reflexivity.
Qed.

Lemma digits_rev ds : digits ds -> digits (rev ds).
Proof. unfold digits. intro H. apply Forall_rev. exact H. Qed.

(* whatever precedes it, a well-formed suffix is found, at its position, with its number *)
Theorem sdn_suffix_mk b ds :
  ds <> [] -> digits ds ->
  sdn_suffix (b ++ str_sdn ++ ds ++ [95%N]) = Some (mkMatch (length b) (6 + length ds) (digits_val ds)).
Proof.
  intros Hne Hd. unfold sdn_suffix.
  rewrite !rev_app_distr. change (rev [95%N]) with [95%N]. change (rev str_sdn) with str_nds.
  rewrite <- !app_assoc. cbn [app strip_final_newline]. change (95 =? 10)%N with false. cbv iota. rewrite N.eqb_refl.
  rewrite span_digits_app; [|apply digits_rev; exact Hd|exact eq_refl].
  destruct (rev ds) as [|d ds'] eqn:E.
  - exfalso. apply Hne. rewrite <- (rev_involutive ds), E. reflexivity.
  - rewrite <- E. rewrite is_prefix_app, rev_involutive, app_length, !rev_length.
    change (length str_nds) with 5. f_equal. f_equal. lia.
Qed.

Theorem sdn_suffix_sfx b n :
  sdn_suffix (b ++ sfx n) = Some (mkMatch (length b) (6 + length (dec n)) n).
Proof.
  unfold sfx. rewrite sdn_suffix_mk by (apply dec_nonempty || apply dec_digits).
  rewrite digits_val_dec. reflexivity.
Qed.

(* conversely, a match decomposes the string *)
Theorem sdn_suffix_spec s m :
  sdn_suffix s = Some m ->
  exists b ds nl, s = b ++ str_sdn ++ ds ++ [95%N] ++ nl /\ length b = m_start m /\
                  m_len m = 6 + length ds /\ ds <> [] /\ digits ds /\ m_num m = digits_val ds /\
                  (nl = [] \/ nl = [10%N]).
Proof.
  unfold sdn_suffix. intro H.
  assert (G : forall r nl, s = rev r ++ nl -> (nl = [] \/ nl = [10%N]) ->
     match r with
     | c :: r1 => if (c =? 95)%N then let (ds, r2) := span_digits r1 in
          match ds with [] => None | _ :: _ => if is_prefix str_nds r2
             then Some (mkMatch (length r2 - 5) (6 + length ds) (digits_val (rev ds))) else None end
          else None
     | [] => None end = Some m ->
     exists b ds nl, s = b ++ str_sdn ++ ds ++ [95%N] ++ nl /\ length b = m_start m /\
                  m_len m = 6 + length ds /\ ds <> [] /\ digits ds /\ m_num m = digits_val ds /\
                  (nl = [] \/ nl = [10%N])).
  { intros r nl Hs Hnl Hm. destruct r as [|c r1]; [discriminate|].
    destruct (N.eqb_spec c 95) as [->|]; [|discriminate].
    destruct (span_digits r1) as [ds r2] eqn:Esp. apply span_digits_spec in Esp as [-> Hd].
    destruct ds as [|d ds]; [discriminate|].
    destruct (is_prefix str_nds r2) eqn:Ep; [|discriminate].
    apply is_prefix_spec in Ep as [t ->]. inversion Hm; subst m; clear Hm. cbn [m_start m_len m_num].
    exists (rev t), (rev (d :: ds)), nl. repeat split.
    - rewrite Hs. cbn [rev]. rewrite !rev_app_distr. change (rev str_nds) with str_sdn.
      cbn [rev app]. rewrite <- !app_assoc. reflexivity.
    - rewrite rev_length. unfold str_nds. cbn [app length]. lia.
    - rewrite rev_length. reflexivity.
    - intro E. apply (f_equal (@length N)) in E. rewrite rev_length in E. discriminate.
    - apply digits_rev. exact Hd.
    - exact Hnl. }
  destruct (rev s) as [|c r'] eqn:Er.
  - discriminate.
  - cbn [strip_final_newline] in H. destruct (N.eqb_spec c 10) as [->|Hc].
    + apply (G r' [10%N]); [|right; reflexivity|exact H].
      rewrite <- (rev_involutive s), Er. reflexivity.
    + apply (G (c :: r') []); [|left; reflexivity|exact H].
      rewrite <- (rev_involutive s), Er, app_nil_r. reflexivity.
Qed.

(* ---------- candidates ---------- *)

Lemma firstn_app_exact {A} (a b : list A) : firstn (length a) (a ++ b) = a.
Proof. rewrite firstn_app, Nat.sub_diag, firstn_all. cbn. apply app_nil_r. Qed.

Lemma skipn_app_exact {A} (a b : list A) : skipn (length a) (a ++ b) = b.
Proof. rewrite skipn_app, Nat.sub_diag, skipn_all. reflexivity. Qed.

Lemma str_sdn_1_sfx : str_sdn_1 = sfx 1.
Proof. reflexivity. Qed.

(* the new candidate always ends in a well-formed suffix; its counter is 1 or the old one + 1 *)
Theorem bump_form l :
  (sdn_suffix l = None /\ bump l = l ++ sfx 1) \/
  (exists m b, sdn_suffix l = Some m /\ length b = m_start m /\ b = firstn (m_start m) l /\
               bump l = b ++ sfx (m_num m + 1)).
Proof.
  unfold bump. destruct (sdn_suffix l) as [m|] eqn:E.
  - right. destruct (sdn_suffix_spec _ _ E) as (b & ds & nl & Hl & Hb & _).
    exists m, b. split; [reflexivity|]. split; [exact Hb|].
    assert (F : firstn (m_start m) l = b) by (rewrite Hl, <- Hb; apply firstn_app_exact).
    split; [symmetry; exact F|].
    assert (F5 : firstn (m_start m + 5) l = b ++ str_sdn).
    { rewrite Hl, <- Hb. rewrite app_assoc. change 5 with (length str_sdn). rewrite <- app_length.
      apply firstn_app_exact. }
    rewrite F5. unfold sfx. rewrite <- app_assoc. reflexivity.
  - left. split; [reflexivity|]. rewrite str_sdn_1_sfx. reflexivity.
Qed.

(* _length_fix keeps the whole suffix (it may cut, or - when the suffix is longer than 256
   characters - even lengthen what precedes it) *)
Theorem length_fix_sfx b n : exists b', length_fix (b ++ sfx n) = b' ++ sfx n.
Proof.
  unfold length_fix. destruct (length_good (b ++ sfx n)); [exists b; reflexivity|].
  rewrite sdn_suffix_sfx. cbn [m_len m_start]. rewrite skipn_app_exact.
  eexists. reflexivity.
Qed.

(* lower-casing does not touch the suffix *)
Lemma lower_app a b : lower (a ++ b) = lower a ++ lower b.
Proof. unfold lower. apply map_app. Qed.

Lemma lower_digits ds : digits ds -> lower ds = ds.
Proof.
  induction 1 as [|d ds Hd _ IH]; [reflexivity|].
  change (lower (d :: ds)) with (lower_c d :: lower ds). rewrite IH. f_equal.
  unfold lower_c, is_upper. unfold is_digit in Hd. apply andb_true_iff in Hd as [H1 H2].
  apply N.leb_le in H1, H2. replace ((65 <=? d)%N) with false; [reflexivity|].
  symmetry. apply N.leb_gt. lia.
Qed.

Lemma lower_sfx n : lower (sfx n) = sfx n.
Proof.
  unfold sfx. rewrite !lower_app, (lower_digits (dec n)) by apply dec_digits. reflexivity.
Qed.

Theorem sfx_inj b1 n1 b2 n2 : b1 ++ sfx n1 = b2 ++ sfx n2 -> n1 = n2.
Proof.
  intro H. pose proof (sdn_suffix_sfx b1 n1) as H1. rewrite H, sdn_suffix_sfx in H1.
  inversion H1. reflexivity.
Qed.
