(* Netlist._clone: libraries, top instance, second redirect pass, reference-set filter. *)
From Coq Require Import List Arith Bool Lia.
From RecordUpdate Require Import RecordSet.
From SV Require Import Base.Base IR.State IR.NS IR.Ops Xform.Clone Proofs.AssocX Proofs.Frame Proofs.Inv1a Proofs.Inv2a
  Proofs.InvP Proofs.InvW Proofs.Fresh Proofs.NsInv Proofs.Repoint Proofs.CloneInv Proofs.RefK Proofs.CloneRef Proofs.CloneT Proofs.FieldT
  Proofs.CloneMemo Proofs.CloneRR Proofs.CloneFaith Proofs.CloneInvP Proofs.CloneFull
  Proofs.CloneMemoK Proofs.CloneFaithK Proofs.CloneStage Proofs.CloneStageP Proofs.CloneRun Proofs.CloneEx Proofs.CloneRemap Proofs.CloneComm Proofs.CloneLib.
Import ListNotations RecordSetNotations.

(* the running invariant only looks at these fields *)
Record feq (s s' : state) : Prop := mkFeq {
  fe_kids : kids s' = kids s; fe_par : par s' = par s; fe_next : next s' = next s; fe_kind : kind_of s' = kind_of s;
  fe_iref : iref s' = iref s; fe_drefs : drefs s' = drefs s; fe_ipins : ipins s' = ipins s; fe_wpins : wpins s' = wpins s;
  fe_ipwire : ipwire s' = ipwire s
}.
Lemma feq_refl s : feq s s. Proof. constructor; reflexivity. Qed.
Lemma feq_trans a b c : feq a b -> feq b c -> feq a c. Proof. intros [] []. constructor; congruence. Qed.
Lemma feq_struct s s' : struct_eq s s' -> feq s s'.
Proof. intro H. constructor; [apply (se_kids _ _ H)|apply (se_par _ _ H)|apply (se_next _ _ H)|apply (se_kind _ _ H)|apply (se_iref _ _ H)|apply (se_drefs _ _ H)|apply (se_ipins _ _ H)|apply (se_wpins _ _ H)|apply (se_ipwire _ _ H)]. Qed.

Lemma ry_feq s0 s s' m : feq s s' -> RY s0 s m -> RY s0 s' m.
Proof.
  intros [Fk Fp Fn Fkd Fr Fd Fi Fw Fiw] Y. pose proof (ry_rx _ _ _ Y) as X. pose proof (rx_ri _ _ _ X) as R.
  constructor; [constructor|..].
  - constructor.
    + destruct (ri_st _ _ _ R) as [a b c d e f g h i j k l0 n]. constructor; rewrite ?Fn, ?Fkd, ?Fiw, ?Fw, ?Fi, ?Fr, ?Fk; assumption.
    + intros r Hr. apply (inv1ar_same s s' r Fk Fp). apply (ri_1a _ _ _ R r Hr).
    + intros r p c Hc. rewrite Fk in Hc. rewrite Fn. apply (ri_kl _ _ _ R r p c Hc).
    + intros r p c Hc. rewrite Fk in Hc. rewrite Fkd. apply (ri_t _ _ _ R r p c Hc).
    + apply (invp_same s s' (ri_p _ _ _ R)); [intro q; apply pw_ext; assumption|intro w; rewrite Fw; reflexivity].
    + apply (invk_same s s' (ri_k _ _ _ R)); [intro n; unfold keys; rewrite Fi; reflexivity|exact Fr|intro x; rewrite Fp; reflexivity|intro x; rewrite Fp; reflexivity].
    + intros r y Hy. rewrite Fn in Hy. rewrite Fk, Fp. apply (ri_ab _ _ _ R r y Hy).
    + intros r y q Hq. rewrite Fp in Hq. rewrite Fn. apply (ri_pl _ _ _ R r y q Hq).
    + intros r y Hy. rewrite Fp. apply (ri_po _ _ _ R r y Hy).
    + intros r y q Hy Hq. rewrite Fp in Hq. apply (ri_pn _ _ _ R r y q Hy Hq).
    + intros n d Hn. rewrite Fr in Hn. rewrite Fn. apply (ri_rl _ _ _ R n d Hn).
    + intros x j w Hx Hw. rewrite Fi in Hw. apply (ri_nw _ _ _ R x j w Hx Hw).
    + intros d Hd. rewrite Fd. apply (ri_dr _ _ _ R d Hd).
  - intros d d' H Hk. apply (defimg_kids_same s0 d d' s s' m Fk). apply (rx_di _ _ _ X d d' H Hk).
  - apply (ex_same s0 s s' m (rx_ex _ _ _ X) (st_fun _ _ _ (ri_st _ _ _ R))); assumption.
  - intros x x' H Hk. rewrite Fr. apply (ry_ir _ _ _ Y x x' H Hk).
  - intros d d' H Hk n. rewrite Fd. apply (ry_d1 _ _ _ Y d d' H Hk n).
  - intros d d' H Hk n. rewrite Fd. apply (ry_d2 _ _ _ Y d d' H Hk n).
  - intros y Hy. rewrite Fd. apply (ry_dn _ _ _ Y y Hy).
Qed.

(* ---- the libraries of the netlist ---- *)
Definition LibPre (s0 : state) (l : id) : Prop := l < next s0 /\ kind_of s0 l = Some KLibrary.

Lemma ry_libs s0 : UF s0 -> (forall x e, iref s0 x = Some e -> kind_of s0 e = Some KDefinition) ->
  forall ls s m s' m' ls',
  RY s0 s m -> (forall l, In l ls -> LibPre s0 l) -> NoDup (flat_map (lib_objects s0) ls) ->
  (forall y, In y (flat_map (lib_objects s0) ls) -> ~ In y (map fst m)) ->
  libs_clone1 ls (s, m) = (((s', m'), ls'), None) ->
  RY s0 s' m' /\ msub m m' /\ keys_ext m m' (flat_map (lib_objects s0) ls) /\ kpframe (next s) s s' /\ next s <= next s' /\
  Forall2 (fun l l' => In (l, l') m' /\ Forall2 (fun d d' => In (d, d') m') (kids s0 RDefs l) (kids s' RDefs l')) ls ls' /\ NoDup ls' /\
  (forall l', In l' ls' -> next s <= l' /\ l' < next s' /\ (forall r, par s' r l' = None) /\ kind_of s' l' = Some KLibrary).
Proof.
  intros U0 HRD. induction ls as [|l ls IH]; intros s m s' m' ls' Y Hpre Hnd Hfree E; cbn [libs_clone1] in E.
  - injection E as <- <- <-. split; [exact Y|]. split; [intros e H; exact H|]. split; [intro y; cbn; tauto|]. split; [apply kpframe_refl|].
    split; [apply Nat.le_refl|]. split; [constructor|]. split; [constructor|intros l' []].
  - destruct (lib_clone1 (s, m) l) as [[[s1 m1] l'] [e|]] eqn:E1; [discriminate|].
    destruct (libs_clone1 ls (s1, m1)) as [[[s2 m2] r] e2] eqn:E2. injection E as <- <- <- ->.
    cbn [flat_map] in Hnd, Hfree. destruct (Hpre l (or_introl eq_refl)) as [Hl Hkl].
    destruct (ry_lib s0 s m l s1 m1 l' U0 HRD Y Hl Hkl (nodup_app_l _ _ Hnd) (fun y Hy => Hfree y (in_or_app _ _ _ (or_introl Hy))) E1)
      as [Y1 [Sb1 [Ky1 [Hin [Hl' [Hn1 [Hf1 [Hp1 [Hk1 [Himg1 _]]]]]]]]]].
    assert (Hfree1 : forall y, In y (flat_map (lib_objects s0) ls) -> ~ In y (map fst m1)).
    { intros y Hy Hin1. apply Ky1 in Hin1 as [Hin1|Hin1]; [apply (nodup_app_disj _ _ y Hnd Hin1 Hy)|apply (Hfree y (in_or_app _ _ _ (or_intror Hy)) Hin1)]. }
    destruct (IH s1 m1 s2 m2 r Y1 (fun z Hz => Hpre z (or_intror Hz)) (nodup_app_r _ _ Hnd) Hfree1 E2)
      as [Y2 [Sb2 [Ky2 [Hf2 [Hn2 [F2 [N2 P2]]]]]]].
    split; [exact Y2|]. split; [intros e0 He0; apply Sb2, Sb1, He0|]. split; [|split].
    + intro y. cbn [flat_map]. split.
      * intro H. apply Ky2 in H as [H|H]; [left; apply in_or_app; right; exact H|]. apply Ky1 in H as [H|H]; [left; apply in_or_app; left; exact H|right; exact H].
      * intros [H|H]; apply Ky2; [apply in_app_or in H as [H|H]; [right; apply Ky1; left; exact H|left; exact H]|right; apply Ky1; right; exact H].
    + eapply kpframe_trans; [exact Hf1|apply (kpframe_weaken (next s1)); [lia|exact Hf2]].
    + split; [lia|]. split.
      { constructor; [|exact F2]. split; [apply Sb2; exact Hin|]. rewrite (proj1 (Hf2 RDefs l' ltac:(lia))).
        clear -Himg1 Sb2. induction Himg1 as [|a b la lb Hab _ IHf]; constructor; [apply Sb2; exact Hab|exact IHf]. }
      split.
      * constructor; [|exact N2]. intro Hin2. destruct (P2 l' Hin2) as [Hge _]. lia.
      * intros z [<-|Hz].
        -- split; [lia|]. split; [lia|]. split.
           ++ intro r0. rewrite (proj2 (Hf2 r0 l' ltac:(lia))). apply Hp1.
           ++ rewrite (st_kind _ _ _ (ri_st _ _ _ (rx_ri _ _ _ (ry_rx _ _ _ Y2))) l l' (Sb2 _ Hin)). exact Hkl.
        -- destruct (P2 z Hz) as [A [B [C D]]]. split; [lia|split; [exact B|split; assumption]].
Qed.

(* ---- the second redirect pass, disentangled from the library parent pointers ---- *)
Lemma commok_fold_def_rr U m : CommOK U -> forall L s,
  fold_idsR (def_rr m) L (U s) = (U (fst (fold_idsR (def_rr m) L s)), snd (fold_idsR (def_rr m) L s)).
Proof.
  intro HU. induction L as [|d' L IH]; intro s; cbn [fold_idsR]; [reflexivity|].
  rewrite (commok_def_rr U m s d' HU). destruct (def_rr m s d') as [s1 [e|]]; cbn [fst snd bindR]; [reflexivity|]. apply IH.
Qed.

Lemma nested_fold m v : forall ls U s, CommOK U -> (forall s d, kids (U s) RDefs d = kids s RDefs d) ->
  let plain := fold_idsR (fun s l' => fold_idsR (def_rr m) (kids s RDefs l') s) ls s in
  let inter := fold_idsR (fun s l' => fold_idsR (def_rr m) (kids s RDefs l') (set_par s RLibs l' v)) ls (U s) in
  snd inter = snd plain /\ (snd plain = None -> fst inter = fold_ids (fun s l' => set_par s RLibs l' v) ls (U (fst plain))).
Proof.
  assert (NR : RLibs <> RChildren) by discriminate.
  induction ls as [|l' ls IH]; intros U s HU HUk; cbn [fold_idsR fold_ids].
  - cbn. split; [reflexivity|intros _; reflexivity].
  - cbn zeta. pose proof (commok_set_par U RLibs l' v HU NR) as HU1.
    rewrite HUk. rewrite (commok_fold_def_rr (fun s => set_par (U s) RLibs l' v) m HU1 (kids s RDefs l') s).
    destruct (fold_idsR (def_rr m) (kids s RDefs l') s) as [s1 [e|]]; cbn [fst snd bindR].
    + split; [reflexivity|discriminate].
    + apply (IH (fun s => set_par (U s) RLibs l' v) s1 HU1). intros s2 d. cbn. apply HUk.
Qed.

Lemma ce_def_rr m s d' : cont_eq s (fst (def_rr m s d')).
Proof.
  unfold def_rr. eapply cont_eq_trans; [|apply ce_fold_idsR]; [split; reflexivity|].
  intros s1 x. destruct (iref s1 x) as [e|]; [|apply cont_eq_refl]. destruct (mget m e) as [e'|]; [|apply cont_eq_refl].
  unfold rekey_all. eapply cont_eq_trans; [|apply ce_fold_pairsR]; [split; reflexivity|].
  intros s2 kv. destruct (mget m (fst kv)); [apply ce_rekey|apply cont_eq_refl].
Qed.
Lemma kids_def_rr m s d' : kids (fst (def_rr m s d')) = kids s.
Proof. apply (proj1 (ce_def_rr m s d')). Qed.

Lemma fin_libs s0 M : UF s0 -> (forall x e, iref s0 x = Some e -> kind_of s0 e = Some KDefinition) ->
  forall ls ls' s s',
  RY s0 s M -> Forall2 (fun l l' => In (l, l') M /\ Forall2 (fun d d' => In (d, d') M) (kids s0 RDefs l) (kids s RDefs l')) ls ls' ->
  fold_idsR (fun s l' => fold_idsR (def_rr M) (kids s RDefs l') s) ls' s = (s', None) ->
  RY s0 s' M /\ kids s' = kids s /\ par s' = par s /\ next s' = next s /\ kind_of s' = kind_of s /\
  (forall l' d', In l' ls' -> In d' (kids s RDefs l') -> FinD M s' d' /\ forall x', In x' (kids s RChildren d') -> FinX s0 M s' x') /\
  (forall y, FinX s0 M s y -> FinX s0 M s' y) /\
  (forall y, (forall l', In l' ls' -> ~ In y (kids s RDefs l')) -> drefs s' y = drefs s y).
Proof.
  intros U0 HRD. destruct U0 as [I0 [T0 R0]]. assert (U0 : UF s0) by (split; [exact I0|split; assumption]).
  induction ls as [|l ls IH]; intros ls' s s' Y F2 E; inversion F2 as [|? l' ? ls2 [Hll Hdefs] F2']; subst; cbn [fold_idsR] in E.
  - injection E as <-. split; [exact Y|split; [reflexivity|split; [reflexivity|split; [reflexivity|split; [reflexivity|split; [intros z1 z2 []|split; [auto|auto]]]]]]].
  - destruct (fold_idsR (def_rr M) (kids s RDefs l') s) as [s1 [e|]] eqn:E1; cbn [bindR] in E; [discriminate|].
    destruct (fin_defs s0 M U0 HRD _ _ s s1 Y Hdefs (fun d Hd => src_kind_child s0 T0 _ _ _ Hd) E1) as [Y1 [A [B [C [D [FA [PX [PD PO]]]]]]]].
    assert (F2'' : Forall2 (fun l0 l0' => In (l0, l0') M /\ Forall2 (fun d d' => In (d, d') M) (kids s0 RDefs l0) (kids s1 RDefs l0')) ls ls2).
    { rewrite A. exact F2'. }
    destruct (IH ls2 s1 s' Y1 F2'' E) as [Y2 [A2 [B2 [C2 [D2 [FA2 [PX2 PO2]]]]]]].
    split; [exact Y2|]. split; [congruence|]. split; [congruence|]. split; [congruence|]. split; [congruence|]. split; [|split].
    + intros z d' [<-|Hz] Hd'.
      * destruct (FA d' Hd') as [H1 H2]. split.
        -- (* reference sets settled for this library stay settled *)
           destruct (in_dec Nat.eq_dec d' (flat_map (fun l0 => kids s1 RDefs l0) ls2)) as [Hin|Hout].
           ++ apply in_flat_map in Hin as [l0 [Hl0 Hd0]]. apply (proj1 (FA2 l0 d' Hl0 Hd0)).
           ++ unfold FinD in *. rewrite PO2; [exact H1|]. intros l0 Hl0 Hd0. apply Hout. apply in_flat_map. exists l0. split; assumption.
        -- intros x' Hx'. apply PX2. apply H2. exact Hx'.
      * rewrite <- A in Hd'. destruct (FA2 z d' Hz Hd') as [H1 H2]. split; [exact H1|]. intros x' Hx'. apply H2. rewrite A. exact Hx'.
    + intros y Hy. apply PX2, PX, Hy.
    + intros y Hy. rewrite PO2 by (intros l0 Hl0; rewrite A; apply Hy; right; exact Hl0). apply PO. apply Hy. left. reflexivity.
Qed.

(* ---- nothing before the netlist level touches the libraries relation ---- *)
Definition LS (s s' : state) : Prop := forall y, kids s' RLibs y = kids s RLibs y /\ par s' RLibs y = par s RLibs y.
Lemma ls_refl s : LS s s. Proof. intro y. split; reflexivity. Qed.
Lemma ls_trans a b c : LS a b -> LS b c -> LS a c.
Proof. intros H1 H2 y. destruct (H1 y), (H2 y). split; congruence. Qed.
Lemma ls_same s s' : kids s' = kids s -> par s' = par s -> LS s s'.
Proof. intros A B y. rewrite A, B. split; reflexivity. Qed.
Lemma ls_set_kids s r p l : r <> RLibs -> LS s (set_kids s r p l).
Proof. intros Hr y. cbn. unfold upd2. destruct r; try (split; reflexivity). contradiction. Qed.
Lemma ls_set_par s r c v : r <> RLibs -> LS s (set_par s r c v).
Proof. intros Hr y. cbn. unfold upd2. destruct r; try (split; reflexivity). contradiction. Qed.
Lemma ls_bind (r : R) f s : LS s (fst r) -> (forall s1, LS s1 (fst (f s1))) -> LS s (fst (r >>= f)).
Proof. destruct r as [s1 [x|]]; cbn; intros H1 H2; [exact H1|]. eapply ls_trans; [exact H1|apply H2]. Qed.
Lemma ls_fold_idsR f l : (forall s x, LS s (fst (f s x))) -> forall s, LS s (fst (fold_idsR f l s)).
Proof. intro H. induction l as [|x l IH]; intro s; cbn; [apply ls_refl|]. apply ls_bind; [apply H|apply IH]. Qed.
Lemma ls_fold_ids f l : (forall s x, LS s (f s x)) -> forall s, LS s (fold_ids f l s).
Proof. intro H. induction l as [|x l IH]; intro s; cbn; [apply ls_refl|]. eapply ls_trans; [apply H|apply IH]. Qed.
Lemma ls_cont s s' : cont_eq s s' -> LS s s'. Proof. intros [A B]. apply ls_same; assumption. Qed.

Lemma ls_clone_alloc s k s1 x : clone_alloc s k = (s1, x) -> LS s s1.
Proof. intro Ea. destruct (clone_alloc_kp _ _ _ _ Ea) as [_ [_ [A B]]]. apply ls_same; assumption. Qed.

Definition LSf (f : SM -> id -> SM * id) : Prop := forall s m x s' m' x', f (s, m) x = ((s', m'), x') -> LS s s'.
Lemma ls_clone_each f : LSf f -> forall l s m s' m' l', clone_each f l (s, m) = ((s', m'), l') -> LS s s'.
Proof.
  intro Hf. induction l as [|x l IH]; intros s m s' m' l' E; cbn [clone_each] in E.
  - injection E as <- <- <-. apply ls_refl.
  - destruct (f (s, m) x) as [[s1 m1] x'] eqn:E1. destruct (clone_each f l (s1, m1)) as [[s2 m2] l2] eqn:E2.
    injection E as <- <- <-. eapply ls_trans; [apply (Hf _ _ _ _ _ _ E1)|apply (IH _ _ _ _ _ E2)].
Qed.
Lemma ls_leaf f : LeafSpec f -> LSf f.
Proof. intros Hf s m x s' m' x' E. destruct (Hf _ _ _ _ _ _ E) as [_ [_ [A B]]]. apply ls_same; assumption. Qed.

Lemma ls_bundle (kd : kind) (rl : rel) (leaf : SM -> id -> SM * id) (src : state -> id -> list id) : LeafSpec leaf -> rl <> RLibs ->
  forall s m p s' m' p',
  (let '(s1, x) := clone_alloc s kd in
   let '((s2, m2), items') := clone_each leaf (src s1 p) (s1, (p, x) :: m) in
   let s3 := set_kids s2 rl x items' in
   let s4 := fold_ids (fun s i' => set_par s rl i' (Some x)) items' s3 in
   ((copy_data (copy_bundle s4 p x) p x, m2), x)) = ((s', m'), p') -> LS s s'.
Proof.
  intros Hl Hr s m p s' m' p' E. destruct (clone_alloc s kd) as [s1 x] eqn:Ea.
  destruct (clone_each leaf (src s1 p) (s1, (p, x) :: m)) as [[s2 m2] items'] eqn:Ee. injection E as <- <- <-.
  eapply ls_trans; [apply (ls_clone_alloc _ _ _ _ Ea)|]. eapply ls_trans; [apply (ls_clone_each leaf (ls_leaf leaf Hl) _ _ _ _ _ _ Ee)|].
  eapply ls_trans; [apply (ls_set_kids s2 rl x items' Hr)|]. eapply ls_trans; [apply ls_fold_ids; intros s0 i; apply ls_set_par; exact Hr|].
  apply ls_same; reflexivity.
Qed.
Lemma ls_port_clone1 : LSf port_clone1.
Proof. intros s m p s' m' p' E. apply (ls_bundle KPort RPins pin_clone1 (fun s1 p => kids s1 RPins p) pin_clone1_leaf ltac:(discriminate) s m p s' m' p'). exact E. Qed.
Lemma ls_cable_clone1 : LSf cable_clone1.
Proof. intros s m p s' m' p' E. apply (ls_bundle KCable RWires wire_clone1 (fun s1 p => kids s1 RWires p) wire_clone1_leaf ltac:(discriminate) s m p s' m' p'). exact E. Qed.

Lemma ls_def_clone1 s m d s' m' d' e : def_clone1 (s, m) d = ((s', m', d'), e) -> LS s s'.
Proof.
  intro E. unfold def_clone1 in E. destruct (clone_alloc s KDefinition) as [s1 a] eqn:Ea.
  match type of E with context [clone_each port_clone1 ?l ?sm] => destruct (clone_each port_clone1 l sm) as [[s2 m2] ports'] eqn:E2 end.
  match type of E with context [clone_each cable_clone1 ?l ?sm] => destruct (clone_each cable_clone1 l sm) as [[s3 m3] cables'] eqn:E3 end.
  match type of E with context [clone_each inst_clone1 ?l ?sm] => destruct (clone_each inst_clone1 l sm) as [[s4 m4] children'] eqn:E4 end.
  injection E as <- _ _ _.
  assert (N1 : RPorts <> RLibs) by discriminate. assert (N2 : RCables <> RLibs) by discriminate. assert (N3 : RChildren <> RLibs) by discriminate.
  eapply ls_trans; [apply (ls_clone_alloc _ _ _ _ Ea)|]. eapply ls_trans; [apply (ls_same s1 (copy_data s1 d a)); reflexivity|].
  eapply ls_trans; [apply (ls_clone_each port_clone1 ls_port_clone1 _ _ _ _ _ _ E2)|].
  eapply ls_trans; [apply (ls_clone_each cable_clone1 ls_cable_clone1 _ _ _ _ _ _ E3)|].
  eapply ls_trans; [apply (ls_clone_each inst_clone1 (ls_leaf _ inst_clone1_leaf) _ _ _ _ _ _ E4)|].
  eapply ls_trans; [apply (ls_set_kids s4 RPorts a ports' N1)|]. eapply ls_trans; [apply (ls_set_kids _ RCables a cables' N2)|].
  eapply ls_trans; [apply (ls_set_kids _ RChildren a children' N3)|]. eapply ls_trans; [match goal with |- LS ?x _ => apply (ls_same x (set_drefs x a (drefs s4 d))); reflexivity end|].
  apply ls_bind; [apply ls_fold_idsR; intros s6 p'; eapply ls_trans; [apply (ls_set_par s6 RPorts p' (Some a) N1)|apply ls_cont; destruct (kpsame_port_rr m4 (set_par s6 RPorts p' (Some a)) p') as [A [B _]]; split; assumption]|].
  intro s6. apply ls_bind; [apply ls_fold_idsR; intros s7 c'; eapply ls_trans; [apply (ls_set_par s7 RCables c' (Some a) N2)|apply ls_cont; destruct (kpsame_cable_rr m4 (set_par s7 RCables c' (Some a)) c') as [A [B _]]; split; assumption]|].
  intro s7. apply ls_fold_idsR. intros s8 x'. eapply ls_trans; [apply (ls_set_par s8 RChildren x' (Some a) N3)|apply ls_cont; destruct (kpsame_inst_rr_def m4 (set_par s8 RChildren x' (Some a)) x') as [A [B _]]; split; assumption].
Qed.

Lemma ls_defs_clone1 : forall l s m s' m' l' e, defs_clone1 l (s, m) = (((s', m'), l'), e) -> LS s s'.
Proof.
  induction l as [|d l IH]; intros s m s' m' l' e E; cbn [defs_clone1] in E.
  - injection E as <- <- <- <-. apply ls_refl.
  - destruct (def_clone1 (s, m) d) as [[[s1 m1] d'] [e1|]] eqn:E1.
    + injection E as <- <- <- <-. apply (ls_def_clone1 _ _ _ _ _ _ _ E1).
    + destruct (defs_clone1 l (s1, m1)) as [[[s2 m2] r] e2] eqn:E2. injection E as <- <- <- <-.
      eapply ls_trans; [apply (ls_def_clone1 _ _ _ _ _ _ _ E1)|apply (IH _ _ _ _ _ _ E2)].
Qed.

Lemma ls_lib_clone1 s m l sF mF l' e : lib_clone1 (s, m) l = ((sF, mF, l'), e) -> LS s sF.
Proof.
  intro E. unfold lib_clone1 in E. destruct (clone_alloc s KLibrary) as [s1 x] eqn:Ea.
  match type of E with context [defs_clone1 ?a ?b] => destruct (defs_clone1 a b) as [[[s2 m2] defs'] [e2|]] eqn:Ed end.
  - injection E as <- _ _ _. eapply ls_trans; [apply (ls_clone_alloc _ _ _ _ Ea)|]. eapply ls_trans; [apply (ls_same s1 (copy_data s1 l x)); reflexivity|].
    apply (ls_defs_clone1 _ _ _ _ _ _ _ Ed).
  - injection E as <- _ _ _. assert (N : RDefs <> RLibs) by discriminate.
    eapply ls_trans; [apply (ls_clone_alloc _ _ _ _ Ea)|]. eapply ls_trans; [apply (ls_same s1 (copy_data s1 l x)); reflexivity|].
    eapply ls_trans; [apply (ls_defs_clone1 _ _ _ _ _ _ _ Ed)|]. eapply ls_trans; [apply (ls_set_kids s2 RDefs x defs' N)|].
    apply ls_fold_idsR. intros s3 d'. eapply ls_trans; [apply (ls_set_par s3 RDefs d' (Some x) N)|apply ls_cont, ce_def_rr].
Qed.

Lemma ls_libs_clone1 : forall ls s m s' m' ls' e, libs_clone1 ls (s, m) = (((s', m'), ls'), e) -> LS s s'.
Proof.
  induction ls as [|l ls IH]; intros s m s' m' ls' e E; cbn [libs_clone1] in E.
  - injection E as <- <- <- <-. apply ls_refl.
  - destruct (lib_clone1 (s, m) l) as [[[s1 m1] l'] [e1|]] eqn:E1.
    + injection E as <- <- <- <-. apply (ls_lib_clone1 _ _ _ _ _ _ _ E1).
    + destruct (libs_clone1 ls (s1, m1)) as [[[s2 m2] r] e2] eqn:E2. injection E as <- <- <- <-.
      eapply ls_trans; [apply (ls_lib_clone1 _ _ _ _ _ _ _ E1)|apply (IH _ _ _ _ _ _ E2)].
Qed.
