(* C12: the hypotheses of the port / cable / get_hcables theorems (Proofs/HierTracePort.v,
   HierTraceCable.v, HierCables.v) are satisfiable by a concrete heap on which the answers are
   not trivial: a two-bit port whose two bits belong to two different nets, each of which crosses
   the instance boundary.

     0 netlist, 1 library,
     2 definition B: 3 port q with pins 4 (i0), 5 (i1); 6 cable c' with wires 7 (w0'), 8 (w1');
                     i0 sits on w0', i1 on w1'
     9 definition A: 10 child instance n (of B); 11 cable c with wires 12 (w0), 13 (w1);
                     the outer pin (n, i0) sits on w0, (n, i1) on w1
     14 top instance t (of A)

   From the hierarchical port [3; 10; 14] (q of n below t) or from the hierarchical cable [11; 14]
   the tracing query returns the four wire occurrences (two nets); get_hcables returns the two
   cable occurrences, each once although each carries two of the wires found. *)
From Coq Require Import List Arith Bool Lia Relations.
From SV Require Import Base.Base IR.State Proofs.Inv1a Proofs.Inv2a Hier.Paths Hier.Enum Hier.Trace Hier.Conn
  Proofs.HierValid Proofs.HierEnum Proofs.HierClosure Proofs.HierTrace Proofs.HierNarrow
  Proofs.HierTracePort Proofs.HierTraceCable Proofs.HierCables Proofs.HierNarrowStarts.
Import ListNotations.

Definition ex3 : state :=
  mkState 15
    (fun x => match x with
              | 0 => Some KNetlist | 1 => Some KLibrary
              | 2 => Some KDefinition | 3 => Some KPort | 4 => Some KPin | 5 => Some KPin
              | 6 => Some KCable | 7 => Some KWire | 8 => Some KWire
              | 9 => Some KDefinition | 10 => Some KInstance
              | 11 => Some KCable | 12 => Some KWire | 13 => Some KWire
              | 14 => Some KInstance
              | _ => None end)
    (fun r p => match r, p with
                | RLibs, 0 => [1]
                | RDefs, 1 => [2; 9]
                | RPorts, 2 => [3]
                | RPins, 3 => [4; 5]
                | RCables, 2 => [6]
                | RWires, 6 => [7; 8]
                | RChildren, 9 => [10]
                | RCables, 9 => [11]
                | RWires, 11 => [12; 13]
                | _, _ => [] end)
    (fun r c => match r, c with
                | RLibs, 1 => Some 0
                | RDefs, 2 => Some 1 | RDefs, 9 => Some 1
                | RPorts, 3 => Some 2
                | RPins, 4 => Some 3 | RPins, 5 => Some 3
                | RCables, 6 => Some 2
                | RWires, 7 => Some 6 | RWires, 8 => Some 6
                | RChildren, 10 => Some 9
                | RCables, 11 => Some 9
                | RWires, 12 => Some 11 | RWires, 13 => Some 11
                | _, _ => None end)
    (fun w => match w with
              | 7 => [PIn 4] | 8 => [PIn 5] | 12 => [POut 10 4] | 13 => [POut 10 5]
              | _ => [] end)
    (fun i => match i with 4 => Some 7 | 5 => Some 8 | _ => None end)
    (fun x => match x with 10 => Some 2 | 14 => Some 9 | _ => None end)
    (fun d => match d with 2 => [10] | 9 => [14] | _ => [] end)
    (fun n => match n with 10 => [(4, Some 12); (5, Some 13)] | _ => [] end)
    (fun n => match n with 0 => Some 14 | _ => None end)
    (fun x => match x with 14 => true | _ => false end)
    (bdownto init) (bscalar init) (blower init) (pdir init) (data init) (nstab init)
    PolDefault [].

(* case analysis on an id up to the allocation bound of ex3 *)
Ltac id15 x := destruct x as [|[|[|[|[|[|[|[|[|[|[|[|[|[|[|x]]]]]]]]]]]]]]].

Ltac nodup_small :=
  repeat (constructor; cbn;
          try (let H := fresh "H" in
               intro H; repeat (destruct H as [H|H]; [discriminate H|]); exact H)).

Lemma ex3_inv1a : Inv1a ex3.
Proof.
  constructor.
  - intros r p x. split.
    + destruct r; cbn; id15 p; cbn; try contradiction;
        intro H; repeat destruct H as [<-|H]; try reflexivity; try contradiction.
    + destruct r; cbn; id15 x; cbn; try discriminate;
        intro H; injection H as <-; cbn; auto.
  - intros r p. destruct r; cbn; id15 p; cbn; nodup_small.
Qed.

Lemma ex3_inv2a : Inv2a ex3.
Proof.
  constructor.
  - intros n d. split.
    + cbn. id15 d; cbn; try contradiction;
        intro H; repeat destruct H as [<-|H]; try reflexivity; try contradiction.
    + cbn. id15 n; cbn; try discriminate; intro H; injection H as <-; cbn; auto.
  - intros d. cbn. id15 d; cbn; nodup_small.
Qed.

Lemma ex3_wfk : WFk ex3.
Proof.
  constructor.
  - intros r p c. destruct r; cbn; id15 p; cbn; try contradiction;
      intro H; repeat destruct H as [<-|H]; try reflexivity; try contradiction.
  - intros r p c. destruct r; cbn; id15 p; cbn; try contradiction;
      intros _; reflexivity.
  - intros x d. cbn. id15 x; cbn; try discriminate; reflexivity.
  - intros r p c. destruct r; cbn; id15 p; cbn; try contradiction;
      intro H; repeat destruct H as [<-|H]; try lia; try contradiction.
  - intros x d. cbn. id15 x; cbn; try discriminate; lia.
Qed.

(* the only parent/child pair of instances: n = 10 below t = 14 *)
Lemma ex3_child c x : child ex3 c x -> x = 14 /\ c = 10.
Proof.
  unfold child, sub. cbn.
  id15 x; cbn; try contradiction.
  intros [<-|[]]. split; reflexivity.
Qed.

Lemma ex3_acyclic : acyclic ex3.
Proof.
  intro x. constructor. intros c H. apply ex3_child in H as [-> ->].
  constructor. intros c' H'. apply ex3_child in H' as [E _]. discriminate.
Qed.

Lemma ex3_wfc : WFc ex3.
Proof.
  constructor.
  - (* wc_in *)
    intros i w. split.
    + cbn. id15 w; cbn; try contradiction; intros [H|[]]; try discriminate H;
        inversion H; subst; reflexivity.
    + cbn. id15 i; cbn; try discriminate; intro H; injection H as <-; cbn; left; reflexivity.
  - (* wc_out *)
    intros n i w. split.
    + cbn. id15 w; cbn; try contradiction; intros [H|[]]; try discriminate H;
        inversion H; subst; reflexivity.
    + cbn. id15 n; cbn; try discriminate.
      destruct i as [|[|[|[|[|[|i]]]]]]; cbn; try discriminate;
        intro H; inversion H; subst; cbn; left; reflexivity.
  - (* wc_local_in *)
    intros i w c. cbn. id15 w; cbn; try contradiction; intros [H|[]]; try discriminate H;
      inversion H; subst; intro Hc; inversion Hc; subst;
      exists 2, 3; cbn; repeat split; reflexivity.
  - (* wc_local_out *)
    intros n i w c. cbn. id15 w; cbn; try contradiction; intros [H|[]]; try discriminate H;
      inversion H; subst; intro Hc; inversion Hc; subst;
      exists 9, 3, 2; cbn; repeat split; reflexivity.
Qed.

Lemma ex3_root : is_root ex3 14.
Proof. exists 0. split; reflexivity. Qed.

Definition ex3_U : list href := [[12; 11; 14]; [13; 11; 14]; [7; 6; 10; 14]; [8; 6; 10; 14]].

Lemma ex3_universe : all_hwires ex3 0 = Some ex3_U.
Proof. vm_compute. reflexivity. Qed.

(* the instance path of n below t, its port q and the cable c of the top level *)
Lemma ex3_rpath_n : is_rpath ex3 14 [10; 14].
Proof. apply rp_child; [apply rp_top|]. unfold child, sub. cbn. left; reflexivity. Qed.

Lemma ex3_rpath_t : is_rpath ex3 14 [14].
Proof. apply rp_top. Qed.

Lemma ex3_port : In 3 (ports_of ex3 10).
Proof. cbn. left; reflexivity. Qed.

Lemma ex3_cable : In 11 (cables_of ex3 14).
Proof. cbn. left; reflexivity. Qed.

Lemma ex3_wire_occ : hwire_occ ex3 14 [12; 11; 14].
Proof.
  exists 12, 11, 14, []. split; [reflexivity|]. split; [apply rp_top|].
  split; cbn; left; reflexivity.
Qed.

Lemma ex3_pin_occ : hpin_occ ex3 14 [4; 3; 10; 14].
Proof.
  exists 4, 3, 10, [14]. split; [reflexivity|]. split; [exact ex3_rpath_n|].
  split; cbn; left; reflexivity.
Qed.

(* ---- computed answers ---- *)
Example ex3_hwires_from_port :
  get_hwires ex3 SAll false (pin_weight ex3 ex3_U) [3; 10; 14]
  = Some [[7; 6; 10; 14]; [12; 11; 14]; [8; 6; 10; 14]; [13; 11; 14]].
Proof. vm_compute. reflexivity. Qed.

Example ex3_hwires_from_cable :
  get_hwires ex3 SAll false (pin_weight ex3 ex3_U) [11; 14]
  = Some [[12; 11; 14]; [13; 11; 14]; [7; 6; 10; 14]; [8; 6; 10; 14]].
Proof. vm_compute. reflexivity. Qed.

Example ex3_hcables_from_wire :
  get_hcables ex3 SAll false (pin_weight ex3 ex3_U) [12; 11; 14] = Some [[11; 14]; [6; 10; 14]].
Proof. vm_compute. reflexivity. Qed.

Example ex3_hcables_from_pin :
  get_hcables ex3 SAll false (pin_weight ex3 ex3_U) [4; 3; 10; 14] = Some [[6; 10; 14]; [11; 14]].
Proof. vm_compute. reflexivity. Qed.

(* four wires found, two cables returned: the in_yield set removes the repetitions *)
Example ex3_hcables_from_port :
  get_hcables ex3 SAll false (pin_weight ex3 ex3_U) [3; 10; 14] = Some [[6; 10; 14]; [11; 14]].
Proof. vm_compute. reflexivity. Qed.

Example ex3_hcables_from_cable :
  get_hcables ex3 SAll false (pin_weight ex3 ex3_U) [11; 14] = Some [[11; 14]; [6; 10; 14]].
Proof. vm_compute. reflexivity. Qed.

(* ---- the general theorems apply ---- *)
Example ex3_port_class :
  exists l, get_hwires ex3 SAll false (pin_weight ex3 ex3_U) [3; 10; 14] = Some l /\ NoDup l /\
            forall b, In b l <-> exists i y, In i (kids ex3 RPins 3) /\
                                             In y (nb_sel ex3 SAll [i; 3; 10; 14]) /\
                                             Conn.conn ex3 14 y b.
Proof.
  exact (get_hwires_ALL_port ex3 14 ex3_inv1a ex3_inv2a ex3_wfk ex3_wfc ex3_root
           0 _ 3 10 [14] ex3_acyclic eq_refl ex3_universe ex3_rpath_n ex3_port).
Qed.

Example ex3_cable_class :
  exists l, get_hwires ex3 SAll false (pin_weight ex3 ex3_U) [11; 14] = Some l /\ NoDup l /\
            forall b, In b l <-> exists w, In w (kids ex3 RWires 11) /\
                                           Conn.conn ex3 14 [w; 11; 14] b.
Proof.
  exact (get_hwires_ALL_cable ex3 14 ex3_inv1a ex3_inv2a ex3_wfk ex3_wfc ex3_root
           0 _ 11 14 [] ex3_acyclic eq_refl ex3_universe ex3_rpath_t ex3_cable).
Qed.

Example ex3_hcables_class :
  exists l, get_hcables ex3 SAll false (pin_weight ex3 ex3_U) [12; 11; 14] = Some l /\ NoDup l /\
            forall k, In k l <-> exists b, Conn.conn ex3 14 [12; 11; 14] b /\ k = tl b.
Proof.
  exact (get_hcables_ALL_wire ex3 14 ex3_inv1a ex3_inv2a ex3_wfk ex3_wfc ex3_root
           0 _ _ ex3_acyclic eq_refl ex3_universe ex3_wire_occ).
Qed.

(* consequence: the two bits of the bus are NOT connected to each other *)
Example ex3_two_nets : ~ Conn.conn ex3 14 [12; 11; 14] [13; 11; 14].
Proof.
  intro H.
  destruct (get_hwires_ALL_class ex3 14 ex3_inv1a ex3_inv2a ex3_wfk ex3_wfc ex3_root
              0 _ _ ex3_acyclic eq_refl ex3_universe ex3_wire_occ) as (l & E & S).
  apply S in H. revert H.
  assert (El : get_hwires_ALL ex3 (pin_weight ex3 ex3_U) [12; 11; 14]
               = Some [[12; 11; 14]; [7; 6; 10; 14]]) by (vm_compute; reflexivity).
  rewrite El in E. inversion E; subst l. cbn. intros [H|[H|[]]]; discriminate H.
Qed.

(* the satisfiability statement used by Props/C12.v: all hypotheses at once, a port with two pins
   and a cable with two wires, answers with four wire occurrences / two cable occurrences *)
Example C12_port_cable_hypotheses_satisfiable :
  exists s t n U q x p c x' p' lp lc lk,
    Inv1a s /\ Inv2a s /\ WFk s /\ WFc s /\ acyclic s /\ is_root s t /\
    top s n = Some t /\ all_hwires s n = Some U /\
    is_rpath s t (x :: p) /\ In q (ports_of s x) /\ length (kids s RPins q) = 2 /\
    is_rpath s t (x' :: p') /\ In c (cables_of s x') /\ length (kids s RWires c) = 2 /\
    get_hwires s SAll false (pin_weight s U) (q :: x :: p) = Some lp /\ length lp = 4 /\
    get_hwires s SAll false (pin_weight s U) (c :: x' :: p') = Some lc /\ length lc = 4 /\
    get_hcables s SAll false (pin_weight s U) (q :: x :: p) = Some lk /\ length lk = 2.
Proof.
  exists ex3, 14, 0, ex3_U, 3, 10, [14], 11, 14, [].
  eexists. eexists. eexists.
  split; [exact ex3_inv1a|]. split; [exact ex3_inv2a|]. split; [exact ex3_wfk|].
  split; [exact ex3_wfc|]. split; [exact ex3_acyclic|]. split; [exact ex3_root|].
  split; [reflexivity|]. split; [exact ex3_universe|].
  split; [exact ex3_rpath_n|]. split; [exact ex3_port|]. split; [reflexivity|].
  split; [exact ex3_rpath_t|]. split; [exact ex3_cable|]. split; [reflexivity|].
  split; [exact ex3_hwires_from_port|]. split; [reflexivity|].
  split; [exact ex3_hwires_from_cable|]. split; [reflexivity|].
  split; [exact ex3_hcables_from_port|]. reflexivity.
Qed.

(* ---- narrow selections from wire / port / cable starts ---- *)
Lemma ex3_inner_wire_occ : hwire_occ ex3 14 [7; 6; 10; 14].
Proof.
  exists 7, 6, 10, [14]. split; [reflexivity|]. split; [exact ex3_rpath_n|].
  split; cbn; left; reflexivity.
Qed.

Lemma ex3_link : hlink_occ ex3 14 [12; 11; 14] [7; 6; 10; 14].
Proof.
  split; [exact ex3_wire_occ|]. split; [exact ex3_inner_wire_occ|].
  apply (hlink_intro ex3 10 4 [14] 12 11 7 6); cbn; auto.
Qed.

Example ex3_outside_from_wire : get_hwires ex3 SOutside false 0 [12; 11; 14] = Some [[7; 6; 10; 14]].
Proof. vm_compute. reflexivity. Qed.

Example ex3_outside_from_inner_wire : get_hwires ex3 SOutside false 0 [7; 6; 10; 14] = Some [[12; 11; 14]].
Proof. vm_compute. reflexivity. Qed.

Example ex3_both_from_wire :
  get_hwires ex3 SBoth false 0 [12; 11; 14] = Some [[12; 11; 14]; [7; 6; 10; 14]].
Proof. vm_compute. reflexivity. Qed.

Example ex3_outside_from_port :
  get_hwires ex3 SOutside false 0 [3; 10; 14] = Some [[12; 11; 14]; [13; 11; 14]].
Proof. vm_compute. reflexivity. Qed.

Example ex3_inside_from_port :
  get_hwires ex3 SInside false 0 [3; 10; 14] = Some [[7; 6; 10; 14]; [8; 6; 10; 14]].
Proof. vm_compute. reflexivity. Qed.

Example ex3_outside_from_cable :
  get_hwires ex3 SOutside false 0 [11; 14] = Some [[7; 6; 10; 14]; [8; 6; 10; 14]].
Proof. vm_compute. reflexivity. Qed.

Example ex3_outside_wire_thm :
  exists l, get_hwires ex3 SOutside false 0 [12; 11; 14] = Some l /\ NoDup l /\
            forall b, In b l <-> (hlink_occ ex3 14 [12; 11; 14] b \/ hlink_occ ex3 14 b [12; 11; 14]).
Proof.
  exact (get_hwires_OUTSIDE_wire ex3 14 ex3_inv1a ex3_inv2a ex3_wfk ex3_root ex3_wfc 0 _ ex3_wire_occ).
Qed.

(* the satisfiability statement for the narrow selections used by Props/C12.v: a wire occurrence
   with a crossing; OUTSIDE returns the other side only, from either side *)
Example C12_narrow_starts_hypotheses_satisfiable :
  exists s t x b q x0 x1 p lp,
    Inv1a s /\ Inv2a s /\ WFk s /\ WFc s /\ is_root s t /\
    hwire_occ s t x /\ hlink_occ s t x b /\
    get_hwires s SOutside false 0 x = Some [b] /\ get_hwires s SOutside false 0 b = Some [x] /\
    get_hwires s SInside false 0 x = Some [x] /\
    is_rpath s t (x0 :: x1 :: p) /\ In q (ports_of s x0) /\
    get_hwires s SOutside false 0 (q :: x0 :: x1 :: p) = Some lp /\ length lp = 2.
Proof.
  exists ex3, 14, [12; 11; 14], [7; 6; 10; 14], 3, 10, 14, []. eexists.
  split; [exact ex3_inv1a|]. split; [exact ex3_inv2a|]. split; [exact ex3_wfk|].
  split; [exact ex3_wfc|]. split; [exact ex3_root|].
  split; [exact ex3_wire_occ|]. split; [exact ex3_link|].
  split; [exact ex3_outside_from_wire|]. split; [exact ex3_outside_from_inner_wire|].
  split; [vm_compute; reflexivity|].
  split; [exact ex3_rpath_n|]. split; [exact ex3_port|].
  split; [exact ex3_outside_from_port|]. reflexivity.
Qed.

Print Assumptions ex3_wfc.
Print Assumptions ex3_port_class.
Print Assumptions ex3_cable_class.
Print Assumptions ex3_hcables_class.
Print Assumptions ex3_two_nets.
Print Assumptions C12_port_cable_hypotheses_satisfiable.
Print Assumptions ex3_outside_wire_thm.
Print Assumptions C12_narrow_starts_hypotheses_satisfiable.
