(* The ownership tree of the source: the objects of different definitions, and of different
   libraries, are disjoint (every object has one owner through the containment relations). *)
From Coq Require Import List Arith Bool Lia.
From RecordUpdate Require Import RecordSet.
From SV Require Import Base.Base IR.State IR.NS IR.Ops Xform.Clone Proofs.AssocX Proofs.Frame Proofs.Inv1a Proofs.Inv2a
  Proofs.InvP Proofs.InvW Proofs.Fresh Proofs.NsInv Proofs.CloneMemo Proofs.CloneFaithK Proofs.CloneLib.
Import ListNotations RecordSetNotations.

Lemma nodup_app_intro {A} (a b : list A) : NoDup a -> NoDup b -> (forall y, In y a -> In y b -> False) -> NoDup (a ++ b).
Proof.
  induction a as [|x a IH]; cbn; intros Ha Hb Hd; [exact Hb|]. inversion Ha as [|? ? Hx Ha']; subst. constructor.
  - intro Hin. apply in_app_or in Hin as [Hin|Hin]; [exact (Hx Hin)|exact (Hd x (or_introl eq_refl) Hin)].
  - apply IH; [exact Ha'|exact Hb|]. intros y Hy. apply Hd. right. exact Hy.
Qed.

Section Tree.
  Variable s0 : state.
  Hypothesis I1 : Inv1a s0.
  Hypothesis HT : InvT s0.
  Hypothesis F0 : Fresh s0.

  Definition defowner (y : id) : option id :=
    match kind_of s0 y with
    | Some KDefinition => Some y
    | Some KPort => par s0 RPorts y
    | Some KPin => match par s0 RPins y with Some p => par s0 RPorts p | None => None end
    | Some KCable => par s0 RCables y
    | Some KWire => match par s0 RWires y with Some p => par s0 RCables p | None => None end
    | Some KInstance => par s0 RChildren y
    | _ => None
    end.

  Lemma def_objects_cases d y : In y (def_objects s0 d) ->
    y = d \/ (exists p, In p (kids s0 RPorts d) /\ (y = p \/ In y (kids s0 RPins p))) \/
    (exists p, In p (kids s0 RCables d) /\ (y = p \/ In y (kids s0 RWires p))) \/ In y (kids s0 RChildren d).
  Proof.
    unfold def_objects. intros [<-|H]; [left; reflexivity|right]. apply in_app_or in H as [H|H].
    - left. apply in_flat_map in H as [p [Hp Hy]]. exists p. split; [exact Hp|]. destruct Hy as [<-|Hy]; [left; reflexivity|right; exact Hy].
    - right. apply in_app_or in H as [H|H]; [left|right; exact H].
      apply in_flat_map in H as [p [Hp Hy]]. exists p. split; [exact Hp|]. destruct Hy as [<-|Hy]; [left; reflexivity|right; exact Hy].
  Qed.

  Lemma def_objects_owner d y : kind_of s0 d = Some KDefinition -> In y (def_objects s0 d) -> defowner y = Some d.
  Proof.
    intros Hk H. unfold defowner. apply def_objects_cases in H as [->|[[p [Hp [->|Hy]]]|[[p [Hp [->|Hy]]]|Hy]]].
    - rewrite Hk. reflexivity.
    - rewrite (proj1 (HT _ _ _ Hp)). cbn. apply (i1_kids _ I1). exact Hp.
    - rewrite (proj1 (HT _ _ _ Hy)). cbn. rewrite (proj1 (i1_kids _ I1 RPins p y) Hy). apply (i1_kids _ I1). exact Hp.
    - rewrite (proj1 (HT _ _ _ Hp)). cbn. apply (i1_kids _ I1). exact Hp.
    - rewrite (proj1 (HT _ _ _ Hy)). cbn. rewrite (proj1 (i1_kids _ I1 RWires p y) Hy). apply (i1_kids _ I1). exact Hp.
    - rewrite (proj1 (HT _ _ _ Hy)). cbn. apply (i1_kids _ I1). exact Hy.
  Qed.

  Lemma def_objects_kinds d y : kind_of s0 d = Some KDefinition -> In y (def_objects s0 d) ->
    kind_of s0 y <> Some KLibrary /\ kind_of s0 y <> Some KNetlist /\ (kind_of s0 y = Some KDefinition -> y = d).
  Proof.
    intros Hk H. apply def_objects_cases in H as [->|[[p [Hp [->|Hy]]]|[[p [Hp [->|Hy]]]|Hy]]].
    - rewrite Hk. repeat split; congruence.
    - rewrite (proj1 (HT _ _ _ Hp)). cbn. repeat split; congruence.
    - rewrite (proj1 (HT _ _ _ Hy)). cbn. repeat split; congruence.
    - rewrite (proj1 (HT _ _ _ Hp)). cbn. repeat split; congruence.
    - rewrite (proj1 (HT _ _ _ Hy)). cbn. repeat split; congruence.
    - rewrite (proj1 (HT _ _ _ Hy)). cbn. repeat split; congruence.
  Qed.

  Lemma def_objects_nodup d : kind_of s0 d = Some KDefinition -> NoDup (def_objects s0 d).
  Proof.
    intro Hk. unfold def_objects. constructor.
    - intro Hin. assert (Hin' : In d (def_objects s0 d)) by (left; reflexivity).
      apply in_app_or in Hin as [H|H].
      + destruct (bundles_kinds s0 HT RPorts RPins d d H) as [K|K]; cbn in K; congruence.
      + apply in_app_or in H as [H|H].
        * destruct (bundles_kinds s0 HT RCables RWires d d H) as [K|K]; cbn in K; congruence.
        * pose proof (proj1 (HT _ _ _ H)) as K. cbn in K. congruence.
    - apply nodup_app_intro; [apply (bundles_nodup s0 I1 HT RPorts RPins d); [discriminate|reflexivity]| |].
      + apply nodup_app_intro; [apply (bundles_nodup s0 I1 HT RCables RWires d); [discriminate|reflexivity]|apply (i1_nodup _ I1)|].
        intros y Hy Hc. destruct (bundles_kinds s0 HT RCables RWires d y Hy) as [K|K]; pose proof (proj1 (HT _ _ _ Hc)) as K2; cbn in K, K2; congruence.
      + intros y Hy Hc. destruct (bundles_kinds s0 HT RPorts RPins d y Hy) as [K|K]; cbn in K; apply in_app_or in Hc as [Hc|Hc].
        * destruct (bundles_kinds s0 HT RCables RWires d y Hc) as [K2|K2]; cbn in K2; congruence.
        * pose proof (proj1 (HT _ _ _ Hc)) as K2. cbn in K2. congruence.
        * destruct (bundles_kinds s0 HT RCables RWires d y Hc) as [K2|K2]; cbn in K2; congruence.
        * pose proof (proj1 (HT _ _ _ Hc)) as K2. cbn in K2. congruence.
  Qed.

  Lemma defs_objects_nodup l : NoDup (flat_map (def_objects s0) (kids s0 RDefs l)).
  Proof.
    apply nodup_flat_map_disj.
    - apply (i1_nodup _ I1).
    - intros d Hd. apply def_objects_nodup. apply (proj1 (HT _ _ _ Hd)).
    - intros d d2 z Hd Hd2 Hne Hz Hz2.
      pose proof (def_objects_owner d z (proj1 (HT _ _ _ Hd)) Hz) as O1.
      pose proof (def_objects_owner d2 z (proj1 (HT _ _ _ Hd2)) Hz2) as O2. congruence.
  Qed.

  Definition libowner (y : id) : option id :=
    match kind_of s0 y with
    | Some KLibrary => Some y
    | _ => match defowner y with Some d => par s0 RDefs d | None => None end
    end.

  Lemma lib_objects_owner l y : kind_of s0 l = Some KLibrary -> In y (lib_objects s0 l) -> libowner y = Some l.
  Proof.
    intros Hk [<-|H]; unfold libowner; [rewrite Hk; reflexivity|].
    apply in_flat_map in H as [d [Hd Hy]]. pose proof (proj1 (HT _ _ _ Hd)) as Kd. cbn in Kd.
    destruct (def_objects_kinds d y Kd Hy) as [NL _]. rewrite (def_objects_owner d y Kd Hy).
    destruct (kind_of s0 y) as [[]|]; try (apply (i1_kids _ I1); exact Hd). congruence.
  Qed.

  Lemma lib_objects_nodup l : kind_of s0 l = Some KLibrary -> NoDup (lib_objects s0 l).
  Proof.
    intro Hk. unfold lib_objects. constructor; [|apply defs_objects_nodup].
    intro Hin. apply in_flat_map in Hin as [d [Hd Hy]]. destruct (def_objects_kinds d l (proj1 (HT _ _ _ Hd)) Hy) as [NL _]. congruence.
  Qed.

  Lemma libs_objects_nodup n : NoDup (flat_map (lib_objects s0) (kids s0 RLibs n)).
  Proof.
    apply nodup_flat_map_disj.
    - apply (i1_nodup _ I1).
    - intros l Hl. apply lib_objects_nodup. apply (proj1 (HT _ _ _ Hl)).
    - intros l l2 z Hl Hl2 Hne Hz Hz2.
      pose proof (lib_objects_owner l z (proj1 (HT _ _ _ Hl)) Hz) as O1.
      pose proof (lib_objects_owner l2 z (proj1 (HT _ _ _ Hl2)) Hz2) as O2. congruence.
  Qed.

  Lemma libs_objects_kinds n y : In y (flat_map (lib_objects s0) (kids s0 RLibs n)) -> kind_of s0 y <> Some KNetlist.
  Proof.
    intro H. apply in_flat_map in H as [l [Hl [<-|Hy]]].
    - rewrite (proj1 (HT _ _ _ Hl)). cbn. congruence.
    - apply in_flat_map in Hy as [d [Hd Hy]]. apply (def_objects_kinds d y (proj1 (HT _ _ _ Hd)) Hy).
  Qed.
  Lemma libs_objects_inst n y : In y (flat_map (lib_objects s0) (kids s0 RLibs n)) -> kind_of s0 y = Some KInstance ->
    exists l d, In l (kids s0 RLibs n) /\ In d (kids s0 RDefs l) /\ In y (kids s0 RChildren d).
  Proof.
    intros H Hk. apply in_flat_map in H as [l [Hl [<-|Hy]]].
    - rewrite (proj1 (HT _ _ _ Hl)) in Hk. discriminate.
    - apply in_flat_map in Hy as [d [Hd Hy]]. exists l, d. split; [exact Hl|]. split; [exact Hd|].
      apply def_objects_cases in Hy as [->|[[p [Hp [->|Hy]]]|[[p [Hp [->|Hy]]]|Hy]]]; [| | | | |exact Hy].
      + rewrite (proj1 (HT _ _ _ Hd)) in Hk. discriminate.
      + rewrite (proj1 (HT _ _ _ Hp)) in Hk. discriminate.
      + rewrite (proj1 (HT _ _ _ Hy)) in Hk. discriminate.
      + rewrite (proj1 (HT _ _ _ Hp)) in Hk. discriminate.
      + rewrite (proj1 (HT _ _ _ Hy)) in Hk. discriminate.
  Qed.

  Lemma libs_objects_def n y : In y (flat_map (lib_objects s0) (kids s0 RLibs n)) -> kind_of s0 y = Some KDefinition ->
    exists l, In l (kids s0 RLibs n) /\ In y (kids s0 RDefs l).
  Proof.
    intros H Hk. apply in_flat_map in H as [l [Hl [<-|Hy]]].
    - rewrite (proj1 (HT _ _ _ Hl)) in Hk. discriminate.
    - apply in_flat_map in Hy as [d [Hd Hy]]. exists l. split; [exact Hl|].
      destruct (def_objects_kinds d y (proj1 (HT _ _ _ Hd)) Hy) as [_ [_ He]]. rewrite (He Hk). exact Hd.
  Qed.

  Lemma libs_objects_of_def n l d : In l (kids s0 RLibs n) -> In d (kids s0 RDefs l) -> In d (flat_map (lib_objects s0) (kids s0 RLibs n)).
  Proof.
    intros Hl Hd. apply in_flat_map. exists l. split; [exact Hl|]. right. apply in_flat_map. exists d. split; [exact Hd|left; reflexivity].
  Qed.
  Lemma libs_objects_lib n y : In y (flat_map (lib_objects s0) (kids s0 RLibs n)) -> kind_of s0 y = Some KLibrary -> In y (kids s0 RLibs n).
  Proof.
    intros H Hk. apply in_flat_map in H as [l [Hl [<-|Hy]]]; [exact Hl|].
    apply in_flat_map in Hy as [d [Hd Hy]]. destruct (def_objects_kinds d y (proj1 (HT _ _ _ Hd)) Hy) as [NL _]. contradiction.
  Qed.

  Lemma libs_objects_bundle n y (r : rel) (k : kind) : (r = RPorts /\ k = KPort) \/ (r = RCables /\ k = KCable) ->
    In y (flat_map (lib_objects s0) (kids s0 RLibs n)) -> kind_of s0 y = Some k ->
    exists l d, In l (kids s0 RLibs n) /\ In d (kids s0 RDefs l) /\ In y (kids s0 r d).
  Proof.
    intros Hrk H Hk. apply in_flat_map in H as [l [Hl [<-|Hy]]].
    - rewrite (proj1 (HT _ _ _ Hl)) in Hk. destruct Hrk as [[_ ->]|[_ ->]]; discriminate.
    - apply in_flat_map in Hy as [d [Hd Hy]]. exists l, d. split; [exact Hl|]. split; [exact Hd|].
      apply def_objects_cases in Hy as [->|[[p [Hp [->|Hy]]]|[[p [Hp [->|Hy]]]|Hy]]].
      + rewrite (proj1 (HT _ _ _ Hd)) in Hk. destruct Hrk as [[_ ->]|[_ ->]]; discriminate.
      + destruct Hrk as [[-> ->]|[-> ->]]; [exact Hp|]. rewrite (proj1 (HT _ _ _ Hp)) in Hk. discriminate.
      + rewrite (proj1 (HT _ _ _ Hy)) in Hk. destruct Hrk as [[_ ->]|[_ ->]]; discriminate.
      + destruct Hrk as [[-> ->]|[-> ->]]; [|exact Hp]. rewrite (proj1 (HT _ _ _ Hp)) in Hk. discriminate.
      + rewrite (proj1 (HT _ _ _ Hy)) in Hk. destruct Hrk as [[_ ->]|[_ ->]]; discriminate.
      + rewrite (proj1 (HT _ _ _ Hy)) in Hk. destruct Hrk as [[_ ->]|[_ ->]]; discriminate.
  Qed.
End Tree.
