(* Lifting the one-step lemmas of C01 to histories, and the reorder clause. *)
From Coq Require Import List Arith Bool Permutation.
From SV Require Import Base.Base IR.State IR.NS IR.Ops Proofs.Frame Proofs.Inv1a.
Import ListNotations.

Fixpoint never_stuck (ops : list op) (s : state) : Prop :=
  match ops with
  | [] => True
  | o :: ops' => snd (step s o) <> Some XStuck /\ never_stuck ops' (fst (step s o))
  end.

Lemma run_inv1a ops : forall s, Inv1a s -> never_stuck ops s -> Inv1a (run ops s).
Proof.
  induction ops as [|o ops IH]; intros s Hi Hn; cbn; [exact Hi|].
  destruct Hn as [H1 H2]. apply IH; [apply step_inv1a; assumption|exact H2].
Qed.

(* every prefix of a history: the invariant holds after each step *)
Lemma run_inv1a_prefix ops1 ops2 :
  never_stuck (ops1 ++ ops2) init -> Inv1a (run ops1 init).
Proof.
  intro H. apply run_inv1a; [apply inv1a_init|].
  revert H. generalize init. induction ops1 as [|o ops1 IH]; intros s H; cbn in *; [exact I|].
  destruct H as [H1 H2]. split; [exact H1|apply IH; exact H2].
Qed.

Lemma reorder_permutes s r p l :
  Inv1a s ->
  let res := op_reorder s r p l in
  (snd res = None -> Permutation (kids s r p) (kids (fst res) r p) /\ kids (fst res) r p = l) /\
  (snd res <> None -> fst res = s).
Proof.
  intro Hi. unfold op_reorder, guard. cbn zeta.
  destruct (is_kind s p (rel_parent r)); cbn; [|split; [discriminate|reflexivity]].
  destruct (nodupb l && seteqb (kids s r p) l) eqn:Hg; cbn; [|split; [discriminate|reflexivity]].
  apply andb_true_iff in Hg as [Hn Hs]. apply nodupb_NoDup in Hn. rewrite seteqb_spec in Hs.
  split; [|congruence]. intros _. rewrite upd2_same. split; [|reflexivity].
  apply NoDup_Permutation; [apply Hi|assumption|assumption].
Qed.
