(* Engine `verilog`, document-level reader: what the reader makes of an expression (Fmt/VSem.v notions).
   For any definition state satisfying the structural invariant and any typed atom / concatenation: the wires
   selected, read through their labels, are the bits the expression names, most significant first; the only change
   to the definition is the creation of implied one-bit cables. Also: bundle labels are stable under growth;
   requests inside the current range change nothing. *)
From Coq Require Import List ZArith Bool Arith Lia Sorted.
From SV Require Import Base.Base Fmt.VBits Fmt.VExpr Fmt.VTop Fmt.VDoc Fmt.VElab Fmt.VSpec Fmt.VSem
  Proofs.VerilogLists Proofs.VerilogSlice Proofs.VerilogGrow Proofs.VerilogPort Proofs.VElabBase Proofs.VElabInv Proofs.VElabWf.
Import ListNotations.
Open Scope Z_scope.


Lemma blabel_item_at b o i : wfb b -> (blabel b o = Some i <-> item_at b i = Some o).
Proof.
  intros (Hn & Hd & _). unfold blabel, item_at. split.
  - destruct (index_of o (b_items b)) as [k|] eqn:E; [|discriminate]. intro H. inversion H; subst.
    destruct (Z.ltb_spec (b_lo b + Z.of_nat k) (b_lo b)) as [Hlt|Hge]; [lia|].
    replace (Z.to_nat (b_lo b + Z.of_nat k - b_lo b)) with k by lia. apply index_of_some. exact E.
  - destruct (Z.ltb_spec i (b_lo b)) as [Hlt|Hge]; [discriminate|]. intro H.
    rewrite (index_of_nth_nodup _ _ _ Hd H). f_equal. lia.
Qed.

Lemma blabel_extends b b' o i : wfb b -> extends b b' -> blabel b o = Some i -> blabel b' o = Some i.
Proof.
  intros W (N & W' & L & H & I & F) Hl.
  apply (blabel_item_at b' o i W'). rewrite I.
  - apply (blabel_item_at b o i W). exact Hl.
  - unfold blabel in Hl. destruct (index_of o (b_items b)) as [k|] eqn:E; [|discriminate]. inversion Hl; subst.
    apply index_of_lt in E. unfold b_hi. lia.
Qed.

(* update_cable / update_port without "defining": the bundle extends *)
Lemma update_cable_extends l r b : wfb b -> extends b (update_cable l r false b).
Proof. intro W. apply (upd_spec b (l, r) W). Qed.

Lemma update_port_extends l r b : wfb b -> extends b (update_port l r false b).
Proof.
  intro W. unfold update_port. destruct (in_range l r) as [[il iu]|] eqn:E; [|apply extends_refl; exact W].
  cbn [rebase]. destruct (_ =? _); [apply extends_refl; exact W|].
  apply (grow_spec b il iu W (in_range_le _ _ _ _ E)).
Qed.

(* a request inside the current range changes nothing *)
Lemma grow_inside il iu b : b_lo b <= il -> iu <= b_hi b -> grow il iu b = b.
Proof.
  intros H1 H2. unfold grow, b_hi in *. destruct (Z.ltb_spec il (b_lo b)); [lia|].
  destruct (Z.ltb_spec (b_lo b + Z.of_nat (length (b_items b)) - 1) iu); [lia|]. reflexivity.
Qed.

Lemma update_cable_inside l r dfn b il iu : in_range l r = Some (il, iu) -> b_lo b <= il -> iu <= b_hi b ->
  (dfn = true -> il = b_lo b) -> update_cable l r dfn b = b.
Proof.
  intros E H1 H2 Hd. unfold update_cable. rewrite E.
  assert (R : rebase dfn il b = b).
  { destruct dfn; [|reflexivity]. cbn. rewrite (Hd eq_refl). destruct b; reflexivity. }
  rewrite R. apply grow_inside; assumption.
Qed.

Lemma update_cable_none dfn b : update_cable None None dfn b = b.
Proof. reflexivity. Qed.

Lemma update_port_inside l r dfn b il iu : in_range l r = Some (il, iu) -> b_lo b <= il -> iu <= b_hi b ->
  (dfn = true -> il = b_lo b) -> update_port l r dfn b = b.
Proof.
  intros E H1 H2 Hd. unfold update_port. rewrite E.
  assert (R : rebase dfn il b = b).
  { destruct dfn; [|reflexivity]. cbn. rewrite (Hd eq_refl). destruct b; reflexivity. }
  rewrite R. destruct (_ =? _); [reflexivity|]. apply grow_inside; assumption.
Qed.

(* ---------- labels of a run of wires taken from one cable ---------- *)
Lemma sorted_by_offset {A} (key : A -> Z) (t : list A) K :
  (forall j x, nth_error t j = Some x -> key x = K - Z.of_nat j) -> StronglySorted (gt_key key) t.
Proof.
  revert K. induction t as [|a t IH]; intros K H; [constructor|].
  constructor.
  - apply (IH (K - 1)). intros j x Hj. rewrite (H (S j) x Hj). lia.
  - apply Forall_forall. intros x Hx. apply In_nth_error in Hx. destruct Hx as (j & Hj).
    unfold gt_key. rewrite (H O a eq_refl), (H (S j) x Hj). lia.
Qed.

Lemma wire_label_at d ck c k o : nth_error (ed_cables d) ck = Some c -> wfb (ec_b c) ->
  nth_error (b_items (ec_b c)) k = Some o ->
  wire_label d (ck, o) = Some (ec_name c, b_lo (ec_b c) + Z.of_nat k) /\ wire_key d (ck, o) = Z.of_nat k.
Proof.
  intros Hc (_ & Hd & _) Ho. unfold wire_label, wire_key, cable_bundle. cbn [fst snd]. rewrite Hc.
  rewrite (index_of_nth_nodup _ _ _ Hd Ho). split; reflexivity.
Qed.

(* t lists, from index hi downwards, the wires of cable ck *)
Definition run_down (d : edef) (ck : nat) (c : ecable) (hi : Z) (t : list ewire) : Prop :=
  forall j, (j < length t)%nat ->
    exists o, nth_error t j = Some (ck, o) /\ nth_error (b_items (ec_b c)) (Z.to_nat (hi - Z.of_nat j - b_lo (ec_b c))) = Some o.

Lemma run_down_labels d ck c hi t : nth_error (ed_cables d) ck = Some c -> wfb (ec_b c) ->
  b_lo (ec_b c) <= hi - Z.of_nat (length t) + 1 -> run_down d ck c hi t ->
  map (wire_label d) t = map (fun i => Some (ec_name c, i)) (zdown hi (hi - Z.of_nat (length t) + 1)) /\
  sort_desc (wire_key d) t = t.
Proof.
  intros Hc W Hlo R. split.
  - apply list_eq_nth_error.
    + rewrite !map_length, zdown_length. clear. lia.
    + intros j Hj. rewrite map_length in Hj. rewrite !nth_error_map. rewrite zdown_nth by lia.
      destruct (R j Hj) as (o & Ht & Ho). rewrite Ht. cbn.
      destruct (wire_label_at d ck c _ o Hc W Ho) as [L _]. rewrite L. do 2 f_equal. apply f_equal. lia.
  - apply sort_desc_id. apply (sorted_by_offset _ _ (hi - b_lo (ec_b c))).
    intros j x Hx. assert (Hj : (j < length t)%nat) by (apply nth_error_Some; congruence).
    destruct (R j Hj) as (o & Ht & Ho). rewrite Ht in Hx. inversion Hx; subst.
    destruct (wire_label_at d ck c _ o Hc W Ho) as [_ K]. rewrite K. lia.
Qed.

(* the selected range of an atom on a cable *)
Definition sel_lo (b : bundle) (a : datom) : Z :=
  match atom_l a, atom_r a with Some _, Some l => l | Some i, None => i | None, _ => b_lo b end.
Definition sel_hi (b : bundle) (a : datom) : Z :=
  match atom_l a, atom_r a with Some h, Some _ => h | Some i, None => i | None, _ => b_hi b end.

Lemma wires_from_run d ck c a : nth_error (ed_cables d) ck = Some c -> wfb (ec_b c) ->
  b_lo (ec_b c) <= sel_lo (ec_b c) a -> sel_lo (ec_b c) a <= sel_hi (ec_b c) a -> sel_hi (ec_b c) a <= b_hi (ec_b c) ->
  exists t, wires_from ck (atom_l a) (atom_r a) d = Ok t /\
            length t = Z.to_nat (sel_hi (ec_b c) a - sel_lo (ec_b c) a + 1) /\ run_down d ck c (sel_hi (ec_b c) a) t.
Proof.
  intros Hc W H1 H2 H3. unfold wires_from, cable_bundle, run_down, ewire in *. rewrite Hc.
  set (b := ec_b c) in *. set (ws := map (pair ck) (b_items b)).
  assert (Lw : length ws = length (b_items b)) by apply map_length.
  assert (Nw : forall k, nth_error ws k = option_map (pair ck) (nth_error (b_items b) k)) by (intro k; apply nth_error_map).
  unfold sel_lo, sel_hi, b_hi in *.
  destruct (atom_l a) as [h|] eqn:EL; [destruct (atom_r a) as [l|] eqn:ER|].
  - (* part select *)
    destruct (get_range ws (b_lo b) l h H1 H2 ltac:(lia)) as (t & Ht & Hlen & Hn). rewrite Ht.
    exists t. split; [reflexivity|]. split; [exact Hlen|].
    intros j Hj.
    destruct (nth_error (b_items b) (Z.to_nat (h - Z.of_nat j - b_lo b))) as [o|] eqn:E.
    + exists o. split; [etransitivity; [exact (Hn j Hj)|rewrite Nw, E; reflexivity]|first [exact E|reflexivity]].
    + apply nth_error_None in E. lia.
  - (* bit select *)
    destruct (get_single ws (b_lo b) h H1 ltac:(lia)) as (w & Hw & Hg). rewrite Hg.
    exists [w]. split; [reflexivity|]. split; [cbn; lia|].
    intros j Hj. cbn in Hj. assert (j = O) by lia. subst j. rewrite Nw in Hw.
    replace (Z.to_nat (h - Z.of_nat 0 - b_lo b)) with (Z.to_nat (h - b_lo b)) by lia.
    destruct (nth_error (b_items b) (Z.to_nat (h - b_lo b))) as [o|] eqn:E; [|discriminate]. inversion Hw; subst.
    exists o. split; [reflexivity|]. first [exact E|reflexivity|idtac].
    all: try (replace (h - Z.of_nat 0 - b_lo b) with (h - b_lo b) by lia; first [exact E|reflexivity]).
  - (* whole cable *)
    assert (ER : atom_r a = None) by (destruct a; cbn in *; congruence). rewrite ER. cbn [get_wires].
    exists (rev ws). split; [reflexivity|]. split; [rewrite rev_length; lia|].
    intros j Hj. rewrite rev_length in Hj.
    destruct (nth_error (b_items b) (length ws - 1 - j)) as [o|] eqn:E.
    + exists o. split; [etransitivity; [apply nth_error_rev_lt; exact Hj|rewrite Nw, E; reflexivity]|].
      rewrite <- E. f_equal. lia.
    + apply nth_error_None in E. lia.
Qed.

(* ---------- record eta ---------- *)
Lemma set_cables_same d : set_cables d (ed_cables d) = d.
Proof. destruct d; reflexivity. Qed.
Lemma set_ports_same d : set_ports d (ed_ports d) = d.
Proof. destruct d; reflexivity. Qed.

Lemma nth_upd_id {A} k (f : A -> A) l : (forall x, nth_error l k = Some x -> f x = x) -> nth_upd k f l = l.
Proof.
  revert k. induction l as [|a l IH]; intros k H; destruct k; cbn; try reflexivity.
  - rewrite (H a eq_refl). reflexivity.
  - rewrite IH; [reflexivity|]. intros x Hx. apply H. exact Hx.
Qed.

(* ---------- the definition gains implied one-bit cables, nothing else changes ---------- *)
Definition scalar_b : bundle := new_bundle None None 0.

Record cables_ext (d d' : edef) : Prop := {
  ce_rest : d' = set_cables d (ed_cables d');
  ce_more : exists extra, ed_cables d' = ed_cables d ++ extra /\ Forall (fun c => ec_b c = scalar_b) extra }.

Lemma cables_ext_refl d : cables_ext d d.
Proof. constructor; [symmetry; apply set_cables_same|exists []; split; [rewrite app_nil_r; reflexivity|constructor]]. Qed.

Lemma cables_ext_trans a b c : cables_ext a b -> cables_ext b c -> cables_ext a c.
Proof.
  intros [R1 (e1 & M1 & F1)] [R2 (e2 & M2 & F2)]. constructor.
  - rewrite R2. rewrite R1 at 1. destruct a; reflexivity.
  - exists (e1 ++ e2). split; [rewrite M2, M1, app_assoc; reflexivity|apply Forall_app; split; assumption].
Qed.

Lemma cables_ext_fields d d' : cables_ext d d' ->
  ed_name d' = ed_name d /\ ed_ports d' = ed_ports d /\ ed_insts d' = ed_insts d /\ ed_conn d' = ed_conn d /\
  ed_lib d' = ed_lib d /\ ed_prim d' = ed_prim d /\ ed_params d' = ed_params d /\ ed_attrs d' = ed_attrs d.
Proof. intros [R _]. rewrite R. destruct d; cbn. repeat split. Qed.

Lemma wire_label_ext d d' w r : cables_ext d d' -> wire_label d w = Some r -> wire_label d' w = Some r.
Proof.
  intros [_ (ex & M & _)]. unfold wire_label. rewrite M.
  destruct (nth_error (ed_cables d) (fst w)) as [c|] eqn:E; [|discriminate].
  rewrite nth_error_app1 by (apply nth_error_Some; congruence). rewrite E. auto.
Qed.

Lemma crange_ext d d' n : cables_ext d d' ->
  (forall x, crange d n = Some x -> crange d' n = Some x) /\
  (crange d n = None -> crange d' n = None \/ crange d' n = Some (0, 1%nat)).
Proof.
  intros [_ (ex & M & F)]. unfold crange, find_cable. rewrite M. split.
  - intros x H. destruct (find_idx _ (ed_cables d)) as [k|] eqn:E; [|discriminate].
    rewrite (find_idx_app_some _ _ ex _ E). rewrite nth_error_app1 by (eapply find_idx_lt; exact E). exact H.
  - intro H. destruct (find_idx _ (ed_cables d)) as [k|] eqn:E.
    + destruct (find_idx_some _ _ _ E) as (c & Hc & _). rewrite Hc in H. discriminate.
    + destruct (find_idx (fun c => str_eqb (ec_name c) n) (ed_cables d ++ ex)) as [k|] eqn:E2; [|left; reflexivity].
      destruct (find_idx_some _ _ _ E2) as (c & Hc & Pc & _). rewrite Hc. right.
      destruct (Nat.lt_ge_cases k (length (ed_cables d))) as [Hl|Hl].
      * rewrite nth_error_app1 in Hc by exact Hl. rewrite (find_idx_none _ _ E c (nth_error_In _ _ Hc)) in Pc. discriminate.
      * rewrite nth_error_app2 in Hc by exact Hl. apply nth_error_In in Hc.
        rewrite (proj1 (Forall_forall _ _) F c Hc). reflexivity.
Qed.

Lemma datom_bits_ext d d' a : cables_ext d d' -> datom_typed (crange d) a -> datom_bits (crange d') a = datom_bits (crange d) a.
Proof.
  intros X [_ T]. unfold datom_bits. destruct (atom_l a) as [h|]; [reflexivity|].
  destruct (crange_ext d d' (atom_name a) X) as [S N].
  destruct (crange d (atom_name a)) as [[lo w]|] eqn:E.
  - rewrite (S _ eq_refl). reflexivity.
  - destruct (N eq_refl) as [E'|E']; rewrite E'; reflexivity.
Qed.

Lemma datom_typed_ext d d' a : cables_ext d d' -> datom_typed (crange d) a -> datom_typed (crange d') a.
Proof.
  intros X [G T]. split; [exact G|]. destruct (crange_ext d d' (atom_name a) X) as [S _].
  destruct (atom_l a) as [h|]; [|exact I]. destruct (atom_r a) as [l|].
  - destruct T as (lo & w & E & T). exists lo, w. split; [apply S; exact E|exact T].
  - destruct T as (lo & w & E & T). exists lo, w. split; [apply S; exact E|exact T].
Qed.

(* ---------- one atom ---------- *)
Lemma cou_cable_inside name l r d k c il iu : find_cable name d = Some k -> nth_error (ed_cables d) k = Some c ->
  in_range l r = Some (il, iu) -> b_lo (ec_b c) <= il -> iu <= b_hi (ec_b c) -> cou_cable name l r None false d = (d, k).
Proof.
  intros F C E H1 H2. unfold cou_cable. rewrite F. f_equal.
  rewrite nth_upd_id; [apply set_cables_same|].
  intros x Hx. rewrite C in Hx. inversion Hx; subst x.
  rewrite (update_cable_inside l r false (ec_b c) il iu E H1 H2) by discriminate. destruct c; reflexivity.
Qed.

Lemma cou_cable_whole name d k c : find_cable name d = Some k -> nth_error (ed_cables d) k = Some c ->
  cou_cable name None None None false d = (d, k).
Proof.
  intros F C. unfold cou_cable. rewrite F. f_equal. rewrite nth_upd_id; [apply set_cables_same|].
  intros x Hx. rewrite C in Hx. inversion Hx; subst x. rewrite update_cable_none. destruct c; reflexivity.
Qed.

Lemma atom_sel_cases a : (atom_l a = None /\ atom_r a = None) \/ (exists i, atom_l a = Some i /\ atom_r a = None) \/
                         (exists h l, atom_l a = Some h /\ atom_r a = Some l).
Proof. destruct a; cbn; [left; split; reflexivity|right; left; eexists; split; reflexivity|right; right; do 2 eexists; split; reflexivity|left; split; reflexivity]. Qed.

Theorem atom_wires_spec d a d' ws : DInv d -> datom_typed (crange d) a -> atom_wires a d = Ok (d', ws) ->
  cables_ext d d' /\ map (wire_label d') ws = map Some (rev (datom_bits (crange d) a)) /\ sort_desc (wire_key d') ws = ws.
Proof.
  intros DI [G T] H. unfold atom_wires, var_inst in H. rewrite G in H. cbn [bind] in H.
  unfold crange in T. unfold datom_bits, crange.
  destruct (find_cable (atom_name a) d) as [k|] eqn:F.
  - (* the cable exists *)
    destruct (find_idx_some _ _ _ F) as (c & C & Nc & _). apply str_eqb_spec in Nc. rewrite C in *.
    assert (W : wfb (ec_b c)) by (eapply (proj1 (Forall_forall _ _) (di_cables d DI)); eapply nth_error_In; exact C).
    assert (X : cou_cable (atom_name a) (atom_l a) (atom_r a) None false d = (d, k) /\
                b_lo (ec_b c) <= sel_lo (ec_b c) a /\ sel_lo (ec_b c) a <= sel_hi (ec_b c) a /\ sel_hi (ec_b c) a <= b_hi (ec_b c)).
    { unfold sel_lo, sel_hi, b_hi. destruct W as (Wn & _).
      destruct (atom_sel_cases a) as [[L R]|[(i & L & R)|(h & l & L & R)]]; rewrite L, R in *.
      - split; [eapply cou_cable_whole; eassumption|lia].
      - destruct T as (lo & w & E & T). inversion E; subst. split; [|lia].
        eapply cou_cable_inside; try eassumption; [reflexivity|lia|unfold b_hi; lia].
      - destruct T as (lo & w & E & T). inversion E; subst. split; [|lia].
        eapply cou_cable_inside; try eassumption; [cbn; rewrite Z.min_r, Z.max_l by lia; reflexivity|lia|unfold b_hi; lia]. }
    destruct X as (X & H1 & H2 & H3). rewrite X in H. cbn [bind] in H.
    destruct (wires_from_run d k c a C W H1 H2 H3) as (t & Ht & Hlen & Hr). rewrite Ht in H. cbn [bind] in H.
    inversion H; subst d' ws. split; [apply cables_ext_refl|].
    assert (Hlo : b_lo (ec_b c) <= sel_hi (ec_b c) a - Z.of_nat (length t) + 1) by (rewrite Hlen; lia).
    destruct (run_down_labels d k c _ t C W Hlo Hr) as (Lb & Srt). split; [|exact Srt].
    rewrite Lb. rewrite Hlen. replace (sel_hi (ec_b c) a - Z.of_nat (Z.to_nat (sel_hi (ec_b c) a - sel_lo (ec_b c) a + 1)) + 1) with (sel_lo (ec_b c) a) by lia.
    rewrite Nc. unfold sel_lo, sel_hi, b_hi.
    destruct (atom_sel_cases a) as [[L R]|[(i & L & R)|(h & l & L & R)]]; rewrite L, ?R.
    + rewrite <- map_rev, zup_rev, map_map. reflexivity.
    + rewrite zdown_single. reflexivity.
    + rewrite <- map_rev, zup_rev, map_map. reflexivity.
  - (* an implied one-bit net *)
    assert (L : atom_l a = None /\ atom_r a = None).
    { destruct (atom_sel_cases a) as [X|[(i & L & R)|(h & l & L & R)]]; [exact X| |]; rewrite L, ?R in T; destruct T as (lo & w & E & _); discriminate. }
    destruct L as [L R]. rewrite L, R in *.
    unfold cou_cable in H. rewrite F in H. cbn [bind] in H.
    set (c := {| ec_name := atom_name a; ec_b := new_bundle None None 0; ec_type := None; ec_attrs := [] |}) in *.
    set (d1 := set_cables d (ed_cables d ++ [c])) in *.
    assert (C : nth_error (ed_cables d1) (length (ed_cables d)) = Some c) by (cbn; apply nth_error_app_last).
    assert (Hw : wires_from (length (ed_cables d)) None None d1 = Ok [(length (ed_cables d), O)]).
    { unfold wires_from, cable_bundle. rewrite C. reflexivity. }
    rewrite Hw in H. cbn [bind] in H. inversion H; subst d' ws.
    split; [|split].
    + constructor; [destruct d; reflexivity|]. exists [c]. split; [reflexivity|constructor; [reflexivity|constructor]].
    + cbn. unfold wire_label. cbn [fst snd]. rewrite C. reflexivity.
    + reflexivity.
Qed.

Lemma labels_ext d d' ws (X : list bitref) : cables_ext d d' -> map (wire_label d) ws = map Some X -> map (wire_label d') ws = map Some X.
Proof.
  intro E. revert X. induction ws as [|w ws IH]; intros [|x X] H; cbn in *; try discriminate; [reflexivity|].
  injection H as H1 H2. rewrite (wire_label_ext d d' w x E H1). rewrite (IH X H2). reflexivity.
Qed.

Lemma flat_map_ext_in' {A B} (f g : A -> list B) l : (forall x, In x l -> f x = g x) -> flat_map f l = flat_map g l.
Proof.
  induction l as [|a l IH]; intro H; cbn; [reflexivity|]. rewrite (H a (or_introl eq_refl)), IH; [reflexivity|].
  intros x Hx. apply H. right. exact Hx.
Qed.

Theorem cat_wires_spec l : forall d d' ws, DInv d -> Forall (datom_typed (crange d)) l -> cat_wires l d = Ok (d', ws) ->
  cables_ext d d' /\ map (wire_label d') ws = map Some (flat_map (fun a => rev (datom_bits (crange d) a)) l).
Proof.
  induction l as [|a l IH]; intros d d' ws DI T H; cbn [cat_wires] in H.
  - inversion H; subst. split; [apply cables_ext_refl|reflexivity].
  - inversion T as [|? ? Ta Tl]; subst.
    apply bind_ok in H. destruct H as ([d1 w1] & H1 & H). apply bind_ok in H. destruct H as ([d2 w2] & H2 & H).
    inversion H; subst d' ws. clear H.
    destruct (atom_wires_spec d a d1 w1 DI Ta H1) as (E1 & L1 & S1).
    assert (DI1 : DInv d1) by (apply (ds_inv _ _ (atom_wires_dstep _ _ _ _ H1)); exact DI).
    assert (Tl1 : Forall (datom_typed (crange d1)) l).
    { apply Forall_forall. intros x Hx. eapply datom_typed_ext; [exact E1|]. eapply (proj1 (Forall_forall _ _) Tl). exact Hx. }
    destruct (IH d1 d2 w2 DI1 Tl1 H2) as (E2 & L2).
    split; [eapply cables_ext_trans; eassumption|].
    rewrite S1. cbn [flat_map]. rewrite !map_app. f_equal.
    + eapply labels_ext; eassumption.
    + rewrite L2. f_equal. apply flat_map_ext_in'. intros x Hx. f_equal.
      eapply datom_bits_ext; [exact E1|]. eapply (proj1 (Forall_forall _ _) Tl). exact Hx.
Qed.

Theorem expr_wires_spec d e d' ws : DInv d -> dexpr_typed (crange d) e -> expr_wires e d = Ok (d', ws) ->
  cables_ext d d' /\ map (wire_label d') ws = map Some (rev (dexpr_bits (crange d) e)).
Proof.
  intros DI T H. destruct e as [a|l]; cbn [expr_wires dexpr_bits dexpr_typed] in *.
  - destruct (atom_wires_spec d a d' ws DI T H) as (E & L & _). split; assumption.
  - destruct T as [Hne T]. destruct l as [|a0 l0]; [congruence|].
    destruct (cat_wires_spec _ d d' ws DI T H) as (E & L). split; [exact E|]. rewrite L. f_equal.
    rewrite rev_flat_map, rev_involutive. reflexivity.
Qed.
