(* Theorem (a) for the whole-file EDIF reader model: whatever s-expression (or token list, or text) is
   given, a result that is returned is well formed ([wf_core]): references resolve inside the result,
   every pin on a wire exists, no pin is on two wires, sibling identifiers are distinct
   case-insensitively, the top instance references a cell of the result; and fully well formed
   ([wf_file]): every instance has a reference, every port at least one pin. The token-level entry
   accepts exactly one balanced form: appended tokens and every proper prefix of an accepted file are
   refused ([elab_tokens_trailing], [elab_tokens_truncated]). Termination of the model is by
   construction (structural recursion on the children lists; no fuel anywhere). *)
From Coq Require Import String.
From Coq Require Import List NArith ZArith Bool Arith Lia Permutation.
From SV Require Import Base.Base Fmt.EdifLex Fmt.EdifName Fmt.EdifCable Fmt.EdifBus Fmt.EdifNets Fmt.EdifFile Fmt.EdifFileSpec
  Proofs.EdifNetsProofs Proofs.EdifFileNets.
Import ListNotations.

Ltac inv_res H :=
  repeat match type of H with
  | (match ?x with _ => _ end) = Ok _ => let E := fresh "E" in destruct x eqn:E; try discriminate H
  | (if ?x then _ else _) = Ok _ => let E := fresh "E" in destruct x eqn:E; try discriminate H
  end.

(* ---- loops ---- *)
Lemma loop_inv {S} (step : S -> str -> list sexp -> result S) ae (Q : S -> Prop) :
  (forall s k a s', Q s -> step s k a = Ok s' -> Q s') ->
  forall l s s', Q s -> loop step ae s l = Ok s' -> Q s'.
Proof.
  intros Hstep l. induction l as [|x l IH]; intros s s' Hs H; cbn in H.
  - now inversion H; subst.
  - destruct x as [a|a|[|[a|a|a] args]]; try discriminate.
    + destruct ae; [eauto|discriminate].
    + destruct (step s (lower a) args) eqn:E; [|discriminate]. eapply IH; [|eassumption]. eauto.
Qed.

(* ---- small facts ---- *)
Lemma pd_eqb_spec a b : pd_eqb a b = true <-> a = b.
Proof.
  destruct a, b; cbn; split; intro H; try discriminate; try congruence.
  - apply andb_true_iff in H as [H1 H2]. apply str_eqb_spec in H1. apply N.eqb_eq in H2. congruence.
  - inversion H; subst. now rewrite str_eqb_refl, N.eqb_refl.
  - apply andb_true_iff in H as [H1 H3]. apply andb_true_iff in H1 as [H1 H2].
    apply str_eqb_spec in H1. apply str_eqb_spec in H2. apply N.eqb_eq in H3. congruence.
  - inversion H; subst. now rewrite !str_eqb_refl, N.eqb_refl.
Qed.

Lemma wire_has_false p w : wire_has p w = false -> ~ In p w.
Proof.
  unfold wire_has. intros H Hin. assert (existsb (pd_eqb p) w = true); [|congruence].
  apply existsb_exists. exists p. split; auto. now apply pd_eqb_spec.
Qed.

Lemma pin_used_false p cabs : pin_used p cabs = false -> ~ In p (pins_of cabs).
Proof.
  unfold pin_used, pins_of. intros H Hin. apply in_flat_map in Hin as (e & He & Hp).
  unfold cab_pins in Hp. apply in_concat in Hp as (w & Hw & Hp).
  assert (existsb (fun e : entry pd => existsb (wire_has p) (c_wires (e_cab e))) cabs = true); [|congruence].
  apply existsb_exists. exists e. split; auto. apply existsb_exists. exists w. split; auto.
  unfold wire_has. apply existsb_exists. exists p. split; auto. now apply pd_eqb_spec.
Qed.

Lemma ident_taken_false i ids : ident_taken i ids = false -> ~ In (lower i) (map lower ids).
Proof.
  unfold ident_taken. intros H Hin. apply in_map_iff in Hin as (x & Hx & Hin).
  assert (existsb (ident_eqb i) ids = true); [|congruence].
  apply existsb_exists. exists x. split; auto. apply ident_eqb_spec. congruence.
Qed.

Lemma place_fresh names idents n nm : place names idents n = Ok nm -> ~ In (lower (nm_ident n)) (map lower idents).
Proof. unfold place. intro H. inv_res H; now apply ident_taken_false. Qed.

Lemma place_strict_fresh names idents n u : place_strict names idents n = Ok u -> ~ In (lower (nm_ident n)) (map lower idents).
Proof. unfold place_strict. intro H. inv_res H; now apply ident_taken_false. Qed.

Lemma distinct_ci_snoc l x : distinct_ci l -> ~ In (lower x) (map lower l) -> distinct_ci (l ++ [x]).
Proof. unfold distinct_ci. intros. rewrite map_app. cbn. now apply NoDup_app_snoc. Qed.

Lemma distinct_ci_nodup l : distinct_ci l -> NoDup l.
Proof. apply NoDup_map_inv. Qed.

Lemma py_index_bound z w k : py_index z w = Some k -> (k < w)%N.
Proof.
  unfold py_index. destruct (0 <=? z)%Z eqn:E1.
  - destruct (z <? Z.of_N w)%Z eqn:E2; [|discriminate]. intro H; inversion H; subst. lia.
  - destruct (- Z.of_N w <=? z)%Z eqn:E2; [|discriminate]. intro H; inversion H; subst. lia.
Qed.

Lemma resolve_port_bit ports pid z r : resolve_port ports pid z = Ok r -> port_bit ports (fst r) (snd r).
Proof.
  unfold resolve_port, find_port. destruct (find _ ports) as [p|] eqn:F; [|discriminate].
  destruct (py_index z (po_width p)) eqn:I; [|discriminate]. intro H; inversion H; subst; cbn.
  apply find_some in F as [Hin _]. exists p. repeat split; auto. eapply py_index_bound; eauto.
Qed.

(* ---- ports ---- *)
Lemma parse_port_fresh ports args p : parse_port ports args = Ok p ->
  ~ In (lower (po_ident p)) (map lower (map po_ident ports)).
Proof.
  unfold parse_port. intro H. destruct args as [|nd rest]; [discriminate|].
  destruct (parse_port_head nd) as [h|]; [|discriminate].
  destruct (loop port_step false (false, 0%N) rest) as [hd|]; [|discriminate].
  destruct (place_strict _ _ _) eqn:E; [|discriminate]. inversion H; subst; cbn.
  eapply place_strict_fresh; eauto.
Qed.

Lemma parse_interface_distinct x ports : parse_interface x = Ok ports -> distinct_ci (map po_ident ports).
Proof.
  unfold parse_interface. intro H. destruct x as [| |[|k items]]; try discriminate.
  destruct (is_kw "interface" k); [|discriminate].
  destruct (loop interface_step false ([], false) items) as [r|] eqn:L; [|discriminate].
  inversion H; subst.
  refine (loop_inv interface_step false (fun s => distinct_ci (map po_ident (fst s))) _ items ([], false) r _ L);
    [|constructor].
  intros s k' a s' Hs Hst. unfold interface_step in Hst. inv_res Hst; inversion Hst; subst; cbn; auto.
  rewrite map_app. cbn. apply distinct_ci_snoc; auto. eapply parse_port_fresh; eauto.
Qed.

(* ---- resolution ---- *)
Definition resolves (F : list nvlib) (li ci : str) (ports : list nvport) : Prop :=
  exists D, lookup_cell F li ci = Some D /\ ce_ports D = ports.

Definition ctx_resolves (cx : ctx) (li ci : str) (ports : list nvport) : Prop :=
  (li = cx_lib cx /\ ci = cx_cell cx /\ ports = cx_ports cx) \/
  (li = cx_lib cx /\ exists C, In C (cx_cells cx) /\ ce_ident C = ci /\ ce_ports C = ports) \/
  (exists L C, In L (cx_libs cx) /\ li_ident L = li /\ In C (li_cells L) /\ ce_ident C = ci /\ ce_ports C = ports).

Definition env_ok (F : list nvlib) (cx : ctx) : Prop :=
  forall li ci ports, ctx_resolves cx li ci ports -> resolves F li ci ports.

Lemma resolve_lib_spec cx lr r : resolve_lib cx lr = Ok r ->
  (fst r = cx_lib cx /\ snd r = cx_cells cx) \/ (exists L, In L (cx_libs cx) /\ fst r = li_ident L /\ snd r = li_cells L).
Proof.
  unfold resolve_lib. intro H. destruct lr as [x|].
  - destruct (ident_eqb (cx_lib cx) x); [inversion H; subst; auto|].
    unfold find_lib in H. destruct (find _ (cx_libs cx)) as [L|] eqn:F; [|discriminate].
    inversion H; subst. right. exists L. apply find_some in F as [Hin _]. auto.
  - inversion H; subst; auto.
Qed.

Lemma parse_viewref_resolves cx args v : parse_viewref cx args = Ok v ->
  ctx_resolves cx (fst (fst v)) (snd (fst v)) (snd v).
Proof.
  unfold parse_viewref. intro H.
  destruct args as [|vr [|x [|? ?]]]; try discriminate.
  - destruct (parse_nameref vr); [|discriminate]. destruct (ident_eqb _ _); [|discriminate].
    inversion H; subst; cbn. left. auto.
  - destruct x as [| |[|k [|cr lrs]]]; try discriminate.
    destruct (parse_nameref vr); [|discriminate]. destruct (negb _); [discriminate|].
    destruct (parse_nameref cr) as [c|]; [|discriminate].
    destruct (match lrs with [] => Ok None | _ => _ end) as [lr|]; [|discriminate].
    destruct (resolve_lib cx lr) as [lc|] eqn:R; [|discriminate].
    unfold find_cell in H. destruct (find _ (snd lc)) as [C|] eqn:F; [|discriminate].
    destruct (view_ok _ _); [|discriminate]. inversion H; subst; cbn.
    apply find_some in F as [Hin _].
    apply resolve_lib_spec in R as [[R1 R2]|(L & HL & R1 & R2)]; right.
    + left. split; auto. exists C. rewrite <- R2. auto.
    + right. exists L, C. rewrite <- R2. auto.
  - destruct x as [| |[|? [|? ?]]]; discriminate.
Qed.

(* ---- instances ---- *)
Definition einst_ok (F : list nvlib) (ip : einst) : Prop :=
  forall li ci, in_ref (fst ip) = Some (li, ci) -> resolves F li ci (snd ip).

Definition eids (insts : list einst) : list str := map (fun ip : einst => in_ident (fst ip)) insts.

Lemma parse_instance_ok F cx insts args ip : env_ok F cx -> parse_instance cx insts args = Ok ip ->
  einst_ok F ip /\ ~ In (lower (in_ident (fst ip))) (map lower (eids insts)).
Proof.
  intros He H. unfold parse_instance in H. destruct args as [|nd rest]; [discriminate|].
  destruct (parse_elemname nd) as [n|]; [|discriminate].
  match type of H with (match ?X with _ => _ end) = _ => destruct X as [r|] eqn:R; [|discriminate] end.
  destruct (loop inst_step false [] (snd r)); [|discriminate].
  destruct (place _ _ n) eqn:Pl; [|discriminate]. inversion H; subst; cbn. split.
  - intros li ci Hr. cbn in Hr.
    destruct rest as [|x rest']; [inversion R; subst; discriminate|].
    destruct x as [?|?|[|[k|?|?] vargs]]; try (inversion R; subst; discriminate).
    destruct (kweq (lower k) "viewref"); [|destruct (kweq (lower k) "viewlist"); discriminate].
    destruct (parse_viewref cx vargs) as [v|] eqn:V; [|discriminate]. inversion R; subst; cbn in *.
    inversion Hr; subst. apply parse_viewref_resolves in V. apply He. destruct v as [[? ?] ?]; cbn in *. now inversion H1; subst.
  - eapply place_fresh. exact Pl.
Qed.

(* ---- pins ---- *)
Definition epin_ok (ports : list nvport) (insts : list einst) (p : pd) : Prop :=
  match p with
  | PTop pi k => port_bit ports pi k
  | PInst ii pi k => exists ip, In ip insts /\ in_ident (fst ip) = ii /\ in_ref (fst ip) <> None /\ port_bit (snd ip) pi k
  end.

Lemma epin_ok_incl ports insts insts' p : incl insts insts' -> epin_ok ports insts p -> epin_ok ports insts' p.
Proof. destruct p; cbn; auto. intros Hi (ip & H1 & H2). exists ip. split; auto. Qed.

Lemma parse_portref_ok cx insts args p : parse_portref cx insts args = Ok p -> epin_ok (cx_ports cx) insts p.
Proof.
  unfold parse_portref. intro H. destruct args as [|tgt rest]; [discriminate|].
  destruct (parse_portref_target tgt) as [t|]; [|discriminate].
  destruct (loop (portref_step insts) true None rest) as [ti|] eqn:L; [|discriminate].
  assert (Hti : match ti with Some ip => In ip insts | None => True end).
  { refine (loop_inv (portref_step insts) true (fun o => match o with Some ip => In ip insts | None => True end) _ rest None ti _ L); [|exact I].
    intros s k a s' _ Hst. unfold portref_step in Hst. inv_res Hst; inversion Hst; subst.
    unfold find_inst in *. match goal with F : find _ insts = Some _ |- _ => apply find_some in F as [? _] end. assumption. }
  destruct ti as [ip|].
  - destruct (in_ref (fst ip)) eqn:R; [|discriminate].
    destruct (resolve_port (snd ip) (fst t) (snd t)) as [r|] eqn:RP; [|discriminate]. inversion H; subst; cbn.
    exists ip. repeat split; auto; [congruence|]. eapply resolve_port_bit; eauto.
  - destruct (resolve_port (cx_ports cx) (fst t) (snd t)) as [r|] eqn:RP; [|discriminate]. inversion H; subst; cbn.
    eapply resolve_port_bit; eauto.
Qed.

(* ---- nets ---- *)
Lemma NoDup_app_intro {A} (a b : list A) : NoDup a -> NoDup b -> (forall x, In x a -> In x b -> False) -> NoDup (a ++ b).
Proof.
  intros Ha Hb Hd. induction a as [|x a IH]; cbn; auto.
  inversion Ha; subst. constructor.
  - intro H. apply in_app_or in H as [H|H]; [tauto|]. eapply Hd; [left; reflexivity|exact H].
  - apply IH; auto. intros y Hy. apply Hd. now right.
Qed.

Lemma pins_of_spins cabs : pins_of cabs = spins cabs.
Proof. reflexivity. Qed.

Record cinv (F : list nvlib) (ports : list nvport) (s : cst) : Prop := mk_cinv {
  cv_inst : Forall (einst_ok F) (cs_insts s);
  cv_ids : distinct_ci (eids (cs_insts s));
  cv_sinv : sinv (cs_cabs s);
  cv_pins : Forall (epin_ok ports (cs_insts s)) (pins_of (cs_cabs s));
  cv_once : NoDup (pins_of (cs_cabs s)) }.

Lemma joined_ok cx insts cabs jargs w : loop (joined_step cx insts cabs) false [] jargs = Ok w ->
  Forall (epin_ok (cx_ports cx) insts) w /\ NoDup w /\ (forall p, In p w -> ~ In p (pins_of cabs)).
Proof.
  intro L.
  refine (loop_inv (joined_step cx insts cabs) false
            (fun w => Forall (epin_ok (cx_ports cx) insts) w /\ NoDup w /\ (forall p, In p w -> ~ In p (pins_of cabs)))
            _ jargs [] w _ L).
  - intros s k a s' (H1 & H2 & H3) Hst. unfold joined_step in Hst.
    destruct (kweq k "portref"); [|inv_res Hst].
    destruct (parse_portref cx insts a) as [p|] eqn:PP; [|discriminate].
    destruct (pin_used p cabs || wire_has p s) eqn:U; [discriminate|]. inversion Hst; subst.
    apply orb_false_iff in U as [U1 U2]. apply pin_used_false in U1. apply wire_has_false in U2.
    repeat split.
    + apply Forall_app. split; auto. constructor; [|constructor]. eapply parse_portref_ok; eauto.
    + apply NoDup_app_snoc; auto.
    + intros q Hq. apply in_app_or in Hq as [Hq|[<-|[]]]; auto.
  - repeat split; [constructor|constructor|intros ? []].
Qed.

Lemma parse_net_ok F cx s args cabs' : cinv F (cx_ports cx) s ->
  parse_net cx (cs_insts s) (cs_cabs s) args = Ok cabs' -> cinv F (cx_ports cx) (mkcst (cs_insts s) cabs').
Proof.
  intros [Hi Hd Hs Hp Ho] H. unfold parse_net in H.
  destruct args as [|nd [|x rest]]; try discriminate.
  destruct x as [| |[|j jargs]]; try discriminate.
  destruct (parse_elemname nd) as [n|]; [|discriminate].
  destruct (negb _); [discriminate|].
  destruct (loop (joined_step cx (cs_insts s) (cs_cabs s)) false [] jargs) as [w|] eqn:J; [|discriminate].
  destruct (loop net_step false tt rest); [|discriminate].
  destruct (big_index _ _); [discriminate|].
  destruct (read_net (cs_cabs s) (nm_ident n, nm_name n, w)) as [c'|] eqn:R; [|discriminate].
  inversion H; subst. apply joined_ok in J as (J1 & J2 & J3).
  apply read_net_inv in R as [R1 R2]; auto.
  assert (Hperm : Permutation (pins_of cabs') (pins_of (cs_cabs s) ++ w)) by exact R2.
  constructor; cbn; auto.
  - eapply Permutation_Forall; [symmetry; exact Hperm|]. apply Forall_app. auto.
  - eapply Permutation_NoDup; [symmetry; exact Hperm|].
    apply NoDup_app_intro; auto. intros p Hp1 Hp2. eapply J3; eauto.
Qed.

(* ---- contents ---- *)
Lemma sinv_nil : sinv (@nil (entry pd)).
Proof. split; cbn; [constructor|constructor|intros ? []]. Qed.

Lemma cinv_nil F ports : cinv F ports (mkcst [] []).
Proof. constructor; cbn; try (now constructor). apply sinv_nil. Qed.

Lemma contents_step_ok F cx s k a s' : env_ok F cx -> cinv F (cx_ports cx) s ->
  contents_step cx s k a = Ok s' -> cinv F (cx_ports cx) s'.
Proof.
  intros He Hc H. unfold contents_step in H.
  destruct (kweq k "instance").
  { destruct (parse_instance cx (cs_insts s) a) as [ip|] eqn:PI; [|discriminate]. inversion H; subst.
    destruct (parse_instance_ok F cx _ _ _ He PI) as [Hok Hfresh]. destruct Hc as [Hi Hd Hs Hp Ho].
    constructor; cbn; auto.
    - apply Forall_app. split; auto.
    - unfold eids. rewrite map_app. cbn. apply distinct_ci_snoc; auto.
    - eapply Forall_impl; [|exact Hp]. intros p. apply epin_ok_incl. apply incl_appl, incl_refl. }
  destruct (kweq k "net").
  { destruct (parse_net cx (cs_insts s) (cs_cabs s) a) as [c'|] eqn:PN; [|discriminate]. inversion H; subst.
    eapply parse_net_ok; eauto. }
  inv_res H; inversion H; subst; auto.
Qed.

Lemma parse_view_ok libs lib cells cell args v : parse_view libs lib cells cell args = Ok v ->
  distinct_ci (map po_ident (snd (fst v))) /\
  forall F, env_ok F (mkctx libs lib cells cell (fst (fst v)) (snd (fst v))) -> cinv F (snd (fst v)) (snd v).
Proof.
  unfold parse_view. intro H. destruct args as [|nd [|vt [|itf rest]]]; try discriminate.
  destruct (parse_namedef nd) as [n|]; [|discriminate]. destruct (chk_viewtype vt); [|discriminate].
  destruct (parse_interface itf) as [ports|] eqn:PI; [|discriminate].
  destruct (loop _ false (false, None) rest) as [r|] eqn:L; [|discriminate].
  inversion H; subst; cbn. split; [eapply parse_interface_distinct; eauto|]. intros F He.
  set (cx := mkctx libs lib cells cell (nm_ident n) ports) in *.
  assert (Q : match snd r with Some c => cinv F ports c | None => True end).
  { refine (loop_inv (view_step cx) false (fun s => match snd s with Some c => cinv F ports c | None => True end) _ rest (false, None) r _ L); [|exact I].
    intros st kk aa st' Hs Hst. unfold view_step in Hst.
    destruct (kweq kk "status"). { inv_res Hst; inversion Hst; subst; auto. }
    destruct (kweq kk "contents").
    { destruct (snd st); [discriminate|].
      destruct (loop (contents_step cx) false (mkcst [] []) aa) as [c|] eqn:LC; [|discriminate]. inversion Hst; subst; cbn.
      refine (loop_inv (contents_step cx) false (cinv F ports) _ aa (mkcst [] []) c _ LC); [|apply cinv_nil].
      intros. eapply (contents_step_ok F cx); eauto. }
    inv_res Hst; inversion Hst; subst; auto. }
  destruct (snd r); [exact Q|apply cinv_nil].
Qed.

(* ---- cells ---- *)
Definition cell_good (libs : list nvlib) (lib : str) (cells : list nvcell) (C : nvcell) : Prop :=
  forall F, env_ok F (mkctx libs lib cells (ce_ident C) [] (ce_ports C)) -> wf_ncell F C.

Lemma env_ok_view F libs lib cells cell v v' ports :
  env_ok F (mkctx libs lib cells cell v ports) -> env_ok F (mkctx libs lib cells cell v' ports).
Proof. intros H li ci ps Hr. apply H. exact Hr. Qed.

Lemma cinv_wf_ncell F name ident view ports c : distinct_ci (map po_ident ports) -> cinv F ports c ->
  wf_ncell F (mkcell name ident view ports (map fst (cs_insts c)) (cs_cabs c)).
Proof.
  intros Hp [Hi Hd Hs Hpins Ho]. constructor; cbn; auto.
  - intros I li ci HI Hr. apply in_map_iff in HI as (ip & <- & Hip).
    rewrite Forall_forall in Hi. destruct (Hi ip Hip li ci Hr) as (D & HD & _). eauto.
  - intros p Hin. unfold cell_pins in Hin; cbn in Hin. rewrite Forall_forall in Hpins. specialize (Hpins p Hin).
    destruct p as [pi k|ii pi k]; cbn in *; auto.
    destruct Hpins as (ip & Hip & Hid & Hr & Hb).
    destruct (in_ref (fst ip)) as [[li ci]|] eqn:R; [|congruence].
    rewrite Forall_forall in Hi. destruct (Hi ip Hip li ci R) as (D & HD & HP).
    exists (fst ip), li, ci, D. repeat split; auto; [now apply in_map|]. now rewrite HP.
  - unfold eids in Hd. now rewrite map_map.
  - destruct Hs as [_ Hids _]. unfold distinct_ci. now rewrite map_map.
Qed.

Lemma wf_ncell_empty F name ident : wf_ncell F (mkcell name ident None [] [] []).
Proof. constructor; cbn; try constructor; intros; contradiction. Qed.

Lemma parse_cell_ok libs lib cells args C : parse_cell libs lib cells args = Ok C ->
  ~ In (lower (ce_ident C)) (map lower (map ce_ident cells)) /\ cell_good libs lib cells C.
Proof.
  unfold parse_cell. intro H. destruct args as [|nd [|ct rest]]; try discriminate.
  destruct (parse_elemname nd) as [n|]; [|discriminate]. destruct (chk_celltype ct); [|discriminate].
  destruct (loop _ false (false, None) rest) as [r|] eqn:L; [|discriminate].
  destruct (place _ _ n) as [name|] eqn:Pl; [|discriminate]. inversion H; subst; clear H.
  assert (Q : match snd r with
              | Some v => distinct_ci (map po_ident (snd (fst v))) /\
                          forall F, env_ok F (mkctx libs lib cells (nm_ident n) (fst (fst v)) (snd (fst v))) -> cinv F (snd (fst v)) (snd v)
              | None => True end).
  { refine (loop_inv (cell_step libs lib cells (nm_ident n)) false
              (fun s => match snd s with
                        | Some v => distinct_ci (map po_ident (snd (fst v))) /\
                                    forall F, env_ok F (mkctx libs lib cells (nm_ident n) (fst (fst v)) (snd (fst v))) -> cinv F (snd (fst v)) (snd v)
                        | None => True end) _ rest (false, None) r _ L); [|exact I].
    intros st kk aa st' Hs Hst. unfold cell_step in Hst.
    destruct (kweq kk "status"). { inv_res Hst; inversion Hst; subst; auto. }
    destruct (kweq kk "view").
    { destruct (snd st); [discriminate|].
      destruct (parse_view libs lib cells (nm_ident n) aa) as [v|] eqn:PV; [|discriminate]. inversion Hst; subst; cbn.
      eapply parse_view_ok; eauto. }
    inv_res Hst; inversion Hst; subst; auto. }
  split.
  - destruct (snd r); cbn; eapply place_fresh; eauto.
  - destruct (snd r) as [v|]; intros F He; cbn in *.
    + destruct Q as [Q1 Q2]. apply cinv_wf_ncell; [exact Q1|]. apply Q2. eapply env_ok_view; eauto.
    + apply wf_ncell_empty.
Qed.

(* ---- libraries ---- *)
Definition cells_good (libs : list nvlib) (lib : str) (cells : list nvcell) : Prop :=
  distinct_ci (map ce_ident cells) /\
  forall pre C post, cells = pre ++ C :: post -> cell_good libs lib pre C.

Lemma snoc_split {A} (l : list A) x pre y post : l ++ [x] = pre ++ y :: post ->
  (pre = l /\ y = x /\ post = []) \/ exists post', post = post' ++ [x] /\ l = pre ++ y :: post'.
Proof.
  induction post as [|z post _] using rev_ind; intro H.
  - apply app_inj_tail in H as [-> ->]. auto.
  - right. exists post.
    change (pre ++ y :: post ++ [z]) with (pre ++ (y :: post) ++ [z]) in H.
    rewrite app_assoc in H. apply app_inj_tail in H as [-> ->]. split; reflexivity.
Qed.

Lemma cells_good_nil libs lib : cells_good libs lib [].
Proof. split; [constructor|]. intros [|? ?] ? ? H; discriminate. Qed.

Lemma cells_good_snoc libs lib cells C : cells_good libs lib cells ->
  ~ In (lower (ce_ident C)) (map lower (map ce_ident cells)) -> cell_good libs lib cells C ->
  cells_good libs lib (cells ++ [C]).
Proof.
  intros [Hd Hg] Hf HC. split.
  - rewrite map_app. cbn. now apply distinct_ci_snoc.
  - intros pre X post Hs. apply snoc_split in Hs as [(-> & -> & ->)|(post' & -> & ->)]; auto.
    eapply Hg. reflexivity.
Qed.

Lemma parse_library_ok libs args L : parse_library libs args = Ok L ->
  ~ In (lower (li_ident L)) (map lower (map li_ident libs)) /\ cells_good libs (li_ident L) (li_cells L).
Proof.
  unfold parse_library. intro H. destruct args as [|nd [|el [|tech rest]]]; try discriminate.
  destruct (parse_elemname nd) as [n|]; [|discriminate]. destruct (chk_int_form _ _ el); [|discriminate].
  destruct (chk_technology tech); [|discriminate].
  destruct (loop _ false (false, []) rest) as [r|] eqn:Lp; [|discriminate].
  destruct (place_strict _ _ n) eqn:Pl; [|discriminate]. inversion H; subst; cbn. split.
  - eapply place_strict_fresh; eauto.
  - refine (loop_inv (lib_step libs (nm_ident n)) false (fun s => cells_good libs (nm_ident n) (snd s)) _ rest (false, []) r _ Lp);
      [|apply cells_good_nil].
    intros st kk aa st' Hs Hst. unfold lib_step in Hst.
    destruct (kweq kk "status"). { inv_res Hst; inversion Hst; subst; auto. }
    destruct (kweq kk "cell").
    { destruct (parse_cell libs (nm_ident n) (snd st) aa) as [C|] eqn:PC; [|discriminate]. inversion Hst; subst; cbn.
      apply parse_cell_ok in PC as [P1 P2]. now apply cells_good_snoc. }
    inv_res Hst; inversion Hst; subst; auto.
Qed.

(* ---- the file ---- *)
Definition libs_good (libs : list nvlib) : Prop :=
  distinct_ci (map li_ident libs) /\
  forall pre L post, libs = pre ++ L :: post -> cells_good pre (li_ident L) (li_cells L).

Lemma libs_good_nil : libs_good [].
Proof. split; [constructor|]. intros [|? ?] ? ? H; discriminate. Qed.

Lemma libs_good_snoc libs L : libs_good libs -> ~ In (lower (li_ident L)) (map lower (map li_ident libs)) ->
  cells_good libs (li_ident L) (li_cells L) -> libs_good (libs ++ [L]).
Proof.
  intros [Hd Hg] Hf HL. split.
  - rewrite map_app. cbn. now apply distinct_ci_snoc.
  - intros pre X post Hs. apply snoc_split in Hs as [(-> & -> & ->)|(post' & -> & ->)]; auto.
    eapply Hg. reflexivity.
Qed.

Lemma find_unique {A} (f : A -> str) (l : list A) x : NoDup (map f l) -> In x l ->
  find (fun y => str_eqb (f y) (f x)) l = Some x.
Proof.
  induction l as [|y l IH]; cbn; [tauto|]. intros Hnd [->|Hin].
  - now rewrite str_eqb_refl.
  - inversion Hnd as [|? ? Hy Hnd']; subst. destruct (str_eqb (f y) (f x)) eqn:E; auto.
    apply str_eqb_spec in E. exfalso. apply Hy. rewrite E. now apply in_map.
Qed.

Lemma lookup_cell_in F L C : NoDup (map li_ident F) -> NoDup (map ce_ident (li_cells L)) ->
  In L F -> In C (li_cells L) -> lookup_cell F (li_ident L) (ce_ident C) = Some C.
Proof.
  intros H1 H2 HL HC. unfold lookup_cell.
  rewrite (find_unique li_ident F L H1 HL). apply (find_unique ce_ident _ C H2 HC).
Qed.

Lemma libs_good_cells F L : libs_good F -> In L F -> distinct_ci (map ce_ident (li_cells L)).
Proof.
  intros [_ Hg] HL. apply in_split in HL as (pre & post & ->). destruct (Hg pre L post eq_refl) as [Hd _]. exact Hd.
Qed.

Lemma libs_good_wf F L C : libs_good F -> In L F -> In C (li_cells L) -> wf_ncell F C.
Proof.
  intros HF HL HC. pose proof HF as [Hd Hg].
  destruct (in_split _ _ HL) as (pre & post & HFeq). destruct (Hg pre L post HFeq) as [Hcd Hcg].
  destruct (in_split _ _ HC) as (cpre & cpost & HCeq). apply (Hcg cpre C cpost HCeq).
  assert (NDL : NoDup (map li_ident F)) by (apply distinct_ci_nodup; exact Hd).
  assert (NDC : forall L', In L' F -> NoDup (map ce_ident (li_cells L'))).
  { intros L' HL'. apply distinct_ci_nodup. eapply libs_good_cells; eauto. }
  intros li ci ports [(-> & -> & ->)|[(-> & C' & HC' & <- & <-)|(L' & C' & HL' & <- & HC' & <- & <-)]]; cbn in *.
  - exists C. split; auto. apply lookup_cell_in; auto.
  - assert (In C' (li_cells L)) by (rewrite HCeq; apply in_or_app; now left).
    exists C'. split; auto. apply lookup_cell_in; auto.
  - assert (In L' F) by (rewrite HFeq; apply in_or_app; now left).
    exists C'. split; auto. apply lookup_cell_in; auto.
Qed.

(* the cell named by the design construct, as membership (stable when libraries are added later) *)
Definition top_in (libs : list nvlib) (t : nvtop) : Prop :=
  exists L C, In L libs /\ In C (li_cells L) /\ tp_lib t = li_ident L /\ tp_cell t = ce_ident C.

Lemma parse_design_ok libs args t : parse_design libs args = Ok t -> top_in libs t.
Proof.
  intro H. unfold parse_design in H.
  destruct args as [|nd [|x ?]]; try discriminate.
  destruct x as [| |[|k1 [|cr [|[| |[|k2 [|lr [|]]]] [|]]]]]; try discriminate.
  destruct (parse_elemname nd) as [n|]; [|discriminate].
  destruct (negb (is_kw "cellref" k1)); [discriminate|].
  destruct (parse_nameref cr) as [x|]; [|discriminate].
  destruct (negb (is_kw "libraryref" k2)); [discriminate|].
  destruct (parse_nameref lr) as [y|]; [|discriminate].
  unfold find_lib, find_cell in H.
  destruct (find _ libs) as [L|] eqn:FL; [|discriminate].
  destruct (find _ (li_cells L)) as [C|] eqn:FC; [|discriminate].
  inversion H; subst; cbn.
  apply find_some in FL as [HL _]. apply find_some in FC as [HC _].
  exists L, C. auto.
Qed.

Lemma top_in_app libs more t : top_in libs t -> top_in (libs ++ more) t.
Proof. intros (L & C & HL & HC & E1 & E2). exists L, C. repeat split; auto. apply in_or_app. now left. Qed.

Lemma top_in_lookup libs t : libs_good libs -> top_in libs t ->
  exists D, lookup_cell libs (tp_lib t) (tp_cell t) = Some D.
Proof.
  intros HF (L & C & HL & HC & -> & ->). exists C. apply lookup_cell_in; auto.
  - apply distinct_ci_nodup. apply HF.
  - apply distinct_ci_nodup. eapply libs_good_cells; eauto.
Qed.

Definition body_good (s : bst) : Prop :=
  libs_good (bs_libs s) /\ forall t, bs_top s = Some t -> top_in (bs_libs s) t.

Lemma body_step_ok s k a s' : body_good s -> body_step s k a = Ok s' -> body_good s'.
Proof.
  intros [HF HT] H. unfold body_step in H.
  destruct (kweq k "status").
  { destruct (bs_status s); [discriminate|]. destruct (chk_status a); [|discriminate]. inversion H; subst. split; auto. }
  destruct (_ || _).
  { destruct (parse_library (bs_libs s) a) as [L|] eqn:PL; [|discriminate]. inversion H; subst; cbn.
    apply parse_library_ok in PL as [P1 P2]. split; [now apply libs_good_snoc|].
    intros t Ht. apply top_in_app. auto. }
  destruct (kweq k "design").
  { destruct (bs_top s); [discriminate|].
    destruct (parse_design (bs_libs s) a) as [t|] eqn:PD; [|discriminate]. inversion H; subst; cbn. split; auto.
    intros t' Ht. inversion Ht; subst. eapply parse_design_ok; eauto. }
  destruct (kweq k "comment").
  { destruct (chk_comment a); [|discriminate]. inversion H; subst. split; auto. }
  destruct (kweq k "userdata"); discriminate.
Qed.

Lemma body_ok l r : body l = Ok r -> body_good r.
Proof.
  unfold body. intro H.
  refine (loop_inv body_step false body_good _ l _ r _ H).
  - intros. eapply body_step_ok; eauto.
  - split; [apply libs_good_nil|]. discriminate.
Qed.

Theorem elab_file_wf_core d n : elab_file d = Ok n -> wf_core n.
Proof.
  unfold elab_file. intro H. destruct (negb (atoms_ascii d)); [discriminate|].
  destruct d as [| |[|e [|nd [|ver [|lvl [|km items]]]]]]; try discriminate.
  destruct (negb _); [discriminate|]. destruct (parse_elemname nd) as [n0|]; [|discriminate].
  destruct (chk_int_form _ _ ver); [|discriminate]. destruct (chk_int_form _ _ lvl); [|discriminate].
  destruct (chk_keywordmap km); [|discriminate].
  destruct (body items) as [b|] eqn:B; [|discriminate]. inversion H; subst; cbn.
  apply body_ok in B as [B1 B2].
  constructor; cbn.
  - apply B1.
  - intros L HL. eapply libs_good_cells; eauto.
  - intros L C HL HC. eapply libs_good_wf; eauto.
  - intros t Ht. apply top_in_lookup; auto.
Qed.

Lemma elab_tokens_file toks n : elab_tokens toks = Ok n ->
  exists d, read_first toks = Some (d, O, []) /\ elab_file d = Ok n.
Proof.
  unfold elab_tokens. destruct (read_first toks) as [[[d m] rest]|]; [|discriminate].
  destruct (elab_file d) as [r|] eqn:E; [|discriminate].
  destruct m as [|m]; cbn; [|discriminate]. destruct rest; [|discriminate]. intro H; inversion H; subst. eauto.
Qed.

Theorem elab_tokens_wf_core toks n : elab_tokens toks = Ok n -> wf_core n.
Proof. intro H. apply elab_tokens_file in H as (d & _ & H). eapply elab_file_wf_core; eauto. Qed.

Theorem elab_text_wf_core s n : elab_text s = Ok n -> wf_core n.
Proof. apply elab_tokens_wf_core. Qed.

(* ---- every instance is referenced, every port has a pin ---- *)
Lemma all_referencedb_spec n : all_referencedb n = true -> all_referenced n.
Proof.
  unfold all_referencedb, all_referenced. intros H L C I HL HC HI.
  rewrite forallb_forall in H. specialize (H L HL). rewrite forallb_forall in H. specialize (H C HC).
  rewrite forallb_forall in H. specialize (H I HI). destruct (in_ref I); [discriminate|discriminate].
Qed.

Definition port_ne (P : nvport) : Prop := (1 <= po_width P)%N.
Definition einst_refd (ip : einst) : Prop := in_ref (fst ip) <> None.
Definition cell_full (C : nvcell) : Prop :=
  Forall port_ne (ce_ports C) /\ Forall (fun I => in_ref I <> None) (ce_insts C).

Lemma parse_port_ne ports args p : parse_port ports args = Ok p -> port_ne p.
Proof.
  unfold parse_port. intro H. destruct args as [|nd rest]; [discriminate|].
  destruct (parse_port_head nd) as [h|] eqn:Hh; [|discriminate].
  destruct (loop port_step false (false, 0%N) rest) as [hd|]; [|discriminate].
  destruct (place_strict _ _ _) as [u|]; [|discriminate]. inversion H; subst; unfold port_ne; cbn. clear H.
  unfold parse_port_head in Hh. destruct nd as [tk|s|[|k l]]; try discriminate.
  - destruct (parse_elemname (Atom tk)); [|discriminate]. inversion Hh; subst; cbn. lia.
  - destruct (is_kw "rename" k).
    + destruct (parse_rename (k :: l)); [|discriminate]. destruct (legal _); [|discriminate]. inversion Hh; subst; cbn. lia.
    + destruct (is_kw "array" k); [|discriminate].
      destruct l as [|nd' [|[tz| |] [|]]]; try discriminate.
      destruct (parse_elemname nd'); [|discriminate]. destruct (int_tok tz) as [z|]; [|discriminate].
      destruct (max_bits <? z)%Z; [discriminate|]. destruct (z <? 1)%Z eqn:Ez; [discriminate|].
      inversion Hh; subst; cbn. apply Z.ltb_ge in Ez. lia.
Qed.

Lemma parse_interface_ne x ports : parse_interface x = Ok ports -> Forall port_ne ports.
Proof.
  unfold parse_interface. intro H. destruct x as [| |[|k items]]; try discriminate.
  destruct (is_kw "interface" k); [|discriminate].
  destruct (loop interface_step false ([], false) items) as [r|] eqn:L; [|discriminate].
  inversion H; subst.
  refine (loop_inv interface_step false (fun s => Forall port_ne (fst s)) _ items ([], false) r _ L); [|constructor].
  intros s k' a s' Hs Hst. unfold interface_step in Hst.
  destruct (kweq k' "port").
  { destruct (parse_port (fst s) a) as [p|] eqn:PP; [|discriminate]. inversion Hst; subst; cbn.
    apply Forall_app. split; auto. constructor; [|constructor]. eapply parse_port_ne; eauto. }
  inv_res Hst; inversion Hst; subst; cbn; auto.
Qed.

Lemma parse_instance_refd cx insts args ip : parse_instance cx insts args = Ok ip -> einst_refd ip.
Proof.
  unfold parse_instance. intro H. destruct args as [|nd rest]; [discriminate|].
  destruct (parse_elemname nd) as [n|]; [|discriminate].
  match type of H with (match ?X with _ => _ end) = _ => destruct X as [r|] eqn:R; [|discriminate] end.
  destruct (loop inst_step false [] (snd r)); [|discriminate].
  destruct (place _ _ n); [|discriminate]. inversion H; subst; unfold einst_refd; cbn. clear H.
  destruct rest as [|x rest']; [discriminate|].
  destruct x as [?|?|[|[k|?|?] vargs]]; try discriminate.
  destruct (kweq (lower k) "viewref"); [|destruct (kweq (lower k) "viewlist"); discriminate].
  destruct (parse_viewref cx vargs) as [v|]; [|discriminate]. inversion R; subst; cbn. discriminate.
Qed.

Lemma contents_refd cx cargs c : loop (contents_step cx) false (mkcst [] []) cargs = Ok c -> Forall einst_refd (cs_insts c).
Proof.
  intro L.
  refine (loop_inv (contents_step cx) false (fun s => Forall einst_refd (cs_insts s)) _ cargs (mkcst [] []) c _ L); [|constructor].
  intros s k a s' Hs Hst. unfold contents_step in Hst.
  destruct (kweq k "instance").
  { destruct (parse_instance cx (cs_insts s) a) as [ip|] eqn:PI; [|discriminate]. inversion Hst; subst; cbn.
    apply Forall_app. split; auto. constructor; [|constructor]. eapply parse_instance_refd; eauto. }
  destruct (kweq k "net").
  { destruct (parse_net cx (cs_insts s) (cs_cabs s) a); [|discriminate]. inversion Hst; subst; cbn. auto. }
  inv_res Hst; inversion Hst; subst; auto.
Qed.

Lemma parse_view_full libs lib cells cell args v : parse_view libs lib cells cell args = Ok v ->
  Forall port_ne (snd (fst v)) /\ Forall einst_refd (cs_insts (snd v)).
Proof.
  unfold parse_view. intro H. destruct args as [|nd [|vt [|itf rest]]]; try discriminate.
  destruct (parse_namedef nd) as [n|]; [|discriminate]. destruct (chk_viewtype vt); [|discriminate].
  destruct (parse_interface itf) as [ports|] eqn:PI; [|discriminate].
  destruct (loop _ false (false, None) rest) as [r|] eqn:L; [|discriminate].
  inversion H; subst; cbn. split; [eapply parse_interface_ne; eauto|].
  set (cx := mkctx libs lib cells cell (nm_ident n) ports) in *.
  assert (Q : match snd r with Some c => Forall einst_refd (cs_insts c) | None => True end).
  { refine (loop_inv (view_step cx) false (fun s => match snd s with Some c => Forall einst_refd (cs_insts c) | None => True end) _ rest (false, None) r _ L); [|exact I].
    intros st kk aa st' Hs Hst. unfold view_step in Hst.
    destruct (kweq kk "status"). { inv_res Hst; inversion Hst; subst; auto. }
    destruct (kweq kk "contents").
    { destruct (snd st); [discriminate|].
      destruct (loop (contents_step cx) false (mkcst [] []) aa) as [c|] eqn:LC; [|discriminate]. inversion Hst; subst; cbn.
      eapply contents_refd; eauto. }
    inv_res Hst; inversion Hst; subst; auto. }
  destruct (snd r); [exact Q|constructor].
Qed.

Lemma parse_cell_full libs lib cells args C : parse_cell libs lib cells args = Ok C -> cell_full C.
Proof.
  unfold parse_cell. intro H. destruct args as [|nd [|ct rest]]; try discriminate.
  destruct (parse_elemname nd) as [n|]; [|discriminate]. destruct (chk_celltype ct); [|discriminate].
  destruct (loop _ false (false, None) rest) as [r|] eqn:L; [|discriminate].
  destruct (place _ _ n) as [name|]; [|discriminate]. inversion H; subst; clear H.
  assert (Q : match snd r with
              | Some v => Forall port_ne (snd (fst v)) /\ Forall einst_refd (cs_insts (snd v))
              | None => True end).
  { refine (loop_inv (cell_step libs lib cells (nm_ident n)) false
              (fun s => match snd s with
                        | Some v => Forall port_ne (snd (fst v)) /\ Forall einst_refd (cs_insts (snd v))
                        | None => True end) _ rest (false, None) r _ L); [|exact I].
    intros st kk aa st' Hs Hst. unfold cell_step in Hst.
    destruct (kweq kk "status"). { inv_res Hst; inversion Hst; subst; auto. }
    destruct (kweq kk "view").
    { destruct (snd st); [discriminate|].
      destruct (parse_view libs lib cells (nm_ident n) aa) as [v|] eqn:PV; [|discriminate]. inversion Hst; subst; cbn.
      eapply parse_view_full; eauto. }
    inv_res Hst; inversion Hst; subst; auto. }
  destruct (snd r) as [v|]; unfold cell_full; cbn.
  - destruct Q as [Q1 Q2]. split; auto. apply Forall_forall. intros I HI. apply in_map_iff in HI as (ip & <- & Hip).
    rewrite Forall_forall in Q2. exact (Q2 ip Hip).
  - split; constructor.
Qed.

Lemma parse_library_full libs args L : parse_library libs args = Ok L -> Forall cell_full (li_cells L).
Proof.
  unfold parse_library. intro H. destruct args as [|nd [|el [|tech rest]]]; try discriminate.
  destruct (parse_elemname nd) as [n|]; [|discriminate]. destruct (chk_int_form _ _ el); [|discriminate].
  destruct (chk_technology tech); [|discriminate].
  destruct (loop _ false (false, []) rest) as [r|] eqn:Lp; [|discriminate].
  destruct (place_strict _ _ n); [|discriminate]. inversion H; subst; cbn.
  refine (loop_inv (lib_step libs (nm_ident n)) false (fun s => Forall cell_full (snd s)) _ rest (false, []) r _ Lp); [|constructor].
  intros st kk aa st' Hs Hst. unfold lib_step in Hst.
  destruct (kweq kk "status"). { inv_res Hst; inversion Hst; subst; auto. }
  destruct (kweq kk "cell").
  { destruct (parse_cell libs (nm_ident n) (snd st) aa) as [C|] eqn:PC; [|discriminate]. inversion Hst; subst; cbn.
    apply Forall_app. split; auto. constructor; [|constructor]. eapply parse_cell_full; eauto. }
  inv_res Hst; inversion Hst; subst; auto.
Qed.

Lemma body_full l r : body l = Ok r -> Forall (fun L => Forall cell_full (li_cells L)) (bs_libs r).
Proof.
  unfold body. intro H.
  refine (loop_inv body_step false (fun s => Forall (fun L => Forall cell_full (li_cells L)) (bs_libs s)) _ l _ r _ H); [|constructor].
  intros s k a s' Hs Hst. unfold body_step in Hst.
  destruct (kweq k "status"). { inv_res Hst; inversion Hst; subst; auto. }
  destruct (_ || _).
  { destruct (parse_library (bs_libs s) a) as [L|] eqn:PL; [|discriminate]. inversion Hst; subst; cbn.
    apply Forall_app. split; auto. constructor; [|constructor]. eapply parse_library_full; eauto. }
  inv_res Hst; inversion Hst; subst; auto.
Qed.

Theorem elab_file_full d n : elab_file d = Ok n -> all_referenced n /\ ports_nonempty n.
Proof.
  unfold elab_file. intro H. destruct (negb (atoms_ascii d)); [discriminate|].
  destruct d as [| |[|e [|nd [|ver [|lvl [|km items]]]]]]; try discriminate.
  destruct (negb _); [discriminate|]. destruct (parse_elemname nd) as [n0|]; [|discriminate].
  destruct (chk_int_form _ _ ver); [|discriminate]. destruct (chk_int_form _ _ lvl); [|discriminate].
  destruct (chk_keywordmap km); [|discriminate].
  destruct (body items) as [b|] eqn:B; [|discriminate]. inversion H; subst; cbn.
  apply body_full in B. rewrite Forall_forall in B.
  split.
  - intros L C I HL HC HI. cbn in HL. specialize (B L HL). rewrite Forall_forall in B. destruct (B C HC) as [_ Hr].
    rewrite Forall_forall in Hr. exact (Hr I HI).
  - intros L C P HL HC HP. cbn in HL. specialize (B L HL). rewrite Forall_forall in B. destruct (B C HC) as [Hp _].
    rewrite Forall_forall in Hp. exact (Hp P HP).
Qed.

(* every result is fully well formed: no hypothesis on the document *)
Theorem elab_file_wf d n : elab_file d = Ok n -> wf_file n.
Proof.
  intro H. destruct (elab_file_full d n H) as [H1 H2]. split; [eapply elab_file_wf_core; eauto|]. split; auto.
Qed.

Theorem elab_tokens_wf toks n : elab_tokens toks = Ok n -> wf_file n.
Proof. intro H. apply elab_tokens_file in H as (d & _ & H). eapply elab_file_wf; eauto. Qed.

Theorem elab_text_wf s n : elab_text s = Ok n -> wf_file n.
Proof. apply elab_tokens_wf. Qed.

(* ---- the end of the input is strict: exactly one balanced form ---- *)
Lemma read_open_more t : forall top stack d rest extra,
  read_open t top stack = (d, O, rest) -> read_open (t ++ extra) top stack = (d, O, rest ++ extra).
Proof.
  induction t as [|tok t IH]; intros top stack d rest extra H; cbn in *.
  - inversion H.
  - destruct (str_eqb tok t_lp); [now apply IH|].
    destruct (str_eqb tok t_rp); [|now apply IH].
    destruct stack as [|next stack']; [|now apply IH]. inversion H; subst. reflexivity.
Qed.

Lemma read_open_cut t : forall top stack d k,
  read_open t top stack = (d, O, []) -> (k < List.length t)%nat ->
  exists d' m, read_open (firstn k t) top stack = (d', S m, []).
Proof.
  induction t as [|tok t IH]; intros top stack d k H Hk; cbn in *.
  - inversion H.
  - destruct k as [|k]; cbn; [eauto|].
    destruct (str_eqb tok t_lp); [eapply IH; eauto; lia|].
    destruct (str_eqb tok t_rp); [|eapply IH; eauto; lia].
    destruct stack as [|next stack']; [|eapply IH; eauto; lia].
    inversion H; subst. cbn in Hk. lia.
Qed.

(* tokens appended after an accepted file make the reader raise *)
Theorem elab_tokens_trailing toks n extra : elab_tokens toks = Ok n -> extra <> [] ->
  exists e, elab_tokens (toks ++ extra) = Err e.
Proof.
  intros H He. apply elab_tokens_file in H as (d & R & E).
  unfold read_first in R. destruct toks as [|t toks]; [discriminate|].
  destruct (str_eqb t t_lp) eqn:Et; [|discriminate]. inversion R as [R']. clear R.
  unfold elab_tokens. cbn [app read_first]. rewrite Et, (read_open_more _ _ _ _ _ extra R'), E. cbn.
  destruct extra; [contradiction|]. eauto.
Qed.

(* every proper prefix of an accepted file makes the reader raise *)
Theorem elab_tokens_truncated toks n k : elab_tokens toks = Ok n -> (k < List.length toks)%nat ->
  exists e, elab_tokens (firstn k toks) = Err e.
Proof.
  intros H Hk. apply elab_tokens_file in H as (d & R & E).
  unfold read_first in R. destruct toks as [|t toks]; [discriminate|].
  destruct (str_eqb t t_lp) eqn:Et; [|discriminate]. inversion R as [R']. clear R.
  destruct k as [|k]; [cbn; eauto|].
  cbn in Hk. destruct (read_open_cut toks [] [] d k R') as (d' & m & Hc); [lia|].
  unfold elab_tokens. cbn [firstn read_first]. rewrite Et, Hc.
  destruct (elab_file d'); cbn; eauto.
Qed.
