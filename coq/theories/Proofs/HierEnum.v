(* C11, enumeration: the depth-first walks of get_hinstances / get_hports / get_hpins /
   get_hcables / get_hwires (Hier/Enum.v) terminate with the fuel they are given on every
   acyclic well-kinded netlist, and return exactly the occurrences of the elaborated design
   (Hier/Paths.v), each once.

   A. fuel sufficiency from acyclicity (pigeonhole on the ids of a chain)
   B. exactness of [walk]: it enumerates, without duplicates, the extensions of its start
   C. consequences for the netlist-rooted queries
   D. the hypotheses are satisfiable (a concrete two-level netlist) *)
From Coq Require Import List Arith Bool Lia Relations Wellfounded.
From SV Require Import Base.Base IR.State Proofs.Inv1a Proofs.Inv2a Hier.Paths Hier.Enum.
Import ListNotations.

(* ------------------------------------------------------------------------------------------ *)
(* specification side                                                                          *)

(* p extends h by children accepted by keep *)
Inductive ext (s : state) (keep : id -> bool) (h : href) : href -> Prop :=
| ext_refl : ext s keep h h
| ext_step c x p : ext s keep h (x :: p) -> In c (sub s x) -> keep c = true ->
                   ext s keep h (c :: x :: p).

(* a chain: every element is a child of the next one *)
Fixpoint is_chain (s : state) (h : href) : Prop :=
  match h with
  | c :: ((x :: _) as r) => child s c x /\ is_chain s r
  | _ => True
  end.

(* ------------------------------------------------------------------------------------------ *)
(* list helpers                                                                                *)

Lemma nodup_app {A} (x y : list A) :
  NoDup x -> NoDup y -> (forall a, In a x -> In a y -> False) -> NoDup (x ++ y).
Proof.
  induction x as [|a x IH]; intros Hx Hy Hd; [exact Hy|].
  inversion Hx as [|? ? Ha Hx']; subst. cbn. constructor.
  - rewrite in_app_iff. intros [H|H]; [contradiction|]. apply (Hd a); [left; reflexivity|exact H].
  - apply IH; [assumption|assumption|]. intros b Hb. apply Hd. right. exact Hb.
Qed.

Lemma nodup_map_inj {A B} (f : A -> B) (l : list A) :
  (forall a b, In a l -> In b l -> f a = f b -> a = b) -> NoDup l -> NoDup (map f l).
Proof.
  intros Hinj. induction 1 as [|a l Ha Hl IH]; cbn; constructor.
  - rewrite in_map_iff. intros (b & Hb & Hin). apply Ha.
    rewrite (Hinj a b); [exact Hin|left; reflexivity|right; exact Hin|symmetry; exact Hb].
  - apply IH. intros b c Hb Hc. apply Hinj; right; assumption.
Qed.

Lemma nodup_flat_map {A B} (f : A -> list B) (l : list A) :
  NoDup l -> (forall a, In a l -> NoDup (f a)) ->
  (forall a b y, In a l -> In b l -> In y (f a) -> In y (f b) -> a = b) ->
  NoDup (flat_map f l).
Proof.
  induction 1 as [|a l Ha Hl IH]; intros H1 H2; cbn; [constructor|].
  apply nodup_app.
  - apply H1. left; reflexivity.
  - apply IH; [intros; apply H1; right; assumption|].
    intros b c y Hb Hc. apply H2; right; assumption.
  - intros y Hy Hy'. apply in_flat_map in Hy' as (b & Hb & Hyb).
    apply Ha. rewrite (H2 a b y); [exact Hb|left; reflexivity|right; exact Hb|exact Hy|exact Hyb].
Qed.

Lemma app_mid_inj {A} (q q' : list A) c c' h : q ++ c :: h = q' ++ c' :: h -> c = c'.
Proof.
  intro H.
  change (q ++ [c] ++ h = q' ++ [c'] ++ h) in H. rewrite !app_assoc in H.
  apply app_inv_tail in H. apply app_inj_tail in H. apply H.
Qed.

Lemma app_self_absurd {A} (q : list A) c h : h = q ++ c :: h -> False.
Proof.
  intro H. apply (f_equal (@length A)) in H. rewrite app_length in H. cbn in H. lia.
Qed.

(* ---- flat_opt ---- *)
Lemma flat_opt_cons {A B} (f : A -> option (list B)) a l :
  flat_opt f (a :: l) =
  match f a, flat_opt f l with Some x, Some y => Some (x ++ y) | _, _ => None end.
Proof. reflexivity. Qed.

Lemma flat_opt_some {A B} (f : A -> option (list B)) l :
  (forall a, In a l -> f a <> None) -> flat_opt f l <> None.
Proof.
  induction l as [|a l IH]; intro H; [discriminate|].
  rewrite flat_opt_cons. destruct (f a) eqn:E.
  - destruct (flat_opt f l) eqn:E2; [discriminate|]. exfalso.
    apply IH; [intros; apply H; right; assumption|reflexivity].
  - exfalso. apply (H a); [left; reflexivity|exact E].
Qed.

Lemma flat_opt_each {A B} (f : A -> option (list B)) l r :
  flat_opt f l = Some r -> forall a, In a l -> exists x, f a = Some x.
Proof.
  revert r. induction l as [|a l IH]; intros r H b Hb; [contradiction|].
  rewrite flat_opt_cons in H. destruct (f a) as [x|] eqn:E; [|discriminate].
  destruct (flat_opt f l) as [y|] eqn:E2; [|discriminate].
  destruct Hb as [<-|Hb]; [exists x; exact E|]. apply (IH y eq_refl b Hb).
Qed.

Lemma flat_opt_in {A B} (f : A -> option (list B)) l r :
  flat_opt f l = Some r ->
  forall p, In p r <-> exists a x, In a l /\ f a = Some x /\ In p x.
Proof.
  revert r. induction l as [|a l IH]; intros r H p.
  - cbn in H. inversion H; subst. split; [contradiction|]. intros (a & x & [] & _).
  - rewrite flat_opt_cons in H. destruct (f a) as [x|] eqn:E; [|discriminate].
    destruct (flat_opt f l) as [y|] eqn:E2; [|discriminate]. inversion H; subst r.
    rewrite in_app_iff. rewrite (IH y eq_refl p). split.
    + intros [Hp|(b & z & Hb & Hz & Hp)].
      * exists a, x. repeat split; [left; reflexivity|exact E|exact Hp].
      * exists b, z. repeat split; [right; exact Hb|exact Hz|exact Hp].
    + intros (b & z & [<-|Hb] & Hz & Hp).
      * left. rewrite E in Hz. inversion Hz; subst; assumption.
      * right. exists b, z. repeat split; assumption.
Qed.

Lemma flat_opt_nodup {A B} (f : A -> option (list B)) l r :
  flat_opt f l = Some r -> NoDup l ->
  (forall a x, In a l -> f a = Some x -> NoDup x) ->
  (forall a b x y p, In a l -> In b l -> f a = Some x -> f b = Some y ->
                     In p x -> In p y -> a = b) ->
  NoDup r.
Proof.
  revert r. induction l as [|a l IH]; intros r H Hnd H1 H2.
  - cbn in H. inversion H. constructor.
  - rewrite flat_opt_cons in H. destruct (f a) as [x|] eqn:E; [|discriminate].
    destruct (flat_opt f l) as [y|] eqn:E2; [|discriminate]. inversion H; subst r.
    inversion Hnd as [|? ? Hna Hnl]; subst. apply nodup_app.
    + apply (H1 a x); [left; reflexivity|exact E].
    + apply (IH y eq_refl Hnl).
      * intros b z Hb. apply H1. right; exact Hb.
      * intros b c z w p Hb Hc. apply H2; right; assumption.
    + intros p Hpx Hpy. apply (flat_opt_in _ _ _ E2) in Hpy as (b & z & Hb & Hz & Hp).
      apply Hna. rewrite (H2 a b x z p); [exact Hb|left; reflexivity|right; exact Hb|exact E|exact Hz|exact Hpx|exact Hp].
Qed.

(* ---- walk ---- *)
Lemma walk_S s keep f x r :
  walk s keep (S f) (x :: r) =
  match flat_opt (fun c => walk s keep f (c :: x :: r)) (filter keep (sub s x)) with
  | Some l => Some ((x :: r) :: l)
  | None => None
  end.
Proof. reflexivity. Qed.

Lemma walk_head s keep fuel h l :
  h <> [] -> walk s keep fuel h = Some l -> exists l', l = h :: l'.
Proof.
  intros Hne H. destruct fuel as [|f]; [discriminate|].
  destruct h as [|x r]; [congruence|]. rewrite walk_S in H.
  destruct (flat_opt _ _) as [l'|]; [|discriminate]. inversion H. exists l'. reflexivity.
Qed.

(* ------------------------------------------------------------------------------------------ *)
(* A. fuel sufficiency from acyclicity                                                         *)

Lemma acc_irrefl {A} (R : A -> A -> Prop) x : Acc R x -> ~ R x x.
Proof. induction 1 as [x _ IH]. intro Hx. exact (IH x Hx Hx). Qed.

Lemma acc_no_cycle {A} (R : A -> A -> Prop) x : Acc R x -> ~ clos_trans A R x x.
Proof. intro H. apply acc_irrefl. apply Acc_clos_trans. exact H. Qed.

Lemma chain_cons2 s c x r : is_chain s (c :: x :: r) <-> child s c x /\ is_chain s (x :: r).
Proof. reflexivity. Qed.

Lemma chain_tail s c r : is_chain s (c :: r) -> is_chain s r.
Proof. destruct r; [intros _; exact I|]. intro H. apply chain_cons2 in H. apply H. Qed.

Lemma chain_reach s r : forall c y, is_chain s (c :: r) -> In y r -> clos_trans id (child s) c y.
Proof.
  induction r as [|x r IH]; intros c y Hc Hy; [contradiction|].
  apply chain_cons2 in Hc. destruct Hc as [Hcx Hr]. destruct Hy as [<-|Hy].
  - apply t_step. exact Hcx.
  - eapply t_trans; [apply t_step; exact Hcx|apply IH; assumption].
Qed.

Lemma chain_nodup : forall s h, acyclic s -> is_chain s h -> NoDup h.
Proof.
  intros s h Ha. induction h as [|c r IH]; intro Hc; constructor.
  - intro Hin. apply (acc_no_cycle (child s) c (Ha c)). eapply chain_reach; eassumption.
  - apply IH. eapply chain_tail; eassumption.
Qed.

Lemma child_lt s c x : WFk s -> child s c x -> c < next s /\ x < next s.
Proof.
  intros W H. unfold child, sub in H. destruct (iref s x) as [d|] eqn:E; [|contradiction].
  split; [exact (wk_range_kids s W _ _ _ H)|exact (wk_range_iref s W _ _ E)].
Qed.

(* every element of a chain with at least two elements is an allocated id: all but the last are
   children, all but the first have a child, hence a reference *)
Lemma chain_bound s : WFk s ->
  forall r c x, is_chain s (c :: x :: r) -> forall y, In y (c :: x :: r) -> y < next s.
Proof.
  intros W. induction r as [|z r IH]; intros c x Hc y Hy;
    apply chain_cons2 in Hc; destruct Hc as [Hcx Hr];
    destruct (child_lt _ _ _ W Hcx) as [H1 H2].
  - destruct Hy as [<-|[<-|[]]]; assumption.
  - destruct Hy as [<-|Hy]; [assumption|]. eapply IH; eassumption.
Qed.

Lemma chain_length : forall s h,
  WFk s -> acyclic s -> is_chain s h -> 2 <= length h -> length h <= next s.
Proof.
  intros s h W A Hc Hl. destruct h as [|c [|x r]]; cbn in Hl; try lia.
  rewrite <- (seq_length (next s) 0). apply NoDup_incl_length.
  - apply (chain_nodup s); assumption.
  - intros y Hy. apply in_seq. split; [lia|]. cbn. eapply chain_bound; eassumption.
Qed.

Lemma walk_fuel_gen s keep : WFk s -> acyclic s ->
  forall fuel h, h <> [] -> is_chain s h -> next s + 2 <= fuel + length h ->
                 walk s keep fuel h <> None.
Proof.
  intros W A. induction fuel as [|f IH]; intros h Hne Hc Hl.
  - exfalso. cbn in Hl. assert (length h <= next s) by (apply chain_length; auto; lia). lia.
  - destruct h as [|x r]; [congruence|]. rewrite walk_S.
    destruct (flat_opt _ _) eqn:E; [discriminate|]. exfalso. revert E. apply flat_opt_some.
    intros c Hin. apply filter_In in Hin as [Hin _]. apply IH.
    + discriminate.
    + apply chain_cons2. split; assumption.
    + cbn [length] in *. lia.
Qed.

Theorem walk_fuel_sufficient : forall s keep t,
  WFk s -> acyclic s -> walk s keep (depth_fuel s) [t] <> None.
Proof.
  intros s keep t W A. apply walk_fuel_gen; try assumption.
  - discriminate.
  - exact I.
  - unfold depth_fuel. cbn. lia.
Qed.

(* ------------------------------------------------------------------------------------------ *)
(* B. exactness of the walk                                                                    *)

Lemma ext_suffix s keep h p : ext s keep h p -> exists q, p = q ++ h.
Proof.
  induction 1 as [|c x p _ [q Hq] _ _]; [exists []; reflexivity|].
  exists (c :: q). rewrite Hq. reflexivity.
Qed.

Lemma ext_nonempty s keep h p : h <> [] -> ext s keep h p -> p <> [].
Proof. intros Hne H. destruct H; [assumption|discriminate]. Qed.

Lemma ext_push s keep c x r p :
  In c (sub s x) -> keep c = true -> ext s keep (c :: x :: r) p -> ext s keep (x :: r) p.
Proof.
  intros Hc Hk. induction 1.
  - apply ext_step; [apply ext_refl|assumption|assumption].
  - apply ext_step; assumption.
Qed.

Lemma ext_inv s keep x r p :
  ext s keep (x :: r) p ->
  p = x :: r \/ exists c, In c (sub s x) /\ keep c = true /\ ext s keep (c :: x :: r) p.
Proof.
  induction 1 as [|c y p H IH Hc Hk]; [left; reflexivity|]. right.
  destruct IH as [E|(c' & H1 & H2 & H3)].
  - inversion E; subst. exists c. repeat split; try assumption. apply ext_refl.
  - exists c'. repeat split; try assumption. apply ext_step; assumption.
Qed.

Lemma sub_nodup s x : Inv1a s -> NoDup (sub s x).
Proof. intro I. unfold sub. destruct (iref s x); [apply (i1_nodup s I)|constructor]. Qed.

Lemma walk_gen s keep : Inv1a s ->
  forall fuel h l, h <> [] -> walk s keep fuel h = Some l ->
                   NoDup l /\ forall p, In p l <-> ext s keep h p.
Proof.
  intros I. induction fuel as [|f IH]; intros h l Hne H; [discriminate|].
  destruct h as [|x r]; [congruence|]. rewrite walk_S in H.
  destruct (flat_opt _ _) as [l'|] eqn:E; [|discriminate]. inversion H; subst l. clear H.
  assert (Hin : forall p, In p l' <->
            exists c, In c (sub s x) /\ keep c = true /\ ext s keep (c :: x :: r) p).
  { intro p. rewrite (flat_opt_in _ _ _ E p). split.
    - intros (c & lc & Hc & Hw & Hp). apply filter_In in Hc as [Hc Hk].
      exists c. repeat split; try assumption.
      apply (IH (c :: x :: r) lc); [discriminate|exact Hw|exact Hp].
    - intros (c & Hc & Hk & He).
      assert (Hf : In c (filter keep (sub s x))) by (apply filter_In; split; assumption).
      destruct (flat_opt_each _ _ _ E c Hf) as [lc Hw].
      exists c, lc. repeat split; try assumption.
      apply (IH (c :: x :: r) lc); [discriminate|exact Hw|exact He]. }
  split.
  - constructor.
    + intro Hh. apply Hin in Hh as (c & _ & _ & He). apply ext_suffix in He as [q Hq].
      exact (app_self_absurd _ _ _ Hq).
    + eapply flat_opt_nodup; [exact E| | |].
      * apply NoDup_filter. apply sub_nodup. exact I.
      * intros c lc _ Hw. apply (IH (c :: x :: r) lc); [discriminate|exact Hw].
      * intros a b la lb p _ _ Ha Hb Hpa Hpb.
        apply (IH (a :: x :: r) la) in Hpa; [|discriminate|exact Ha].
        apply (IH (b :: x :: r) lb) in Hpb; [|discriminate|exact Hb].
        apply ext_suffix in Hpa as [q Hq]. apply ext_suffix in Hpb as [q' Hq'].
        rewrite Hq in Hq'. exact (app_mid_inj _ _ _ _ _ Hq').
  - intro p. cbn [In]. rewrite Hin. split.
    + intros [<-|(c & Hc & Hk & He)]; [apply ext_refl|]. eapply ext_push; eassumption.
    + intro He. apply ext_inv in He as [->|He]; [left; reflexivity|right; exact He].
Qed.

Theorem walk_spec : forall s keep t l,
  Inv1a s -> walk s keep (depth_fuel s) [t] = Some l ->
  NoDup l /\ (forall p, In p l <-> ext s keep [t] p).
Proof. intros s keep t l I H. eapply walk_gen; [exact I|discriminate|exact H]. Qed.

(* whatever the filter, an extension is an instance path *)
Lemma ext_rpath s keep t p : ext s keep [t] p -> is_rpath s t p.
Proof. induction 1; [apply rp_top|apply rp_child; assumption]. Qed.

(* an instance path goes through kept children only, as soon as the filter accepts every child
   that has children itself and the last instance of the path *)
Lemma rpath_ext s keep t :
  (forall c y, child s c y -> sub s c <> [] -> keep c = true) ->
  forall p, is_rpath s t p ->
            match p with x :: _ :: _ => keep x = true | _ => True end ->
            ext s keep [t] p.
Proof.
  intros K. induction 1 as [|c x p H IH Hc]; intro Hk; [apply ext_refl|].
  apply ext_step; [apply IH|exact Hc|exact Hk].
  destruct p as [|y p']; [exact I|]. apply K with y.
  - inversion H; subst; assumption.
  - intro E. unfold child in Hc. rewrite E in Hc. contradiction.
Qed.

Lemma ext_all_rpath : forall s t p, ext s keep_all [t] p <-> is_rpath s t p.
Proof.
  intros s t p. split; [apply ext_rpath|]. intro H. apply rpath_ext; [reflexivity|exact H|].
  destruct p as [|? [|? ?]]; first [exact I|reflexivity].
Qed.

(* ------------------------------------------------------------------------------------------ *)
(* C. the netlist-rooted queries                                                               *)

Theorem all_ipaths_spec : forall s n t,
  Inv1a s -> WFk s -> acyclic s -> top s n = Some t ->
  exists l, all_ipaths s n = Some l /\ NoDup l /\ (forall p, In p l <-> is_rpath s t p).
Proof.
  intros s n t I W A Ht. unfold all_ipaths, top_href. rewrite Ht.
  destruct (walk s keep_all (depth_fuel s) [t]) as [l|] eqn:E;
    [|exfalso; exact (walk_fuel_sufficient s keep_all t W A E)].
  exists l. destruct (walk_spec _ _ _ _ I E) as [Hn Hi]. repeat split; try assumption.
  - intro H. apply ext_all_rpath, Hi, H.
  - intro H. apply Hi, ext_all_rpath, H.
Qed.

Theorem enum_instances_spec : forall s n t,
  Inv1a s -> WFk s -> acyclic s -> top s n = Some t ->
  exists l, get_hinstances_netlist s n true = Some l /\ NoDup l /\
            (forall p, In p l <-> (is_rpath s t p /\ p <> [t])).
Proof.
  intros s n t I W A Ht. unfold get_hinstances_netlist, top_href, hinstances_below. rewrite Ht.
  destruct (walk s keep_all (depth_fuel s) [t]) as [l|] eqn:E;
    [|exfalso; exact (walk_fuel_sufficient s keep_all t W A E)].
  destruct (walk_spec _ _ _ _ I E) as [Hn Hi].
  assert (Hnil : [t] <> []) by discriminate.
  destruct (walk_head _ _ _ _ _ Hnil E) as [l' ->].
  exists l'. cbn. inversion Hn as [|? ? Hnot Hn']; subst. repeat split; try assumption.
  - apply ext_all_rpath, Hi. right. assumption.
  - intros ->. contradiction.
  - intros [Hp Hne]. apply ext_all_rpath, Hi in Hp. destruct Hp as [<-|Hp]; [congruence|exact Hp].
Qed.

Theorem enum_instances_nonrec_spec : forall s n t,
  Inv1a s -> top s n = Some t ->
  exists l, get_hinstances_netlist s n false = Some l /\ NoDup l /\
            (forall p, In p l <-> exists c, child s c t /\ p = [c; t]).
Proof.
  intros s n t I Ht. unfold get_hinstances_netlist, top_href, hinstances_below. rewrite Ht.
  eexists. split; [reflexivity|]. split.
  - apply nodup_map_inj; [|apply sub_nodup; exact I]. intros a b _ _ H. inversion H. reflexivity.
  - intro p. rewrite in_map_iff. unfold child. split.
    + intros (c & <- & Hc). exists c. split; [exact Hc|reflexivity].
    + intros (c & Hc & ->). exists c. split; [reflexivity|exact Hc].
Qed.

(* ---- the contents queries: ports / pins / cables / wires of the instances in scope ---- *)

(* one level (ports, cables) and two levels (pins, wires) of items hung below a path *)
Definition items_at (g : id -> list id) (p : href) : list href :=
  match p with [] => [] | x :: _ => map (fun q => q :: p) (g x) end.
Definition subitems_at (g k : id -> list id) (p : href) : list href :=
  flat_map (fun hq => match hq with q :: _ => map (fun i => i :: hq) (k q) | [] => [] end)
           (items_at g p).

Lemma hports_items s : hports_at s = items_at (ports_of s).
Proof. reflexivity. Qed.
Lemma hcables_items s : hcables_at s = items_at (cables_of s).
Proof. reflexivity. Qed.
Lemma hpins_items s : hpins_at s = subitems_at (ports_of s) (kids s RPins).
Proof. reflexivity. Qed.
Lemma hwires_items s : hwires_at s = subitems_at (cables_of s) (kids s RWires).
Proof. reflexivity. Qed.

Lemma items_at_in g p h :
  In h (items_at g p) <-> exists q x r, p = x :: r /\ h = q :: x :: r /\ In q (g x).
Proof.
  destruct p as [|x r]; cbn.
  - split; [contradiction|]. intros (q & x & r & E & _). discriminate.
  - rewrite in_map_iff. split.
    + intros (q & <- & Hq). exists q, x, r. repeat split. exact Hq.
    + intros (q & x' & r' & E & -> & Hq). inversion E; subst. exists q. split; [reflexivity|exact Hq].
Qed.

Lemma items_at_nodup g p : (forall x, NoDup (g x)) -> NoDup (items_at g p).
Proof.
  intro G. destruct p as [|x r]; cbn; [constructor|].
  apply nodup_map_inj; [|apply G]. intros a b _ _ H. inversion H. reflexivity.
Qed.

Lemma subitems_at_in g k p h :
  In h (subitems_at g k p) <->
  exists i q x r, p = x :: r /\ h = i :: q :: x :: r /\ In q (g x) /\ In i (k q).
Proof.
  unfold subitems_at. rewrite in_flat_map. split.
  - intros (hq & Hhq & Hh). apply items_at_in in Hhq as (q & x & r & -> & -> & Hq).
    apply in_map_iff in Hh as (i & <- & Hi). exists i, q, x, r. repeat split; assumption.
  - intros (i & q & x & r & -> & -> & Hq & Hi). exists (q :: x :: r). split.
    + apply items_at_in. exists q, x, r. repeat split. exact Hq.
    + apply in_map_iff. exists i. split; [reflexivity|exact Hi].
Qed.

Lemma subitems_at_nodup g k p :
  (forall x, NoDup (g x)) -> (forall q, NoDup (k q)) -> NoDup (subitems_at g k p).
Proof.
  intros G K. unfold subitems_at. apply nodup_flat_map.
  - apply items_at_nodup. exact G.
  - intros hq _. destruct hq as [|q r]; [constructor|].
    apply nodup_map_inj; [|apply K]. intros a b _ _ H. inversion H. reflexivity.
  - intros a b y Ha Hb Hya Hyb.
    apply items_at_in in Ha as (q & x & r & _ & -> & _).
    apply items_at_in in Hb as (q' & x' & r' & _ & -> & _).
    apply in_map_iff in Hya as (i & <- & _). apply in_map_iff in Hyb as (i' & E & _).
    inversion E. reflexivity.
Qed.

Section Below.
  Variables (s : state) (keep : id -> bool) (t : id) (lw : list href).
  Hypothesis lw_nodup : NoDup lw.
  Hypothesis lw_in : forall p, In p lw <-> ext s keep [t] p.
  (* the filter lets through every child that has children *)
  Hypothesis keep_inner : forall c y, child s c y -> sub s c <> [] -> keep c = true.

  Lemma scope_path x r (Hx : keep x = true) : In (x :: r) lw <-> is_rpath s t (x :: r).
  Proof.
    rewrite lw_in. split; [apply ext_rpath|]. intro H. apply rpath_ext; [exact keep_inner|exact H|].
    destruct r; [exact I|exact Hx].
  Qed.

  Lemma items_below_spec (g : id -> list id) :
    (forall x, NoDup (g x)) -> (forall x, g x <> [] -> keep x = true) ->
    NoDup (flat_map (items_at g) lw) /\
    forall h, In h (flat_map (items_at g) lw) <->
              exists q x r, h = q :: x :: r /\ is_rpath s t (x :: r) /\ In q (g x).
  Proof.
    intros G Kg. split.
    - apply nodup_flat_map; [exact lw_nodup|intros; apply items_at_nodup; exact G|].
      intros a b y _ _ Ha Hb.
      apply items_at_in in Ha as (q & x & r & -> & -> & _).
      apply items_at_in in Hb as (q' & x' & r' & -> & E & _). inversion E. reflexivity.
    - intro h. rewrite in_flat_map. split.
      + intros (p & Hp & Hh). apply items_at_in in Hh as (q & x & r & -> & -> & Hq).
        exists q, x, r. repeat split; [|exact Hq]. apply scope_path in Hp; [exact Hp|].
        apply Kg. intro E. rewrite E in Hq. contradiction.
      + intros (q & x & r & -> & Hp & Hq). exists (x :: r). split.
        * apply scope_path; [|exact Hp]. apply Kg. intro E. rewrite E in Hq. contradiction.
        * apply items_at_in. exists q, x, r. repeat split. exact Hq.
  Qed.

  Lemma subitems_below_spec (g k : id -> list id) :
    (forall x, NoDup (g x)) -> (forall q, NoDup (k q)) -> (forall x, g x <> [] -> keep x = true) ->
    NoDup (flat_map (subitems_at g k) lw) /\
    forall h, In h (flat_map (subitems_at g k) lw) <->
              exists i q x r, h = i :: q :: x :: r /\ is_rpath s t (x :: r) /\ In q (g x) /\ In i (k q).
  Proof.
    intros G K Kg. split.
    - apply nodup_flat_map; [exact lw_nodup|intros; apply subitems_at_nodup; assumption|].
      intros a b y _ _ Ha Hb.
      apply subitems_at_in in Ha as (i & q & x & r & -> & -> & _).
      apply subitems_at_in in Hb as (i' & q' & x' & r' & -> & E & _). inversion E. reflexivity.
    - intro h. rewrite in_flat_map. split.
      + intros (p & Hp & Hh). apply subitems_at_in in Hh as (i & q & x & r & -> & -> & Hq & Hi).
        exists i, q, x, r. repeat split; [|exact Hq|exact Hi]. apply scope_path in Hp; [exact Hp|].
        apply Kg. intro E. rewrite E in Hq. contradiction.
      + intros (i & q & x & r & -> & Hp & Hq & Hi). exists (x :: r). split.
        * apply scope_path; [|exact Hp]. apply Kg. intro E. rewrite E in Hq. contradiction.
        * apply subitems_at_in. exists i, q, x, r. repeat split; assumption.
  Qed.
End Below.

(* the three filters *)
Lemma keep_all_inner s c y : child s c y -> sub s c <> [] -> keep_all c = true.
Proof. reflexivity. Qed.

Lemma has_ref_inner s c y : child s c y -> sub s c <> [] -> has_ref s c = true.
Proof. intros _. unfold sub, has_ref. destruct (iref s c); congruence. Qed.

Lemma has_ref_ports s x : ports_of s x <> [] -> has_ref s x = true.
Proof. unfold ports_of, has_ref. destruct (iref s x); congruence. Qed.

Lemma nonleaf_inner s c y : child s c y -> sub s c <> [] -> nonleaf_ref s c = true.
Proof.
  intros _. unfold sub, nonleaf_ref. destruct (iref s c) as [d|]; [|congruence].
  destruct (kids s RChildren d); [congruence|reflexivity].
Qed.

Lemma nonleaf_cables s x : cables_of s x <> [] -> nonleaf_ref s x = true.
Proof.
  unfold cables_of, nonleaf_ref. destruct (iref s x) as [d|]; [|congruence].
  destruct (kids s RChildren d), (kids s RCables d); congruence || reflexivity.
Qed.

Lemma ports_nodup s x : Inv1a s -> NoDup (ports_of s x).
Proof. intro I. unfold ports_of. destruct (iref s x); [apply (i1_nodup s I)|constructor]. Qed.
Lemma cables_nodup s x : Inv1a s -> NoDup (cables_of s x).
Proof. intro I. unfold cables_of. destruct (iref s x); [apply (i1_nodup s I)|constructor]. Qed.

(* the scope of a recursive contents query *)
Lemma scope_rec s keep t : Inv1a s -> WFk s -> acyclic s ->
  exists lw, walk s keep (depth_fuel s) [t] = Some lw /\ NoDup lw /\
             forall p, In p lw <-> ext s keep [t] p.
Proof.
  intros I W A. destruct (walk s keep (depth_fuel s) [t]) as [lw|] eqn:E;
    [|exfalso; exact (walk_fuel_sufficient s keep t W A E)].
  exists lw. split; [reflexivity|]. exact (walk_spec _ _ _ _ I E).
Qed.

Theorem enum_ports_spec : forall s n t,
  Inv1a s -> WFk s -> acyclic s -> top s n = Some t -> is_valid s [t] = true ->
  exists l, get_hports_netlist s n true = Some l /\ NoDup l /\
            (forall h, In h l <-> exists q x p, h = q :: x :: p /\ is_rpath s t (x :: p) /\
                                               In q (ports_of s x)).
Proof.
  intros s n t I W A Ht Hv.
  unfold get_hports_netlist, netlist_contents, top_href, hports_below, scope. rewrite Ht, Hv.
  destruct (scope_rec s (has_ref s) t I W A) as (lw & -> & Hn & Hi). cbn [option_map].
  eexists. split; [reflexivity|]. rewrite hports_items.
  apply (items_below_spec s (has_ref s) t lw Hn Hi (has_ref_inner s)).
  - intro x. apply ports_nodup. exact I.
  - apply has_ref_ports.
Qed.

Theorem enum_pins_spec : forall s n t,
  Inv1a s -> WFk s -> acyclic s -> top s n = Some t -> is_valid s [t] = true ->
  exists l, get_hpins_netlist s n true = Some l /\ NoDup l /\
            (forall h, In h l <-> exists i q x p, h = i :: q :: x :: p /\ is_rpath s t (x :: p) /\
                                                 In q (ports_of s x) /\ In i (kids s RPins q)).
Proof.
  intros s n t I W A Ht Hv.
  unfold get_hpins_netlist, netlist_contents, top_href, hpins_below, scope. rewrite Ht, Hv.
  destruct (scope_rec s (has_ref s) t I W A) as (lw & -> & Hn & Hi). cbn [option_map].
  eexists. split; [reflexivity|]. rewrite hpins_items.
  apply (subitems_below_spec s (has_ref s) t lw Hn Hi (has_ref_inner s)).
  - intro x. apply ports_nodup. exact I.
  - intro q. apply (i1_nodup s I).
  - apply has_ref_ports.
Qed.

Theorem enum_cables_spec : forall s n t,
  Inv1a s -> WFk s -> acyclic s -> top s n = Some t -> is_valid s [t] = true ->
  exists l, get_hcables_netlist s n true = Some l /\ NoDup l /\
            (forall h, In h l <-> exists c x p, h = c :: x :: p /\ is_rpath s t (x :: p) /\
                                               In c (cables_of s x)).
Proof.
  intros s n t I W A Ht Hv.
  unfold get_hcables_netlist, netlist_contents, top_href, hcables_below, scope. rewrite Ht, Hv.
  destruct (scope_rec s (nonleaf_ref s) t I W A) as (lw & -> & Hn & Hi). cbn [option_map].
  eexists. split; [reflexivity|]. rewrite hcables_items.
  apply (items_below_spec s (nonleaf_ref s) t lw Hn Hi (nonleaf_inner s)).
  - intro x. apply cables_nodup. exact I.
  - apply nonleaf_cables.
Qed.

Theorem enum_wires_spec : forall s n t,
  Inv1a s -> WFk s -> acyclic s -> top s n = Some t -> is_valid s [t] = true ->
  exists l, get_hwires_netlist s n true = Some l /\ NoDup l /\
            (forall h, In h l <-> exists w c x p, h = w :: c :: x :: p /\ is_rpath s t (x :: p) /\
                                                 In c (cables_of s x) /\ In w (kids s RWires c)).
Proof.
  intros s n t I W A Ht Hv.
  unfold get_hwires_netlist, netlist_contents, top_href, hwires_below, scope. rewrite Ht, Hv.
  destruct (scope_rec s (nonleaf_ref s) t I W A) as (lw & -> & Hn & Hi). cbn [option_map].
  eexists. split; [reflexivity|]. rewrite hwires_items.
  apply (subitems_below_spec s (nonleaf_ref s) t lw Hn Hi (nonleaf_inner s)).
  - intro x. apply cables_nodup. exact I.
  - intro q. apply (i1_nodup s I).
  - apply nonleaf_cables.
Qed.

(* the universe of wire occurrences used by the C12 closure: unfiltered walk, no validity test *)
Theorem all_hwires_spec : forall s n t,
  Inv1a s -> WFk s -> acyclic s -> top s n = Some t ->
  exists l, all_hwires s n = Some l /\ NoDup l /\
            (forall h, In h l <-> exists w c x p, h = w :: c :: x :: p /\ is_rpath s t (x :: p) /\
                                                 In c (cables_of s x) /\ In w (kids s RWires c)).
Proof.
  intros s n t I W A Ht. unfold all_hwires, all_ipaths, top_href. rewrite Ht.
  destruct (scope_rec s keep_all t I W A) as (lw & -> & Hn & Hi). cbn [option_map].
  eexists. split; [reflexivity|]. rewrite hwires_items.
  apply (subitems_below_spec s keep_all t lw Hn Hi (keep_all_inner s)).
  - intro x. apply cables_nodup. exact I.
  - intro q. apply (i1_nodup s I).
  - reflexivity.
Qed.

(* the recursive wire query and the closure universe agree as sets (same spec, both NoDup) *)
Corollary hwires_netlist_all_hwires : forall s n t l l',
  Inv1a s -> WFk s -> acyclic s -> top s n = Some t -> is_valid s [t] = true ->
  get_hwires_netlist s n true = Some l -> all_hwires s n = Some l' ->
  forall h, In h l <-> In h l'.
Proof.
  intros s n t l l' I W A Ht Hv H1 H2 h.
  destruct (enum_wires_spec s n t I W A Ht Hv) as (m & E1 & _ & S1).
  destruct (all_hwires_spec s n t I W A Ht) as (m' & E2 & _ & S2).
  rewrite H1 in E1. rewrite H2 in E2. inversion E1; inversion E2; subst.
  rewrite S1, S2. reflexivity.
Qed.

(* ---- non-recursive variants: only the top instance is in scope; no walk, hence neither WFk
        nor acyclicity is needed ---- *)
Theorem enum_ports_nonrec_spec : forall s n t,
  Inv1a s -> top s n = Some t -> is_valid s [t] = true ->
  exists l, get_hports_netlist s n false = Some l /\ NoDup l /\
            (forall h, In h l <-> exists q, h = [q; t] /\ In q (ports_of s t)).
Proof.
  intros s n t I Ht Hv.
  unfold get_hports_netlist, netlist_contents, top_href, hports_below, scope. rewrite Ht, Hv.
  cbn [option_map flat_map]. rewrite app_nil_r, hports_items.
  eexists. split; [reflexivity|]. split.
  - apply items_at_nodup. intro x. apply ports_nodup. exact I.
  - intro h. rewrite items_at_in. split.
    + intros (q & x & r & E & -> & Hq). inversion E; subst. exists q. split; [reflexivity|exact Hq].
    + intros (q & -> & Hq). exists q, t, []. repeat split. exact Hq.
Qed.

Theorem enum_pins_nonrec_spec : forall s n t,
  Inv1a s -> top s n = Some t -> is_valid s [t] = true ->
  exists l, get_hpins_netlist s n false = Some l /\ NoDup l /\
            (forall h, In h l <-> exists i q, h = [i; q; t] /\ In q (ports_of s t) /\
                                             In i (kids s RPins q)).
Proof.
  intros s n t I Ht Hv.
  unfold get_hpins_netlist, netlist_contents, top_href, hpins_below, scope. rewrite Ht, Hv.
  cbn [option_map flat_map]. rewrite app_nil_r, hpins_items.
  eexists. split; [reflexivity|]. split.
  - apply subitems_at_nodup; [intro x; apply ports_nodup; exact I|intro q; apply (i1_nodup s I)].
  - intro h. rewrite subitems_at_in. split.
    + intros (i & q & x & r & E & -> & Hq & Hi). inversion E; subst. exists i, q. repeat split; assumption.
    + intros (i & q & -> & Hq & Hi). exists i, q, t, []. repeat split; assumption.
Qed.

Theorem enum_cables_nonrec_spec : forall s n t,
  Inv1a s -> top s n = Some t -> is_valid s [t] = true ->
  exists l, get_hcables_netlist s n false = Some l /\ NoDup l /\
            (forall h, In h l <-> exists c, h = [c; t] /\ In c (cables_of s t)).
Proof.
  intros s n t I Ht Hv.
  unfold get_hcables_netlist, netlist_contents, top_href, hcables_below, scope. rewrite Ht, Hv.
  cbn [option_map flat_map]. rewrite app_nil_r, hcables_items.
  eexists. split; [reflexivity|]. split.
  - apply items_at_nodup. intro x. apply cables_nodup. exact I.
  - intro h. rewrite items_at_in. split.
    + intros (q & x & r & E & -> & Hq). inversion E; subst. exists q. split; [reflexivity|exact Hq].
    + intros (q & -> & Hq). exists q, t, []. repeat split. exact Hq.
Qed.

Theorem enum_wires_nonrec_spec : forall s n t,
  Inv1a s -> top s n = Some t -> is_valid s [t] = true ->
  exists l, get_hwires_netlist s n false = Some l /\ NoDup l /\
            (forall h, In h l <-> exists w c, h = [w; c; t] /\ In c (cables_of s t) /\
                                             In w (kids s RWires c)).
Proof.
  intros s n t I Ht Hv.
  unfold get_hwires_netlist, netlist_contents, top_href, hwires_below, scope. rewrite Ht, Hv.
  cbn [option_map flat_map]. rewrite app_nil_r, hwires_items.
  eexists. split; [reflexivity|]. split.
  - apply subitems_at_nodup; [intro x; apply cables_nodup; exact I|intro q; apply (i1_nodup s I)].
  - intro h. rewrite subitems_at_in. split.
    + intros (i & q & x & r & E & -> & Hq & Hi). inversion E; subst. exists i, q. repeat split; assumption.
    + intros (i & q & -> & Hq & Hi). exists i, q, t, []. repeat split; assumption.
Qed.

(* when the root reference is not valid the four contents queries report nothing (the
   work-list drops it), whereas get_hinstances still enumerates: the validity hypothesis above
   cannot be dropped *)
Lemma contents_invalid_root below s n t rec :
  top s n = Some t -> is_valid s [t] = false -> netlist_contents below s n rec = Some [].
Proof. intros Ht Hv. unfold netlist_contents, top_href. rewrite Ht, Hv. reflexivity. Qed.

(* ------------------------------------------------------------------------------------------ *)
(* D. the hypotheses are satisfiable: netlist 0, library 1, definitions 2 (A) and 3 (B),
      top instance 4 of A, child 5 of A referencing B                                          *)

Definition ex_state : state :=
  mkState 6
    (fun x => match x with
              | 0 => Some KNetlist | 1 => Some KLibrary | 2 => Some KDefinition
              | 3 => Some KDefinition | 4 => Some KInstance | 5 => Some KInstance
              | _ => None end)
    (fun r p => match r, p with
                | RLibs, 0 => [1] | RDefs, 1 => [2; 3] | RChildren, 2 => [5]
                | _, _ => [] end)
    (fun r c => match r, c with
                | RLibs, 1 => Some 0 | RDefs, 2 => Some 1 | RDefs, 3 => Some 1
                | RChildren, 5 => Some 2
                | _, _ => None end)
    (wpins init) (ipwire init)
    (fun x => match x with 4 => Some 2 | 5 => Some 3 | _ => None end)
    (fun d => match d with 2 => [4] | 3 => [5] | _ => [] end)
    (ipins init)
    (fun n => match n with 0 => Some 4 | _ => None end)
    (fun x => match x with 4 => true | _ => false end)
    (bdownto init) (bscalar init) (blower init) (pdir init) (data init) (nstab init)
    PolDefault [].

Lemma ex_child c x : child ex_state c x -> x = 4 /\ c = 5.
Proof.
  unfold child, sub. cbn.
  destruct x as [|[|[|[|[|[|x]]]]]]; cbn; try contradiction.
  intros [<-|[]]. split; reflexivity.
Qed.

Lemma ex_inv1a : Inv1a ex_state.
Proof.
  constructor.
  - intros r p x. destruct r; cbn;
      destruct p as [|[|[|p]]]; destruct x as [|[|[|[|[|[|x]]]]]]; cbn;
      split; intro H; try reflexivity; try discriminate; try contradiction;
      try (repeat destruct H as [H|H]; try discriminate H; contradiction);
      try (left; reflexivity); try (right; left; reflexivity).
  - intros r p. destruct r; cbn; destruct p as [|[|[|p]]]; cbn;
      repeat (constructor; cbn; try (intros [H|H]; [discriminate H|exact H]); try (intros []));
      try (intro H; exact H).
Qed.

Lemma ex_wfk : WFk ex_state.
Proof.
  constructor.
  - intros r p c. destruct r; cbn; destruct p as [|[|[|p]]]; cbn; try contradiction;
      intro H; repeat destruct H as [<-|H]; try reflexivity; try contradiction.
  - intros r p c. destruct r; cbn; destruct p as [|[|[|p]]]; cbn; try contradiction;
      intros _; reflexivity.
  - intros x d. cbn. destruct x as [|[|[|[|[|[|x]]]]]]; cbn; try discriminate; reflexivity.
  - intros r p c. destruct r; cbn; destruct p as [|[|[|p]]]; cbn; try contradiction;
      intro H; repeat destruct H as [<-|H]; try lia; try contradiction.
  - intros x d. cbn. destruct x as [|[|[|[|[|[|x]]]]]]; cbn; try discriminate; lia.
Qed.

Lemma ex_acyclic : acyclic ex_state.
Proof.
  intro x. constructor. intros c H. apply ex_child in H as [-> ->].
  constructor. intros c' H'. apply ex_child in H' as [E _]. discriminate.
Qed.

Example enum_hyps_satisfiable :
  exists s, Inv1a s /\ WFk s /\ acyclic s /\ exists n t, top s n = Some t /\ sub s t <> [].
Proof.
  exists ex_state. split; [exact ex_inv1a|]. split; [exact ex_wfk|]. split; [exact ex_acyclic|].
  exists 0, 4. split; [reflexivity|]. cbn. discriminate.
Qed.

(* the extra hypothesis of the contents theorems holds on the same state, and the recursive
   instance query computes the expected single path below the top instance *)
Example ex_valid_root : is_valid ex_state [4] = true.
Proof. reflexivity. Qed.

Example ex_instances : get_hinstances_netlist ex_state 0 true = Some [[5; 4]].
Proof. reflexivity. Qed.

Print Assumptions chain_nodup.
Print Assumptions chain_length.
Print Assumptions walk_fuel_sufficient.
Print Assumptions walk_spec.
Print Assumptions ext_all_rpath.
Print Assumptions all_ipaths_spec.
Print Assumptions enum_instances_spec.
Print Assumptions enum_instances_nonrec_spec.
Print Assumptions enum_ports_spec.
Print Assumptions enum_pins_spec.
Print Assumptions enum_cables_spec.
Print Assumptions enum_wires_spec.
Print Assumptions all_hwires_spec.
Print Assumptions hwires_netlist_all_hwires.
Print Assumptions enum_ports_nonrec_spec.
Print Assumptions enum_pins_nonrec_spec.
Print Assumptions enum_cables_nonrec_spec.
Print Assumptions enum_wires_nonrec_spec.
Print Assumptions contents_invalid_root.
Print Assumptions enum_hyps_satisfiable.
Print Assumptions ex_valid_root.
Print Assumptions ex_instances.
