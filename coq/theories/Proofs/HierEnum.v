(* C11, enumeration: the depth-first walks of get_hinstances / get_hports / get_hpins /
   get_hcables / get_hwires (Hier/Enum.v) terminate with the fuel they are given on every
   acyclic well-kinded netlist, and return exactly the occurrences of the elaborated design
   (Hier/Paths.v), each once.

   A. fuel sufficiency from acyclicity (pigeonhole on the ids of a chain)
   B. exactness of [walk]: it enumerates, without duplicates, the extensions of its start
   C. consequences for the netlist-rooted queries
   D. the hypotheses are satisfiable (a concrete two-level netlist) *)
From Coq Require Import List Arith Bool Lia Relations Wellfounded.
From SV Require Import Base.Base IR.State Proofs.Inv1a Proofs.Inv2a Hier.Paths Hier.Enum.
Import ListNotations.

(* ------------------------------------------------------------------------------------------ *)
(* specification side                                                                          *)

(* p extends h by children accepted by keep *)
Inductive ext (s : state) (keep : id -> bool) (h : href) : href -> Prop :=
| ext_refl : ext s keep h h
| ext_step c x p : ext s keep h (x :: p) -> In c (sub s x) -> keep c = true ->
                   ext s keep h (c :: x :: p).

(* a chain: every element is a child of the next one *)
Fixpoint is_chain (s : state) (h : href) : Prop :=
  match h with
  | c :: ((x :: _) as r) => child s c x /\ is_chain s r
  | _ => True
  end.

(* ------------------------------------------------------------------------------------------ *)
(* list helpers                                                                                *)

Lemma nodup_app {A} (x y : list A) :
  NoDup x -> NoDup y -> (forall a, In a x -> In a y -> False) -> NoDup (x ++ y).
Proof.
  induction x as [|a x IH]; intros Hx Hy Hd; [exact Hy|].
  inversion Hx as [|? ? Ha Hx']; subst. cbn. constructor.
  - rewrite in_app_iff. intros [H|H]; [contradiction|]. apply (Hd a); [left; reflexivity|exact H].
  - apply IH; [assumption|assumption|]. intros b Hb. apply Hd. right. exact Hb.
Qed.

Lemma nodup_map_inj {A B} (f : A -> B) (l : list A) :
  (forall a b, In a l -> In b l -> f a = f b -> a = b) -> NoDup l -> NoDup (map f l).
Proof.
  intros Hinj. induction 1 as [|a l Ha Hl IH]; cbn; constructor.
  - rewrite in_map_iff. intros (b & Hb & Hin). apply Ha.
    rewrite (Hinj a b); [exact Hin|left; reflexivity|right; exact Hin|symmetry; exact Hb].
  - apply IH. intros b c Hb Hc. apply Hinj; right; assumption.
Qed.

Lemma nodup_flat_map {A B} (f : A -> list B) (l : list A) :
  NoDup l -> (forall a, In a l -> NoDup (f a)) ->
  (forall a b y, In a l -> In b l -> In y (f a) -> In y (f b) -> a = b) ->
  NoDup (flat_map f l).
Proof.
  induction 1 as [|a l Ha Hl IH]; intros H1 H2; cbn; [constructor|].
  apply nodup_app.
  - apply H1. left; reflexivity.
  - apply IH; [intros; apply H1; right; assumption|].
    intros b c y Hb Hc. apply H2; right; assumption.
  - intros y Hy Hy'. apply in_flat_map in Hy' as (b & Hb & Hyb).
    apply Ha. rewrite (H2 a b y); [exact Hb|left; reflexivity|right; exact Hb|exact Hy|exact Hyb].
Qed.

Lemma app_mid_inj {A} (q q' : list A) c c' h : q ++ c :: h = q' ++ c' :: h -> c = c'.
Proof.
  intro H.
  change (q ++ [c] ++ h = q' ++ [c'] ++ h) in H. rewrite !app_assoc in H.
  apply app_inv_tail in H. apply app_inj_tail in H. apply H.
Qed.

Lemma app_self_absurd {A} (q : list A) c h : h = q ++ c :: h -> False.
Proof.
  intro H. apply (f_equal (@length A)) in H. rewrite app_length in H. cbn in H. lia.
Qed.

(* ---- flat_opt ---- *)
Lemma flat_opt_cons {A B} (f : A -> option (list B)) a l :
  flat_opt f (a :: l) =
  match f a, flat_opt f l with Some x, Some y => Some (x ++ y) | _, _ => None end.
Proof. reflexivity. Qed.

Lemma flat_opt_some {A B} (f : A -> option (list B)) l :
  (forall a, In a l -> f a <> None) -> flat_opt f l <> None.
Proof.
  induction l as [|a l IH]; intro H; [discriminate|].
  rewrite flat_opt_cons. destruct (f a) eqn:E.
  - destruct (flat_opt f l) eqn:E2; [discriminate|]. exfalso.
    apply IH; [intros; apply H; right; assumption|reflexivity].
  - exfalso. apply (H a); [left; reflexivity|exact E].
Qed.

Lemma flat_opt_each {A B} (f : A -> option (list B)) l r :
  flat_opt f l = Some r -> forall a, In a l -> exists x, f a = Some x.
Proof.
  revert r. induction l as [|a l IH]; intros r H b Hb; [contradiction|].
  rewrite flat_opt_cons in H. destruct (f a) as [x|] eqn:E; [|discriminate].
  destruct (flat_opt f l) as [y|] eqn:E2; [|discriminate].
  destruct Hb as [<-|Hb]; [exists x; exact E|]. apply (IH y eq_refl b Hb).
Qed.

Lemma flat_opt_in {A B} (f : A -> option (list B)) l r :
  flat_opt f l = Some r ->
  forall p, In p r <-> exists a x, In a l /\ f a = Some x /\ In p x.
Proof.
  revert r. induction l as [|a l IH]; intros r H p.
  - cbn in H. inversion H; subst. split; [contradiction|]. intros (a & x & [] & _).
  - rewrite flat_opt_cons in H. destruct (f a) as [x|] eqn:E; [|discriminate].
    destruct (flat_opt f l) as [y|] eqn:E2; [|discriminate]. inversion H; subst r.
    rewrite in_app_iff. rewrite (IH y eq_refl p). split.
    + intros [Hp|(b & z & Hb & Hz & Hp)].
      * exists a, x. repeat split; [left; reflexivity|exact E|exact Hp].
      * exists b, z. repeat split; [right; exact Hb|exact Hz|exact Hp].
    + intros (b & z & [<-|Hb] & Hz & Hp).
      * left. rewrite E in Hz. inversion Hz; subst; assumption.
      * right. exists b, z. repeat split; assumption.
Qed.

Lemma flat_opt_nodup {A B} (f : A -> option (list B)) l r :
  flat_opt f l = Some r -> NoDup l ->
  (forall a x, In a l -> f a = Some x -> NoDup x) ->
  (forall a b x y p, In a l -> In b l -> f a = Some x -> f b = Some y ->
                     In p x -> In p y -> a = b) ->
  NoDup r.
Proof.
  revert r. induction l as [|a l IH]; intros r H Hnd H1 H2.
  - cbn in H. inversion H. constructor.
  - rewrite flat_opt_cons in H. destruct (f a) as [x|] eqn:E; [|discriminate].
    destruct (flat_opt f l) as [y|] eqn:E2; [|discriminate]. inversion H; subst r.
    inversion Hnd as [|? ? Hna Hnl]; subst. apply nodup_app.
    + apply (H1 a x); [left; reflexivity|exact E].
    + apply (IH y eq_refl Hnl).
      * intros b z Hb. apply H1. right; exact Hb.
      * intros b c z w p Hb Hc. apply H2; right; assumption.
    + intros p Hpx Hpy. apply (flat_opt_in _ _ _ E2) in Hpy as (b & z & Hb & Hz & Hp).
      apply Hna. rewrite (H2 a b x z p); [exact Hb|left; reflexivity|right; exact Hb|exact E|exact Hz|exact Hpx|exact Hp].
Qed.

(* ---- walk ---- *)
Lemma walk_S s keep f x r :
  walk s keep (S f) (x :: r) =
  match flat_opt (fun c => walk s keep f (c :: x :: r)) (filter keep (sub s x)) with
  | Some l => Some ((x :: r) :: l)
  | None => None
  end.
Proof. reflexivity. Qed.

Lemma walk_head s keep fuel h l :
  h <> [] -> walk s keep fuel h = Some l -> exists l', l = h :: l'.
Proof.
  intros Hne H. destruct fuel as [|f]; [discriminate|].
  destruct h as [|x r]; [congruence|]. rewrite walk_S in H.
  destruct (flat_opt _ _) as [l'|]; [|discriminate]. inversion H. exists l'. reflexivity.
Qed.

(* ------------------------------------------------------------------------------------------ *)
(* A. fuel sufficiency from acyclicity                                                         *)

Lemma acc_irrefl {A} (R : A -> A -> Prop) x : Acc R x -> ~ R x x.
Proof. induction 1 as [x _ IH]. intro Hx. exact (IH x Hx Hx). Qed.

Lemma acc_no_cycle {A} (R : A -> A -> Prop) x : Acc R x -> ~ clos_trans A R x x.
Proof. intro H. apply acc_irrefl. apply Acc_clos_trans. exact H. Qed.

Lemma chain_cons2 s c x r : is_chain s (c :: x :: r) <-> child s c x /\ is_chain s (x :: r).
Proof. reflexivity. Qed.

Lemma chain_tail s c r : is_chain s (c :: r) -> is_chain s r.
Proof. destruct r; [intros _; exact I|]. intro H. apply chain_cons2 in H. apply H. Qed.

Lemma chain_reach s r : forall c y, is_chain s (c :: r) -> In y r -> clos_trans id (child s) c y.
Proof.
  induction r as [|x r IH]; intros c y Hc Hy; [contradiction|].
  apply chain_cons2 in Hc. destruct Hc as [Hcx Hr]. destruct Hy as [<-|Hy].
  - apply t_step. exact Hcx.
  - eapply t_trans; [apply t_step; exact Hcx|apply IH; assumption].
Qed.

Lemma chain_nodup : forall s h, acyclic s -> is_chain s h -> NoDup h.
Proof.
  intros s h Ha. induction h as [|c r IH]; intro Hc; constructor.
  - intro Hin. apply (acc_no_cycle (child s) c (Ha c)). eapply chain_reach; eassumption.
  - apply IH. eapply chain_tail; eassumption.
Qed.

Lemma child_lt s c x : WFk s -> child s c x -> c < next s /\ x < next s.
Proof.
  intros W H. unfold child, sub in H. destruct (iref s x) as [d|] eqn:E; [|contradiction].
  split; [exact (wk_range_kids s W _ _ _ H)|exact (wk_range_iref s W _ _ E)].
Qed.

(* every element of a chain with at least two elements is an allocated id: all but the last are
   children, all but the first have a child, hence a reference *)
Lemma chain_bound s : WFk s ->
  forall r c x, is_chain s (c :: x :: r) -> forall y, In y (c :: x :: r) -> y < next s.
Proof.
  intros W. induction r as [|z r IH]; intros c x Hc y Hy;
    apply chain_cons2 in Hc; destruct Hc as [Hcx Hr];
    destruct (child_lt _ _ _ W Hcx) as [H1 H2].
  - destruct Hy as [<-|[<-|[]]]; assumption.
  - destruct Hy as [<-|Hy]; [assumption|]. eapply IH; eassumption.
Qed.

Lemma chain_length : forall s h,
  WFk s -> acyclic s -> is_chain s h -> 2 <= length h -> length h <= next s.
Proof.
  intros s h W A Hc Hl. destruct h as [|c [|x r]]; cbn in Hl; try lia.
  rewrite <- (seq_length (next s) 0). apply NoDup_incl_length.
  - apply (chain_nodup s); assumption.
  - intros y Hy. apply in_seq. split; [lia|]. cbn. eapply chain_bound; eassumption.
Qed.

Lemma walk_fuel_gen s keep : WFk s -> acyclic s ->
  forall fuel h, h <> [] -> is_chain s h -> next s + 2 <= fuel + length h ->
                 walk s keep fuel h <> None.
Proof.
  intros W A. induction fuel as [|f IH]; intros h Hne Hc Hl.
  - exfalso. cbn in Hl. assert (length h <= next s) by (apply chain_length; auto; lia). lia.
  - destruct h as [|x r]; [congruence|]. rewrite walk_S.
    destruct (flat_opt _ _) eqn:E; [discriminate|]. exfalso. revert E. apply flat_opt_some.
    intros c Hin. apply filter_In in Hin as [Hin _]. apply IH.
    + discriminate.
    + apply chain_cons2. split; assumption.
    + cbn [length] in *. lia.
Qed.

Theorem walk_fuel_sufficient : forall s keep t,
  WFk s -> acyclic s -> walk s keep (depth_fuel s) [t] <> None.
Proof.
  intros s keep t W A. apply walk_fuel_gen; try assumption.
  - discriminate.
  - exact I.
  - unfold depth_fuel. cbn. lia.
Qed.

(* ------------------------------------------------------------------------------------------ *)
(* B. exactness of the walk                                                                    *)

Lemma ext_suffix s keep h p : ext s keep h p -> exists q, p = q ++ h.
Proof.
  induction 1 as [|c x p _ [q Hq] _ _]; [exists []; reflexivity|].
  exists (c :: q). rewrite Hq. reflexivity.
Qed.

Lemma ext_nonempty s keep h p : h <> [] -> ext s keep h p -> p <> [].
Proof. intros Hne H. destruct H; [assumption|discriminate]. Qed.

Lemma ext_push s keep c x r p :
  In c (sub s x) -> keep c = true -> ext s keep (c :: x :: r) p -> ext s keep (x :: r) p.
Proof.
  intros Hc Hk. induction 1.
  - apply ext_step; [apply ext_refl|assumption|assumption].
  - apply ext_step; assumption.
Qed.

Lemma ext_inv s keep x r p :
  ext s keep (x :: r) p ->
  p = x :: r \/ exists c, In c (sub s x) /\ keep c = true /\ ext s keep (c :: x :: r) p.
Proof.
  induction 1 as [|c y p H IH Hc Hk]; [left; reflexivity|]. right.
  destruct IH as [E|(c' & H1 & H2 & H3)].
  - inversion E; subst. exists c. repeat split; try assumption. apply ext_refl.
  - exists c'. repeat split; try assumption. apply ext_step; assumption.
Qed.

Lemma sub_nodup s x : Inv1a s -> NoDup (sub s x).
Proof. intro I. unfold sub. destruct (iref s x); [apply (i1_nodup s I)|constructor]. Qed.

Lemma walk_gen s keep : Inv1a s ->
  forall fuel h l, h <> [] -> walk s keep fuel h = Some l ->
                   NoDup l /\ forall p, In p l <-> ext s keep h p.
Proof.
  intros I. induction fuel as [|f IH]; intros h l Hne H; [discriminate|].
  destruct h as [|x r]; [congruence|]. rewrite walk_S in H.
  destruct (flat_opt _ _) as [l'|] eqn:E; [|discriminate]. inversion H; subst l. clear H.
  assert (Hin : forall p, In p l' <->
            exists c, In c (sub s x) /\ keep c = true /\ ext s keep (c :: x :: r) p).
  { intro p. rewrite (flat_opt_in _ _ _ E p). split.
    - intros (c & lc & Hc & Hw & Hp). apply filter_In in Hc as [Hc Hk].
      exists c. repeat split; try assumption.
      apply (IH (c :: x :: r) lc); [discriminate|exact Hw|exact Hp].
    - intros (c & Hc & Hk & He).
      assert (Hf : In c (filter keep (sub s x))) by (apply filter_In; split; assumption).
      destruct (flat_opt_each _ _ _ E c Hf) as [lc Hw].
      exists c, lc. repeat split; try assumption.
      apply (IH (c :: x :: r) lc); [discriminate|exact Hw|exact He]. }
  split.
  - constructor.
    + intro Hh. apply Hin in Hh as (c & _ & _ & He). apply ext_suffix in He as [q Hq].
      exact (app_self_absurd _ _ _ Hq).
    + eapply flat_opt_nodup; [exact E| | |].
      * apply NoDup_filter. apply sub_nodup. exact I.
      * intros c lc _ Hw. apply (IH (c :: x :: r) lc); [discriminate|exact Hw].
      * intros a b la lb p _ _ Ha Hb Hpa Hpb.
        apply (IH (a :: x :: r) la) in Hpa; [|discriminate|exact Ha].
        apply (IH (b :: x :: r) lb) in Hpb; [|discriminate|exact Hb].
        apply ext_suffix in Hpa as [q Hq]. apply ext_suffix in Hpb as [q' Hq'].
        rewrite Hq in Hq'. exact (app_mid_inj _ _ _ _ _ Hq').
  - intro p. cbn [In]. rewrite Hin. split.
    + intros [<-|(c & Hc & Hk & He)]; [apply ext_refl|]. eapply ext_push; eassumption.
    + intro He. apply ext_inv in He as [->|He]; [left; reflexivity|right; exact He].
Qed.

Theorem walk_spec : forall s keep t l,
  Inv1a s -> walk s keep (depth_fuel s) [t] = Some l ->
  NoDup l /\ (forall p, In p l <-> ext s keep [t] p).
Proof. intros s keep t l I H. eapply walk_gen; [exact I|discriminate|exact H]. Qed.

(* whatever the filter, an extension is an instance path *)
Lemma ext_rpath s keep t p : ext s keep [t] p -> is_rpath s t p.
Proof. induction 1; [apply rp_top|apply rp_child; assumption]. Qed.

(* an instance path goes through kept children only, as soon as the filter accepts every child
   that has children itself and the last instance of the path *)
Lemma rpath_ext s keep t :
  (forall c y, child s c y -> sub s c <> [] -> keep c = true) ->
  forall p, is_rpath s t p ->
            match p with x :: _ :: _ => keep x = true | _ => True end ->
            ext s keep [t] p.
Proof.
  intros K. induction 1 as [|c x p H IH Hc]; intro Hk; [apply ext_refl|].
  apply ext_step; [apply IH|exact Hc|exact Hk].
  destruct p as [|y p']; [exact I|]. apply K with y.
  - inversion H; subst; assumption.
  - intro E. unfold child in Hc. rewrite E in Hc. contradiction.
Qed.

Lemma ext_all_rpath : forall s t p, ext s keep_all [t] p <-> is_rpath s t p.
Proof.
  intros s t p. split; [apply ext_rpath|]. intro H. apply rpath_ext; [reflexivity|exact H|].
  destruct p as [|? [|? ?]]; first [exact I|reflexivity].
Qed.

(* ------------------------------------------------------------------------------------------ *)
(* C. the netlist-rooted queries                                                               *)

Theorem all_ipaths_spec : forall s n t,
  Inv1a s -> WFk s -> acyclic s -> top s n = Some t ->
  exists l, all_ipaths s n = Some l /\ NoDup l /\ (forall p, In p l <-> is_rpath s t p).
Proof.
  intros s n t I W A Ht. unfold all_ipaths, top_href. rewrite Ht.
  destruct (walk s keep_all (depth_fuel s) [t]) as [l|] eqn:E;
    [|exfalso; exact (walk_fuel_sufficient s keep_all t W A E)].
  exists l. destruct (walk_spec _ _ _ _ I E) as [Hn Hi]. repeat split; try assumption.
  - intro H. apply ext_all_rpath, Hi, H.
  - intro H. apply Hi, ext_all_rpath, H.
Qed.

Theorem enum_instances_spec : forall s n t,
  Inv1a s -> WFk s -> acyclic s -> top s n = Some t ->
  exists l, get_hinstances_netlist s n true = Some l /\ NoDup l /\
            (forall p, In p l <-> (is_rpath s t p /\ p <> [t])).
Proof.
  intros s n t I W A Ht. unfold get_hinstances_netlist, top_href, hinstances_below. rewrite Ht.
  destruct (walk s keep_all (depth_fuel s) [t]) as [l|] eqn:E;
    [|exfalso; exact (walk_fuel_sufficient s keep_all t W A E)].
  destruct (walk_spec _ _ _ _ I E) as [Hn Hi].
  assert (Hnil : [t] <> []) by discriminate.
  destruct (walk_head _ _ _ _ _ Hnil E) as [l' ->].
  exists l'. cbn. inversion Hn as [|? ? Hnot Hn']; subst. repeat split; try assumption.
  - apply ext_all_rpath, Hi. right. assumption.
  - intros ->. contradiction.
  - intros [Hp Hne]. apply ext_all_rpath, Hi in Hp. destruct Hp as [<-|Hp]; [congruence|exact Hp].
Qed.

Theorem enum_instances_nonrec_spec : forall s n t,
  Inv1a s -> top s n = Some t ->
  exists l, get_hinstances_netlist s n false = Some l /\ NoDup l /\
            (forall p, In p l <-> exists c, child s c t /\ p = [c; t]).
Proof.
  intros s n t I Ht. unfold get_hinstances_netlist, top_href, hinstances_below. rewrite Ht.
  eexists. split; [reflexivity|]. split.
  - apply nodup_map_inj; [|apply sub_nodup; exact I]. intros a b _ _ H. inversion H. reflexivity.
  - intro p. rewrite in_map_iff. unfold child. split.
    + intros (c & <- & Hc). exists c. split; [exact Hc|reflexivity].
    + intros (c & Hc & ->). exists c. split; [reflexivity|exact Hc].
Qed.
