(* get_wires, selections INSIDE / OUTSIDE / BOTH: the wires returned are exactly those named by the
   declarative specification, for every kind of root (query_wires_spec). *)
From Coq Require Import List Arith Bool Lia Relations.
From SV Require Import Base.Base IR.State IR.NS IR.Ops Proofs.Inv1a Proofs.Inv2a Proofs.InvW Proofs.AssocX
  Hier.Paths Hier.Enum Hier.Trace Proofs.KindD Query.Filter Query.Enum Query.EnumSpec
  Proofs.QueryEnumWL Proofs.QueryEnumBase Proofs.QueryEnumView Proofs.QueryEnumPorts Proofs.QueryEnumPins
  Proofs.QueryEnumCables Proofs.QueryEnumWires.
Import ListNotations.

Lemma plain_wires s rec x y : Forall plain (acts_wires s rec x y).
Proof.
  assert (Hm : forall {A} (f : A -> act wout) l, (forall a, plain (f a)) -> Forall plain (map f l)).
  { intros A0 f l H. apply Forall_forall. intros a Ha. apply in_map_iff in Ha as (z & <- & _). apply H. }
  destruct y as [e|n i| |h]; cbn [acts_wires].
  - destruct (kind_of s e) as [[]|]; try apply plain_push_ids; try apply plain_push_opt; try (repeat constructor; fail).
    + apply Forall_app. split.
      * destruct (sel_ia x); [|constructor]. apply Forall_app. split; [apply Hm; intro; exact I|]. destruct (rec || sel_all x); [apply plain_push_ids|constructor].
      * destruct (sel_out x); [apply Hm; intro; exact I|constructor].
    + apply Hm. intro; exact I.
    + destruct x; try (repeat constructor; fail); try (apply Hm; intro; exact I).
      apply plain_flat_map. intro q. destruct q as [j|m j|]; [|apply Hm; intro; exact I|constructor].
      destruct (par s RWires e); [|constructor]. destruct (par s RCables i); [apply Hm; intro; exact I|constructor].
  - repeat constructor.
  - repeat constructor.
  - apply plain_push_opt.
Qed.

(* ---- the second loop, when no new pins are collected (selection not ALL) ---- *)
Section Rounds.
Variable s : state.
Variable x : sel.
Hypothesis Hx : sel_all x = false.

Lemma look_mem ws : forall iny ys news iny' ys' news',
  look s x ws (iny, ys, news) = (iny', ys', news') ->
  news' = news /\ (forall w, In w iny' <-> In w iny \/ In w ws) /\
  (forall w, In w ys' <-> In w ys \/ (In w ws /\ ~ In w iny)).
Proof.
  induction ws as [|w0 ws IH]; intros iny ys news iny' ys' news' H; cbn [look] in H.
  - injection H as <- <- <-. split; [reflexivity|]. split; intro w; cbn; tauto.
  - destruct (memb w0 iny) eqn:Em.
    + apply memb_In in Em. apply IH in H as (Hn & H1 & H2). split; [exact Hn|]. split; intro w.
      * rewrite H1. cbn. split; [tauto|]. intros [H|[<-|H]]; tauto.
      * rewrite H2. cbn. split; [tauto|]. intros [H|[[<-|H] Hni]]; tauto.
    + apply memb_false in Em. rewrite Hx in H. apply IH in H as (Hn & H1 & H2). split; [exact Hn|]. split; intro w.
      * rewrite H1. cbn. tauto.
      * rewrite H2. cbn. split.
        -- intros [[<-|H]|[H Hni]]; [right; split; [left; reflexivity|exact Em]|left; exact H|right; split; [right; exact H|tauto]].
        -- intros [H|[[<-|H] Hni]]; [left; right; exact H|left; left; reflexivity|].
           destruct (Nat.eq_dec w0 w) as [->|Hne]; [left; left; reflexivity|right; split; [exact H|]]. intros [E|Hi]; [congruence|contradiction].
Qed.

Lemma fold_look_mem pins : forall iny ys iny' ys' news',
  fold_left (fun st p => look s x (pin_cands s x p) st) pins (iny, ys, []) = (iny', ys', news') ->
  news' = [] /\ (forall w, In w iny' <-> In w iny \/ exists q, In q pins /\ In w (pin_cands s x q)) /\
  (forall w, In w ys' <-> In w ys \/ ((exists q, In q pins /\ In w (pin_cands s x q)) /\ ~ In w iny)).
Proof.
  induction pins as [|p pins IH]; intros iny ys iny' ys' news' H; cbn [fold_left] in H.
  - injection H as <- <- <-. split; [reflexivity|]. split; intro w.
    + split; [tauto|]. intros [H|(q & [] & _)]. exact H.
    + split; [tauto|]. intros [H|((q & [] & _) & _)]. exact H.
  - destruct (look s x (pin_cands s x p) (iny, ys, [])) as [[iny1 ys1] news1] eqn:E.
    apply look_mem in E as (-> & E1 & E2). apply IH in H as (Hn & H1 & H2). split; [exact Hn|]. split; intro w.
    + rewrite H1, E1. split.
      * intros [[H|H]|(q & Hq & H)]; [left; exact H|right; exists p; split; [left; reflexivity|exact H]|right; exists q; split; [right; exact Hq|exact H]].
      * intros [H|(q & [<-|Hq] & H)]; [left; left; exact H|left; right; exact H|right; exists q; auto].
    + rewrite H2, E2, E1. split.
      * intros [[H|[H Hni]]|[(q & Hq & H) Hni]].
        -- left; exact H.
        -- right. split; [exists p; split; [left; reflexivity|exact H]|exact Hni].
        -- right. split; [exists q; split; [right; exact Hq|exact H]|]. intro Hi. apply Hni. left. exact Hi.
      * intros [H|[(q & [<-|Hq] & H) Hni]]; [left; left; exact H|left; right; auto|].
        destruct (in_dec Nat.eq_dec w (pin_cands s x p)) as [Hp|Hp]; [left; right; auto|].
        right. split; [exists q; auto|]. intros [Hi|Hi]; contradiction.
Qed.

Lemma rounds_mem fuel pins y1 res : rounds s x fuel pins y1 [] = WOk res ->
  forall w, In w (y1 ++ res) <-> In w y1 \/ exists q, In q pins /\ In w (pin_cands s x q).
Proof.
  intros H w. destruct pins as [|p pins].
  - assert (E : res = []) by (destruct fuel; cbn in H; injection H as <-; reflexivity). subst res. rewrite app_nil_r.
    split; [tauto|]. intros [H'|(q & [] & _)]. exact H'.
  - destruct fuel as [|f]; cbn [rounds] in H; [discriminate H|].
    destruct (existsb (bad_search s x) (p :: pins)); [discriminate H|].
    destruct (fold_left (fun st p0 => look s x (pin_cands s x p0) st) (p :: pins) (y1, [], [])) as [[iny' ys'] news] eqn:E.
    apply fold_look_mem in E as (-> & _ & E2). cbn [dedup_pins_acc] in H.
    assert (E : res = rev ys') by (destruct f; cbn in H; injection H as <-; reflexivity). subst res.
    rewrite in_app_iff, <- in_rev, E2. cbn [In]. split; [tauto|].
    intros [H'|H']; [left; exact H'|]. destruct (in_dec Nat.eq_dec w y1) as [Hi|Hi]; [left; exact Hi|right; right; auto].
Qed.
End Rounds.

Section WSpec.
Variable s : state.
Hypothesis W : QWF s.
Variable rec : bool.
Notation A x := (acts_wires s rec x).
Notation Em x := (Emits (acts_wires s rec x)).

Lemma in_opt_wire o w : In w (opt_wire o) <-> o = Some w.
Proof. destruct o as [v|]; cbn; split; [intros [<-|[]]; reflexivity|intro E; injection E as <-; left; reflexivity|intros []|discriminate]. Qed.
Lemma in_outer_wires refs i w : In w (outer_wires s refs i) <-> exists n, In n refs /\ pin_wire s (POut n i) = Some w.
Proof.
  unfold outer_wires. rewrite in_flat_map. split; intros (n & Hn & H); exists n; (split; [exact Hn|]); apply in_opt_wire; exact H.
Qed.

(* the wires the second loop looks at for a pin = the wires on the selected side(s) of the pin *)
Lemma pin_cands_iff x q w : sel_all x = false -> (In w (pin_cands s x q) <-> pin_wires s x q w).
Proof.
  intro Hx. unfold pin_wires, inner_wire, outer_wire. destruct x; try discriminate Hx; cbn [pin_cands sel_in sel_out].
  - (* INSIDE *) destruct q as [i|n i|]; cbn [inner_of]; rewrite ?in_opt_wire.
    + split; [intro H; left; split; [reflexivity|exists i; auto]|intros [[_ (j & E & H)]|[E _]]; [injection E as <-; exact H|discriminate E]].
    + split; [intro H; left; split; [reflexivity|exists i; auto]|intros [[_ (j & E & H)]|[E _]]; [injection E as <-; exact H|discriminate E]].
    + split; [intros []|intros [[_ (j & E & _)]|[E _]]; discriminate E].
  - (* OUTSIDE *) destruct q as [i|n i|]; rewrite ?in_opt_wire, ?in_outer_wires.
    + split.
      * intros (n & Hn & H). right. split; [reflexivity|]. exists n. split; [apply (outer_opin s W); exact Hn|exact H].
      * intros [[E _]|[_ (n & Hn & H)]]; [discriminate E|]. exists n. split; [apply (outer_opin s W); exact Hn|exact H].
    + split; [intro H; right; auto|intros [[E _]|[_ H]]; [discriminate E|exact H]].
    + split; [intros []|intros [[E _]|[_ []]]; discriminate E].
  - (* BOTH *) rewrite in_app_iff, in_opt_wire. destruct q as [i|n i|]; cbn [inner_of pin_wire]; rewrite ?in_opt_wire, ?in_outer_wires.
    + split.
      * intros [H|(n & Hn & H)]; [left; split; [reflexivity|exists i; auto]|right; split; [reflexivity|]; exists n; split; [apply (outer_opin s W); exact Hn|exact H]].
      * intros [[_ (j & E & H)]|[_ (n & Hn & H)]]; [injection E as <-; left; exact H|right; exists n; split; [apply (outer_opin s W); exact Hn|exact H]].
    + split.
      * intros [H|H]; [right; auto|left; split; [reflexivity|exists i; auto]].
      * intros [[_ (j & E & H)]|[_ H]]; [injection E as <-; right; exact H|left; exact H].
    + split; [intros [E|[]]; discriminate E|intros [[_ (j & E & _)]|[_ []]]; discriminate E].
Qed.

(* ---- first loop: leaves ---- *)
Lemma w_pin x r o : kind_of s r = Some KPin -> (Em x (IE r) o <-> o = WP (PIn r)).
Proof.
  intro Hk. rewrite (emits_leaf (A x) (IE r) o) by (unfold succs; cbn [acts_wires]; rewrite Hk; reflexivity).
  unfold emits. cbn [acts_wires]. rewrite Hk. cbn. split; [intros [<-|[]]; reflexivity|intros ->; left; reflexivity].
Qed.

Lemma emit_map_out {T} (f : id -> T) l : flat_map emit_of (map (fun i => AOut (f i)) l) = map f l.
Proof. induction l as [|a l IH]; cbn; [reflexivity|f_equal; exact IH]. Qed.
Lemma succ_map_out {T} (f : id -> T) l : flat_map (@succ_of T) (map (fun i => AOut (f i)) l) = [].
Proof. induction l as [|a l IH]; cbn; [reflexivity|exact IH]. Qed.

Lemma w_port x r o : kind_of s r = Some KPort -> (Em x (IE r) o <-> exists i, par s RPins i = Some r /\ o = WP (PIn i)).
Proof.
  intro Hk. rewrite (emits_leaf (A x) (IE r) o) by (unfold succs; cbn [acts_wires]; rewrite Hk; apply (succ_map_out (fun i => WP (PIn i)))).
  unfold emits. cbn [acts_wires]. rewrite Hk, (emit_map_out (fun i => WP (PIn i))), in_map_iff.
  split; intros (i & H1 & H2); exists i; [split; [apply (kids_par s W); exact H2|symmetry; exact H1]|split; [symmetry; exact H2|apply (kids_par s W); exact H1]].
Qed.

Lemma w_wire x r o : sel_all x = false -> kind_of s r = Some KWire ->
  (Em x (IE r) o <-> (exists w, o = WY w /\ wire_yield s x r w) \/ (x = SBoth /\ exists q, o = WP q /\ pin_wire s q = Some r)).
Proof.
  intros Hx Hk.
  assert (Hs : succs (A x) (IE r) = []).
  { unfold succs. cbn [acts_wires]. rewrite Hk. destruct x; try discriminate Hx; try reflexivity.
    - rewrite flat_map_flat_map. apply flat_map_nil. intros q _. destruct q as [j|m j|]; [|apply (succ_map_out WY)|reflexivity].
      destruct (par s RWires r) as [c|]; [|reflexivity]. destruct (par s RCables c); [apply (succ_map_out WY)|reflexivity].
    - induction (wpins s r) as [|a l IH]; cbn; [reflexivity|exact IH]. }
  rewrite (emits_leaf (A x) _ _ Hs). unfold emits. cbn [acts_wires]. rewrite Hk. unfold wire_yield. destruct x; try discriminate Hx.
  - cbn. split; [intros [<-|[]]; left; exists r; auto|intros [(w & -> & ->)|(E & _)]; [left; reflexivity|discriminate E]].
  - rewrite flat_map_flat_map, in_flat_map. split.
    + intros (q & Hq & H). apply (wpins_pin_wire s W) in Hq. left. destruct q as [j|m j|]; [| |destruct H].
      * destruct (par s RWires r) as [c|] eqn:Ec; [|destruct H]. destruct (par s RCables c) as [d|] eqn:Ed; [|destruct H].
        rewrite (emit_map_out WY) in H. apply in_map_iff in H as (w & <- & Hw). apply in_outer_wires in Hw as (n & Hn & Hw).
        apply filter_In in Hn as [Hn Hst]. exists w. split; [reflexivity|]. exists (PIn j). split; [exact Hq|]. cbn.
        exists n, d. split; [exists c; auto|]. split; [apply (drefs_iref s W); exact Hn|]. split; [|exact Hw].
        unfold pin_stored_in in Hst. destruct (assoc j (ipins s n)) as [v|] eqn:Ea; [|discriminate]. apply (stored_key s W n j v Ea).
      * rewrite (emit_map_out WY) in H. apply in_map_iff in H as (w & <- & Hw). apply in_opt_wire in Hw.
        exists w. split; [reflexivity|]. exists (POut m j). auto.
    + intros [(w & -> & q & Hq & Ha)|(E & _)]; [|discriminate E]. exists q. split; [apply (wpins_pin_wire s W); exact Hq|].
      destruct q as [j|m j|]; cbn in Ha; [| |destruct Ha].
      * destruct Ha as (n & d & (c & Hc & Hd) & Hn & Ho & Hw). rewrite Hc, Hd, (emit_map_out WY). apply in_map, in_outer_wires. exists n. split; [|exact Hw].
        apply filter_In. split; [apply (drefs_iref s W); exact Hn|]. unfold pin_stored_in. cbn in Hw. destruct (assoc j (ipins s n)); [reflexivity|discriminate Hw].
      * rewrite (emit_map_out WY). apply in_map, in_opt_wire. exact Ha.
  - split.
    + intro H. right. split; [reflexivity|]. apply in_flat_map in H as (a & Ha & H). apply in_map_iff in Ha as (q & <- & Hq). destruct H as [<-|[]].
      exists q. split; [reflexivity|apply (wpins_pin_wire s W); exact Hq].
    + intros [(w & _ & [])|(_ & q & -> & Hq)]. apply in_flat_map. exists (AOut (WP q)). split; [apply in_map_iff; exists q; split; [reflexivity|apply (wpins_pin_wire s W); exact Hq]|left; reflexivity].
Qed.

Lemma w_through x x0 (ys : list item) o :
  emits (A x) (IE x0) = [] -> succs (A x) (IE x0) = ys -> (Em x (IE x0) o <-> exists y, In y ys /\ Em x y o).
Proof. intros E1 E2. rewrite (emits_through (A x) _ _ E1), E2. tauto. Qed.

Lemma w_cable x r o : sel_all x = false -> kind_of s r = Some KCable ->
  (Em x (IE r) o <-> exists w0, par s RWires w0 = Some r /\
     ((exists w, o = WY w /\ wire_yield s x w0 w) \/ (x = SBoth /\ exists q, o = WP q /\ pin_wire s q = Some w0))).
Proof.
  intros Hx Hk. rewrite (w_through x r (map IE (kids s RWires r)) o);
    [|unfold emits; cbn [acts_wires]; rewrite Hk; apply emit_push_ids|unfold succs; cbn [acts_wires]; rewrite Hk; apply succ_push_ids].
  split.
  - intros (y & Hy & H). apply in_map_iff in Hy as (w0 & <- & Hw0). apply (w_wire x w0 o Hx (kid_kind s W _ _ _ Hw0)) in H.
    exists w0. split; [apply (kids_par s W); exact Hw0|exact H].
  - intros (w0 & Hw0 & H). apply (kids_par s W) in Hw0. exists (IE w0). split; [apply in_map; exact Hw0|].
    apply (w_wire x w0 o Hx (kid_kind s W _ _ _ Hw0)). exact H.
Qed.

(* definitions, OUTSIDE / BOTH: the inner pins of the ports *)
Lemma w_def_out x d o : kind_of s d = Some KDefinition -> sel_ia x = false ->
  (Em x (IE d) o <-> sel_out x = true /\ exists p i, par s RPorts p = Some d /\ par s RPins i = Some p /\ o = WP (PIn i)).
Proof.
  intros Hk Hia.
  assert (Hacts : A x (IE d) = if sel_out x then map (fun i => AOut (WP (PIn i))) (flat_map (fun p => kids s RPins p) (kids s RPorts d)) else []).
  { cbn [acts_wires]. rewrite Hk, Hia. reflexivity. }
  assert (Hs : succs (A x) (IE d) = []) by (unfold succs; rewrite Hacts; destruct (sel_out x); [apply (succ_map_out (fun i => WP (PIn i)))|reflexivity]).
  rewrite (emits_leaf (A x) _ _ Hs). unfold emits. rewrite Hacts. destruct (sel_out x).
  - rewrite (emit_map_out (fun i => WP (PIn i))), in_map_iff. split.
    + intros (i & <- & Hi). apply in_flat_map in Hi as (p & Hp & Hi). split; [reflexivity|]. exists p, i.
      split; [apply (kids_par s W); exact Hp|split; [apply (kids_par s W); exact Hi|reflexivity]].
    + intros (_ & p & i & Hp & Hi & ->). exists i. split; [reflexivity|]. apply in_flat_map. exists p. split; apply (kids_par s W); assumption.
  - cbn. split; [intros []|intros [E _]; discriminate E].
Qed.

(* ---- INSIDE: definition -> children -> their definitions -> ... ---- *)
Notation AI := (acts_wires s rec SInside).

Definition wires_of_def (d : id) : list id := flat_map (fun c => kids s RWires c) (kids s RCables d).

Lemma in_wires_of_def w d : In w (wires_of_def d) <-> wire_in_def s w d.
Proof.
  unfold wires_of_def, wire_in_def. rewrite in_flat_map. split; intros (c & H1 & H2); exists c; (split; apply (kids_par s W); assumption).
Qed.

Lemma wi_def_view d : kind_of s d = Some KDefinition ->
  emits AI (IE d) = map WY (wires_of_def d) /\ succs AI (IE d) = if rec then map IE (kids s RChildren d) else [].
Proof.
  intro Hk. unfold emits, succs. cbn [acts_wires sel_ia sel_out sel_all]. rewrite Hk, app_nil_r, orb_false_r, !flat_map_app.
  rewrite (emit_map_out WY), (succ_map_out WY). cbn [app]. destruct rec.
  - rewrite emit_push_ids, succ_push_ids, app_nil_r. split; reflexivity.
  - cbn. rewrite app_nil_r. split; reflexivity.
Qed.

Lemma wi_inst_view n : kind_of s n = Some KInstance ->
  emits (A SInside) (IE n) = [] /\ succs (A SInside) (IE n) = match iref s n with Some r => [IE r] | None => [] end.
Proof. intro Hk. unfold emits, succs. cbn [acts_wires]. rewrite Hk, emit_push_opt, succ_push_opt. split; reflexivity. Qed.

Lemma wi_reach d y : kind_of s d = Some KDefinition -> Reach AI (IE d) y ->
  (exists d', y = IE d' /\ kind_of s d' = Some KDefinition /\ star (uses s) rec d d') \/
  (exists ch, y = IE ch /\ kind_of s ch = Some KInstance /\ rec = true /\
              match iref s ch with Some r => star (uses s) rec d r | None => True end).
Proof.
  intros Hk Hr.
  apply (reach_invariant AI (fun y =>
    (exists d', y = IE d' /\ kind_of s d' = Some KDefinition /\ star (uses s) rec d d') \/
    (exists ch, y = IE ch /\ kind_of s ch = Some KInstance /\ rec = true /\
                match iref s ch with Some r => star (uses s) rec d r | None => True end)) (IE d)) in Hr; [exact Hr| |].
  - left. exists d. split; [reflexivity|split; [exact Hk|apply star_refl]].
  - intros a b [(d' & -> & Hd' & Hs)|(ch & -> & Hc & Er & Hm)] Hb.
    + rewrite (proj2 (wi_def_view d' Hd')) in Hb. destruct (bool_cases rec) as [Er|Er]; rewrite Er in Hb; [|destruct Hb].
      apply in_map_iff in Hb as (ch & <- & Hch). right. exists ch. split; [reflexivity|]. split; [apply (kid_kind s W _ _ _ Hch)|]. split; [exact Er|].
      destruct (iref s ch) as [r|] eqn:Er'; [|exact I]. eapply star_snoc; [exact Er|exact Hs|]. exists ch. split; [apply (kids_par s W); exact Hch|exact Er'].
    + rewrite (proj2 (wi_inst_view ch Hc)) in Hb. destruct (iref s ch) as [r|] eqn:Er'; [|destruct Hb]. destruct Hb as [<-|[]].
      left. exists r. split; [reflexivity|split; [apply (iref_def_kind s W _ _ Er')|exact Hm]].
Qed.

Lemma wi_reach_def d d' : kind_of s d = Some KDefinition -> star (uses s) rec d d' -> Reach AI (IE d) (IE d').
Proof.
  intros Hk Hs. apply star_cases in Hs as [[Er Hs]|[_ <-]]; [|apply reach_refl].
  apply clos_rt_rt1n in Hs. induction Hs as [d|d r d' (ch & Hp & Hr') _ IH]; [apply reach_refl|].
  apply (kids_par s W) in Hp.
  eapply reach_step; [apply step_succs; rewrite (proj2 (wi_def_view d Hk)), Er; apply in_map; exact Hp|].
  eapply reach_step; [apply step_succs; rewrite (proj2 (wi_inst_view ch (kid_kind s W _ _ _ Hp))), Hr'; left; reflexivity|].
  apply IH. apply (iref_def_kind s W _ _ Hr').
Qed.

Lemma wi_def d o : kind_of s d = Some KDefinition ->
  (Emits AI (IE d) o <-> exists w d', o = WY w /\ star (uses s) rec d d' /\ wire_in_def s w d').
Proof.
  intro Hk. split.
  - intro H. apply emits_inv in H as (y & Hr & Ho). apply (wi_reach d y Hk) in Hr as [(d' & -> & Hd' & Hs)|(ch & -> & Hc & _)].
    + rewrite (proj1 (wi_def_view d' Hd')) in Ho. apply in_map_iff in Ho as (w & <- & Hw). exists w, d'. split; [reflexivity|split; [exact Hs|apply in_wires_of_def; exact Hw]].
    + rewrite (proj1 (wi_inst_view ch Hc)) in Ho. destruct Ho.
  - intros (w & d' & -> & Hs & Hw).
    assert (Hd' : kind_of s d' = Some KDefinition).
    { apply star_cases in Hs as [[_ Hs]|[_ <-]]; [|exact Hk]. apply clos_rt_rtn1 in Hs. destruct Hs as [|a b (ch & _ & Hr') _]; [exact Hk|apply (iref_def_kind s W _ _ Hr')]. }
    eapply emits_at; [apply (wi_reach_def d d' Hk Hs)|]. rewrite (proj1 (wi_def_view d' Hd')). apply in_map, in_wires_of_def. exact Hw.
Qed.

(* ---- definitions, instances, libraries, netlists ---- *)
Definition def_spec (x : sel) (d : id) (o : wout) : Prop :=
  (x = SInside /\ exists w d', o = WY w /\ star (uses s) rec d d' /\ wire_in_def s w d') \/
  (sel_out x = true /\ exists p i, par s RPorts p = Some d /\ par s RPins i = Some p /\ o = WP (PIn i)).

Lemma w_def x d o : sel_all x = false -> kind_of s d = Some KDefinition -> (Em x (IE d) o <-> def_spec x d o).
Proof.
  intros Hx Hk. unfold def_spec. destruct (sel_not_all x Hx) as [->|(Hia & Ho & Hn)].
  - rewrite (wi_def d o Hk). cbn [sel_out]. split; [intro H; left; auto|intros [[_ H]|[E _]]; [exact H|discriminate E]].
  - rewrite (w_def_out x d o Hk Hia). split; [intros [_ H]; right; auto|intros [[E _]|H]; [contradiction|exact H]].
Qed.

Lemma w_inst x n o : sel_all x = false -> kind_of s n = Some KInstance ->
  (Em x (IE n) o <-> exists d, iref s n = Some d /\ def_spec x d o).
Proof.
  intros Hx Hk. rewrite (w_through x n (match iref s n with Some r => [IE r] | None => [] end) o);
    [|unfold emits; cbn [acts_wires]; rewrite Hk; apply emit_push_opt|unfold succs; cbn [acts_wires]; rewrite Hk; apply succ_push_opt].
  destruct (iref s n) as [r|] eqn:Er.
  - split.
    + intros (y & [<-|[]] & H). exists r. split; [reflexivity|apply (w_def x r o Hx (iref_def_kind s W _ _ Er)); exact H].
    + intros (d & E & H). injection E as <-. exists (IE r). split; [left; reflexivity|apply (w_def x r o Hx (iref_def_kind s W _ _ Er)); exact H].
  - split; [intros (y & [] & _)|intros (d & E & _); discriminate E].
Qed.

Lemma w_lib x l o : sel_all x = false -> kind_of s l = Some KLibrary ->
  (Em x (IE l) o <-> exists d, par s RDefs d = Some l /\ def_spec x d o).
Proof.
  intros Hx Hk. rewrite (w_through x l (map IE (kids s RDefs l)) o);
    [|unfold emits; cbn [acts_wires]; rewrite Hk; apply emit_push_ids|unfold succs; cbn [acts_wires]; rewrite Hk; apply succ_push_ids].
  split.
  - intros (y & Hy & H). apply in_map_iff in Hy as (d & <- & Hd). exists d. split; [apply (kids_par s W); exact Hd|].
    apply (w_def x d o Hx (kid_kind s W _ _ _ Hd)). exact H.
  - intros (d & Hd & H). apply (kids_par s W) in Hd. exists (IE d). split; [apply in_map; exact Hd|]. apply (w_def x d o Hx (kid_kind s W _ _ _ Hd)). exact H.
Qed.

Lemma w_net x n o : sel_all x = false -> kind_of s n = Some KNetlist ->
  (Em x (IE n) o <-> exists l d, par s RLibs l = Some n /\ par s RDefs d = Some l /\ def_spec x d o).
Proof.
  intros Hx Hk. rewrite (w_through x n (map IE (kids s RLibs n)) o);
    [|unfold emits; cbn [acts_wires]; rewrite Hk; apply emit_push_ids|unfold succs; cbn [acts_wires]; rewrite Hk; apply succ_push_ids].
  split.
  - intros (y & Hy & H). apply in_map_iff in Hy as (l & <- & Hl). apply (w_lib x l o Hx (kid_kind s W _ _ _ Hl)) in H as (d & Hd & H).
    exists l, d. split; [apply (kids_par s W); exact Hl|auto].
  - intros (l & d & Hl & Hd & H). apply (kids_par s W) in Hl. exists (IE l). split; [apply in_map; exact Hl|].
    apply (w_lib x l o Hx (kid_kind s W _ _ _ Hl)). exists d. auto.
Qed.

Lemma w_none x r o : kind_of s r = None -> ~ Em x (IE r) o.
Proof. intros Hk H. apply emits_iff in H. unfold emits, succs in H. cbn [acts_wires] in H. rewrite Hk in H. destruct H as [[]|(y & [] & _)]. Qed.

Lemma w_elem_Y x r w : sel_all x = false -> (Em x (IE r) (WY w) <-> wiresY_elem s rec x r w).
Proof.
  intro Hx. unfold wiresY_elem, scope_defs. destruct (kind_of s r) as [[]|] eqn:Hk.
  - rewrite (w_net x r _ Hx Hk). unfold def_spec. split.
    + intros (l & d & Hl & Hd & [(E & w' & d' & Ew & Hs & Hw)|(_ & p & i & _ & _ & Ew)]); [|discriminate Ew]. injection Ew as <-.
      split; [exact E|]. exists d, d'. split; [exists l; auto|auto].
    + intros (E & d & d' & (l & Hd & Hl) & Hs & Hw). exists l, d. split; [exact Hl|split; [exact Hd|]]. left. split; [exact E|]. exists w, d'. auto.
  - rewrite (w_lib x r _ Hx Hk). unfold def_spec. split.
    + intros (d & Hd & [(E & w' & d' & Ew & Hs & Hw)|(_ & p & i & _ & _ & Ew)]); [|discriminate Ew]. injection Ew as <-.
      split; [exact E|]. exists d, d'. auto.
    + intros (E & d & d' & Hd & Hs & Hw). exists d. split; [exact Hd|]. left. split; [exact E|]. exists w, d'. auto.
  - rewrite (w_def x r _ Hx Hk). unfold def_spec. split.
    + intros [(E & w' & d' & Ew & Hs & Hw)|(_ & p & i & _ & _ & Ew)]; [|discriminate Ew]. injection Ew as <-. split; [exact E|]. exists r, d'. auto.
    + intros (E & d & d' & -> & Hs & Hw). left. split; [exact E|]. exists w, d'. auto.
  - rewrite (w_port x r _ Hk). split; [intros (i & _ & E); discriminate E|intros []].
  - rewrite (w_cable x r _ Hx Hk). split.
    + intros (w0 & Hw0 & [(w' & E & H)|(_ & q & E & _)]); [|discriminate E]. injection E as <-. exists w0. auto.
    + intros (w0 & Hw0 & H). exists w0. split; [exact Hw0|]. left. exists w. auto.
  - rewrite (w_wire x r _ Hx Hk). split.
    + intros [(w' & E & H)|(_ & q & E & _)]; [|discriminate E]. injection E as <-. exact H.
    + intro H. left. exists w. auto.
  - rewrite (w_pin x r _ Hk). split; [discriminate|intros []].
  - rewrite (w_inst x r _ Hx Hk). unfold def_spec. split.
    + intros (d & Hd & [(E & w' & d' & Ew & Hs & Hw)|(_ & p & i & _ & _ & Ew)]); [|discriminate Ew]. injection Ew as <-. split; [exact E|]. exists d, d'. auto.
    + intros (E & d & d' & Hd & Hs & Hw). exists d. split; [exact Hd|]. left. split; [exact E|]. exists w, d'. auto.
  - split; [intro H; apply (w_none x r _ Hk H)|intros []].
Qed.

Lemma w_elem_P x r q : sel_all x = false -> (Em x (IE r) (WP q) <-> wiresP_elem s x r q).
Proof.
  intro Hx. unfold wiresP_elem, scope_defs. destruct (kind_of s r) as [[]|] eqn:Hk.
  - rewrite (w_net x r _ Hx Hk). unfold def_spec. split.
    + intros (l & d & Hl & Hd & [(_ & w' & d' & Ew & _)|(Eo & p & i & Hp & Hi & Ew)]); [discriminate Ew|]. injection Ew as ->.
      split; [exact Eo|]. exists d, p, i. split; [exists l; auto|auto].
    + intros (Eo & d & p & i & (l & Hd & Hl) & Hp & Hi & ->). exists l, d. split; [exact Hl|split; [exact Hd|]]. right. split; [exact Eo|]. exists p, i. auto.
  - rewrite (w_lib x r _ Hx Hk). unfold def_spec. split.
    + intros (d & Hd & [(_ & w' & d' & Ew & _)|(Eo & p & i & Hp & Hi & Ew)]); [discriminate Ew|]. injection Ew as ->. split; [exact Eo|]. exists d, p, i. auto.
    + intros (Eo & d & p & i & Hd & Hp & Hi & ->). exists d. split; [exact Hd|]. right. split; [exact Eo|]. exists p, i. auto.
  - rewrite (w_def x r _ Hx Hk). unfold def_spec. split.
    + intros [(_ & w' & d' & Ew & _)|(Eo & p & i & Hp & Hi & Ew)]; [discriminate Ew|]. injection Ew as ->. split; [exact Eo|]. exists r, p, i. auto.
    + intros (Eo & d & p & i & -> & Hp & Hi & ->). right. split; [exact Eo|]. exists p, i. auto.
  - rewrite (w_port x r _ Hk). split; [intros (i & Hi & E); injection E as ->; exists i; auto|intros (i & Hi & ->); exists i; auto].
  - rewrite (w_cable x r _ Hx Hk). split.
    + intros (w0 & Hw0 & [(w' & E & _)|(Ex & q' & E & H)]); [discriminate E|]. injection E as <-. split; [exact Ex|]. exists w0. auto.
    + intros (Ex & w0 & Hw0 & H). exists w0. split; [exact Hw0|]. right. split; [exact Ex|]. exists q. auto.
  - rewrite (w_wire x r _ Hx Hk). split.
    + intros [(w' & E & _)|(Ex & q' & E & H)]; [discriminate E|]. injection E as <-. auto.
    + intros (Ex & H). right. split; [exact Ex|]. exists q. auto.
  - rewrite (w_pin x r _ Hk). split; [intro E; injection E as ->; reflexivity|intros ->; reflexivity].
  - rewrite (w_inst x r _ Hx Hk). unfold def_spec. split.
    + intros (d & Hd & [(_ & w' & d' & Ew & _)|(Eo & p & i & Hp & Hi & Ew)]); [discriminate Ew|]. injection Ew as ->. split; [exact Eo|]. exists d, p, i. auto.
    + intros (Eo & d & p & i & Hd & Hp & Hi & ->). exists d. split; [exact Hd|]. right. split; [exact Eo|]. exists p, i. auto.
  - split; [intro H; apply (w_none x r _ Hk H)|intros []].
Qed.

Lemma w_root x it o : Em x it o <->
  match it with
  | IE r => Em x (IE r) o
  | IO n i => o = WP (POut n i)
  | IDet => o = WP PDet
  | IH h => exists r, href_to s h r /\ Em x (IE r) o
  end.
Proof.
  destruct it as [r|n i| |h].
  - tauto.
  - rewrite (emits_leaf (A x) (IO n i) o eq_refl). cbn. split; [intros [<-|[]]; reflexivity|intros ->; left; reflexivity].
  - rewrite (emits_leaf (A x) IDet o eq_refl). cbn. split; [intros [<-|[]]; reflexivity|intros ->; left; reflexivity].
  - rewrite (emits_through (A x) (IH h) o) by (unfold emits; cbn [acts_wires]; apply emit_push_opt).
    unfold succs. cbn [acts_wires]. rewrite succ_push_opt. destruct (href_item s h) as [r|] eqn:Ex.
    + apply (href_item_iff s W) in Ex. split.
      * intros (y & [<-|[]] & H). exists r. auto.
      * intros (r' & Hr' & H). destruct Ex as [_ E1]. destruct Hr' as [_ E2]. rewrite E1 in E2. injection E2 as <-.
        exists (IE r). split; [left; reflexivity|exact H].
    + split; [intros (y & [] & _)|]. intros (r' & Hr' & _). apply (href_item_iff s W) in Hr'. congruence.
Qed.

Theorem query_wires_spec cb fuel it x res : sel_all x = false ->
  query_wires s cb fuel [it] rec x = WOk res ->
  NoDup res /\ forall w, In w res <-> reach_wires s rec x it w /\ cb w = true.
Proof.
  intros Hx H. split; [apply (query_wires_NoDup s cb fuel [it] rec x res H)|]. unfold query_wires in H.
  destruct (wl_run (A x) (bad_wires s x) fuel [it]) as [l| |] eqn:E; try discriminate H.
  pose proof (run_one (A x) _ fuel it l (plain_wires s rec x) E) as Hem.
  destruct (rounds s x fuel (dedup_pins_acc [] (searched l)) (dedup (yielded l)) []) as [y2| |] eqn:Er; try discriminate H.
  cbn [wmap] in H. injection H as <-. intro w. rewrite filter_In, (rounds_mem s x Hx fuel _ _ _ Er w), dedup_In.
  assert (HY : In w (yielded l) <-> wiresY_item s rec x it w).
  { unfold yielded. rewrite in_flat_map. split.
    - intros (o & Ho & Hw). destruct o as [w'|q]; cbn in Hw; [|destruct Hw]. destruct Hw as [<-|[]]. apply Hem, w_root in Ho.
      destruct it as [r|n i| |h]; cbn [wiresY_item]; [apply (w_elem_Y x r w' Hx), Ho|discriminate Ho|discriminate Ho|].
      destruct Ho as (r & Hr & Ho). exists r. split; [exact Hr|apply (w_elem_Y x r w' Hx), Ho].
    - intro Hs. exists (WY w). split; [|left; reflexivity]. apply Hem, w_root. destruct it as [r|n i| |h]; cbn [wiresY_item] in Hs; try contradiction.
      + apply (w_elem_Y x r w Hx), Hs.
      + destruct Hs as (r & Hr & Hs). exists r. split; [exact Hr|apply (w_elem_Y x r w Hx), Hs]. }
  assert (HP : forall q, In q (dedup_pins_acc [] (searched l)) <-> wiresP_item s x it q).
  { intro q. rewrite dedup_pins_In. unfold searched. rewrite in_flat_map. cbn. split.
    - intros [(o & Ho & Hq) _]. destruct o as [w'|q']; cbn in Hq; [destruct Hq|]. destruct Hq as [<-|[]]. apply Hem, w_root in Ho.
      destruct it as [r|n i| |h]; cbn [wiresP_item]; [apply (w_elem_P x r q' Hx), Ho|injection Ho as ->; reflexivity|injection Ho as ->; reflexivity|].
      destruct Ho as (r & Hr & Ho). exists r. split; [exact Hr|apply (w_elem_P x r q' Hx), Ho].
    - intro Hs. split; [|tauto]. exists (WP q). split; [|left; reflexivity]. apply Hem, w_root. destruct it as [r|n i| |h]; cbn [wiresP_item] in Hs.
      + apply (w_elem_P x r q Hx), Hs.
      + rewrite Hs. reflexivity.
      + rewrite Hs. reflexivity.
      + destruct Hs as (r & Hr & Hs). exists r. split; [exact Hr|apply (w_elem_P x r q Hx), Hs]. }
  unfold reach_wires. rewrite HY. split.
  - intros [[Hy|(q & Hq & Hc)] Hcb]; (split; [|exact Hcb]); [left; exact Hy|right; exists q; split; [apply HP; exact Hq|apply (pin_cands_iff x q w Hx); exact Hc]].
  - intros [[Hy|(q & Hq & Hc)] Hcb]; (split; [|exact Hcb]); [left; exact Hy|right; exists q; split; [apply HP; exact Hq|apply (pin_cands_iff x q w Hx); exact Hc]].
Qed.
End WSpec.
