(* read_net keeps the structural facts the whole-file invariant needs *)
From Coq Require Import List NArith Bool Arith Lia Permutation.
From SV Require Import Base.Base Fmt.EdifLex Fmt.EdifName Fmt.EdifCable Fmt.EdifBus Fmt.EdifNets Fmt.EdifFile Fmt.EdifFileSpec
  Proofs.EdifNetsProofs.
Import ListNotations.

Lemma NoDup_app_snoc {A} (l : list A) x : NoDup l -> ~ In x l -> NoDup (l ++ [x]).
Proof.
  intros Hl Hx. induction l as [|y l IH]; cbn.
  - constructor; [tauto|constructor].
  - inversion Hl; subst. constructor.
    + intro H. apply in_app_or in H as [H|[H|[]]]; [tauto|]. subst. apply Hx. now left.
    + apply IH; auto. intro H; apply Hx; now right.
Qed.

Section N.
Context {P : Type}.
Implicit Types (s : list (entry P)) (e : entry P) (w : list P).

Definition epins e : list P := concat (c_wires (e_cab e)).
Definition spins s : list P := flat_map epins s.

Record sinv s : Prop := {
  si_names : NoDup (map (@e_name P) s);
  si_ids : NoDup (map (fun e => lower (e_ident e)) s);
  si_wires : forall e, In e s -> c_wires (e_cab e) <> [] }.

Lemma find_name_some n s e : find_name n s = Some e -> In e s /\ e_name e = n.
Proof.
  induction s as [|x s IH]; cbn; [discriminate|].
  destruct (str_eqb (e_name x) n) eqn:E.
  - intro H; inversion H; subst. apply str_eqb_spec in E. auto.
  - intro H. destruct (IH H). auto.
Qed.

Lemma find_ident_some i s e : find_ident i s = Some e -> In e s /\ lower (e_ident e) = lower i.
Proof.
  induction s as [|x s IH]; cbn; [discriminate|].
  destruct (ident_eqb (e_ident x) i) eqn:E.
  - intro H; inversion H; subst. apply ident_eqb_spec in E. auto.
  - intro H. destruct (IH H). auto.
Qed.

Lemma replace_name_names n e' s : e_name e' = n -> map (@e_name P) (replace_name n e' s) = map (@e_name P) s.
Proof.
  intro Hn. induction s as [|x s IH]; cbn; [reflexivity|].
  destruct (str_eqb (e_name x) n) eqn:E; cbn.
  - apply str_eqb_spec in E. congruence.
  - now rewrite IH.
Qed.

(* with unique names, replacing "the entry named like e" replaces e itself *)
Lemma replace_name_split s e e' : NoDup (map (@e_name P) s) -> In e s ->
  exists a b, s = a ++ e :: b /\ replace_name (e_name e) e' s = a ++ e' :: b.
Proof.
  induction s as [|x s IH]; cbn; [tauto|]. intros Hnd [->|Hin].
  - exists [], s. rewrite str_eqb_refl. auto.
  - inversion Hnd as [|? ? Hx Hnd']; subst.
    destruct (str_eqb (e_name x) (e_name e)) eqn:E.
    + apply str_eqb_spec in E. exfalso. apply Hx. rewrite E. now apply in_map.
    + destruct (IH Hnd' Hin) as (a & b & -> & ->). exists (x :: a), b. auto.
Qed.

Lemma spins_app a b : spins (a ++ b) = spins a ++ spins b.
Proof. unfold spins. now rewrite flat_map_app. Qed.

Lemma sinv_replace s e e' w : sinv s -> In e s -> e_name e' = e_name e -> e_ident e' = e_ident e ->
  c_wires (e_cab e') <> [] -> Permutation (epins e') (epins e ++ w) ->
  sinv (replace_name (e_name e) e' s) /\ Permutation (spins (replace_name (e_name e) e' s)) (spins s ++ w).
Proof.
  intros [Hn Hi Hw] Hin En Ei Hne Hp.
  destruct (replace_name_split s e e' Hn Hin) as (a & b & Hs & Hr). rewrite Hr. split.
  - split.
    + rewrite <- Hr, replace_name_names by assumption. assumption.
    + rewrite Hs in Hi. rewrite map_app in *. cbn in *. now rewrite Ei.
    + intros x Hx. apply in_app_or in Hx as [Hx|[<-|Hx]]; [|assumption|]; apply Hw; rewrite Hs; apply in_or_app; cbn; auto.
  - rewrite Hs, !spins_app. cbn. fold (spins b).
    rewrite <- app_assoc. apply Permutation_app_head.
    rewrite Hp. rewrite <- !app_assoc. apply Permutation_app_head. apply Permutation_app_comm.
Qed.

Lemma find_ident_none' i s : find_ident i s = None -> ~ In (lower i) (map (fun e => lower (e_ident e)) s).
Proof.
  induction s as [|x s IH]; cbn; [tauto|].
  destruct (ident_eqb (e_ident x) i) eqn:E; [discriminate|]. intros H [Hx|Hx].
  - apply (proj2 (ident_eqb_spec _ _)) in Hx. congruence.
  - now apply IH.
Qed.

Lemma find_name_none' n s : find_name n s = None -> ~ In n (map (@e_name P) s).
Proof.
  induction s as [|x s IH]; cbn; [tauto|].
  destruct (str_eqb (e_name x) n) eqn:E; [discriminate|]. intros H [Hx|Hx].
  - apply str_eqb_spec in Hx. congruence.
  - now apply IH.
Qed.

Lemma concat_merge_in (ws : list (list P)) w : forall k,
  Permutation (concat (firstn k ws ++ (nth k ws [] ++ w) :: skipn (S k) ws)) (concat ws ++ w).
Proof.
  induction ws as [|x ws IH]; intro k.
  - destruct k; cbn; rewrite ?app_nil_r; reflexivity.
  - destruct k as [|k]; cbn.
    + rewrite <- !app_assoc. apply Permutation_app_head. apply Permutation_app_comm.
    + rewrite <- app_assoc. apply Permutation_app_head. apply (IH k).
Qed.

Lemma concat_repeat_nil n : concat (repeat (@nil P) n) = [].
Proof. induction n; cbn; auto. Qed.

Lemma mb_merge_pins (c : cab P) i w :
  Permutation (concat (c_wires (mb_merge c i w))) (concat (c_wires c) ++ w) /\ c_wires (mb_merge c i w) <> [].
Proof.
  unfold mb_merge. destruct (N.leb (c_lower c) i).
  - destruct (N.ltb i _); cbn.
    + split; [apply concat_merge_in|]. destruct (firstn _ _); discriminate.
    + split.
      * rewrite !concat_app, concat_repeat_nil. cbn. now rewrite app_nil_r.
      * destruct (c_wires c); cbn; [destruct (repeat _ _)|]; discriminate.
  - cbn. split; [|discriminate].
    rewrite concat_app, concat_repeat_nil. cbn. apply Permutation_app_comm.
Qed.

Lemma add_separate_inv nm idt (c : cab P) w s s' : sinv s -> concat (c_wires c) = w -> c_wires c <> [] ->
  add_separate nm idt c w s = Some s' -> sinv s' /\ Permutation (spins s') (spins s ++ w).
Proof.
  intros Hs Hc Hne. unfold add_separate. destruct (taken nm idt s) eqn:T.
  - destruct (match find_ident nm s with Some e => Some e | None => find_ident idt s end) as [e|] eqn:F; [|discriminate].
    intro H; inversion H; subst; clear H.
    assert (Hin : In e s).
    { destruct (find_ident nm s) eqn:F1; [inversion F; subst; eapply find_ident_some; eauto|eapply find_ident_some; eauto]. }
    apply sinv_replace; auto.
    + cbn. unfold join_wire0. destruct (c_wires (e_cab e)) eqn:W; [exfalso; eapply (si_wires s Hs); eauto|discriminate].
    + unfold epins; cbn. unfold join_wire0. destruct (c_wires (e_cab e)) eqn:W; [exfalso; eapply (si_wires s Hs); eauto|].
      cbn. rewrite <- !app_assoc. apply Permutation_app_head. apply Permutation_app_comm.
  - intro H; inversion H; subst; clear H. unfold taken in T.
    destruct (find_name nm s) eqn:F1; [discriminate|]. destruct (find_ident idt s) eqn:F2; [discriminate|].
    destruct Hs as [Hn Hi Hw]. split.
    + split.
      * rewrite map_app. cbn. apply NoDup_app_snoc; auto. now apply find_name_none'.
      * rewrite map_app. cbn. apply NoDup_app_snoc; auto. now apply find_ident_none'.
      * intros x Hx. apply in_app_or in Hx as [Hx|[<-|[]]]; auto.
    + rewrite spins_app. cbn. unfold epins; cbn. now rewrite app_nil_r.
Qed.

Lemma read_net_inv s ident name w s' : sinv s -> read_net s (ident, name, w) = Some s' ->
  sinv s' /\ Permutation (spins s') (spins s ++ w).
Proof.
  intros Hs. unfold read_net. destruct (net_bit ident name) as [[[index n_short] e_short]|]; [|discriminate].
  assert (Hsep : forall nm idt lo arr s', add_separate nm idt (mkcab lo arr [w]) w s = Some s' ->
                 sinv s' /\ Permutation (spins s') (spins s ++ w)).
  { intros. eapply add_separate_inv; eauto; cbn; [now rewrite app_nil_r|discriminate]. }
  destruct (match find_name n_short s with Some e => Some e | None => find_ident e_short s end) as [e|] eqn:F.
  - assert (Hin : In e s).
    { destruct (find_name n_short s) eqn:F1; [inversion F; subst; eapply find_name_some; eauto|eapply find_ident_some; eauto]. }
    destruct index as [i|]; [|apply Hsep].
    destruct (cab_is_array (e_cab e)); [|apply Hsep].
    intro H; inversion H; subst; clear H.
    destruct (mb_merge_pins (e_cab e) i w) as [Hp Hne].
    apply sinv_replace; auto.
  - destruct index; apply Hsep.
Qed.
End N.
