(* C07 independence, the other direction: the region of the ORIGINAL after a completed clone - the objects
   that existed before the call together with everything allocated after the call - is closed, provided
   no reference set of an old definition lists an object of the copy; hence edits of the original never
   show in the copy. *)
From Coq Require Import List Arith NArith ZArith Bool Lia.
From RecordUpdate Require Import RecordSet.
From SV Require Import Base.Base IR.State IR.NS IR.Ops Xform.Clone Proofs.AssocX Proofs.Frame Proofs.Inv1a Proofs.Inv2a Proofs.InvP
  Proofs.InvW Proofs.Fresh Proofs.FieldT Proofs.RefK Proofs.KindD Proofs.CloneFrame Proofs.CloneFull Proofs.Locality Proofs.LocalityStep
  Proofs.LocalityHist Proofs.LocalityClone.
Import ListNotations RecordSetNotations.

Definition orig_region (n0 n1 : id) : id -> Prop := fun x => x < n0 \/ n1 <= x.

Section OrigClosed.
Variables (s sF : state) (m : memo).
Hypothesis U : UF s.
Hypothesis TK : TopK s.
Hypothesis UFf : UF sF.
Hypothesis C : CI (next s) s sF m.
(* the reference sets of the old definitions list old instances only (for Netlist.clone of a closed
   netlist: the final filter of _clone_rip) *)
Hypothesis Hnoref : forall d x, d < next s -> In x (drefs sF d) -> orig_region (next s) (next sF) x.

Theorem orig_region_closed : RClosed (orig_region (next s) (next sF)) sF.
Proof.
  pose proof U as [I0 [_ [F0 [T0 K0]]]]. pose proof UFf as [IF [_ [FF [TF KF]]]]. pose proof (ci_os _ _ _ _ C) as O.
  unfold orig_region. constructor.
  - intros x Hx. right. exact Hx.
  - intros r x c [Hx|Hx] Hc.
    + rewrite (os_kids _ _ _ O r x Hx) in Hc. apply (i1_kids _ (inv_a _ I0)) in Hc.
      destruct (Nat.lt_ge_cases c (next s)) as [Hl|Hg]; [left; exact Hl|]. rewrite (f_par _ F0 r c Hg) in Hc. discriminate.
    + rewrite (ci_fk _ _ _ _ C r x Hx) in Hc. destruct Hc.
  - intros r x p [Hx|Hx] Hp.
    + rewrite (os_par _ _ _ O r x Hx) in Hp. apply (i1_kids _ (inv_a _ I0)) in Hp.
      destruct (Nat.lt_ge_cases p (next s)) as [Hl|Hg]; [left; exact Hl|]. rewrite (f_kids _ F0 r p Hg) in Hp. destruct Hp.
    + rewrite (f_par _ FF r x Hx) in Hp. discriminate.
  - intros i w [Hi|Hi] Hw.
    + rewrite (os_ipwire _ _ _ O i Hi) in Hw.
      assert (H : In (PIn i) (wpins s w)) by (apply (p_pins _ (inv_p _ I0)); exact Hw).
      destruct (Nat.lt_ge_cases w (next s)) as [Hl|Hg]; [left; exact Hl|]. rewrite (fresh_wpins s U w Hg) in H. destruct H.
    + rewrite (fresh_ipwire sF UFf i Hi) in Hw. discriminate.
  - intros w p [Hw|Hw] Hp.
    + rewrite (os_wpins _ _ _ O w Hw) in Hp. apply (p_pins _ (inv_p _ I0)) in Hp. destruct p as [i|n i|]; cbn [pin_in]; [| |exact I].
      * destruct (Nat.lt_ge_cases i (next s)) as [Hl|Hg]; [left; exact Hl|]. cbn in Hp. rewrite (fresh_ipwire s U i Hg) in Hp. discriminate.
      * destruct (Nat.lt_ge_cases n (next s)) as [Hl|Hg]; [left; exact Hl|]. cbn in Hp. rewrite (fresh_ipins s U n Hg) in Hp. discriminate.
    + rewrite (fresh_wpins sF UFf w Hw) in Hp. destruct Hp.
  - intros n i w [Hn|Hn] Hin.
    + rewrite (os_ipins _ _ _ O n Hn) in Hin.
      pose proof (assoc_of_In i (Some w) (ipins s n) (k_nodup _ (inv_k _ I0) n) Hin) as Ha.
      assert (H : In (POut n i) (wpins s w)) by (apply (p_pins _ (inv_p _ I0)); cbn; rewrite Ha; reflexivity).
      destruct (Nat.lt_ge_cases w (next s)) as [Hl|Hg]; [left; exact Hl|]. rewrite (fresh_wpins s U w Hg) in H. destruct H.
    + rewrite (fresh_ipins sF UFf n Hn) in Hin. destruct Hin.
  - intros d x [Hd|Hd] Hx.
    + apply (Hnoref d x Hd Hx).
    + exfalso. apply (i2_ref _ (inv_r _ IF)) in Hx. apply (KF x d Hx). apply (f_kind _ FF d Hd).
  - intros n t [Hn|Hn] Ht.
    + rewrite (os_top _ _ _ O n Hn) in Ht. pose proof (TK n t Ht) as Hk.
      destruct (Nat.lt_ge_cases t (next s)) as [Hl|Hg]; [left; exact Hl|]. rewrite (f_kind _ F0 t Hg) in Hk. discriminate.
    + rewrite (ci_ft _ _ _ _ C n Hn) in Ht. discriminate.
Qed.

Theorem orig_edits_independent h :
  Forall (op_in (orig_region (next s) (next sF))) h ->
  out_eq (orig_region (next s) (next sF)) sF (run h sF) /\ RClosed (orig_region (next s) (next sF)) (run h sF).
Proof. intro H. apply (history_independent _ sF h orig_region_closed H). Qed.
End OrigClosed.

(* the hypothesis on the old reference sets, decidable *)
Definition norefb (n0 n1 : id) (sF : state) : bool :=
  forallb (fun d => forallb (fun x => (x <? n0) || (n1 <=? x)) (drefs sF d)) (seq 0 n0).

Lemma norefb_ok n0 n1 sF : norefb n0 n1 sF = true ->
  forall d x, d < n0 -> In x (drefs sF d) -> orig_region n0 n1 x.
Proof.
  intros H d x Hd Hx. unfold norefb in H. rewrite forallb_forall in H.
  assert (Hin : In d (seq 0 n0)) by (apply in_seq; lia). specialize (H d Hin). rewrite forallb_forall in H.
  specialize (H x Hx). apply orb_true_iff in H as [H|H]; [left; apply Nat.ltb_lt; exact H|right; apply Nat.leb_le; exact H].
Qed.
