(* Basic facts about the comparer model: equality tests, sequencing, and the key fact that a
   name-keyed comparison of two sibling lists with the same (unique, wildcard-free) names is a
   positional comparison. *)
From Coq Require Import String List Arith NArith ZArith Bool Lia.
From SV Require Import Base.Base Cmp.Comparer.
Import ListNotations.

Lemma oname_eqb_spec a b : oname_eqb a b = true <-> a = b.
Proof.
  destruct a as [x|], b as [y|]; cbn; try (split; congruence).
  rewrite str_eqb_spec. split; congruence.
Qed.

Lemma oname_eqb_refl o : oname_eqb o o = true.
Proof. apply oname_eqb_spec. reflexivity. Qed.

Lemma oname_eqb_neq a b : a <> b -> oname_eqb a b = false.
Proof. intro H. destruct (oname_eqb a b) eqn:E; [apply oname_eqb_spec in E; contradiction|reflexivity]. Qed.

Lemma dir_eqb_spec a b : dir_eqb a b = true <-> a = b.
Proof. destruct a, b; cbn; split; congruence. Qed.

Lemma dir_eqb_refl d : dir_eqb d d = true.
Proof. destruct d; reflexivity. Qed.

Lemma dir_eqb_neq a b : a <> b -> dir_eqb a b = false.
Proof. intro H. destruct (dir_eqb a b) eqn:E; [apply dir_eqb_spec in E; contradiction|reflexivity]. Qed.

Lemma pval_eqb_refl v : pval_eqb v v = true.
Proof.
  destruct v; cbn; auto using str_eqb_refl, Z.eqb_refl, eqb_reflx.
Qed.

Lemma ctx_eqb_refl x : ctx_eqb x x = true.
Proof. unfold ctx_eqb. rewrite !oname_eqb_refl. reflexivity. Qed.

Lemma seq_accept a b : seq a b = Accept <-> a = Accept /\ b = Accept.
Proof.
  split.
  - destruct a; cbn; intro H; try discriminate. split; [reflexivity|assumption].
  - intros [-> ->]. reflexivity.
Qed.

Lemma seq_accept_l a b : a = Accept -> seq a b = b.
Proof. intros ->. reflexivity. Qed.

Lemma seq_reject_l b : seq Reject b = Reject.
Proof. reflexivity. Qed.

(* outcomes that are an ordinary verdict *)
Definition verdict (o : outcome) : Prop := o = Accept \/ o = Reject.

Lemma verdict_check b : verdict (check b).
Proof. destruct b; [left|right]; reflexivity. Qed.

Lemma verdict_seq a b : verdict a -> verdict b -> verdict (seq a b).
Proof. intros [->| ->] Hb; cbn; [assumption|right; reflexivity]. Qed.

(* a verdict followed by a rejection is a rejection *)
Lemma seq_verdict_reject a b : verdict a -> b = Reject -> seq a b = Reject.
Proof. intros [->| ->] ->; reflexivity. Qed.

(* ---------- names ---------- *)
Lemma str_in_In s l : str_in s l = true <-> In s l.
Proof.
  induction l as [|x l IH]; cbn; [split; [discriminate|tauto]|].
  rewrite orb_true_iff, str_eqb_spec, IH. split; intros [H|H]; auto.
Qed.

Lemma nodup_str_NoDup l : nodup_str l = true <-> NoDup l.
Proof.
  induction l as [|x l IH]; cbn; [split; [constructor|reflexivity]|].
  rewrite andb_true_iff, negb_true_iff, IH. split.
  - intros [H1 H2]. constructor; [|assumption]. intro Hin. apply str_in_In in Hin. congruence.
  - inversion 1; subst. split; [|assumption].
    destruct (str_in x l) eqn:E; [apply str_in_In in E; contradiction|reflexivity].
Qed.

Lemma names_of_map {A} (name : A -> oname) l ns :
  names_of name l = Some ns <-> map name l = map Some ns.
Proof.
  revert ns; induction l as [|x l IH]; intros ns; cbn.
  - destruct ns; cbn; split; intro H; try discriminate; reflexivity.
  - destruct (name x) as [n|] eqn:En.
    + destruct (names_of name l) as [r|] eqn:Er.
      * split.
        -- intro H; inversion H; subst; cbn. f_equal. apply IH. reflexivity.
        -- destruct ns as [|m ns]; cbn; [discriminate|]. intro H; inversion H; subst.
           f_equal. f_equal. assert (Some r = Some ns) by (apply IH; assumption). congruence.
      * split; [discriminate|].
        destruct ns as [|m ns]; cbn; [discriminate|]. intro H; inversion H; subst.
        assert (None = Some ns) by (apply IH; assumption). discriminate.
    + split; [discriminate|]. destruct ns; cbn; discriminate.
Qed.

Record names_ok {A} (name : A -> oname) (l : list A) (ns : list str) : Prop := {
  no_map : map name l = map Some ns;
  no_dup : NoDup ns }.

Lemma named_ok_spec {A} (name : A -> oname) l :
  named_ok name l = true <-> exists ns, names_ok name l ns.
Proof.
  unfold named_ok. split.
  - destruct (names_of name l) as [ns|] eqn:E; [|discriminate].
    intro H2. exists ns. split.
    + apply names_of_map. assumption.
    + apply nodup_str_NoDup. assumption.
  - intros [ns [H1 H3]]. apply names_of_map in H1. rewrite H1.
    apply nodup_str_NoDup; assumption.
Qed.

Lemma map_some_in {A} (name : A -> oname) l ns x :
  map name l = map Some ns -> In x l -> exists n, name x = Some n /\ In n ns.
Proof.
  revert ns; induction l as [|y l IH]; intros ns Hm Hin; [contradiction|].
  destruct ns as [|m ns]; [discriminate|]. cbn in Hm. inversion Hm; subst.
  destruct Hin as [->|Hin].
  - exists m. split; [assumption|left; reflexivity].
  - destruct (IH ns H1 Hin) as [n [Hn Hi]]. exists n. split; [assumption|right; assumption].
Qed.

Lemma find_has_name_at {A} (name : A -> oname) l1 : forall ns y l2 n,
  map name (l1 ++ y :: l2) = map Some ns -> NoDup ns -> name y = Some n ->
  find (has_name name n) (l1 ++ y :: l2) = Some y.
Proof.
  induction l1 as [|z l1 IH]; intros ns y l2 n Hm Hnd Hy; cbn.
  - unfold has_name. rewrite Hy, str_eqb_refl. reflexivity.
  - destruct ns as [|m ns]; [discriminate|]. cbn in Hm. inversion Hm; subst.
    inversion Hnd; subst.
    unfold has_name at 1. rewrite H0.
    assert (Hin : In n ns).
    { destruct (map_some_in name (l1 ++ y :: l2) ns y H1) as [n' [Hn' Hi]].
      - apply in_or_app. right. left. reflexivity.
      - congruence. }
    rewrite str_eqb_neq; [|intro; subst; contradiction].
    eapply IH; eauto.
Qed.

Lemma lookup_at {A} (name : A -> oname) l1 y l2 ns n :
  names_ok name (l1 ++ y :: l2) ns -> name y = Some n ->
  lookup name n (l1 ++ y :: l2) = Some y.
Proof.
  intros [Hm Hd] Hy. unfold lookup.
  destruct (map_some_in name _ ns y Hm) as [n' [Hn' Hi]].
  { apply in_or_app. right. left. reflexivity. }
  assert (n' = n) by congruence. subst n'.
  eapply find_has_name_at; eauto.
Qed.

(* ---------- positional comparison ---------- *)
Fixpoint cmp_zip {A} (skip : A -> bool) (f : A -> A -> outcome) (os cs : list A) : outcome :=
  match os, cs with
  | o :: os', c :: cs' =>
    if skip o then cmp_zip skip f os' cs' else seq (f o c) (cmp_zip skip f os' cs')
  | _, _ => Accept
  end.

Lemma cmp_each_zip_gen {A} (name : A -> oname) skip f comps ns :
  names_ok name comps ns ->
  forall so sc pc, comps = pc ++ sc -> map name so = map name sc ->
  cmp_each name skip (fun n => lookup name n comps) f so = cmp_zip skip f so sc.
Proof.
  intros Hok. induction so as [|o so IH]; intros sc pc Hc Hm; [destruct sc; reflexivity|].
  destruct sc as [|c sc]; [discriminate|]. cbn in Hm. inversion Hm as [[Hn Hm']].
  destruct (map_some_in name comps ns c (no_map _ _ _ Hok)) as [n [Hcn _]].
  { subst comps. apply in_or_app. right. left. reflexivity. }
  cbn. rewrite Hn, Hcn.
  assert (Hrest : cmp_each name skip (fun n0 => lookup name n0 comps) f so = cmp_zip skip f so sc).
  { apply (IH sc (pc ++ [c])); [rewrite <- app_assoc; assumption|assumption]. }
  destruct (skip o); [assumption|].
  subst comps. rewrite (lookup_at name pc c sc ns n Hok Hcn).
  rewrite Hrest. reflexivity.
Qed.

(* name-keyed comparison = positional comparison when both lists carry the same names *)
Lemma cmp_each_zip {A} (name : A -> oname) skip f os cs :
  named_ok name cs = true -> map name os = map name cs ->
  cmp_each name skip (fun n => lookup name n cs) f os = cmp_zip skip f os cs.
Proof.
  intros H Hm. apply named_ok_spec in H as [ns Hok].
  apply (cmp_each_zip_gen name skip f cs ns Hok os cs []); [reflexivity|assumption].
Qed.

Lemma cmp_zip_refl {A} (skip : A -> bool) f l :
  (forall x, In x l -> skip x = false -> f x x = Accept) -> cmp_zip skip f l l = Accept.
Proof.
  induction l as [|x l IH]; intro H; cbn; [reflexivity|].
  rewrite IH by (intros; apply H; [right|]; assumption).
  destruct (skip x) eqn:E; [reflexivity|]. rewrite H; [reflexivity|left; reflexivity|assumption].
Qed.

Lemma cmp_zip_verdict {A} (skip : A -> bool) f l :
  (forall x, In x l -> skip x = false -> verdict (f x x)) -> verdict (cmp_zip skip f l l).
Proof.
  induction l as [|x l IH]; intro H; cbn; [left; reflexivity|].
  assert (Hr : verdict (cmp_zip skip f l l)) by (apply IH; intros; apply H; [right|]; assumption).
  destruct (skip x) eqn:E; [assumption|]. apply verdict_seq; [|assumption].
  apply H; [left; reflexivity|assumption].
Qed.

(* the prefix compares equal, the elements at the difference decide *)
Lemma cmp_zip_splice {A} (skip : A -> bool) f l1 x y l2 :
  (forall z, In z l1 -> skip z = false -> f z z = Accept) -> skip x = false ->
  cmp_zip skip f (l1 ++ x :: l2) (l1 ++ y :: l2) = seq (f x y) (cmp_zip skip f l2 l2).
Proof.
  induction l1 as [|z l1 IH]; intros H Hx; cbn.
  - rewrite Hx. reflexivity.
  - rewrite IH; [|intros z' Hz' Hs; apply H; [right; assumption|assumption]|assumption].
    destruct (skip z) eqn:E; [reflexivity|].
    rewrite H; [reflexivity|left; reflexivity|assumption].
Qed.

Lemma cmp_zip_splice_reject {A} (skip : A -> bool) f l1 x y l2 :
  (forall z, In z l1 -> skip z = false -> f z z = Accept) -> skip x = false ->
  f x y = Reject -> cmp_zip skip f (l1 ++ x :: l2) (l1 ++ y :: l2) = Reject.
Proof. intros H Hx Hf. rewrite cmp_zip_splice by assumption. rewrite Hf. reflexivity. Qed.

Lemma length_app_cons_neq {A} (l1 : list A) x l2 :
  Nat.eqb (length (l1 ++ x :: l2)) (length (l1 ++ l2)) = false.
Proof. apply Nat.eqb_neq. rewrite !app_length. cbn. lia. Qed.

Lemma length_app_cons_neq' {A} (l1 : list A) x l2 :
  Nat.eqb (length (l1 ++ l2)) (length (l1 ++ x :: l2)) = false.
Proof. apply Nat.eqb_neq. rewrite !app_length. cbn. lia. Qed.

Lemma length_splice {A} (l1 : list A) x y l2 : length (l1 ++ x :: l2) = length (l1 ++ y :: l2).
Proof. rewrite !app_length. reflexivity. Qed.
