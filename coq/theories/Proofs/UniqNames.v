(* C08, "new definitions get fresh, non-colliding names": the definition added by a completed round of
   _make_instance_unique is named <old>_sdn_unique_<k>, k the module counter, and that name differs from
   the name of every definition of the library at the moment it is added: add_definition asks the
   namespace manager, whose table of the library is exact, and a clash makes the call - and with it the
   whole uniquify - end with ValueError. Hence a completed uniquify never produces two definitions with
   one name in a library. *)
From Coq Require Import List Arith Bool Lia.
From RecordUpdate Require Import RecordSet.
From SV Require Import Base.Base IR.State IR.NS IR.Ops Xform.Clone Xform.Strs Xform.Xform Proofs.AssocX Proofs.Frame Proofs.Inv1a Proofs.Inv2a
  Proofs.InvP Proofs.InvW Proofs.Fresh Proofs.Refused Proofs.RefusedFull Proofs.NsSlot Proofs.NsInv Proofs.CloneInv Proofs.RefK Proofs.CloneRef
  Proofs.CloneT Proofs.CloneNs Proofs.FieldT Proofs.CloneFaith Proofs.CloneFull Proofs.CloneNetInv Proofs.CloneDefStruct Proofs.CloneData
  Proofs.XHistory Proofs.UniqFull Proofs.UniqElab.
Import ListNotations RecordSetNotations.

(* ---- Definition.clone never touches the library/definition relation ---- *)
Definition rdsame (s s' : state) : Prop := kids s' RDefs = kids s RDefs /\ par s' RDefs = par s RDefs.
Lemma rd_refl s : rdsame s s. Proof. split; reflexivity. Qed.
Lemma rd_trans a b c : rdsame a b -> rdsame b c -> rdsame a c.
Proof. intros [A1 A2] [B1 B2]. split; congruence. Qed.
Lemma rd_bind (r : R) f s : rdsame s (fst r) -> (forall s1, rdsame s1 (fst (f s1))) -> rdsame s (fst (r >>= f)).
Proof. destruct r as [s1 [x|]]; cbn; intros H1 H2; [exact H1|]. eapply rd_trans; [exact H1|apply H2]. Qed.
Lemma rd_fold_idsR f l : (forall s x, rdsame s (fst (f s x))) -> forall s, rdsame s (fst (fold_idsR f l s)).
Proof. intro H. induction l as [|x l IH]; intro s; cbn; [apply rd_refl|]. apply rd_bind; [apply H|apply IH]. Qed.
Lemma rd_fold_ids f l : (forall s x, rdsame s (f s x)) -> forall s, rdsame s (fold_ids f l s).
Proof. intro H. induction l as [|x l IH]; intro s; cbn; [apply rd_refl|]. eapply rd_trans; [apply H|apply IH]. Qed.
Lemma rd_kp s s' : kpsame s s' -> rdsame s s'.
Proof. intros [A [B _]]. split; [rewrite A|rewrite B]; reflexivity. Qed.
Lemma rd_clone_alloc s k s1 x : clone_alloc s k = (s1, x) -> rdsame s s1.
Proof. intro E. destruct (clone_alloc_kp s k s1 x E) as [_ [_ [A B]]]. split; [rewrite A|rewrite B]; reflexivity. Qed.

Definition RDf (f : SM -> id -> SM * id) : Prop := forall s m x s' m' x', f (s, m) x = ((s', m'), x') -> rdsame s s'.
Lemma rd_clone_each f : RDf f -> forall l s m s' m' l', clone_each f l (s, m) = ((s', m'), l') -> rdsame s s'.
Proof.
  intro Hf. induction l as [|x l IH]; intros s m s' m' l' E; cbn [clone_each] in E.
  - injection E as <- <- <-. apply rd_refl.
  - destruct (f (s, m) x) as [[s1 m1] x'] eqn:E1. destruct (clone_each f l (s1, m1)) as [[s2 m2] l2] eqn:E2.
    injection E as <- <- <-. eapply rd_trans; [apply (Hf _ _ _ _ _ _ E1)|apply (IH _ _ _ _ _ E2)].
Qed.
Lemma rd_pin_clone1 : RDf pin_clone1.
Proof.
  intros s m i s' m' i' E. unfold pin_clone1 in E. destruct (clone_alloc s KPin) as [s1 x] eqn:Ea.
  injection E as <- <- <-. eapply rd_trans; [apply (rd_clone_alloc _ _ _ _ Ea)|split; reflexivity].
Qed.
Lemma rd_wire_clone1 : RDf wire_clone1.
Proof.
  intros s m i s' m' i' E. unfold wire_clone1 in E. destruct (clone_alloc s KWire) as [s1 x] eqn:Ea.
  injection E as <- <- <-. eapply rd_trans; [apply (rd_clone_alloc _ _ _ _ Ea)|split; reflexivity].
Qed.
Lemma rd_inst_clone1 : RDf inst_clone1.
Proof.
  intros s m i s' m' i' E. unfold inst_clone1 in E. destruct (clone_alloc s KInstance) as [s1 x] eqn:Ea.
  injection E as <- <- <-. eapply rd_trans; [apply (rd_clone_alloc _ _ _ _ Ea)|split; reflexivity].
Qed.
Lemma rd_port_clone1 : RDf port_clone1.
Proof.
  intros s m p s' m' p' E. unfold port_clone1 in E. destruct (clone_alloc s KPort) as [s1 x] eqn:Ea.
  match type of E with context [clone_each pin_clone1 ?l ?sm] => destruct (clone_each pin_clone1 l sm) as [[s2 m2] pins'] eqn:E2 end.
  injection E as <- <- <-. eapply rd_trans; [apply (rd_clone_alloc _ _ _ _ Ea)|].
  eapply rd_trans; [apply (rd_clone_each pin_clone1 rd_pin_clone1 _ _ _ _ _ _ E2)|].
  eapply rd_trans; [|split; reflexivity]. eapply rd_trans; [|apply rd_fold_ids; intros s0 i; split; reflexivity]. split; reflexivity.
Qed.
Lemma rd_cable_clone1 : RDf cable_clone1.
Proof.
  intros s m p s' m' p' E. unfold cable_clone1 in E. destruct (clone_alloc s KCable) as [s1 x] eqn:Ea.
  match type of E with context [clone_each wire_clone1 ?l ?sm] => destruct (clone_each wire_clone1 l sm) as [[s2 m2] ws'] eqn:E2 end.
  injection E as <- <- <-. eapply rd_trans; [apply (rd_clone_alloc _ _ _ _ Ea)|].
  eapply rd_trans; [apply (rd_clone_each wire_clone1 rd_wire_clone1 _ _ _ _ _ _ E2)|].
  eapply rd_trans; [|split; reflexivity]. eapply rd_trans; [|apply rd_fold_ids; intros s0 i; split; reflexivity]. split; reflexivity.
Qed.

Lemma rd_def_clone1 s m d s' m' d' e : def_clone1 (s, m) d = ((s', m', d'), e) -> rdsame s s'.
Proof.
  intro E. unfold def_clone1 in E. destruct (clone_alloc s KDefinition) as [s1 a] eqn:Ea.
  match type of E with context [clone_each port_clone1 ?l ?sm] => destruct (clone_each port_clone1 l sm) as [[s2 m2] ports'] eqn:E2 end.
  match type of E with context [clone_each cable_clone1 ?l ?sm] => destruct (clone_each cable_clone1 l sm) as [[s3 m3] cables'] eqn:E3 end.
  match type of E with context [clone_each inst_clone1 ?l ?sm] => destruct (clone_each inst_clone1 l sm) as [[s4 m4] children'] eqn:E4 end.
  apply (rd_clone_each port_clone1 rd_port_clone1) in E2. apply (rd_clone_each cable_clone1 rd_cable_clone1) in E3.
  apply (rd_clone_each inst_clone1 rd_inst_clone1) in E4.
  injection E as <- _ _ _.
  eapply rd_trans; [apply (rd_clone_alloc _ _ _ _ Ea)|]. eapply rd_trans; [apply (rd_trans _ (copy_data s1 d a)); [split; reflexivity|exact E2]|].
  eapply rd_trans; [exact E3|]. eapply rd_trans; [exact E4|].
  eapply rd_trans; [|apply rd_bind; [apply rd_fold_idsR; intros s6 p'; eapply rd_trans; [|apply rd_kp, kpsame_port_rr]; split; reflexivity|]].
  - split; reflexivity.
  - intro s6. apply rd_bind; [apply rd_fold_idsR; intros s7 c'; eapply rd_trans; [|apply rd_kp, kpsame_cable_rr]; split; reflexivity|].
    intro s7. apply rd_fold_idsR. intros s8 x'. eapply rd_trans; [|apply rd_kp, kpsame_inst_rr_def]. split; reflexivity.
Qed.

Lemma rd_clone_definition s d : rdsame s (fst (fst (clone_definition s d))).
Proof.
  unfold clone_definition. destruct (def_clone1 (s, []) d) as [[[s1 m1] d'] e] eqn:E.
  pose proof (rd_def_clone1 _ _ _ _ _ _ _ E) as H. destruct e as [e|]; cbn [fst raise]; [exact H|].
  eapply rd_trans; [exact H|]. apply rd_bind; [apply rd_fold_idsR; intros; apply rd_kp, kpsame_register_child|].
  intro s2. eapply rd_trans; [|apply rd_kp, kpsame_reapply]. split; reflexivity.
Qed.

(* ---- ... nor the namespace tables of the objects that existed before ---- *)
Lemma reapply_tab_other s c y : ~ In y (subtree s c) -> nstab (fst (reapply s c)) y = nstab s y.
Proof.
  intro Hy. unfold reapply. destruct (sassoc str_NS (data s c)) as [v|]; [|reflexivity].
  destruct (dict_del_ns_facts s c) as [K Ht]. pose proof (Ht y Hy) as H1.
  destruct (dict_del s c str_NS) as [s1 [e|]]; cbn [bindR fst] in *; [exact H1|].
  destruct (dict_set_ns_facts s1 c v) as [_ Ht2]. rewrite Ht2; [exact H1|].
  rewrite (subtree_ext s s1 c (ks_kids _ _ K) (ks_kind _ _ K)). exact Hy.
Qed.

Theorem clone_definition_old_nstab s0 d :
  UF s0 -> d < next s0 -> kind_of s0 d = Some KDefinition -> snd (fst (clone_definition s0 d)) = None ->
  forall y, y < next s0 -> nstab (fst (fst (clone_definition s0 d))) y = nstab s0 y.
Proof.
  intros U0 Hd Hkd Hc. pose proof (clone_definition_struct_m s0 d U0 Hd Hkd Hc) as S.
  pose proof U0 as [I0 [T0 [F0 [FT0 K0]]]]. pose proof (above_of_fresh s0 F0) as Ab.
  revert S Hc. unfold clone_definition, clone_memo.
  destruct (def_clone1 (s0, []) d) as [[[G M] d'] [ex|]] eqn:E; cbn [fst snd]; [intros _ H; discriminate|].
  pose proof (def_clone1_tab s0 [] d G M d' None Ab E) as HG.
  destruct (fold_idsR register_child (kids G RChildren d') G) as [s2 [e|]] eqn:Ef; cbn [bindR fst snd]; [intros _ H; discriminate|].
  pose proof (td_fold_idsR register_child (kids G RChildren d') td_register_child G) as [Rt _]. rewrite Ef in Rt. cbn [fst] in Rt.
  pose proof (kpsame_fold_idsR register_child (kids G RChildren d') kpsame_register_child G) as [Rk _]. rewrite Ef in Rk. cbn [fst] in Rk.
  pose proof (kind_fold_register (kids G RChildren d') G) as Rkd. rewrite Ef in Rkd. cbn [fst] in Rkd.
  set (sB := set_drefs s2 d' []).
  pose proof (se_reapply sB d') as Hse. set (sF := fst (reapply sB d')) in *.
  intros S Hc y Hy.
  assert (Hkd' : kind_of sB d' = Some KDefinition).
  { rewrite <- (se_kind _ _ Hse). destruct (ds_rng _ _ _ _ _ S d d' (ds_root _ _ _ _ _ S)) as [_ [_ H]]. rewrite H. exact Hkd. }
  assert (Hnot : ~ In y (subtree sB d')).
  { unfold subtree. rewrite Hkd'. unfold def_subtree. rewrite <- !(se_kids _ _ Hse).
    assert (Hnew : forall b, (exists a, img M a b) -> b <> y).
    { intros b [a Hab] ->. destruct (ds_rng _ _ _ _ _ S a y Hab) as [_ [H _]]. lia. }
    intros [<-|Hin]; [apply (Hnew d'); [exists d; apply (ds_root _ _ _ _ _ S)|reflexivity]|].
    apply in_app_or in Hin as [Hin|Hin]; [|apply in_app_or in Hin as [Hin|Hin]].
    - destruct (Forall2_in_r _ _ _ y (ds_ports _ _ _ _ _ S) Hin) as [a [_ Ha]]. apply (Hnew y); [exists a; exact Ha|reflexivity].
    - destruct (Forall2_in_r _ _ _ y (ds_cables _ _ _ _ _ S) Hin) as [a [_ Ha]]. apply (Hnew y); [exists a; exact Ha|reflexivity].
    - destruct (Forall2_in_r _ _ _ y (ds_children _ _ _ _ _ S) Hin) as [a [_ Ha]]. apply (Hnew y); [exists a; exact Ha|reflexivity]. }
  unfold sF. rewrite (reapply_tab_other sB d' y Hnot). change (nstab sB y) with (nstab s2 y). rewrite Rt. apply HG. lia.
Qed.

(* ---- the invariants of the walk: the name tables of the libraries are exact; libraries are old ---- *)
Definition LT (n0 : id) (s : state) : Prop :=
  forall l t, l < n0 -> nstab s l = Some t -> SlotOK (ns_names t KDefinition) (fun c => In c (kids s RDefs l)) (name_key s).
Definition PL (n0 : id) (s : state) : Prop := forall y l, par s RDefs y = Some l -> l < n0.

Lemma lt_of_nsinv n0 s : NsInv s -> LT n0 s.
Proof. intros H l t _ Hl. apply (tk_names _ _ _ _ (H l t Hl) RDefs eq_refl). Qed.

Lemma lt_ext n0 s s' : LT n0 s -> (forall l, l < n0 -> nstab s' l = nstab s l) -> (forall l, l < n0 -> kids s' RDefs l = kids s RDefs l) ->
  (forall l c, l < n0 -> In c (kids s RDefs l) -> name_key s' c = name_key s c) -> LT n0 s'.
Proof.
  intros H Ht Hk Hn l t Hl Hlt. rewrite (Ht l Hl) in Hlt. apply (slot_ext _ _ _ _ _ (H l t Hl Hlt)).
  - intro c. rewrite (Hk l Hl). tauto.
  - intros c Hc. apply (Hn l c Hl Hc).
Qed.

(* distinct names within a library that has a table *)
Lemma lt_unique n0 s l t c1 c2 v : LT n0 s -> l < n0 -> nstab s l = Some t ->
  In c1 (kids s RDefs l) -> In c2 (kids s RDefs l) -> get_str s c1 str_NAME = Some v -> get_str s c2 str_NAME = Some v -> c1 = c2.
Proof.
  intros H Hl Ht H1 H2 E1 E2. pose proof (H l t Hl Ht) as S.
  assert (A : sassoc v (ns_names t KDefinition) = Some c1) by (apply S; split; assumption).
  assert (B : sassoc v (ns_names t KDefinition) = Some c2) by (apply S; split; assumption). congruence.
Qed.

(* ---- a name assigned to a parentless element ---- *)
Lemma dict_set_orphan s e k v s' : is_name_key k = true -> ns_parent s e = None -> dict_set s e k v = (s', None) ->
  s' = data_write (emit s (EDictSet e k v)) e k v.
Proof.
  intros Hk Hp. unfold dict_set, ns_dictionary_set.
  assert (Hns : str_eqb k str_NS = false) by (destruct (is_name_key_cases k Hk) as [->| ->]; reflexivity).
  rewrite Hns, Hk, Hp. destruct v as [name| | |]; try (cbn; discriminate).
  destruct (negb _); [cbn; discriminate|]. cbn [bindR ret]. intro H. injection H as <-. reflexivity.
Qed.

(* ---- NamespaceManager.add for a definition entering a library ---- *)
Lemma ns_add_def_spec s lib c s1 :
  ~ In lib (subtree s c) -> ns_add s lib c KDefinition = (s1, None) ->
  ksame s s1 /\ (forall l, l <> lib -> ~ In l (subtree s c) -> nstab s1 l = nstab s l) /\
  match nstab s lib with
  | Some t => exists t', nstab s1 lib = Some t' /\
      match name_key s c with
      | Some v => tab_conflict (ns_names t KDefinition) v c = false /\
                  ns_names t' KDefinition = tab_replace (ns_names t KDefinition) (Some v) v c
      | None => ns_names t' KDefinition = ns_names t KDefinition
      end
  | None => nstab s1 lib = None
  end.
Proof.
  intros Hlib. unfold ns_add. set (idv := get_str s c str_IDENT). set (nmv := get_str s c str_NAME).
  destruct (match nstab s lib with Some t => _ | None => false end) eqn:Hconf; [cbn; discriminate|].
  set (mid := match sassoc str_NS (data s lib) with
              | Some pv => if match sassoc str_NS (data s c) with Some cv => val_eqb cv pv | None => false end then ret s else dict_set s c str_NS pv
              | None => if has_key s c str_NS then dict_del s c str_NS else ret s end).
  assert (Hmid : ksame s (fst mid) /\ (forall l, ~ In l (subtree s c) -> nstab (fst mid) l = nstab s l)).
  { unfold mid. destruct (sassoc str_NS (data s lib)) as [pv|].
    - destruct (match sassoc str_NS (data s c) with Some cv => val_eqb cv pv | None => false end);
        [split; [apply ksame_refl|reflexivity]|apply dict_set_ns_facts].
    - destruct (has_key s c str_NS); [apply dict_del_ns_facts|split; [apply ksame_refl|reflexivity]]. }
  destruct mid as [sm [x|]]; cbn [bindR fst snd] in *; [discriminate|].
  destruct Hmid as [K Ht]. rewrite (Ht lib Hlib).
  destruct (nstab s lib) as [t|] eqn:Htl; unfold ret.
  - match goal with |- (set_nstab sm lib (Some ?t2), None) = _ -> _ => set (T2 := t2) end.
    intro H; injection H as <-.
    split; [constructor; try apply K|]. split.
    + intros l Hl Hn. change (nstab (set_nstab sm lib (Some T2)) l) with (upd (nstab sm) lib (Some T2) l).
      rewrite upd_other by exact Hl. apply Ht. exact Hn.
    + exists T2. split; [change (nstab (set_nstab sm lib (Some T2)) lib) with (upd (nstab sm) lib (Some T2) lib); apply upd_same|].
      unfold name_key. fold nmv. unfold T2.
      apply orb_false_iff in Hconf as [_ Hcn].
      destruct nmv as [v|].
      * split.
        -- apply negb_false_iff in Hcn. unfold ns_no_conflict in Hcn. rewrite str_eqb_refl in Hcn. apply negb_true_iff in Hcn. exact Hcn.
        -- rewrite ns_update_names_name, kind_eqb_refl. destruct idv; [rewrite ns_update_names_ident|]; reflexivity.
      * destruct idv; [rewrite ns_update_names_ident|]; reflexivity.
  - intro H; injection H as <-.
    split; [exact K|]. split; [intros l _ Hn; apply Ht; exact Hn|]. rewrite (Ht lib Hlib). exact Htl.
Qed.

Lemma add_def_spec s lib c pos s' :
  InvT s -> op_add s RDefs lib c pos = (s', None) ->
  kind_of s lib = Some KLibrary /\ kind_of s c = Some KDefinition /\ par s RDefs c = None /\
  kids s' RDefs lib = py_insert pos c (kids s RDefs lib) /\ (forall l, l <> lib -> kids s' RDefs l = kids s RDefs l) /\
  par s' RDefs c = Some lib /\ (forall y, y <> c -> par s' RDefs y = par s RDefs y) /\
  (forall y, name_key s' y = name_key s y) /\
  (forall l, l <> lib -> ~ In l (subtree s c) -> nstab s' l = nstab s l) /\
  match nstab s lib with
  | Some t => exists t', nstab s' lib = Some t' /\
      match name_key s c with
      | Some v => tab_conflict (ns_names t KDefinition) v c = false /\
                  ns_names t' KDefinition = tab_replace (ns_names t KDefinition) (Some v) v c
      | None => ns_names t' KDefinition = ns_names t KDefinition
      end
  | None => nstab s' lib = None
  end.
Proof.
  intros HT. unfold op_add, guard.
  destruct (is_kind s lib (rel_parent RDefs) && is_kind s c (rel_child RDefs)) eqn:Hk; [|discriminate].
  apply andb_true_iff in Hk as [Hk1 Hk2]. apply is_kind_kind in Hk1, Hk2. cbn in Hk1, Hk2.
  destruct (add_guard1 s RDefs lib c); [|discriminate].
  destruct (par s RDefs c) eqn:Hp; [discriminate|]. cbn [ns_rel].
  assert (Hlib : ~ In lib (subtree s c)) by (apply (parent_not_in_subtree s RDefs lib c HT eq_refl Hk1 Hk2)).
  pose proof (ns_add_def_spec s lib c) as HA. change (rel_child RDefs) with KDefinition.
  destruct (ns_add s lib c KDefinition) as [s1 [e|]]; cbn [bindR]; [discriminate|].
  destruct (HA s1 Hlib eq_refl) as [K [Ht Hl]]. clear HA.
  cbn [ret add_post]. intro H. injection H as <-.
  split; [exact Hk1|]. split; [exact Hk2|]. split; [reflexivity|].
  split; [cbn; rewrite upd_same, (ks_kids _ _ K); reflexivity|].
  split; [intros l Hne; cbn; rewrite upd_other by exact Hne; rewrite (ks_kids _ _ K); reflexivity|].
  split; [cbn; rewrite upd_same; reflexivity|].
  split; [intros y Hne; cbn; rewrite upd_other by exact Hne; rewrite (ks_par _ _ K); reflexivity|].
  split; [intro y; apply (ks_name _ _ K)|]. split; [exact Ht|exact Hl].
Qed.

(* ---- the renaming block of _make_instance_unique ---- *)
Definition named_block (x1 : xstate) (d d' : id) : XR :=
  match get_str (st x1) d str_NAME with
  | Some nm =>
      let suffix := str_uniq ++ dec (uniq_ctr x1) in
      let x2 := mkX (st x1) (S (uniq_ctr x1)) (flat_ctr x1) in
      liftR x2 (dict_set (st x2) d' str_NAME (VStr (nm ++ suffix))) (fun x3 =>
        match get_str (st x3) d' str_IDENT with
        | Some idv => liftR x3 (dict_set (st x3) d' str_IDENT (VStr (idv ++ suffix))) (fun x4 => (x4, None))
        | None => (x3, None)
        end)
  | None => (x1, None)
  end.

Lemma named_block_spec x1 d d' x5 : ns_parent (st x1) d' = None -> named_block x1 d d' = (x5, None) ->
  struct_eq (st x1) (st x5) /\ nstab (st x5) = nstab (st x1) /\ (forall y, y <> d' -> data (st x5) y = data (st x1) y) /\
  match get_str (st x1) d str_NAME with
  | Some nm => get_str (st x5) d' str_NAME = Some (nm ++ str_uniq ++ dec (uniq_ctr x1)) /\ uniq_ctr x5 = S (uniq_ctr x1)
  | None => st x5 = st x1 /\ uniq_ctr x5 = uniq_ctr x1
  end.
Proof.
  intros Hp. unfold named_block. destruct (get_str (st x1) d str_NAME) as [nm|].
  2:{ intro H. injection H as <-. split; [apply struct_eq_refl|]. split; [reflexivity|]. split; [reflexivity|split; reflexivity]. }
  cbn zeta. cbn [st]. unfold liftR at 1.
  destruct (dict_set (st x1) d' str_NAME (VStr (nm ++ str_uniq ++ dec (uniq_ctr x1)))) as [s2 [e|]] eqn:E1; [discriminate|].
  apply (dict_set_orphan (st x1) d' str_NAME _ s2 eq_refl Hp) in E1. cbn [st uniq_ctr flat_ctr].
  assert (H2 : struct_eq (st x1) s2) by (subst s2; eapply struct_eq_trans; [apply se_emit|apply se_data_write]).
  assert (N2 : nstab s2 = nstab (st x1)) by (subst s2; reflexivity).
  assert (D2 : forall y, y <> d' -> data s2 y = data (st x1) y) by (intros y Hy; subst s2; cbn; apply upd_other; exact Hy).
  assert (G2 : get_str s2 d' str_NAME = Some (nm ++ str_uniq ++ dec (uniq_ctr x1))).
  { subst s2. rewrite get_str_write, Nat.eqb_refl, str_eqb_refl. reflexivity. }
  destruct (get_str s2 d' str_IDENT) as [idv|].
  2:{ intro H. injection H as <-. cbn [st uniq_ctr]. split; [exact H2|]. split; [exact N2|]. split; [exact D2|split; [exact G2|reflexivity]]. }
  unfold liftR. cbn [st uniq_ctr flat_ctr].
  destruct (dict_set s2 d' str_IDENT (VStr (idv ++ str_uniq ++ dec (uniq_ctr x1)))) as [s3 [e|]] eqn:E2; [discriminate|].
  assert (Hp2 : ns_parent s2 d' = None) by (unfold ns_parent in *; rewrite (se_kind _ _ H2), (se_par _ _ H2); exact Hp).
  apply (dict_set_orphan s2 d' str_IDENT _ s3 eq_refl Hp2) in E2.
  intro H. injection H as <-. cbn [st uniq_ctr].
  split; [subst s3; eapply struct_eq_trans; [exact H2|]; eapply struct_eq_trans; [apply se_emit|apply se_data_write]|].
  split; [subst s3; exact N2|].
  split; [intros y Hy; subst s3; cbn -[str_IDENT]; rewrite upd_other by exact Hy; apply D2; exact Hy|].
  split; [|reflexivity]. subst s3. rewrite get_str_write, name_ne_ident, andb_false_r. exact G2.
Qed.

(* ---- one completed round ---- *)
Section RoundN.
  Variables (n0 : id) (x : xstate) (inst d : id).
  Let s := st x.
  Hypotheses (U : UF s) (Ei : iref s inst = Some d) (Hinst : inst < next s)
             (Hn0 : n0 <= next s) (HLT : LT n0 s) (HPL : PL n0 s).

  Theorem round_names x' : make_instance_unique x inst = (x', None) ->
    LT n0 (st x') /\ PL n0 (st x') /\
    exists lib, par s RDefs d = Some lib /\ par (st x') RDefs (next s) = Some lib /\
      (forall c, In c (kids (st x') RDefs lib) <-> c = next s \/ In c (kids s RDefs lib)) /\
      (forall l, l <> lib -> kids (st x') RDefs l = kids s RDefs l) /\
      (forall l c, In c (kids s RDefs l) -> get_str (st x') c str_NAME = get_str s c str_NAME) /\
      match get_str s d str_NAME with
      | Some nm => get_str (st x') (next s) str_NAME = Some (nm ++ str_uniq ++ dec (uniq_ctr x)) /\
                   uniq_ctr x' = S (uniq_ctr x) /\
                   (nstab s lib <> None -> forall c, In c (kids s RDefs lib) ->
                      get_str s c str_NAME <> Some (nm ++ str_uniq ++ dec (uniq_ctr x)))
      | None => get_str (st x') (next s) str_NAME = None /\ uniq_ctr x' = uniq_ctr x
      end.
  Proof.
    intro E. pose proof U as [I [T [F [FT0 K]]]]. pose proof (inv_a _ I) as I1.
    pose proof (ref_lt _ _ _ K F Ei) as Hd.
    unfold make_instance_unique in E. fold s in E. rewrite Ei in E.
    destruct (par s RDefs d) as [lib|] eqn:Ep; [|discriminate].
    assert (Hkd : kind_of s d = Some KDefinition).
    { apply (i1_kids _ I1) in Ep. apply (T RDefs lib d Ep). }
    assert (Hc : snd (fst (clone_definition s d)) = None).
    { revert E. destruct (clone_definition s d) as [[s1 [ex|]] dd]; cbn [liftR fst snd]; [discriminate|reflexivity]. }
    pose proof (clone_definition_old_attrs s d U Hd Hkd Hc) as OA1.
    pose proof (clone_definition_old_nstab s d U Hd Hkd Hc) as ON1.
    pose proof (clone_definition_struct_m s d U Hd Hkd Hc) as S.
    pose proof (clone_definition_data s d U Hd Hkd Hc) as DT.
    pose proof (rd_clone_definition s d) as [RK RP].
    assert (U1 : UF (fst (fst (clone_definition s d)))).
    { apply uf_clone_definition; [exact U|unfold is_kind; rewrite Hkd; reflexivity|exact Hc]. }
    pose proof (clone_definition_id s d) as Hid.
    revert E. destruct (clone_definition s d) as [[s1 e1] dd]. cbn [fst snd] in *. subst e1 dd. cbn [liftR]. intro E.
    set (d' := next s) in *. set (x1 := mkX s1 (uniq_ctr x) (flat_ctr x)) in E.
    destruct U1 as [I1' [T1 [F1 [FT1 K1]]]]. pose proof (inv_a _ I1') as I11.
    assert (Hkd1 : kind_of s1 d' = Some KDefinition).
    { destruct (ds_rng _ _ _ _ _ S d d' (ds_root _ _ _ _ _ S)) as [_ [_ H]]. rewrite H. exact Hkd. }
    assert (Hpar1 : ns_parent s1 d' = None) by (unfold ns_parent; rewrite Hkd1; apply (ds_detached _ _ _ _ _ S)).
    assert (Hold : forall l c, In c (kids s RDefs l) -> c < next s) by (intros l c Hcin; apply (kids_lt s RDefs l c F I1 Hcin)).
    assert (NK1 : forall y, y < next s -> name_key s1 y = name_key s y).
    { intros y Hy. unfold name_key, get_str. rewrite (attrs_data _ _ _ (OA1 y Hy)). reflexivity. }
    assert (L1 : LT n0 s1).
    { apply (lt_ext n0 s s1 HLT).
      - intros l Hl. apply ON1. lia.
      - intros l _. rewrite RK. reflexivity.
      - intros l c _ Hcin. apply NK1. apply (Hold l c Hcin). }
    assert (P1 : PL n0 s1) by (intros y l Hy; rewrite RP in Hy; apply (HPL y l Hy)).
    assert (Hnd1 : forall l, ~ In d' (kids s1 RDefs l)).
    { intros l Hin. rewrite RK in Hin. pose proof (Hold l d' Hin). unfold d' in *. lia. }
    (* the renaming *)
    set (named := match get_str (st x1) d str_NAME with Some nm => _ | None => _ end) in E.
    assert (Hnb : named = named_block x1 d d') by reflexivity.
    destruct named as [x5 [e|]]; [discriminate|]. symmetry in Hnb.
    destruct (named_block_spec x1 d d' x5 Hpar1 Hnb) as [SE5 [N5 [D5 HN5]]]. unfold x1 in SE5, N5, D5, HN5. cbn [st uniq_ctr] in SE5, N5, D5, HN5.
    assert (HnameS : get_str s1 d str_NAME = get_str s d str_NAME).
    { unfold get_str. rewrite (attrs_data _ _ _ (OA1 d Hd)). reflexivity. }
    rewrite HnameS in HN5.
    assert (Hname1 : get_str s1 d' str_NAME = get_str s d str_NAME).
    { apply (clone_get_str_same s d s1 _ DT d d' KDefinition (ds_root _ _ _ _ _ S) Hkd eq_refl). discriminate. }
    assert (NK5 : forall y, y <> d' -> name_key (st x5) y = name_key s1 y).
    { intros y Hy. unfold name_key, get_str. rewrite (D5 y Hy). reflexivity. }
    assert (L5 : LT n0 (st x5)).
    { apply (lt_ext n0 s1 (st x5) L1).
      - intros l _. rewrite N5. reflexivity.
      - intros l _. rewrite (se_kids _ _ SE5). reflexivity.
      - intros l c _ Hcin. apply NK5. intros ->. apply (Hnd1 l Hcin). }
    assert (P5 : PL n0 (st x5)) by (intros y l Hy; rewrite (se_par _ _ SE5) in Hy; apply (P1 y l Hy)).
    assert (T5 : InvT (st x5)) by (apply (tstep_invt _ _ (tstep_struct _ _ SE5) T1)).
    (* add_definition *)
    set (pos := Some (Datatypes.S (index_of d (kids s RDefs lib)))) in E.
    pose proof (add_def_spec (st x5) lib d' pos) as AD.
    destruct (op_add (st x5) RDefs lib d' pos) as [s3 [e|]]; cbn [liftR fst] in *; [discriminate|].
    destruct (AD s3 T5 eq_refl) as [Hklib [_ [_ [AK [AKo [AP [APo [AN [AT AL]]]]]]]]]. clear AD.
    cbn [st] in E.
    pose proof (q3_op_set_reference s3 inst (@Some id d')) as Q4.
    pose proof (fw_op_set_reference_but_iref s3 inst (@Some id d')) as FW. cbn zeta in FW.
    change (@Some nat d') with (@Some id d') in *.
    destruct (op_set_reference s3 inst (@Some id d')) as [s4 [e|]]; cbn [liftR fst snd] in *; [discriminate|].
    injection E as <-. cbn [st uniq_ctr]. destruct Q4 as [Q4k Q4d Q4t]. destruct FW as [_ [FWp _]].
    assert (Hliblt : lib < n0) by (apply (HPL d lib Ep)).
    assert (Hlibold : lib < next s) by lia.
    assert (K5 : kids (st x5) RDefs = kids s RDefs) by (rewrite (se_kids _ _ SE5); exact RK).
    assert (Hsub5 : forall l, l < next s -> ~ In l (subtree (st x5) d')).
    { intros l Hl. unfold subtree. rewrite (se_kind _ _ SE5), Hkd1. unfold def_subtree. rewrite !(se_kids _ _ SE5).
      assert (Hnew : forall b, (exists a, img (clone_memo s d) a b) -> b <> l).
      { intros b [a Hab] ->. destruct (ds_rng _ _ _ _ _ S a l Hab) as [_ [H _]]. lia. }
      intros [<-|Hin]; [unfold d' in Hl; lia|].
      apply in_app_or in Hin as [Hin|Hin]; [|apply in_app_or in Hin as [Hin|Hin]].
      - destruct (Forall2_in_r _ _ _ l (ds_ports _ _ _ _ _ S) Hin) as [a [_ Ha]]. apply (Hnew l); [exists a; exact Ha|reflexivity].
      - destruct (Forall2_in_r _ _ _ l (ds_cables _ _ _ _ _ S) Hin) as [a [_ Ha]]. apply (Hnew l); [exists a; exact Ha|reflexivity].
      - destruct (Forall2_in_r _ _ _ l (ds_children _ _ _ _ _ S) Hin) as [a [_ Ha]]. apply (Hnew l); [exists a; exact Ha|reflexivity]. }
    assert (Hnin5 : ~ In d' (kids (st x5) RDefs lib)) by (rewrite (se_kids _ _ SE5); apply Hnd1).
    (* the library tables after the addition *)
    assert (L3 : LT n0 s3).
    { intros l t' Hl Ht'. destruct (Nat.eq_dec l lib) as [->|Hne].
      - destruct (nstab (st x5) lib) as [t|] eqn:Et; [|rewrite AL in Ht'; discriminate].
        destruct AL as [t2 [Et2 Hnm]]. rewrite Et2 in Ht'. injection Ht' as <-.
        pose proof (L5 lib t Hliblt Et) as S5.
        assert (Hmem : forall c, In c (kids s3 RDefs lib) <-> In c (kids (st x5) RDefs lib) \/ c = d').
        { intro c. rewrite AK, py_insert_In. tauto. }
        destruct (name_key (st x5) d') as [v|] eqn:Ev.
        + destruct Hnm as [Hcf Hnames]. rewrite Hnames.
          pose proof (tab_conflict_free _ _ _ d' v S5 Hnin5 Hcf) as Hfree.
          apply (slot_ext _ _ _ _ _ (slot_insert _ _ _ d' v S5 Hnin5 Ev Hfree)); [exact Hmem|intros c _; apply AN].
        + rewrite Hnm. apply (slot_ext _ _ _ _ _ (slot_insert_keyless _ _ _ d' S5 Ev)); [exact Hmem|intros c _; apply AN].
      - rewrite (AT l Hne (Hsub5 l ltac:(lia))) in Ht'. pose proof (L5 l t' Hl Ht') as S5.
        apply (slot_ext _ _ _ _ _ S5); [intro c; rewrite (AKo l Hne); tauto|intros c _; apply AN]. }
    assert (P3 : PL n0 s3).
    { intros y l Hy. destruct (Nat.eq_dec y d') as [->|Hne]; [rewrite AP in Hy; injection Hy as <-; exact Hliblt|].
      rewrite (APo y Hne) in Hy. apply (P5 y l Hy). }
    assert (NK4 : forall y, name_key s4 y = name_key s3 y) by (intro y; unfold name_key, get_str; rewrite Q4d; reflexivity).
    split; [apply (lt_ext n0 s3 s4 L3); [intros l _; rewrite Q4t; reflexivity|intros l _; rewrite Q4k; reflexivity|intros l c _ _; apply NK4]|].
    split; [intros y l Hy; rewrite FWp in Hy; apply (P3 y l Hy)|].
    exists lib. split; [reflexivity|]. split; [rewrite FWp; exact AP|].
    split; [intro c; rewrite Q4k, AK, py_insert_In, K5; tauto|].
    split; [intros l Hne; rewrite Q4k, (AKo l Hne), K5; reflexivity|].
    split.
    { intros l c Hcin. pose proof (Hold l c Hcin) as Hcl. change (name_key s4 c = name_key s c).
      rewrite NK4, AN, (NK5 c ltac:(unfold d'; lia)). apply NK1. exact Hcl. }
    assert (Hname4 : get_str s4 d' str_NAME = get_str (st x5) d' str_NAME).
    { change (name_key s4 d' = name_key (st x5) d'). rewrite NK4. apply AN. }
    rewrite Hname4. destruct (get_str s d str_NAME) as [nm|] eqn:Enm.
    - destruct HN5 as [G5 C5]. split; [exact G5|]. split; [exact C5|].
      intros Htab c Hcin Hcn. destruct (nstab s lib) as [t|] eqn:Et; [|apply Htab; reflexivity].
      assert (Et5 : nstab (st x5) lib = Some t) by (rewrite N5, (ON1 lib Hlibold); exact Et).
      rewrite Et5 in AL. destruct AL as [t2 [_ Hnm]]. unfold name_key in Hnm. rewrite G5 in Hnm. destruct Hnm as [Hcf _].
      pose proof (L5 lib t Hliblt Et5) as S5.
      pose proof (tab_conflict_free _ _ _ d' _ S5 Hnin5 Hcf) as Hfree.
      assert (Hc5 : sassoc (nm ++ str_uniq ++ dec (uniq_ctr x)) (ns_names t KDefinition) = Some c).
      { apply S5. split; [rewrite K5; exact Hcin|]. rewrite (NK5 c ltac:(pose proof (Hold lib c Hcin); unfold d'; lia)), (NK1 c (Hold lib c Hcin)). exact Hcn. }
      rewrite Hfree in Hc5. discriminate.
    - destruct HN5 as [G5 C5]. rewrite G5. split; [rewrite Hname1; reflexivity|exact C5].
  Qed.
End RoundN.

(* a clash: if the library has a name table and already holds a definition with the name the copy would
   get, the round does not complete (add_definition raises ValueError after the clone was made) *)
Theorem round_clash n0 x inst d lib nm c :
  UF (st x) -> iref (st x) inst = Some d -> inst < next (st x) -> n0 <= next (st x) -> LT n0 (st x) -> PL n0 (st x) ->
  par (st x) RDefs d = Some lib -> get_str (st x) d str_NAME = Some nm -> nstab (st x) lib <> None ->
  In c (kids (st x) RDefs lib) -> get_str (st x) c str_NAME = Some (nm ++ str_uniq ++ dec (uniq_ctr x)) ->
  snd (make_instance_unique x inst) <> None.
Proof.
  intros U Ei Hi Hn HL HP Ep Enm Ht Hc Hcn. destruct (make_instance_unique x inst) as [x' [e|]] eqn:E; [discriminate|]. exfalso.
  destruct (round_names n0 x inst d U Ei Hi Hn HL HP x' E) as [_ [_ [lib' [Ep' [_ [_ [_ [_ H]]]]]]]].
  rewrite Ep in Ep'. injection Ep' as <-. rewrite Enm in H. destruct H as [_ [_ H]]. apply (H Ht c Hc Hcn).
Qed.

(* ---- the whole walk ---- *)
Definition UName (lo hi : nat) (v : str) : Prop := exists nm k, v = nm ++ str_uniq ++ dec k /\ lo <= k /\ k < hi.

(* the definitions with identifiers from b on carry names made by the walk *)
Definition AddedOK (b lo hi : nat) (s : state) : Prop :=
  forall l c v, In c (kids s RDefs l) -> b <= c -> get_str s c str_NAME = Some v -> UName lo hi v.

Lemma loop_names n0 b lo : forall fuel x Q x',
  UF (st x) -> n0 <= next (st x) -> LT n0 (st x) -> PL n0 (st x) -> b <= next (st x) -> lo <= uniq_ctr x -> AddedOK b lo (uniq_ctr x) (st x) ->
  (forall i, In i Q -> i < next (st x)) -> uniq_loop fuel x Q = (x', None) ->
  LT n0 (st x') /\ PL n0 (st x') /\ uniq_ctr x <= uniq_ctr x' /\ AddedOK b lo (uniq_ctr x') (st x').
Proof.
  induction fuel as [|fu IH]; intros x Q x' U Hn HL HP Hb Hlo HA HQ E; destruct Q as [|j rest]; cbn [uniq_loop] in E; try discriminate.
  - injection E as <-. split; [exact HL|split; [exact HP|split; [apply Nat.le_refl|exact HA]]].
  - injection E as <-. split; [exact HL|split; [exact HP|split; [apply Nat.le_refl|exact HA]]].
  - destruct (inst_unique (st x) j) as [u|] eqn:Hu; [|discriminate].
    pose proof U as [I [T [F [FT0 K]]]]. pose proof (inv_a _ I) as I1.
    pose proof (HQ j (or_introl eq_refl)) as Hj.
    destruct u.
    + destruct (iref (st x) j) as [d|] eqn:Hr; [|discriminate].
      apply (IH x (rest ++ kids (st x) RChildren d) x' U Hn HL HP Hb Hlo HA); [|exact E].
      intros i Hi. apply in_app_or in Hi as [Hi|Hi]; [apply HQ; right; exact Hi|apply (kids_lt _ _ _ _ F I1 Hi)].
    + destruct (iref (st x) j) as [d|] eqn:Hr.
      2:{ unfold make_instance_unique in E. rewrite Hr in E. discriminate. }
      pose proof (round_spec (st x) j d x eq_refl U Hr Hj) as HR.
      pose proof (round_names n0 x j d U Hr Hj Hn HL HP) as HN.
      destruct (make_instance_unique x j) as [x1 [e|]] eqn:Em; [discriminate|].
      assert (Q1 : QB (st x) j d (st x1)) by (apply HR; reflexivity).
      destruct (HN x1 eq_refl) as [L1 [P1 [lib [Ep [_ [Hmem [Hoth [Hnames Hnew]]]]]]]].
      pose proof (qb_uf _ _ _ _ Q1) as U1. pose proof (qb_next _ _ _ _ Q1) as Hn1.
      destruct (iref (st x1) j) as [d1|] eqn:Hr1; [|discriminate].
      pose proof U1 as [I' [T' [F' [FT' K']]]]. pose proof (inv_a _ I') as I1'.
      assert (Hctr : uniq_ctr x <= uniq_ctr x1).
      { destruct (get_str (st x) d str_NAME); [destruct Hnew as [_ [-> _]]; lia|destruct Hnew as [_ ->]; lia]. }
      assert (HA1 : AddedOK b lo (uniq_ctr x1) (st x1)).
      { intros l c v Hcin Hbc Hv.
        assert (Hcase : In c (kids (st x) RDefs l) \/ (l = lib /\ c = next (st x))).
        { destruct (Nat.eq_dec l lib) as [->|Hne]; [apply Hmem in Hcin as [->|H]; [right; split; reflexivity|left; exact H]|].
          rewrite (Hoth l Hne) in Hcin. left. exact Hcin. }
        destruct Hcase as [Hold|[-> ->]].
        - rewrite (Hnames l c Hold) in Hv. destruct (HA l c v Hold Hbc Hv) as [nm [k [-> [A B]]]]. exists nm, k. split; [reflexivity|lia].
        - destruct (get_str (st x) d str_NAME) as [nm|]; [|destruct Hnew as [Hnone _]; rewrite Hnone in Hv; discriminate].
          destruct Hnew as [Hsome [Hc1 _]]. rewrite Hsome in Hv. injection Hv as <-. exists nm, (uniq_ctr x). split; [reflexivity|lia]. }
      destruct (IH x1 (rest ++ kids (st x1) RChildren d1) x') as [L2 [P2 [C2 A2]]]; try assumption; try lia.
      * intros i Hi. apply in_app_or in Hi as [Hi|Hi]; [pose proof (HQ i (or_intror Hi)); lia|apply (kids_lt _ _ _ _ F' I1' Hi)].
      * split; [exact L2|split; [exact P2|split; [lia|exact A2]]].
Qed.

(* a completed uniquify: the name tables of the libraries stay exact - so no library with a name table
   holds two definitions with one name - and the definitions it added are named <old>_sdn_unique_<k>
   with k between the value of the module counter before and after the run *)
Theorem uniquify_names fuel x n x' :
  UF (st x) -> LT (next (st x)) (st x) -> uniquify fuel x n = (x', None) ->
  LT (next (st x)) (st x') /\ uniq_ctr x <= uniq_ctr x' /\ AddedOK (next (st x)) (uniq_ctr x) (uniq_ctr x') (st x').
Proof.
  intros U HL E. unfold uniquify in E. destruct (top (st x) n) as [t|]; [|discriminate].
  destruct (iref (st x) t) as [dtop|] eqn:Hr; [|discriminate].
  pose proof U as [I [T [F [FT0 K]]]]. pose proof (inv_a _ I) as I1.
  assert (HP : PL (next (st x)) (st x)).
  { intros y l Hy. destruct (Nat.lt_ge_cases l (next (st x))) as [H|H]; [exact H|].
    apply (i1_kids _ I1) in Hy. rewrite (f_kids _ F RDefs l H) in Hy. destruct Hy. }
  assert (HA : AddedOK (next (st x)) (uniq_ctr x) (uniq_ctr x) (st x)).
  { intros l c v Hc Hb _. pose proof (kids_lt _ _ _ _ F I1 Hc). lia. }
  destruct (loop_names (next (st x)) (next (st x)) (uniq_ctr x) fuel x (kids (st x) RChildren dtop) x' U (Nat.le_refl _) HL HP (Nat.le_refl _) (Nat.le_refl _) HA) as [L [_ [C A]]]; [|exact E|].
  - intros i Hi. apply (kids_lt _ _ _ _ F I1 Hi).
  - split; [exact L|]. split; [exact C|exact A].
Qed.

Theorem uniquify_no_duplicate_names fuel x n x' l t c1 c2 v :
  UF (st x) -> LT (next (st x)) (st x) -> uniquify fuel x n = (x', None) ->
  l < next (st x) -> nstab (st x') l = Some t ->
  In c1 (kids (st x') RDefs l) -> In c2 (kids (st x') RDefs l) ->
  get_str (st x') c1 str_NAME = Some v -> get_str (st x') c2 str_NAME = Some v -> c1 = c2.
Proof.
  intros U HL E Hl Ht H1 H2 E1 E2. destruct (uniquify_names fuel x n x' U HL E) as [L _].
  apply (lt_unique _ _ l t c1 c2 v L Hl Ht H1 H2 E1 E2).
Qed.
